/-
C15 — the contract an incremental codec (`xfrm_stream_t::process_data`) has to meet for the wrappers
`ostream_xfrm` / `istream_xfrm` to be transparent.  The compression libraries are *not* verified: they are
represented by these structures of hypotheses (trusted base), and the wrapper theorems hold for **every**
codec that satisfies them.  `Sqfs/Props/C15.lean` shows that the contracts are satisfiable (toy codec) and
that the backends' `process_data` loops turn a library stream with the documented zlib/liblzma/libbz2
calling convention into a codec that meets them.

`Dec : Bytes → Option Bytes` is the one-shot reference decoder of exactly one member.
-/
import Sqfs.Model.Xfrm
import Sqfs.Spec.Xfrm
namespace Sqfs.Xfrm
open Sqfs.Xfrm.Spec

/-- `a` is a prefix of `b` -/
def IsPre (a b : Bytes) : Prop := ∃ t, b = a ++ t

/--
Contract of an **encoder**.
`R s x y fin`: in the member under construction `x` has been taken in and `y` has been handed out; `fin` says
that the caller has already asked for `FLUSH_FULL` with all its input taken — from then on it has to keep
asking for `FLUSH_FULL` without new input until `END` (`Proto`; zlib & co. answer anything else with a
sequence error).  `pend s` bounds the number of further calls that take nothing in.

`Proto` also says `fl ≠ Flush.sync`: the contracts speak about the two flush modes the wrappers pass (`ostream.c`:
`FLUSH_NONE` / `FLUSH_FULL`, `istream.c`: the same two).  `XFRM_STREAM_FLUSH_SYNC` is mapped by the backends to
`Z_SYNC_FLUSH` / `LZMA_FULL_FLUSH` / `BZ_FLUSH` / `ZSTD_e_flush`, which the real libraries answer in ways no clause below
allows (liblzma's encoder answers `LZMA_STREAM_END` to a completed `LZMA_FULL_FLUSH` without ending the stream, its decoder
answers `LZMA_PROG_ERROR`; libbz2 answers `BZ_SEQUENCE_ERROR` to a `BZ_RUN` that follows an unfinished `BZ_FLUSH`): with the
clauses quantified over all three modes `False` was derivable from the library contracts plus any one of these facts
(review E, F2), i.e. the `backend_*` theorems were vacuous for liblzma/libbz2.  Nothing is claimed about `FLUSH_SYNC`.
-/
def Proto (fin : Bool) (fl : Flush) (inp : Bytes) : Prop := fl ≠ Flush.sync ∧ (fin = true → fl = Flush.full ∧ inp = [])

structure EncContract {σ : Type} (C : Codec σ) (Dec : Bytes → Option Bytes) where
  R : σ → Bytes → Bytes → Bool → Prop
  pend : σ → Nat
  init : R C.init [] [] false
  /-- an encoder never fails -/
  no_error : ∀ {s x y fin} (inp : Bytes) (room : Nat) (fl : Flush), R s x y fin → Proto fin fl inp →
    (C.step s inp room fl).res ≠ Res.error
  /-- it stays inside the buffers it is given -/
  consumed_le : ∀ {s x y fin} (inp : Bytes) (room : Nat) (fl : Flush), R s x y fin → Proto fin fl inp →
    (C.step s inp room fl).consumed ≤ inp.length
  out_le : ∀ {s x y fin} (inp : Bytes) (room : Nat) (fl : Flush), R s x y fin → Proto fin fl inp →
    (C.step s inp room fl).out.length ≤ room
  /-- while the member is open, bookkeeping -/
  keep : ∀ {s x y fin} (inp : Bytes) (room : Nat) (fl : Flush), R s x y fin → Proto fin fl inp →
    (C.step s inp room fl).res ≠ Res.streamEnd →
    R (C.step s inp room fl).st (x ++ inp.take (C.step s inp room fl).consumed) (y ++ (C.step s inp room fl).out)
      (fin || (decide (fl = Flush.full) && decide ((C.step s inp room fl).consumed = inp.length)))
  /-- `END` is never answered to `FLUSH_NONE`, and only after all input has been taken; what has been handed out for the
      member then decodes to what has been taken in; the codec is ready for the next member -/
  finish : ∀ {s x y fin} (inp : Bytes) (room : Nat) (fl : Flush), R s x y fin → Proto fin fl inp →
    (C.step s inp room fl).res = Res.streamEnd →
    fl ≠ Flush.none ∧ (C.step s inp room fl).consumed = inp.length ∧ R (C.step s inp room fl).st [] [] false ∧
    (x ++ inp ≠ [] → Dec (y ++ (C.step s inp room fl).out) = some (x ++ inp))
  /-- progress: a call with room and either input or a pending flush of an open member takes something in, or
      comes closer to having handed out everything -/
  progress : ∀ {s x y fin} (inp : Bytes) (room : Nat) (fl : Flush), R s x y fin → Proto fin fl inp → 0 < room →
    (inp ≠ [] ∨ (fl = Flush.full ∧ x ≠ [])) → (C.step s inp room fl).res ≠ Res.streamEnd →
    0 < (C.step s inp room fl).consumed ∨ pend (C.step s inp room fl).st < pend s

/--
Contract of a **decoder**.
`R s u v`: of the current member the bytes `u` have been consumed and `v` has been handed out.
-/
structure DecContract {σ : Type} (C : Codec σ) (Dec : Bytes → Option Bytes) where
  R : σ → Bytes → Bytes → Prop
  pend : σ → Nat
  init : R C.init [] []
  /-- a member is never empty -/
  dec_nil : Dec [] = none
  /--
  Inside (or at the start of) a valid member `u ++ w`, offered a prefix `inp` of what follows in the stream
  (`FLUSH_FULL` promises that no more input exists, so then `inp` must contain the rest of the member):
  no error, nothing is consumed beyond the member, what is handed out continues the member's content, `END`
  exactly when the member is complete *and* completely handed out, `BUFFER_FULL` only together with output.
  -/
  valid : ∀ {s u v} (w x tail inp : Bytes) (room : Nat) (fl : Flush), fl ≠ Flush.sync → R s u v → Dec (u ++ w) = some x →
    IsPre inp (w ++ tail) → (fl = Flush.full → w.length ≤ inp.length) →
    (C.step s inp room fl).res ≠ Res.error ∧
    (C.step s inp room fl).consumed ≤ inp.length ∧ (C.step s inp room fl).consumed ≤ w.length ∧
    (C.step s inp room fl).out.length ≤ room ∧ IsPre (v ++ (C.step s inp room fl).out) x ∧
    ((C.step s inp room fl).res = Res.streamEnd →
        (C.step s inp room fl).consumed = w.length ∧ v ++ (C.step s inp room fl).out = x ∧ R (C.step s inp room fl).st [] []) ∧
    ((C.step s inp room fl).res ≠ Res.streamEnd →
        R (C.step s inp room fl).st (u ++ inp.take (C.step s inp room fl).consumed) (v ++ (C.step s inp room fl).out)) ∧
    ((C.step s inp room fl).res = Res.bufferFull → (C.step s inp room fl).out ≠ [])
  /-- progress with input: something is consumed, or the codec comes closer to having handed out everything
      (also when the call ends the member) -/
  progress : ∀ {s u v} (w x tail inp : Bytes) (room : Nat) (fl : Flush), fl ≠ Flush.sync → R s u v → Dec (u ++ w) = some x →
    IsPre inp (w ++ tail) → (fl = Flush.full → w.length ≤ inp.length) → 0 < room → inp ≠ [] →
    0 < (C.step s inp room fl).consumed ∨ pend (C.step s inp room fl).st < pend s
  /-- at the end of the input, with the member completely consumed: hand out what is left, or end the member -/
  drain : ∀ {s u v} (x : Bytes) (room : Nat), R s u v → Dec u = some x → 0 < room →
    (C.step s [] room Flush.full).out ≠ [] ∨ (C.step s [] room Flush.full).res = Res.streamEnd
  /-- at the end of the input between two members: nothing happens, no error -/
  idle_eof : ∀ {s} (room : Nat), R s [] [] → 0 < room →
    (C.step s [] room Flush.full).res ≠ Res.error ∧ (C.step s [] room Flush.full).out = [] ∧
    (C.step s [] room Flush.full).consumed = 0 ∧ R (C.step s [] room Flush.full).st [] []
  /-- **truncated input**: at the end of the input inside a member, the decoder hands out what it still holds
      and then reports an error; it never answers `END` -/
  truncated : ∀ {s u v} (w x : Bytes) (room : Nat), R s u v → u ≠ [] → w ≠ [] → Dec (u ++ w) = some x → 0 < room →
    (C.step s [] room Flush.full).res = Res.error ∨
    ((C.step s [] room Flush.full).res ≠ Res.streamEnd ∧ (C.step s [] room Flush.full).out ≠ [] ∧
     (C.step s [] room Flush.full).consumed = 0 ∧ (C.step s [] room Flush.full).out.length ≤ room ∧
     IsPre (v ++ (C.step s [] room Flush.full).out) x ∧
     R (C.step s [] room Flush.full).st u (v ++ (C.step s [] room Flush.full).out))

/--
Calling convention of a zlib-style **compressing** stream object (`deflate`, `lzma_code` on an encoder,
`BZ2_bzCompress`), as documented by the three libraries, in the shape of `EncContract`: calls are only made
with room (`avail_out > 0`); the answer is `OK`, `STREAM_END`, or — zlib and liblzma only — `BUF_ERROR`; a call
answered `OK` has consumed or produced at least one byte; `STREAM_END` only to `FINISH`.  `R … true` is the state of
a caller that has promised to go on with `FINISH` and no input, so a state good for any caller is good for it (`mono`).
-/
structure LibEncContract {τ : Type} (L : Lib τ) (b : Backend) (Dec : Bytes → Option Bytes) where
  R : τ → Bytes → Bytes → Bool → Prop
  pend : τ → Nat
  init : R L.init [] [] false
  mono : ∀ {s x y}, R s x y false → R s x y true
  ret_ok : ∀ {s x y fin} (inp : Bytes) (room : Nat) (fl : Flush), R s x y fin → Proto fin fl inp → 0 < room →
    (L.call s inp room fl).ret = LibRet.ok ∨ (L.call s inp room fl).ret = LibRet.streamEnd ∨
    ((L.call s inp room fl).ret = LibRet.bufError ∧ b ≠ Backend.bzip2)
  consumed_le : ∀ {s x y fin} (inp : Bytes) (room : Nat) (fl : Flush), R s x y fin → Proto fin fl inp → 0 < room →
    (L.call s inp room fl).consumed ≤ inp.length
  out_le : ∀ {s x y fin} (inp : Bytes) (room : Nat) (fl : Flush), R s x y fin → Proto fin fl inp → 0 < room →
    (L.call s inp room fl).out.length ≤ room
  keep : ∀ {s x y fin} (inp : Bytes) (room : Nat) (fl : Flush), R s x y fin → Proto fin fl inp → 0 < room →
    (L.call s inp room fl).ret ≠ LibRet.streamEnd →
    R (L.call s inp room fl).st (x ++ inp.take (L.call s inp room fl).consumed) (y ++ (L.call s inp room fl).out)
      (fin || (decide (fl = Flush.full) && decide ((L.call s inp room fl).consumed = inp.length)))
  finish : ∀ {s x y fin} (inp : Bytes) (room : Nat) (fl : Flush), R s x y fin → Proto fin fl inp → 0 < room →
    (L.call s inp room fl).ret = LibRet.streamEnd →
    fl = Flush.full ∧ (L.call s inp room fl).consumed = inp.length ∧ R (L.reset (L.call s inp room fl).st) [] [] false ∧
    (x ++ inp ≠ [] → Dec (y ++ (L.call s inp room fl).out) = some (x ++ inp))
  progress : ∀ {s x y fin} (inp : Bytes) (room : Nat) (fl : Flush), R s x y fin → Proto fin fl inp → 0 < room →
    (inp ≠ [] ∨ (fl = Flush.full ∧ x ≠ [])) → (L.call s inp room fl).ret ≠ LibRet.streamEnd →
    0 < (L.call s inp room fl).consumed ∨ pend (L.call s inp room fl).st < pend s
  bytes : ∀ {s x y fin} (inp : Bytes) (room : Nat) (fl : Flush), R s x y fin → Proto fin fl inp → 0 < room →
    (inp ≠ [] ∨ fl = Flush.full) →
    (L.call s inp room fl).ret = LibRet.ok → 0 < (L.call s inp room fl).consumed + (L.call s inp room fl).out.length

/--
Calling convention of a zlib-style **decompressing** stream object (`inflate`, `lzma_code` on a decoder,
`BZ2_bzDecompress`) on well-formed input, in the shape of `DecContract`.  `R s u v`: of the current member `u` has been
consumed and `v` produced.  Calls are made with room only.
-/
structure LibDecContract {τ : Type} (L : Lib τ) (b : Backend) (Dec : Bytes → Option Bytes) where
  R : τ → Bytes → Bytes → Prop
  pend : τ → Nat
  init : R L.init [] []
  dec_nil : Dec [] = none
  /-- `total_in` is zero exactly as long as nothing of the current member has been consumed -/
  total : ∀ {s u v}, R s u v → (L.totalIn s = 0 ↔ u = [])
  /-- inside a valid member, offered a prefix of what follows: `OK`, `STREAM_END` or (zlib, liblzma) `BUF_ERROR`;
      nothing beyond the member is consumed; the output continues the content; `STREAM_END` exactly at the end -/
  valid : ∀ {s u v} (w x tail inp : Bytes) (room : Nat) (fl : Flush), fl ≠ Flush.sync → R s u v → Dec (u ++ w) = some x →
    IsPre inp (w ++ tail) → 0 < room →
    ((L.call s inp room fl).ret = LibRet.ok ∨ (L.call s inp room fl).ret = LibRet.streamEnd ∨
      ((L.call s inp room fl).ret = LibRet.bufError ∧ b ≠ Backend.bzip2)) ∧
    (L.call s inp room fl).consumed ≤ inp.length ∧ (L.call s inp room fl).consumed ≤ w.length ∧
    (L.call s inp room fl).out.length ≤ room ∧ IsPre (v ++ (L.call s inp room fl).out) x ∧
    ((L.call s inp room fl).ret = LibRet.streamEnd →
      (L.call s inp room fl).consumed = w.length ∧ v ++ (L.call s inp room fl).out = x ∧ R (L.reset (L.call s inp room fl).st) [] []) ∧
    ((L.call s inp room fl).ret ≠ LibRet.streamEnd →
      R (L.call s inp room fl).st (u ++ inp.take (L.call s inp room fl).consumed) (v ++ (L.call s inp room fl).out))
  /-- a call with input that answers `OK` has consumed or produced something -/
  bytes : ∀ {s u v} (w x tail inp : Bytes) (room : Nat) (fl : Flush), fl ≠ Flush.sync → R s u v → Dec (u ++ w) = some x →
    IsPre inp (w ++ tail) → 0 < room → inp ≠ [] → (L.call s inp room fl).ret = LibRet.ok →
    0 < (L.call s inp room fl).consumed + (L.call s inp room fl).out.length
  progress : ∀ {s u v} (w x tail inp : Bytes) (room : Nat) (fl : Flush), fl ≠ Flush.sync → R s u v → Dec (u ++ w) = some x →
    IsPre inp (w ++ tail) → 0 < room → inp ≠ [] →
    0 < (L.call s inp room fl).consumed ∨
    pend (if (L.call s inp room fl).ret = LibRet.streamEnd then L.reset (L.call s inp room fl).st else (L.call s inp room fl).st) < pend s
  /-- `BUF_ERROR` without output means: all offered input has been consumed and more is needed (zlib answers it to `Z_FINISH`
      whenever the member is not complete; otherwise only when no progress was possible) -/
  buf_quiet : ∀ {s u v} (w x tail inp : Bytes) (room : Nat) (fl : Flush), fl ≠ Flush.sync → R s u v → Dec (u ++ w) = some x →
    IsPre inp (w ++ tail) → 0 < room → (L.call s inp room fl).ret = LibRet.bufError → (L.call s inp room fl).out = [] →
    (L.call s inp room fl).consumed = inp.length ∧ (fl = Flush.full ∨ inp = [])
  /-- output is produced as the input is consumed: a call after which the member is completely consumed hands something
      out or ends the member -/
  drain : ∀ {s u v} (w x tail inp : Bytes) (room : Nat) (fl : Flush), fl ≠ Flush.sync → R s u v → Dec (u ++ w) = some x →
    IsPre inp (w ++ tail) → 0 < room → (L.call s inp room fl).consumed = w.length →
    (L.call s inp room fl).out ≠ [] ∨ (L.call s inp room fl).ret = LibRet.streamEnd
  /-- between two members, without input: nothing happens -/
  idle : ∀ {s} (room : Nat) (fl : Flush), fl ≠ Flush.sync → R s [] [] → 0 < room →
    ((L.call s [] room fl).ret = LibRet.ok ∨ ((L.call s [] room fl).ret = LibRet.bufError ∧ b ≠ Backend.bzip2)) ∧
    (L.call s [] room fl).out = [] ∧ (L.call s [] room fl).consumed = 0 ∧ R (L.call s [] room fl).st [] []

/-- calling convention of `ZSTD_compressStream2` -/
structure ZEncContract {τ : Type} (L : ZLib τ) (Dec : Bytes → Option Bytes) where
  R : τ → Bytes → Bytes → Bool → Prop
  pend : τ → Nat
  init : R L.init [] [] false
  mono : ∀ {s x y}, R s x y false → R s x y true
  ok : ∀ {s x y fin} (inp : Bytes) (room : Nat) (fl : Flush), R s x y fin → Proto fin fl inp → 0 < room →
    (L.call s inp room fl).isError = false ∧ (L.call s inp room fl).consumed ≤ inp.length ∧ (L.call s inp room fl).out.length ≤ room
  /-- `ZSTD_e_end` answered with 0: the frame is complete -/
  done : ∀ {s x y fin} (inp : Bytes) (room : Nat) (fl : Flush), R s x y fin → Proto fin fl inp → 0 < room →
    fl = Flush.full → (L.call s inp room fl).hint = 0 →
    (L.call s inp room fl).consumed = inp.length ∧ R (L.call s inp room fl).st [] [] false ∧
    (x ++ inp ≠ [] → Dec (y ++ (L.call s inp room fl).out) = some (x ++ inp))
  keep : ∀ {s x y fin} (inp : Bytes) (room : Nat) (fl : Flush), R s x y fin → Proto fin fl inp → 0 < room →
    ¬ (fl = Flush.full ∧ (L.call s inp room fl).hint = 0) →
    R (L.call s inp room fl).st (x ++ inp.take (L.call s inp room fl).consumed) (y ++ (L.call s inp room fl).out)
      (fin || (decide (fl = Flush.full) && decide ((L.call s inp room fl).consumed = inp.length)))
  progress : ∀ {s x y fin} (inp : Bytes) (room : Nat) (fl : Flush), R s x y fin → Proto fin fl inp → 0 < room →
    (inp ≠ [] ∨ (fl = Flush.full ∧ x ≠ [])) → ¬ (fl = Flush.full ∧ (L.call s inp room fl).hint = 0) →
    0 < (L.call s inp room fl).consumed ∨ pend (L.call s inp room fl).st < pend s
  /-- a call with input, or with `ZSTD_e_end`, and room does something -/
  bytes : ∀ {s x y fin} (inp : Bytes) (room : Nat) (fl : Flush), R s x y fin → Proto fin fl inp → 0 < room →
    (inp ≠ [] ∨ fl = Flush.full) → 0 < (L.call s inp room fl).consumed + (L.call s inp room fl).out.length

/-! ## Stream level: what `istream_xfrm` needs from a decoder, whatever its member handling

`DecContract` is phrased per member (`END` exactly at the end of each member, nothing consumed beyond it).  The
decompressing side of `zstd.c` does not work like that: one `process_data` call decodes across frame boundaries and
answers `END` only at the end of the input.  `precache` never looks at `END`, so transparency only needs the weaker,
stream-level contract below, which both kinds of decoder meet (`Sqfs/Proofs/Xfrm.lean: streamOfDec`,
`Sqfs/Proofs/XfrmZstdDec.lean: zstdDecStream`).
-/

/-- the three kinds of compressed input the property speaks about -/
inductive Kind where
  /-- a sequence of complete members (possibly none) -/
  | valid
  /-- complete members followed by a non-empty proper prefix of a valid member -/
  | truncated
  /-- complete members followed by bytes that neither are a prefix of a valid member nor start with one -/
  | corrupt
  deriving DecidableEq, Repr

/-- `c` is neither a prefix of a valid member nor does it start with one (so it is not empty, if a valid member exists):
what follows the last intact member of a **corrupted** input -/
def Dead (Dec : Bytes → Option Bytes) (c : Bytes) : Prop :=
  c ≠ [] ∧ ∀ m x, Dec m = some x → ¬ IsPre c m ∧ ¬ IsPre m c

/-- what follows the complete members: nothing / a cut-off member with content `xT` / dead bytes -/
def Tail (Dec : Bytes → Option Bytes) (K : Kind) (t xT : Bytes) : Prop :=
  match K with
  | Kind.valid => t = [] ∧ xT = []
  | Kind.truncated => t ≠ [] ∧ ∃ t', t' ≠ [] ∧ Dec (t ++ t') = some xT
  | Kind.corrupt => Dead Dec t ∧ xT = []

/--
One step hands out `out` while the exact content `rem` and then at most `j` bytes of unspecified data ("junk": what a
decoder emits between the point where the input goes wrong and the point where it notices) are still to come;
afterwards `rem'` and at most `j'` are still to come.  With `j = 0` this is `rem = out ++ rem'`.
-/
def Link (rem : Bytes) (j : Nat) (out rem' : Bytes) (j' : Nat) : Prop :=
  ∃ a b, out = a ++ b ∧ rem = a ++ rem' ∧ (b ≠ [] → rem' = []) ∧ b.length + j' ≤ j

/-- what a reader may have received: a prefix of the exact content `X`, or all of it followed by at most `J` junk bytes -/
def Deliv (X : Bytes) (J : Nat) (acc : Bytes) : Prop :=
  ∃ a b, acc = a ++ b ∧ IsPre a X ∧ b.length ≤ J ∧ (b ≠ [] → a = X)

/--
Stream-level contract of a **decoder**.  `G K s rest rem j`: the decoder is in state `s`, the wrapped stream still holds
`rest` (an input of kind `K`), and the content still to come is exactly `rem`, followed — only for `K = corrupt` — by at
most `j` bytes of junk.

* `step_none`: a call with a non-empty prefix of `rest`, room and `FLUSH_NONE` fails only on corrupted input; otherwise it
  stays inside its buffers, what it hands out continues the content, `BUFFER_FULL` comes with output, and it consumes
  something, or comes closer to having handed out everything, or fills the buffer.
* `step_full`: the call at the end of the input (`FLUSH_FULL`, no input) fails only on truncated/corrupted input; otherwise
  it hands out more content; on valid input "nothing handed out" means that nothing is left; on truncated/corrupted input
  it never comes back empty-handed (that is what would be taken for a regular end of stream).
-/
structure StreamDecContract {σ : Type} (C : Codec σ) (Dec : Bytes → Option Bytes) where
  G : Kind → σ → Bytes → Bytes → Nat → Prop
  pend : σ → Nat
  start_valid : ∀ {ms xs : List Bytes}, Members Dec ms xs → G Kind.valid C.init ms.flatten xs.flatten 0
  start_truncated : ∀ {ms xs : List Bytes} {t t' xT : Bytes}, Members Dec ms xs → t ≠ [] → t' ≠ [] →
    Dec (t ++ t') = some xT → G Kind.truncated C.init (ms.flatten ++ t) (xs.flatten ++ xT) 0
  no_junk : ∀ {K s rest rem j}, G K s rest rem j → K ≠ Kind.corrupt → j = 0
  step_none : ∀ {K s rest rem j}, G K s rest rem j → ∀ (n room : Nat), 0 < n → n ≤ rest.length → 0 < room →
    ∀ r, r = C.step s (rest.take n) room Flush.none →
    (r.res = Res.error ∧ K = Kind.corrupt) ∨
    (r.res ≠ Res.error ∧ r.out.length ≤ room ∧ r.consumed ≤ n ∧
      (∃ rem' j', G K r.st (rest.drop r.consumed) rem' j' ∧ Link rem j r.out rem' j') ∧
      (r.res = Res.bufferFull → r.out ≠ []) ∧
      (0 < r.consumed ∨ pend r.st < pend s ∨ r.res = Res.bufferFull))
  step_full : ∀ {K s rem j}, G K s [] rem j → ∀ (room : Nat), 0 < room →
    ∀ r, r = C.step s [] room Flush.full →
    (r.res = Res.error ∧ K ≠ Kind.valid) ∨
    (r.res ≠ Res.error ∧ r.consumed = 0 ∧ r.out.length ≤ room ∧
      (∃ rem' j', G K r.st [] rem' j' ∧ Link rem j r.out rem' j') ∧
      (K = Kind.valid → r.out = [] → rem = []) ∧ (K ≠ Kind.valid → r.out ≠ []))

/-- … and its behaviour on **corrupted** input: behind any sequence of intact members, dead bytes `c` lead to an error
after at most `budget |c|` bytes of junk -/
structure StreamDecErrContract {σ : Type} (C : Codec σ) (Dec : Bytes → Option Bytes) extends StreamDecContract C Dec where
  budget : Nat → Nat
  start_corrupt : ∀ {ms xs : List Bytes} {c : Bytes}, Members Dec ms xs → Dead Dec c →
    G Kind.corrupt C.init (ms.flatten ++ c) xs.flatten (budget c.length)

/--
Codec-level contract for input that has **gone wrong** (extension of `DecContract`), first part.  `B s rest j`: the decoder
is inside (or at the start of) something that is not a member, `rest` is all that is left of the input, and at most `j` more
bytes will be handed out.  From then on a call either reports an error or keeps to its buffers and makes progress; at the end
of the input it reports an error unless it still has something to hand out — it **never** comes back empty-handed and never
consumes "successfully" for ever.  Nothing is said about `END`: `precache` does not look at it.
-/
structure Doom {σ : Type} {C : Codec σ} {Dec : Bytes → Option Bytes} (hD : DecContract C Dec) where
  B : σ → Bytes → Nat → Prop
  budget : Nat → Nat
  step_none : ∀ {s rest j}, B s rest j → ∀ (n room : Nat), 0 < n → n ≤ rest.length → 0 < room →
    ∀ r, r = C.step s (rest.take n) room Flush.none →
    r.res = Res.error ∨
    (r.out.length ≤ room ∧ r.consumed ≤ n ∧ (∃ j', B r.st (rest.drop r.consumed) j' ∧ r.out.length + j' ≤ j) ∧
      (r.res = Res.bufferFull → r.out ≠ []) ∧
      (0 < r.consumed ∨ hD.pend r.st < hD.pend s ∨ r.res = Res.bufferFull))
  step_full : ∀ {s j}, B s [] j → ∀ (room : Nat), 0 < room →
    ∀ r, r = C.step s [] room Flush.full →
    r.res = Res.error ∨
    (r.consumed = 0 ∧ r.out ≠ [] ∧ r.out.length ≤ room ∧ ∃ j', B r.st [] j' ∧ r.out.length + j' ≤ j)

/-- … second part: at a member boundary, dead bytes `c` lead into `B` with a budget that depends on their number only -/
structure DecErrContract {σ : Type} {C : Codec σ} {Dec : Bytes → Option Bytes} (hD : DecContract C Dec) extends Doom hD where
  enter : ∀ {s : σ} {c : Bytes}, hD.R s [] [] → Dead Dec c → B s c (budget c.length)

/-! ### libzstd, decompressing -/

/--
Calling convention of `ZSTD_decompressStream` on well-formed input.  `R s u v`: of the current frame `u` has been consumed
and `v` handed out.  Calls are made with room, and with input or inside a frame (`zstd.c` keeps a `pending` flag for that).
The return value (`hint`) is 0 **exactly** when the frame is completely decoded and handed out.
-/
structure ZDecContract {τ : Type} (L : ZLib τ) (Dec : Bytes → Option Bytes) where
  R : τ → Bytes → Bytes → Prop
  init : R L.init [] []
  dec_nil : Dec [] = none
  valid : ∀ {s u v} (w x tail inp : Bytes) (room : Nat) (fl : Flush), R s u v → Dec (u ++ w) = some x →
    IsPre inp (w ++ tail) → 0 < room → (u ≠ [] ∨ inp ≠ []) →
    (L.call s inp room fl).isError = false ∧
    (L.call s inp room fl).consumed ≤ inp.length ∧ (L.call s inp room fl).consumed ≤ w.length ∧
    (L.call s inp room fl).out.length ≤ room ∧ IsPre (v ++ (L.call s inp room fl).out) x ∧
    ((L.call s inp room fl).hint = 0 ↔
      ((L.call s inp room fl).consumed = w.length ∧ v ++ (L.call s inp room fl).out = x)) ∧
    ((L.call s inp room fl).hint = 0 → R (L.call s inp room fl).st [] []) ∧
    ((L.call s inp room fl).hint ≠ 0 →
      R (L.call s inp room fl).st (u ++ inp.take (L.call s inp room fl).consumed) (v ++ (L.call s inp room fl).out))
  /-- a call with input and room does something -/
  bytes : ∀ {s u v} (w x tail inp : Bytes) (room : Nat) (fl : Flush), R s u v → Dec (u ++ w) = some x →
    IsPre inp (w ++ tail) → 0 < room → inp ≠ [] →
    0 < (L.call s inp room fl).consumed + (L.call s inp room fl).out.length
  /-- output is produced as the input is consumed: a call after which the frame is completely consumed hands something out
      or reports the end of the frame -/
  drain : ∀ {s u v} (w x tail inp : Bytes) (room : Nat) (fl : Flush), R s u v → Dec (u ++ w) = some x →
    IsPre inp (w ++ tail) → 0 < room → (u ≠ [] ∨ inp ≠ []) → (L.call s inp room fl).consumed = w.length →
    (L.call s inp room fl).out ≠ [] ∨ (L.call s inp room fl).hint = 0

/-- `ZSTD_decompressStream` on input that has gone wrong, called with input or at the end of the input (`zstd.c` makes no
other calls): an error code, or it keeps to its buffers, does something, and never claims that a frame is complete (`hint ≠ 0`) -/
structure ZDoom {τ : Type} {L : ZLib τ} {Dec : Bytes → Option Bytes} (hZ : ZDecContract L Dec) where
  B : τ → Bytes → Nat → Prop
  budget : Nat → Nat
  call : ∀ {s rest j}, B s rest j → ∀ (inp : Bytes) (room : Nat) (fl : Flush), IsPre inp rest → 0 < room →
    (inp ≠ [] ∨ rest = []) →
    ∀ r, r = L.call s inp room fl →
    r.isError = true ∨
    (r.consumed ≤ inp.length ∧ r.out.length ≤ room ∧ r.hint ≠ 0 ∧
      (∃ j', B r.st (rest.drop r.consumed) j' ∧ r.out.length + j' ≤ j) ∧
      (inp ≠ [] → 0 < r.consumed + r.out.length))

structure ZDecErrContract {τ : Type} {L : ZLib τ} {Dec : Bytes → Option Bytes} (hZ : ZDecContract L Dec) extends ZDoom hZ where
  enter : ∀ {s : τ} {c : Bytes}, hZ.R s [] [] → Dead Dec c → B s c (budget c.length)

/-! ### zlib, liblzma, libbz2 on input that has gone wrong -/

/--
Error-return convention of a zlib-style **decompressing** stream object (`inflate`, `lzma_code` on a decoder,
`BZ2_bzDecompress`) once its input is no longer (a prefix of) a valid member.  `B s rest j`: `rest` is all the input left, at
most `j` more bytes will be produced.  A call then answers an error code (`Z_DATA_ERROR`, `LZMA_DATA_ERROR`/`FORMAT_ERROR`/
`MEMLIMIT_ERROR`…, `BZ_DATA_ERROR`…), or `OK`/`BUF_ERROR` under the same rules as on good input (stays inside the buffers, `OK`
with input means progress, `BUF_ERROR` without output only when all input has been taken) — but **never `STREAM_END`**: the
integrity check of the format is taken to be sound.  `total_in` is positive once any of the bad bytes has been consumed.
-/
structure LibDoom {τ : Type} {L : Lib τ} {b : Backend} {Dec : Bytes → Option Bytes} (hL : LibDecContract L b Dec) where
  B : τ → Bytes → Nat → Prop
  budget : Nat → Nat
  total : ∀ {s rest j}, B s rest j → L.totalIn s = 0 → rest ≠ []
  call : ∀ {s rest j}, B s rest j → ∀ (inp : Bytes) (room : Nat) (fl : Flush), IsPre inp rest → 0 < room →
    ∀ r, r = L.call s inp room fl →
    (r.ret = LibRet.dataError ∨ r.ret = LibRet.streamError) ∨
    ((r.ret = LibRet.ok ∨ (r.ret = LibRet.bufError ∧ b ≠ Backend.bzip2)) ∧
      r.consumed ≤ inp.length ∧ r.out.length ≤ room ∧
      (∃ j', B r.st (rest.drop r.consumed) j' ∧ r.out.length + j' ≤ j) ∧
      (r.ret = LibRet.ok → inp ≠ [] → 0 < r.consumed + r.out.length) ∧
      (r.ret = LibRet.bufError → r.out = [] → r.consumed = inp.length ∧ (fl = Flush.full ∨ inp = [])) ∧
      (inp ≠ [] → 0 < r.consumed ∨ hL.pend r.st < hL.pend s))

structure LibDecErrContract {τ : Type} {L : Lib τ} {b : Backend} {Dec : Bytes → Option Bytes} (hL : LibDecContract L b Dec)
    extends LibDoom hL where
  enter : ∀ {s : τ} {c : Bytes}, hL.R s [] [] → Dead Dec c → B s c (budget c.length)

end Sqfs.Xfrm
