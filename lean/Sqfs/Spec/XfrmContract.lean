/-
C15 — the contract an incremental codec (`xfrm_stream_t::process_data`) has to meet for the wrappers
`ostream_xfrm` / `istream_xfrm` to be transparent.  The compression libraries are *not* verified: they are
represented by these structures of hypotheses (trusted base), and the wrapper theorems hold for **every**
codec that satisfies them.  `Sqfs/Props/C15.lean` shows that the contracts are satisfiable (toy codec) and
that the backends' `process_data` loops turn a library stream with the documented zlib/liblzma/libbz2
calling convention into a codec that meets them.

`Dec : Bytes → Option Bytes` is the one-shot reference decoder of exactly one member.
-/
import Sqfs.Model.Xfrm
namespace Sqfs.Xfrm

/-- `a` is a prefix of `b` -/
def IsPre (a b : Bytes) : Prop := ∃ t, b = a ++ t

/--
Contract of an **encoder**.
`R s x y fin`: in the member under construction `x` has been taken in and `y` has been handed out; `fin` says
that the caller has already asked for `FLUSH_FULL` with all its input taken — from then on it has to keep
asking for `FLUSH_FULL` without new input until `END` (`Proto`; zlib & co. answer anything else with a
sequence error).  `pend s` bounds the number of further calls that take nothing in.
-/
def Proto (fin : Bool) (fl : Flush) (inp : Bytes) : Prop := fin = true → fl = Flush.full ∧ inp = []

structure EncContract {σ : Type} (C : Codec σ) (Dec : Bytes → Option Bytes) where
  R : σ → Bytes → Bytes → Bool → Prop
  pend : σ → Nat
  init : R C.init [] [] false
  /-- an encoder never fails -/
  no_error : ∀ {s x y fin} (inp : Bytes) (room : Nat) (fl : Flush), R s x y fin → Proto fin fl inp →
    (C.step s inp room fl).res ≠ Res.error
  /-- it stays inside the buffers it is given -/
  consumed_le : ∀ {s x y fin} (inp : Bytes) (room : Nat) (fl : Flush), R s x y fin → Proto fin fl inp →
    (C.step s inp room fl).consumed ≤ inp.length
  out_le : ∀ {s x y fin} (inp : Bytes) (room : Nat) (fl : Flush), R s x y fin → Proto fin fl inp →
    (C.step s inp room fl).out.length ≤ room
  /-- while the member is open, bookkeeping -/
  keep : ∀ {s x y fin} (inp : Bytes) (room : Nat) (fl : Flush), R s x y fin → Proto fin fl inp →
    (C.step s inp room fl).res ≠ Res.streamEnd →
    R (C.step s inp room fl).st (x ++ inp.take (C.step s inp room fl).consumed) (y ++ (C.step s inp room fl).out)
      (fin || (decide (fl = Flush.full) && decide ((C.step s inp room fl).consumed = inp.length)))
  /-- `END` is never answered to `FLUSH_NONE`, and only after all input has been taken; what has been handed out for the
      member then decodes to what has been taken in; the codec is ready for the next member -/
  finish : ∀ {s x y fin} (inp : Bytes) (room : Nat) (fl : Flush), R s x y fin → Proto fin fl inp →
    (C.step s inp room fl).res = Res.streamEnd →
    fl ≠ Flush.none ∧ (C.step s inp room fl).consumed = inp.length ∧ R (C.step s inp room fl).st [] [] false ∧
    (x ++ inp ≠ [] → Dec (y ++ (C.step s inp room fl).out) = some (x ++ inp))
  /-- progress: a call with room and either input or a pending flush of an open member takes something in, or
      comes closer to having handed out everything -/
  progress : ∀ {s x y fin} (inp : Bytes) (room : Nat) (fl : Flush), R s x y fin → Proto fin fl inp → 0 < room →
    (inp ≠ [] ∨ (fl = Flush.full ∧ x ≠ [])) → (C.step s inp room fl).res ≠ Res.streamEnd →
    0 < (C.step s inp room fl).consumed ∨ pend (C.step s inp room fl).st < pend s

/--
Contract of a **decoder**.
`R s u v`: of the current member the bytes `u` have been consumed and `v` has been handed out.
-/
structure DecContract {σ : Type} (C : Codec σ) (Dec : Bytes → Option Bytes) where
  R : σ → Bytes → Bytes → Prop
  pend : σ → Nat
  init : R C.init [] []
  /-- a member is never empty -/
  dec_nil : Dec [] = none
  /--
  Inside (or at the start of) a valid member `u ++ w`, offered a prefix `inp` of what follows in the stream
  (`FLUSH_FULL` promises that no more input exists, so then `inp` must contain the rest of the member):
  no error, nothing is consumed beyond the member, what is handed out continues the member's content, `END`
  exactly when the member is complete *and* completely handed out, `BUFFER_FULL` only together with output.
  -/
  valid : ∀ {s u v} (w x tail inp : Bytes) (room : Nat) (fl : Flush), R s u v → Dec (u ++ w) = some x →
    IsPre inp (w ++ tail) → (fl = Flush.full → w.length ≤ inp.length) →
    (C.step s inp room fl).res ≠ Res.error ∧
    (C.step s inp room fl).consumed ≤ inp.length ∧ (C.step s inp room fl).consumed ≤ w.length ∧
    (C.step s inp room fl).out.length ≤ room ∧ IsPre (v ++ (C.step s inp room fl).out) x ∧
    ((C.step s inp room fl).res = Res.streamEnd →
        (C.step s inp room fl).consumed = w.length ∧ v ++ (C.step s inp room fl).out = x ∧ R (C.step s inp room fl).st [] []) ∧
    ((C.step s inp room fl).res ≠ Res.streamEnd →
        R (C.step s inp room fl).st (u ++ inp.take (C.step s inp room fl).consumed) (v ++ (C.step s inp room fl).out)) ∧
    ((C.step s inp room fl).res = Res.bufferFull → (C.step s inp room fl).out ≠ [])
  /-- progress with input: something is consumed, or the codec comes closer to having handed out everything
      (also when the call ends the member) -/
  progress : ∀ {s u v} (w x tail inp : Bytes) (room : Nat) (fl : Flush), R s u v → Dec (u ++ w) = some x →
    IsPre inp (w ++ tail) → (fl = Flush.full → w.length ≤ inp.length) → 0 < room → inp ≠ [] →
    0 < (C.step s inp room fl).consumed ∨ pend (C.step s inp room fl).st < pend s
  /-- at the end of the input, with the member completely consumed: hand out what is left, or end the member -/
  drain : ∀ {s u v} (x : Bytes) (room : Nat), R s u v → Dec u = some x → 0 < room →
    (C.step s [] room Flush.full).out ≠ [] ∨ (C.step s [] room Flush.full).res = Res.streamEnd
  /-- at the end of the input between two members: nothing happens, no error -/
  idle_eof : ∀ {s} (room : Nat), R s [] [] → 0 < room →
    (C.step s [] room Flush.full).res ≠ Res.error ∧ (C.step s [] room Flush.full).out = [] ∧
    (C.step s [] room Flush.full).consumed = 0 ∧ R (C.step s [] room Flush.full).st [] []
  /-- **truncated input**: at the end of the input inside a member, the decoder hands out what it still holds
      and then reports an error; it never answers `END` -/
  truncated : ∀ {s u v} (w x : Bytes) (room : Nat), R s u v → u ≠ [] → w ≠ [] → Dec (u ++ w) = some x → 0 < room →
    (C.step s [] room Flush.full).res = Res.error ∨
    ((C.step s [] room Flush.full).res ≠ Res.streamEnd ∧ (C.step s [] room Flush.full).out ≠ [] ∧
     (C.step s [] room Flush.full).consumed = 0 ∧ (C.step s [] room Flush.full).out.length ≤ room ∧
     IsPre (v ++ (C.step s [] room Flush.full).out) x ∧
     R (C.step s [] room Flush.full).st u (v ++ (C.step s [] room Flush.full).out))

/--
Calling convention of a zlib-style **compressing** stream object (`deflate`, `lzma_code` on an encoder,
`BZ2_bzCompress`), as documented by the three libraries, in the shape of `EncContract`: calls are only made
with room (`avail_out > 0`); the answer is `OK`, `STREAM_END`, or — zlib and liblzma only — `BUF_ERROR`; a call
answered `OK` has consumed or produced at least one byte; `STREAM_END` only to `FINISH`.  `R … true` is the state of
a caller that has promised to go on with `FINISH` and no input, so a state good for any caller is good for it (`mono`).
-/
structure LibEncContract {τ : Type} (L : Lib τ) (b : Backend) (Dec : Bytes → Option Bytes) where
  R : τ → Bytes → Bytes → Bool → Prop
  pend : τ → Nat
  init : R L.init [] [] false
  mono : ∀ {s x y}, R s x y false → R s x y true
  ret_ok : ∀ {s x y fin} (inp : Bytes) (room : Nat) (fl : Flush), R s x y fin → Proto fin fl inp → 0 < room →
    (L.call s inp room fl).ret = LibRet.ok ∨ (L.call s inp room fl).ret = LibRet.streamEnd ∨
    ((L.call s inp room fl).ret = LibRet.bufError ∧ b ≠ Backend.bzip2)
  consumed_le : ∀ {s x y fin} (inp : Bytes) (room : Nat) (fl : Flush), R s x y fin → Proto fin fl inp → 0 < room →
    (L.call s inp room fl).consumed ≤ inp.length
  out_le : ∀ {s x y fin} (inp : Bytes) (room : Nat) (fl : Flush), R s x y fin → Proto fin fl inp → 0 < room →
    (L.call s inp room fl).out.length ≤ room
  keep : ∀ {s x y fin} (inp : Bytes) (room : Nat) (fl : Flush), R s x y fin → Proto fin fl inp → 0 < room →
    (L.call s inp room fl).ret ≠ LibRet.streamEnd →
    R (L.call s inp room fl).st (x ++ inp.take (L.call s inp room fl).consumed) (y ++ (L.call s inp room fl).out)
      (fin || (decide (fl = Flush.full) && decide ((L.call s inp room fl).consumed = inp.length)))
  finish : ∀ {s x y fin} (inp : Bytes) (room : Nat) (fl : Flush), R s x y fin → Proto fin fl inp → 0 < room →
    (L.call s inp room fl).ret = LibRet.streamEnd →
    fl = Flush.full ∧ (L.call s inp room fl).consumed = inp.length ∧ R (L.reset (L.call s inp room fl).st) [] [] false ∧
    (x ++ inp ≠ [] → Dec (y ++ (L.call s inp room fl).out) = some (x ++ inp))
  progress : ∀ {s x y fin} (inp : Bytes) (room : Nat) (fl : Flush), R s x y fin → Proto fin fl inp → 0 < room →
    (inp ≠ [] ∨ (fl = Flush.full ∧ x ≠ [])) → (L.call s inp room fl).ret ≠ LibRet.streamEnd →
    0 < (L.call s inp room fl).consumed ∨ pend (L.call s inp room fl).st < pend s
  bytes : ∀ {s x y fin} (inp : Bytes) (room : Nat) (fl : Flush), R s x y fin → Proto fin fl inp → 0 < room →
    (inp ≠ [] ∨ fl = Flush.full) →
    (L.call s inp room fl).ret = LibRet.ok → 0 < (L.call s inp room fl).consumed + (L.call s inp room fl).out.length

/--
Calling convention of a zlib-style **decompressing** stream object (`inflate`, `lzma_code` on a decoder,
`BZ2_bzDecompress`) on well-formed input, in the shape of `DecContract`.  `R s u v`: of the current member `u` has been
consumed and `v` produced.  Calls are made with room only.
-/
structure LibDecContract {τ : Type} (L : Lib τ) (b : Backend) (Dec : Bytes → Option Bytes) where
  R : τ → Bytes → Bytes → Prop
  pend : τ → Nat
  init : R L.init [] []
  dec_nil : Dec [] = none
  /-- `total_in` is zero exactly as long as nothing of the current member has been consumed -/
  total : ∀ {s u v}, R s u v → (L.totalIn s = 0 ↔ u = [])
  /-- inside a valid member, offered a prefix of what follows: `OK`, `STREAM_END` or (zlib, liblzma) `BUF_ERROR`;
      nothing beyond the member is consumed; the output continues the content; `STREAM_END` exactly at the end -/
  valid : ∀ {s u v} (w x tail inp : Bytes) (room : Nat) (fl : Flush), R s u v → Dec (u ++ w) = some x →
    IsPre inp (w ++ tail) → 0 < room →
    ((L.call s inp room fl).ret = LibRet.ok ∨ (L.call s inp room fl).ret = LibRet.streamEnd ∨
      ((L.call s inp room fl).ret = LibRet.bufError ∧ b ≠ Backend.bzip2)) ∧
    (L.call s inp room fl).consumed ≤ inp.length ∧ (L.call s inp room fl).consumed ≤ w.length ∧
    (L.call s inp room fl).out.length ≤ room ∧ IsPre (v ++ (L.call s inp room fl).out) x ∧
    ((L.call s inp room fl).ret = LibRet.streamEnd →
      (L.call s inp room fl).consumed = w.length ∧ v ++ (L.call s inp room fl).out = x ∧ R (L.reset (L.call s inp room fl).st) [] []) ∧
    ((L.call s inp room fl).ret ≠ LibRet.streamEnd →
      R (L.call s inp room fl).st (u ++ inp.take (L.call s inp room fl).consumed) (v ++ (L.call s inp room fl).out))
  /-- a call with input that answers `OK` has consumed or produced something -/
  bytes : ∀ {s u v} (w x tail inp : Bytes) (room : Nat) (fl : Flush), R s u v → Dec (u ++ w) = some x →
    IsPre inp (w ++ tail) → 0 < room → inp ≠ [] → (L.call s inp room fl).ret = LibRet.ok →
    0 < (L.call s inp room fl).consumed + (L.call s inp room fl).out.length
  progress : ∀ {s u v} (w x tail inp : Bytes) (room : Nat) (fl : Flush), R s u v → Dec (u ++ w) = some x →
    IsPre inp (w ++ tail) → 0 < room → inp ≠ [] →
    0 < (L.call s inp room fl).consumed ∨
    pend (if (L.call s inp room fl).ret = LibRet.streamEnd then L.reset (L.call s inp room fl).st else (L.call s inp room fl).st) < pend s
  /-- `BUF_ERROR` without output means: all offered input has been consumed and more is needed (zlib answers it to `Z_FINISH`
      whenever the member is not complete; otherwise only when no progress was possible) -/
  buf_quiet : ∀ {s u v} (w x tail inp : Bytes) (room : Nat) (fl : Flush), R s u v → Dec (u ++ w) = some x →
    IsPre inp (w ++ tail) → 0 < room → (L.call s inp room fl).ret = LibRet.bufError → (L.call s inp room fl).out = [] →
    (L.call s inp room fl).consumed = inp.length ∧ (fl = Flush.full ∨ inp = [])
  /-- output is produced as the input is consumed: a call after which the member is completely consumed hands something
      out or ends the member -/
  drain : ∀ {s u v} (w x tail inp : Bytes) (room : Nat) (fl : Flush), R s u v → Dec (u ++ w) = some x →
    IsPre inp (w ++ tail) → 0 < room → (L.call s inp room fl).consumed = w.length →
    (L.call s inp room fl).out ≠ [] ∨ (L.call s inp room fl).ret = LibRet.streamEnd
  /-- between two members, without input: nothing happens -/
  idle : ∀ {s} (room : Nat) (fl : Flush), R s [] [] → 0 < room →
    ((L.call s [] room fl).ret = LibRet.ok ∨ ((L.call s [] room fl).ret = LibRet.bufError ∧ b ≠ Backend.bzip2)) ∧
    (L.call s [] room fl).out = [] ∧ (L.call s [] room fl).consumed = 0 ∧ R (L.call s [] room fl).st [] []

/-- calling convention of `ZSTD_compressStream2` -/
structure ZEncContract {τ : Type} (L : ZLib τ) (Dec : Bytes → Option Bytes) where
  R : τ → Bytes → Bytes → Bool → Prop
  pend : τ → Nat
  init : R L.init [] [] false
  mono : ∀ {s x y}, R s x y false → R s x y true
  ok : ∀ {s x y fin} (inp : Bytes) (room : Nat) (fl : Flush), R s x y fin → Proto fin fl inp → 0 < room →
    (L.call s inp room fl).isError = false ∧ (L.call s inp room fl).consumed ≤ inp.length ∧ (L.call s inp room fl).out.length ≤ room
  /-- `ZSTD_e_end` answered with 0: the frame is complete -/
  done : ∀ {s x y fin} (inp : Bytes) (room : Nat) (fl : Flush), R s x y fin → Proto fin fl inp → 0 < room →
    fl = Flush.full → (L.call s inp room fl).hint = 0 →
    (L.call s inp room fl).consumed = inp.length ∧ R (L.call s inp room fl).st [] [] false ∧
    (x ++ inp ≠ [] → Dec (y ++ (L.call s inp room fl).out) = some (x ++ inp))
  keep : ∀ {s x y fin} (inp : Bytes) (room : Nat) (fl : Flush), R s x y fin → Proto fin fl inp → 0 < room →
    ¬ (fl = Flush.full ∧ (L.call s inp room fl).hint = 0) →
    R (L.call s inp room fl).st (x ++ inp.take (L.call s inp room fl).consumed) (y ++ (L.call s inp room fl).out)
      (fin || (decide (fl = Flush.full) && decide ((L.call s inp room fl).consumed = inp.length)))
  progress : ∀ {s x y fin} (inp : Bytes) (room : Nat) (fl : Flush), R s x y fin → Proto fin fl inp → 0 < room →
    (inp ≠ [] ∨ (fl = Flush.full ∧ x ≠ [])) → ¬ (fl = Flush.full ∧ (L.call s inp room fl).hint = 0) →
    0 < (L.call s inp room fl).consumed ∨ pend (L.call s inp room fl).st < pend s
  /-- a call with input, or with `ZSTD_e_end`, and room does something -/
  bytes : ∀ {s x y fin} (inp : Bytes) (room : Nat) (fl : Flush), R s x y fin → Proto fin fl inp → 0 < room →
    (inp ≠ [] ∨ fl = Flush.full) → 0 < (L.call s inp room fl).consumed + (L.call s inp room fl).out.length

end Sqfs.Xfrm
