/-
C03 — every produced image satisfies the on-disk invariants other readers rely on.

Property theorems about the models of the writer's pieces
(`Sqfs/Model/{DirWriter,MetaWriter,IdTable,Finish,Numbering,C03FsDir}.lean`); each quantifies over *all* inputs
(entry lists, byte streams, codecs, meta writer states, id sequences, name sequences).  Every model function named in
a theorem is run against the real C function on every invocation of the check (harness/h_c03.c, h_c03n.c).  The validator that
states the invariants on whole images (`Sqfs/Model/ImageValidate.lean`) is executable and runs on every image
the check produces; the full statement `validate (serialize t c) = []` for a model of the whole writer is
**not** proved — what is proved are the invariants each piece establishes (see docs/design/C03.md).
-/
import Sqfs.Proofs.DirWriter
import Sqfs.Proofs.MetaWriter
import Sqfs.Proofs.MetaWriterKeep
import Sqfs.Proofs.IdTable
import Sqfs.Proofs.Finish
import Sqfs.Proofs.Numbering
import Sqfs.Proofs.C03FsDir
import Sqfs.Proofs.C03Inode
namespace Sqfs.C03
open Sqfs.Consts

/-! ### codecs used by the examples that follow the theorems -/

/-- a codec that never shrinks anything -/
def toyCodec0 : Sqfs.MetaWriter.Codec := fun _ => none

/-- a codec meeting the contract: "drop the last byte of anything longer than 3 bytes" -/
def toyCodec : Sqfs.MetaWriter.Codec := fun x => if x.length > 3 then some x.dropLast else none

/-! ## directory writer -/
section Dir
open Sqfs.DirWriter

/--
`get_conseq_entry_count`, for every offset and every non-empty entry list: the header covers at least one and at
most 256 entries (never more than there are), all of which live in the head's inode block and whose inode numbers
differ from the head's by at most ±32767; and unless it is a single entry, the header plus its entries do not
cross a metadata block boundary.
-/
theorem conseq_count_ok (offset : Nat) (head : DEnt) (rest : List DEnt) :
    1 ≤ conseqCount offset (head :: rest) ∧ conseqCount offset (head :: rest) ≤ 256 ∧
    conseqCount offset (head :: rest) ≤ (head :: rest).length ∧
    (∀ e ∈ (head :: rest).take (conseqCount offset (head :: rest)),
        e.inodeRef >>> 16 = head.inodeRef >>> 16 ∧
        -32767 ≤ sdiff32 e.inodeNum head.inodeNum ∧ sdiff32 e.inodeNum head.inodeNum ≤ 32767) ∧
    (conseqCount offset (head :: rest) = 1 ∨
      (offset + 12) % 8192 + (((head :: rest).take (conseqCount offset (head :: rest))).map entSize).sum ≤ 8192) :=
  conseqCount_spec offset head rest

/--
`sqfs_dir_writer_end`, for every entry list, every codec and every state of the meta writer it appends to: the
emitted runs, concatenated, are exactly the entries in order (nothing lost, duplicated or reordered); every header is
followed by 1..256 entries that share the header's inode block, and for each of them the 16-bit delta field, read back
as s16 and added to the header's inode number in 32-bit arithmetic, gives the entry's inode number.
-/
theorem dir_end_headers_ok (cmp : MetaWriter.Codec) (st : MetaWriter.St) (ents : List DEnt)
    (hnum : ∀ e ∈ ents, e.inodeNum < 4294967296) :
    ((dirEndM cmp st ents).1.map (·.ents)).flatten = ents ∧
    ∀ r ∈ (dirEndM cmp st ents).1,
      1 ≤ r.ents.length ∧ r.ents.length ≤ 256 ∧
      ∀ e ∈ r.ents, (e.inodeRef >>> 16) % 4294967296 = r.startBlock ∧
        ((r.inodeNumber : Int) + (let d16 := (e.inodeNum + 4294967296 - r.inodeNumber % 4294967296) % 65536
                                   if d16 < 32768 then (d16 : Int) else (d16 : Int) - 65536)) % 4294967296 = e.inodeNum := by
  have hflat := dirEndGoM_flatten cmp (ents.length + 1) st 0 ents (by omega)
  refine ⟨hflat, ?_⟩
  intro r hr
  obtain ⟨first, tl, h1, h2, h3, h4, h5⟩ := dirEndGoM_runs_ok cmp _ _ _ _ r hr
  have hsub : ∀ e ∈ r.ents, e ∈ ents := by
    intro e he
    rw [← hflat]
    simp only [List.mem_flatten, List.mem_map]
    exact ⟨r.ents, ⟨r, hr, rfl⟩, he⟩
  refine ⟨by rw [h1]; simp, h2, ?_⟩
  intro e he
  obtain ⟨e1, e2, e3⟩ := h5 e he
  refine ⟨by rw [h3, e1], ?_⟩
  have hfirst : first ∈ ents := hsub first (by rw [h1]; simp)
  exact delta_roundtrip e.inodeNum r.inodeNumber (hnum e (hsub e he)) (by rw [h4]; exact hnum first hfirst) e2 e3

/-- the repaired `sqfs_dir_writer_add_entry` only lets through names whose length the on-disk `size` field (stored
off by one, at most 255 for the kernel) can carry, so the field written at dir_writer.c:310 is exact -/
theorem add_entry_name_fits (name : Bytes) (num ref mode : Nat) (e : DEnt) (h : addEntry name num ref mode = .ok e) :
    e.name = name ∧ 1 ≤ e.name.length ∧ e.name.length ≤ 256 ∧ (e.name.length - 1) % 65536 + 1 = e.name.length ∧
    1 ≤ e.inodeNum ∧ 1 ≤ e.typ ∧ e.typ ≤ 7 := by
  unfold addEntry at h
  cases ht : getType mode with
  | none => rw [ht] at h; simp at h
  | some t =>
    rw [ht] at h
    simp only at h
    by_cases h1 : name = [] ∨ num < 1
    · rw [if_pos h1] at h; simp at h
    · rw [if_neg h1] at h
      by_cases h2 : name.length > maxNameLen
      · rw [if_pos h2] at h; simp at h
      · rw [if_neg h2] at h
        simp only [AddResult.ok.injEq] at h
        subst h
        have hlen : 1 ≤ name.length := by
          rcases name with _ | ⟨a, l⟩
          · simp at h1
          · simp
        have hmax : name.length ≤ 256 := by simp only [maxNameLen] at h2; omega
        have htyp : 1 ≤ t ∧ t ≤ 7 := by
          unfold getType at ht
          split at ht <;> simp at ht <;> subst ht <;> decide
        refine ⟨rfl, hlen, hmax, by simp only; omega, by simp only; omega, htyp.1, htyp.2⟩

/-- the repaired `sqfs_dir_writer_create_inode`: the 16-bit index count of an extended directory inode is the number
of index entries that follow it (no wrap), for every number of headers -/
theorem dir_index_count_exact (dirRef : Nat) (runs : List Run) (n h x p : Nat) :
    (createInode dirRef runs n h x p).indexCount = (createInode dirRef runs n h x p).index.length := by
  unfold DirInode.indexCount createInode createInodeCap
  simp only
  split
  · simp only [List.length_map, List.length_take, maxIndex]; omega
  · simp

/--
"Directory indexes point at headers".  `sqfs_dir_writer_end` + `sqfs_dir_writer_create_inode` on a **real meta
writer** (any codec, any well-formed state `st` reached from a fresh writer — i.e. any amount of earlier directory
data, compressed or not), for every entry list: the `k`-th index entry of the extended directory inode is made from
the `k`-th header `r` (index entries and headers correspond one to one, in order, up to the 65535 the u16 count can
announce) and

* its `index` field is the number of listing bytes in front of that header (the encoded runs before it), so the
  listing has a header at exactly that offset;
* the bytes the meta writer received are the encoded runs, appended to what was there before;
* its `start_block` field is the on-disk size of exactly the metadata blocks that precede the block holding the
  header's first byte — the offset, relative to the start of the directory table, at which that block's 2-byte
  header lies — in the finished table `fin` (any later state of the same writer: blocks flushed earlier never
  change; this is also the order `sqfs_meta_write_write_to_file` puts them into the file);
* inside that block the header sits at `(offset field of the inode + index) mod 8192`, which is what a reader
  computes;
* its name is the name of the first entry behind that header.

The fields are u32 (`% 2^32`): exact for listings and directory tables below 4 GiB.
-/
theorem dir_index_points_at_headers (cmp : MetaWriter.Codec) (st : MetaWriter.St) (hst : MetaWriter.WF cmp st)
    (ents : List DEnt) (fin : MetaWriter.St) (hfin : MetaWriter.Ext (dirEndM cmp st ents).2 fin)
    (hl x p k : Nat) (ie : Nat × Nat × Bytes)
    (hk : (createInode (dirRefOf st) (dirEndM cmp st ents).1 ents.length hl x p).index[k]? = some ie) :
    ∃ r first tl, (dirEndM cmp st ents).1[k]? = some r ∧ r.ents = first :: tl ∧
      ie = (r.index % 4294967296, r.block % 4294967296, first.name) ∧
      r.index = ((((dirEndM cmp st ents).1.take k).map encodeRun).flatten).length ∧
      MetaWriter.stream (dirEndM cmp st ents).2 = MetaWriter.stream st ++ ((dirEndM cmp st ents).1.map encodeRun).flatten ∧
      r.block = MetaWriter.outBytes (fin.out.take (((MetaWriter.stream st).length + r.index) / 8192)) ∧
      ((MetaWriter.stream st).length + r.index) % 8192 = ((dirRefOf st) % 65536 + r.index) % 8192 := by
  unfold dirEndM at hk hfin ⊢
  obtain ⟨_, _, p3, p4⟩ := dirEndGoM_pos cmp (ents.length + 1) st 0 ents hst (by omega)
  -- the index entry comes from run k
  have hidx : ∃ r, (dirEndGoM cmp (ents.length + 1) st 0 ents).1[k]? = some r ∧
      ie = (r.index % 4294967296, r.block % 4294967296, match r.ents with | e :: _ => e.name | [] => []) := by
    unfold createInode createInodeCap at hk
    simp only at hk
    split at hk
    · simp only [List.getElem?_map, List.getElem?_take] at hk
      split at hk
      · cases hr : (dirEndGoM cmp (ents.length + 1) st 0 ents).1[k]? with
        | none => rw [hr] at hk; simp at hk
        | some r => rw [hr] at hk; simp only [Option.map_some, Option.some.injEq] at hk; exact ⟨r, rfl, hk.symm⟩
      · simp at hk
    · simp at hk
  obtain ⟨r, hr, hie⟩ := hidx
  obtain ⟨first, tl, q1, _⟩ := dirEndGoM_runs_ok cmp _ _ _ _ r (List.mem_of_getElem? hr)
  obtain ⟨a1, a2, a3⟩ := p4 k r hr
  refine ⟨r, first, tl, hr, q1, by rw [hie, q1], by simpa using a1, p3, ?_, ?_⟩
  · -- blocks flushed by the time `dirEndM` returns are a prefix of `fin.out`
    obtain ⟨bs, hbs⟩ := hfin
    rw [a3]
    simp only [Nat.sub_zero] at a2 ⊢
    have : metaBlockSize = 8192 := rfl
    rw [this] at a2 ⊢
    rw [hbs, List.take_append_of_le_length a2]
  · have hoff : dirRefOf st % 65536 = st.cur.length := by
      unfold dirRefOf
      have hlt : st.cur.length < 2 ^ 16 := by have := hst.curLt; have : metaBlockSize = 8192 := rfl; omega
      rw [Nat.shiftLeft_eq, Nat.mul_comm, ← Nat.two_pow_add_eq_or_of_lt hlt]
      omega
    rw [hoff, hst.offset]
    have : metaBlockSize = 8192 := rfl
    rw [this]
    omega

set_option maxRecDepth 100000 in
/-- instance (all hypotheses discharged) on a meta writer that **already holds data**: 100 bytes appended before (`WF` from
`foldl_append_wf`), three entries in two inode blocks → two headers; `k = 1`: the second index entry is `(30, 0, "c")`, made
from the second header, which sits 30 listing bytes in; `fin` = the state right after `sqfs_dir_writer_end` -/
example :
    let st0 : MetaWriter.St := [List.replicate 100 (1 : UInt8)].foldl (MetaWriter.append toyCodec) {}
    let ents : List DEnt := [⟨0x10020, 5, 2, [97]⟩, ⟨0x10040, 6, 2, [98]⟩, ⟨0x20000, 7, 2, [99]⟩]
    ∃ r first tl, (dirEndM toyCodec st0 ents).1[1]? = some r ∧ r.ents = first :: tl ∧
      ((30, 0, [99]) : Nat × Nat × Bytes) = (r.index % 4294967296, r.block % 4294967296, first.name) ∧
      r.block = MetaWriter.outBytes ((dirEndM toyCodec st0 ents).2.out.take (((MetaWriter.stream st0).length + r.index) / 8192)) ∧
      ((MetaWriter.stream st0).length + r.index) % 8192 = ((dirRefOf st0) % 65536 + r.index) % 8192 := by
  intro st0 ents
  have hwf : MetaWriter.WF toyCodec st0 := (MetaWriter.foldl_append_wf toyCodec _ {} (MetaWriter.wf_init _)).1
  obtain ⟨r, first, tl, h1, h2, h3, _, _, h6, h7⟩ :=
    dir_index_points_at_headers toyCodec st0 hwf ents (dirEndM toyCodec st0 ents).2 (MetaWriter.Ext.refl _) 0 0 1 1
      (30, 0, [99]) (by decide)
  exact ⟨r, first, tl, h1, h2, h3, h6, h7⟩

/--
Export table (`add_export_table_entry` from every accepted `add_entry`, then the root in
`sqfs_dir_writer_write_export_table`), for every sequence of `(inode number, inode reference)` pairs in which a
number always comes with the same reference (`ref`; the serializer passes the node's own `inode_num`/`inode_ref`)
and no number is 0 (`add_entry` refuses it): the table has exactly as many slots as the largest inode number, slot
`ino - 1` holds the reference of inode `ino` for every inode that was added, every other slot is the 0xFF… filler.
With the numbers being exactly 1..N (`inode_numbers_bijective`) there are N slots and no filler.
-/
theorem export_table_resolves (ref : Nat → Nat) (adds : List (Nat × Nat)) (rootNum : Nat)
    (hadds : ∀ a ∈ adds, 1 ≤ a.1 ∧ a.2 = ref a.1) (hroot : 1 ≤ rootNum) :
    (exportTable adds rootNum (ref rootNum)).length = maxNum (adds ++ [(rootNum, ref rootNum)]) ∧
    ∀ i, i < (exportTable adds rootNum (ref rootNum)).length →
      (exportTable adds rootNum (ref rootNum))[i]? =
        some (if i + 1 ∈ (adds ++ [(rootNum, ref rootNum)]).map (·.1) then ref (i + 1) else exportUnset) := by
  have h0 : ExportOk ref [] [] := ⟨rfl, by intro i hi; simp at hi⟩
  have h1 := exportOk_fold ref adds [] [] h0 hadds
  have h2 := exportOk_step ref _ _ (rootNum, ref rootNum) h1 hroot rfl
  unfold ExportOk at h2
  simpa [exportTable] using h2

end Dir

/-! ## metadata writer -/
section Meta
open Sqfs.MetaWriter

/--
The meta writer's chunking, for **every** codec and every sequence of appends followed by the final flush:
nothing is left unwritten; the blocks are full 8 KiB chunks followed by at most one shorter, non-empty chunk
(so every block unpacks to 1..8192 bytes and only the last of a run is short); their concatenation is the
appended stream; a block flagged compressed carries exactly what the codec returned for its chunk, a block
flagged uncompressed carries the chunk itself.
-/
theorem meta_block_le_8k (cmp : Codec) (chunks : List Bytes) :
    ∃ (fullBlocks last : List Block), (run cmp chunks).out = fullBlocks ++ last ∧ (run cmp chunks).cur = [] ∧
      (∀ b ∈ fullBlocks, b.raw.length = 8192) ∧ last.length ≤ 1 ∧
      (∀ b ∈ last, 1 ≤ b.raw.length ∧ b.raw.length < 8192) ∧
      (∀ b ∈ fullBlocks ++ last, (b.compressed = true → cmp b.raw = some b.stored ∧ 0 < b.stored.length) ∧
                                   (b.compressed = false → b.stored = b.raw)) ∧
      ((fullBlocks ++ last).map (·.raw)).flatten = chunks.flatten :=
  run_shape cmp chunks

/--
With the `do_block` contract as hypothesis: no metadata block is stored larger than it unpacks, none exceeds
8 KiB on disk, it is flagged compressed exactly when it is strictly smaller, and the 16-bit header decodes to
(stored size, flag) without the size running into the flag bit.
-/
theorem meta_stored_le_unpacked (cmp : Codec) (hc : cmp.Shrinks) (chunks : List Bytes) :
    ∀ b ∈ (run cmp chunks).out,
      b.stored.length ≤ b.raw.length ∧ b.stored.length ≤ 8192 ∧
      (b.compressed = true ↔ b.stored.length < b.raw.length) ∧
      b.header % 32768 = b.stored.length ∧ (b.header / 32768 = 1 ↔ b.compressed = false) := by
  obtain ⟨fb, last, h1, _, h3, _, h5, h6, _⟩ := run_shape cmp chunks
  intro b hb
  rw [h1] at hb
  have hraw : b.raw.length ≤ 8192 := by
    simp only [List.mem_append] at hb
    rcases hb with hb | hb
    · exact Nat.le_of_eq (h3 b hb)
    · exact Nat.le_of_lt (h5 b hb).2
  obtain ⟨m1, m2⟩ := h6 b hb
  cases hcmp : b.compressed with
  | true =>
    obtain ⟨c1, c2⟩ := m1 hcmp
    have hlt := hc _ _ c1
    refine ⟨by omega, by omega, by simp; exact hlt, ?_, ?_⟩
    · simp only [Block.header, hcmp, if_true]; omega
    · simp only [Block.header, hcmp, if_true]
      constructor
      · intro h; omega
      · intro h; simp at h
  | false =>
    have hs := m2 hcmp
    have hor : b.raw.length ||| 0x8000 = 0x8000 + b.raw.length := by
      have h : 32768 * 1 + b.raw.length = 32768 * 1 ||| b.raw.length :=
        Nat.two_pow_add_eq_or_of_lt (i := 15) (by omega) 1
      rw [Nat.mul_one] at h
      rw [Nat.or_comm]; exact h.symm
    refine ⟨by rw [hs]; exact Nat.le_refl _, by rw [hs]; exact hraw, by rw [hs]; simp, ?_, ?_⟩
    · simp only [Block.header, hcmp, Bool.false_eq_true, if_false, hor, hs]; omega
    · simp only [Block.header, hcmp, Bool.false_eq_true, if_false, hor]
      constructor
      · intro _; trivial
      · intro _; omega

/--
The block processor's worker (`process_block`) with the `do_block` contract as hypothesis, for every block that does
not already carry the internal IS_COMPRESSED flag: the stored size never exceeds the input size; the block is flagged
compressed iff it is strictly smaller; a block not flagged compressed is stored byte for byte; a block flagged
compressed is what the codec returned.  The size word `process_completed_block` builds from it (for blocks below
2^24 bytes — the block size limit is 2^20) carries the stored size in its low 24 bits and has bit 24 (uncompressed)
clear exactly when the block is flagged compressed.
-/
theorem data_block_size_rule (cmp : Codec) (hc : cmp.Shrinks) (b : DataBlock)
    (hin : hasFlag b.flags blkIsCompressed = false) :
    (processBlock cmp b).data.length ≤ b.data.length ∧
    (hasFlag (processBlock cmp b).flags blkIsCompressed = true ↔ (processBlock cmp b).data.length < b.data.length) ∧
    (hasFlag (processBlock cmp b).flags blkIsCompressed = false → (processBlock cmp b).data = b.data) ∧
    (hasFlag (processBlock cmp b).flags blkIsCompressed = true → cmp b.data = some (processBlock cmp b).data) ∧
    (b.data.length < 16777216 →
      sizeWord (processBlock cmp b) % 16777216 = (processBlock cmp b).data.length ∧
      (sizeWord (processBlock cmp b) / 16777216 = 0 ↔ hasFlag (processBlock cmp b).flags blkIsCompressed = true)) := by
  have hword : ∀ (r : DataBlock), r.data.length ≤ b.data.length → b.data.length < 16777216 →
      sizeWord r % 16777216 = r.data.length ∧ (sizeWord r / 16777216 = 0 ↔ hasFlag r.flags blkIsCompressed = true) := by
    intro r hr hb
    unfold sizeWord
    cases hf : hasFlag r.flags blkIsCompressed with
    | true => simp only [if_true]; refine ⟨by omega, by simp; omega⟩
    | false =>
      simp only [Bool.false_eq_true, if_false]
      have hor : r.data.length ||| 1 <<< 24 = 16777216 + r.data.length := by
        have h : 2 ^ 24 * 1 + r.data.length = 2 ^ 24 * 1 ||| r.data.length :=
          Nat.two_pow_add_eq_or_of_lt (i := 24) (by omega) 1
        rw [Nat.or_comm, Nat.shiftLeft_eq, Nat.one_mul]
        rw [Nat.mul_one] at h
        exact h.symm
      rw [hor]
      refine ⟨by omega, by simp⟩
  have main : (processBlock cmp b).data.length ≤ b.data.length ∧
      (hasFlag (processBlock cmp b).flags blkIsCompressed = true ↔ (processBlock cmp b).data.length < b.data.length) ∧
      (hasFlag (processBlock cmp b).flags blkIsCompressed = false → (processBlock cmp b).data = b.data) ∧
      (hasFlag (processBlock cmp b).flags blkIsCompressed = true → cmp b.data = some (processBlock cmp b).data) := by
    unfold processBlock
    by_cases h1 : b.data = []
    · rw [if_pos h1]; simp [hin]
    · rw [if_neg h1]
      by_cases h2 : (!hasFlag b.flags (blkIgnoreSparse ||| blkFragmentBlock) && b.data.all (· == 0)) = true
      · rw [if_pos h2]
        have hf : hasFlag (b.flags ||| blkIsSparse) blkIsCompressed = false := by
          unfold hasFlag at hin ⊢
          rw [Nat.and_or_distrib_right]
          have : blkIsSparse &&& blkIsCompressed = 0 := by decide
          rw [this, Nat.or_zero]; exact hin
        simp only [hf]; simp
      · rw [if_neg h2]
        by_cases h3 : hasFlag b.flags (blkIsFragment ||| blkDontCompress) = true
        · rw [if_pos h3]; simp [hin]
        · rw [if_neg h3]
          cases hcmp : cmp b.data with
          | none => simp [hin]
          | some c =>
            simp only
            by_cases h4 : c.length > 0
            · rw [if_pos h4]
              have hf : hasFlag (b.flags ||| blkIsCompressed) blkIsCompressed = true := by
                unfold hasFlag
                rw [Nat.and_or_distrib_right, Nat.and_self]
                have : blkIsCompressed = 32768 := rfl
                simp only [this, bne_iff_ne, ne_eq]
                intro h
                have := Nat.or_eq_zero_iff.mp h
                omega
              have hlt := hc _ _ hcmp
              simp only [hf]
              exact ⟨Nat.le_of_lt hlt, by simp [hlt], by simp, by simp⟩
            · rw [if_neg h4]; simp [hin]
  exact ⟨main.1, main.2.1, main.2.2.1, main.2.2.2, fun hb => hword _ main.1 hb⟩

/--
`sqfs_write_table` (id, fragment and export table), for every codec, every table and every file size `base` at
which it is called: the location list has one u64 per metadata block and there are `ceil(size / 8192)` of them;
location `i` is the file offset of the 2-byte header of block `i` (`base` plus everything blocks `0..i-1` occupy);
`*start`, which the superblock records, is the offset directly behind the last block, where the list is written;
the blocks unpack to the table, and all but the last hold exactly 8192 bytes, so entry `k` of a table of `e`-byte
entries (`e` divides 8192) is found in block `k·e / 8192` at offset `k·e mod 8192`.
-/
theorem write_table_locations (cmp : Codec) (base : Nat) (data : Bytes) :
    (writeTableM cmp base data).locs.length = (writeTableM cmp base data).blocks.length ∧
    (writeTableM cmp base data).blocks.length = (data.length + 8191) / 8192 ∧
    (∀ i, i < (writeTableM cmp base data).locs.length →
      (writeTableM cmp base data).locs[i]? = some (base + outBytes ((writeTableM cmp base data).blocks.take i))) ∧
    (writeTableM cmp base data).start = base + outBytes (writeTableM cmp base data).blocks ∧
    (((writeTableM cmp base data).blocks.map (·.raw)).flatten = data) ∧
    (∀ i, i + 1 < (writeTableM cmp base data).blocks.length →
      ((writeTableM cmp base data).blocks[i]?.map (·.raw.length)) = some 8192) :=
  writeTableM_spec cmp base data

/--
The meta writer **with its flag word** (`FSt`: `sqfs_meta_writer_flush` branches on `SQFS_META_WRITER_KEEP_IN_MEMORY` —
link the block into `m->list`, or `write_block` it; meta_writer.c:134-144), for every codec, every sequence of appends
and every flag word `fl`, compared with the flag-less machine `St` the other theorems are stated for:

* the position `sqfs_meta_writer_get_position` reports after the appends, and after the final flush, is the position of
  the flag-less writer (so the block offsets handed out while the data was still in memory are the offsets the blocks
  end up at, relative to where the table starts);
* with `KEEP_IN_MEMORY` (the directory table): nothing reaches the file before `sqfs_meta_write_write_to_file`, the list
  holds exactly the blocks `run` produces, in order; afterwards the file holds exactly these blocks and the list is empty;
* without the flag: every block is in the file as soon as it is flushed, the list stays empty, and
  `sqfs_meta_write_write_to_file` changes nothing.

(`FSt.flush` is written out branch by branch as in the C code; the proof is a simulation, `FSim` in
`Proofs/MetaWriterKeep.lean`.  The driver's `metak` / `dirx` operations run `FSt` against the real writer.)
-/
theorem keep_in_memory_same_blocks (cmp : Codec) (chunks : List Bytes) (fl : Nat) :
    let w := chunks.foldl (FSt.append cmp) { flags := fl }
    let fin := w.flush cmp
    w.position = position (chunks.foldl (append cmp) {}) ∧
    fin.position = position (run cmp chunks) ∧
    (hasFlag fl metaWriterKeepInMemory = true →
      fin.file = [] ∧ fin.list = (run cmp chunks).out ∧
      fin.writeToFile.file = (run cmp chunks).out ∧ fin.writeToFile.list = []) ∧
    (hasFlag fl metaWriterKeepInMemory = false →
      fin.file = (run cmp chunks).out ∧ fin.list = [] ∧ fin.writeToFile.file = fin.file ∧ fin.writeToFile.list = []) := by
  intro w fin
  have hw : FSim w (chunks.foldl (append cmp) {}) := FSim.foldl chunks (FSim.init fl)
  have hfin : FSim fin (run cmp chunks) := hw.flush
  have hflags : fin.flags = fl := by
    show (w.flush cmp).flags = fl
    rw [FSt.flush_flags]
    exact FSt.foldl_append_flags cmp chunks _
  obtain ⟨a1, a2, _⟩ := hw
  obtain ⟨b1, b2, b3⟩ := hfin
  rw [hflags] at b3
  refine ⟨by simp only [FSt.position, position, a1, a2], by simp only [FSt.position, position, b1, b2], ?_, ?_⟩
  · intro hk
    rw [if_pos hk] at b3
    exact ⟨b3.2, b3.1, by simp only [FSt.writeToFile, b3.1, b3.2, List.nil_append], rfl⟩
  · intro hk
    rw [if_neg (by simp [hk])] at b3
    exact ⟨b3.1, b3.2, by simp only [FSt.writeToFile, b3.2, List.append_nil], rfl⟩

/-- instance, both branches: 9000 + 2 bytes — more than one metadata block — through a shrinking codec ("drop the last
byte", `toyCodec` below); with `KEEP_IN_MEMORY` the file is empty before `write_to_file`, without it the list is never used -/
example :
    let c : Codec := fun x => if x.length > 3 then some x.dropLast else none
    let ch : List Bytes := [List.replicate 9000 7, [1, 2]]
    ((ch.foldl (FSt.append c) { flags := metaWriterKeepInMemory }).flush c).file = [] ∧
    ((ch.foldl (FSt.append c) { flags := metaWriterKeepInMemory }).flush c).writeToFile.file = (run c ch).out ∧
    ((ch.foldl (FSt.append c) { flags := 0 }).flush c).file = (run c ch).out ∧
    ((ch.foldl (FSt.append c) { flags := 0 }).flush c).list = [] := by
  intro c ch
  have h1 := (keep_in_memory_same_blocks c ch metaWriterKeepInMemory).2.2.1 (by decide)
  have h0 := (keep_in_memory_same_blocks c ch 0).2.2.2 (by decide)
  exact ⟨h1.1, h1.2.2.1, h0.1, h0.2.1⟩

end Meta

/-! ## id table -/
section Ids
open Sqfs.IdTable

/--
`sqfs_id_table_id_to_index` with the repaired limit, for every sequence of ids starting from the empty table:
if all calls succeed the table holds at most 65535 distinct ids, so the u16 `id_count` written to the superblock
is the true number of entries (no wrap to 0), and every index handed to an inode is in bounds and survives the
u16 store unchanged.
-/
theorem id_count_fits (ids t is : List Nat) (h : addAll limit [] ids = some (t, is)) :
    superIdCount t = t.length ∧ t.Nodup ∧ is.length = ids.length ∧
    ∀ i ∈ is, storedIndex i = i ∧ i < superIdCount t := by
  obtain ⟨h1, _, h3, h4, h5⟩ := addAll_spec limit ids [] t is (by simp) (by simp) h
  have hl : t.length < 65536 := by simp only [limit] at h1; omega
  have hc : superIdCount t = t.length := by unfold superIdCount; omega
  refine ⟨hc, h3, h4, ?_⟩
  intro i hi
  have := h5 i hi
  exact ⟨by unfold storedIndex; omega, by omega⟩

end Ids

/-! ## table order, bytes_used, padding -/
section Fin
open Sqfs.Finish

/--
`sqfs_writer_finish`, for every combination of present/absent optional tables and every size: the table starts it
records come in the order readers insist on (inode table, directory table, fragment, export, id, xattr — absent
tables skipped) and all lie below `bytes_used`; `bytes_used` is the data end plus exactly the bytes the tables
occupy (no gap, nothing counted twice); the file is padded with fewer than one device block to a multiple of it.
-/
theorem finish_order (i : Input) (hd : 0 < i.devblk) :
    (finish i).inodeTable = i.dataEnd ∧ (finish i).inodeTable ≤ (finish i).dirTable ∧
    (∀ t, i.frag = some t → (finish i).dirTable ≤ (finish i).fragTable) ∧
    (∀ t, i.exportTbl = some t → (finish i).dirTable ≤ (finish i).exportTable ∧
        (∀ f, i.frag = some f → (finish i).fragTable < (finish i).exportTable ∨ (f.blocks = 0 ∧ t.blockBytes = 0))) ∧
    (finish i).dirTable ≤ (finish i).idTable ∧
    (∀ t, i.frag = some t → (finish i).fragTable ≤ (finish i).idTable) ∧
    (∀ t, i.exportTbl = some t → (finish i).exportTable ≤ (finish i).idTable) ∧
    (∀ x, i.xattr = some x → (finish i).idTable ≤ (finish i).xattrTable ∧ (finish i).xattrTable < (finish i).bytesUsed) ∧
    (finish i).idTable ≤ (finish i).bytesUsed ∧
    (finish i).bytesUsed = i.dataEnd + i.inodeBytes + i.dirBytes + tblBytes i.frag + tblBytes i.exportTbl
                            + tblBytes (some i.id) + xBytes i.xattr ∧
    (finish i).bytesUsed ≤ (finish i).fileSize ∧ (finish i).fileSize % i.devblk = 0 ∧
    (finish i).fileSize < (finish i).bytesUsed + i.devblk := by
  obtain ⟨p1, p2⟩ := padSize_spec (finish i).bytesUsed i.devblk hd
  have hfs : (finish i).fileSize = (finish i).bytesUsed + padSize (finish i).bytesUsed i.devblk := by
    unfold finish; rcases i.frag <;> rcases i.exportTbl <;> rcases i.xattr <;> rfl
  rw [hfs]
  refine ⟨?_, ?_, ?_, ?_, ?_, ?_, ?_, ?_, ?_, ?_, by omega, p1, by omega⟩ <;>
    (rcases hf : i.frag with _ | f <;> rcases he : i.exportTbl with _ | e <;> rcases hx : i.xattr with _ | x <;>
       simp [finish, writeTbl, tblBytes, xBytes, hf, he, hx] <;> try omega)

/-- `padd_sqfs`: the padded size is a multiple of the device block size and fewer than one block is added -/
theorem pad_multiple (size bs : Nat) (h : 0 < bs) : (size + padSize size bs) % bs = 0 ∧ padSize size bs < bs :=
  padSize_spec size bs h

end Fin

/-! ## inode numbering (`alloc_inode_num_dfs`) -/
section Num
open Sqfs.Numbering

/--
For every tree: the numbers `alloc_inode_num_dfs` + `fstree_post_process` hand out (every node except hard-link
entries, the root last) are a permutation of `1, …, N` where `N` is the count stored in `unique_inode_count` —
"inode numbers are exactly 1..N for the N inodes the superblock announces" — and numbering changes nothing else
(forgetting the numbers gives back the input tree).
-/
theorem inode_numbers_bijective (cs : List Tree) :
    (numsT (numberRoot cs).1).Perm (List.range' 1 (numberRoot cs).2) ∧ eraseT (numberRoot cs).1 = .dir cs :=
  ⟨numberRoot_perm cs, numberRoot_shape cs⟩

/--
`fstree_post_process` as a whole — `alloc_inode_num_dfs`, the root, `map_inodes_dfs`, then `reorder_hard_links`
(which rotates the target of a hard link in front of the first directory that links it, renumbering everything in
between) — for every tree with any hard links between its non-directory nodes: slot `k` of `fs->inodes`, the order
in which the inodes are serialised, carries inode number `k + 1`; the slots hold exactly the nodes the DFS numbered,
each once.  So also with hard links the inode numbers are exactly `1..N` for the `N` inodes the superblock announces,
no number is used twice, and inodes appear in the inode table in the order of their numbers.
-/
theorem inode_numbers_dense_after_reorder (cs : List Tree) :
    (postProcess cs).map (·.num) = List.range' 1 (numberRoot cs).2 ∧
    ((postProcess cs).map (·.id)).Perm (numsT (numberRoot cs).1) ∧
    (numsT (numberRoot cs).1).Perm (List.range' 1 (numberRoot cs).2) :=
  ⟨(postProcess_spec cs).1, (postProcess_spec cs).2, numberRoot_perm cs⟩

/--
The order in which inodes are serialised makes every `inode_ref` a listing stores known when the listing is written:
for every tree whose hard links name existing non-directory nodes (`resolve_link` refuses anything else), in the final
order of `fs->inodes` (`Before`: sits in an earlier slot)
* every node the DFS numbered below a directory — in particular everything inside it (`children_before_parent`) —
  still comes before that directory (`reorder_hard_links` never moves a directory and never moves anything behind one
  that was in front of it), and
* every directory comes after the target of each of its hard-link entries.
-/
theorem link_targets_before_linking_dirs (cs : List Tree)
    (hv : ValidT (filesT (numberRoot cs).1).length (numberRoot cs).1) :
    (∀ a b, 1 ≤ a → a < b → b ∈ dirNumsT (numberRoot cs).1 → Before (postProcess cs) a b) ∧
    (∀ d ∈ dirsT (filesT (numberRoot cs).1) (numberRoot cs).1, ∀ x ∈ d.2, Before (postProcess cs) x d.1) :=
  postProcess_order cs hv

/-- every directory's number is larger than every number inside its subtree (children are serialised, and their
inode references known, before the parent's listing is written) -/
theorem children_before_parent (cs : List Tree) : OrdT (numberRoot cs).1 :=
  numberRoot_ordered cs

end Num

/-! ## directory listings are strictly sorted (`insert_sorted` / `child_by_name` of fstree.c) -/
section Sorted
open Sqfs.C03FsDir

/--
For every sequence of names handed to `fstree_add_generic` for entries of one directory (in any order, with
repetitions): the directory's children list — the order in which `write_dir_entries` passes them to the dir writer,
which `dir_end_headers_ok` shows to be the order of the listing — is **strictly** sorted by `strcmp` (bytes as
`unsigned char`), hence free of duplicates; it contains only names that were added and, unless the 2^32-1 link count
limit refused one, all of them; and the directory's link count is 2 + the number of entries.
-/
theorem listing_strictly_sorted (names : List C03FsDir.Bytes) :
    (addAll {} names).children.Pairwise (fun a b => strLt a b = true) ∧
    (addAll {} names).children.Nodup ∧
    (∀ x, x ∈ (addAll {} names).children → x ∈ names) ∧
    ((addAll {} names).linkCount < 0xFFFFFFFF → ∀ x, x ∈ names → x ∈ (addAll {} names).children) ∧
    (addAll {} names).linkCount = 2 + (addAll {} names).children.length := by
  obtain ⟨g, h2, h3, _⟩ := addAll_good names {} good_init
  refine ⟨g.sorted, ?_, ?_, ?_, g.links⟩
  · exact g.sorted.imp (fun {a b} hab => by
      intro he; subst he; rw [strLt_irrefl] at hab; exact absurd hab (by simp))
  · intro x hx
    rcases h2 x hx with h | h
    · simp at h
    · exact h
  · intro hlt x hx
    exact h3 hlt x (Or.inr hx)

end Sorted

/-! ## basic / extended file inodes (`inode.c`) -/
section Inode
open Sqfs.C03Inode

/--
The thresholds of `sqfs_inode_make_basic` / `sqfs_inode_set_file_size` / `sqfs_inode_set_file_block_start` /
`sqfs_inode_set_xattr_index` and the sparse accounting of `process_completed_block`, for **every** sequence of these
operations on a file inode starting from a fresh one, with arguments of any size the C types admit: each operation
changes exactly the value it is meant to change, as a reader of the written inode sees it (`view`: a basic inode means
sparse 0, one link, no xattr) — no value is ever narrowed by the switch to the basic, all-u32 layout (a size or start of
4 GiB or more, a sparse count, an xattr index keep the inode extended).
-/
theorem file_inode_values_exact (i : FileInode) (h : WF i) (size loc idx off x n : Nat) :
    (WF (setFileSize i size) ∧ view (setFileSize i size) = ((view i).1, size, (view i).2.2)) ∧
    (WF (setBlockStart i loc) ∧ view (setBlockStart i loc) = (loc, (view i).2)) ∧
    (WF (setFragLocation i idx off) ∧ view (setFragLocation i idx off) =
      ((view i).1, (view i).2.1, (view i).2.2.1, (view i).2.2.2.1, idx, off, (view i).2.2.2.2.2.2)) ∧
    (WF (setXattr i x) ∧ view (setXattr i x) =
      ((view i).1, (view i).2.1, (view i).2.2.1, (view i).2.2.2.1, (view i).2.2.2.2.1, (view i).2.2.2.2.2.1, x)) ∧
    (WF (addSparse i n) ∧ view (addSparse i n) =
      ((view i).1, (view i).2.1, ((view i).2.2.1 + n) % 18446744073709551616, (view i).2.2.2)) ∧
    (WF (makeBasic i) ∧ view (makeBasic i) = view i) ∧ (WF (makeExtended i) ∧ view (makeExtended i) = view i) :=
  ⟨setFileSize_spec i size h, setBlockStart_spec i loc h, setFragLocation_spec i idx off h, setXattr_spec i x h,
   addSparse_spec i n h, makeBasic_spec i h, makeExtended_spec i h⟩

end Inode

/-! ## non-vacuity: the hypotheses above are satisfiable by non-trivial instances -/
section Examples
open Sqfs.DirWriter Sqfs.MetaWriter Sqfs.IdTable

/-- two entries in one inode block, then one in another block → two headers (2 + 1), indexed at listing offsets 0 and 30 -/
example : (dirEndM (fun _ => none) {} [⟨0x10020, 5, 2, [97]⟩, ⟨0x10040, 6, 2, [98]⟩, ⟨0x20000, 7, 2, [99]⟩]).1.map
    (fun r => (r.ents.length, r.index, r.block)) = [(2, 0, 0), (1, 30, 0)] := by
  decide

/-- a fresh meta writer is well formed, and so is one that already holds data -/
example : WF toyCodec0 {} := wf_init _

/-- an inode-number jump of more than 32767 splits the run -/
example : conseqCount 0 [⟨0, 1, 2, [97]⟩, ⟨32, 40000, 2, [98]⟩] = 1 := by decide

example : addEntry [97, 98] 3 0x10020 0o100644 = .ok ⟨0x10020, 3, 2, [97, 98]⟩ := by decide

example : toyCodec.Shrinks := by
  intro x c h
  unfold toyCodec at h
  split at h
  · simp only [Option.some.injEq] at h; subst h; simp; omega
  · simp at h

example : (run toyCodec [[1, 2, 3, 4, 5]]).out = [⟨true, [1, 2, 3, 4], [1, 2, 3, 4, 5]⟩] := by decide

example : processBlock toyCodec ⟨0, [1, 2, 3, 4, 5]⟩ = ⟨32768, [1, 2, 3, 4]⟩ := by decide

example : IdTable.addAll limit [] [1000, 0, 1000, 7] = some ([1000, 0, 7], [0, 1, 0, 2]) := by decide

/-- a fragment block of zero bytes is not sparse (block_processor.c:21-22), a plain block is -/
example : processBlock toyCodec ⟨blkFragmentBlock, [0, 0, 0]⟩ = ⟨blkFragmentBlock, [0, 0, 0]⟩ ∧
    processBlock toyCodec ⟨0, [0, 0, 0]⟩ = ⟨blkIsSparse, [0, 0, 0]⟩ := by decide

/-- export table: inodes 1 and 3 added, root = 4 → four slots, slot 1 (inode 2) is the filler -/
example : exportTable [(3, 0x20040), (1, 0x20), (3, 0x20040)] 4 0x30000 = [0x20, exportUnset, 0x20040, 0x30000] := by decide

/-- names arrive unsorted, one twice: sorted, unique, link count 2 + 3 -/
example : C03FsDir.addAll {} [[98], [97, 0xC3], [97], [98]] = ⟨[[97], [97, 0xC3], [98]], 5⟩ := by decide

/-- a fresh inode is well formed; 4 GiB does not fit the basic inode, 4 GiB - 2 does -/
example : C03Inode.WF C03Inode.fresh ∧
    C03Inode.setFileSize C03Inode.fresh 4294967296 = .ext 0 4294967296 0 1 0 0 0xFFFFFFFF ∧
    C03Inode.setFileSize (.ext 0 4294967296 0 1 0 0 0xFFFFFFFF) 4294967294 = .basic 0 0 0 4294967294 :=
  ⟨C03Inode.wf_fresh, by decide, by decide⟩

/-- a 5-byte table at file offset 100: one block of 5 + 2 bytes, its location 100, the list starts at 107 -/
example : (writeTableM toyCodec 100 [1, 2, 3, 4, 5]).locs = [100] ∧ (writeTableM toyCodec 100 [1, 2, 3, 4, 5]).start = 106 := by
  decide

example : Sqfs.Numbering.numberRoot [.file, .dir [.file, .hlink 0, .dir [.file]], .file] =
    (.dir 7 [.file 4, .dir 5 [.file 2, .hlink 0, .dir 3 [.file 1]], .file 6], 7) := by rfl

/-- its link is valid (file 1 exists), so `link_targets_before_linking_dirs` applies -/
example : Sqfs.Numbering.ValidT (Sqfs.Numbering.filesT (Sqfs.Numbering.numberRoot [.dir [.hlink 1], .dir [.file], .file]).1).length
    (Sqfs.Numbering.numberRoot [.dir [.hlink 1], .dir [.file], .file]).1 := by
  simp [Sqfs.Numbering.numberRoot, Sqfs.Numbering.allocL, Sqfs.Numbering.allocT, Sqfs.Numbering.step2, Sqfs.Numbering.filesT,
    Sqfs.Numbering.filesL, Sqfs.Numbering.ValidT, Sqfs.Numbering.ValidL]

/-- the DFS numbers the first directory 2 and the file it links 4: the file is rotated in front of the directory
(slot order 1,4,2,3,5) and everything gets the number of its slot -/
example : Sqfs.Numbering.postProcess [.dir [.hlink 1], .dir [.file], .file] =
    [⟨1, 1⟩, ⟨4, 2⟩, ⟨2, 3⟩, ⟨3, 4⟩, ⟨5, 5⟩] := by decide

/-- the layout of the first image of the design notes (gzip, 5 inodes, one fragment, one id) -/
example : Sqfs.Finish.finish ⟨512455, 93, 55, some ⟨18, 1⟩, none, ⟨6, 1⟩, none, 4096⟩ =
    ⟨512455, 512548, 512621, Sqfs.Finish.NOTBL, 512635, Sqfs.Finish.NOTBL, 512643, 516096⟩ := by decide

end Examples

end Sqfs.C03
