/-
C10 — Reader answers depend only on image and query, never on earlier queries.

Property theorems only (helpers: `Sqfs/Proofs/MetaReader.lean`, `Sqfs/Proofs/DataReaderCache.lean`).

Part 1, metadata reader (`lib/sqfs/src/meta_reader.c`, model `Sqfs/Model/MetaReader.lean` with `fix = true`,
i.e. the code with `fixes/C10-meta-seek-invalidate.patch` applied; the model of the unpatched code violates
the property, see `Sqfs/Witness/C10.lean`).  Quantifiers: every file `f` (any size, any bytes, any set of
positions that answer with an I/O error), every block decompressor `unc` that satisfies `CodecOK` (bounded
output, failures are error codes — *nothing* about what it computes), every window `start/limit`, every
history `h` of `seek`/`read`/`get_position` calls with arbitrary arguments, successful or not, every query.
-/
import Sqfs.Proofs.MetaReader
import Sqfs.Proofs.DataReaderCache
import Sqfs.Proofs.C10Prog
import Sqfs.Proofs.C10Data
namespace Sqfs.C10
open Sqfs.MetaReader Sqfs.Consts Sqfs.C10P

/-! ### fixtures for the instantiating examples that follow the theorems

The toy codec of the harness with the proof that it meets the contract `CodecOK`, and the small images the examples
run on (metadata blocks stored uncompressed; `bad` marks positions that answer with an I/O error). -/

/-- the toy codec of the harness meets the contract -/
theorem toyUnc_ok : CodecOK toyUnc := by
  constructor
  · intro x n out h
    unfold toyUnc at h
    split at h
    · split at h
      · cases h; assumption
      · cases h
    · split at h
      · cases h; simpa using ‹_›
      · cases h
    · simp only at h
      split at h
      · cases h; simpa using ‹_›
      · cases h
    · cases h
  · intro x n e h
    unfold toyUnc at h
    split at h
    · split at h
      · cases h
      · cases h; decide
    · split at h
      · cases h
      · cases h; decide
    · simp only at h
      split at h
      · cases h
      · cases h; decide
    · cases h; decide

/-- block A "abcd" at 0, block B "xy" at 6 (both stored uncompressed) -/
private def exFile : File :=
  { size := 10, byte := fun i => ([0x04, 0x80, 0x61, 0x62, 0x63, 0x64, 0x02, 0x80, 0x78, 0x79] : List UInt8).getD i 0,
    bad := fun _ => false }
/-- the same with an I/O error at byte 8 (inside block B's payload) -/
private def badFile : File := { exFile with bad := fun i => i == 8 }
private def exOps : List Op := [.seek 0 0, .seek 6 3, .read 2, .pos]

/-- inode table at 0: one raw block with a FIFO inode (reference 0) and the root directory inode (reference 20);
directory table at 54: one raw block with the listing `a -> FIFO` -/
private def exImg : File :=
  { size := 77,
    byte := fun i => ([0x34, 0x80,
      0x06, 0x00, 0xA4, 0x01, 0, 0, 0, 0, 0, 0, 0, 0, 0x02, 0, 0, 0, 0x01, 0, 0, 0,
      0x01, 0x00, 0xED, 0x01, 0, 0, 0, 0, 0, 0, 0, 0, 0x01, 0, 0, 0, 0, 0, 0, 0, 0x02, 0, 0, 0, 0x18, 0, 0, 0, 0, 0, 0, 0,
      0x15, 0x80,
      0, 0, 0, 0, 0, 0, 0, 0, 0x02, 0, 0, 0, 0, 0, 0, 0, 0x06, 0, 0, 0, 0x61] : List UInt8).getD i 0,
    bad := fun _ => false }

private def exDir : DirRd := { inodeStart := 0, dirStart := 54, rootRef := 20, blockSize := 4096 }
private def exWin : Nat → Nat × Nat := fun k => if k = 0 then (0, 54) else (54, 77)
/-- histories with failures: `meta_inode` was sent to a bad offset, `meta_dir` into the middle of the listing -/
private def exHist : Nat → List Op := fun k => if k = 0 then [.seek 0 0, .seek 0 100, .read 3] else [.seek 54 3, .read 50]

/-- key/value block at 0: the value record "vv", key `user.k` whose value is out of line (reference 0 = that
record), key `user.j` with the inline value "w" -/
private def exKv : File :=
  { size := 35,
    byte := fun i => ([0x21, 0x80,
      0x02, 0, 0, 0, 0x76, 0x76,
      0x00, 0x01, 0x01, 0x00, 0x6b,  0x08, 0, 0, 0,  0, 0, 0, 0, 0, 0, 0, 0,
      0x00, 0x00, 0x01, 0x00, 0x6a,  0x01, 0, 0, 0, 0x77] : List UInt8).getD i 0,
    bad := fun _ => false }

private def exXr : XR := { loaded := true, xattrStart := 0, xattrEnd := 35, numIds := 0, idBlockStarts := [] }
/-- both readers over the whole image; the key/value reader stands right behind the key `user.k` -/
private def exS : Readers := fun k => if k = 1 then (seek true exKv toyUnc (fresh 0 35) 0 11).2 else fresh 0 35

/-- a written file of 19 bytes with block size 8: a raw block at 0, a compressed block at 8 (`03 08 00 55`: eight
times `55`), and a 3-byte tail at offset 1 of the raw 5-byte fragment block at 12 -/
private def exData : File :=
  { size := 17, byte := fun i => ([1, 2, 3, 4, 5, 6, 7, 8, 3, 8, 0, 0x55, 0xa0, 0xa1, 0xa2, 0xa3, 0xa4] : List UInt8).getD i 0,
    bad := fun _ => false }
private def exIno : DataReader.Inode := { fileSize := 19, blocksStart := 0, fragIdx := 0, fragOff := 1, blocks := [16777224, 4] }
private def exTbl : List (Nat × Nat) := [(12, 16777221)]
/-- the same with an I/O error inside the first data block / inside the fragment block -/
private def badData : File := { exData with bad := fun i => i == 2 }
private def badFrag : File := { exData with bad := fun i => i == 13 }
private def inoFragOnly : DataReader.Inode := { fileSize := 3, blocksStart := 0, fragIdx := 0, fragOff := 1, blocks := [] }
private def ino2 : DataReader.Inode := { fileSize := 8, blocksStart := 0, fragIdx := 4294967295, fragOff := 0, blocks := [16777224] }
/-- a history with positional reads, `get_fragment`, a stream call and a fragment-table reload -/
private def exDOps : List DataReader.OpX :=
  [.read exIno 0 19, .frag exIno, .sget (DataReader.streamOpen 8 exIno) 3, .reload (.ok exTbl), .read ino2 3 20]


/-- a freshly created reader is coherent -/
theorem coherent_init (f : File) (unc : Codec) (start limit : Nat) (hl : limit ≤ NONE) :
    Coherent f unc (fresh start limit) := fresh_coherent f unc start limit hl
example := coherent_init exFile toyUnc 0 10 (by decide)

/-- `sqfs_meta_reader_seek` keeps the cache coherent — when it succeeds and on **every** failure path
(window check, cache hit with a bad offset, header read error, bad size word, block past the limit, payload
read error, decompression failure, offset beyond the freshly loaded block) -/
theorem coherent_seek (f : File) (unc : Codec) (hc : CodecOK unc) (m : MR) (hm : Coherent f unc m) (b o : Nat) :
    Coherent f unc (seek true f unc m b o).2 := seek_coherent hc hm b o
-- a seek that fails with an I/O error in the payload of block B
example := coherent_seek badFile toyUnc toyUnc_ok _ (coherent_init badFile toyUnc 0 10 (by decide)) 6 0

/-- `sqfs_meta_reader_read` keeps the cache coherent (whether or not it crosses into following blocks, and
whether or not one of the implied seeks fails) -/
theorem coherent_read (f : File) (unc : Codec) (hc : CodecOK unc) (m : MR) (hm : Coherent f unc m) (n : Nat) :
    Coherent f unc (read true f unc m n).2.2 := read_coherent hc hm n
-- a read that crosses from block A into block B
example := coherent_read exFile toyUnc toyUnc_ok _
  (coherent_seek exFile toyUnc toyUnc_ok _ (coherent_init exFile toyUnc 0 10 (by decide)) 0 2) 4

/-- every object reachable from a fresh reader by any history of calls is coherent -/
theorem coherent_run (f : File) (unc : Codec) (hc : CodecOK unc) (start limit : Nat) (hl : limit ≤ NONE)
    (h : List Op) : Coherent f unc (run true f unc (fresh start limit) h) :=
  (run_coherent hc h _ (fresh_coherent f unc start limit hl)).1
example := coherent_run badFile toyUnc toyUnc_ok 0 10 (by decide) exOps

/-- **Main theorem (metadata reader).**  After *any* history the answer to a query — `seek(b,o)`, the reads
`ns` in order up to the first failure, the final position — is the answer a freshly created reader gives:
statuses, delivered bytes and position all agree. -/
theorem meta_history_independent (f : File) (unc : Codec) (hc : CodecOK unc) (start limit : Nat)
    (hl : limit ≤ NONE) (h : List Op) (b o : Nat) (ns : List Nat) :
    answer true f unc (run true f unc (fresh start limit) h) b o ns =
    answer true f unc (fresh start limit) b o ns := by
  obtain ⟨hco, hs, hlm⟩ := run_coherent hc h _ (fresh_coherent f unc start limit hl)
  generalize run true f unc (fresh start limit) h = m at *
  have hv := seek_vs_fresh hc hco b o
  simp only [fresh] at hs hlm
  rw [hs, hlm] at hv
  unfold answer
  simp only
  rw [hv.1]
  by_cases hst : (seek true f unc (fresh start limit) b o).1 = 0
  · simp only [hst, ne_eq, not_true_eq_false, if_false]
    have hsim := hv.2 (hv.1.trans hst)
    rw [sim_answerReads hc ns _ _ hsim (seek_coherent hc hco b o)
      (seek_coherent hc (fresh_coherent f unc start limit hl) b o)]
  · simp only [hst, ne_eq, not_false_eq_true, if_true]

-- on the damaged file: the answer contains a failing read
example := meta_history_independent badFile toyUnc toyUnc_ok 0 10 (by decide) exOps 0 0 [2, 2, 1]
example : (answer true badFile toyUnc (fresh 0 10) 0 0 [2, 2, 1]).reads.length = 3 ∧
    ((answer true badFile toyUnc (fresh 0 10) 0 0 [2, 2, 1]).reads.map (·.1 == 0)) = [true, true, false] := by
  decide +kernel

/-- two histories, same query: same answer (the form in which the property is usually quoted) -/
theorem meta_answer_depends_on_image_and_query_only (f : File) (unc : Codec) (hc : CodecOK unc)
    (start limit : Nat) (hl : limit ≤ NONE) (h₁ h₂ : List Op) (b o : Nat) (ns : List Nat) :
    answer true f unc (run true f unc (fresh start limit) h₁) b o ns =
    answer true f unc (run true f unc (fresh start limit) h₂) b o ns := by
  rw [meta_history_independent f unc hc start limit hl h₁, meta_history_independent f unc hc start limit hl h₂]
example := meta_answer_depends_on_image_and_query_only exFile toyUnc toyUnc_ok 0 10 (by decide) exOps [.seek 6 0] 0 0 [2, 2, 1]

/-- In the repaired code `data_used - offset` never wraps and no copy leaves `m->data` (D3 is closed by the
repair of D2): whatever the history, a `read` returns a real status, never the model's "out of the buffer"
or "out of fuel" outcome. -/
theorem read_no_crash (f : File) (unc : Codec) (hc : CodecOK unc) (start limit : Nat) (hl : limit ≤ NONE)
    (h : List Op) (n : Nat) :
    (read true f unc (run true f unc (fresh start limit) h) n).1 < crashSt :=
  readLoop_no_crash hc n _ n [] (coherent_run f unc hc start limit hl h) (Nat.le_refl n)
example := read_no_crash exFile toyUnc toyUnc_ok 0 10 (by decide) exOps 5

/-- a failed cache-miss seek leaves the reader unpositioned: nothing is readable until the next successful
seek (`data_used = offset = 0`, both block numbers invalid) -/
theorem failed_miss_unpositions (f : File) (unc : Codec) (m : MR) (b o : Nat)
    (hw : ¬ (b < m.start ∨ b ≥ m.limit)) (hmiss : b ≠ m.tag) (hfail : (seek true f unc m b o).1 ≠ 0) :
    let m' := (seek true f unc m b o).2
    m'.tag = NONE ∧ m'.nextBlock = NONE ∧ m'.dataUsed = 0 ∧ m'.offset = 0 := by
  unfold seek at hfail ⊢
  simp only [hw, hmiss, if_false, if_true] at hfail ⊢
  cases hl : loadBlock f unc m.limit b with
  | early e => exact ⟨rfl, rfl, rfl, rfl⟩
  | uncErr e raw => exact ⟨rfl, rfl, rfl, rfl⟩
  | done raw blk size =>
    simp only [hl] at hfail ⊢
    by_cases ho : o ≥ blk.length
    · simp only [ho, if_true]; exact ⟨trivial, trivial, trivial, trivial⟩
    · simp only [ho, if_false] at hfail; exact absurd rfl hfail

/-- instances: (1) cache miss on block B whose payload answers with an I/O error, from a fresh reader; (2) cache miss on
block B from a reader positioned in block A, with an offset beyond the freshly loaded block -/
example := failed_miss_unpositions badFile toyUnc (fresh 0 10) 6 0 (by decide) (by decide) (by decide +kernel)
example := failed_miss_unpositions exFile toyUnc (seek true exFile toyUnc (fresh 0 10) 0 0).2 6 3
  (by decide +kernel) (by decide +kernel) (by decide +kernel)

/-- after a successful seek, `get_position` reports the position asked for -/
theorem seek_then_position (f : File) (unc : Codec) (hc : CodecOK unc) (m : MR) (b o : Nat)
    (h : (seek true f unc m b o).1 = 0) : getPos (seek true f unc m b o).2 = (b, o) := seek_getPos hc h
example := seek_then_position exFile toyUnc toyUnc_ok (fresh 0 10) 6 1 (by decide +kernel)

/-! ### Part 2: the data reader (`lib/sqfs/src/data_reader.c`)

`kw = true` is the code as it is (data-block cache keyed by location *and* size word, 36fa767); `kw = false` the code
before that commit, for which `sw`/`ConsIno` describe the images on which it was sound (`ConsIno` is *no condition
at all* when `kw = true`).  `sfix` selects the stream code: `false` as it was in /repo before 8447a61 (D33, see
`Sqfs/Witness/C10.lean`), `true` with `fixes/C10-stream-frag-fail.patch`; the theorems below hold for both, because
D33 lives in the stream object, not in the reader's caches.  A history (`DataReader.OpX`, run by `runX`; the read-only
`Op`/`run` that C19 uses embed into it: `DataReader.runX_embed`) is any sequence of
`sqfs_data_reader_read`, `sqfs_data_reader_get_fragment`, stream `get_buffered_data` calls (on streams in any
state) and `sqfs_data_reader_load_fragment_table` reloads.  `sqfs_data_reader_get_block` does not use the reader
object beyond `block_size`: `DataReader.getBlockApi` has no reader argument. -/

/-- a freshly created data reader (after `load_fragment_table`) is coherent -/
theorem data_coherent_init (kw : Bool) (f : File) (unc : Codec) (sw : Nat → Nat) (bs : Nat) (tbl : List (Nat × Nat)) :
    DataReader.DCoh kw f unc sw (DataReader.fresh bs tbl) := DataReader.fresh_dcoh kw f unc sw bs tbl
example := data_coherent_init true exData toyUnc (fun _ => 0) 8 exTbl

/-- `sqfs_data_reader_read` keeps both caches coherent, on success and on every failure path, and its answer
is the answer of the cacheless reference reader -/
theorem data_coherent_read (kw : Bool) (f : File) (unc : Codec) (sw : Nat → Nat) (hc : CodecOK unc) (d : DataReader.DR)
    (hd : DataReader.DCoh kw f unc sw d) (ino : DataReader.Inode) (hi : DataReader.ConsIno kw sw ino) (o n : Nat) :
    DataReader.DCoh kw f unc sw (DataReader.read kw f unc d ino o n).2 ∧
    (DataReader.read kw f unc d ino o n).1 = DataReader.readSpec f unc d.blockSize d.tbl ino o n :=
  ⟨(DataReader.read_spec hc hd ino hi o n).2.1, (DataReader.read_spec hc hd ino hi o n).1⟩
example := data_coherent_read true exData toyUnc (fun _ => 0) toyUnc_ok _
  (data_coherent_init true exData toyUnc (fun _ => 0) 8 exTbl) exIno (fun _ _ => Or.inl rfl) 3 12

/-- every data reader reachable by a history is coherent -/
theorem data_coherent_run (kw sfix : Bool) (f : File) (unc : Codec) (sw : Nat → Nat) (hc : CodecOK unc) (bs : Nat)
    (tbl : List (Nat × Nat)) (h : List DataReader.OpX) (hh : DataReader.OpsCons kw sw h) :
    DataReader.DCoh kw f unc sw (DataReader.runX kw sfix f unc (DataReader.fresh bs tbl) h) :=
  (DataReader.run_dcoh hc sfix h _ (DataReader.fresh_dcoh kw f unc sw bs tbl) hh).1
-- `OpsCons` discharged for a five-call history (for `kw = true` every inode is consistent)
example := data_coherent_run true false exData toyUnc (fun _ => 0) toyUnc_ok 8 exTbl exDOps
  (by intro op _; cases op <;> first | exact (fun _ _ => Or.inl rfl) | trivial)

/-- **Main theorem (data reader).**  After any history, each entry point that goes through a cache answers
what its cacheless reference computes from the image, the fragment table currently loaded and the query alone:
positional read, `get_fragment`, and a stream's `get_buffered_data` (answer and new stream state). -/
theorem data_api_eq_cacheless (kw sfix : Bool) (f : File) (unc : Codec) (sw : Nat → Nat) (hc : CodecOK unc)
    (bs : Nat) (tbl : List (Nat × Nat)) (h : List DataReader.OpX) (hh : DataReader.OpsCons kw sw h) :
    let D := DataReader.runX kw sfix f unc (DataReader.fresh bs tbl) h
    D.blockSize = bs ∧
    (∀ ino o n, DataReader.ConsIno kw sw ino → (DataReader.read kw f unc D ino o n).1 = DataReader.readSpec f unc bs D.tbl ino o n) ∧
    (∀ ino, (DataReader.getFragment f unc D ino).1 = DataReader.getFragmentSpec f unc bs D.tbl ino) ∧
    (∀ s, ((DataReader.streamGet sfix f unc D s).1, (DataReader.streamGet sfix f unc D s).2.1) =
            DataReader.streamGetSpec sfix f unc bs D.tbl s) := by
  obtain ⟨hd, hb⟩ := DataReader.run_dcoh hc sfix h _ (DataReader.fresh_dcoh kw f unc sw bs tbl) hh
  have hb' : (DataReader.runX kw sfix f unc (DataReader.fresh bs tbl) h).blockSize = bs := hb
  refine ⟨hb', fun ino o n hi => ?_, fun ino => ?_, fun s => ?_⟩
  · have := (DataReader.read_spec hc hd ino hi o n).1
    rw [hb'] at this; exact this
  · have := (DataReader.getFragment_spec hc hd ino).1
    rw [hb'] at this; exact this
  · have := (DataReader.streamGet_spec hc sfix hd s).1
    rw [hb'] at this; exact this

example := data_api_eq_cacheless true false exData toyUnc (fun _ => 0) toyUnc_ok 8 exTbl exDOps
  (by intro op _; cases op <;> first | exact (fun _ _ => Or.inl rfl) | trivial)

/-- the code as it is (cache keyed by location and size word): **history independence on every image**, damaged
ones included, for arbitrary inodes and streams: a used reader answers like a reader created now (which loads the
fragment table the used reader has loaded last) -/
theorem data_history_independent (sfix : Bool) (f : File) (unc : Codec) (hc : CodecOK unc)
    (bs : Nat) (tbl : List (Nat × Nat)) (h : List DataReader.OpX) :
    let D := DataReader.runX true sfix f unc (DataReader.fresh bs tbl) h
    let F := DataReader.fresh bs D.tbl
    (∀ ino o n, (DataReader.read true f unc D ino o n).1 = (DataReader.read true f unc F ino o n).1) ∧
    (∀ ino, (DataReader.getFragment f unc D ino).1 = (DataReader.getFragment f unc F ino).1) ∧
    (∀ s, ((DataReader.streamGet sfix f unc D s).1, (DataReader.streamGet sfix f unc D s).2.1) =
          ((DataReader.streamGet sfix f unc F s).1, (DataReader.streamGet sfix f unc F s).2.1)) := by
  have all : ∀ i : DataReader.Inode, DataReader.ConsIno true (fun _ => 0) i := fun _ _ _ => Or.inl rfl
  have hh : DataReader.OpsCons true (fun _ => 0) h := by
    intro op _; cases op <;> first | exact all _ | trivial
  obtain ⟨hb, h1, h2, h3⟩ := data_api_eq_cacheless true sfix f unc (fun _ => 0) hc bs tbl h hh
  intro D F
  have hF := DataReader.fresh_dcoh true f unc (fun _ => 0) bs D.tbl
  refine ⟨fun ino o n => ?_, fun ino => ?_, fun s => ?_⟩
  · rw [h1 ino o n (all _)]; exact ((DataReader.read_spec hc hF ino (all _) o n).1).symm
  · rw [h2 ino]; exact ((DataReader.getFragment_spec hc hF ino).1).symm
  · rw [h3 s]; exact ((DataReader.streamGet_spec hc sfix hF s).1).symm

example := data_history_independent false exData toyUnc toyUnc_ok 8 exTbl exDOps

/-- the code before 36fa767 (cache keyed by location only), on images whose inodes are consistent with one
location ↦ size word function (kept for the record: D21) -/
theorem data_history_independent_written (f : File) (unc : Codec) (sw : Nat → Nat) (hc : CodecOK unc)
    (bs : Nat) (tbl : List (Nat × Nat)) (h : List DataReader.OpX) (hh : DataReader.OpsCons false sw h)
    (ino : DataReader.Inode) (hi : DataReader.ConsIno false sw ino) (o n : Nat) :
    let D := DataReader.runX false false f unc (DataReader.fresh bs tbl) h
    (DataReader.read false f unc D ino o n).1 = (DataReader.read false f unc (DataReader.fresh bs D.tbl) ino o n).1 := by
  obtain ⟨_, h1, _, _⟩ := data_api_eq_cacheless false false f unc sw hc bs tbl h hh
  intro D
  rw [h1 ino o n hi]
  exact ((DataReader.read_spec hc (DataReader.fresh_dcoh false f unc sw bs D.tbl) ino hi o n).1).symm

-- old code (`kw = false`): every inode of the history names location 0 with the size word `sw 0`
example := data_history_independent_written exData toyUnc (fun _ => 16777224) toyUnc_ok 8 exTbl
  [.read ino2 0 8, .frag exIno, .read ino2 3 2]
  (by
    have c2 : DataReader.ConsIno false (fun _ => 16777224) ino2 := by unfold DataReader.ConsIno DataReader.Cons; decide
    intro op h
    simp only [List.mem_cons, List.not_mem_nil, or_false] at h
    rcases h with rfl | rfl | rfl <;> first | exact c2 | trivial)
  ino2 (by unfold DataReader.ConsIno DataReader.Cons; decide) 1 5

/-- the stream with `fixes/C10-stream-frag-fail.patch`: a `get_buffered_data` that fails leaves the stream at its
end — whatever is asked afterwards, on whatever reader state, the answer is "end of file" (D33 closed) -/
theorem stream_fail_stops (f : File) (unc : Codec) (d d' : DataReader.DR) (s : DataReader.Stream) (e : Status)
    (h : (DataReader.streamGet true f unc d s).1 = .err e) :
    (DataReader.streamGet true f unc d' (DataReader.streamGet true f unc d s).2.1).1 = .eof := by
  have key : ∀ s0 : DataReader.Stream, (DataReader.streamGet true f unc d' s0.failed).1 = .eof := by
    intro s0; unfold DataReader.streamGet DataReader.Stream.failed; simp
  unfold DataReader.streamGet at h
  rw [show DataReader.streamGet true f unc d s = _ from by unfold DataReader.streamGet; rfl]
  by_cases h1 : s.bufOff < s.bufUsed
  · simp only [h1, if_true] at h; cases h
  · simp only [h1, if_false] at h ⊢
    by_cases h2 : s.filesz = 0
    · simp only [h2, if_true] at h; cases h
    · simp only [h2, if_false] at h ⊢
      generalize (if s.filesz < d.blockSize then s.filesz else d.blockSize) = used at h ⊢
      generalize ({ s with bufOff := 0, bufUsed := used } : DataReader.Stream) = s1 at h ⊢
      generalize DataReader.streamFill f unc d s1 used = r at h ⊢
      obtain ⟨fl, dd⟩ := r
      cases fl with
      | ok mem s' => cases h
      | fail e' => exact key _
      | early e' => exact key _

/-- instances, one per failure path of `get_buffered_data`: (1) the first data block is unreadable (`goto fail`);
(2) a file that is only a tail end whose fragment block is unreadable (the `early` return) -/
example : (DataReader.streamGet true badData toyUnc (DataReader.fresh 8 exTbl) (DataReader.streamOpen 8 exIno)).1 = .err errIo ∧
    (DataReader.streamGet true badFrag toyUnc (DataReader.fresh 8 exTbl) (DataReader.streamOpen 8 inoFragOnly)).1 = .err errIo := by
  decide +kernel
example := stream_fail_stops badData toyUnc (DataReader.fresh 8 exTbl) (DataReader.fresh 8 exTbl)
  (DataReader.streamOpen 8 exIno) errIo (by decide +kernel)
example := stream_fail_stops badFrag toyUnc (DataReader.fresh 8 exTbl) (DataReader.fresh 8 exTbl)
  (DataReader.streamOpen 8 inoFragOnly) errIo (by decide +kernel)

/-! #### the alternative APIs for reading file data agree on every file the library itself wrote

`DataReader.Written f unc bs tbl ino datas tail` (`Sqfs/Spec/DataReaderCache.lean`) describes an inode and its data
as the block processor and the fragment table writer leave them: full blocks (sparse, raw, or compressed and then
smaller than unpacked), at most one short last block or else a tail in the fragment block the inode names.  The
statements are about the cacheless references; by `data_api_eq_cacheless` the cached reader computes those after
any history. -/

/-- positional read of the whole file = `get_block` for every index followed by `get_fragment`: both succeed
and deliver the same bytes -/
theorem read_eq_blocks_plus_fragment (f : File) (unc : Codec) (bs : Nat) (tbl : List (Nat × Nat)) (ino : DataReader.Inode)
    (datas : List Bytes) (tail : Bytes) (h : DataReader.Written f unc bs tbl ino datas tail) :
    (DataReader.readSpec f unc bs tbl ino 0 ino.fileSize).1 = 0 ∧
    DataReader.viaBlocks f unc bs tbl ino = .ok (DataReader.readSpec f unc bs tbl ino 0 ino.fileSize).2 := by
  rw [DataReader.readSpec_written h, DataReader.viaBlocks_written h]
  exact ⟨rfl, rfl⟩

/-- the stream (`get_buffered_data`/`advance_buffer` until the end) delivers what the positional read delivers -/
theorem stream_eq_read (f : File) (unc : Codec) (bs : Nat) (tbl : List (Nat × Nat)) (ino : DataReader.Inode)
    (datas : List Bytes) (tail : Bytes) (h : DataReader.Written f unc bs tbl ino datas tail) :
    DataReader.viaStream f unc bs tbl ino = .ok (DataReader.readSpec f unc bs tbl ino 0 ino.fileSize).2 := by
  rw [DataReader.readSpec_written h]
  have := DataReader.streamAllGo_written h.bsPos tbl ino.fragIdx ino.fragOff tail h.tailShort h.frag
    ino.blocks ino.blocksStart ino.fileSize datas (DataReader.streamOpen bs ino) [] (ino.blocks.length + 2)
    h.blocks rfl rfl rfl rfl rfl rfl h.tailLen (Nat.le_refl _)
  unfold DataReader.viaStream
  rw [this]
  simp

/-- and all three are the file: the blocks' bytes followed by the tail -/
theorem written_file_content (f : File) (unc : Codec) (bs : Nat) (tbl : List (Nat × Nat)) (ino : DataReader.Inode)
    (datas : List Bytes) (tail : Bytes) (h : DataReader.Written f unc bs tbl ino datas tail) :
    DataReader.readSpec f unc bs tbl ino 0 ino.fileSize = (0, datas.flatten ++ tail) := DataReader.readSpec_written h

/-! ### Part 3: the decoders on top of the metadata reader

`Sqfs/Model/C10Dec.lean` models `sqfs_meta_reader_read_inode`, `sqfs_meta_reader_readdir`, the dir reader's
`get_inode`/`open_dir`/`read`/`resolve_path`, the xattr reader's `get_desc`/`seek_kv`/`read_key`/`read_value`/
`read`/`read_all` and `sqfs_read_table` as *programs* (`Prog`): trees of `seek`/`read`/`get_position` calls on the
reader objects the API object owns, returning at the first failing call.  `WF noneYet p` ("seek first") says that
`p` reads a reader only after positioning it itself.  `usedFam f unc w h` is any family of reader objects reachable
from freshly created ones (reader `k` created with window `w k`) by arbitrary histories `h k` of raw calls —
which includes everything earlier programs did to them, successful or not, because every program only ever
issues such calls; `freshFam w` are the freshly created ones. -/

/-- **Lifting theorem.**  Every seek-first program — whatever it computes from the bytes it reads — returns on
used reader objects what it returns on freshly created ones, and leaves every reader object coherent. -/
theorem prog_history_independent {α : Type} (f : File) (unc : Codec) (hc : CodecOK unc) (w : Nat → Nat × Nat)
    (hw : ∀ k, (w k).2 ≤ NONE) (h : Nat → List Op) (p : Prog α) (hp : WF noneYet p) :
    (exec true f unc p (usedFam f unc w h)).1 = (exec true f unc p (freshFam w)).1 ∧
    ∀ k, Coherent f unc ((exec true f unc p (usedFam f unc w h)).2 k) := by
  obtain ⟨e1, e2⟩ := exec_obs hc p noneYet _ _ (rel_used_fresh hc w hw h) hp
  exact ⟨e1, fun k => (e2 k).1⟩

-- a three-call seek-first program on readers with failing histories
example := prog_history_independent (α := Bytes) exImg toyUnc toyUnc_ok exWin (by intro k; unfold exWin; split <;> decide)
  exHist (.seek 0 0 0 (.read 0 4 fun b => .pos 0 fun _ => .ret b)) (by simp [C10P.WF])

/-- **Clients.**  A chain of seek-first calls — each chosen from the answers to the earlier ones — has the same
outcome on used readers with arbitrary foreign histories `hs` happening on the same objects *between* its calls
as on fresh readers without any interleaving. -/
theorem session_history_independent {α β : Type} (f : File) (unc : Codec) (hc : CodecOK unc) (w : Nat → Nat × Nat)
    (hw : ∀ k, (w k).2 ≤ NONE) (h : Nat → List Op) (s : Session α β) (hs : s.WF) (between : List (Nat → List Op)) :
    (s.runI true f unc (usedFam f unc w h) between).1 = (s.runI true f unc (freshFam w) []).1 :=
  session_obs hc s _ _ _ _ (rel_used_fresh hc w hw h) hs

/-- instance: a hand-made two-call session (`s.WF` discharged), two foreign histories interleaved between its calls -/
example := session_history_independent (α := Bytes) (β := Nat) exImg toyUnc toyUnc_ok exWin
  (by intro k; unfold exWin; split <;> decide) exHist
  (.call (.seek 0 0 0 (.read 0 4 fun b => .pos 0 fun _ => .ret b)) fun _ =>
    .call (.seek 1 54 0 (.read 1 8 fun b => .ret b)) fun _ => .done 1)
  (by simp [Session.WF, C10P.WF]) [exHist, exHist]

/-- inode by reference: `sqfs_dir_reader_get_inode` (= `sqfs_meta_reader_read_inode` on `meta_inode`) -/
theorem inode_by_ref_history_independent (f : File) (unc : Codec) (hc : CodecOK unc) (w : Nat → Nat × Nat)
    (hw : ∀ k, (w k).2 ≤ NONE) (h : Nat → List Op) (d : DirRd) (ref : Nat) :
    (exec true f unc (d.getInodeP ref) (usedFam f unc w h)).1 = (exec true f unc (d.getInodeP ref) (freshFam w)).1 :=
  (prog_history_independent f unc hc w hw h _ (readInodeP_wf _ _ _ _ _)).1

/-- one `sqfs_dir_reader_read` call with the caller's cursor `it` -/
theorem readdir_call_history_independent (f : File) (unc : Codec) (hc : CodecOK unc) (w : Nat → Nat × Nat)
    (hw : ∀ k, (w k).2 ≤ NONE) (h : Nat → List Op) (d : DirRd) (it : Rd) :
    (exec true f unc (d.readP it) (usedFam f unc w h)).1 = (exec true f unc (d.readP it) (freshFam w)).1 :=
  (prog_history_independent f unc hc w hw h _ (readdirP_wf 1 it)).1

/-- directory listing: the entries (and their inode references) a listing delivers do not depend on what the dir
reader was used for before **nor on what it is used for between the `read` calls of the listing** (the cursor
lives in the caller's `sqfs_dir_reader_state_t`, not in the reader) -/
theorem dir_listing_history_independent (f : File) (unc : Codec) (hc : CodecOK unc) (w : Nat → Nat × Nat)
    (hw : ∀ k, (w k).2 ≤ NONE) (h : Nat → List Op) (d : DirRd) (fuel : Nat) (it : Rd) (between : List (Nat → List Op)) :
    ((listSession d fuel it []).runI true f unc (usedFam f unc w h) between).1 =
    ((listSession d fuel it []).runI true f unc (freshFam w) []).1 :=
  session_history_independent f unc hc w hw h _ (listSession_wf d fuel it []) between

/-- the same for the listing done in one go (`get_inode`, `open_dir`, all `read` calls) -/
theorem dir_list_history_independent (f : File) (unc : Codec) (hc : CodecOK unc) (w : Nat → Nat × Nat)
    (hw : ∀ k, (w k).2 ≤ NONE) (h : Nat → List Op) (d : DirRd) (ref : Nat) :
    (exec true f unc (d.listP ref) (usedFam f unc w h)).1 = (exec true f unc (d.listP ref) (freshFam w)).1 :=
  (prog_history_independent f unc hc w hw h _ (listP_wf d ref)).1

/-- path resolution: `sqfs_dir_reader_resolve_path(rd, path, NULL, &ref)` — alternating `get_inode` on `meta_inode`
and listings on `meta_dir`, for every path -/
theorem path_resolution_history_independent (f : File) (unc : Codec) (hc : CodecOK unc) (w : Nat → Nat × Nat)
    (hw : ∀ k, (w k).2 ≤ NONE) (h : Nat → List Op) (d : DirRd) (path : Bytes) :
    (exec true f unc (d.resolveP path) (usedFam f unc w h)).1 = (exec true f unc (d.resolveP path) (freshFam w)).1 :=
  (prog_history_independent f unc hc w hw h _ (resolveP_wf d path)).1

/-- the model-only outcome "loop fuel exhausted" of the listing model cannot happen (every entry consumes at least 9
bytes of the cursor's `size`) … -/
theorem listing_fuel_suffices (f : File) (unc : Codec) (hc : CodecOK unc) (S : Readers) (hS : ∀ k, Coherent f unc (S k))
    (d : DirRd) (ref : Nat) : (exec true f unc (d.listP ref) S).1 ≠ .error loopFuelSt := by
  unfold DirRd.listP
  rw [exec_bind]
  obtain ⟨hco, herr⟩ := exec_coherent_err hc (d.getInodeP ref) S hS
  cases hr : exec true f unc (d.getInodeP ref) S with
  | mk r S' =>
    rw [hr] at hco herr
    cases r with
    | error e =>
      simp only
      intro h
      cases h
      exact herr loopFuelSt (by decide) (readInodeP_nofail _ _ _ _ _ loopFuelSt (by decide) (by decide) (by decide)) rfl
    | ok ino =>
      simp only
      cases hod : d.openDir ino with
      | error e =>
        simp only [exec]
        intro h
        cases h
        unfold DirRd.openDir at hod
        split at hod
        · cases hod
        · split at hod
          · cases hod
          · cases hod
      | ok it => exact listGoP_fuel hc d _ it [] S' hco (by omega)

-- `hS` discharged by `coherent_run`: the used readers of the Part 3 image
example := listing_fuel_suffices exImg toyUnc toyUnc_ok (usedFam exImg toyUnc exWin exHist)
  (fun k => coherent_run exImg toyUnc toyUnc_ok _ _ (by unfold exWin; split <;> decide) _) exDir 20

/-- … nor that of the path resolution model (every component consumes at least one byte of the path) -/
theorem path_fuel_suffices (f : File) (unc : Codec) (hc : CodecOK unc) (S : Readers) (hS : ∀ k, Coherent f unc (S k))
    (d : DirRd) (path : Bytes) : (exec true f unc (d.resolveP path) S).1 ≠ .error loopFuelSt :=
  resolveGoP_fuel hc d _ path d.rootRef S hS (by omega)

example := path_fuel_suffices exImg toyUnc toyUnc_ok (usedFam exImg toyUnc exWin exHist)
  (fun k => coherent_run exImg toyUnc toyUnc_ok _ _ (by unfold exWin; split <;> decide) _) exDir [0x2f, 0x61]

/-- xattr descriptor: `sqfs_xattr_reader_get_desc` -/
theorem xattr_desc_history_independent (f : File) (unc : Codec) (hc : CodecOK unc) (w : Nat → Nat × Nat)
    (hw : ∀ k, (w k).2 ≤ NONE) (h : Nat → List Op) (x : XR) (idx : Nat) :
    (exec true f unc (x.getDescP idx) (usedFam f unc w h)).1 = (exec true f unc (x.getDescP idx) (freshFam w)).1 :=
  (prog_history_independent f unc hc w hw h _ (getDescP_wf x idx)).1

/-- xattr set: `sqfs_xattr_reader_read_all` — descriptor, `seek_kv`, then key after key, value after value,
out-of-line detours included; in particular whatever an earlier request left behind when it failed half way
(inside a key, inside an out-of-line value, before seeking back) has no effect -/
theorem xattr_set_history_independent (f : File) (unc : Codec) (hc : CodecOK unc) (w : Nat → Nat × Nat)
    (hw : ∀ k, (w k).2 ≤ NONE) (h : Nat → List Op) (x : XR) (idx : Nat) :
    (exec true f unc (x.readAllP idx) (usedFam f unc w h)).1 = (exec true f unc (x.readAllP idx) (freshFam w)).1 :=
  (prog_history_independent f unc hc w hw h _ (readAllP_wf x idx)).1

/-- the low-level walk: `seek_kv` with any descriptor, then `n` times `read_key` + `read_value` -/
theorem xattr_walk_history_independent (f : File) (unc : Codec) (hc : CodecOK unc) (w : Nat → Nat × Nat)
    (hw : ∀ k, (w k).2 ≤ NONE) (h : Nat → List Op) (x : XR) (desc : XDesc) (n : Nat) :
    (exec true f unc (x.seekKvP desc (x.readPairsP n [])) (usedFam f unc w h)).1 =
    (exec true f unc (x.seekKvP desc (x.readPairsP n [])) (freshFam w)).1 := by
  apply (prog_history_independent f unc hc w hw h _ _).1
  unfold XR.seekKvP
  split
  · trivial
  · exact readPairsP_wf x _ _ _ (by simp)

/-- **xattr reader, out-of-line values** (`read_value_hdr` / `sqfs_xattr_reader_read_value`): remember
`get_position`, seek to the referenced value, read it, seek back.  If that succeeds, the key/value reader reports
the position right behind the value's 4-byte header and 8-byte reference, and *every* continuation that goes on
reading there (the following keys and values) gets exactly what it would get had the value been skipped without
the detour — also when that position is the end of a block, where `get_position` names the next block instead. -/
theorem ool_position_restored {β : Type} (f : File) (unc : Codec) (hc : CodecOK unc) (x : XR) (keyType : Nat)
    (hool : keyType / xattrFlagOol % 2 = 1) (S : Readers) (hS : ∀ k, Coherent f unc (S k)) (v : Bytes)
    (hok : (exec true f unc (x.readValueApiP keyType) S).1 = .ok v) :
    let after := (exec true f unc (x.readValueApiP keyType) S).2
    let skipped := (exec true f unc valueHeaderP S).2
    getPos (after 1) = getPos (skipped 1) ∧
    ∀ (q : Prog β), WF (fun k => k == 1) q → (exec true f unc q after).1 = (exec true f unc q skipped).1 := by
  obtain ⟨hoth, c2, c1, hs, hl, hobs⟩ := readValue_ool_obs hc x keyType hool S (hS 1) v hok
  intro after skipped
  refine ⟨(obs_getPos hc hobs).symm, fun q hq => ?_⟩
  have hR : Rel f unc (fun k => k == 1) skipped after := by
    intro k
    by_cases hk : k = 1
    · subst hk
      exact ⟨c2, c1, hs, hl, fun _ => hobs⟩
    · obtain ⟨a, b⟩ := hoth k hk
      have ea : after k = S k := a
      have eb : skipped k = S k := b
      rw [ea, eb]
      exact ⟨hS k, hS k, rfl, rfl, fun _ => Or.inl (Sim.refl _)⟩
  exact ((exec_obs hc q _ _ _ hR hq).1).symm

/-- instance with **all** hypotheses discharged: `hS` from `coherent_seek`/`coherent_init`, `hool`, and `hok` (the
out-of-line value `vv` is delivered) -/
example := ool_position_restored (β := Nat) exKv toyUnc toyUnc_ok exXr 0x100 (by decide) exS
  (by
    intro k; unfold exS; split
    · exact coherent_seek _ _ toyUnc_ok _ (coherent_init _ _ _ _ (by decide)) _ _
    · exact coherent_init _ _ _ _ (by decide))
  [0x76, 0x76] (by decide +kernel)

/-! ### the hypotheses are satisfiable, the statements are not vacuous -/


/-- an instance of `meta_history_independent` with a failing seek in the history and data in the answer -/
example : answer true exFile toyUnc (run true exFile toyUnc (fresh 0 10) [.seek 0 0, .seek 6 3]) 0 0 [2, 2, 1]
    = { seekSt := 0, reads := [(0, [0x61, 0x62]), (0, [0x63, 0x64]), (0, [0x78])], endPos := some (6, 1) } := by
  decide +kernel

example : (10 : Nat) ≤ NONE := by decide

/-! #### Part 3 instances -/

example : ∀ k, (exWin k).2 ≤ NONE := by
  intro k; unfold exWin; split <;> decide

/-- `resolve_path("/a")` on the used readers finds the FIFO inode (reference 0) -/
example : (match (exec true exImg toyUnc (exDir.resolveP [0x2f, 0x61]) (usedFam exImg toyUnc exWin exHist)).1 with
    | .ok r => decide (r = 0) | .error _ => false) = true := by decide +kernel

/-- and `get_inode(0)` decodes it: type 6, mode 0644 | S_IFIFO, inode number 2, nlink 1 -/
example : (match (exec true exImg toyUnc (exDir.getInodeP 0) (usedFam exImg toyUnc exWin exHist)).1 with
    | .ok i => decide (i = { typ := 6, mode := 0o010644, uid := 0, gid := 0, mtime := 0, inum := 2, fields := [1], extra := [] })
    | .error _ => false) = true := by decide +kernel

/-- the hypothesis of `ool_position_restored` is satisfiable: the out-of-line value is delivered … -/
example : (match (exec true exKv toyUnc (exXr.readValueApiP 0x100) exS).1 with
    | .ok v => decide (v = [0x76, 0x76]) | .error _ => false) = true := by decide +kernel

/-- … and the next pair is read from the right place afterwards -/
example : (match (exec true exKv toyUnc (exXr.readPairsP 1 []) (exec true exKv toyUnc (exXr.readValueApiP 0x100) exS).2).1 with
    | .ok l => decide (l = [("user.j".toUTF8.toList, [0x77])]) | .error _ => false) = true := by decide +kernel

example : (0x100 : Nat) / xattrFlagOol % 2 = 1 := by decide

/-- `Written` is satisfiable (so `read_eq_blocks_plus_fragment` and `stream_eq_read` are not vacuous) -/
example : DataReader.Written exData toyUnc 8 exTbl exIno [[1, 2, 3, 4, 5, 6, 7, 8], List.replicate 8 0x55] [0xa1, 0xa2, 0xa3] where
  bsPos := by decide
  bsU32 := by decide
  small := by decide
  blocks := by
    refine ⟨_, _, rfl, by decide, Or.inr ⟨by decide, by decide, [1, 2, 3, 4, 5, 6, 7, 8], by decide +kernel, Or.inr ⟨by decide, by decide, rfl⟩⟩, ?_⟩
    refine ⟨_, _, rfl, by decide, Or.inr ⟨by decide, by decide, [3, 8, 0, 0x55], by decide +kernel, Or.inl ⟨by decide, by decide, by decide, ?_⟩⟩, rfl⟩
    intro room hr
    have h8 : (8 : Nat) ≤ room := hr
    simp [toyUnc, h8]
  covered := by decide
  tailLen := by decide
  tailShort := by decide
  frag := fun _ => ⟨(12, 16777221), ([0xa0, 0xa1, 0xa2, 0xa3, 0xa4, 0, 0, 0], 5), by decide, by decide +kernel, by decide, by decide, by decide⟩

/-- and the three APIs do deliver the 19 bytes -/
example : DataReader.viaStream exData toyUnc 8 exTbl exIno = .ok [1, 2, 3, 4, 5, 6, 7, 8, 0x55, 0x55, 0x55, 0x55, 0x55, 0x55, 0x55, 0x55, 0xa1, 0xa2, 0xa3] ∧
    DataReader.viaBlocks exData toyUnc 8 exTbl exIno = DataReader.viaStream exData toyUnc 8 exTbl exIno ∧
    DataReader.readSpec exData toyUnc 8 exTbl exIno 0 19 = (0, [1, 2, 3, 4, 5, 6, 7, 8, 0x55, 0x55, 0x55, 0x55, 0x55, 0x55, 0x55, 0x55, 0xa1, 0xa2, 0xa3]) := by
  decide +kernel

/-- `ConsIno` for the code before 36fa767 is satisfiable by a non-trivial inode (one raw 8-byte block at location 0) -/
example : DataReader.ConsIno false (fun _ => 16777224)
    { fileSize := 8, blocksStart := 0, fragIdx := 4294967295, fragOff := 0, blocks := [16777224] } := by
  unfold DataReader.ConsIno DataReader.Cons
  decide

end Sqfs.C10
