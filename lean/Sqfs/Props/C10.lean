/-
C10 — Reader answers depend only on image and query, never on earlier queries.

Property theorems only (helpers: `Sqfs/Proofs/MetaReader.lean`, `Sqfs/Proofs/DataReaderCache.lean`).

Part 1, metadata reader (`lib/sqfs/src/meta_reader.c`, model `Sqfs/Model/MetaReader.lean` with `fix = true`,
i.e. the code with `fixes/C10-meta-seek-invalidate.patch` applied; the model of the unpatched code violates
the property, see `Sqfs/Witness/C10.lean`).  Quantifiers: every file `f` (any size, any bytes, any set of
positions that answer with an I/O error), every block decompressor `unc` that satisfies `CodecOK` (bounded
output, failures are error codes — *nothing* about what it computes), every window `start/limit`, every
history `h` of `seek`/`read`/`get_position` calls with arbitrary arguments, successful or not, every query.
-/
import Sqfs.Proofs.MetaReader
import Sqfs.Proofs.DataReaderCache
namespace Sqfs.C10
open Sqfs.MetaReader Sqfs.Consts

/-- a freshly created reader is coherent -/
theorem coherent_init (f : File) (unc : Codec) (start limit : Nat) (hl : limit ≤ NONE) :
    Coherent f unc (fresh start limit) := fresh_coherent f unc start limit hl

/-- `sqfs_meta_reader_seek` keeps the cache coherent — when it succeeds and on **every** failure path
(window check, cache hit with a bad offset, header read error, bad size word, block past the limit, payload
read error, decompression failure, offset beyond the freshly loaded block) -/
theorem coherent_seek (f : File) (unc : Codec) (hc : CodecOK unc) (m : MR) (hm : Coherent f unc m) (b o : Nat) :
    Coherent f unc (seek true f unc m b o).2 := seek_coherent hc hm b o

/-- `sqfs_meta_reader_read` keeps the cache coherent (whether or not it crosses into following blocks, and
whether or not one of the implied seeks fails) -/
theorem coherent_read (f : File) (unc : Codec) (hc : CodecOK unc) (m : MR) (hm : Coherent f unc m) (n : Nat) :
    Coherent f unc (read true f unc m n).2.2 := read_coherent hc hm n

/-- every object reachable from a fresh reader by any history of calls is coherent -/
theorem coherent_run (f : File) (unc : Codec) (hc : CodecOK unc) (start limit : Nat) (hl : limit ≤ NONE)
    (h : List Op) : Coherent f unc (run true f unc (fresh start limit) h) :=
  (run_coherent hc h _ (fresh_coherent f unc start limit hl)).1

/-- **Main theorem (metadata reader).**  After *any* history the answer to a query — `seek(b,o)`, the reads
`ns` in order up to the first failure, the final position — is the answer a freshly created reader gives:
statuses, delivered bytes and position all agree. -/
theorem meta_history_independent (f : File) (unc : Codec) (hc : CodecOK unc) (start limit : Nat)
    (hl : limit ≤ NONE) (h : List Op) (b o : Nat) (ns : List Nat) :
    answer true f unc (run true f unc (fresh start limit) h) b o ns =
    answer true f unc (fresh start limit) b o ns := by
  obtain ⟨hco, hs, hlm⟩ := run_coherent hc h _ (fresh_coherent f unc start limit hl)
  generalize run true f unc (fresh start limit) h = m at *
  have hv := seek_vs_fresh hc hco b o
  simp only [fresh] at hs hlm
  rw [hs, hlm] at hv
  unfold answer
  simp only
  rw [hv.1]
  by_cases hst : (seek true f unc (fresh start limit) b o).1 = 0
  · simp only [hst, ne_eq, not_true_eq_false, if_false]
    have hsim := hv.2 (hv.1.trans hst)
    rw [sim_answerReads hc ns _ _ hsim (seek_coherent hc hco b o)
      (seek_coherent hc (fresh_coherent f unc start limit hl) b o)]
  · simp only [hst, ne_eq, not_false_eq_true, if_true]

/-- two histories, same query: same answer (the form in which the property is usually quoted) -/
theorem meta_answer_depends_on_image_and_query_only (f : File) (unc : Codec) (hc : CodecOK unc)
    (start limit : Nat) (hl : limit ≤ NONE) (h₁ h₂ : List Op) (b o : Nat) (ns : List Nat) :
    answer true f unc (run true f unc (fresh start limit) h₁) b o ns =
    answer true f unc (run true f unc (fresh start limit) h₂) b o ns := by
  rw [meta_history_independent f unc hc start limit hl h₁, meta_history_independent f unc hc start limit hl h₂]

/-- In the repaired code `data_used - offset` never wraps and no copy leaves `m->data` (D3 is closed by the
repair of D2): whatever the history, a `read` returns a real status, never the model's "out of the buffer"
or "out of fuel" outcome. -/
theorem read_no_crash (f : File) (unc : Codec) (hc : CodecOK unc) (start limit : Nat) (hl : limit ≤ NONE)
    (h : List Op) (n : Nat) :
    (read true f unc (run true f unc (fresh start limit) h) n).1 < crashSt :=
  readLoop_no_crash hc n _ n [] (coherent_run f unc hc start limit hl h) (Nat.le_refl n)

/-- a failed cache-miss seek leaves the reader unpositioned: nothing is readable until the next successful
seek (`data_used = offset = 0`, both block numbers invalid) -/
theorem failed_miss_unpositions (f : File) (unc : Codec) (m : MR) (b o : Nat)
    (hw : ¬ (b < m.start ∨ b ≥ m.limit)) (hmiss : b ≠ m.tag) (hfail : (seek true f unc m b o).1 ≠ 0) :
    let m' := (seek true f unc m b o).2
    m'.tag = NONE ∧ m'.nextBlock = NONE ∧ m'.dataUsed = 0 ∧ m'.offset = 0 := by
  unfold seek at hfail ⊢
  simp only [hw, hmiss, if_false, if_true] at hfail ⊢
  cases hl : loadBlock f unc m.limit b with
  | early e => exact ⟨rfl, rfl, rfl, rfl⟩
  | uncErr e raw => exact ⟨rfl, rfl, rfl, rfl⟩
  | done raw blk size =>
    simp only [hl] at hfail ⊢
    by_cases ho : o ≥ blk.length
    · simp only [ho, if_true]; exact ⟨trivial, trivial, trivial, trivial⟩
    · simp only [ho, if_false] at hfail; exact absurd rfl hfail

/-- after a successful seek, `get_position` reports the position asked for -/
theorem seek_then_position (f : File) (unc : Codec) (hc : CodecOK unc) (m : MR) (b o : Nat)
    (h : (seek true f unc m b o).1 = 0) : getPos (seek true f unc m b o).2 = (b, o) := seek_getPos hc h

/-- **xattr reader, out-of-line values** (`read_value_hdr` / `sqfs_xattr_reader_read_value`): remember
`get_position`, seek to the referenced value, read it, seek back.  If that succeeds, the key/value reader reports
the remembered position again and *every* continuation (the following keys and values) reads exactly what it
would have read had the detour not happened — also when the remembered position was the end of a block, where
`get_position` names the start of the next block instead. -/
theorem ool_position_restored (f : File) (unc : Codec) (hc : CodecOK unc) (m : MR) (hm : Coherent f unc m)
    (b o n : Nat) (hok : (oolDetour true f unc m b o n).1 = 0) :
    getPos (oolDetour true f unc m b o n).2.2 = getPos m ∧
    ∀ ns, answerReads true f unc (oolDetour true f unc m b o n).2.2 ns = answerReads true f unc m ns :=
  oolDetour_restores hc hm b o n hok

/-! ### Part 2: the data reader's block cache and fragment cache (`lib/sqfs/src/data_reader.c`)

`kw = false` is the code as it is (data-block cache keyed by location only), `kw = true` the code with
`fixes/C10-data-reader-cache-key.patch`.  `sw` is the image's "location ↦ size word" function; `ConsIno`
says an inode's block list agrees with it (true for every pair of inodes the library writes: blocks are
shared only as whole identical `(location, size word)` runs) and is *no condition at all* when `kw = true`. -/

/-- a freshly created data reader (after `load_fragment_table`) is coherent -/
theorem data_coherent_init (kw : Bool) (f : File) (unc : Codec) (sw : Nat → Nat) (bs : Nat) (tbl : List (Nat × Nat)) :
    DataReader.DCoh kw f unc sw (DataReader.fresh bs tbl) := DataReader.fresh_dcoh kw f unc sw bs tbl

/-- `sqfs_data_reader_read` keeps both caches coherent, on success and on every failure path, and its answer
is the answer of the cacheless reference reader -/
theorem data_coherent_read (kw : Bool) (f : File) (unc : Codec) (sw : Nat → Nat) (hc : CodecOK unc) (d : DataReader.DR)
    (hd : DataReader.DCoh kw f unc sw d) (ino : DataReader.Inode) (hi : DataReader.ConsIno kw sw ino) (o n : Nat) :
    DataReader.DCoh kw f unc sw (DataReader.read kw f unc d ino o n).2 ∧
    (DataReader.read kw f unc d ino o n).1 = DataReader.readSpec f unc d.blockSize d.tbl ino o n :=
  ⟨(DataReader.read_spec hc hd ino hi o n).2.1, (DataReader.read_spec hc hd ino hi o n).1⟩

/-- **Main theorem (data reader).**  After any history of reads whose inodes agree with the image's
location ↦ size-word function, a read is answered by the cacheless reference — a function of the image, the
fragment table and the query alone. -/
theorem data_read_eq_cacheless (kw : Bool) (f : File) (unc : Codec) (sw : Nat → Nat) (hc : CodecOK unc)
    (bs : Nat) (tbl : List (Nat × Nat)) (h : List DataReader.Op)
    (hh : ∀ op ∈ h, match op with | .read ino _ _ => DataReader.ConsIno kw sw ino)
    (ino : DataReader.Inode) (hi : DataReader.ConsIno kw sw ino) (o n : Nat) :
    (DataReader.read kw f unc (DataReader.run kw f unc (DataReader.fresh bs tbl) h) ino o n).1 =
      DataReader.readSpec f unc bs tbl ino o n := by
  obtain ⟨hd, hb, ht⟩ := DataReader.run_dcoh hc h _ (DataReader.fresh_dcoh kw f unc sw bs tbl) hh
  have := (DataReader.read_spec hc hd ino hi o n).1
  rw [hb, ht] at this
  exact this

/-- hence: same answer as a fresh data reader (current code, images whose inodes are consistent) -/
theorem data_history_independent_written (f : File) (unc : Codec) (sw : Nat → Nat) (hc : CodecOK unc)
    (bs : Nat) (tbl : List (Nat × Nat)) (h : List DataReader.Op)
    (hh : ∀ op ∈ h, match op with | .read ino _ _ => DataReader.ConsIno false sw ino)
    (ino : DataReader.Inode) (hi : DataReader.ConsIno false sw ino) (o n : Nat) :
    (DataReader.read false f unc (DataReader.run false f unc (DataReader.fresh bs tbl) h) ino o n).1 =
    (DataReader.read false f unc (DataReader.fresh bs tbl) ino o n).1 := by
  rw [data_read_eq_cacheless false f unc sw hc bs tbl h hh ino hi o n]
  have := data_read_eq_cacheless false f unc sw hc bs tbl [] (fun _ h => nomatch h) ino hi o n
  exact this.symm

/-- repaired code (cache keyed by location *and* size word): history independence on **every** image,
damaged ones included, for arbitrary inodes -/
theorem data_history_independent_repaired (f : File) (unc : Codec) (hc : CodecOK unc)
    (bs : Nat) (tbl : List (Nat × Nat)) (h : List DataReader.Op) (ino : DataReader.Inode) (o n : Nat) :
    (DataReader.read true f unc (DataReader.run true f unc (DataReader.fresh bs tbl) h) ino o n).1 =
    (DataReader.read true f unc (DataReader.fresh bs tbl) ino o n).1 := by
  have all : ∀ i : DataReader.Inode, DataReader.ConsIno true (fun _ => 0) i := fun _ _ _ => Or.inl rfl
  have hh : ∀ op ∈ h, match op with | .read ino _ _ => DataReader.ConsIno true (fun _ => 0) ino := by
    intro op _; cases op; exact all _
  rw [data_read_eq_cacheless true f unc (fun _ => 0) hc bs tbl h hh ino (all _) o n]
  exact (data_read_eq_cacheless true f unc (fun _ => 0) hc bs tbl [] (fun _ h => nomatch h) ino (all _) o n).symm

/-! ### the hypotheses are satisfiable, the statements are not vacuous -/

/-- the toy codec of the harness meets the contract -/
theorem toyUnc_ok : CodecOK toyUnc := by
  constructor
  · intro x n out h
    unfold toyUnc at h
    split at h
    · split at h
      · cases h; assumption
      · cases h
    · split at h
      · cases h; simpa using ‹_›
      · cases h
    · simp only at h
      split at h
      · cases h; simpa using ‹_›
      · cases h
    · cases h
  · intro x n e h
    unfold toyUnc at h
    split at h
    · split at h
      · cases h
      · cases h; decide
    · split at h
      · cases h
      · cases h; decide
    · simp only at h
      split at h
      · cases h
      · cases h; decide
    · cases h; decide


/-- block A "abcd" at 0, block B "xy" at 6 (both stored uncompressed) -/
private def exFile : File :=
  { size := 10, byte := fun i => ([0x04, 0x80, 0x61, 0x62, 0x63, 0x64, 0x02, 0x80, 0x78, 0x79] : List UInt8).getD i 0,
    bad := fun _ => false }

/-- an instance of `meta_history_independent` with a failing seek in the history and data in the answer -/
example : answer true exFile toyUnc (run true exFile toyUnc (fresh 0 10) [.seek 0 0, .seek 6 3]) 0 0 [2, 2, 1]
    = { seekSt := 0, reads := [(0, [0x61, 0x62]), (0, [0x63, 0x64]), (0, [0x78])], endPos := some (6, 1) } := by
  decide +kernel

example : (10 : Nat) ≤ NONE := by decide

/-- an instance of `ool_position_restored` whose remembered position is the end of block A (so that
`get_position` names block B): the detour into block A succeeds -/
example : (oolDetour true exFile toyUnc (run true exFile toyUnc (fresh 0 10) [.seek 0 0, .read 4]) 0 1 2).1 = 0 ∧
    getPos (run true exFile toyUnc (fresh 0 10) [.seek 0 0, .read 4]) = (6, 0) := by
  decide +kernel

/-- `ConsIno` for the current code is satisfiable by a non-trivial inode (one raw 8-byte block at location 0) -/
example : DataReader.ConsIno false (fun _ => 16777224)
    { fileSize := 8, blocksStart := 0, fragIdx := 4294967295, fragOff := 0, blocks := [16777224] } := by
  unfold DataReader.ConsIno DataReader.Cons
  decide

end Sqfs.C10
