/-
C10 — Reader answers depend only on image and query, never on earlier queries.

Property theorems only (helpers: `Sqfs/Proofs/MetaReader.lean`, `Sqfs/Proofs/DataReaderCache.lean`).

Part 1, metadata reader (`lib/sqfs/src/meta_reader.c`, model `Sqfs/Model/MetaReader.lean` with `fix = true`,
i.e. the code with `fixes/C10-meta-seek-invalidate.patch` applied; the model of the unpatched code violates
the property, see `Sqfs/Witness/C10.lean`).  Quantifiers: every file `f` (any size, any bytes, any set of
positions that answer with an I/O error), every block decompressor `unc` that satisfies `CodecOK` (bounded
output, failures are error codes — *nothing* about what it computes), every window `start/limit`, every
history `h` of `seek`/`read`/`get_position` calls with arbitrary arguments, successful or not, every query.
-/
import Sqfs.Proofs.MetaReader
import Sqfs.Proofs.DataReaderCache
namespace Sqfs.C10
open Sqfs.MetaReader Sqfs.Consts

/-- a freshly created reader is coherent -/
theorem coherent_init (f : File) (unc : Codec) (start limit : Nat) (hl : limit ≤ NONE) :
    Coherent f unc (fresh start limit) := fresh_coherent f unc start limit hl

/-- `sqfs_meta_reader_seek` keeps the cache coherent — when it succeeds and on **every** failure path
(window check, cache hit with a bad offset, header read error, bad size word, block past the limit, payload
read error, decompression failure, offset beyond the freshly loaded block) -/
theorem coherent_seek (f : File) (unc : Codec) (hc : CodecOK unc) (m : MR) (hm : Coherent f unc m) (b o : Nat) :
    Coherent f unc (seek true f unc m b o).2 := seek_coherent hc hm b o

/-- `sqfs_meta_reader_read` keeps the cache coherent (whether or not it crosses into following blocks, and
whether or not one of the implied seeks fails) -/
theorem coherent_read (f : File) (unc : Codec) (hc : CodecOK unc) (m : MR) (hm : Coherent f unc m) (n : Nat) :
    Coherent f unc (read true f unc m n).2.2 := read_coherent hc hm n

/-- every object reachable from a fresh reader by any history of calls is coherent -/
theorem coherent_run (f : File) (unc : Codec) (hc : CodecOK unc) (start limit : Nat) (hl : limit ≤ NONE)
    (h : List Op) : Coherent f unc (run true f unc (fresh start limit) h) :=
  (run_coherent hc h _ (fresh_coherent f unc start limit hl)).1

/-- **Main theorem (metadata reader).**  After *any* history the answer to a query — `seek(b,o)`, the reads
`ns` in order up to the first failure, the final position — is the answer a freshly created reader gives:
statuses, delivered bytes and position all agree. -/
theorem meta_history_independent (f : File) (unc : Codec) (hc : CodecOK unc) (start limit : Nat)
    (hl : limit ≤ NONE) (h : List Op) (b o : Nat) (ns : List Nat) :
    answer true f unc (run true f unc (fresh start limit) h) b o ns =
    answer true f unc (fresh start limit) b o ns := by
  obtain ⟨hco, hs, hlm⟩ := run_coherent hc h _ (fresh_coherent f unc start limit hl)
  generalize run true f unc (fresh start limit) h = m at *
  have hv := seek_vs_fresh hc hco b o
  simp only [fresh] at hs hlm
  rw [hs, hlm] at hv
  unfold answer
  simp only
  rw [hv.1]
  by_cases hst : (seek true f unc (fresh start limit) b o).1 = 0
  · simp only [hst, ne_eq, not_true_eq_false, if_false]
    have hsim := hv.2 (hv.1.trans hst)
    rw [sim_answerReads hc ns _ _ hsim (seek_coherent hc hco b o)
      (seek_coherent hc (fresh_coherent f unc start limit hl) b o)]
  · simp only [hst, ne_eq, not_false_eq_true, if_true]

/-- two histories, same query: same answer (the form in which the property is usually quoted) -/
theorem meta_answer_depends_on_image_and_query_only (f : File) (unc : Codec) (hc : CodecOK unc)
    (start limit : Nat) (hl : limit ≤ NONE) (h₁ h₂ : List Op) (b o : Nat) (ns : List Nat) :
    answer true f unc (run true f unc (fresh start limit) h₁) b o ns =
    answer true f unc (run true f unc (fresh start limit) h₂) b o ns := by
  rw [meta_history_independent f unc hc start limit hl h₁, meta_history_independent f unc hc start limit hl h₂]

/-- In the repaired code `data_used - offset` never wraps and no copy leaves `m->data` (D3 is closed by the
repair of D2): whatever the history, a `read` returns a real status, never the model's "out of the buffer"
or "out of fuel" outcome. -/
theorem read_no_crash (f : File) (unc : Codec) (hc : CodecOK unc) (start limit : Nat) (hl : limit ≤ NONE)
    (h : List Op) (n : Nat) :
    (read true f unc (run true f unc (fresh start limit) h) n).1 < crashSt :=
  readLoop_no_crash hc n _ n [] (coherent_run f unc hc start limit hl h) (Nat.le_refl n)

/-- a failed cache-miss seek leaves the reader unpositioned: nothing is readable until the next successful
seek (`data_used = offset = 0`, both block numbers invalid) -/
theorem failed_miss_unpositions (f : File) (unc : Codec) (m : MR) (b o : Nat)
    (hw : ¬ (b < m.start ∨ b ≥ m.limit)) (hmiss : b ≠ m.tag) (hfail : (seek true f unc m b o).1 ≠ 0) :
    let m' := (seek true f unc m b o).2
    m'.tag = NONE ∧ m'.nextBlock = NONE ∧ m'.dataUsed = 0 ∧ m'.offset = 0 := by
  unfold seek at hfail ⊢
  simp only [hw, hmiss, if_false, if_true] at hfail ⊢
  cases hl : loadBlock f unc m.limit b with
  | early e => exact ⟨rfl, rfl, rfl, rfl⟩
  | uncErr e raw => exact ⟨rfl, rfl, rfl, rfl⟩
  | done raw blk size =>
    simp only [hl] at hfail ⊢
    by_cases ho : o ≥ blk.length
    · simp only [ho, if_true]; exact ⟨trivial, trivial, trivial, trivial⟩
    · simp only [ho, if_false] at hfail; exact absurd rfl hfail

/-- after a successful seek, `get_position` reports the position asked for -/
theorem seek_then_position (f : File) (unc : Codec) (hc : CodecOK unc) (m : MR) (b o : Nat)
    (h : (seek true f unc m b o).1 = 0) : getPos (seek true f unc m b o).2 = (b, o) := seek_getPos hc h

/-- **xattr reader, out-of-line values** (`read_value_hdr` / `sqfs_xattr_reader_read_value`): remember
`get_position`, seek to the referenced value, read it, seek back.  If that succeeds, the key/value reader reports
the remembered position again and *every* continuation (the following keys and values) reads exactly what it
would have read had the detour not happened — also when the remembered position was the end of a block, where
`get_position` names the start of the next block instead. -/
theorem ool_position_restored (f : File) (unc : Codec) (hc : CodecOK unc) (m : MR) (hm : Coherent f unc m)
    (b o n : Nat) (hok : (oolDetour true f unc m b o n).1 = 0) :
    getPos (oolDetour true f unc m b o n).2.2 = getPos m ∧
    ∀ ns, answerReads true f unc (oolDetour true f unc m b o n).2.2 ns = answerReads true f unc m ns :=
  oolDetour_restores hc hm b o n hok

/-! ### Part 2: the data reader (`lib/sqfs/src/data_reader.c`)

`kw = true` is the code as it is (data-block cache keyed by location *and* size word, 36fa767); `kw = false` the code
before that commit, for which `sw`/`ConsIno` describe the images on which it was sound (`ConsIno` is *no condition
at all* when `kw = true`).  `sfix` selects the stream code: `false` as it is in /repo (D33, see
`Sqfs/Witness/C10.lean`), `true` with `fixes/C10-stream-frag-fail.patch`; the theorems below hold for both, because
D33 lives in the stream object, not in the reader's caches.  A history is any sequence of
`sqfs_data_reader_read`, `sqfs_data_reader_get_fragment`, stream `get_buffered_data` calls (on streams in any
state) and `sqfs_data_reader_load_fragment_table` reloads.  `sqfs_data_reader_get_block` does not use the reader
object beyond `block_size`: `DataReader.getBlockApi` has no reader argument. -/

/-- a freshly created data reader (after `load_fragment_table`) is coherent -/
theorem data_coherent_init (kw : Bool) (f : File) (unc : Codec) (sw : Nat → Nat) (bs : Nat) (tbl : List (Nat × Nat)) :
    DataReader.DCoh kw f unc sw (DataReader.fresh bs tbl) := DataReader.fresh_dcoh kw f unc sw bs tbl

/-- `sqfs_data_reader_read` keeps both caches coherent, on success and on every failure path, and its answer
is the answer of the cacheless reference reader -/
theorem data_coherent_read (kw : Bool) (f : File) (unc : Codec) (sw : Nat → Nat) (hc : CodecOK unc) (d : DataReader.DR)
    (hd : DataReader.DCoh kw f unc sw d) (ino : DataReader.Inode) (hi : DataReader.ConsIno kw sw ino) (o n : Nat) :
    DataReader.DCoh kw f unc sw (DataReader.read kw f unc d ino o n).2 ∧
    (DataReader.read kw f unc d ino o n).1 = DataReader.readSpec f unc d.blockSize d.tbl ino o n :=
  ⟨(DataReader.read_spec hc hd ino hi o n).2.1, (DataReader.read_spec hc hd ino hi o n).1⟩

/-- every data reader reachable by a history is coherent -/
theorem data_coherent_run (kw sfix : Bool) (f : File) (unc : Codec) (sw : Nat → Nat) (hc : CodecOK unc) (bs : Nat)
    (tbl : List (Nat × Nat)) (h : List DataReader.Op) (hh : DataReader.OpsCons kw sw h) :
    DataReader.DCoh kw f unc sw (DataReader.run kw sfix f unc (DataReader.fresh bs tbl) h) :=
  (DataReader.run_dcoh hc sfix h _ (DataReader.fresh_dcoh kw f unc sw bs tbl) hh).1

/-- **Main theorem (data reader).**  After any history, each entry point that goes through a cache answers
what its cacheless reference computes from the image, the fragment table currently loaded and the query alone:
positional read, `get_fragment`, and a stream's `get_buffered_data` (answer and new stream state). -/
theorem data_api_eq_cacheless (kw sfix : Bool) (f : File) (unc : Codec) (sw : Nat → Nat) (hc : CodecOK unc)
    (bs : Nat) (tbl : List (Nat × Nat)) (h : List DataReader.Op) (hh : DataReader.OpsCons kw sw h) :
    let D := DataReader.run kw sfix f unc (DataReader.fresh bs tbl) h
    D.blockSize = bs ∧
    (∀ ino o n, DataReader.ConsIno kw sw ino → (DataReader.read kw f unc D ino o n).1 = DataReader.readSpec f unc bs D.tbl ino o n) ∧
    (∀ ino, (DataReader.getFragment f unc D ino).1 = DataReader.getFragmentSpec f unc bs D.tbl ino) ∧
    (∀ s, ((DataReader.streamGet sfix f unc D s).1, (DataReader.streamGet sfix f unc D s).2.1) =
            DataReader.streamGetSpec sfix f unc bs D.tbl s) := by
  obtain ⟨hd, hb⟩ := DataReader.run_dcoh hc sfix h _ (DataReader.fresh_dcoh kw f unc sw bs tbl) hh
  have hb' : (DataReader.run kw sfix f unc (DataReader.fresh bs tbl) h).blockSize = bs := hb
  refine ⟨hb', fun ino o n hi => ?_, fun ino => ?_, fun s => ?_⟩
  · have := (DataReader.read_spec hc hd ino hi o n).1
    rw [hb'] at this; exact this
  · have := (DataReader.getFragment_spec hc hd ino).1
    rw [hb'] at this; exact this
  · have := (DataReader.streamGet_spec hc sfix hd s).1
    rw [hb'] at this; exact this

/-- the code as it is (cache keyed by location and size word): **history independence on every image**, damaged
ones included, for arbitrary inodes and streams: a used reader answers like a reader created now (which loads the
fragment table the used reader has loaded last) -/
theorem data_history_independent (sfix : Bool) (f : File) (unc : Codec) (hc : CodecOK unc)
    (bs : Nat) (tbl : List (Nat × Nat)) (h : List DataReader.Op) :
    let D := DataReader.run true sfix f unc (DataReader.fresh bs tbl) h
    let F := DataReader.fresh bs D.tbl
    (∀ ino o n, (DataReader.read true f unc D ino o n).1 = (DataReader.read true f unc F ino o n).1) ∧
    (∀ ino, (DataReader.getFragment f unc D ino).1 = (DataReader.getFragment f unc F ino).1) ∧
    (∀ s, ((DataReader.streamGet sfix f unc D s).1, (DataReader.streamGet sfix f unc D s).2.1) =
          ((DataReader.streamGet sfix f unc F s).1, (DataReader.streamGet sfix f unc F s).2.1)) := by
  have all : ∀ i : DataReader.Inode, DataReader.ConsIno true (fun _ => 0) i := fun _ _ _ => Or.inl rfl
  have hh : DataReader.OpsCons true (fun _ => 0) h := by
    intro op _; cases op <;> first | exact all _ | trivial
  obtain ⟨hb, h1, h2, h3⟩ := data_api_eq_cacheless true sfix f unc (fun _ => 0) hc bs tbl h hh
  intro D F
  have hF := DataReader.fresh_dcoh true f unc (fun _ => 0) bs D.tbl
  refine ⟨fun ino o n => ?_, fun ino => ?_, fun s => ?_⟩
  · rw [h1 ino o n (all _)]; exact ((DataReader.read_spec hc hF ino (all _) o n).1).symm
  · rw [h2 ino]; exact ((DataReader.getFragment_spec hc hF ino).1).symm
  · rw [h3 s]; exact ((DataReader.streamGet_spec hc sfix hF s).1).symm

/-- the code before 36fa767 (cache keyed by location only), on images whose inodes are consistent with one
location ↦ size word function (kept for the record: D21) -/
theorem data_history_independent_written (f : File) (unc : Codec) (sw : Nat → Nat) (hc : CodecOK unc)
    (bs : Nat) (tbl : List (Nat × Nat)) (h : List DataReader.Op) (hh : DataReader.OpsCons false sw h)
    (ino : DataReader.Inode) (hi : DataReader.ConsIno false sw ino) (o n : Nat) :
    let D := DataReader.run false false f unc (DataReader.fresh bs tbl) h
    (DataReader.read false f unc D ino o n).1 = (DataReader.read false f unc (DataReader.fresh bs D.tbl) ino o n).1 := by
  obtain ⟨_, h1, _, _⟩ := data_api_eq_cacheless false false f unc sw hc bs tbl h hh
  intro D
  rw [h1 ino o n hi]
  exact ((DataReader.read_spec hc (DataReader.fresh_dcoh false f unc sw bs D.tbl) ino hi o n).1).symm

/-- the stream with `fixes/C10-stream-frag-fail.patch`: a `get_buffered_data` that fails leaves the stream at its
end — whatever is asked afterwards, on whatever reader state, the answer is "end of file" (D33 closed) -/
theorem stream_fail_stops (f : File) (unc : Codec) (d d' : DataReader.DR) (s : DataReader.Stream) (e : Status)
    (h : (DataReader.streamGet true f unc d s).1 = .err e) :
    (DataReader.streamGet true f unc d' (DataReader.streamGet true f unc d s).2.1).1 = .eof := by
  have key : ∀ s0 : DataReader.Stream, (DataReader.streamGet true f unc d' s0.failed).1 = .eof := by
    intro s0; unfold DataReader.streamGet DataReader.Stream.failed; simp
  unfold DataReader.streamGet at h
  rw [show DataReader.streamGet true f unc d s = _ from by unfold DataReader.streamGet; rfl]
  by_cases h1 : s.bufOff < s.bufUsed
  · simp only [h1, if_true] at h; cases h
  · simp only [h1, if_false] at h ⊢
    by_cases h2 : s.filesz = 0
    · simp only [h2, if_true] at h; cases h
    · simp only [h2, if_false] at h ⊢
      generalize (if s.filesz < d.blockSize then s.filesz else d.blockSize) = used at h ⊢
      generalize ({ s with bufOff := 0, bufUsed := used } : DataReader.Stream) = s1 at h ⊢
      generalize DataReader.streamFill f unc d s1 used = r at h ⊢
      obtain ⟨fl, dd⟩ := r
      cases fl with
      | ok mem s' => cases h
      | fail e' => exact key _
      | early e' => exact key _

/-! ### the hypotheses are satisfiable, the statements are not vacuous -/

/-- the toy codec of the harness meets the contract -/
theorem toyUnc_ok : CodecOK toyUnc := by
  constructor
  · intro x n out h
    unfold toyUnc at h
    split at h
    · split at h
      · cases h; assumption
      · cases h
    · split at h
      · cases h; simpa using ‹_›
      · cases h
    · simp only at h
      split at h
      · cases h; simpa using ‹_›
      · cases h
    · cases h
  · intro x n e h
    unfold toyUnc at h
    split at h
    · split at h
      · cases h
      · cases h; decide
    · split at h
      · cases h
      · cases h; decide
    · simp only at h
      split at h
      · cases h
      · cases h; decide
    · cases h; decide


/-- block A "abcd" at 0, block B "xy" at 6 (both stored uncompressed) -/
private def exFile : File :=
  { size := 10, byte := fun i => ([0x04, 0x80, 0x61, 0x62, 0x63, 0x64, 0x02, 0x80, 0x78, 0x79] : List UInt8).getD i 0,
    bad := fun _ => false }

/-- an instance of `meta_history_independent` with a failing seek in the history and data in the answer -/
example : answer true exFile toyUnc (run true exFile toyUnc (fresh 0 10) [.seek 0 0, .seek 6 3]) 0 0 [2, 2, 1]
    = { seekSt := 0, reads := [(0, [0x61, 0x62]), (0, [0x63, 0x64]), (0, [0x78])], endPos := some (6, 1) } := by
  decide +kernel

example : (10 : Nat) ≤ NONE := by decide

/-- an instance of `ool_position_restored` whose remembered position is the end of block A (so that
`get_position` names block B): the detour into block A succeeds -/
example : (oolDetour true exFile toyUnc (run true exFile toyUnc (fresh 0 10) [.seek 0 0, .read 4]) 0 1 2).1 = 0 ∧
    getPos (run true exFile toyUnc (fresh 0 10) [.seek 0 0, .read 4]) = (6, 0) := by
  decide +kernel

/-- `ConsIno` for the code before 36fa767 is satisfiable by a non-trivial inode (one raw 8-byte block at location 0) -/
example : DataReader.ConsIno false (fun _ => 16777224)
    { fileSize := 8, blocksStart := 0, fragIdx := 4294967295, fragOff := 0, blocks := [16777224] } := by
  unfold DataReader.ConsIno DataReader.Cons
  decide

end Sqfs.C10
