/-
C05 — Reading an untrusted image never corrupts memory, hangs or aborts.

Property theorems only.  Models: `Sqfs/Model/ReaderBounds.lean` (bounds-check logic of every reader routine with
the C integer widths; each routine returns the list of buffer accesses it performs, each access carrying the
capacity of its buffer — a fixed array, a caller-supplied size, or the size the routine itself allocated) and
`Sqfs/Model/ReaderWalk.lean` (the two recursive directory walks).  Shape of the memory-safety theorems:

    ∀ field values, ∀ a ∈ accesses, a.off + a.len ≤ a.cap          (in ℕ, i.e. after un-wrapping)

with *no* hypothesis on the image-controlled values.  Hypotheses that do appear are facts about the caller or
the outside world and are named: the codec contract ("`do_block` returns < 0 or at most `outsize` bytes"),
`block_size ≠ 0` (established by `sqfs_super_read`), `max_size ≤ block_size` (true at both call sites of
`get_block`), NUL-freeness of a C string.

The models are the **repaired** logic for the defects D3, D4, D5, D19, D25, D17 (patches under `fixes/C05-*`);
the same definitions with `fixed := false` are the current code and `Sqfs/Witness/C05.lean` proves that each of
these theorems is *false* for it, with a concrete witness that the check replays on the real code.
-/
import Sqfs.Proofs.ReaderBounds
import Sqfs.Proofs.ReaderWalkV
import Sqfs.Proofs.ReaderTables
namespace Sqfs.C05
open Sqfs.ReaderBounds Sqfs.ReaderWalk Sqfs.ReaderTables

/-! ### instances used by the examples that follow the theorems -/

/-- a reader over blocks of 100 uncompressed bytes -/
def exCfg : MetaCfg := ⟨96, 100000, fun _ => ⟨false, 0x8064, false, none⟩⟩

/-- a valid superblock (what the checks make of single field edits: see the examples at the end) -/
def exSuper : Super where
  magic := 0x73717368
  inodeCount := 3
  modTime := 0
  blockSize := 131072
  fragCount := 1
  compId := 1
  blockLog := 17
  flags := 0
  idCount := 2
  vMajor := 4
  vMinor := 0
  rootRef := 0
  bytesUsed := 1000
  idTableStart := 900
  xattrIdTableStart := 950
  inodeTableStart := 96
  dirTableStart := 300
  fragTableStart := 500
  exportTableStart := 0xFFFFFFFFFFFFFFFF


/-! ## `meta_reader.c` -/

/-- `sqfs_meta_reader_seek`: from any state with `data_used ≤ 8192`, for every block position, offset, header
word and codec answer, all accesses stay inside `data[]`/`scratch[]`, `data_used ≤ 8192` is kept (also when the
call fails), and success establishes `offset < data_used`. -/
theorem meta_seek_safe (c : MetaCfg) (hc : MetaCodecOk c) (m : MetaSt) (b o : UInt64)
    (hm : m.dataUsed.toNat ≤ metaCap) :
    (∀ a ∈ (seek c m b o).acc, a.inBounds) ∧ (seek c m b o).st.dataUsed.toNat ≤ metaCap ∧
    ((seek c m b o).r = .ok () → (seek c m b o).st.offset.toNat < (seek c m b o).st.dataUsed.toNat) := by
  have h := seek_spec c hc m b o hm
  exact ⟨h.1, h.2.1, fun hok => (h.2.2 hok).1⟩

/-- `sqfs_meta_reader_read` (with the guard of `fixes/C05-meta-read-after-failed-seek.patch`): from **any** state
with `data_used ≤ 8192` — in particular the state a failed seek leaves behind, where `offset > data_used` is
possible — every copy stays inside `data[]` and inside the caller's `size` bytes. -/
theorem meta_read_safe (c : MetaCfg) (hc : MetaCodecOk c) (m : MetaSt) (size : UInt64)
    (hm : m.dataUsed.toNat ≤ metaCap) :
    (∀ a ∈ (mread true c m size).acc, a.inBounds) ∧ (mread true c m size).st.dataUsed.toNat ≤ metaCap := by
  unfold mread
  exact readLoop_safe c hc size.toNat _ m size 0 [] hm (by simp) (by simp)

/-- the copy loop of `sqfs_meta_reader_read` ends after at most `size` iterations (each one delivers ≥ 1 byte or
fails), for the current and for the repaired code -/
theorem meta_read_terminates (fixed : Bool) (c : MetaCfg) (m : MetaSt) (size : UInt64) :
    (mread fixed c m size).r ≠ .error .fuel := by
  unfold mread
  exact readLoop_no_fuel fixed c size.toNat _ m size 0 [] (by omega)

/-- every history of `seek`/`read` calls on a fresh reader — failed calls included, the reader is used on — is
memory safe -/
theorem meta_history_safe (c : MetaCfg) (hc : MetaCodecOk c) (ops : List MetaOp) :
    ∀ a ∈ runOps true c MetaSt.init ops, a.inBounds := by
  suffices h : ∀ (ops : List MetaOp) (m : MetaSt), m.dataUsed.toNat ≤ metaCap →
      ∀ a ∈ runOps true c m ops, a.inBounds from h ops MetaSt.init (by decide)
  intro ops
  induction ops with
  | nil => intro m _ a ha; simp [runOps] at ha
  | cons op t ih =>
    intro m hm a ha
    cases op with
    | seek b o =>
      simp only [runOps, List.mem_append] at ha
      have h := seek_spec c hc m b o hm
      rcases ha with ha | ha
      · exact h.1 a ha
      · exact ih _ h.2.1 a ha
    | read n =>
      simp only [runOps, List.mem_append] at ha
      have h := meta_read_safe c hc m n hm
      rcases ha with ha | ha
      · exact h.1 a ha
      · exact ih _ h.2 a ha

/-! ## `data_reader.c` -/

/-- `get_block`: for every size word, given `max_size ≤ block_size` (both call sites) and the codec contract -/
theorem get_block_safe (bs : UInt32) (out : Buf) (w maxSize : UInt32) (l : BlkLoad)
    (hmax : maxSize.toNat ≤ bs.toNat) (hcodec : ∀ n, l.dec = some n → n.toNat ≤ maxSize.toNat) :
    (∀ a ∈ (getBlock bs out w maxSize l).2, a.inBounds) ∧
    (∀ sz, (getBlock bs out w maxSize l).1 = .ok sz → sz.toNat ≤ maxSize.toNat) :=
  getBlock_safe bs out w maxSize l hmax hcodec

/-- `sqfs_data_reader_get_fragment` (`frag_off + frag_sz` widened, `fixes/C05-get-fragment-wrap.patch`): for every
file size, block count and fragment offset the copy stays inside the fragment block and the result buffer -/
theorem get_fragment_safe (bs : UInt32) (filesz blockCount : UInt64) (fragOff : UInt32)
    (pre : Except Err Unit) (hbs : bs ≠ 0) (as : List Access)
    (h : getFragment true bs filesz blockCount fragOff pre = .ok as) : ∀ a ∈ as, a.inBounds :=
  getFragment_inBounds bs filesz blockCount fragOff pre hbs as h

/-- `dr_stream_get_buffered_data` (on-disk size compared with `block_size`, `fixes/C05-stream-disksz.patch`): for
every block word, file size, fragment offset and fragment block size, every access stays inside `scratch`,
`buffer` (both `block_size` bytes), the block list and the fragment block; `buf_used ≤ block_size` is kept -/
theorem stream_fill_safe (bs : UInt32) (s : StreamSt) (w : UInt32) (l : BlkLoad) (fragPre : Except Err UInt64)
    (fragOff : UInt32) (hs : s.bufUsed.toNat ≤ bs.toNat)
    (hcodec : ∀ n, l.dec = some n → n.toNat ≤ (streamWant bs s).toNat) :
    (∀ a ∈ (streamFill true bs s w l fragPre fragOff).2.2, a.inBounds) ∧
    (streamFill true bs s w l fragPre fragOff).1.bufUsed.toNat ≤ bs.toNat :=
  streamFill_safe bs s w l fragPre fragOff hs hcodec

/-- `sqfs_data_reader_read`: for every block list, file size, offset, size and fragment location, the copies stay
inside the `block_size`-byte data block, the fragment block (`frag_blk_size`) and the caller's `size` bytes.
Hypothesis `file_size < 2^64 - 2^32` excludes the one case where `frag_off + offset` wraps in 64 bits (then the
C code computes a wrapped pointer that lands inside the block again; not reachable below 16 EiB files). -/
theorem data_read_safe (bs : UInt32) (words : Nat → UInt32) (blkOk : Nat → Bool) (blockCount : Nat)
    (filesz offset : UInt64) (size0 : UInt32) (fragOff : UInt32) (fragPre : Except Err UInt64)
    (hfs : filesz.toNat + 2 ^ 32 ≤ 2 ^ 64) :
    ∀ a ∈ (dataRead bs words blkOk blockCount filesz offset size0 fragOff fragPre).2, a.inBounds :=
  dataRead_safe bs words blkOk blockCount filesz offset size0 fragOff fragPre hfs

/-! ## `read_table.c` -/

/-- `sqfs_read_table`: for every table size, the location index stays below `block_count` and the copies fill
exactly `table_size` bytes, whatever the seeks/reads return -/
theorem read_table_safe (ts : UInt64) (stepOk : Nat → Bool) : ∀ a ∈ (readTable ts stepOk).2, a.inBounds :=
  readTable_safe ts stepOk

/-- the copy loop of `sqfs_read_table` ends after `block_count` iterations -/
theorem read_table_terminates (ts : UInt64) (stepOk : Nat → Bool) : (readTable ts stepOk).1 ≠ .error .fuel :=
  readTable_no_fuel ts stepOk

/-! ## `read_inode.c`: allocation size vs bytes written -/

theorem read_inode_file_safe (fileSize blockSize : UInt64) (fragIdx fragOff : UInt32) (as : List Access)
    (h : readInodeFile fileSize blockSize fragIdx fragOff = .ok as) : ∀ a ∈ as, a.inBounds :=
  readInodeFile_safe fileSize blockSize fragIdx fragOff as h

theorem read_inode_slink_safe (targetSize : UInt32) (as : List Access)
    (h : readInodeSlink targetSize = .ok as) : ∀ a ∈ as, a.inBounds :=
  readInodeSlink_safe targetSize as h

/-- `read_inode_dir_ext`: for every sequence of index-entry `size` fields (0xFFFFFFFF included, where `size + 1`
wraps to 0 in the read but not in the growth test) the header and name copies stay inside the (re)allocated
payload, and `index_used ≤ index_max` at the end -/
theorem read_inode_dir_ext_safe (dirSize : UInt32) (szs : List UInt32) (im iu : UInt64) (as : List Access)
    (h : readInodeDirExt dirSize szs = .ok (im, iu, as)) : (∀ a ∈ as, a.inBounds) ∧ iu.toNat ≤ im.toNat := by
  unfold readInodeDirExt at h
  split at h
  · simp at h; obtain ⟨rfl, rfl, rfl⟩ := h; simp
  · exact dirExtLoop_safe szs 128 0 [] im iu as (by decide) (by simp) h

/-! ## `readdir.c` -/

theorem read_dir_ent_safe (size : UInt16) : ∀ a ∈ readDirEnt size, a.inBounds := by
  intro a ha
  simp only [readDirEnt, List.mem_cons, List.mem_nil_iff, or_false] at ha
  subst ha; simp only [Access.inBounds]; omega

/-- every successful `sqfs_meta_reader_readdir` call lowers the remaining listing size by more than 8: a
directory of listing size `n` ends after at most `n / 9 + 1` calls -/
theorem readdir_progress (s s' : RdState) (hdrCount : UInt32) (nameSize : UInt16)
    (h : readdirStep s hdrCount nameSize = some s') : s'.size.toNat + 8 < s.size.toNat :=
  readdirStep_progress s s' hdrCount nameSize h

/-! ## `inode.c` -/

/-- `sqfs_inode_unpack_dir_index_entry` (`fixes/C05-unpack-dir-index.patch`): for every payload (the `size`
fields are an arbitrary function of the offset), every `payload_bytes_used` and every index, header and name
copies stay inside the payload and inside the entry that is allocated -/
theorem unpack_dir_index_safe (used : UInt32) (szAt : UInt64 → UInt32) (index : UInt64) (fuel : Nat) :
    ∀ a ∈ (unpackIdx true used szAt fuel 0 index []).2, a.inBounds :=
  unpackIdx_safe used szAt fuel 0 index [] (by simp)

/-! ## `dir_reader.c` -/

/-- `sqfs_dir_reader_resolve_path` (`fixes/C05-resolve-path-nul.patch`): for every entry name (embedded NUL bytes
included) and every NUL-free path, only `path[0 … strlen(path)]` is read -/
theorem resolve_compare_safe (name path : List UInt8) (hp : (0 : UInt8) ∉ path) :
    ∀ a ∈ (resolveCompare true name path).2, a.inBounds :=
  resolveCompare_safe name path hp

/-! ## `read_super.c`, `id_table.c`, `frag_table.c` (models: `Sqfs/Model/ReaderTables.lean`) -/

/-- `sqfs_super_read` reads exactly `sizeof(sqfs_super_t)` bytes into its local copy, and when it succeeds the
superblock satisfies what the other theorems assume of it: magic and version, `4096 ≤ block_size ≤ 1 MiB`,
`block_size = 2^block_log` with `12 ≤ block_log ≤ 20` (so `block_size ≠ 0`), a known compressor id, `id_count ≠ 0` -/
theorem super_read_safe (io : Bool) (s : Super) :
    (∀ a ∈ (superRead io s).2, a.inBounds) ∧ ((superRead io s).1 = .ok () → io = false ∧ SuperOk s) :=
  ⟨superRead_safe io s, superRead_ok io s⟩

/-- `sqfs_id_table_read`: for every superblock the table size `id_count * 4` is computed without wrap, the table is
read from `id_table_start` through a meta reader whose window ends there, `sqfs_read_table` fills exactly that many
bytes whatever its reads return, and the byte swap loop stays inside them -/
theorem id_table_read_safe (s : Super) (rt : Except Err Unit) (stepOk : Nat → Bool) :
    (∀ a ∈ (idTableRead s rt).2, a.inBounds) ∧
    (∀ req, idTableReq s = .ok req → req.tableSize.toNat = s.idCount.toNat * 4 ∧ req.upper = s.idTableStart ∧
      (∀ a ∈ (readTable req.tableSize stepOk).2, a.inBounds)) :=
  ⟨idTableRead_safe s rt, fun req h => ⟨(idTableReq_ok s req h).1, (idTableReq_ok s req h).2.2.1,
    readTable_safe req.tableSize stepOk⟩⟩

/-- `sqfs_id_table_index_to_id`: an index is only used below `ids.used` -/
theorem index_to_id_safe (used : UInt64) (index : UInt16) (as : List Access) (h : indexToId used index = .ok as) :
    ∀ a ∈ as, a.inBounds := indexToId_safe used index as h

/-- instance (hypothesis discharged on the *succeeding* call): index 1 of a table of 2 ids — one access, 4 bytes at offset 4 of 8 -/
example : ∀ a ∈ [Access.mk .idTable 4 4 8], a.inBounds := index_to_id_safe 2 1 _ (by decide)

/-- `sqfs_frag_table_read`: for every superblock that gets as far as `sqfs_read_table`, the size
`fragment_entry_count * 16` is exact (no wrap), the location lies in `[directory_table_start, id_table_start)` and
below `bytes_used`, the meta reader window ends at or before `id_table_start`, and the table is filled exactly -/
theorem frag_table_read_safe (s : Super) (req : TableReq) (stepOk : Nat → Bool) (h : fragTableReq s = .ok (some req)) :
    req.tableSize.toNat = s.fragCount.toNat * 16 ∧ req.lower.toNat ≤ req.location.toNat ∧
    req.location.toNat < s.idTableStart.toNat ∧ req.location.toNat < s.bytesUsed.toNat ∧
    req.upper.toNat ≤ s.idTableStart.toNat ∧ (∀ a ∈ (readTable req.tableSize stepOk).2, a.inBounds) := by
  have k := fragTableReq_ok s req h
  exact ⟨k.1, k.2.2.2.2.1, k.2.2.2.2.2.1, k.2.2.2.2.2.2.1, k.2.2.2.2.2.2.2, readTable_safe req.tableSize stepOk⟩

/-- `sqfs_frag_table_lookup` -/
theorem frag_lookup_safe (used : UInt64) (index : UInt32) (as : List Access) (h : fragLookup used index = .ok as) :
    ∀ a ∈ as, a.inBounds := fragLookup_safe used index as h

/-- instance (hypothesis discharged): fragment 1 of a table of 2 — one access of `sizeof(sqfs_fragment_t)` = 16 bytes at offset 16 of 32 -/
example : ∀ a ∈ [Access.mk .fragTable 16 16 32], a.inBounds := frag_lookup_safe 2 1 _ (by decide)

/-! ## `xattr_reader.c`

`XattrInv x`: both meta readers of the xattr reader hold at most 8192 bytes, and while a table is loaded
`num_id_blocks = ceil(num_ids * 16 / 8192)` with `num_ids < 2^32`.  It holds after `sqfs_xattr_reader_create`
(`XattrInv_init`) and every routine keeps it, also when it fails; every theorem is for **all** values found in the
image (`tblStart`, `ids`, the locations, descriptor fields, key type/size, value size, out-of-line reference) and
all outcomes of `read_at`. -/

theorem xattr_load_safe (s : Super) (x : XattrSt) (io1 : Bool) (tblStart : UInt64) (ids : UInt32) (io2 : Bool)
    (starts : Nat → UInt64) (hx : XattrInv x) :
    (∀ a ∈ (xattrLoad s x io1 tblStart ids io2 starts).acc, a.inBounds) ∧
    XattrInv (xattrLoad s x io1 tblStart ids io2 starts).st := xattrLoad_spec s x io1 tblStart ids io2 starts hx

/-- `sqfs_xattr_reader_get_desc`: the index into `id_block_starts` is below `num_id_blocks` for every `idx < num_ids` -/
theorem xattr_get_desc_safe (c : MetaCfg) (hc : MetaCodecOk c) (x : XattrSt) (idx : UInt32) (hx : XattrInv x) :
    (∀ a ∈ (xattrGetDesc c x idx).acc, a.inBounds) ∧ XattrInv (xattrGetDesc c x idx).st :=
  xattrGetDesc_spec c hc x idx hx

/-- instance with the invariant of a **loaded** reader (600 ids, 2 id blocks; `XattrInv` obtained from `xattr_load_safe`, so
the two theorems are applied in sequence): descriptor 512 lies in the second id block -/
example :
    let x1 := (xattrLoad exSuper XattrSt.init false 96 600 false (fun i => 100 + 10 * i.toUInt64)).st
    x1.loaded = true ∧ (∀ a ∈ (xattrGetDesc exCfg x1 512).acc, a.inBounds) ∧ XattrInv (xattrGetDesc exCfg x1 512).st := by
  intro x1
  have hinv : XattrInv x1 :=
    (xattr_load_safe exSuper XattrSt.init false 96 600 false (fun i => 100 + 10 * i.toUInt64) XattrInv_init).2
  exact ⟨by decide, xattr_get_desc_safe exCfg (by intro b n h; simp [exCfg] at h) x1 512 hinv⟩

theorem xattr_seek_kv_safe (c : MetaCfg) (hc : MetaCodecOk c) (x : XattrSt) (xattr : UInt64) (hx : XattrInv x) :
    (∀ a ∈ (xattrSeekKv c x xattr).acc, a.inBounds) ∧ XattrInv (xattrSeekKv c x xattr).st :=
  xattrSeekKv_spec c hc x xattr hx

/-- instance on the loaded reader: seek to the key/value pairs at block 200, offset 5 -/
example :
    let x1 := (xattrLoad exSuper XattrSt.init false 96 600 false (fun i => 100 + 10 * i.toUInt64)).st
    (∀ a ∈ (xattrSeekKv exCfg x1 ((200 : UInt64) <<< 16 ||| 5)).acc, a.inBounds) ∧
      XattrInv (xattrSeekKv exCfg x1 ((200 : UInt64) <<< 16 ||| 5)).st ∧
      (xattrSeekKv exCfg x1 ((200 : UInt64) <<< 16 ||| 5)).acc ≠ [] := by
  intro x1
  have hinv : XattrInv x1 :=
    (xattr_load_safe exSuper XattrSt.init false 96 600 false (fun i => 100 + 10 * i.toUInt64) XattrInv_init).2
  have h := xattr_seek_kv_safe exCfg (by intro b n h; simp [exCfg] at h) x1 ((200 : UInt64) <<< 16 ||| 5) hinv
  exact ⟨h.1, h.2, by decide⟩

/-- `sqfs_xattr_reader_read_key`: header, prefix and `key.size` bytes fit the `4 + strlen(prefix) + size + 1` bytes
allocated -/
theorem xattr_read_key_safe (c : MetaCfg) (hc : MetaCodecOk c) (a : KvAns) (m : MetaSt)
    (hm : m.dataUsed.toNat ≤ metaCap) :
    (∀ x ∈ (kvReadKey c a m).acc, x.inBounds) ∧ (kvReadKey c a m).st.dataUsed.toNat ≤ metaCap :=
  kvReadKey_safe c hc a m hm

/-- `sqfs_xattr_reader_read_value`, out-of-line values included (reference re-based on `xattr_start`, one level,
position restored): header and `value.size` bytes (any 32 bit value) fit the `4 + 1 + size` bytes allocated -/
theorem xattr_read_value_safe (c : MetaCfg) (hc : MetaCodecOk c) (xs xe : UInt64) (a : KvAns) (m : MetaSt)
    (hm : m.dataUsed.toNat ≤ metaCap) :
    (∀ x ∈ (kvReadValue c xs xe a m).acc, x.inBounds) ∧ (kvReadValue c xs xe a m).st.dataUsed.toNat ≤ metaCap :=
  kvReadValue_safe c hc xs xe a m hm

/-- `sqfs_xattr_reader_read` (used by `read_all`): prefix, key, value and both terminators stay inside the
`sqfs_xattr_t` that is allocated and then grown -/
theorem xattr_read_safe (c : MetaCfg) (hc : MetaCodecOk c) (xs xe : UInt64) (a : KvAns) (m : MetaSt)
    (hm : m.dataUsed.toNat ≤ metaCap) :
    (∀ x ∈ (kvRead c xs xe a m).acc, x.inBounds) ∧ (kvRead c xs xe a m).st.dataUsed.toNat ≤ metaCap :=
  kvRead_safe c hc xs xe a m hm

theorem xattr_read_all_safe (c : MetaCfg) (hc : MetaCodecOk c) (x : XattrSt) (idx : UInt32) (xattr : UInt64)
    (count : UInt32) (ans : Nat → KvAns) (hx : XattrInv x) :
    (∀ a ∈ (xattrReadAll c x idx xattr count ans).acc, a.inBounds) ∧
    XattrInv (xattrReadAll c x idx xattr count ans).st := xattrReadAll_spec c hc x idx xattr count ans hx

/-- instance on the loaded reader: `read_all` for descriptor 512 with two pairs (`user.` prefix, 3-byte keys, 7-byte values) -/
example :
    let x1 := (xattrLoad exSuper XattrSt.init false 96 600 false (fun i => 100 + 10 * i.toUInt64)).st
    (∀ a ∈ (xattrReadAll exCfg x1 512 5 2 (fun _ => ⟨1, 3, 7, 0⟩)).acc, a.inBounds) ∧
      XattrInv (xattrReadAll exCfg x1 512 5 2 (fun _ => ⟨1, 3, 7, 0⟩)).st := by
  intro x1
  have hinv : XattrInv x1 :=
    (xattr_load_safe exSuper XattrSt.init false 96 600 false (fun i => 100 + 10 * i.toUInt64) XattrInv_init).2
  exact xattr_read_all_safe exCfg (by intro b n h; simp [exCfg] at h) x1 512 5 2 (fun _ => ⟨1, 3, 7, 0⟩) hinv

/-- `sqfs_xattr_reader_read_all` ends: `count` iterations, every meta reader call in them ends -/
theorem xattr_read_all_terminates (c : MetaCfg) (x : XattrSt) (idx : UInt32) (xattr : UInt64) (count : UInt32)
    (ans : Nat → KvAns) : (xattrReadAll c x idx xattr count ans).r ≠ .error .fuel :=
  xattrReadAll_ne_fuel c x idx xattr count ans

/-! ## `dir_reader.c`: opening a directory, `.`/`..`, `sqfs_dir_entry_from_inode`, `it_read_link` -/

/-- `sqfs_dir_reader_open_dir`: the cursor takes `size`, `offset` unchanged and `start_block +
directory_table_start` (64 bit; every later seek checks the window); with dot entries the reader delivers `.`
(the directory's own reference, which the cache knows) and `..` exactly once each, in this order, before the
listing; the two artificial entries fit their allocations -/
theorem open_dir_states (dotEntries : Bool) (flags : UInt32) (dts rootRef : UInt64) (cache : UInt32 → Option UInt64)
    (ino : DirIno) (st : DirSt) (h : openDir dotEntries flags dts rootRef cache ino = .ok st) :
    st.size.toNat = ino.size.toNat ∧ st.offset.toNat = ino.offset.toNat ∧ st.block = ino.startBlock.toUInt64 + dts ∧
    (st.state = .entries ∨ (st.state = .opened ∧ cache ino.inum = some st.dirRef ∧
      ∃ st1 st2 a1 a2, dirReadDot st = some (.ok st1, a1) ∧ st1.entRef = st.dirRef ∧
        dirReadDot st1 = some (.ok st2, a2) ∧ st2.entRef = st.parentRef ∧ dirReadDot st2 = none ∧
        (∀ a ∈ a1 ++ a2, a.inBounds))) := by
  have k := openDir_ok dotEntries flags dts rootRef cache ino st h
  refine ⟨k.1, k.2.1, k.2.2.1, ?_⟩
  rcases k.2.2.2.1 with ho | he
  · right
    obtain ⟨st1, st2, a1, a2, h1, e1, h2, e2, h3⟩ := dirReadDot_states st ho
    refine ⟨ho, k.2.2.2.2 ho, st1, st2, a1, a2, h1, e1, h2, e2, h3, ?_⟩
    intro a ha
    rcases List.mem_append.1 ha with ha | ha
    · exact dirReadDot_safe st _ a1 h1 a ha
    · exact dirReadDot_safe st1 _ a2 h2 a ha
  · left; exact he

/-- `sqfs_dir_entry_from_inode`: both id indices are checked against the table, `strnlen`/`strlen` stay inside the
name buffer (embedded NUL bytes and any `len` included), and the copy fits `sizeof(sqfs_dir_entry_t) + len + 1` -/
theorem dir_entry_from_inode_safe (used : UInt64) (uidIdx gidIdx : UInt16) (name : List UInt8) (len : UInt64)
    (hlen : name.length + 1 < 2 ^ 64) : ∀ a ∈ (dirEntryFromInode used uidIdx gidIdx name len).2, a.inBounds :=
  dirEntryFromInode_safe used uidIdx gidIdx name len hlen

/-- `it_read_link`: `target_size` bytes from a payload of `target_size + 1` into `calloc(1, target_size + 1)` -/
theorem read_link_safe (targetSize : UInt32) : ∀ a ∈ readLink targetSize, a.inBounds := readLink_safe targetSize

/-! ## termination of the directory walks -/

/-- `fill_dir` (rdsquashfs, sqfsdiff): for every directory graph — cycles included — recursion depth never exceeds
`|S|`, where `S` is any list holding the inode numbers of the root and of every listing entry that is a directory
(the shape of `dir_rec_terminates`'s `R`; nothing is asked of references that occur in no listing): with fuel `|S|` the
walk ends with a tree or `LINK_LOOP`, never out of fuel -/
theorem fill_dir_terminates (g : DirGraph) (S : List UInt32) (root : Nat) (hroot : g.inum root ∈ S)
    (hS : ∀ r c, c ∈ g.entries r → g.isDir c = true → g.inum c ∈ S) :
    readTree g S.length root ≠ .error .fuel := by
  unfold readTree
  apply fillDir_ne_fuel g S hS
  · simp
  · intro x hx; simp at hx; subst hx; exact hroot
  · simp

/-- instance (all hypotheses discharged) on a graph whose inode numbers are injective (`inum r = r`, so no `S` shorter
than 2³² could cover *all* references): a tree of 4 directories, `S = [0, 1, 2, 3]` -/
example : readTree ⟨fun r => if r = 0 then [1, 2] else if r = 1 then [3] else [], fun _ => true, fun r => r.toUInt32⟩
    [(0 : UInt32), 1, 2, 3].length 0 ≠ .error .fuel := by
  refine fill_dir_terminates _ [0, 1, 2, 3] 0 (by decide) ?_
  intro r c h _
  simp only at h
  split at h
  · simp at h; rcases h with rfl | rfl <;> decide
  · split at h
    · simp at h; subst h; decide
    · simp at h

/-- `dir_rec.c` with the ancestor check of `fixes/C05-dir-rec-loop.patch` (sqfs2tar): for every directory graph
whose directory entries have inode references in a list `R`, depth never exceeds `|R|` -/
theorem dir_rec_terminates (g : DirGraph) (R : List Nat)
    (hR : ∀ r c, c ∈ g.entries r → g.isDir c = true → c ∈ R) (root : Nat) :
    tarWalk true g (R.length + 1) root ≠ .error .fuel := by
  unfold tarWalk
  apply dirRec_ne_fuel g R hR
  · simp
  · simp
  · simp

/-! ## the repaired walks: every directory is entered at most once; nesting limit

`fillDirV` / `dirRecV` are `fill_dir` and the recursive iterator with `fixes/C05-dir-visited-set.patch` (a set of
the directories entered so far, shared by the whole walk) and `fixes/C05-nesting-limit.patch`
(`SQFS_MAX_DIR_NESTING`; the theorems hold for every value `limit` of the constant).  The two theorems above are
about the walks of the tree without these patches (ancestor checks only). -/

/-- `fill_dir` with the visited set: for **every** directory graph (cycles, directories listed many times) a tree
that is delivered has at most as many nodes as the directories of the image have listing entries — `R` is any
duplicate-free list of inode references that contains the root and every entry that is a directory.  (The walk of
the unpatched tree delivers `2^(n+1) - 2` nodes for `2n` entries: `Witness.dag_blowup_exponential`.) -/
theorem fill_dir_nodes_linear (g : DirGraph) (limit fuel root n : Nat) (R : List Nat) (hn : R.Nodup)
    (hR : ∀ r c, c ∈ g.entries r → g.isDir c = true → c ∈ R) (hroot : root ∈ R)
    (h : readTreeV g limit fuel root = .ok n) : n ≤ listingEntries g R := by
  unfold readTreeV at h
  split at h
  · rename_i n' vis' hf
    simp only [Except.ok.injEq] at h; subst h
    obtain ⟨m, e, E, ev, nE, dE, rE, s⟩ := fillDirV_grew g limit R hR _ _ _ _ _ _ _ hf
    have hnod : (root :: E).Nodup := by
      apply nodup_of_map_nodup g.inum
      simp only [List.map_cons]
      exact List.nodup_cons.2 ⟨fun hm => dE _ hm (by simp), nE⟩
    have := sum_le_of_nodup_subset (fun r => (g.entries r).length) (root :: E) R hnod (by
      intro x hx
      rcases List.mem_cons.1 hx with rfl | hx
      · exact hroot
      · exact rE x hx)
    simp only [listingEntries] at s ⊢
    simp only [List.map_cons, List.sum_cons] at this
    omega
  · simp at h

/-- the recursive iterator (sqfs2tar) with the visited set: the entries delivered are at most the listing of the
start directory plus the listings of the directories of the image (the start directory has no recorded identity,
so its listing may be counted once more) -/
theorem dir_rec_nodes_linear (g : DirGraph) (limit fuel root n : Nat) (R : List Nat) (hn : R.Nodup)
    (hR : ∀ r c, c ∈ g.entries r → g.isDir c = true → c ∈ R)
    (h : tarWalkV g limit fuel root = .ok n) : n ≤ (g.entries root).length + listingEntries g R := by
  unfold tarWalkV at h
  split at h
  · rename_i n' vis' hf
    simp only [Except.ok.injEq] at h; subst h
    obtain ⟨m, e, E, ev, nE, dE, rE, s⟩ := dirRecV_grew g limit R hR _ _ _ _ _ _ hf
    simp only [List.map_id_fun, id_eq] at nE
    have := sum_le_of_nodup_subset (fun r => (g.entries r).length) E R nE rE
    simp only [listingEntries] at s ⊢
    omega
  · simp at h

/-- `fill_dir` with the nesting limit: for every directory graph the recursion is at most `limit + 2` frames deep
(`limit + 2` units of fuel are always enough: the walk ends with a tree, `LINK_LOOP` or `OVERFLOW`).  The same bound
holds for `resolve_ids` and `sqfs_dir_tree_destroy`, which recurse over the tree `fill_dir` built. -/
theorem fill_dir_depth_bounded (g : DirGraph) (limit root : Nat) :
    readTreeV g limit (limit + 2) root ≠ .error .fuel := by
  unfold readTreeV
  have := fillDirV_depth g limit (limit + 2) 0 [g.inum root] [g.inum root] root (by omega) (by omega)
  split
  · simp
  · rename_i e he; intro h; simp only [Except.error.injEq] at h; subst h; exact this he

/-- the recursive iterator with the nesting limit: at most `limit + 1` iterators are ever on the stack -/
theorem dir_rec_depth_bounded (g : DirGraph) (limit root : Nat) :
    tarWalkV g limit (limit + 1) root ≠ .error .fuel := by
  unfold tarWalkV
  have := dirRecV_depth g limit (limit + 1) 1 [] root (by omega) (by omega)
  split
  · simp
  · rename_i e he; intro h; simp only [Except.error.injEq] at h; subst h; exact this he

/-- whatever the value of the nesting limit: `would_be_own_parent` still bounds the depth of the repaired `fill_dir`
by the number of inode numbers -/
theorem fill_dir_v_terminates (g : DirGraph) (limit : Nat) (S : List UInt32) (root : Nat) (hroot : g.inum root ∈ S)
    (hS : ∀ r c, c ∈ g.entries r → g.isDir c = true → g.inum c ∈ S) :
    readTreeV g limit S.length root ≠ .error .fuel := by
  unfold readTreeV
  have := fillDirV_ne_fuel g limit S hS S.length 0 [g.inum root] [g.inum root] root (by simp)
    (by intro x hx; simp at hx; subst hx; exact hroot) (by simp)
  split
  · simp
  · rename_i e he; intro h; simp only [Except.error.injEq] at h; subst h; exact this he

/-- instance (all hypotheses discharged): the same tree, a one-directory cycle below it (`3` lists itself), limit 4096 -/
example : readTreeV ⟨fun r => if r = 0 then [1, 2] else if r = 1 then [3] else if r = 3 then [3] else [], fun _ => true,
    fun r => r.toUInt32⟩ 4096 [(0 : UInt32), 1, 2, 3].length 0 ≠ .error .fuel := by
  refine fill_dir_v_terminates _ 4096 [0, 1, 2, 3] 0 (by decide) ?_
  intro r c h _
  simp only at h
  split at h
  · simp at h; rcases h with rfl | rfl <;> decide
  · split at h
    · simp at h; subst h; decide
    · split at h
      · simp at h; subst h; decide
      · simp at h

/-- whatever the value of the nesting limit: the visited set alone (it replaces the ancestor list of the unpatched
tree) bounds the depth of the recursive iterator by the number of directory inode references -/
theorem dir_rec_v_terminates (g : DirGraph) (limit : Nat) (R : List Nat)
    (hR : ∀ r c, c ∈ g.entries r → g.isDir c = true → c ∈ R) (root : Nat) :
    tarWalkV g limit (R.length + 1) root ≠ .error .fuel := by
  unfold tarWalkV
  have := dirRecV_ne_fuel g limit R hR (R.length + 1) 1 [] root (by simp) (by simp) (by simp)
  split
  · simp
  · rename_i e he; intro h; simp only [Except.error.injEq] at h; subst h; exact this he

/-! ## non-vacuity: the hypotheses are satisfiable and the conclusions speak about real accesses -/


example : MetaCodecOk exCfg := by intro b n h; simp [exCfg] at h
example : (mread true exCfg (seek exCfg MetaSt.init 96 10).st 150).acc.length = 5 := by decide
example : (mread true exCfg (seek exCfg MetaSt.init 96 10).st 150).r = .ok () := by decide
example : getFragment true 4096 5000 1 3000 (.ok ()) =
    .ok [⟨.fragOut, 0, 904, 904⟩, ⟨.fragBlock, 3000, 904, 4096⟩] := by decide
example : getFragment true 4096 5000 1 4000000000 (.ok ()) = .error .oob := by decide
example : (streamFill true 4096 ⟨0, 0, 10000, 0, 2, false⟩ 0x1000800 ⟨false, none⟩ (.ok 0) 0).2.1 = .data 4096 := by
  decide
example : (dataRead 4096 (fun _ => 0x1001000) (fun _ => true) 2 9000 4000 500 100 (.ok 4096)).1 = .ok 500 := by decide
example : (readInodeDirExt 10 [3, 0xFFFFFFFF, 200]).isOk = true := by decide
example : (resolveCompare true [97, 98] [97, 98, 47, 99]).1 = true := by decide
example : readTree ⟨fun r => if r = 0 then [1, 2] else [], fun _ => true, fun r => r.toUInt32⟩ 3 0 = .ok 2 := by decide
example : readTree ⟨fun _ => [0], fun _ => true, fun _ => 7⟩ 1 0 = .error .linkLoop := by decide

/-! one instance per remaining theorem: the hypotheses hold and the conclusion is about real accesses -/
example : (seek exCfg MetaSt.init 96 10).r = .ok () ∧ (seek exCfg MetaSt.init 96 10).acc = [⟨.metaData, 0, 100, 8192⟩] := by decide
/-- a seek that fails after the old block was given up leaves the cleared reader, and the reader is used on -/
example : (seek exCfg (seek exCfg MetaSt.init 96 10).st 300 100).st = MetaSt.cleared ∧
    (mread true exCfg (seek exCfg (seek exCfg MetaSt.init 96 10).st 300 100).st 5).r = .error .oob := by decide
example : (mread false exCfg (seek exCfg MetaSt.init 96 10).st 1000).r = .ok () := by decide
example : (runOps true exCfg MetaSt.init [.seek 96 99, .read 3, .seek 5 0, .read 2, .seek 96 100, .read 1]).length = 9 := by decide
example : getBlock 4096 .blockOut 0x1000800 4096 ⟨false, none⟩ = (.ok 2048, [⟨.blockOut, 0, 2048, 4096⟩]) := by decide
example : getBlock 4096 .blockOut 0x800 4096 ⟨false, some 4096⟩ =
    (.ok 4096, [⟨.drScratch, 0, 2048, 4096⟩, ⟨.blockOut, 0, 4096, 4096⟩]) := by decide
example : (readTable 10000 (fun _ => true)).1 = .ok () ∧ (readTable 10000 (fun _ => true)).2.length = 4 := by decide
example : (readTable 10000 (fun i => i == 0)).1 = .error .io := by decide
example : readInodeFile 10000 4096 0xFFFFFFFF 0 = .ok [⟨.inodeExtra, 0, 12, 12⟩] := by decide
example : readInodeFile 0xFFFFFFFFFFFFFFFF 1 0xFFFFFFFF 0 = .error .overflow := by decide
example : readInodeSlink 5 = .ok [⟨.inodeExtra, 0, 5, 6⟩] := by decide
example : readDirEnt 0xFFFF = [⟨.dirEntName, 0, 65536, 65537⟩] := by decide
example : readdirStep ⟨100, 0⟩ 2 5 = some ⟨74, 2⟩ ∧ readdirStep ⟨20, 0⟩ 0 0 = none := by decide
example : (unpackIdx true 40 (fun o => if o == 0 then 3 else 7) 5 0 1 []).1 = .ok () := by decide
example : (unpackIdx true 40 (fun _ => 0xFFFFFFFE) 5 0 0 []).1 = .error .oob := by decide
example : tarWalk true ⟨fun r => if r = 0 then [1] else [0], fun _ => true, fun _ => 1⟩ 4 0 = .error .linkLoop := by decide
example : codecContract 8192 8192 = true ∧ codecContract 8192 8193 = false ∧ codecContract 0 (-3) = true := by decide

/-- a tree, a directory listed twice (refused), and a chain one level deeper than the limit (refused) -/
def exTree : DirGraph := ⟨fun r => if r = 0 then [1, 2] else if r = 1 then [3] else [], fun _ => true, fun r => r.toUInt32⟩
def exShared : DirGraph := ⟨fun r => if r = 0 then [1, 1] else [], fun _ => true, fun r => r.toUInt32⟩
def exChain : DirGraph := ⟨fun r => [r + 1], fun r => r < 4, fun r => r.toUInt32⟩
example : readTreeV exTree 4096 5 0 = .ok 3 := by decide
example : tarWalkV exTree 4096 5 0 = .ok 3 := by decide
example : listingEntries exTree [0, 1, 2, 3] = 3 := by decide
example : readTreeV exShared 4096 5 0 = .error .linkLoop := by decide
example : tarWalkV exShared 4096 5 0 = .error .linkLoop := by decide
example : readTreeV exChain 3 5 0 = .ok 4 := by decide        -- directories at level 1..3, a file at level 4
example : readTreeV exChain 2 4 0 = .error .overflow := by decide
example : tarWalkV exChain 3 4 0 = .ok 4 := by decide
example : tarWalkV exChain 2 3 0 = .error .overflow := by decide

example : (superRead false exSuper).1 = .ok () := by decide
example : (superRead false { exSuper with blockSize := 0 }).1 = .error .superBlockSize := by decide
example : (superRead false { exSuper with blockLog := 16 }).1 = .error .corrupted := by decide
example : idTableReq exSuper = .ok ⟨8, 900, 500, 900⟩ := by decide
example : fragTableReq exSuper = .ok (some ⟨16, 500, 300, 900⟩) := by decide
example : fragTableReq { exSuper with fragTableStart := 900 } = .error .corrupted := by decide
example : indexToId 2 2 = .error .oob := by decide
/-- xattr reader: 600 descriptors need two location entries; descriptor 512 is the first one of the second block -/
example : (xattrLoad exSuper XattrSt.init false 96 600 false (fun i => 100 + 10 * i.toUInt64)).r = .ok () := by decide
example : (xattrLoad exSuper XattrSt.init false 96 600 false (fun _ => 1001)).r = .error .oob := by decide
example : (xattrGetDesc exCfg (xattrLoad exSuper XattrSt.init false 96 600 false (fun i => 100 + 10 * i.toUInt64)).st 512).acc.head? =
    some ⟨.xattrDesc, 0, 16, 16⟩ := by decide
example : (kvRead exCfg 96 100000 ⟨0x101, 3, 7, ((200 : UInt64) <<< 16) ||| 5⟩ (seek exCfg MetaSt.init 96 0).st).r = .ok () := by decide
example : (kvRead exCfg 96 100000 ⟨7, 3, 7, 0⟩ (seek exCfg MetaSt.init 96 0).st).r = .error .unsupported := by decide
example : (dirEntryFromInode 2 1 1 [97, 0, 98] 3).1 = .ok () := by decide
example : (dirEntryFromInode 2 1 2 [97] 1).1 = .error .corrupted := by decide
example : (openDir true 0 300 0 (fun i => if i = 5 then some 0 else none) ⟨1, 0, 0, 3, 5, 6⟩).map (·.state) = .ok .opened := by
  decide

/-! further theorems applied with every hypothesis discharged (the report's "P" rows) -/

/-- `exTree`'s directory entries have references in `[0, 1, 2, 3]` -/
theorem exTree_refs : ∀ r c, c ∈ exTree.entries r → exTree.isDir c = true → c ∈ [0, 1, 2, 3] := by
  intro r c h _
  simp only [exTree] at h
  split at h
  · simp at h; rcases h with rfl | rfl <;> decide
  · split at h
    · simp at h; subst h; decide
    · simp at h

example : tarWalk true exTree ([0, 1, 2, 3].length + 1) 0 ≠ .error .fuel := dir_rec_terminates exTree [0, 1, 2, 3] exTree_refs 0
example : tarWalkV exTree 4096 ([0, 1, 2, 3].length + 1) 0 ≠ .error .fuel := dir_rec_v_terminates exTree 4096 [0, 1, 2, 3] exTree_refs 0
example : 3 ≤ listingEntries exTree [0, 1, 2, 3] :=
  fill_dir_nodes_linear exTree 4096 5 0 3 [0, 1, 2, 3] (by decide) exTree_refs (by decide) (by decide)
example : 3 ≤ (exTree.entries 0).length + listingEntries exTree [0, 1, 2, 3] :=
  dir_rec_nodes_linear exTree 4096 5 0 3 [0, 1, 2, 3] (by decide) exTree_refs (by decide)
/-- key, value and the whole pair of an xattr with an out-of-line value, from a reader positioned by `seek` -/
example :
    let m := (seek exCfg MetaSt.init 96 0).st
    let a : KvAns := ⟨0x101, 3, 7, ((200 : UInt64) <<< 16) ||| 5⟩
    (∀ x ∈ (kvReadKey exCfg a m).acc, x.inBounds) ∧ (∀ x ∈ (kvReadValue exCfg 96 100000 a m).acc, x.inBounds) ∧
      (∀ x ∈ (kvRead exCfg 96 100000 a m).acc, x.inBounds) := by
  intro m a
  have hc : MetaCodecOk exCfg := by intro b n h; simp [exCfg] at h
  have hm : m.dataUsed.toNat ≤ metaCap := by decide
  exact ⟨(xattr_read_key_safe exCfg hc a m hm).1, (xattr_read_value_safe exCfg hc 96 100000 a m hm).1,
    (xattr_read_safe exCfg hc 96 100000 a m hm).1⟩
end Sqfs.C05
