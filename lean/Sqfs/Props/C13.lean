/-
C13 — fail-stop: property theorems about the packers' skeleton (Sqfs/Model/FailStop.lean) and the block
processor with fallible primitives (Sqfs/Model/FailStopBlockProc.lean).

`Variant.fixed` is the source with fixes/C13-*.patch applied (every result checked, init unlinks);
`Variant.current` is the pinned source — the negations for it are in Sqfs/Witness/C13.lean.
All theorems quantify over every configuration `c` and every fault script `fs : List Bool`.
-/
import Sqfs.Proofs.FailStop
import Sqfs.Proofs.FailStopBlockProc
namespace Sqfs.C13
open Sqfs.FailStop

/-- When every result is checked the phases compose: the run is one walk over the whole program. -/
theorem run_checked {v : Variant} (hA : AllChecked v) (c : Cfg) (fs : List Bool) :
    (run v c fs).trace = (runSites v c.quiet 0 (program c) fs {}).2.2 ∧
    ((run v c fs).status = 0 ↔ (runSites v c.quiet 0 (program c) fs {}).1 = true) := by
  unfold program run
  rw [List.append_assoc, List.append_assoc, runSites_checked_append hA]
  rcases h1 : runSites v c.quiet 0 (preSites c) fs {} with ⟨ok1, fs1, t1⟩
  cases ok1
  · simp
  · simp only []
    rw [runSites_checked_append hA]
    rcases h2 : runSites v c.quiet 0 (initSites c) fs1 t1 with ⟨ok2, fs2, t2⟩
    cases ok2
    · simp
    · simp only []
      rw [runSites_checked_append hA]
      rcases h3 : runSites v c.quiet 0 (bodySites c) fs2 t2 with ⟨ok3, fs3, t3⟩
      cases ok3
      · simp
      · simp only []
        rcases h4 : runSites v c.quiet 0 (finishSites c) fs3 t3 with ⟨ok4, fs4, t4⟩
        cases ok4 <;> simp

/-- **Exit status 0 is assigned only at the end** (every variant, every script): a run that exits 0 went through
    `sqfs_writer_finish` returning 0, reached `sqfs_writer_cleanup` with `EXIT_SUCCESS`, no call site reported a
    failure, and the output file is in place. -/
theorem status_success_only_at_end (v : Variant) (c : Cfg) (fs : List Bool) :
    (run v c fs).status = 0 →
      (run v c fs).finishOk = true ∧ (run v c fs).cleanupReached = true ∧
      (run v c fs).trace.failed = none ∧ (run v c fs).out = .present := by
  unfold run
  rcases h1 : runSites v c.quiet 0 (preSites c) fs {} with ⟨ok1, fs1, t1⟩
  cases ok1
  · simp
  · simp only []
    rcases h2 : runSites v c.quiet 0 (initSites c) fs1 t1 with ⟨ok2, fs2, t2⟩
    cases ok2
    · simp
    · simp only []
      rcases h3 : runSites v c.quiet 0 (bodySites c) fs2 t2 with ⟨ok3, fs3, t3⟩
      cases ok3
      · simp
      · simp only []
        rcases h4 : runSites v c.quiet 0 (finishSites c) fs3 t3 with ⟨ok4, fs4, t4⟩
        cases ok4
        · simp
        · intro _
          have e1 := runSites_true_failed _ _ _ _ _ _ _ _ h1
          have e2 := runSites_true_failed _ _ _ _ _ _ _ _ h2
          have e3 := runSites_true_failed _ _ _ _ _ _ _ _ h3
          have e4 := runSites_true_failed _ _ _ _ _ _ _ _ h4
          refine ⟨rfl, rfl, ?_, by simp [cleanup]⟩
          simp only []
          rw [e4, e3, e2, e1]

/-- With every result checked, exit 0 means that **no modelled step failed**: the script has no fault at any
    position of the program, and every site of the program ran. -/
theorem status_success_no_fault (c : Cfg) (fs : List Bool) :
    (run .fixed c fs).status = 0 →
      allFalse (program c).length fs ∧ (run .fixed c fs).trace.ran = program c := by
  intro h
  obtain ⟨ht, hs⟩ := run_checked fixed_allChecked c fs
  have hok := hs.1 h
  rw [runSites_checked fixed_allChecked] at hok ht
  cases hft : firstTrue (program c).length fs with
  | some k => rw [hft] at hok; simp at hok
  | none =>
    rw [hft] at ht
    refine ⟨(firstTrue_none_iff _ _).1 hft, ?_⟩
    rw [ht]; simp [okAll_ran]

/-- **`sqfs_writer_cleanup(status)` unlinks unless success** (every variant): whenever the cleanup is reached with
    a non-zero status the output file is removed. -/
theorem cleanup_unlinks_unless_success (v : Variant) (c : Cfg) (fs : List Bool) :
    (run v c fs).status ≠ 0 → (run v c fs).cleanupReached = true → (run v c fs).out = .unlinked := by
  unfold run
  rcases h1 : runSites v c.quiet 0 (preSites c) fs {} with ⟨ok1, fs1, t1⟩
  cases ok1
  · simp
  · simp only []
    rcases h2 : runSites v c.quiet 0 (initSites c) fs1 t1 with ⟨ok2, fs2, t2⟩
    cases ok2
    · simp
    · simp only []
      rcases h3 : runSites v c.quiet 0 (bodySites c) fs2 t2 with ⟨ok3, fs3, t3⟩
      cases ok3
      · simp [cleanup]
      · simp only []
        rcases h4 : runSites v c.quiet 0 (finishSites c) fs3 t3 with ⟨ok4, fs4, t4⟩
        cases ok4 <;> simp [cleanup]

/-- The paths on which the cleanup is **not** reached, precisely: a failure reported by a site that runs before
    the writer exists (tar2sqfs.c:20-34) or inside `sqfs_writer_init` (init.c:54-196); `main` then returns
    `EXIT_FAILURE` directly (mkfs.c:108) or jumps past the cleanup (tar2sqfs.c:38 `goto out_it`). -/
theorem cleanup_not_reached_only_in_init (v : Variant) (c : Cfg) (fs : List Bool) :
    (run v c fs).cleanupReached = false →
      (run v c fs).status = 1 ∧ ∃ s, s ∈ preSites c ++ initSites c ∧ (run v c fs).trace.failed = some s := by
  unfold run
  rcases h1 : runSites v c.quiet 0 (preSites c) fs {} with ⟨ok1, fs1, t1⟩
  cases ok1
  · intro _
    obtain ⟨s, hs, hf⟩ := runSites_false_failed _ _ _ _ _ _ _ _ h1
    exact ⟨rfl, s, List.mem_append_left _ hs, hf⟩
  · simp only []
    rcases h2 : runSites v c.quiet 0 (initSites c) fs1 t1 with ⟨ok2, fs2, t2⟩
    cases ok2
    · intro _
      obtain ⟨s, hs, hf⟩ := runSites_false_failed _ _ _ _ _ _ _ _ h2
      exact ⟨rfl, s, List.mem_append_right _ hs, hf⟩
    · simp only []
      rcases h3 : runSites v c.quiet 0 (bodySites c) fs2 t2 with ⟨ok3, fs3, t3⟩
      cases ok3
      · simp
      · simp only []
        rcases h4 : runSites v c.quiet 0 (finishSites c) fs3 t3 with ⟨ok4, fs4, t4⟩
        cases ok4 <;> simp

/-- With fixes/C13-init-unlink.patch a failing run **never** leaves the output file behind, whichever site
    fails (for the pinned source see `Witness.C13.init_failure_leaves_output`). -/
theorem failure_never_leaves_output (c : Cfg) (fs : List Bool) :
    (run .fixed c fs).status ≠ 0 → (run .fixed c fs).out ≠ .present := by
  unfold run
  rcases h1 : runSites .fixed c.quiet 0 (preSites c) fs {} with ⟨ok1, fs1, t1⟩
  cases ok1
  · simp
  · simp only []
    rcases h2 : runSites .fixed c.quiet 0 (initSites c) fs1 t1 with ⟨ok2, fs2, t2⟩
    cases ok2
    · simp only [afterFailedInit, Variant.fixed]
      intro _
      split <;> simp
    · simp only []
      rcases h3 : runSites .fixed c.quiet 0 (bodySites c) fs2 t2 with ⟨ok3, fs3, t3⟩
      cases ok3
      · simp [cleanup]
      · simp only []
        rcases h4 : runSites .fixed c.quiet 0 (finishSites c) fs3 t3 with ⟨ok4, fs4, t4⟩
        cases ok4 <;> simp [cleanup]

/-- **A run with exit 0 performed exactly the fault-free sequence**: same output-producing steps in the same
    order, same progress messages, same sites — the whole result equals the fault-free one. -/
theorem exit0_output_eq_fault_free (c : Cfg) (fs : List Bool) :
    (run .fixed c fs).status = 0 → run .fixed c fs = faultFree .fixed c := by
  intro h
  have hff := (status_success_no_fault c fs h).1
  -- both runs are clean walks of every phase
  have key : ∀ gs : List Bool, allFalse (program c).length gs → run .fixed c gs =
      ⟨0, .present, true, true, okAll c.quiet (finishSites c) (okAll c.quiet (bodySites c)
        (okAll c.quiet (initSites c) (okAll c.quiet (preSites c) {})))⟩ := by
    intro gs hg
    have l1 : allFalse (preSites c).length gs := fun i hi => hg i (by simp [program]; omega)
    have l2 : allFalse (initSites c).length (gs.drop (preSites c).length) := fun i hi => by
      have := hg (i + (preSites c).length) (by simp [program]; omega)
      simpa [List.getD_eq_getElem?_getD, Nat.add_comm] using this
    have l3 : allFalse (bodySites c).length ((gs.drop (preSites c).length).drop (initSites c).length) := fun i hi => by
      have := hg (i + (initSites c).length + (preSites c).length) (by simp [program]; omega)
      simpa [List.getD_eq_getElem?_getD, Nat.add_comm, Nat.add_assoc, Nat.add_left_comm] using this
    have l4 : allFalse (finishSites c).length
        (((gs.drop (preSites c).length).drop (initSites c).length).drop (bodySites c).length) := fun i hi => by
      have := hg (i + (bodySites c).length + (initSites c).length + (preSites c).length) (by simp [program]; omega)
      simpa [List.getD_eq_getElem?_getD, Nat.add_comm, Nat.add_assoc, Nat.add_left_comm] using this
    unfold run
    rw [runSites_clean _ _ _ _ _ l1]
    simp only []
    rw [runSites_clean _ _ _ _ _ l2]
    simp only []
    rw [runSites_clean _ _ _ _ _ l3]
    simp only []
    rw [runSites_clean _ _ _ _ _ l4]
    simp [cleanup]
  rw [key fs hff, faultFree, key [] (allFalse_nil _)]

/-- **The first failure stops the run**: if the first fault of the script is at position `k` of the program, the
    run exits 1, the sites executed are exactly the first `k+1` of the program (the failing one last), the
    output-producing steps performed are exactly those of the first `k` sites, and the reported site is the
    `k`-th.  No later site runs, in particular no output-producing one. -/
theorem first_failure_stops (c : Cfg) (fs : List Bool) (k : Nat) :
    k < (program c).length → allFalse k fs → fs.getD k false = true →
      (run .fixed c fs).status = 1 ∧
      (run .fixed c fs).trace.ran = (program c).take (k + 1) ∧
      (run .fixed c fs).trace.ops = ((program c).take k).flatMap emits ∧
      (run .fixed c fs).trace.failed = (program c)[k]? := by
  intro hk haf hf
  obtain ⟨ht, hs⟩ := run_checked fixed_allChecked c fs
  have hft : firstTrue (program c).length fs = some k := (firstTrue_some _ _ _).2 ⟨hk, haf, hf⟩
  rw [runSites_checked fixed_allChecked, hft] at ht hs
  simp only [] at ht hs
  have hst : (run .fixed c fs).status ≠ 0 := fun h => by simpa using hs.1 h
  have hst1 : (run .fixed c fs).status = 1 := by
    have : (run .fixed c fs).status = 0 ∨ (run .fixed c fs).status = 1 := by
      unfold run
      rcases runSites .fixed c.quiet 0 (preSites c) fs {} with ⟨ok1, fs1, t1⟩
      cases ok1
      · simp
      · simp only []
        rcases runSites .fixed c.quiet 0 (initSites c) fs1 t1 with ⟨ok2, fs2, t2⟩
        cases ok2
        · simp
        · simp only []
          rcases runSites .fixed c.quiet 0 (bodySites c) fs2 t2 with ⟨ok3, fs3, t3⟩
          cases ok3
          · simp
          · simp only []
            rcases runSites .fixed c.quiet 0 (finishSites c) fs3 t3 with ⟨ok4, fs4, t4⟩
            cases ok4 <;> simp
    rcases this with h | h
    · exact absurd h hst
    · exact h
  refine ⟨hst1, ?_, ?_, ?_⟩
  · rw [ht]
    simp only [failAt, okAll_ran, List.nil_append]
    exact (take_succ_getD _ _ _ hk).symm
  · rw [ht]; simp [failAt, okAll_ops]
  · rw [ht]; simp [failAt, List.getD_eq_getElem?_getD, List.getElem?_eq_getElem hk]

/-! ### second layer: the block processor with fallible primitives -/

open Sqfs.FailStop.BP in
/-- **Errors propagate out of the block processor**: from *every* processor state and for every fault script, if
    any primitive (block allocation, in-flight copy, pool submit, pool dequeue / worker, `write_data_block` with
    its read-back and truncate, inode growth, fragment-table and hash-table updates) fails while an API call
    (`begin_file`, `append`, `end_file`, `sync`, `finish`) runs, that call returns an error.  Source with
    fixes/C13-sparse-tail-result.patch; for the pinned source see `Witness.C13.sparse_tail_fault_unreported`. -/
theorem blockproc_error_propagates (fuel : Nat) (a : BP.Api) (p : BP.Proc) (fs : List Bool) :
    (BP.runCall .fixed fuel a p fs).1.faulted = true → (BP.runCall .fixed fuel a p fs).1.ok = false := by
  have hs := (sound_call fixed_checked fuel a).prop { script := fs, proc := p } rfl
  unfold runCall
  rcases hc : call Variant.fixed fuel a { script := fs, proc := p } with ⟨r, c⟩
  rw [hc] at hs
  cases r with
  | ok u => intro h; have := hs h; simp [isErr] at this
  | error e => intro _; rfl

open Sqfs.FailStop.BP in
/-- The same for a whole session driven the way the tools drive it (stop at the first error): a call during
    which a primitive failed is an erroring call, hence the last one. -/
theorem blockproc_session_propagates (fuel : Nat) (calls : List BP.Api) (p : BP.Proc) (fs : List Bool) :
    ∀ r ∈ BP.session .fixed fuel calls p fs, r.faulted = true → r.ok = false := by
  induction calls generalizing p fs with
  | nil => intro r hr; simp [session] at hr
  | cons a rest ih =>
    intro r hr
    simp only [session] at hr
    have h1 := blockproc_error_propagates fuel a p fs
    rcases hrc : runCall Variant.fixed fuel a p fs with ⟨r0, fs', p'⟩
    rw [hrc] at hr h1
    simp only [] at hr h1
    split at hr
    · rcases List.mem_cons.1 hr with h | h
      · subst h; exact h1
      · exact ih p' fs' r h
    · have : r = r0 := by simpa using hr
      subst this; exact h1

/-! ### non-vacuity: the hypotheses above are satisfiable on non-trivial instances -/

/-- a gensquashfs run with a pack file, three files, an export table -/
def exCfg : Cfg := { tool := .gensquashfs, packFile := true, nfiles := 3, sparseTails := 1, exportable := true }

example : (run .fixed exCfg []).status = 0 := by decide
example : (run .fixed exCfg []).trace.ops.length = 15 := by decide
example : (run .fixed exCfg (single 7)).status ≠ 0 ∧ (run .fixed exCfg (single 7)).cleanupReached = false := by decide
example : (run .fixed exCfg (single 25)).status ≠ 0 ∧ (run .fixed exCfg (single 25)).cleanupReached = true := by decide
example : 25 < (program exCfg).length ∧ allFalse 25 (single 25) ∧ (single 25).getD 25 false = true := by
  refine ⟨by decide, ?_, by decide⟩
  unfold allFalse
  decide
example : (run .fixed { exCfg with tool := .tar2sqfs } (single 0)).out = .never := by decide

/-- hypothesis of `blockproc_error_propagates` is satisfiable: the inode allocation of `begin_file` fails -/
example : (BP.runCall .fixed 4 (.beginFile true false) {} [true]).1.faulted = true := by decide
/-- … and with a processor that already holds a full block, the pool submit inside `append` fails -/
example : (BP.runCall .fixed 4 (.append 1 false false)
    { beginCalled := true, cur := some { size := 4 }, backlog := 1 } [true]).1 =
    ⟨false, some .fault, true, false, [.submit]⟩ := by decide

end Sqfs.C13
