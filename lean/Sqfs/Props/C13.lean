/-
C13 — fail-stop: property theorems about the tools' skeleton (Sqfs/Model/FailStop.lean) and the block
processor with fallible primitives (Sqfs/Model/FailStopBlockProc.lean).

`Variant.current` is /repo as it is (HEAD d69b61b: the realpath repair b5ce20d and the three result-checking repairs
are part of the source; standard output of rdsquashfs is *not* checked); `Variant.fixed` is /repo +
fixes/C13-check-stdout-errors.patch; `Variant.beforeRealpath` (before b5ce20d) and `Variant.snapshot` (the source as
first pinned) exist for the regression witnesses in Sqfs/Witness/C13.lean only.
`AllChecked v` (every result of the skeleton is tested) holds for `current`, `fixed` and `beforeRealpath`.
All theorems quantify over every configuration `c` and every fault script `fs : List Bool`.

What these theorems are and are not: they are statements about the *model*.  Their C-specific content is the
order of the sites, the reaction to each failure, the phase structure of `main`, and what `unlink` is applied
to.  That content is compared with the real tools on every run of the check: the ordered list of calls each
real run makes (recorded by instrumentation) must equal `Trace.ran` of `run` for the same fault position, and
exit status, presence of the output, diagnostic, progress messages and the outcome of `unlink` must equal the
corresponding fields of `Result` (tools/checks/c13.py).
-/
import Sqfs.Proofs.FailStop
import Sqfs.Proofs.FailStopBlockProc
namespace Sqfs.C13
open Sqfs.FailStop

/-! the two configurations used by the instantiating examples below -/

/-- a gensquashfs run with a pack file, a pack directory, a relative output name, three files, an export table -/
def exCfg : Cfg := { tool := .gensquashfs, packFile := true, packDir := true, relOut := true, nfiles := 3, exportable := true }
/-- a tar2sqfs run: directory, file, symbolic link, an entry outside the new root -/
def exTar : Cfg := { tool := .tar2sqfs, entries := [{}, {}, { link := true }, { skipped := true }] }

/-- When every result is checked the phases compose: the run is one walk over the whole program. -/
theorem run_checked {v : Variant} (hA : AllChecked v) (c : Cfg) (fs : List Bool) :
    (run v c fs).trace = (runSites v c 0 (program v c) fs {}).2.2 ∧
    ((run v c fs).status = 0 ↔ (runSites v c 0 (program v c) fs {}).1 = true) := by
  unfold program run
  rw [List.append_assoc, List.append_assoc, runSites_checked_append hA]
  rcases h1 : runSites v c 0 (preSites c) fs {} with ⟨ok1, fs1, t1⟩
  cases ok1
  · simp
  · simp only []
    rw [runSites_checked_append hA]
    rcases h2 : runSites v c 0 (initSites c) fs1 t1 with ⟨ok2, fs2, t2⟩
    cases ok2
    · simp
    · simp only []
      rw [runSites_checked_append hA]
      rcases h3 : runSites v c 0 (bodySites v c) fs2 t2 with ⟨ok3, fs3, t3⟩
      cases ok3
      · simp
      · simp only []
        rcases h4 : runSites v c 0 (finishSites c) fs3 t3 with ⟨ok4, fs4, t4⟩
        cases ok4 <;> simp

example := run_checked current_allChecked exCfg (single 24)
example := run_checked fixed_allChecked exTar (single 5)

/-- **Exit status 0 is assigned only at the end** (every variant, every script): a run that exits 0 went through
    `sqfs_writer_finish` returning 0, reached `sqfs_writer_cleanup` with `EXIT_SUCCESS`, no call site reported a
    failure, no `unlink` was attempted and the output file is in place. -/
theorem status_success_only_at_end (v : Variant) (c : Cfg) (fs : List Bool) :
    (run v c fs).status = 0 →
      (run v c fs).finishOk = true ∧ (run v c fs).cleanupReached = true ∧
      (run v c fs).trace.failed = none ∧ (run v c fs).out = .present ∧ (run v c fs).unlinkHit = none := by
  unfold run
  rcases h1 : runSites v c 0 (preSites c) fs {} with ⟨ok1, fs1, t1⟩
  cases ok1
  · simp
  · simp only []
    rcases h2 : runSites v c 0 (initSites c) fs1 t1 with ⟨ok2, fs2, t2⟩
    cases ok2
    · simp
    · simp only []
      rcases h3 : runSites v c 0 (bodySites v c) fs2 t2 with ⟨ok3, fs3, t3⟩
      cases ok3
      · simp
      · simp only []
        rcases h4 : runSites v c 0 (finishSites c) fs3 t3 with ⟨ok4, fs4, t4⟩
        cases ok4
        · simp
        · intro _
          have e1 := runSites_true_failed _ _ _ _ _ _ _ _ h1
          have e2 := runSites_true_failed _ _ _ _ _ _ _ _ h2
          have e3 := runSites_true_failed _ _ _ _ _ _ _ _ h3
          have e4 := runSites_true_failed _ _ _ _ _ _ _ _ h4
          refine ⟨rfl, rfl, ?_, by simp [cleanup], by simp [cleanup]⟩
          simp only []
          rw [e4, e3, e2, e1]

example := status_success_only_at_end .current exCfg [] (by decide)
example := status_success_only_at_end .snapshot exTar [false, false] (by decide)

/-- With every result checked (/repo as it is, and the repaired source), exit 0 means that **no modelled step
    failed**: the script has no fault at any position of the program, and every site of the program ran. -/
theorem status_success_no_fault {v : Variant} (hA : AllChecked v) (c : Cfg) (fs : List Bool) :
    (run v c fs).status = 0 →
      allFalse (program v c).length fs ∧ (run v c fs).trace.ran = program v c := by
  intro h
  obtain ⟨ht, hs⟩ := run_checked hA c fs
  have hok := hs.1 h
  rw [runSites_checked hA] at hok ht
  cases hft : firstTrue (program v c).length fs with
  | some k => rw [hft] at hok; simp at hok
  | none =>
    rw [hft] at ht
    refine ⟨(firstTrue_none_iff _ _).1 hft, ?_⟩
    rw [ht]; simp [okAll_ran]

example := status_success_no_fault current_allChecked exCfg [] (by decide)
example := status_success_no_fault fixed_allChecked exTar [false] (by decide)

/-- **What `sqfs_writer_cleanup(status)` does** (every variant): reached with a non-zero status it calls
    `unlink` on the stored name; the output file is gone afterwards exactly when that name, resolved against the
    directory the process is in *at that moment*, designates the output file. -/
theorem cleanup_unlinks_the_stored_name (v : Variant) (c : Cfg) (fs : List Bool) :
    (run v c fs).status ≠ 0 → (run v c fs).cleanupReached = true →
      (run v c fs).unlinkHit = some (nameResolves c (run v c fs).trace) ∧
      ((run v c fs).out = .unlinked ↔ nameResolves c (run v c fs).trace = true) ∧
      ((run v c fs).out = .present ↔ nameResolves c (run v c fs).trace = false) := by
  unfold run
  rcases h1 : runSites v c 0 (preSites c) fs {} with ⟨ok1, fs1, t1⟩
  cases ok1
  · simp
  · simp only []
    rcases h2 : runSites v c 0 (initSites c) fs1 t1 with ⟨ok2, fs2, t2⟩
    cases ok2
    · simp
    · simp only []
      rcases h3 : runSites v c 0 (bodySites v c) fs2 t2 with ⟨ok3, fs3, t3⟩
      cases ok3
      · cases hn : nameResolves c t3 <;> simp [cleanup, unlinkOut, hn]
      · simp only []
        rcases h4 : runSites v c 0 (finishSites c) fs3 t3 with ⟨ok4, fs4, t4⟩
        cases ok4
        · cases hn : nameResolves c t4 <;> simp [cleanup, unlinkOut, hn]
        · simp

/-- a failure while packing, after `chdir`: the source before b5ce20d left the file, /repo as it is removes it -/
example := cleanup_unlinks_the_stored_name .beforeRealpath exCfg (single 24) (by decide) (by decide)
example := cleanup_unlinks_the_stored_name .current exCfg (single 25) (by decide) (by decide)
example : (run .beforeRealpath exCfg (single 24)).out = .present ∧ (run .current exCfg (single 25)).out = .unlinked
    ∧ (run .current exCfg (single 25)).trace.failed = some (.packFile 2) := by decide

/-- The paths on which the cleanup is **not** reached, precisely: a failure reported by a site that runs before
    the writer exists (tar2sqfs.c:20-34) or inside `sqfs_writer_init`; `main` then returns `EXIT_FAILURE`
    directly (mkfs.c:108) or jumps past the cleanup (tar2sqfs.c:38 `goto out_it`). -/
theorem cleanup_not_reached_only_in_init (v : Variant) (c : Cfg) (fs : List Bool) :
    (run v c fs).cleanupReached = false →
      (run v c fs).status = 1 ∧ ∃ s, s ∈ preSites c ++ initSites c ∧ (run v c fs).trace.failed = some s := by
  unfold run
  rcases h1 : runSites v c 0 (preSites c) fs {} with ⟨ok1, fs1, t1⟩
  cases ok1
  · intro _
    obtain ⟨s, hs, hf⟩ := runSites_false_failed _ _ _ _ _ _ _ _ h1
    exact ⟨rfl, s, List.mem_append_left _ hs, hf⟩
  · simp only []
    rcases h2 : runSites v c 0 (initSites c) fs1 t1 with ⟨ok2, fs2, t2⟩
    cases ok2
    · intro _
      obtain ⟨s, hs, hf⟩ := runSites_false_failed _ _ _ _ _ _ _ _ h2
      exact ⟨rfl, s, List.mem_append_right _ hs, hf⟩
    · simp only []
      rcases h3 : runSites v c 0 (bodySites v c) fs2 t2 with ⟨ok3, fs3, t3⟩
      cases ok3
      · simp
      · simp only []
        rcases h4 : runSites v c 0 (finishSites c) fs3 t3 with ⟨ok4, fs4, t4⟩
        cases ok4 <;> simp

example := cleanup_not_reached_only_in_init .fixed exCfg (single 7) (by decide)
example := cleanup_not_reached_only_in_init .current exTar (single 1) (by decide)

/-- **A failing run of the packers never leaves the output file behind**, whichever site fails, whatever the output
    name looks like and wherever `pack_files` went — for every source in which a failed `sqfs_writer_init` removes
    the file and `main` resolves the output name before `pack_files` changes directory: /repo as it is
    (`Variant.current`, since b5ce20d) and `Variant.fixed`.  For the source before b5ce20d the statement is false:
    `Witness.C13.relative_output_left_behind`. -/
theorem failure_never_leaves_output (v : Variant) (hi : v.initUnlinks = true) (ha : v.outPathAbsolute = true)
    (c : Cfg) (fs : List Bool) :
    (run v c fs).status ≠ 0 → (run v c fs).out ≠ .present := by
  have s0 : Safe ({} : Trace) := Or.inr rfl
  unfold run
  rcases h1 : runSites v c 0 (preSites c) fs {} with ⟨ok1, fs1, t1⟩
  have s1 := safe_phase _ _ _ _ _ _ _ _ (chdirPack_not_mem_pre c) h1 s0
  cases ok1
  · simp
  · simp only []
    rcases h2 : runSites v c 0 (initSites c) fs1 t1 with ⟨ok2, fs2, t2⟩
    have s2 := safe_phase _ _ _ _ _ _ _ _ (chdirPack_not_mem_init c) h2 s1
    cases ok2
    · simp only [afterFailedInit, hi, unlinkOut, nameResolves_of_safe c t2 s2]
      intro _
      split <;> simp
    · simp only []
      rcases h3 : runSites v c 0 (bodySites v c) fs2 t2 with ⟨ok3, fs3, t3⟩
      have s3 := safe_body_abs v ha _ _ _ _ _ _ h3 s2
      cases ok3
      · simp [cleanup, unlinkOut, nameResolves_of_safe c t3 s3]
      · simp only []
        rcases h4 : runSites v c 0 (finishSites c) fs3 t3 with ⟨ok4, fs4, t4⟩
        have s4 := safe_phase _ _ _ _ _ _ _ _ (chdirPack_not_mem_finish c) h4 s3
        cases ok4 <;> simp [cleanup, unlinkOut, nameResolves_of_safe c t4 s4]

/-- /repo as it is: a fault while packing (behind the `chdir`), a fault inside `sqfs_writer_init` -/
example := failure_never_leaves_output .current rfl rfl exCfg (single 25) (by decide)
example := failure_never_leaves_output .current rfl rfl exCfg (single 7) (by decide)
example := failure_never_leaves_output .fixed rfl rfl exTar (single 20) (by decide)

/-- The same for every source in which a failed init removes the file (so also the one before b5ce20d),
    **provided** the output name is absolute or no pack directory is given — the command lines on which the
    working directory cannot matter.  Kept because it is what held of /repo before b5ce20d (regression: the full
    statement was false there, `Witness.C13.not_failure_never_leaves_output_beforeRealpath`); for /repo as it is
    the full statement above supersedes it. -/
theorem failure_never_leaves_output_partial (v : Variant) (hv : v.initUnlinks = true) (c : Cfg) (fs : List Bool) :
    (c.relOut = false ∨ c.packDir = false) →
    (run v c fs).status ≠ 0 → (run v c fs).out ≠ .present := by
  intro hc
  -- under the hypothesis every phase keeps the name valid
  have key : ∀ (sites : List Site) (fs : List Bool) (t : Trace) (ok : Bool) (fs' : List Bool) (t' : Trace),
      (sites = preSites c ∨ sites = initSites c ∨ sites = bodySites v c ∨ sites = finishSites c) →
      runSites v c 0 sites fs t = (ok, fs', t') → nameResolves c t = true → nameResolves c t' = true := by
    intro sites fs t ok fs' t' hsites h hn
    rcases hc with hc | hc
    · simp [nameResolves, hc]
    · have hm : Site.chdirPack ∉ sites := by
        rcases hsites with e | e | e | e <;> subst e
        · exact chdirPack_not_mem_pre c
        · exact chdirPack_not_mem_init c
        · exact chdirPack_not_mem_body v c hc
        · exact chdirPack_not_mem_finish c
      have hcwd := runSites_cwd v c _ _ _ _ _ _ _ hm h
      unfold nameResolves at hn ⊢
      rw [hcwd]
      cases hr : c.relOut
      · simp
      · cases ha : t.absName
        · simp [hr, ha] at hn ⊢; exact Or.inr hn
        · simp [runSites_absName v c _ _ _ _ _ _ _ h ha]
  have n0 : nameResolves c ({} : Trace) = true := by simp [nameResolves]
  unfold run
  rcases h1 : runSites v c 0 (preSites c) fs {} with ⟨ok1, fs1, t1⟩
  have n1 := key _ _ _ _ _ _ (Or.inl rfl) h1 n0
  cases ok1
  · simp
  · simp only []
    rcases h2 : runSites v c 0 (initSites c) fs1 t1 with ⟨ok2, fs2, t2⟩
    have n2 := key _ _ _ _ _ _ (Or.inr (Or.inl rfl)) h2 n1
    cases ok2
    · simp only [afterFailedInit, hv, unlinkOut, n2]
      intro _
      split <;> simp
    · simp only []
      rcases h3 : runSites v c 0 (bodySites v c) fs2 t2 with ⟨ok3, fs3, t3⟩
      have n3 := key _ _ _ _ _ _ (Or.inr (Or.inr (Or.inl rfl))) h3 n2
      cases ok3
      · simp [cleanup, unlinkOut, n3]
      · simp only []
        rcases h4 : runSites v c 0 (finishSites c) fs3 t3 with ⟨ok4, fs4, t4⟩
        have n4 := key _ _ _ _ _ _ (Or.inr (Or.inr (Or.inr rfl))) h4 n3
        cases ok4 <;> simp [cleanup, unlinkOut, n4]

/-- both disjuncts of the side condition: absolute output name; no pack directory -/
example := failure_never_leaves_output_partial .beforeRealpath rfl { exCfg with relOut := false } (single 24) (Or.inl rfl) (by decide)
example := failure_never_leaves_output_partial .beforeRealpath rfl { exCfg with packDir := false } (single 24) (Or.inr rfl) (by decide)

/-- **A failing run reports a site of the program, and stops there** (every variant, every configuration, every
    script): a run that does not exit 0 has recorded exactly one failing site `s`; `s` is a site of the program of
    that configuration, and it is the *last* site the run executed (nothing runs after the reported failure —
    this is the control-flow half of "a failing run says why"). -/
theorem failure_reports_site (v : Variant) (c : Cfg) (fs : List Bool) :
    (run v c fs).status ≠ 0 →
      ∃ s, s ∈ program v c ∧ (run v c fs).trace.failed = some s ∧ (run v c fs).trace.ran.getLast? = some s := by
  unfold run program
  rcases h1 : runSites v c 0 (preSites c) fs {} with ⟨ok1, fs1, t1⟩
  cases ok1
  · intro _
    obtain ⟨s, hs, hf, hl⟩ := runSites_false_failed_last _ _ _ _ _ _ _ _ h1
    exact ⟨s, by simp [hs], hf, hl⟩
  · simp only []
    rcases h2 : runSites v c 0 (initSites c) fs1 t1 with ⟨ok2, fs2, t2⟩
    cases ok2
    · intro _
      obtain ⟨s, hs, hf, hl⟩ := runSites_false_failed_last _ _ _ _ _ _ _ _ h2
      exact ⟨s, by simp [hs], hf, hl⟩
    · simp only []
      rcases h3 : runSites v c 0 (bodySites v c) fs2 t2 with ⟨ok3, fs3, t3⟩
      cases ok3
      · intro _
        obtain ⟨s, hs, hf, hl⟩ := runSites_false_failed_last _ _ _ _ _ _ _ _ h3
        exact ⟨s, by simp [hs], hf, hl⟩
      · simp only []
        rcases h4 : runSites v c 0 (finishSites c) fs3 t3 with ⟨ok4, fs4, t4⟩
        cases ok4
        · intro _
          obtain ⟨s, hs, hf, hl⟩ := runSites_false_failed_last _ _ _ _ _ _ _ _ h4
          exact ⟨s, by simp [hs], hf, hl⟩
        · simp

/-- instance: the 32nd site of the example run fails (`sqfs_id_table_write`); it is reported and is the last one run -/
example : ∃ s, s ∈ program .current exCfg ∧ (run .current exCfg (single 31)).trace.failed = some s ∧
    (run .current exCfg (single 31)).trace.ran.getLast? = some s :=
  failure_reports_site .current exCfg (single 31) (by decide)
example : (run .current exCfg (single 31)).trace.failed = some .idTable := by decide

/-- **Every modelled site prints a diagnostic when it fails** — *definition-level*: this is a fact about the
    hand-written table `diagOnFail` (one line per site of the C sources; all-true once the export-table repair is
    in, i.e. for /repo as it is and the repaired source), not about the control flow.  Its tie to the C code is the
    per-run comparison of the real tools' stderr with the table (tools/checks/c13.py). -/
theorem all_sites_have_diagnostic (v : Variant) (hv : v.exportChecked = true) : ∀ s, diagOnFail v s = true := by
  intro s; cases s <;> simp [diagOnFail, hv]

example : ∀ s, diagOnFail .current s = true := all_sites_have_diagnostic .current rfl
/-- … and the table is not constant: the snapshot returned -1 silently for the export table -/
example : diagOnFail .snapshot .exportWrite = false ∧ diagOnFail .snapshot .idTable = true := by decide

/-- **A failing run says why**: the run reports a site of the program, that site is the last one executed
    (`failure_reports_site` — the part that depends on the run), and the reported site prints a diagnostic
    (`all_sites_have_diagnostic` — a property of the table `diagOnFail` alone, the same for every run; every
    variant with the export-table repair, i.e. /repo as it is and the repaired source). -/
theorem failure_has_diagnostic (v : Variant) (hv : v.exportChecked = true) (c : Cfg) (fs : List Bool) :
    (run v c fs).status ≠ 0 →
      ∃ s, s ∈ program v c ∧ (run v c fs).trace.failed = some s ∧ (run v c fs).trace.ran.getLast? = some s ∧
        diagOnFail v s = true := by
  intro h
  obtain ⟨s, hs, hf, hl⟩ := failure_reports_site v c fs h
  exact ⟨s, hs, hf, hl, all_sites_have_diagnostic v hv s⟩

example := failure_has_diagnostic .current rfl exCfg (single 31) (by decide)

/-- **A run with exit 0 performed exactly the fault-free sequence**: same output-producing steps in the same
    order, same progress messages, same sites — the whole result equals the fault-free one (every variant in
    which every result is checked).  This is about the *step sequence*; that the bytes written are the same is
    established per run by the enumeration only. -/
theorem exit0_output_eq_fault_free {v : Variant} (hA : AllChecked v) (c : Cfg) (fs : List Bool) :
    (run v c fs).status = 0 → run v c fs = faultFree v c := by
  intro h
  have hff := (status_success_no_fault hA c fs h).1
  -- both runs are clean walks of every phase
  have key : ∀ gs : List Bool, allFalse (program v c).length gs → run v c gs =
      ⟨0, .present, true, true, none, okAll c (finishSites c) (okAll c (bodySites v c)
        (okAll c (initSites c) (okAll c (preSites c) {})))⟩ := by
    intro gs hg
    have l1 : allFalse (preSites c).length gs := fun i hi => hg i (by simp [program]; omega)
    have l2 : allFalse (initSites c).length (gs.drop (preSites c).length) := fun i hi => by
      have := hg (i + (preSites c).length) (by simp [program]; omega)
      simpa [List.getD_eq_getElem?_getD, Nat.add_comm] using this
    have l3 : allFalse (bodySites v c).length ((gs.drop (preSites c).length).drop (initSites c).length) := fun i hi => by
      have := hg (i + (initSites c).length + (preSites c).length) (by simp [program]; omega)
      simpa [List.getD_eq_getElem?_getD, Nat.add_comm, Nat.add_assoc, Nat.add_left_comm] using this
    have l4 : allFalse (finishSites c).length
        (((gs.drop (preSites c).length).drop (initSites c).length).drop (bodySites v c).length) := fun i hi => by
      have := hg (i + (bodySites v c).length + (initSites c).length + (preSites c).length) (by simp [program]; omega)
      simpa [List.getD_eq_getElem?_getD, Nat.add_comm, Nat.add_assoc, Nat.add_left_comm] using this
    unfold run
    rw [runSites_clean _ _ _ _ _ l1]
    simp only []
    rw [runSites_clean _ _ _ _ _ l2]
    simp only []
    rw [runSites_clean _ _ _ _ _ l3]
    simp only []
    rw [runSites_clean _ _ _ _ _ l4]
    simp [cleanup]
  rw [key fs hff, faultFree, key [] (allFalse_nil _)]

/-- non-degenerate scripts (for `fs = []` the statement is `rfl`): explicit "no fault" entries, and a fault scheduled
    past the end of the program -/
example : run .current exCfg [false, false] = faultFree .current exCfg :=
  exit0_output_eq_fault_free current_allChecked exCfg [false, false] (by decide)
example : run .current exCfg (single 100) = faultFree .current exCfg :=
  exit0_output_eq_fault_free current_allChecked exCfg (single 100) (by decide)

/-- **The first failure stops the run**: if the first fault of the script is at position `k` of the program, the
    run exits 1, the sites executed are exactly the first `k+1` of the program (the failing one last), the
    output-producing steps performed are exactly those of the first `k` sites, and the reported site is the
    `k`-th.  No later site runs, in particular no output-producing one.  (Every variant in which every result is
    checked: /repo as it is and the repaired source.) -/
theorem first_failure_stops {v : Variant} (hA : AllChecked v) (c : Cfg) (fs : List Bool) (k : Nat) :
    k < (program v c).length → allFalse k fs → fs.getD k false = true →
      (run v c fs).status = 1 ∧
      (run v c fs).trace.ran = (program v c).take (k + 1) ∧
      (run v c fs).trace.ops = ((program v c).take k).flatMap emits ∧
      (run v c fs).trace.failed = (program v c)[k]? := by
  intro hk haf hf
  obtain ⟨ht, hs⟩ := run_checked hA c fs
  have hft : firstTrue (program v c).length fs = some k := (firstTrue_some _ _ _).2 ⟨hk, haf, hf⟩
  rw [runSites_checked hA, hft] at ht hs
  simp only [] at ht hs
  have hst : (run v c fs).status ≠ 0 := fun h => by simpa using hs.1 h
  have hst1 : (run v c fs).status = 1 := by
    have : (run v c fs).status = 0 ∨ (run v c fs).status = 1 := by
      unfold run
      rcases runSites v c 0 (preSites c) fs {} with ⟨ok1, fs1, t1⟩
      cases ok1
      · simp
      · simp only []
        rcases runSites v c 0 (initSites c) fs1 t1 with ⟨ok2, fs2, t2⟩
        cases ok2
        · simp
        · simp only []
          rcases runSites v c 0 (bodySites v c) fs2 t2 with ⟨ok3, fs3, t3⟩
          cases ok3
          · simp
          · simp only []
            rcases runSites v c 0 (finishSites c) fs3 t3 with ⟨ok4, fs4, t4⟩
            cases ok4 <;> simp
    rcases this with h | h
    · exact absurd h hst
    · exact h
  refine ⟨hst1, ?_, ?_, ?_⟩
  · rw [ht]
    simp only [failAt, okAll_ran, List.nil_append]
    exact (take_succ_getD _ _ _ hk).symm
  · rw [ht]; simp [failAt, okAll_ops]
  · rw [ht]; simp [failAt, List.getD_eq_getElem?_getD, List.getElem?_eq_getElem hk]

example := first_failure_stops current_allChecked exCfg (single 25) 25 (by decide) (allFalse_single 25) (single_getD 25)
example := first_failure_stops current_allChecked exTar (single 3) 3 (by decide) (allFalse_single 3) (single_getD 3)

/-! ### the readers: sqfs2tar and rdsquashfs -/

/-- **sqfs2tar / rdsquashfs exit 0 only when no call of `main` failed**: the script has no fault at any site of
    `main` and every site ran (every source in which every result is tested: /repo as it is and the repaired one). -/
theorem reader_status_success_no_fault {v : Variant} (hA : AllChecked v) (c : RCfg) (fs : List Bool) :
    (runReader v c fs).status = 0 →
      allFalse (readerSites v c).length fs ∧ (runReader v c fs).trace.ran = readerSites v c ∧
      (runReader v c fs).trace.failed = none := by
  unfold runReader
  rw [runSites_checked hA]
  cases hft : firstTrue (readerSites v c).length fs with
  | some k => simp
  | none =>
    intro _
    refine ⟨(firstTrue_none_iff _ _).1 hft, ?_, ?_⟩
    · simp [okAll_ran]
    · simp [okAll_failed]

example := reader_status_success_no_fault current_allChecked { sqfs2tar := true, compressed := true, nentries := 3 } [] (by decide)
example := reader_status_success_no_fault fixed_allChecked { sqfs2tar := false, op := .describe } [false] (by decide)

/-- **The first failure stops sqfs2tar / rdsquashfs**: exit 1, the sites executed are the first `k+1`, the
    `k`-th is the one reported. -/
theorem reader_first_failure_stops {v : Variant} (hA : AllChecked v) (c : RCfg) (fs : List Bool) (k : Nat) :
    k < (readerSites v c).length → allFalse k fs → fs.getD k false = true →
      (runReader v c fs).status = 1 ∧
      (runReader v c fs).trace.ran = (readerSites v c).take (k + 1) ∧
      (runReader v c fs).trace.failed = (readerSites v c)[k]? := by
  intro hk haf hf
  have hft : firstTrue (readerSites v c).length fs = some k := (firstTrue_some _ _ _).2 ⟨hk, haf, hf⟩
  unfold runReader
  rw [runSites_checked hA, hft]
  refine ⟨rfl, ?_, ?_⟩
  · simp only [failAt, okAll_ran, List.nil_append]
    exact (take_succ_getD _ _ _ hk).symm
  · simp [failAt, List.getD_eq_getElem?_getD, List.getElem?_eq_getElem hk]

example := reader_first_failure_stops current_allChecked { sqfs2tar := false, op := .cat, nsplice := 3 } (single 14) 14 (by decide)
  (allFalse_single 14) (single_getD 14)
/-- the repaired rdsquashfs -d: the 13th site is the test of `fflush(stdout)`; when it fails the run exits 1 there -/
example : (readerSites .fixed { sqfs2tar := false, op := .describe })[12]? = some .rStdoutFlush := by decide
example := reader_first_failure_stops fixed_allChecked { sqfs2tar := false, op := .describe } (single 12) 12 (by decide)
  (allFalse_single 12) (single_getD 12)

/-- **Exit 0 ⇒ the results reached standard output** (clause "a run that exits with status 0 has produced exactly
    the output of a fault-free run", for what rdsquashfs -l, -s, -d, -x print through stdio): in every source that
    tests `fflush(stdout)` / `ferror(stdout)` before `status = EXIT_SUCCESS`, for every configuration and every fault
    script — including a write error on standard output at any time — a run that exits 0 lost nothing.
    Holds for `Variant.fixed` (fixes/C13-check-stdout-errors.patch). -/
theorem reader_exit0_results_delivered (v : Variant) (hs : v.stdoutChecked = true) (c : RCfg) (fs : List Bool) :
    (runReader v c fs).status = 0 → (runReader v c fs).stdoutLost = false := by
  unfold runReader
  rcases runSites v {} 0 (readerSites v c) fs {} with ⟨ok, fs', t⟩
  cases ok <;> simp [hs]

example := reader_exit0_results_delivered .fixed rfl { sqfs2tar := false, op := .describe } (single 12)
/-- non-vacuous: the repaired source does exit 0 (fault-free), and a failing flush makes it exit 1 -/
example : (runReader .fixed { sqfs2tar := false, op := .describe } []).status = 0 ∧
    (runReader .fixed { sqfs2tar := false, op := .describe } (single 12)).status = 1 ∧
    (runReader .fixed { sqfs2tar := false, op := .describe } (single 12)).trace.failed = some .rStdoutFlush := by decide

/-  Full statement for /repo as it is — FALSE (Witness.C13.not_reader_exit0_results_delivered_current; reproduced on
    the real tool on every run: `rdsquashfs -d img >/dev/full` exits 0; known finding until the patch is committed):
      theorem reader_exit0_results_delivered_current (c : RCfg) (fs : List Bool) :
          (runReader .current c fs).status = 0 → (runReader .current c fs).stdoutLost = false
    What does hold of the current source: -/
/-- /repo as it is: exit 0 ⇒ nothing was lost **provided** the operation does not hand its results to stdio
    (sqfs2tar, rdsquashfs -c and -u: their output goes through `write(2)`, every result tested), *or* standard
    output accepted the exit-time flush.  Missing for the full statement: rdsquashfs -l / -s / -d / -x with a write
    error on standard output, where it is false. -/
theorem reader_exit0_results_delivered_partial {v : Variant} (hA : AllChecked v) (c : RCfg) (fs : List Bool) :
    (printsResults c = false ∨ fs.getD (readerSites v c).length false = false) →
    (runReader v c fs).status = 0 → (runReader v c fs).stdoutLost = false := by
  intro hc
  unfold runReader
  rw [runSites_checked hA]
  cases hft : firstTrue (readerSites v c).length fs with
  | some k => simp
  | none =>
    simp only []
    intro _
    rcases hc with hc | hc
    · simp [hc]
    · have : (fs.drop (readerSites v c).length).headD false = fs.getD (readerSites v c).length false := by
        simp [List.headD_eq_head?_getD, List.head?_drop, List.getD_eq_getElem?_getD]
      rw [this, hc]; simp

/-- both disjuncts: rdsquashfs -c with a failing exit-time flush (nothing is in the stdio buffer); -d without one -/
example := reader_exit0_results_delivered_partial current_allChecked { sqfs2tar := false, op := .cat, nsplice := 2 }
  (single 15) (Or.inl rfl) (by decide)
example := reader_exit0_results_delivered_partial current_allChecked { sqfs2tar := false, op := .describe } [] (Or.inr rfl) (by decide)

/-! ### the specification, evaluated on the model

`Spec.failStopOk` is the predicate the check evaluates on what it observes of every real run.  The two theorems
below say that the *model* of the repaired tools satisfies it on every run — they are the composition of the
clause theorems above (status, diagnostic, output removed, exit 0 = fault-free), with "same output" read as
"same step sequence" (`observed`, `observedReader` in Sqfs/Proofs/FailStop.lean).  No crash clause: a Lean
function cannot crash (`crashed := false` by construction). -/

/-- **The packers' skeleton is fail-stop** in the sense of `Spec.failStopOk`, for every configuration and every
    fault script, in every source with all results checked, init removing the file, the output name resolved and
    the export-table diagnostic: /repo as it is and `Variant.fixed`. -/
theorem packer_meets_spec {v : Variant} (hA : AllChecked v) (hi : v.initUnlinks = true) (ha : v.outPathAbsolute = true)
    (he : v.exportChecked = true) (c : Cfg) (fs : List Bool) :
    Spec.failStopOk (observed v c fs) = true := by
  unfold Spec.failStopOk observed
  by_cases h : (run v c fs).status = 0
  · have e := exit0_output_eq_fault_free hA c fs h
    simp only [h, beq_self_eq_true, if_true, Bool.not_false, Bool.true_and]
    exact beq_iff_eq.2 e
  · obtain ⟨s, _, hf, _, hd⟩ := failure_has_diagnostic v he c fs h
    have hl := failure_never_leaves_output v hi ha c fs h
    have h0 : ((run v c fs).status == 0) = false := by simpa using h
    have hl' : ((run v c fs).out == OutFile.present) = false := by simpa using hl
    simp [h0, hf, hd, hl']

example : Spec.failStopOk (observed .current exCfg (single 25)) = true :=
  packer_meets_spec current_allChecked rfl rfl rfl exCfg (single 25)
/-- the predicate is not constant on model runs: the source before b5ce20d fails it on the same run -/
example : Spec.failStopOk (observed .beforeRealpath exCfg (single 24)) = false := by decide
example : Spec.verdict (observed .beforeRealpath exCfg (single 24)) = "failure-output-left" := by decide

/-- **The readers' skeleton is fail-stop** in the sense of `Spec.failStopOk` once standard output is checked
    (`Variant.fixed`); for /repo as it is see `Witness.C13.current_reader_violates_spec`. -/
theorem reader_meets_spec {v : Variant} (hA : AllChecked v) (hs : v.stdoutChecked = true) (c : RCfg) (fs : List Bool) :
    Spec.failStopOk (observedReader v c fs) = true := by
  unfold Spec.failStopOk observedReader
  by_cases h : (runReader v c fs).status = 0
  · have hl := reader_exit0_results_delivered v hs c fs h
    obtain ⟨hff, _, _⟩ := reader_status_success_no_fault hA c fs h
    have ht : (runReader v c fs).trace = (runReader v c []).trace := by
      unfold runReader
      rw [runSites_clean v {} _ _ _ hff, runSites_clean v {} _ _ _ (allFalse_nil _)]
    simp only [h, beq_self_eq_true, if_true, Bool.not_false, Bool.true_and, hl]
    simp [ht]
  · have h0 : ((runReader v c fs).status == 0) = false := by simpa using h
    have hfail : (runReader v c fs).trace.failed.isSome = true := by
      unfold runReader at h ⊢
      rcases hr : runSites v {} 0 (readerSites v c) fs {} with ⟨ok, fs', t⟩
      rw [hr] at h
      cases ok
      · obtain ⟨s, _, hf⟩ := runSites_false_failed _ _ _ _ _ _ _ _ hr
        simp [hf]
      · simp at h
    simp [h0, hfail]

example : Spec.failStopOk (observedReader .fixed { sqfs2tar := false, op := .describe } (single 12)) = true :=
  reader_meets_spec fixed_allChecked rfl _ _

/-! ### second layer: the block processor with fallible primitives -/

open Sqfs.FailStop.BP in
/-- **Errors propagate out of the block processor**: from *every* processor state and for every fault script, if
    any primitive (block allocation, in-flight copy, pool submit, pool dequeue / worker, `write_data_block` with
    its read-back and truncate, inode growth, fragment-table and hash-table updates) fails while an API call
    (`begin_file`, `append`, `end_file`, `sync`, `finish`) runs, that call returns an error.  Holds for every
    variant in which `set_block_size`'s result for an all-zero tail is tested — /repo as it is; for the snapshot
    see `Witness.C13.sparse_tail_fault_unreported`. -/
theorem blockproc_error_propagates {v : Variant} (hv : ∀ p, BP.checked v p = true) (fuel : Nat) (a : BP.Api) (p : BP.Proc)
    (fs : List Bool) :
    (BP.runCall v fuel a p fs).1.faulted = true → (BP.runCall v fuel a p fs).1.ok = false := by
  have hs := (sound_call hv fuel a).prop { script := fs, proc := p } rfl
  unfold runCall
  rcases hc : call v fuel a { script := fs, proc := p } with ⟨r, c⟩
  rw [hc] at hs
  cases r with
  | ok u => intro h; have := hs h; simp [isErr] at this
  | error e => intro _; rfl

open Sqfs.FailStop.BP in
/-- The same for a whole session driven the way the tools drive it (stop at the first error): a call during
    which a primitive failed is an erroring call, hence the last one. -/
theorem blockproc_session_propagates {v : Variant} (hv : ∀ p, BP.checked v p = true) (fuel : Nat) (calls : List BP.Api)
    (p : BP.Proc) (fs : List Bool) :
    ∀ r ∈ BP.session v fuel calls p fs, r.faulted = true → r.ok = false := by
  induction calls generalizing p fs with
  | nil => intro r hr; simp [session] at hr
  | cons a rest ih =>
    intro r hr
    simp only [session] at hr
    have h1 := blockproc_error_propagates hv fuel a p fs
    rcases hrc : runCall v fuel a p fs with ⟨r0, fs', p'⟩
    rw [hrc] at hr h1
    simp only [] at hr h1
    split at hr
    · rcases List.mem_cons.1 hr with h | h
      · subst h; exact h1
      · exact ih p' fs' r h
    · have : r = r0 := by simpa using hr
      subst this; exact h1

/-- a four-call session `begin_file; append 5; end_file; sync` in which the fourth primitive drawn fails (the block
    allocation inside `append`): the session has two results, the second one faulted, is an error and is the last -/
example : (BP.session .current 4 [.beginFile true false false false, .append 5 false false, .endFile, .sync] {}
      [false, false, false, true]).map (fun r => (r.faulted, r.ok)) = [(false, true), (true, false)] := by decide +kernel
example : ∀ r ∈ BP.session .current 4 [.beginFile true false false false, .append 5 false false, .endFile, .sync] {}
      [false, false, false, true], r.faulted = true → r.ok = false :=
  blockproc_session_propagates BP.current_checked 4 _ {} _
/-- `blockproc_error_propagates` applied: the inode allocation of `begin_file` fails; a failing truncate in `sync` -/
example := blockproc_error_propagates BP.current_checked 4 (.beginFile true false false false) {} [true] (by decide)
example := blockproc_error_propagates BP.current_checked 4 .sync
    { backlog := 1, pool := [{ size := 0, last := true, dupBlocks := true }] } [false, false, true] (by decide)

/-! ### non-vacuity: the hypotheses above are satisfiable on non-trivial instances -/


example : (run .fixed exCfg []).status = 0 ∧ (run .current exCfg []).status = 0 := by decide
example : (run .fixed exCfg []).trace.ops.length = 14 := by decide
example : (program .fixed exCfg).length = 35 ∧ (program .current exCfg).length = 35 ∧ (program .beforeRealpath exCfg).length = 34 := by decide
example : (run .current exTar []).trace.ran.length = 37 := by decide
-- init failure: cleanup not reached
example : (run .fixed exCfg (single 7)).status ≠ 0 ∧ (run .fixed exCfg (single 7)).cleanupReached = false
    ∧ (run .fixed exCfg (single 7)).out = .unlinked := by decide
-- failure while packing: cleanup reached after `chdir`; the absolute name still hits the file
example : (run .current exCfg (single 24)).status ≠ 0 ∧ (run .current exCfg (single 24)).cleanupReached = true
    ∧ (run .current exCfg (single 24)).trace.cwd = .pack ∧ (run .current exCfg (single 24)).unlinkHit = some true := by decide
example : 25 < (program .fixed exCfg).length ∧ allFalse 25 (single 25) ∧ (single 25).getD 25 false = true := by
  refine ⟨by decide, ?_, by decide⟩
  unfold allFalse
  decide
example : (run .current { exCfg with tool := .tar2sqfs } (single 0)).out = .never := by decide
-- hypothesis of the partial theorem: absolute name, pack directory given
example : (run .beforeRealpath { exCfg with relOut := false } (single 24)).out = .unlinked := by decide
-- readers
example : (runReader .current { sqfs2tar := true, compressed := true, nentries := 3 } []).status = 0 := by decide
example : (readerSites .current { sqfs2tar := false, op := .unpack, unpackRoot := true }).length = 17 ∧
    (readerSites .fixed { sqfs2tar := false, op := .unpack, unpackRoot := true }).length = 18 := by decide
example : (runReader .current { sqfs2tar := false, op := .cat, nsplice := 3 } (single 14)).trace.failed = some (.rSplice 1) := by decide

/-- hypothesis of `blockproc_error_propagates` is satisfiable: the inode allocation of `begin_file` fails -/
example : (BP.runCall .current 4 (.beginFile true false false false) {} [true]).1.faulted = true := by decide
/-- … and with a processor that already holds a full block, the pool submit inside `append` fails -/
example : (BP.runCall .current 4 (.append 1 false false)
    { beginCalled := true, cur := some { size := 4 }, backlog := 1 } [true]).1 =
    ⟨false, some .fault, true, false, [.submit]⟩ := by decide
/-- the last block of a file whose blocks duplicate earlier ones: read-back compare and truncate are primitives
    of the call that dequeues it; a failing truncate is reported -/
example : (BP.runCall .current 4 .sync
    { backlog := 1, pool := [{ size := 0, last := true, dupBlocks := true }] } [false, false, true]).1 =
    ⟨false, some .fault, true, false, [.poolDequeue, .dedupRead, .dedupTruncate]⟩ := by decide
/-- `append` of 0 bytes without a current block: the C code dereferences NULL (frontend.c:171); the model says so -/
example : (BP.runCall .current 4 (.append 0 false false) { beginCalled := true } []).1.err = some .nullDeref := by decide

end Sqfs.C13
