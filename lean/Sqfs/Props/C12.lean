/-
C12 — results do not depend on how the OS splits reads and writes.

Property theorems only (helpers: `Sqfs/Proofs/IoLoops.lean`, `Sqfs/Proofs/IoStream.lean`).  Every theorem
quantifies over *every* OS script `os.sc : List Ev` — each system call of the loop is answered by the next
event (`part k`: a short count of `min (k+1) possible` bytes, `eintr`, `err`, `zero`); after the last event
every call completes in full, so `EINTR` occurs only finitely often by construction and `OS.full` (the empty
script) is the run in which the OS never splits a transfer.  `noHard os.sc` = the script contains only short
counts and `EINTR`s.  Statement form: `run loop script = run loop OS.full` on everything the caller can
observe, plus "success ⇒ the whole transfer happened" for *arbitrary* scripts (hard errors included).
-/
import Sqfs.Proofs.C12TarStream
namespace Sqfs.C12
open Sqfs.IoLoops Sqfs.IoLoops.Spec

/-! ### `stdio_read_at` -/

/-- For every script of short counts and `EINTR`s, `stdio_read_at` returns what the file holds in the range —
the same status and bytes as when every `pread` completes in full; it fails exactly when the range reaches
past the end of the file. -/
theorem read_at_spec (file : Bytes) (off size : Nat) (os : OS) (h : noHard os.sc = true) :
    (readAt file off size os).1 = (readAt file off size OS.full).1 ∧
    (readAt file off size os).2.1 = (readAt file off size OS.full).2.1 ∧
    (readAt file off size os).1 = (if size = 0 ∨ off + size ≤ file.length then .ok else .oob) ∧
    (readAt file off size os).2.1 = slice file off size := by
  obtain ⟨os', h1⟩ := readAtLoop_spec file _ off size [] os h (Nat.lt_succ_self _)
  obtain ⟨os'', h2⟩ := readAtLoop_spec file _ off size [] OS.full (by simp [noHard, OS.full]) (Nat.lt_succ_self _)
  simp only [readAt, h1, h2, readAtRc, slice, List.nil_append, and_self]

/-- For *every* script (hard errors and zero returns included): the loop terminates, and status 0 means that
the caller's buffer holds all `size` bytes of the range — never a silent short read. -/
theorem read_at_never_short (file : Bytes) (off size : Nat) (os : OS) :
    (readAt file off size os).1 ≠ .fuel ∧
    ((readAt file off size os).1 = .ok →
      (readAt file off size os).2.1 = slice file off size ∧ (readAt file off size os).2.1.length = size) := by
  obtain ⟨h1, h2⟩ := readAtLoop_any file _ off size [] os (Nat.lt_succ_self _)
  refine ⟨h1, fun hok => ?_⟩
  obtain ⟨h3, h4⟩ := h2 hok
  simp only [readAt, List.nil_append] at h3 ⊢
  refine ⟨h3, ?_⟩
  rw [h3]
  simp only [List.length_take, List.length_drop]
  omega

/-! ### `stdio_write_at` -/

/-- For every script of short counts and `EINTR`s, `stdio_write_at` leaves the file and the size field exactly as
one complete `pwrite` would. -/
theorem write_at_spec (file : Bytes) (sizeField off : Nat) (data : Bytes) (os : OS) (h : noHard os.sc = true) :
    (writeAt file sizeField off data os).1 = .ok ∧
    (writeAt file sizeField off data os).2.1 = writeAtFile file off data ∧
    (writeAt file sizeField off data os).2.2.1 =
      (if off + data.length ≥ sizeField then off + data.length else sizeField) ∧
    (writeAt file sizeField off data os).2.1 = (writeAt file sizeField off data OS.full).2.1 ∧
    (writeAt file sizeField off data os).2.2.1 = (writeAt file sizeField off data OS.full).2.2.1 := by
  obtain ⟨os', h1⟩ := writeAtLoop_spec _ file off data os h (Nat.lt_succ_self _)
  obtain ⟨os'', h2⟩ := writeAtLoop_spec _ file off data OS.full (by simp [noHard, OS.full]) (Nat.lt_succ_self _)
  simp only [writeAt, h1, h2, and_self]

/-- For *every* script: the loop terminates, and status 0 means all of `data` is in the file at `off` and the
size field covers it. -/
theorem write_at_never_short (file : Bytes) (sizeField off : Nat) (data : Bytes) (os : OS) :
    (writeAt file sizeField off data os).1 ≠ .fuel ∧
    ((writeAt file sizeField off data os).1 = .ok →
      (writeAt file sizeField off data os).2.1 = writeAtFile file off data ∧
      (writeAt file sizeField off data os).2.2.1 ≥ off + data.length) := by
  obtain ⟨h1, h2⟩ := writeAtLoop_any _ file off data os (Nat.lt_succ_self _)
  unfold writeAt
  generalize writeAtLoop (os.sc.length + data.length + 1) file off data os = r at *
  obtain ⟨e, f', off', os'⟩ := r
  cases e with
  | ok =>
    obtain ⟨h3, h4⟩ := h2 rfl
    simp only at h3 h4
    subst h3; subst h4
    refine ⟨by simp, fun _ => ⟨rfl, ?_⟩⟩
    simp only
    split <;> omega
  | io => simp
  | oob => simp
  | compressor => simp
  | fuel => simp at h1
  | corrupted => simp
  | nullDeref => simp

/-! ### the file ostream: `write_all`, `realize_sparse`, `file_append`, `file_flush` -/

/-- For every script of short counts and `EINTR`s and every sequence of `append` / hole / `flush` calls, from
every state of the stream: no call fails; the complete state of the stream and of the file behind it
(`out`, `size`, `sparse_count`, descriptor position) is the one the closed form `stepRes` gives — a function of
the calls alone, so it is the state of the run in which every `write` completes in full; the bytes in the file
followed by the zeros up to the descriptor position and the pending hole (`logical`) are the concatenation of
everything appended — whether holes are realised by zero-writes (`SQFS_FILE_OPEN_NO_SPARSE`) or by
`lseek`+`ftruncate`; and when no `ftruncate` has failed before (`skew = 0`: every stream that has not seen a
hard error), after a final `flush` the file itself holds them. -/
theorem write_all_spec : ∀ (ops : List OOp) (st : OStream) (idx : Nat) (os : OS), noHard os.sc = true →
    ∃ os', runOOps idx st ops os = ((.ok, idx + ops.length), ops.foldl stepRes st, os') ∧ noHard os'.sc = true ∧
      (∃ osf, runOOps idx st ops OS.full = ((.ok, idx + ops.length), ops.foldl stepRes st, osf)) ∧
      logical (ops.foldl stepRes st) = logical st ++ (ops.map oopBytes).flatten ∧
      (ops.foldl stepRes st).noSparse = st.noSparse ∧
      (st.skew = 0 → (ops.foldl stepRes st).skew = 0) ∧
      (st.skew = 0 → ops.getLast? = some .flush →
        (ops.foldl stepRes st).out = logical st ++ (ops.map oopBytes).flatten) := by
  intro ops
  induction ops with
  | nil => intro st idx os hn; exact ⟨os, rfl, hn, ⟨_, rfl⟩, by simp, rfl, fun h => h, by simp⟩
  | cons op ops ih =>
    intro st idx os hn
    obtain ⟨os1, h1, hn1⟩ := ostreamStep_det st op os hn
    obtain ⟨osf, h1f, hnf⟩ := ostreamStep_det st op OS.full (by simp [noHard, OS.full])
    obtain ⟨f1, f2, f3, f4⟩ := stepRes_facts st op
    obtain ⟨os2, h2, hn2, _, hl2, hns2, hk2, hflush⟩ := ih (stepRes st op) (idx + 1) os1 hn1
    obtain ⟨osf2, h2f, _, _⟩ := ih (stepRes st op) (idx + 1) osf hnf
    have hidx : idx + 1 + ops.length = idx + (ops.length + 1) := by omega
    refine ⟨os2, ?_, hn2, ?_, ?_, by rw [List.foldl_cons, hns2, f2], fun h => hk2 (f3 h), ?_⟩
    · simp only [runOOps, h1, h2, List.length_cons, List.foldl_cons, hidx]
    · exact ⟨osf2, by simp only [runOOps, h1f, h2f, List.length_cons, List.foldl_cons, hidx]⟩
    · rw [List.foldl_cons, hl2, f1]; simp
    · intro hk hlast
      rw [List.foldl_cons]
      cases ops with
      | nil =>
        simp only [List.getLast?_singleton, Option.some.injEq] at hlast
        have hout := (f4 hlast).2 hk
        subst hlast
        simp only [List.foldl_nil, hout, List.map_cons, List.map_nil, List.flatten_cons,
          List.flatten_nil, oopBytes, List.append_nil]
      | cons op2 ops2 =>
        have : (op2 :: ops2).getLast? = some OOp.flush := by simpa using hlast
        rw [hflush (f3 hk) this, f1]; simp

/-- For *every* script (hard errors and zero returns included): no call runs out of fuel, and if no call reports
an error then the stream and the file are in exactly the state of the unperturbed run (`stepRes`), so everything
appended is in the file / the pending hole — a short `write` is never silently accepted. -/
theorem write_all_never_short : ∀ (ops : List OOp) (st : OStream) (idx : Nat) (os : OS),
    (runOOps idx st ops os).1.1 ≠ .fuel ∧
    ((runOOps idx st ops os).1.1 = .ok →
      (runOOps idx st ops os).2.1 = ops.foldl stepRes st ∧
      logical (runOOps idx st ops os).2.1 = logical st ++ (ops.map oopBytes).flatten) := by
  intro ops
  induction ops with
  | nil => intro st idx os; simp [runOOps]
  | cons op ops ih =>
    intro st idx os
    obtain ⟨h1, _, h3⟩ := ostreamStep_any st op os
    unfold runOOps
    generalize ostreamStep st op os = r at *
    obtain ⟨e, st1, os1⟩ := r
    cases e with
    | ok =>
      simp only []
      have hst : st1 = stepRes st op := h3 rfl
      obtain ⟨h4, h5⟩ := ih st1 (idx + 1) os1
      refine ⟨h4, fun hok => ?_⟩
      obtain ⟨h6, h7⟩ := h5 hok
      refine ⟨by rw [h6, hst, List.foldl_cons], ?_⟩
      rw [h7, hst, (stepRes_facts st op).1]; simp
    | io => simp
    | oob => simp
    | compressor => simp
    | corrupted => simp
    | fuel => simp at h1
    | nullDeref => simp

/-! ### the buffered file istream and its clients -/

/-- **`istream_bytes`.** For every buffer size `B > 0`, every file content, every client history (any mix of
`get_buffered_data(want)` with any `want`, `advance_buffer(count)` with any `count`, `sqfs_istream_read`, `skip`,
`splice`, `istream_get_line`, `record_to_memory`) and every OS script of short counts and `EINTR`s: what the
client observes — every status and every window `get_buffered_data` exposes, byte for byte — is what the *ideal
window stream* over the file content shows (`Spec.Ideal`: `pos` bytes consumed, the next `avail` bytes of the
file visible; no buffer, no OS).  The bytes delivered are therefore the file's bytes in order, whatever the
chunking. -/
theorem istream_bytes (B : Nat) (hB : 0 < B) (data : Bytes) (ops : List Op) (o : OStream) (ln : Nat) (os : OS)
    (h : noHard os.sc = true) :
    (runOps (fileStream B) ⟨IStream.init data, o, ln⟩ ops os).1 =
      (runOps (idealStream B data) ⟨⟨0, 0⟩, o, ln⟩ ops OS.full).1 ∧
    (runOps (fileStream B) ⟨IStream.init data, o, ln⟩ ops os).2.1.o =
      (runOps (idealStream B data) ⟨⟨0, 0⟩, o, ln⟩ ops OS.full).2.1.o ∧
    (runOps (fileStream B) ⟨IStream.init data, o, ln⟩ ops os).2.1.ln =
      (runOps (idealStream B data) ⟨⟨0, 0⟩, o, ln⟩ ops OS.full).2.1.ln := by
  obtain ⟨h1, _, h2, h3⟩ := runOps_sim (file_sim B hB data) ops ⟨IStream.init data, o, ln⟩ ⟨⟨0, 0⟩, o, ln⟩ os OS.full
    ⟨rel_init B data, rfl, rfl⟩ h (by simp [noHard, OS.full])
  exact ⟨h1, h2, h3⟩

/-- The statement in the form "run under the script = run when every call completes in full": observations, the
spliced output and the line counter of any client history are the same. -/
theorem client_history_script_independent (B : Nat) (hB : 0 < B) (data : Bytes) (ops : List Op) (o : OStream)
    (ln : Nat) (os : OS) (h : noHard os.sc = true) :
    (runOps (fileStream B) ⟨IStream.init data, o, ln⟩ ops os).1 =
      (runOps (fileStream B) ⟨IStream.init data, o, ln⟩ ops OS.full).1 ∧
    (runOps (fileStream B) ⟨IStream.init data, o, ln⟩ ops os).2.1.o =
      (runOps (fileStream B) ⟨IStream.init data, o, ln⟩ ops OS.full).2.1.o ∧
    (runOps (fileStream B) ⟨IStream.init data, o, ln⟩ ops os).2.1.ln =
      (runOps (fileStream B) ⟨IStream.init data, o, ln⟩ ops OS.full).2.1.ln := by
  obtain ⟨a1, a2, a3⟩ := istream_bytes B hB data ops o ln os h
  obtain ⟨b1, b2, b3⟩ := istream_bytes B hB data ops o ln OS.full (by simp [noHard, OS.full])
  exact ⟨a1.trans b1.symm, a2.trans b2.symm, a3.trans b3.symm⟩

/-- **`read_skip_splice_spec`.** From any stream state `s` that represents position `t.pos` of the file
(`Rel`, `Iv`: every state a client can reach), for every script of short counts and `EINTR`s, every buffer size:
`sqfs_istream_read` returns exactly the next `min size 0x7FFFFFFF` bytes of the file (fewer only at its end),
`sqfs_istream_skip` succeeds **iff** at least `size` bytes are left and otherwise fails with
`SQFS_ERROR_OUT_OF_BOUNDS` having consumed everything (`skipRc`: a function of the sizes alone, not of the script),
and `sqfs_istream_splice` reports the count of bytes that were left and has appended exactly those bytes to the
output stream; **and afterwards** the stream again represents a position of
the file — the old one plus the number of bytes consumed — so the next client call starts from a state that
depends on the script in nothing a client can observe. -/
theorem read_skip_splice_spec (B : Nat) (hB : 0 < B) (data : Bytes) (s : IStream) (t : Ideal) (hr : Rel B data s t)
    (hi : Iv data t) (o : OStream) (ho : o.sparse = 0) (hk : o.skew = 0) (size : Nat) (os : OS)
    (h : noHard os.sc = true) :
    (istreamRead (fileStream B) s size os).1 = .n (slice data t.pos (min size 0x7FFFFFFF)) ∧
    (istreamSkip (fileStream B) s size os).1 = (if size ≤ data.length - t.pos then .ok else .oob) ∧
    (istreamSplice (fileStream B) s o size os).1 = (.ok, min (min size 0x7FFFFFFF) (data.length - t.pos)) ∧
    (istreamSplice (fileStream B) s o size os).2.2.1.out = o.out ++ slice data t.pos (min size 0x7FFFFFFF) ∧
    (∃ t', Rel B data (istreamRead (fileStream B) s size os).2.1 t' ∧ Iv data t' ∧
      t'.pos = t.pos + min (min size 0x7FFFFFFF) (data.length - t.pos)) ∧
    (∃ t', Rel B data (istreamSkip (fileStream B) s size os).2.1 t' ∧ Iv data t' ∧
      t'.pos = t.pos + min size (data.length - t.pos)) ∧
    (∃ t', Rel B data (istreamSplice (fileStream B) s o size os).2.1 t' ∧ Iv data t' ∧
      t'.pos = t.pos + min (min size 0x7FFFFFFF) (data.length - t.pos)) := by
  have hf : noHard OS.full.sc = true := by simp [noHard, OS.full]
  have hsz : (if size > 0x7FFFFFFF then 0x7FFFFFFF else size) = min size 0x7FFFFFFF := by
    split <;> omega
  obtain ⟨s1, _, h1, r1, _⟩ := istreamReadLoop_sim (file_sim B hB data)
    (min size 0x7FFFFFFF + 1) s t (min size 0x7FFFFFFF) [] os OS.full hr h hf
  obtain ⟨t1, c1, p1, i1⟩ := idealRead_closed B hB data (min size 0x7FFFFFFF + 1) t (min size 0x7FFFFFFF) [] OS.full hi
    (Nat.lt_succ_self _)
  obtain ⟨s2, _, h2, r2, _⟩ := istreamSkipLoop_sim (file_sim B hB data) (size + 1) s t size os OS.full hr h hf
  obtain ⟨t2, c2, p2, i2⟩ := idealSkip_closed B hB data (size + 1) t size OS.full hi (Nat.lt_succ_self _)
  obtain ⟨s3, _, h3, r3, _⟩ := istreamSpliceLoop_sim (file_sim B hB data)
    (min size 0x7FFFFFFF + 1) s t o (min size 0x7FFFFFFF) 0 os OS.full hr h hf
  obtain ⟨t3, o', _, c3, co, _, p3, i3, _⟩ := idealSplice_closed B hB data (min size 0x7FFFFFFF + 1) t o (min size 0x7FFFFFFF) 0 OS.full hi
    (Nat.lt_succ_self _) ho hk hf
  rw [c1] at h1 r1
  rw [c2] at h2 r2
  rw [c3] at h3 r3
  simp only [istreamRead, istreamSkip, istreamSplice, hsz, h1, h2, h3, List.nil_append, Nat.zero_add, co, true_and, skipRc]
  exact ⟨⟨t1, r1, i1, p1⟩, ⟨t2, r2, i2, p2⟩, ⟨t3, r3, i3, p3⟩⟩

/-- **`get_line_chunking_independent`.** From any reachable stream state, with any pending partial line `acc` and
any flags, for every script of short counts and `EINTR`s and **every buffer size**: `istream_get_line` returns
the line that the byte-at-a-time scanner `Spec.nextLineAux` finds in the bytes that are left (split at '\n',
one '\r' dropped, trimmed per the flags, empty lines counted and skipped with `SKIP_EMPTY`, an unterminated last
line returned, then end-of-file) and the same line counter, **and leaves the stream at the position behind
what the scanner consumed**.  Neither `B` nor the script occurs on the right-hand side: the lines are the same
for every chunking. -/
theorem get_line_chunking_independent (B : Nat) (hB : 0 < B) (data : Bytes) (s : IStream) (t : Ideal)
    (hr : Rel B data s t) (hi : Iv data t) (flags : Nat) (acc : Bytes) (ln : Nat) (os : OS) (h : noHard os.sc = true) :
    (getLineLoop (fileStream B) flags ((fileStream B).bound s + 2) s acc ln os).1 =
      lineRetOf (nextLineAux flags acc (data.drop t.pos) ln).1 ∧
    (getLineLoop (fileStream B) flags ((fileStream B).bound s + 2) s acc ln os).2.2.1 =
      (nextLineAux flags acc (data.drop t.pos) ln).2.2 ∧
    (∃ t', Rel B data (getLineLoop (fileStream B) flags ((fileStream B).bound s + 2) s acc ln os).2.1 t' ∧
      Iv data t' ∧ data.drop t'.pos = (nextLineAux flags acc (data.drop t.pos) ln).2.1) := by
  have hb := (file_sim B hB data).bound s t hr
  obtain ⟨s1, _, h1, r1, _⟩ := getLineLoop_sim (file_sim B hB data) flags ((fileStream B).bound s + 2) s t acc ln os OS.full hr h
    (by simp [noHard, OS.full])
  obtain ⟨t1, c1, d1, i1⟩ := idealGetLine_closed B hB data flags ((fileStream B).bound s + 2) t acc ln OS.full hi
    (by rw [hb]; simp [idealStream])
  rw [c1] at h1 r1
  simp only [h1, true_and]
  exact ⟨t1, r1, i1, d1⟩

/-- **`record_to_memory_spec`.** For every script of short counts and `EINTR`s and every buffer size,
`record_to_memory(size)` returns exactly the next `size` bytes of the file, or NULL when fewer are left, when the
padding to the next multiple of 512 is cut short (`sqfs_istream_skip` then fails), or when `size` exceeds what
`sqfs_istream_read` transfers in one call; **and it leaves the stream behind the record and its padding**
(`recordEnd`; as far as the data reaches). -/
theorem record_to_memory_spec (B : Nat) (hB : 0 < B) (data : Bytes) (s : IStream) (t : Ideal) (hr : Rel B data s t)
    (hi : Iv data t) (size : Nat) (os : OS) (h : noHard os.sc = true) :
    (recordToMemory (fileStream B) s size os).1 =
      (if t.pos + size ≤ data.length ∧ size ≤ 0x7FFFFFFF ∧
          (size % 512 = 0 ∨ t.pos + size + (512 - size % 512) ≤ data.length)
        then some (slice data t.pos size) else none) ∧
    (∃ t', Rel B data (recordToMemory (fileStream B) s size os).2.1 t' ∧ Iv data t' ∧
      t'.pos = recordEnd data.length t.pos size) := by
  obtain ⟨s1, _, h1, r1, _⟩ := recordToMemory_sim (file_sim B hB data) s t size os OS.full hr h (by simp [noHard, OS.full])
  obtain ⟨c1, _, i1, p1⟩ := idealRecord_closed B hB data t size OS.full hi
  simp only [h1, c1, true_and]
  exact ⟨_, r1, i1, p1⟩

/-! ### the transforming streams of lib/xfrm (for every codec) -/

/-- **`xfrm_istream_chunking_independent`.** A decompressing istream (`lib/xfrm/src/istream.c`: `precache` loop
feeding an arbitrary incremental codec `C` from the wrapped stream's windows) on top of the file istream: for
every codec, every buffer sizes, every client history and every script of short counts and `EINTR`s, the client
observes exactly what it observes when the wrapped stream is the ideal window stream and the OS never splits a
call.  No assumption on the codec is needed: the OS reaches it only through the wrapped stream's windows, and
those are the same (`istream_bytes`). -/
theorem xfrm_istream_chunking_independent {κ : Type} (C : Codec κ) (k0 : κ) (BX limit B : Nat) (hB : 0 < B)
    (data : Bytes) (ops : List Op) (o : OStream) (ln : Nat) (os : OS) (h : noHard os.sc = true) :
    (runOps (xfrmStream (fileStream B) C BX limit) ⟨⟨IStream.init data, k0, 0, []⟩, o, ln⟩ ops os).1 =
      (runOps (xfrmStream (idealStream B data) C BX limit) ⟨⟨⟨0, 0⟩, k0, 0, []⟩, o, ln⟩ ops OS.full).1 ∧
    (runOps (xfrmStream (fileStream B) C BX limit) ⟨⟨IStream.init data, k0, 0, []⟩, o, ln⟩ ops os).1 =
      (runOps (xfrmStream (fileStream B) C BX limit) ⟨⟨IStream.init data, k0, 0, []⟩, o, ln⟩ ops OS.full).1 := by
  have hf : noHard OS.full.sc = true := by simp [noHard, OS.full]
  have hsim := xfrm_sim (file_sim B hB data) C BX limit
  have hrc : RC (XRel (Rel B data)) (⟨⟨IStream.init data, k0, 0, []⟩, o, ln⟩ : Client (XStream IStream κ))
      ⟨⟨⟨0, 0⟩, k0, 0, []⟩, o, ln⟩ := ⟨⟨rel_init B data, rfl, rfl, rfl⟩, rfl, rfl⟩
  obtain ⟨h1, _⟩ := runOps_sim hsim ops _ _ os OS.full hrc h hf
  obtain ⟨h2, _⟩ := runOps_sim hsim ops _ _ OS.full OS.full hrc hf hf
  exact ⟨h1, h1.trans h2.symm⟩

/-- **`xfrm_ostream_script_independent`.** A compressing ostream (`lib/xfrm/src/ostream.c`: `xfrm_append`,
`flush_inbuf`, `xfrm_flush` around an arbitrary codec) on top of the file ostream: for every codec and every
sequence of append / hole / flush calls, the status, the failing index, the codec state, the pending input and
the bytes in the output file are the same under every script of short counts and `EINTR`s as when every `write`
completes in full. -/
theorem xfrm_ostream_script_independent {κ : Type} (C : Codec κ) (BX limit : Nat) (ops : List OOp) (x : XOStream κ)
    (os : OS) (h : noHard os.sc = true) :
    (xRunOOps C BX limit 0 x ops os).1 = (xRunOOps C BX limit 0 x ops OS.full).1 ∧
    (xRunOOps C BX limit 0 x ops os).2.1 = (xRunOOps C BX limit 0 x ops OS.full).2.1 :=
  xRunOOps_indep C BX limit ops 0 x os OS.full h (by simp [noHard, OS.full])

/-! ### the member stream of the tar iterator (lib/tar/src/iterator.c) -/

/-- **`tar_member_stream_chunking_independent`.** The stream tar2sqfs reads the content of an archive member
through (`tar_istream_t`: it calls `get_buffered_data`/`advance_buffer` of the archive stream directly, clamps the
window to the current data region, synthesises the holes of a GNU sparse member, keeps `record_size`/`offset`
of the iterator up to date) on top of the file istream: from every pair of related states (same iterator fields,
archive stream at the same position of the file), for every member geometry and sparse map, every buffer size,
every client history and every script of short counts and `EINTR`s, the client observes exactly what it observes
over the ideal window stream when the OS never splits a call; the spliced output and the line counter are the
same, and the two iterators stay related (same `record_size`, `offset`, `state`, …; archive streams at the same
position). -/
theorem tar_member_stream_chunking_independent (B : Nat) (hB : 0 < B) (data : Bytes) (x : TarStrm IStream)
    (y : TarStrm Ideal) (hr : TRel (Rel B data) x y) (ops : List Op) (o : OStream) (ln : Nat) (os : OS)
    (h : noHard os.sc = true) :
    (runOps (tarStream (fileStream B)) ⟨x, o, ln⟩ ops os).1 =
      (runOps (tarStream (idealStream B data)) ⟨y, o, ln⟩ ops OS.full).1 ∧
    (runOps (tarStream (fileStream B)) ⟨x, o, ln⟩ ops os).1 =
      (runOps (tarStream (fileStream B)) ⟨x, o, ln⟩ ops OS.full).1 ∧
    RC (TRel (Rel B data)) (runOps (tarStream (fileStream B)) ⟨x, o, ln⟩ ops os).2.1
      (runOps (tarStream (idealStream B data)) ⟨y, o, ln⟩ ops OS.full).2.1 := by
  have hf : noHard OS.full.sc = true := by simp [noHard, OS.full]
  have hsim := tar_sim (file_sim B hB data)
  obtain ⟨h1, h2⟩ := runOps_sim hsim ops ⟨x, o, ln⟩ ⟨y, o, ln⟩ os OS.full ⟨hr, rfl, rfl⟩ h hf
  obtain ⟨h3, _⟩ := runOps_sim hsim ops ⟨x, o, ln⟩ ⟨y, o, ln⟩ OS.full OS.full ⟨hr, rfl, rfl⟩ hf hf
  exact ⟨h1, h1.trans h3.symm, h2⟩

/-- **`tar_member_run_chunking_independent`.** One archive member the way tar2sqfs drives the iterator, from the
first byte of the input: `tar_open_stream`'s probe, `it_next` (reads the header block), `open_file_ro`, any client
history on the member stream, dropping the stream, `it_next` (skips what is left of the record and the padding,
reads the next header block / recognises the end of the archive).  For every input, member geometry, buffer
size and script of short counts and `EINTR`s: both `it_next` results, every observation of the client, its
output and the iterator's bookkeeping are those of the run over the ideal stream, and of the run in which every
`read` completes in full. -/
theorem tar_member_run_chunking_independent (B : Nat) (hB : 0 < B) (data : Bytes) (g : MemberGeom) (o : OStream)
    (ops : List Op) (os : OS) (h : noHard os.sc = true) :
    (tarMemberRun (fileStream B) (IStream.init data) g o ops os).1 =
      (tarMemberRun (idealStream B data) ⟨0, 0⟩ g o ops OS.full).1 ∧
    (tarMemberRun (fileStream B) (IStream.init data) g o ops os).2.1 =
      (tarMemberRun (idealStream B data) ⟨0, 0⟩ g o ops OS.full).2.1 ∧
    (tarMemberRun (fileStream B) (IStream.init data) g o ops os).2.2.1 =
      (tarMemberRun (idealStream B data) ⟨0, 0⟩ g o ops OS.full).2.2.1 ∧
    TItRel (Rel B data) (tarMemberRun (fileStream B) (IStream.init data) g o ops os).2.2.2.1
      (tarMemberRun (idealStream B data) ⟨0, 0⟩ g o ops OS.full).2.2.2.1 ∧
    (tarMemberRun (fileStream B) (IStream.init data) g o ops os).2.2.2.2.1 =
      (tarMemberRun (idealStream B data) ⟨0, 0⟩ g o ops OS.full).2.2.2.2.1 ∧
    (tarMemberRun (fileStream B) (IStream.init data) g o ops os).1 =
      (tarMemberRun (fileStream B) (IStream.init data) g o ops OS.full).1 ∧
    (tarMemberRun (fileStream B) (IStream.init data) g o ops os).2.1 =
      (tarMemberRun (fileStream B) (IStream.init data) g o ops OS.full).2.1 ∧
    (tarMemberRun (fileStream B) (IStream.init data) g o ops os).2.2.1 =
      (tarMemberRun (fileStream B) (IStream.init data) g o ops OS.full).2.2.1 ∧
    (tarMemberRun (fileStream B) (IStream.init data) g o ops os).2.2.2.2.1 =
      (tarMemberRun (fileStream B) (IStream.init data) g o ops OS.full).2.2.2.2.1 := by
  have hf : noHard OS.full.sc = true := by simp [noHard, OS.full]
  obtain ⟨a1, a2, a3, a4, a5⟩ := tarMemberRun_sim (file_sim B hB data) (IStream.init data) ⟨0, 0⟩ g o ops os OS.full
    (rel_init B data) h hf
  obtain ⟨b1, b2, b3, _, b5⟩ := tarMemberRun_sim (file_sim B hB data) (IStream.init data) ⟨0, 0⟩ g o ops OS.full OS.full
    (rel_init B data) hf hf
  exact ⟨a1, a2, a3, a4, a5, a1.trans b1.symm, a2.trans b2.symm, a3.trans b3.symm, a5.trans b5.symm⟩

/-- **`tar_member_run_decompressed_chunking_independent`.** The same member run when the archive is compressed,
the way `tar_open_stream` sets it up (iterator.c:420-449): the probe is made on the raw input, the iterator then reads
through a fresh decompressing stream around it and `tar->compressed` is set, so that `it_next`, when `read_header`
meets the end of the archive, first reads the rest of the stream to its end (`drain_compressed_stream`) and
reports an error it meets there (damaged or truncated compressed input) instead of the end of the archive.
For **every** codec, codec state, buffer sizes, input, member geometry, client history and script of short counts
and `EINTR`s: both `it_next` results — **including the error the drain reports** —, every observation of the client,
its output, and the iterator's whole bookkeeping (sticky `state`, `record_size`, `offset`, `compressed`, …; codec
state, buffer and read offset of the decompressing stream) are those of the run in which every `read` completes in
full; the raw input streams of the two runs stand at the same position of the file (both are related to the same
ideal window stream, first conjunct group). -/
theorem tar_member_run_decompressed_chunking_independent {κ : Type} (C : Codec κ) (k0 : κ) (BX limit B : Nat)
    (hB : 0 < B) (data : Bytes) (g : MemberGeom) (o : OStream) (ops : List Op) (os : OS) (h : noHard os.sc = true) :
    -- against the run over the ideal window stream (no buffer, no OS)
    ((tarMemberRunZ (fileStream B) C k0 BX limit (IStream.init data) g o ops os).1 =
      (tarMemberRunZ (idealStream B data) C k0 BX limit ⟨0, 0⟩ g o ops OS.full).1 ∧
    (tarMemberRunZ (fileStream B) C k0 BX limit (IStream.init data) g o ops os).2.1 =
      (tarMemberRunZ (idealStream B data) C k0 BX limit ⟨0, 0⟩ g o ops OS.full).2.1 ∧
    (tarMemberRunZ (fileStream B) C k0 BX limit (IStream.init data) g o ops os).2.2.1 =
      (tarMemberRunZ (idealStream B data) C k0 BX limit ⟨0, 0⟩ g o ops OS.full).2.2.1 ∧
    TItRel (XRel (Rel B data)) (tarMemberRunZ (fileStream B) C k0 BX limit (IStream.init data) g o ops os).2.2.2.1
      (tarMemberRunZ (idealStream B data) C k0 BX limit ⟨0, 0⟩ g o ops OS.full).2.2.2.1 ∧
    (tarMemberRunZ (fileStream B) C k0 BX limit (IStream.init data) g o ops os).2.2.2.2.1 =
      (tarMemberRunZ (idealStream B data) C k0 BX limit ⟨0, 0⟩ g o ops OS.full).2.2.2.2.1) ∧
    -- against the unperturbed run
    (tarMemberRunZ (fileStream B) C k0 BX limit (IStream.init data) g o ops os).1 =
      (tarMemberRunZ (fileStream B) C k0 BX limit (IStream.init data) g o ops OS.full).1 ∧
    (tarMemberRunZ (fileStream B) C k0 BX limit (IStream.init data) g o ops os).2.1 =
      (tarMemberRunZ (fileStream B) C k0 BX limit (IStream.init data) g o ops OS.full).2.1 ∧
    (tarMemberRunZ (fileStream B) C k0 BX limit (IStream.init data) g o ops os).2.2.1 =
      (tarMemberRunZ (fileStream B) C k0 BX limit (IStream.init data) g o ops OS.full).2.2.1 ∧
    (tarMemberRunZ (fileStream B) C k0 BX limit (IStream.init data) g o ops os).2.2.2.2.1 =
      (tarMemberRunZ (fileStream B) C k0 BX limit (IStream.init data) g o ops OS.full).2.2.2.2.1 ∧
    -- the sticky state of the iterator (what every later `it_next` returns), its bookkeeping and the `compressed` flag
    (tarMemberRunZ (fileStream B) C k0 BX limit (IStream.init data) g o ops os).2.2.2.1.state =
      (tarMemberRunZ (fileStream B) C k0 BX limit (IStream.init data) g o ops OS.full).2.2.2.1.state ∧
    (tarMemberRunZ (fileStream B) C k0 BX limit (IStream.init data) g o ops os).2.2.2.1.recordSize =
      (tarMemberRunZ (fileStream B) C k0 BX limit (IStream.init data) g o ops OS.full).2.2.2.1.recordSize ∧
    (tarMemberRunZ (fileStream B) C k0 BX limit (IStream.init data) g o ops os).2.2.2.1.compressed =
      (tarMemberRunZ (fileStream B) C k0 BX limit (IStream.init data) g o ops OS.full).2.2.2.1.compressed := by
  have hf : noHard OS.full.sc = true := by simp [noHard, OS.full]
  have hsim := file_sim B hB data
  obtain ⟨a1, a2, a3, a4, a5⟩ := tarMemberRunZ_sim hsim C k0 BX limit _ _ g o ops os OS.full (rel_init B data) h hf
  obtain ⟨b1, b2, b3, b4, b5⟩ := tarMemberRunZ_sim hsim C k0 BX limit _ _ g o ops OS.full OS.full (rel_init B data) hf hf
  refine ⟨⟨a1, a2, a3, a4, a5⟩, a1.trans b1.symm, a2.trans b2.symm, a3.trans b3.symm, a5.trans b5.symm, ?_, ?_, ?_⟩
  · exact a4.2.1.trans b4.2.1.symm
  · exact a4.2.2.2.1.trans b4.2.2.2.1.symm
  · exact a4.2.2.2.2.2.2.2.2.2.trans b4.2.2.2.2.2.2.2.2.2.symm

/-- **`drain_compressed_stream_chunking_independent`.** `it_next` on an iterator whose input is compressed
(`tar->compressed`), from every pair of related states (any codec state, any buffer content of the decompressing
stream, raw input at the same position of the file): the result — end of archive, the error of a skip, of
`read_header`, or **of the drain of the rest of the compressed stream** — and the iterator afterwards are the same
under every script of short counts and `EINTR`s as over the ideal stream when the OS never splits a call. -/
theorem drain_compressed_stream_chunking_independent {κ : Type} (C : Codec κ) (BX limit B : Nat) (hB : 0 < B)
    (data : Bytes) (a : TarIt (XStream IStream κ)) (b : TarIt (XStream Ideal κ))
    (hr : TItRel (XRel (Rel B data)) a b) (os : OS) (h : noHard os.sc = true) :
    (tarNext (xfrmStream (fileStream B) C BX limit) a os).1 =
      (tarNext (xfrmStream (idealStream B data) C BX limit) b OS.full).1 ∧
    TItRel (XRel (Rel B data)) (tarNext (xfrmStream (fileStream B) C BX limit) a os).2.1
      (tarNext (xfrmStream (idealStream B data) C BX limit) b OS.full).2.1 ∧
    (tarNext (xfrmStream (fileStream B) C BX limit) a os).1 =
      (tarNext (xfrmStream (fileStream B) C BX limit) a OS.full).1 := by
  have hf : noHard OS.full.sc = true := by simp [noHard, OS.full]
  have hsim := xfrm_sim (file_sim B hB data) C BX limit
  obtain ⟨a1, os1, e1, r1, _, _⟩ := tarNext_sim hsim a b os OS.full hr h hf
  obtain ⟨a2, os2, e2, _, _, _⟩ := tarNext_sim hsim a b OS.full OS.full hr hf hf
  rw [e1, e2]
  exact ⟨rfl, r1, rfl⟩

/-! ### non-vacuity: concrete scripts with short counts, `EINTR` bursts and hard errors -/

-- 5 bytes at offset 2 in three pieces with EINTRs in between
example : (readAt [0,1,2,3,4,5,6,7,8] 2 5 ⟨[.part 0, .eintr, .part 1, .eintr, .eintr], []⟩).1 = .ok ∧
    (readAt [0,1,2,3,4,5,6,7,8] 2 5 ⟨[.part 0, .eintr, .part 1, .eintr, .eintr], []⟩).2.1 = [2,3,4,5,6] ∧
    (readAt [0,1,2,3,4,5,6,7,8] 2 5 ⟨[.part 0, .eintr, .part 1, .eintr, .eintr], []⟩).2.2.log.length = 6 := by decide
-- range past the end: OUT_OF_BOUNDS after the bytes that exist
example : (readAt [0,1,2,3,4] 2 5 OS.full).1 = .oob := by decide
-- a hard error is reported, not swallowed
example : (readAt [0,1,2,3,4] 2 3 ⟨[.part 0, .err], []⟩).1 = .io := by decide
-- write beyond the end zero-fills the gap
example : (writeAt [0,1,2,3,4] 5 7 [170,187,204] ⟨[.part 0, .eintr], []⟩).2.1 = [0,1,2,3,4,0,0,170,187,204] := by decide
-- a write that writes nothing is an error
example : (writeAt [0,1,2,3,4] 5 1 [170,187,204] ⟨[.part 0, .zero], []⟩).1 = .oob := by decide
-- sparse and non-sparse ostream produce the same file
example : (runOOps 0 (OStream.init false) [.data [1,2], .hole 5, .data [3], .flush] ⟨[.part 0, .eintr], []⟩).2.1.out =
    (runOOps 0 (OStream.init true) [.data [1,2], .hole 5, .data [3], .flush] ⟨[.part 0, .eintr, .part 2], []⟩).2.1.out := by decide
example : noHard [.part 0, .eintr, .part 1, .eintr, .eintr] = true := by decide
-- "ab\ncd\r\n\ne" through a 4-byte buffer fed one or two bytes at a time, with EINTRs: window, read, three lines, EOF
example : (runOps (fileStream 4) ⟨IStream.init [97,98,10,99,100,13,10,10,101], OStream.init false, 0⟩
    [.get 0, .adv 1, .get 3, .read 2, .line 7, .line 7, .line 7] ⟨[.part 0, .eintr, .part 0, .part 1], []⟩).1 =
    [.get .ok [97,98,10,99], .adv, .get .ok [98,10,99], .read (.n [98,10]), .line (.line [99,100]) 0,
     .line (.line [101]) 1, .line .eof 1] := by decide
-- the initial state is related to the ideal stream, so the `Rel` hypotheses above are satisfiable
example : Rel 4 [1,2,3] (IStream.init [1,2,3]) ⟨0, 0⟩ ∧ Iv [1,2,3] ⟨0, 0⟩ := ⟨rel_init 4 [1,2,3], by simp [Iv]⟩
-- the scanner on " ab \r\n\n x" with LTRIM|RTRIM|SKIP_EMPTY: "ab", then "x" (one empty line counted), then end
example : nextLine 7 [32,97,98,32,13,10,10,32,120] 0 = (some [97,98], [10,32,120], 0) ∧
    nextLine 7 [10,32,120] 0 = (some [120], [], 1) ∧ nextLine 7 [] 1 = (none, [], 1) := by decide
-- a sparse member (real size 9, data regions [2,5) and [7,9), record of 5 bytes + 3 unrelated bytes behind it) read
-- through a 4-byte buffer fed one byte at a time with EINTRs: holes are zeros, the data regions are the record's bytes,
-- then end-of-data; afterwards the iterator has no record bytes left
example : (runOps (tarStream (fileStream 4))
      ⟨tarOpen ⟨IStream.init [11,12,13,14,15,99,98,97], .ok, false, 5, 9, 0, 3, [⟨2,3⟩,⟨7,2⟩], false, false⟩, OStream.init false, 0⟩
      [.read 4, .get 100, .read 100, .get 1] ⟨[.part 0, .eintr, .part 0, .eintr, .eintr, .part 0], []⟩).1 =
    [.read (.n [0,0,11,12]), .get .ok [13], .read (.n [13,0,0,14,15]), .get .eof []] := by decide
example : ((runOps (tarStream (fileStream 4))
      ⟨tarOpen ⟨IStream.init [11,12,13,14,15,99,98,97], .ok, false, 5, 9, 0, 3, [⟨2,3⟩,⟨7,2⟩], false, false⟩, OStream.init false, 0⟩
      [.read 4, .get 100, .read 100, .get 1] ⟨[.part 0, .eintr, .part 0], []⟩).2.1.s.it.recordSize,
    (runOps (tarStream (fileStream 4))
      ⟨tarOpen ⟨IStream.init [11,12,13,14,15,99,98,97], .ok, false, 5, 9, 0, 3, [⟨2,3⟩,⟨7,2⟩], false, false⟩, OStream.init false, 0⟩
      [.read 4, .get 100, .read 100, .get 1] ⟨[.part 0, .eintr, .part 0], []⟩).2.1.s.alive) = (0, false) := by decide
-- the `TRel` hypothesis of `tar_member_stream_chunking_independent` is satisfiable
example : TRel (Rel 4 [1,2,3]) (tarOpen ((TarIt.init (IStream.init [1,2,3])).setMember ⟨3, 3, []⟩))
    (tarOpen ((TarIt.init (⟨0, 0⟩ : Ideal)).setMember ⟨3, 3, []⟩)) :=
  ⟨⟨rel_init 4 [1,2,3], rfl, rfl, rfl, rfl, rfl, rfl, rfl, rfl, rfl⟩, rfl, rfl, rfl⟩
-- a record that ends early is reported as corrupted, not as a short member
example : (runOps (tarStream (fileStream 4)) ⟨tarOpen ⟨IStream.init [1,2], .ok, false, 5, 5, 0, 3, [], false, false⟩, OStream.init false, 0⟩
      [.read 5] ⟨[.part 0], []⟩).1 = [.read (.fail .corrupted)] := by decide
-- after a failed `ftruncate` the descriptor stays ahead of the end of the file and the hole stays pending (unix.c:73-84)
example : (runOOpsAll (OStream.init false) [.data [1], .hole 3, .flush, .flush] ⟨[.part 0, .err], []⟩).1 = [.ok, .ok, .io, .ok] ∧
    (runOOpsAll (OStream.init false) [.data [1], .hole 3, .flush, .flush] ⟨[.part 0, .err], []⟩).2.1.out = [1,0,0,0,0,0,0] := by decide
-- skipping past the end of the input is an error (stream_api.c:56-60), whatever the chunking; skipping exactly to it is not
example : (runOps (fileStream 4) ⟨IStream.init [1,2,3,4,5,6], OStream.init false, 0⟩ [.skip 6, .skip 1]
      ⟨[.part 0, .eintr, .part 1], []⟩).1 = [.skip .ok, .skip .oob] ∧
    (runOps (fileStream 4) ⟨IStream.init [1,2,3,4,5,6], OStream.init false, 0⟩ [.skip 7] ⟨[.part 0, .eintr], []⟩).1 = [.skip .oob] := by
  decide

-- the drain reports what it meets: 1024 zero bytes (the end-of-archive marker) and one more byte through `chunkCodec`
-- (passes at most 512 bytes per call, rejects input that starts with 0xFF), file fed 600 bytes at a time with an EINTR:
-- a clean rest gives "end of archive" (1), a damaged rest the decompressor's error; without the flag the damage goes unseen
set_option maxRecDepth 20000 in
example : (tarNext (xfrmStream (fileStream 2048) chunkCodec 1024 50)
      { TarIt.init (⟨IStream.init (List.replicate 1024 0 ++ [255]), (), 0, []⟩ : XStream IStream Unit) with compressed := true }
      ⟨[.part 599, .eintr], []⟩).1 = .state (.err .compressor) ∧
    (tarNext (xfrmStream (fileStream 2048) chunkCodec 1024 50)
      { TarIt.init (⟨IStream.init (List.replicate 1024 0 ++ [7]), (), 0, []⟩ : XStream IStream Unit) with compressed := true }
      ⟨[.part 599, .eintr], []⟩).1 = .state .eof ∧
    (tarNext (xfrmStream (fileStream 2048) chunkCodec 1024 50)
      (TarIt.init (⟨IStream.init (List.replicate 1024 0 ++ [255]), (), 0, []⟩ : XStream IStream Unit))
      ⟨[.part 599, .eintr], []⟩).1 = .state .eof := by decide
-- the `TItRel` hypothesis of `drain_compressed_stream_chunking_independent` is satisfiable
example : TItRel (XRel (Rel 4 [1,2,3]))
    { TarIt.init (⟨IStream.init [1,2,3], 0, 0, []⟩ : XStream IStream Nat) with compressed := true }
    { TarIt.init (⟨⟨0, 0⟩, 0, 0, []⟩ : XStream Ideal Nat) with compressed := true } :=
  ⟨⟨rel_init 4 [1,2,3], rfl, rfl, rfl⟩, rfl, rfl, rfl, rfl, rfl, rfl, rfl, rfl, rfl⟩

end Sqfs.C12
