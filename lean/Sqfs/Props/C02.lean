/-
C02 — determinism: the data area, the fragment table and every file inode do not depend on the number of worker
threads, on `max_backlog`, or on how the worker threads are scheduled; they equal what the serial pool with an
immediate drain computes.  (The environment clause: see `times_depend_only_on_source_date_epoch` below and
tools/checks/c02.py.)

Model: `Sqfs/Model/BlockProc.lean` (main-thread state machine of `lib/sqfs/src/block_processor/*.c` over an abstract
pool, block writer of `Model/BlockWriter.lean`), reference: `Sqfs/Spec/BlockProcSpec.lean` (`packRef`: no pool, no
backlog, no queue), pool: `Sqfs/Model/Pool.lean` + `Sqfs/Props/C09.lean`.

Hypotheses of the block-processor theorems, all of them about parameters:
  * `0 < P.B < 2^24` — the block size fits the 24-bit size field of a block word (the tools allow 4 KiB … 1 MiB);
  * `CodecOk P.codec` — the block codec's contract (what it compressed it uncompresses; a compressed block is shorter);
    without the round trip the *implementation* is schedule dependent: a fragment is compared against the
    in-flight copy of a fragment block or against the block re-read from disk, depending on the timing;
  * the checksum `P.h` is arbitrary; the files carry arbitrary flag words and contents of any size;
  * **the worker function is pure**: `P.codec.cmp : Bytes → Option Bytes` is a *function of the block*.  In the C code it is
    `do_block` of a compressor object (one `sqfs_copy` per worker thread) that lives as long as the processor; if its result
    depended on what the object compressed before, the image would depend on which worker got which block, i.e. on the
    schedule (`stateful_worker_schedule_dependent`).  The hypothesis is stated as `StatefulCodec.HistoryIndependent`
    (Sqfs/Model/C02Worker.lean); under it a pool whose workers carry state is the pure pool (`stateful_pool_is_pure`), and
    the block processor run on such a pool (`runS`, Sqfs/Model/BlockProcWorkers.lean: the item with ticket `t` is worked by a
    compressor copy in an arbitrary state) computes the reference's result (`schedule_independent_stateful`).  For zlib / liblzma / liblz4 / libzstd it is part of the trusted base and is observed
    on every run by harness/h_c02_comp.c (monitor `obsIndependent`).
-/
import Sqfs.Proofs.BPFinal
import Sqfs.Proofs.BPSpecPack
import Sqfs.Proofs.C02Worker
import Sqfs.Proofs.BlockProcWorkers
import Sqfs.Proofs.BPFailRun
import Sqfs.Proofs.BPSPCor
import Sqfs.Props.C17
import Sqfs.Proofs.C02Env
import Sqfs.Witness.C02
import Sqfs.Props.C09
import Sqfs.Model.BuildEnv
namespace Sqfs.C02
open Sqfs.BlockProc Sqfs.BuildEnv

/-- the parameters with the serial pool's behaviour (`threadpool_serial.c`) -/
def serial (P : Params) : Params := { P with ans := serialAns }

/-- the queue-free, backlog-free reference of `Sqfs/Spec/BlockProcSpec.lean` -/
abbrev runEager := packRef

/-! ### the instance the examples are about -/

/-- a codec that compresses exactly one block (`7 7 7 7 ↦ 7 4`) -/
def exCodec : Codec :=
  { cmp := fun x => if x = [7, 7, 7, 7] then some [7, 4] else none
    unc := fun z => if z = [7, 4] then some [7, 7, 7, 7] else some z }

theorem exCodec_ok : CodecOk exCodec := by
  constructor
  · intro x z h
    simp only [exCodec] at h ⊢
    split at h
    · simp only [Option.some.injEq] at h; subst h; rename_i hx; simp [hx]
    · cases h
  · intro x z h
    simp only [exCodec] at h
    split at h
    · simp only [Option.some.injEq] at h; subst h; rename_i hx; simp [hx]
    · cases h

def exP : Params := { B := 4, codec := exCodec, h := fun d => d.foldl (fun a b => a * 31 + b.toUInt32) 7 }

/-- six files, block size 4: multi-block files, a compressible file, a short file, a file with a hole, the first file
again with `DONT_DEDUPLICATE` (flag 8) and once more without -/
def exFiles : List InFile :=
  [⟨0, [1, 2, 3, 4, 5, 6, 7, 8, 9, 10]⟩, ⟨0, [7, 7, 7, 7, 7, 7, 7, 7, 1]⟩, ⟨0, [11, 12, 13]⟩, ⟨0, [0, 0, 0, 0, 9, 10]⟩,
   ⟨8, [1, 2, 3, 4, 5, 6, 7, 8, 9, 10]⟩, ⟨0, [1, 2, 3, 4, 5, 6, 7, 8, 9, 10]⟩]

/-- the side conditions of the theorems on the instance -/
theorem exP_side : 0 < exP.B ∧ exP.B < 2 ^ 24 ∧ (∀ f ∈ exFiles, f.flags &&& Consts.blkUserSettable = f.flags) ∧
    exP.byteCompare = true ∧ ∀ x z, exP.codec.cmp x = some z → 0 < z.length := by
  refine ⟨by decide, by decide, by decide, rfl, ?_⟩
  intro x z h
  simp only [exP, exCodec] at h
  split at h
  · simp only [Option.some.injEq] at h; subst h; decide
  · cases h

/-! ### backlog -/

/-- **`run_eq_spec`.**  For every `max_backlog` the block processor computes what the reference computes: the same
`write_data_block` calls in the same order, the same output file, fragment table and inodes — and the same error
(`SQFS_ERROR_UNSUPPORTED` from `begin_file`) when a file carries flags that are not user settable. -/
theorem run_eq_spec (P : Params) (hc : CodecOk P.codec) (hB0 : 0 < P.B) (hB : P.B < 2 ^ 24) (mb : Nat) (files : List InFile) :
    run (serial P) mb files = runEager (serial P) files :=
  run_eq_packRef (P := serial P) rfl hc hB0 hB mb files

/-- **`run_sync_eq_spec`.**  The same when the caller drains the processor (`sqfs_block_processor_sync`) while every
file is still open, before `end_file` — the packers never do, a library user may; this is where the third early exit
of `dequeue_block` (`backlog == 2`, open fragment block and open data block) is reached.  With `max_backlog` 3 and a
`sync` after every `append` each item is worked, taken back and written at once: the serial pool with an immediate
drain, run on the implementation model itself. -/
theorem run_sync_eq_spec (P : Params) (hc : CodecOk P.codec) (hB0 : 0 < P.B) (hB : P.B < 2 ^ 24) (mb : Nat) (files : List InFile) :
    run (serial P) mb files (sy := true) = runEager (serial P) files :=
  run_eq_packRef (P := serial P) rfl hc hB0 hB mb files true

/-- **`backlog_independent`.**  Two values of `max_backlog` (`-Q`) give the same result … -/
theorem backlog_independent (P : Params) (hc : CodecOk P.codec) (hB0 : 0 < P.B) (hB : P.B < 2 ^ 24) (mb₁ mb₂ : Nat)
    (files : List InFile) : run (serial P) mb₁ files = run (serial P) mb₂ files := by
  rw [run_eq_spec P hc hB0 hB, run_eq_spec P hc hB0 hB]

/-- … and it is not an error when every file carries user-settable flags only. -/
theorem run_ok (P : Params) (hc : CodecOk P.codec) (hB0 : 0 < P.B) (hB : P.B < 2 ^ 24) (mb : Nat) (files : List InFile)
    (hfl : ∀ f ∈ files, f.flags &&& Consts.blkUserSettable = f.flags) : ∃ out, run (serial P) mb files = .ok out := by
  rcases run_final (P := serial P) rfl hc hB0 hB mb files with ⟨s, hr, _⟩ | ⟨e, _, _, _, f, hf, hbad⟩
  · exact ⟨s.w.output, by unfold run; rw [hr]⟩
  · exact absurd (hfl f hf) hbad

/-- **`dequeue_never_internal_error`.**  The `SQFS_ERROR_INTERNAL` return of `dequeue_block` (the pool is empty although
the backlog did not shrink) is unreachable, no loop of the model runs out of fuel, the block writer never fails and no
fragment lookup ends in `SQFS_ERROR_CORRUPTED`: the only error a run can end in is `begin_file`'s refusal of a flag
word that is not user settable. -/
theorem dequeue_never_internal_error (P : Params) (hc : CodecOk P.codec) (hB0 : 0 < P.B) (hB : P.B < 2 ^ 24) (mb : Nat)
    (files : List InFile) (e : Err) (h : run (serial P) mb files = .error e) :
    e = .unsupported ∧ ∃ f ∈ files, ¬ f.flags &&& Consts.blkUserSettable = f.flags := by
  rcases run_final (P := serial P) rfl hc hB0 hB mb files with ⟨s, hr, _⟩ | ⟨e', hr, _, he, hbad⟩
  · unfold run at h; rw [hr] at h; cases h
  · unfold run at h; rw [hr] at h
    simp only [Except.error.injEq] at h
    subst h; exact ⟨he, hbad⟩

/-- **`finish_writes_everything`.**  After `finish`: `io_queue` is empty, nothing is left inside the pool, the backlog is
0, every numbered block has been written (`io_deq_seq_num = io_seq_num`) and no fragment block is open. -/
theorem finish_writes_everything (P : Params) (hc : CodecOk P.codec) (hB0 : 0 < P.B) (hB : P.B < 2 ^ 24) (mb : Nat)
    (files : List InFile) (s : Proc) (h : runProc (serial P) mb files = .ok s) :
    s.ioQueue = [] ∧ s.pool.ser.queue = [] ∧ s.backlog = 0 ∧ s.ioDeqSeqNum = s.ioSeqNum ∧ s.fragBlock = none := by
  rcases run_final (P := serial P) rfl hc hB0 hB mb files with ⟨s', hr, hf⟩ | ⟨e', hr, _⟩
  · rw [hr] at h
    simp only [Except.ok.injEq] at h
    subst h
    exact ⟨hf.ioQueue, hf.pool, hf.backlog, hf.deq, hf.fragBlock⟩
  · rw [hr] at h; cases h

/-- **`healthy_run_status_zero`** (the bridge to the code before 69db961).  `sqfs_block_processor_sync` ends with
`return proc->pool->get_status(proc->pool)`.  On a run in which no callback fails that call answers 0 every time it is
made (`Sqfs.BlockProc.PInv.status`: under the invariant the pool status is 0 and the call changes nothing but the pool's call
history; `sync_eq_drain`: `sync` = the drain + a status call that answers 0) — that is why `run_eq_spec`,
`schedule_independent`, … hold for the current `sync` exactly as they did for the drain alone.  Stated on the final state:
the status is 0, and asking once more answers 0. -/
theorem healthy_run_status_zero (P : Params) (hc : CodecOk P.codec) (hB0 : 0 < P.B) (hB : P.B < 2 ^ 24) (mb : Nat)
    (files : List InFile) (s : Proc) (h : runProc (serial P) mb files = .ok s) :
    s.pool.ser.status = 0 ∧ (poolStatus (serial P) s.pool).2 = 0 := by
  rcases run_final (P := serial P) rfl hc hB0 hB mb files with ⟨s', hr, hf⟩ | ⟨e', hr, _⟩
  · rw [hr] at h
    simp only [Except.ok.injEq] at h
    subst h
    refine ⟨hf.status, ?_⟩
    simp only [poolStatus, serial, serialAns, Pool.Serial.call, hf.status]
    simp
  · rw [hr] at h; cases h

/-- `healthy_run_status_zero` applied to the example instance (non-vacuity: the run succeeds) -/
example : ∃ s, runProc (serial exP) 3 exFiles = .ok s ∧ s.pool.ser.status = 0 ∧ (poolStatus (serial exP) s.pool).2 = 0 := by
  cases h : runProc (serial exP) 3 exFiles with
  | error e =>
    have : (runProc (serial exP) 3 exFiles).toOption.isSome = true := by decide +kernel
    rw [h] at this; cases this
  | ok s => exact ⟨s, rfl, healthy_run_status_zero exP exCodec_ok exP_side.1 exP_side.2.1 3 exFiles s h⟩

/-! ### `specPack` (DESIGN.md Appendix B, `Spec/PackSpec.lean`: the specification C17's directive theorems and the
read-back theorem are stated against)

`run_eq_spec` reduces "the implementation model computes `specPack`" to `packRef = specPack`, a statement about two pure
functions; it is proved in `Proofs/BPSP*.lean` (`Sqfs.BlockProc.packRef_eq_specPack`: closed form of the front end; the
writer pass against `Pack.placeBlocks` through C08's `Abs` / `dedup_explicit`; the fragment pass against `Pack.placeTail` —
`insertRef` replaces an equal key, `specPack` conses in front, every lookup answers the same; per-inode folds of the update
lists).  The two do not have the same type, so the equality is stated on the observables they share, `PackView` = the whole
output file, the fragment table, the inode fields of every file as the tools serialise them:

  * `Output.view` forgets `calls`, the log of `write_data_block` calls (it contains the size-0 sentinel blocks and the
    sparse blocks, which leave no trace in the layout);
  * `specView` forgets `shared` (a ghost field of `FileResult`) and the block boundaries of `Out.blocks` (the data area is
    the concatenation of the payloads) and encodes words / fragment references as the C values.

Hypotheses on top of `run_eq_spec`'s: `hpos` (a successful `do_block` returns a positive size — part of `Pack.Codec.Ok`),
user-settable flag words (otherwise `begin_file` refuses), and `byteCompare` (`file` and `uncmp` given to the processor, as
`lib/common/src/writer/init.c` does): without the byte comparison the implementation deduplicates a fragment against a
different one with the same size, checksum and `DONT_COMPRESS` flag, which `specPack` does not (counterexample in
`Proofs/BPSPFinal.lean`). -/

/-- **`run_eq_specPack`.**  For every `max_backlog` the implementation model on the serial pool produces the `specPack`
layout: same output file, same fragment table, same inode fields of every file. -/
theorem run_eq_specPack (P : Params) (hc : CodecOk P.codec) (hpos : ∀ x z, P.codec.cmp x = some z → 0 < z.length)
    (hbc : P.byteCompare = true) (hB0 : 0 < P.B) (hB : P.B < 2 ^ 24) (mb : Nat) (files : List InFile)
    (hfl : ∀ f ∈ files, f.flags &&& Consts.blkUserSettable = f.flags) :
    ∃ out, run (serial P) mb files = .ok out ∧
      out.view = specView P.pre (Sqfs.Pack.specPack (toPackParams P) (toPackFiles files)) :=
  Sqfs.BlockProc.run_eq_specPack (serial P) rfl hc hpos hbc hB0 hB mb files hfl false

/-- **`run_eq_specPack_partial`.**  `process_block` on a non-empty data block is `specPack`'s `workData`: the block is a
hole (nothing stored, `sparse += size`), or it is stored raw / compressed with the checksum `workData` says. -/
theorem run_eq_specPack_partial (P : Params) (hpos : ∀ x z, P.codec.cmp x = some z → 0 < z.length) (b : Blk)
    (hne : b.data ≠ []) (hnf : Sqfs.BlockWriter.hasFlag b.flags Consts.blkIsFragment = false)
    (hnb : Sqfs.BlockWriter.hasFlag b.flags Consts.blkFragmentBlock = false) :
    match Sqfs.Pack.workData (toPackParams P) (Sqfs.Pack.Flags.ofNat b.flags) b.data with
    | .sparse n => Sqfs.BlockWriter.hasFlag (processBlock P b).flags Consts.blkIsSparse = true ∧ n = b.data.length ∧
        (processBlock P b).data = b.data
    | .stored s => (processBlock P b).flags = (if s.raw then b.flags else b.flags ||| Consts.blkIsCompressed) ∧
        (processBlock P b).data = s.data ∧ (processBlock P b).chk = s.cksum :=
  worker_eq_workData P hpos b hne hnf hnb

/-! ### schedules and worker counts: composition with C09 -/

/-- **what the composition with C09 rests on**, stated without any packaging: in every state the model of `threadpool.c`
can reach — `n` workers, any schedule, spurious wake-ups, no failing callback — in which the main thread is between two API
calls (or has returned from `destroy`), the value its last call returned is the value `threadpool_serial.c` returns for the
same call history.  All the schedule-independence content of the threaded theorems below is this fact, i.e.
`Sqfs.C09.refines_serial`. -/
theorem pool_last_answer_is_serial {cfg : Pool.Cfg} {n : Nat} {s : Pool.State} (hok : ∀ d, cfg.rcOf d = 0)
    (hr : Pool.Reachable cfg n s) (hidle : s.main = .idle ∨ s.main = .finished) :
    (s.rets.getLast?).getD .destroyed = serialAnsHist s.calls := by
  have href := Sqfs.C09.refines_serial hok hr hidle
  have hrc : cfg.rcOf = rc0 := funext hok
  unfold serialAnsHist
  rw [href, hrc]

/-- `beh` (the value the pool returns for the last call of a call history) is a behaviour of the **threaded** pool with
`n` workers: for every call history, either some execution of `threadpool.c`'s model — any schedule of the `n` workers
and the main thread, spurious wake-ups included, no failing callback — made exactly these calls and returned
`beh calls` last; or `beh` answers what `threadpool_serial.c` answers (histories the block processor never produces,
e.g. calls after `destroy`).

`RealisedBy` is a **packaging device**, not a source of generality: by `pool_last_answer_is_serial` both disjuncts force
`beh calls` to be the serial pool's answer, so on every non-empty history a realised behaviour *is* `serialAnsHist`
(`realised_unique`) — "for every `beh` with `RealisedBy n beh`" ranges over one function.  `n`, the schedule and the
wake-ups enter through the executions the first disjunct quantifies over; what makes them irrelevant is C09's theorem. -/
def RealisedBy (n : Nat) (beh : List Pool.Op → Pool.Ret) : Prop :=
  ∀ calls, (∃ (cfg : Pool.Cfg) (s : Pool.State), (∀ d, cfg.rcOf d = 0) ∧ Pool.Reachable cfg n s ∧
              (s.main = .idle ∨ s.main = .finished) ∧ s.calls = calls ∧ s.rets.getLast? = some (beh calls)) ∨
           beh calls = serialAnsHist calls

/-- what `Sqfs.C09.refines_serial` says about such a behaviour -/
theorem realised_eq_serial (n : Nat) (beh : List Pool.Op → Pool.Ret) (h : RealisedBy n beh) :
    behAns beh = serialAns := by
  funext p op
  have hser : serialAns p op = serialAnsHist (p.calls ++ [op]) := by
    unfold serialAns serialAnsHist
    rw [Pool.Serial.run_append, ← p.tracks]
    rfl
  rw [hser]
  unfold behAns
  rcases h (p.calls ++ [op]) with ⟨cfg, s, hok, hr, hidle, hcalls, hlast⟩ | hs
  · have href := Sqfs.C09.refines_serial hok hr hidle
    have hrc : cfg.rcOf = rc0 := funext hok
    unfold serialAnsHist
    rw [← hcalls, ← hrc, ← href, hlast, hcalls]
    rfl
  · exact hs

/-- … so a realised behaviour is the serial pool's on every non-empty call history: the quantifier over `beh` in the
theorems below ranges over exactly this function -/
theorem realised_unique (n : Nat) (beh : List Pool.Op → Pool.Ret) (h : RealisedBy n beh) (calls : List Pool.Op) (op : Pool.Op) :
    beh (calls ++ [op]) = serialAnsHist (calls ++ [op]) := by
  have h2 := congrFun (congrFun (realised_eq_serial n beh h) ⟨calls, [], _, rfl⟩) op
  simp only [behAns] at h2
  rw [h2]
  unfold serialAns serialAnsHist
  rw [Pool.Serial.run_append]
  rfl

/-- **`schedule_independent`.**  Run the block processor on top of *any* behaviour of the threaded pool — any number
of workers, any schedule, with spurious wake-ups — as long as no callback fails: the result is the serial pool's,
hence (`run_eq_spec`) the reference's, for every `max_backlog`. -/
theorem schedule_independent (P : Params) (hc : CodecOk P.codec) (hB0 : 0 < P.B) (hB : P.B < 2 ^ 24) (n : Nat)
    (beh : List Pool.Op → Pool.Ret) (h : RealisedBy n beh) (mb : Nat) (files : List InFile) :
    run { P with ans := behAns beh } mb files = run (serial P) mb files ∧
    run { P with ans := behAns beh } mb files = runEager (serial P) files := by
  have : ({ P with ans := behAns beh } : Params) = serial P := by
    unfold serial; rw [realised_eq_serial n beh h]
  rw [this]
  exact ⟨rfl, run_eq_spec P hc hB0 hB mb files⟩

/-- **`jobs_independent`.**  `-j n₁ -Q mb₁` under one schedule and `-j n₂ -Q mb₂` under another give the same result. -/
theorem jobs_independent (P : Params) (hc : CodecOk P.codec) (hB0 : 0 < P.B) (hB : P.B < 2 ^ 24) (n₁ n₂ : Nat)
    (beh₁ beh₂ : List Pool.Op → Pool.Ret) (h₁ : RealisedBy n₁ beh₁) (h₂ : RealisedBy n₂ beh₂) (mb₁ mb₂ : Nat)
    (files : List InFile) :
    run { P with ans := behAns beh₁ } mb₁ files = run { P with ans := behAns beh₂ } mb₂ files := by
  rw [(schedule_independent P hc hB0 hB n₁ beh₁ h₁ mb₁ files).2, (schedule_independent P hc hB0 hB n₂ beh₂ h₂ mb₂ files).2]



/-! ### the threaded block processor computes `specPack`: carry-over of C17's and C08's theorems -/

/-- **`threaded_eq_specPack`.**  … and so does the block processor on top of *any* behaviour of the threaded pool: any
number of workers, any schedule, any backlog. -/
theorem threaded_eq_specPack (P : Params) (hc : CodecOk P.codec) (hpos : ∀ x z, P.codec.cmp x = some z → 0 < z.length)
    (hbc : P.byteCompare = true) (hB0 : 0 < P.B) (hB : P.B < 2 ^ 24) (n : Nat) (beh : List Pool.Op → Pool.Ret)
    (h : RealisedBy n beh) (mb : Nat) (files : List InFile)
    (hfl : ∀ f ∈ files, f.flags &&& Consts.blkUserSettable = f.flags) :
    ∃ out, run { P with ans := behAns beh } mb files = .ok out ∧
      out.view = specView P.pre (Sqfs.Pack.specPack (toPackParams P) (toPackFiles files)) := by
  have : ({ P with ans := behAns beh } : Params) = serial P := by
    unfold serial; rw [realised_eq_serial n beh h]
  rw [this]
  exact run_eq_specPack P hc hpos hbc hB0 hB mb files hfl

/-- **`threaded_readback`** (carry-over of C08 / C17's read-back theorem `Sqfs.C17.directives_preserve_content`).  Whatever
the number of workers, the schedule and the backlog: the image the threaded block processor writes is the `specView` of the
`specPack` layout `o`, the inode it produces for file `i` is the view of `o`'s result `r`, and reading file `i` back from
that layout — block words in order, a hole as zeros, a stored block through `unc` unless raw, the tail end from its
fragment block — yields exactly the file's input bytes. -/
theorem threaded_readback (P : Params) (hc : CodecOk P.codec) (hpos : ∀ x z, P.codec.cmp x = some z → 0 < z.length)
    (hbc : P.byteCompare = true) (hB0 : 0 < P.B) (hB : P.B < 2 ^ 24) (n : Nat) (beh : List Pool.Op → Pool.Ret)
    (h : RealisedBy n beh) (mb : Nat) (files : List InFile)
    (hfl : ∀ f ∈ files, f.flags &&& Consts.blkUserSettable = f.flags) (i : Nat) (hi : i < files.length) :
    let o := Sqfs.Pack.specPack (toPackParams P) (toPackFiles files)
    ∃ out r, run { P with ans := behAns beh } mb files = .ok out ∧ out.view = specView P.pre o ∧
      o.files[i]? = some r ∧ out.files[i]? = some (resView r) ∧
      Sqfs.Pack.readFile (toPackParams P) o r = files[i].data := by
  intro o
  obtain ⟨out, hrun, hview⟩ := threaded_eq_specPack P hc hpos hbc hB0 hB n beh h mb files hfl
  have hi' : i < (toPackFiles files).length := by simpa [toPackFiles] using hi
  obtain ⟨r, hr, hread⟩ := Sqfs.C17.directives_preserve_content (toPackParams P) hB0 (toPack_codec_ok P hc hpos)
    (toPackFiles files) i hi'
  refine ⟨out, r, hrun, hview, hr, ?_, ?_⟩
  · have hf : out.files = o.files.map resView := congrArg PackView.files hview
    rw [hf, List.getElem?_map, hr]; rfl
  · rw [hread]; simp [toPackFiles]

/-- **`threaded_directives`** (carry-over of C17's directive theorems).  Whatever the number of workers, the schedule and
the backlog, the image the threaded block processor writes is the view of a layout `o` in which every packing directive
has exactly its effect: `dont_compress` (block words raw or holes, the fragment block of the tail stored raw),
`dont_fragment` (no fragment reference, `⌈size / B⌉` block words), `nosparse` (no hole, sparse counter 0, not extended, the
tail gets a fragment reference), `dont_deduplicate` (own blocks behind every earlier file's, own fragment slot), and the
layout follows the order of the file list. -/
theorem threaded_directives (P : Params) (hc : CodecOk P.codec) (hpos : ∀ x z, P.codec.cmp x = some z → 0 < z.length)
    (hbc : P.byteCompare = true) (hB0 : 0 < P.B) (hB : P.B < 2 ^ 24) (n : Nat) (beh : List Pool.Op → Pool.Ret)
    (h : RealisedBy n beh) (mb : Nat) (files : List InFile)
    (hfl : ∀ f ∈ files, f.flags &&& Consts.blkUserSettable = f.flags) :
    let Q := toPackParams P
    let F := toPackFiles files
    let o := Sqfs.Pack.specPack Q F
    ∃ out, run { P with ans := behAns beh } mb files = .ok out ∧ out.view = specView P.pre o ∧
      (∀ i (hi : i < F.length), F[i].flags.dontCompress = true →
        ∃ r, o.files[i]? = some r ∧ (∀ w ∈ r.words, w = .sparse ∨ ∃ k, w = .stored k true) ∧
          (∀ k off, r.frag = some (k, off) → ∃ e, o.frags[k]? = some e ∧ e.raw = true)) ∧
      (∀ i (hi : i < F.length), F[i].flags.dontFragment = true →
        ∃ r, o.files[i]? = some r ∧ r.frag = none ∧
          r.words.length = F[i].data.length / Q.B + (if F[i].data.length % Q.B > 0 then 1 else 0)) ∧
      (∀ i (hi : i < F.length), F[i].flags.ignoreSparse = true →
        ∃ r, o.files[i]? = some r ∧ (∀ w ∈ r.words, w ≠ .sparse) ∧ r.sparse = 0 ∧ r.extended = false ∧
          (Sqfs.Pack.hasTailFrag Q.B F[i] = true → ∃ idx off, r.frag = some (idx, off))) ∧
      (∀ i j (hij : i < j) (hj : j < F.length), F[j].flags.dontDedup = true →
        ∃ ri rj, o.files[i]? = some ri ∧ o.files[j]? = some rj ∧ rj.shared = false ∧
          (Sqfs.Pack.diskBytes rj.words > 0 → ri.start + Sqfs.Pack.diskBytes ri.words ≤ rj.start) ∧
          (∀ a off b off', ri.frag = some (a, off) → rj.frag = some (b, off') →
            a ≠ b ∨ off + (F[i]'(by omega)).data.length % Q.B ≤ off')) ∧
      (∀ i j (hij : i < j) (hj : j < F.length),
        ∃ ri rj, o.files[i]? = some ri ∧ o.files[j]? = some rj ∧
          (rj.shared = false → (∃ k raw, Sqfs.Pack.Word.stored k raw ∈ rj.words) →
            ri.start + Sqfs.Pack.diskBytes ri.words ≤ rj.start ∧
            ((∃ k raw, Sqfs.Pack.Word.stored k raw ∈ ri.words) → ri.start < rj.start))) := by
  intro Q F o
  obtain ⟨out, hrun, hview⟩ := threaded_eq_specPack P hc hpos hbc hB0 hB n beh h mb files hfl
  have hcQ := toPack_codec_ok P hc hpos
  exact ⟨out, hrun, hview,
    fun i hi hf => Sqfs.C17.dont_compress_effect Q F i hi hf,
    fun i hi hf => Sqfs.C17.dont_fragment_effect Q F i hi hf,
    fun i hi hf => Sqfs.C17.nosparse_effect Q F i hi hf,
    fun i j hij hj hf => Sqfs.C17.dont_dedup_effect Q F i j hij hj hf,
    fun i j hij hj => Sqfs.C17.layout_follows_order Q hB0 hcQ F i j hij hj⟩

/-- **`script_schedule_independent`.**  The same for every *API script* — files, `sqfs_block_processor_submit_block`
(manual submission) and `sqfs_block_processor_sync` calls in any order (`ApiOp`, Sqfs/Model/BlockProcFail.lean) — and for
both variants of `sync`: over any behaviour of the threaded pool without failing callbacks the script computes what it
computes over the serial pool.  (Independence of `max_backlog` for scripts with manual submissions is exercised by the
check, not proved: the invariant of `Proofs/BP*.lean` covers the blocks the front end submits.) -/
theorem script_schedule_independent (v : Variant) (P : Params) (n : Nat) (beh : List Pool.Op → Pool.Ret)
    (h : RealisedBy n beh) (mb : Nat) (ops : List ApiOp) :
    runOps v { P with ans := behAns beh } mb ops = runOps v (serial P) mb ops := by
  have : ({ P with ans := behAns beh } : Params) = serial P := by
    unfold serial; rw [realised_eq_serial n beh h]
  rw [this]

/-! ### per-worker compressor state: the purity of the worker function as an explicit hypothesis -/

/-- **`stateful_pool_is_pure`.**  Workers that carry private compressor state (`StatefulCodec σ`: every worker owns a copy,
`do_block` may change it), *any* assignment `asg` of submitted items to workers (the schedule's choice) and any initial
states: if `do_block` is history independent, the worked items the pool hands back are `processBlock` with the pure codec
applied to each item — exactly what `Model/BlockProc.lean` stores in the pool's table. -/
theorem stateful_pool_is_pure {σ : Type} (P : Params) (c : StatefulCodec σ) (hi : c.HistoryIndependent) (asg : Nat → Nat)
    (st : Nat → σ) (id : Nat) (items : List Blk) :
    workItems P c asg st id items = items.map (processBlock { P with codec := c.pure }) :=
  workItems_pure P c hi asg items st id

/-- a history-independent compressor **with real state**: the object counts its `do_block` calls (as a `z_stream` keeps
`total_in`), the result does not look at the counter; its pure form is `exCodec` -/
def cntCodec : StatefulCodec Nat :=
  { init := 0
    doBlock := fun s x => (s + 1, if x = [7, 7, 7, 7] then some [7, 4] else none)
    unc := fun z => if z = [7, 4] then some [7, 7, 7, 7] else some z }

/-- the joint instance of the contract hypotheses: `cntCodec` is history independent, its state does change, and its pure
form meets `CodecOk` -/
example : cntCodec.HistoryIndependent ∧ (cntCodec.doBlock 0 [1]).1 ≠ cntCodec.init ∧ CodecOk cntCodec.pure :=
  ⟨fun _ _ => rfl, by decide, exCodec_ok⟩

/-- instance of `stateful_pool_is_pure` (hypothesis discharged, non-trivial state): two workers taking tickets alternately,
both starting with a counter of 5 -/
example : workItems exP cntCodec (fun t => t % 2) (fun _ => 5) 0
      [{ flags := Consts.blkFirstBlock, data := [7, 7, 7, 7], inode := some 0, index := 0 },
       { flags := Consts.blkLastBlock, data := [6, 7], inode := some 0, index := 1 }] =
    [{ flags := Consts.blkFirstBlock, data := [7, 7, 7, 7], inode := some 0, index := 0 },
     { flags := Consts.blkLastBlock, data := [6, 7], inode := some 0, index := 1 }].map
      (processBlock { exP with codec := cntCodec.pure }) :=
  stateful_pool_is_pure exP cntCodec (fun _ _ => rfl) (fun t => t % 2) (fun _ => 5) 0 _

/-- **`schedule_independent_stateful`.**  `schedule_independent` for the block processor **run on a pool whose workers carry
compressor state** (`runS`, Model/BlockProcWorkers.lean: the main-thread state machine of Model/BlockProc.lean with `submit`
storing the item as worked by a copy of the compressor object `c` in state `κ t`, `t` the item's ticket).  `κ` is arbitrary:
it stands for the number of workers, the assignment of blocks to workers, the initial states and everything a copy
compressed before — whichever copy takes a ticket, in whatever state.  If `do_block` is history independent (and the pure
form meets the codec contract), then over any behaviour of the threaded pool, for every backlog, the run is the
reference's.  (`hi` is what the proof uses: without it the statement is false, `stateful_worker_schedule_dependent`.  That
`runS` is the machine of Model/BlockProc.lean when the state is ignored is `Sqfs.BlockProc.runK_const`.) -/
theorem schedule_independent_stateful {σ : Type} (P : Params) (c : StatefulCodec σ) (hi : c.HistoryIndependent)
    (hc : CodecOk c.pure) (hB0 : 0 < P.B) (hB : P.B < 2 ^ 24) (n : Nat) (beh : List Pool.Op → Pool.Ret)
    (h : RealisedBy n beh) (κ : Nat → σ) (mb : Nat) (files : List InFile) :
    runS { P with ans := behAns beh } c κ mb files = runEager (serial { P with codec := c.pure }) files := by
  rw [runS_pure _ c hi κ mb files false]
  exact (schedule_independent { P with codec := c.pure } hc hB0 hB n beh h mb files).2

/-- instance of `schedule_independent_stateful`, all hypotheses discharged: the counting compressor, every copy in a
different state (`κ t = 3 t + 1`), 2 workers, backlog 3, the six files of the instance -/
example : runS { exP with ans := behAns serialAnsHist } cntCodec (fun t => 3 * t + 1) 3 exFiles =
    runEager (serial { exP with codec := cntCodec.pure }) exFiles :=
  schedule_independent_stateful exP cntCodec (fun _ _ => rfl) exCodec_ok exP_side.1 exP_side.2.1 2 serialAnsHist
    (fun _ => Or.inr rfl) (fun t => 3 * t + 1) 3 exFiles

/-- a compressor whose object remembers a "strategy": a block of 4 bytes or more sets it to 1 and is stored as
`[first byte, length]`; a shorter block is compressed *with whatever strategy the object was left with* (the shape of
the seeded defect C02-a2 in gzip.c: `deflateReset` does not reset the strategy) -/
def leakyCodec : StatefulCodec Nat :=
  { init := 0
    doBlock := fun s x => if x.length ≥ 4 then (1, some [x.headD 0, 4]) else (s, some [UInt8.ofNat s])
    unc := fun z => some z }

def leakyP : Params := { B := 4, codec := leakyCodec.pure, h := fun _ => 0 }

/-- the items the front end submits for one `DONT_FRAGMENT` file of 6 bytes with block size 4: a full block, a short last block -/
def leakyItems : List Blk :=
  [{ flags := Consts.blkDontFragment ||| Consts.blkFirstBlock, data := [5, 5, 5, 5], inode := some 0, index := 0 },
   { flags := Consts.blkDontFragment ||| Consts.blkLastBlock, data := [6, 7], inode := some 0, index := 1 }]

/-- the data area the block writer produces for worked items (all of them data blocks) -/
def imageOf (P : Params) (worked : List Blk) : Option (List UInt8) :=
  (wRun { wr := Sqfs.BlockWriter.init P.pre } worked).toOption.map (·.wr.file)

/-- **`stateful_worker_schedule_dependent`.**  Without history independence the image depends on the schedule: the leaky
compressor, two workers, the same two blocks — when worker 0 compresses both (what the serial pool does) the short block
is stored as `[1]`, when worker 1 takes the short block it is stored as `[0]`; the data areas differ.  (And the leaky
compressor is indeed not history independent.)  The last three conjuncts say the same about **whole runs** of the block
processor on the pool of stateful workers (`runS`; serial pool answers, backlog 3, one `DONT_FRAGMENT` file of 6 bytes): the
states the assigned copies are in at tickets 0 and 1 are `[0, 1]` under the first assignment and `[0, 0]` under the second
(`ticketStates`), and the two runs write different output files. -/
theorem stateful_worker_schedule_dependent :
    leakyItems = (feFiles 4 0 [⟨Consts.blkDontFragment, [5, 5, 5, 5, 6, 7]⟩]).toOption.getD [] ∧
    imageOf leakyP (workItems leakyP leakyCodec (fun _ => 0) (fun _ => 0) 0 leakyItems) = some [5, 4, 1] ∧
    imageOf leakyP (workItems leakyP leakyCodec (fun t => t) (fun _ => 0) 0 leakyItems) = some [5, 4, 0] ∧
    ¬ leakyCodec.HistoryIndependent ∧
    (ticketStates leakyCodec (fun _ => 0) (fun _ => 0) 0 leakyItems = [0, 1] ∧
     ticketStates leakyCodec (fun t => t) (fun _ => 0) 0 leakyItems = [0, 0]) ∧
    (runS leakyP leakyCodec (fun t => [0, 1].getD t 0) 3 [⟨Consts.blkDontFragment, [5, 5, 5, 5, 6, 7]⟩]).toOption.map (·.file) =
      some [5, 4, 1] ∧
    (runS leakyP leakyCodec (fun t => [0, 0].getD t 0) 3 [⟨Consts.blkDontFragment, [5, 5, 5, 5, 6, 7]⟩]).toOption.map (·.file) =
      some [5, 4, 0] := by
  refine ⟨by decide +kernel, by decide +kernel, by decide +kernel, ?_, by decide +kernel, by decide +kernel, by decide +kernel⟩
  intro h
  have := h 1 [6, 7]
  revert this
  decide


/-! ### a failing compressor: determinism of failure

`schedule_independent` assumes that no worker callback fails.  When the compressor fails on a block (`do_block < 0`),
`process_block` returns the error to the pool, which records it as its status and hands the item back like any other
(`Sqfs/Model/BlockProcFail.lean`).  The block processor looks at the status after a failed `submit`, after a NULL `dequeue`
and — since /repo 69db961 (= fixes/C02-report-worker-failure.patch) — at the end of every `sqfs_block_processor_sync`, which
is `return proc->pool->get_status(proc->pool)`.  `sync` / `finish` / `run` of `Sqfs/Model/BlockProc.lean` **are** that
current code; every theorem of this file is about it.  On a healthy pool the status call answers 0 and changes nothing
(`Sqfs.BlockProc.PInv.status`, `sync_eq_drain`; visible here as `healthy_run_status_zero`), which is how the theorems of
the first sections carry over.  *Before* 69db961 `sync` was the drain alone and a failure could be swallowed, depending on
`max_backlog` and on the schedule: `Sqfs.Witness.C02.failure_swallowed_before_69db961` (`runV false`; a **repaired**
defect, replayed on every run only to tell a tree that lacks the repair).  With the current `sync` the failure is reported
whatever the backlog, worker count and schedule are:

Full statement, proved in two parts (`failure_deterministic_partial`: block processor model on the serial pool, every
`max_backlog`; `failed_item_back_status_nonzero`: threaded pool, every worker count and schedule):

    theorem failure_deterministic (P fails rc) (n) (beh : behaviour of the threaded pool with `n` workers whose callback returns
        `workRc fails rc` on the items) (mb files) :
        (some callback invocation of the run is on an item the compressor fails on) → ∃ e, run { failParams P fails rc with ans := behAns beh } mb files = .error e

What is missing for the single statement: the block processor model over an *arbitrary* behaviour of a failing threaded pool
(the invariant of `Proofs/BP*.lean` is proved for the serial answers; `Sqfs.C09.refines_serial` needs failure-free callbacks).
The threaded half below is the fact about the pool that `sync` relies on; the composition is exercised on every
run (harness/h_c02.c, codec `toyf`, 10 scheduling policies × workers × backlogs: every run must end in an error). -/

/-- the run on a healthy pool in which the blocks the compressor fails on are merely declined (stored uncompressed) — what the
failing run computes as long as nobody has looked at the pool status -/
def declined (P : Params) (fails : List UInt8 → Bool) : Params := serial { P with codec := failCodec P.codec fails }

/-- **`failure_deterministic_partial`** (the current code, serial pool, every `max_backlog`).  If some callback invocation
of the run is on an item the compressor fails on (`processed`: the items the pool has worked on, `rcOfTable`: the
callback's return value), `finish` returns an error, whatever `max_backlog` is — the run never returns 0 with an image in
which the block is stored uncompressed.  (`h₀` / `hf` speak about the same run on a healthy pool that merely declines the
marked blocks: that is what the failing run computes until somebody looks at the status.  For the `sync` before 69db961
the statement is false: `Sqfs.Witness.C02.failure_swallowed_before_69db961`.) -/
theorem failure_deterministic_partial (P : Params) (fails : List UInt8 → Bool) (rc : Int) (mb : Nat) (files : List InFile)
    (s₀ : Proc) (h₀ : runProc (declined P fails) mb files = .ok s₀)
    (hf : ∃ id ∈ s₀.pool.ser.processed, rcOfTable fails rc s₀.pool.table id ≠ 0) :
    ∃ e, run (failParams P fails rc) mb files = .error e := by
  have hQ : failParams P fails rc = withAns (declined P fails) (failSerialAns fails rc) := rfl
  have H : Agrees (declined P fails) (failSerialAns fails rc) (Healthy fails rc) :=
    ⟨fun p op hg => hg.agree op, fun p b hg => hg.of_submit b, fun p op hg => hg.of_same op⟩
  have hst : ∀ p, (poolStatus (withAns (declined P fails) (failSerialAns fails rc)) p).2 = 0 → Healthy fails rc p := by
    intro p hp
    simp only [poolStatus, failSerialAns_status] at hp
    exact hp
  cases hrun : run (failParams P fails rc) mb files with
  | error e => exact ⟨e, rfl⟩
  | ok out =>
    exfalso
    unfold run at hrun
    cases hp : runProc (failParams P fails rc) mb files with
    | error e => rw [hp] at hrun; cases hrun
    | ok s =>
      rw [hQ] at hp
      obtain ⟨hg, he⟩ := runProc_tr H hst (fun p hg => hg.record_status) mb files s hp
      rw [h₀] at he
      cases he
      obtain ⟨id, hid, hne⟩ := hf
      exact hne (hg.processed id hid)

/-- the same for every pair of backlogs at once: if the failing item is worked in the run with `mb₁` and in the run with
`mb₂`, both runs are errors — whether a compressor failure is reported does not depend on `max_backlog` -/
theorem failure_backlog_independent (P : Params) (fails : List UInt8 → Bool) (rc : Int) (mb₁ mb₂ : Nat) (files : List InFile)
    (s₁ s₂ : Proc) (h₁ : runProc (declined P fails) mb₁ files = .ok s₁) (h₂ : runProc (declined P fails) mb₂ files = .ok s₂)
    (hf₁ : ∃ id ∈ s₁.pool.ser.processed, rcOfTable fails rc s₁.pool.table id ≠ 0)
    (hf₂ : ∃ id ∈ s₂.pool.ser.processed, rcOfTable fails rc s₂.pool.table id ≠ 0) :
    (∃ e, run (failParams P fails rc) mb₁ files = .error e) ∧ (∃ e, run (failParams P fails rc) mb₂ files = .error e) :=
  ⟨failure_deterministic_partial P fails rc mb₁ files s₁ h₁ hf₁, failure_deterministic_partial P fails rc mb₂ files s₂ h₂ hf₂⟩

/-- **`failed_item_back_status_nonzero`** (threaded pool: every worker count, every schedule, spurious wake-ups).  Once an
item whose callback failed has been handed back by `dequeue`, the pool status is non-zero — and stays so
(`Sqfs.C09.failure_sticky`), so the `get_status` call at the end of `sync` reports it
(`Sqfs.C09.failure_reported_get_status`). -/
theorem failed_item_back_status_nonzero {cfg : Pool.Cfg} {n : Nat} {s : Pool.State} (hr : Pool.Reachable cfg n s) (t : Nat)
    (ht : t < s.returned.length) (d : Nat) (hd : s.submitted[t]? = some d) (hrc : cfg.rcOf d ≠ 0) : s.status ≠ 0 := by
  have hA := Sqfs.C09.inv_reachable hr
  have hmem : t ∈ s.started.map (·.2.ticket) := by
    rw [hA.startedPerm.mem_iff]
    simp only [List.mem_append, List.mem_range]
    exact Or.inl (Or.inl (Or.inl ht))
  obtain ⟨p, hp, hpt⟩ := List.mem_map.mp hmem
  have hdata := hA.startedData p hp
  rw [hpt, hd] at hdata
  have hdd : p.2.data = d := (Option.some.inj hdata).symm
  rcases (Sqfs.C09.failure_recorded hr).2 p hp (by rw [hdd]; exact hrc) with h | h
  · exact h
  · exfalso
    have hnd := (Sqfs.C09.at_most_once hr).2.2
    rw [hpt] at h
    -- `t` is among the returned tickets and among the tickets being finished: the ticket list has no duplicates
    have h1 : t ∈ List.range s.returned.length := List.mem_range.mpr ht
    simp only [List.append_assoc] at hnd
    rw [List.nodup_append] at hnd
    exact hnd.2.2 t h1 t (by simp only [List.mem_append]; exact Or.inr (Or.inr (Or.inl h))) rfl

/-- instance (all hypotheses discharged, `rcOf` not constantly 0): two workers, items 0 and 1, the callback fails on item 0
(`-3`), worker 1 overtakes worker 0, item 0 is dequeued — ticket 0 has been returned, it carried data 0, its callback
failed: the status is non-zero -/
example :
    let cfg : Pool.Cfg := ⟨true, fun d => if d = 0 then -3 else 0⟩
    let sched : List Pool.Choice :=
      [.main (.call (.submit 0)), .main (.cont false), .main (.call (.submit 1)), .main (.cont false),
       .worker 0 false, .worker 1 false, .worker 1 false, .worker 1 false, .worker 0 false, .worker 0 false,
       .main (.call .dequeue), .main (.cont false)]
    (Pool.run cfg (Pool.init 2) sched).returned = [0] ∧ (Pool.run cfg (Pool.init 2) sched).submitted = [0, 1] ∧
      (Pool.run cfg (Pool.init 2) sched).status ≠ 0 := by
  intro cfg sched
  exact ⟨by decide, by decide,
    failed_item_back_status_nonzero (Sqfs.C09.run_reachable cfg 2 sched) 0 (by decide) 0 (by decide) (by decide)⟩

/-- non-vacuity of `failure_deterministic_partial` and of `failure_backlog_independent` (whose hypotheses are these for `mb₁ = 3`,
`mb₂ = 40`; the conclusion on this instance is also `Sqfs.Witness.C02.failure_reported_current`): the witness instance (five blocks, the compressor fails on the first),
`max_backlog` 3 and 40 — the healthy run succeeds, its first callback invocation is on the marked block -/
example :
    let R := fun mb => runProc (declined { B := 4, codec := Sqfs.ToyCodec.codec 4, h := fun _ => 0 } Sqfs.Witness.C02.marked) mb
      [Sqfs.Witness.C02.wFile]
    ∀ mb ∈ [3, 40], ∃ s₀, R mb = .ok s₀ ∧
      ∃ id ∈ s₀.pool.ser.processed, rcOfTable Sqfs.Witness.C02.marked (-3) s₀.pool.table id ≠ 0 := by
  intro R
  have helper : ∀ mb, (R mb).toOption.map (fun s => decide (0 ∈ s.pool.ser.processed) &&
        decide (rcOfTable Sqfs.Witness.C02.marked (-3) s.pool.table 0 ≠ 0)) = some true →
      ∃ s₀, R mb = .ok s₀ ∧ ∃ id ∈ s₀.pool.ser.processed, rcOfTable Sqfs.Witness.C02.marked (-3) s₀.pool.table id ≠ 0 := by
    intro mb h
    cases hr : R mb with
    | error e => rw [hr] at h; cases h
    | ok s₀ =>
      rw [hr] at h
      simp only [Except.toOption, Option.map_some, Option.some.injEq, Bool.and_eq_true, decide_eq_true_eq] at h
      exact ⟨s₀, rfl, 0, h.1, h.2⟩
  intro mb hmb
  simp only [List.mem_cons, List.not_mem_nil, or_false] at hmb
  rcases hmb with rfl | rfl
  · exact helper 3 (by decide +kernel)
  · exact helper 40 (by decide +kernel)

/-! ### environment

What is **proved** about the environment clause, and what is only **exercised**:

* definition-level (no assurance beyond the model's shape): `times_depend_only_on_source_date_epoch` — in the model of
  where time stamps come from (`Model/BuildEnv.lean`) they are a function of the input, the options and
  `SOURCE_DATE_EPOCH`; the model simply has no path from the clock, `TZ`, the locale, the umask or the working directory to
  a time stamp, so the statement cannot fail for it; this part of the clause counts as exercised (below), not proved.
* proved, about a model: `tree_order_bytewise` — the order of directory entries (hence of inode numbers and of the file list) is fixed by the
  *bytes* of the names: the model of `insert_sorted` (fstree.c) compares with `strcmp` (`nameLt`, a strict total order),
  and the list it builds is the only strictly sorted arrangement (cites `Sqfs.C11.insertSorted_sorted`); no collation
  order, case folding or character class enters.
* exercised, on the real tools (tools/checks/c02.py, tool level): `TZ` × `LC_ALL` × umask × cwd × CPU affinity × a faked
  clock; and — because no locale other than C can be installed in the sandbox — a **hostile locale behind the
  locale-sensitive entry points of libc** (harness/shim_c02_locale.c: `setlocale` accepted, `strcoll`/`strxfrm` reversed and
  case folded, Turkish case mapping in `strcasecmp`/`tolower`/the ctype tables, `,` as decimal point, a UTC+13:45 zone
  behind `localtime`/`mktime`) on file names whose `strcmp` order differs from every collation (mixed case, punctuation,
  UTF-8 and Latin-1/5 letters, dotted/dotless i): the image must not change, and every call of such a function is recorded
  (currently: the `isdigit`/`isspace` macros and `fnmatch` — `glob … -name` lines of a pack file, `[glob]` lines of a sort file;
  inputs with bracket ranges / high bytes / a character class whose matching differs under case folding or collation are part of
  every run — never with an active locale: no `setlocale`; the only environment variable asked for is `SOURCE_DATE_EPOCH`).
  A packer that calls `setlocale` / `newlocale` with anything but `NULL` / `"C"` / `"POSIX"` is a violation by itself
  (`tool-setlocale:`), whether or not the image of the input at hand changes. -/

/-- **Environment clause (model level) — definition-level.**  The time stamps of an image — the super block's
`modification_time` and every inode's `mod_time` — are the same in two process environments that agree on
`SOURCE_DATE_EPOCH`, whatever the wall clock, time zone, locale, umask and working directory are.

This is **not a proof obligation that could fail**: `imageTimes` (Model/BuildEnv.lean) reads `env.sourceDateEpoch` and no
other field of `ProcessEnv`, so the statement holds by the shape of the model whatever the code does (with
`--defaults mtime=` it is `rfl` for *any* two environments).  It is kept as the precise wording of the clause; the clause
itself counts as **exercised, not proved**: that the tools consult nothing else is decided by the tool-level runs of
tools/checks/c02.py with a faked clock, a hostile locale shim and varied environments. -/
theorem times_depend_only_on_source_date_epoch (e1 e2 : ProcessEnv) (o : Options) (inputs : List Int)
    (h : e1.sourceDateEpoch = e2.sourceDateEpoch) : imageTimes e1 o inputs = imageTimes e2 o inputs := by
  simp [imageTimes, superMtime, inodeMtime, defaultMtime, h]

/-- `get_source_date_epoch` returns 0 for an unset, empty, non-numeric or too large value, so those environments
all give the image of `SOURCE_DATE_EPOCH=0` -/
theorem source_date_epoch_default (s : List UInt8) (h : sdeDigits s 0 = none) :
    sourceDateEpoch (some s) = sourceDateEpoch none := by
  cases s with
  | nil => rfl
  | cons a t => simp [sourceDateEpoch, h]

/-- instances (hypothesis discharged): `SOURCE_DATE_EPOCH=ab` (not a number) and `=4294967296` (does not fit 32 bits) give
the time stamps of an unset variable -/
example : sourceDateEpoch (some [0x61, 0x62]) = sourceDateEpoch none ∧
    sourceDateEpoch (some [52, 50, 57, 52, 57, 54, 55, 50, 57, 54]) = sourceDateEpoch none :=
  ⟨source_date_epoch_default [0x61, 0x62] (by decide),
   source_date_epoch_default [52, 50, 57, 52, 57, 54, 55, 50, 57, 54] (by decide)⟩

/-- **`tree_order_bytewise`** (environment clause, locale).  The children list `insert_sorted` (fstree.c) builds from nodes with
pairwise different names — in whatever order they arrive — is the *only* arrangement of these nodes that is strictly
sorted by `strcmp` (`nameLt`: lexicographic on unsigned bytes).  So the order of directory entries, and with it the inode
numbering and the file list (`Sqfs.C11.numbering_deterministic`), is a function of the names' bytes: a locale has no say. -/
theorem tree_order_bytewise (nodes : List Sqfs.FsTree.TNode) (hnd : (nodes.map Sqfs.FsTree.TNode.name).Nodup)
    (l : List Sqfs.FsTree.TNode) (hp : l.Perm nodes) (hs : Sqfs.FsTree.SortedNames (l.map Sqfs.FsTree.TNode.name)) :
    l = nodes.foldl (fun acc n => Sqfs.FsTree.insertSorted n acc) [] :=
  Sqfs.FsTree.sorted_children_unique nodes hnd l hp hs

/-- instance (all hypotheses discharged): the nodes `a`, `B`, `_x` in the order a case-folding collation would produce; the
byte-sorted arrangement `B`, `_x`, `a` is a permutation of them and strictly sorted, hence it *is* what `insert_sorted` builds -/
example :
    [Sqfs.FsTree.TNode.mk [0x42] default [], .mk [0x5f, 0x78] default [], .mk [0x61] default []] =
      [Sqfs.FsTree.TNode.mk [0x61] default [], .mk [0x42] default [], .mk [0x5f, 0x78] default []].foldl
        (fun acc n => Sqfs.FsTree.insertSorted n acc) [] :=
  tree_order_bytewise [Sqfs.FsTree.TNode.mk [0x61] default [], .mk [0x42] default [], .mk [0x5f, 0x78] default []] (by decide)
    [Sqfs.FsTree.TNode.mk [0x42] default [], .mk [0x5f, 0x78] default [], .mk [0x61] default []]
    (List.perm_append_comm (l₁ := [Sqfs.FsTree.TNode.mk [0x42] default [], .mk [0x5f, 0x78] default []])
      (l₂ := [Sqfs.FsTree.TNode.mk [0x61] default []])) (by decide)

/-- non-vacuity: `B`, `a`, `_x` arrive in the order a case-folding, punctuation-blind collation would produce
(`a`, `B`, `_x`); `insert_sorted` yields the byte order `B` (0x42) < `_x` (0x5f) < `a` (0x61) -/
example :
    ([Sqfs.FsTree.TNode.mk [0x61] default [], .mk [0x42] default [], .mk [0x5f, 0x78] default []].foldl
      (fun acc n => Sqfs.FsTree.insertSorted n acc) []).map Sqfs.FsTree.TNode.name = [[0x42], [0x5f, 0x78], [0x61]] := by decide

/-! ### non-vacuity: the hypotheses are satisfiable on a non-trivial instance -/

example : 0 < exP.B ∧ exP.B < 2 ^ 24 ∧ ∀ f ∈ exFiles, f.flags &&& Consts.blkUserSettable = f.flags := by decide

/-- the instance is not trivial: 17 `write_data_block` calls, 3 fragment blocks (two overflows), a 28 byte data area
(the last file's blocks were given up for the first file's), a sparse block, fragments shared between files (0 and 3; 4 and 5) -/
example :
    (run (serial exP) 3 exFiles).toOption.map (fun o => (o.calls.length, o.frags.length, o.file.length)) = some (17, 3, 28) ∧
    (run (serial exP) 3 exFiles).toOption.map (fun o => o.files.map (fun r => r.start)) = some [0, 8, 0, 0, 15, 0] ∧
    (run (serial exP) 3 exFiles).toOption.map (fun o => o.files.map (fun r => r.fragIdx)) = some [0, 0, 1, 0, 2, 2] ∧
    (run (serial exP) 3 exFiles).toOption.map (fun o => o.files.map (fun r => r.sparse)) = some [0, 0, 0, 4, 0, 0] := by
  decide +kernel

/-- `backlog_independent` / `run_eq_spec` on the instance, evaluated: backlog 3 vs 40 vs the reference -/
example : (run (serial exP) 3 exFiles).toOption = (run (serial exP) 40 exFiles).toOption ∧
    (run (serial exP) 3 exFiles).toOption = (runEager (serial exP) exFiles).toOption := by
  decide +kernel

/-- `run_sync_eq_spec` on the instance -/
example : (run (serial exP) 3 exFiles (sy := true)).toOption = (runEager (serial exP) exFiles).toOption := by
  decide +kernel

/-- the hypothesis of `finish_writes_everything` is satisfiable, and so is the error case of
`dequeue_never_internal_error` (flag word 32 is not user settable) -/
example : (runProc (serial exP) 3 exFiles).toOption.isSome = true ∧
    (run (serial exP) 3 [⟨32, [1, 2, 3]⟩]).toOption = none := by
  decide +kernel

/-- the hypotheses of `run_eq_specPack_partial` on a compressible block of the instance -/
example : (∀ x z, exP.codec.cmp x = some z → 0 < z.length) ∧
    (processBlock exP { flags := 0, data := [7, 7, 7, 7] }).data = [7, 4] ∧
    Sqfs.Pack.workData (toPackParams exP) (Sqfs.Pack.Flags.ofNat 0) [7, 7, 7, 7] =
      .stored ⟨false, exP.h [7, 7, 7, 7], [7, 4]⟩ := by
  refine ⟨?_, by decide +kernel, by decide +kernel⟩
  intro x z h
  simp only [exP, exCodec] at h
  split at h
  · simp only [Option.some.injEq] at h; subst h; decide
  · cases h

/-- `RealisedBy` is inhabited: the serial pool itself … -/
example (n : Nat) : RealisedBy n serialAnsHist := fun _ => Or.inr rfl

/-- … and real executions of the threaded pool's model: two workers, items 0 and 1, worker 1 overtakes worker 0,
both items dequeued — the state is reachable, the main thread is idle, and the last value returned is item 1 -/
example :
    let cfg : Pool.Cfg := ⟨true, fun _ => 0⟩
    let s := Pool.run cfg (Pool.init 2)
      [.main (.call (.submit 0)), .main (.cont false), .main (.call (.submit 1)), .main (.cont false),
       .worker 0 false, .worker 1 false, .worker 1 false, .worker 1 false, .worker 0 false, .worker 0 false,
       .main (.call .dequeue), .main (.cont false), .main (.call .dequeue), .main (.cont false)]
    Pool.Reachable cfg 2 s ∧ s.main = .idle ∧ s.calls = [.submit 0, .submit 1, .dequeue, .dequeue] ∧
      s.rets.getLast? = some (.deq (some 1)) ∧ s.started.map (·.1) = [1, 0] :=
  ⟨Sqfs.C09.run_reachable _ _ _, by decide⟩

/-! ### the theorems applied to the instance, every hypothesis discharged (`exCodec_ok`, `exP_side`) -/

example : run (serial exP) 3 exFiles = runEager (serial exP) exFiles :=
  run_eq_spec exP exCodec_ok exP_side.1 exP_side.2.1 3 exFiles
example : run (serial exP) 3 exFiles (sy := true) = runEager (serial exP) exFiles :=
  run_sync_eq_spec exP exCodec_ok exP_side.1 exP_side.2.1 3 exFiles
example : run (serial exP) 3 exFiles = run (serial exP) 40 exFiles :=
  backlog_independent exP exCodec_ok exP_side.1 exP_side.2.1 3 40 exFiles
example : ∃ out, run (serial exP) 3 exFiles = .ok out :=
  run_ok exP exCodec_ok exP_side.1 exP_side.2.1 3 exFiles exP_side.2.2.1
example : ∃ out, run (serial exP) 3 exFiles = .ok out ∧
    out.view = specView exP.pre (Sqfs.Pack.specPack (toPackParams exP) (toPackFiles exFiles)) :=
  run_eq_specPack exP exCodec_ok exP_side.2.2.2.2 exP_side.2.2.2.1 exP_side.1 exP_side.2.1 3 exFiles exP_side.2.2.1
/-- the threaded theorems: 2 and 4 workers, backlogs 3 and 40, the behaviour every realised behaviour is (`realised_unique`) -/
example : run { exP with ans := behAns serialAnsHist } 3 exFiles = run { exP with ans := behAns serialAnsHist } 40 exFiles :=
  jobs_independent exP exCodec_ok exP_side.1 exP_side.2.1 2 4 serialAnsHist serialAnsHist (fun _ => Or.inr rfl)
    (fun _ => Or.inr rfl) 3 40 exFiles
example : ∃ out, run { exP with ans := behAns serialAnsHist } 3 exFiles = .ok out ∧
    out.view = specView exP.pre (Sqfs.Pack.specPack (toPackParams exP) (toPackFiles exFiles)) :=
  threaded_eq_specPack exP exCodec_ok exP_side.2.2.2.2 exP_side.2.2.2.1 exP_side.1 exP_side.2.1 2 serialAnsHist
    (fun _ => Or.inr rfl) 3 exFiles exP_side.2.2.1
example := threaded_readback exP exCodec_ok exP_side.2.2.2.2 exP_side.2.2.2.1 exP_side.1 exP_side.2.1 2 serialAnsHist
    (fun _ => Or.inr rfl) 3 exFiles exP_side.2.2.1 1 (by decide)
example := threaded_directives exP exCodec_ok exP_side.2.2.2.2 exP_side.2.2.2.1 exP_side.1 exP_side.2.1 2 serialAnsHist
    (fun _ => Or.inr rfl) 3 exFiles exP_side.2.2.1
/-- an API script: a file, a manual submission, a `sync` -/
example : runOps true { exP with ans := behAns serialAnsHist } 3 [.file ⟨0, [1, 2, 3, 4, 5]⟩, .submit 0 [1, 2], .sync] =
    runOps true (serial exP) 3 [.file ⟨0, [1, 2, 3, 4, 5]⟩, .submit 0 [1, 2], .sync] :=
  script_schedule_independent true exP 2 serialAnsHist (fun _ => Or.inr rfl) 3 _
/-- `pool_last_answer_is_serial` on a real execution of the threaded pool (the one shown above: two workers, worker 1
overtakes worker 0): its last answer, item 1, is the serial pool's answer for the same four calls -/
example :
    let cfg : Pool.Cfg := ⟨true, fun _ => 0⟩
    let s := Pool.run cfg (Pool.init 2)
      [.main (.call (.submit 0)), .main (.cont false), .main (.call (.submit 1)), .main (.cont false),
       .worker 0 false, .worker 1 false, .worker 1 false, .worker 1 false, .worker 0 false, .worker 0 false,
       .main (.call .dequeue), .main (.cont false), .main (.call .dequeue), .main (.cont false)]
    (s.rets.getLast?).getD .destroyed = serialAnsHist s.calls ∧ s.rets.getLast? = some (.deq (some 1)) := by
  intro cfg s
  exact ⟨pool_last_answer_is_serial (fun _ => rfl) (Sqfs.C09.run_reachable _ _ _) (Or.inl (by decide)), by decide⟩
/-- two process environments that differ in everything but `SOURCE_DATE_EPOCH` -/
example : imageTimes ⟨some [49, 50], 1700000000, [85, 84, 67], [67], 18, [47]⟩ {} [5, -1] =
          imageTimes ⟨some [49, 50], 42, [], [], 63, []⟩ {} [5, -1] ∧
          imageTimes ⟨some [49, 50], 42, [], [], 63, []⟩ {} [5, -1] = (12, [12, 12]) := by decide

end Sqfs.C02
