/-
C02 — determinism: the data area, the fragment table and every file inode do not depend on the number of worker
threads, on `max_backlog`, or on how the worker threads are scheduled; they equal what the serial pool with an
immediate drain computes.  (The environment clause: see `times_depend_only_on_source_date_epoch` below and
tools/checks/c02.py.)

Model: `Sqfs/Model/BlockProc.lean` (main-thread state machine of `lib/sqfs/src/block_processor/*.c` over an abstract
pool, block writer of `Model/BlockWriter.lean`), reference: `Sqfs/Spec/BlockProcSpec.lean` (`packRef`: no pool, no
backlog, no queue), pool: `Sqfs/Model/Pool.lean` + `Sqfs/Props/C09.lean`.

Hypotheses of the block-processor theorems, all of them about parameters:
  * `0 < P.B < 2^24` — the block size fits the 24-bit size field of a block word (the tools allow 4 KiB … 1 MiB);
  * `CodecOk P.codec` — the block codec's contract (what it compressed it uncompresses; a compressed block is shorter);
    without the round trip the *implementation* is schedule dependent: a fragment is compared against the
    in-flight copy of a fragment block or against the block re-read from disk, depending on the timing;
  * the checksum `P.h` is arbitrary; the files carry arbitrary flag words and contents of any size.
-/
import Sqfs.Proofs.BPFinal
import Sqfs.Proofs.BPSpecPack
import Sqfs.Props.C09
import Sqfs.Model.BuildEnv
namespace Sqfs.C02
open Sqfs.BlockProc Sqfs.BuildEnv

/-- the parameters with the serial pool's behaviour (`threadpool_serial.c`) -/
def serial (P : Params) : Params := { P with ans := serialAns }

/-- the queue-free, backlog-free reference of `Sqfs/Spec/BlockProcSpec.lean` -/
abbrev runEager := packRef

/-! ### backlog -/

/-- **`run_eq_spec`.**  For every `max_backlog` the block processor computes what the reference computes: the same
`write_data_block` calls in the same order, the same output file, fragment table and inodes — and the same error
(`SQFS_ERROR_UNSUPPORTED` from `begin_file`) when a file carries flags that are not user settable. -/
theorem run_eq_spec (P : Params) (hc : CodecOk P.codec) (hB0 : 0 < P.B) (hB : P.B < 2 ^ 24) (mb : Nat) (files : List InFile) :
    run (serial P) mb files = runEager (serial P) files :=
  run_eq_packRef (P := serial P) rfl hc hB0 hB mb files

/-- **`run_sync_eq_spec`.**  The same when the caller drains the processor (`sqfs_block_processor_sync`) while every
file is still open, before `end_file` — the packers never do, a library user may; this is where the third early exit
of `dequeue_block` (`backlog == 2`, open fragment block and open data block) is reached.  With `max_backlog` 3 and a
`sync` after every `append` each item is worked, taken back and written at once: the serial pool with an immediate
drain, run on the implementation model itself. -/
theorem run_sync_eq_spec (P : Params) (hc : CodecOk P.codec) (hB0 : 0 < P.B) (hB : P.B < 2 ^ 24) (mb : Nat) (files : List InFile) :
    run (serial P) mb files (sy := true) = runEager (serial P) files :=
  run_eq_packRef (P := serial P) rfl hc hB0 hB mb files true

/-- **`backlog_independent`.**  Two values of `max_backlog` (`-Q`) give the same result … -/
theorem backlog_independent (P : Params) (hc : CodecOk P.codec) (hB0 : 0 < P.B) (hB : P.B < 2 ^ 24) (mb₁ mb₂ : Nat)
    (files : List InFile) : run (serial P) mb₁ files = run (serial P) mb₂ files := by
  rw [run_eq_spec P hc hB0 hB, run_eq_spec P hc hB0 hB]

/-- … and it is not an error when every file carries user-settable flags only. -/
theorem run_ok (P : Params) (hc : CodecOk P.codec) (hB0 : 0 < P.B) (hB : P.B < 2 ^ 24) (mb : Nat) (files : List InFile)
    (hfl : ∀ f ∈ files, f.flags &&& Consts.blkUserSettable = f.flags) : ∃ out, run (serial P) mb files = .ok out := by
  rcases run_final (P := serial P) rfl hc hB0 hB mb files with ⟨s, hr, _⟩ | ⟨e, _, _, _, f, hf, hbad⟩
  · exact ⟨s.w.output, by unfold run; rw [hr]⟩
  · exact absurd (hfl f hf) hbad

/-- **`dequeue_never_internal_error`.**  The `SQFS_ERROR_INTERNAL` return of `dequeue_block` (the pool is empty although
the backlog did not shrink) is unreachable, no loop of the model runs out of fuel, the block writer never fails and no
fragment lookup ends in `SQFS_ERROR_CORRUPTED`: the only error a run can end in is `begin_file`'s refusal of a flag
word that is not user settable. -/
theorem dequeue_never_internal_error (P : Params) (hc : CodecOk P.codec) (hB0 : 0 < P.B) (hB : P.B < 2 ^ 24) (mb : Nat)
    (files : List InFile) (e : Err) (h : run (serial P) mb files = .error e) :
    e = .unsupported ∧ ∃ f ∈ files, ¬ f.flags &&& Consts.blkUserSettable = f.flags := by
  rcases run_final (P := serial P) rfl hc hB0 hB mb files with ⟨s, hr, _⟩ | ⟨e', hr, _, he, hbad⟩
  · unfold run at h; rw [hr] at h; cases h
  · unfold run at h; rw [hr] at h
    simp only [Except.error.injEq] at h
    subst h; exact ⟨he, hbad⟩

/-- **`finish_writes_everything`.**  After `finish`: `io_queue` is empty, nothing is left inside the pool, the backlog is
0, every numbered block has been written (`io_deq_seq_num = io_seq_num`) and no fragment block is open. -/
theorem finish_writes_everything (P : Params) (hc : CodecOk P.codec) (hB0 : 0 < P.B) (hB : P.B < 2 ^ 24) (mb : Nat)
    (files : List InFile) (s : Proc) (h : runProc (serial P) mb files = .ok s) :
    s.ioQueue = [] ∧ s.pool.ser.queue = [] ∧ s.backlog = 0 ∧ s.ioDeqSeqNum = s.ioSeqNum ∧ s.fragBlock = none := by
  rcases run_final (P := serial P) rfl hc hB0 hB mb files with ⟨s', hr, hf⟩ | ⟨e', hr, _⟩
  · rw [hr] at h
    simp only [Except.ok.injEq] at h
    subst h
    exact ⟨hf.ioQueue, hf.pool, hf.backlog, hf.deq, hf.fragBlock⟩
  · rw [hr] at h; cases h

/-! ### towards `specPack` (DESIGN.md Appendix B)

Full statement, **not proved**:

    theorem run_eq_specPack (P) (hc : CodecOk P.codec) (hpos : ∀ x z, P.codec.cmp x = some z → 0 < z.length)
        (hB0 : 0 < P.B) (hB : P.B < 2 ^ 24) (mb) (files) (hfl : ∀ f ∈ files, f.flags &&& blkUserSettable = f.flags) :
        ∃ out, run (serial P) mb files = .ok out ∧
          let o := Pack.specPack (toPackParams P) (files.map fun f => ⟨Pack.Flags.ofNat f.flags, f.data⟩)
          out.file = P.pre ++ o.area ∧
          out.frags = o.frags.map (fun e => (e.start, (Pack.Word.stored e.size e.raw).toNat)) ∧
          out.files = o.files.map (fun r => ⟨r.size, r.words.map Pack.Word.toNat, r.start,
                                            (r.frag.map (·.1)).getD 0xFFFFFFFF, (r.frag.map (·.2)).getD 0xFFFFFFFF,
                                            r.sparse, r.extended⟩)

`run_eq_spec` reduces it to `packRef = specPack`, a statement about two pure functions.  What is missing:
 (1) the closed form of the front end: `feFile` (the loop of `append`) produces `Pack.fullBlocks`/`Pack.tailOf` with the
     `FIRST`/`LAST`/sentinel/`IS_FRAGMENT` pattern of Appendix B;
 (2) the writer pass against `Pack.placeBlocks`: `Sqfs.C08.bw_refines_spec` relates `write_data_block` to the checksum-free
     `SState` specification of Spec/BlockWriter.lean; `SState` ↔ `placeBlocks`/`findMatch` (payload lists instead of
     a byte string with offsets) is not proved;
 (3) the fragment pass against `Pack.placeTail`: `specPack` keeps the chunks newest first and never replaces, `fStep` follows
     the hash table (insert replaces an equal key); equal on reachable states by `Sqfs.C08.frag_lookup_unique`, not proved here.
Proved: the per-block worker rule.  The equality is *exercised* on every run: tools/checks/c02.py compares `packRef`, and
tools/checks/c17.py compares `specPack`, with the same real code. -/

/-- **`run_eq_specPack_partial`.**  `process_block` on a non-empty data block is `specPack`'s `workData`: the block is a
hole (nothing stored, `sparse += size`), or it is stored raw / compressed with the checksum `workData` says. -/
theorem run_eq_specPack_partial (P : Params) (hpos : ∀ x z, P.codec.cmp x = some z → 0 < z.length) (b : Blk)
    (hne : b.data ≠ []) (hnf : Sqfs.BlockWriter.hasFlag b.flags Consts.blkIsFragment = false)
    (hnb : Sqfs.BlockWriter.hasFlag b.flags Consts.blkFragmentBlock = false) :
    match Sqfs.Pack.workData (toPackParams P) (Sqfs.Pack.Flags.ofNat b.flags) b.data with
    | .sparse n => Sqfs.BlockWriter.hasFlag (processBlock P b).flags Consts.blkIsSparse = true ∧ n = b.data.length ∧
        (processBlock P b).data = b.data
    | .stored s => (processBlock P b).flags = (if s.raw then b.flags else b.flags ||| Consts.blkIsCompressed) ∧
        (processBlock P b).data = s.data ∧ (processBlock P b).chk = s.cksum :=
  worker_eq_workData P hpos b hne hnf hnb

/-! ### schedules and worker counts: composition with C09 -/

/-- `beh` (the value the pool returns for the last call of a call history) is a behaviour of the **threaded** pool with
`n` workers: for every call history, either some execution of `threadpool.c`'s model — any schedule of the `n` workers
and the main thread, spurious wake-ups included, no failing callback — made exactly these calls and returned
`beh calls` last; or `beh` answers what `threadpool_serial.c` answers (histories the block processor never produces,
e.g. calls after `destroy`). -/
def RealisedBy (n : Nat) (beh : List Pool.Op → Pool.Ret) : Prop :=
  ∀ calls, (∃ (cfg : Pool.Cfg) (s : Pool.State), (∀ d, cfg.rcOf d = 0) ∧ Pool.Reachable cfg n s ∧
              (s.main = .idle ∨ s.main = .finished) ∧ s.calls = calls ∧ s.rets.getLast? = some (beh calls)) ∨
           beh calls = serialAnsHist calls

/-- what `Sqfs.C09.refines_serial` says about such a behaviour -/
theorem realised_eq_serial (n : Nat) (beh : List Pool.Op → Pool.Ret) (h : RealisedBy n beh) :
    behAns beh = serialAns := by
  funext p op
  have hser : serialAns p op = serialAnsHist (p.calls ++ [op]) := by
    unfold serialAns serialAnsHist
    rw [Pool.Serial.run_append, ← p.tracks]
    rfl
  rw [hser]
  unfold behAns
  rcases h (p.calls ++ [op]) with ⟨cfg, s, hok, hr, hidle, hcalls, hlast⟩ | hs
  · have href := Sqfs.C09.refines_serial hok hr hidle
    have hrc : cfg.rcOf = rc0 := funext hok
    unfold serialAnsHist
    rw [← hcalls, ← hrc, ← href, hlast, hcalls]
    rfl
  · exact hs

/-- **`schedule_independent`.**  Run the block processor on top of *any* behaviour of the threaded pool — any number
of workers, any schedule, with spurious wake-ups — as long as no callback fails: the result is the serial pool's,
hence (`run_eq_spec`) the reference's, for every `max_backlog`. -/
theorem schedule_independent (P : Params) (hc : CodecOk P.codec) (hB0 : 0 < P.B) (hB : P.B < 2 ^ 24) (n : Nat)
    (beh : List Pool.Op → Pool.Ret) (h : RealisedBy n beh) (mb : Nat) (files : List InFile) :
    run { P with ans := behAns beh } mb files = run (serial P) mb files ∧
    run { P with ans := behAns beh } mb files = runEager (serial P) files := by
  have : ({ P with ans := behAns beh } : Params) = serial P := by
    unfold serial; rw [realised_eq_serial n beh h]
  rw [this]
  exact ⟨rfl, run_eq_spec P hc hB0 hB mb files⟩

/-- **`jobs_independent`.**  `-j n₁ -Q mb₁` under one schedule and `-j n₂ -Q mb₂` under another give the same result. -/
theorem jobs_independent (P : Params) (hc : CodecOk P.codec) (hB0 : 0 < P.B) (hB : P.B < 2 ^ 24) (n₁ n₂ : Nat)
    (beh₁ beh₂ : List Pool.Op → Pool.Ret) (h₁ : RealisedBy n₁ beh₁) (h₂ : RealisedBy n₂ beh₂) (mb₁ mb₂ : Nat)
    (files : List InFile) :
    run { P with ans := behAns beh₁ } mb₁ files = run { P with ans := behAns beh₂ } mb₂ files := by
  rw [(schedule_independent P hc hB0 hB n₁ beh₁ h₁ mb₁ files).2, (schedule_independent P hc hB0 hB n₂ beh₂ h₂ mb₂ files).2]

/-! ### environment -/

/-- **Environment clause (model level).**  The time stamps of an image — the super block's `modification_time` and
every inode's `mod_time` — are the same in two process environments that agree on `SOURCE_DATE_EPOCH`, whatever the
wall clock, time zone, locale, umask and working directory are.  (That the tools consult nothing else is decided by
the tool-level runs of tools/checks/c02.py with a faked clock and varied environments.) -/
theorem times_depend_only_on_source_date_epoch (e1 e2 : ProcessEnv) (o : Options) (inputs : List Int)
    (h : e1.sourceDateEpoch = e2.sourceDateEpoch) : imageTimes e1 o inputs = imageTimes e2 o inputs := by
  simp [imageTimes, superMtime, inodeMtime, defaultMtime, h]

/-- `get_source_date_epoch` returns 0 for an unset, empty, non-numeric or too large value, so those environments
all give the image of `SOURCE_DATE_EPOCH=0` -/
theorem source_date_epoch_default (s : List UInt8) (h : sdeDigits s 0 = none) :
    sourceDateEpoch (some s) = sourceDateEpoch none := by
  cases s with
  | nil => rfl
  | cons a t => simp [sourceDateEpoch, h]

/-! ### non-vacuity: the hypotheses are satisfiable on a non-trivial instance -/

/-- a codec that compresses exactly one block (`7 7 7 7 ↦ 7 4`) -/
def exCodec : Codec :=
  { cmp := fun x => if x = [7, 7, 7, 7] then some [7, 4] else none
    unc := fun z => if z = [7, 4] then some [7, 7, 7, 7] else some z }

theorem exCodec_ok : CodecOk exCodec := by
  constructor
  · intro x z h
    simp only [exCodec] at h ⊢
    split at h
    · simp only [Option.some.injEq] at h; subst h; rename_i hx; simp [hx]
    · cases h
  · intro x z h
    simp only [exCodec] at h
    split at h
    · simp only [Option.some.injEq] at h; subst h; rename_i hx; simp [hx]
    · cases h

def exP : Params := { B := 4, codec := exCodec, h := fun d => d.foldl (fun a b => a * 31 + b.toUInt32) 7 }

/-- six files, block size 4: multi-block files, a compressible file, a short file, a file with a hole, the first file
again with `DONT_DEDUPLICATE` (flag 8) and once more without -/
def exFiles : List InFile :=
  [⟨0, [1, 2, 3, 4, 5, 6, 7, 8, 9, 10]⟩, ⟨0, [7, 7, 7, 7, 7, 7, 7, 7, 1]⟩, ⟨0, [11, 12, 13]⟩, ⟨0, [0, 0, 0, 0, 9, 10]⟩,
   ⟨8, [1, 2, 3, 4, 5, 6, 7, 8, 9, 10]⟩, ⟨0, [1, 2, 3, 4, 5, 6, 7, 8, 9, 10]⟩]

example : 0 < exP.B ∧ exP.B < 2 ^ 24 ∧ ∀ f ∈ exFiles, f.flags &&& Consts.blkUserSettable = f.flags := by decide

/-- the instance is not trivial: 17 `write_data_block` calls, 3 fragment blocks (two overflows), a 28 byte data area
(the last file's blocks were given up for the first file's), a sparse block, fragments shared between files (0 and 3; 4 and 5) -/
example :
    (run (serial exP) 3 exFiles).toOption.map (fun o => (o.calls.length, o.frags.length, o.file.length)) = some (17, 3, 28) ∧
    (run (serial exP) 3 exFiles).toOption.map (fun o => o.files.map (fun r => r.start)) = some [0, 8, 0, 0, 15, 0] ∧
    (run (serial exP) 3 exFiles).toOption.map (fun o => o.files.map (fun r => r.fragIdx)) = some [0, 0, 1, 0, 2, 2] ∧
    (run (serial exP) 3 exFiles).toOption.map (fun o => o.files.map (fun r => r.sparse)) = some [0, 0, 0, 4, 0, 0] := by
  decide +kernel

/-- `backlog_independent` / `run_eq_spec` on the instance, evaluated: backlog 3 vs 40 vs the reference -/
example : (run (serial exP) 3 exFiles).toOption = (run (serial exP) 40 exFiles).toOption ∧
    (run (serial exP) 3 exFiles).toOption = (runEager (serial exP) exFiles).toOption := by
  decide +kernel

/-- `run_sync_eq_spec` on the instance -/
example : (run (serial exP) 3 exFiles (sy := true)).toOption = (runEager (serial exP) exFiles).toOption := by
  decide +kernel

/-- the hypothesis of `finish_writes_everything` is satisfiable, and so is the error case of
`dequeue_never_internal_error` (flag word 32 is not user settable) -/
example : (runProc (serial exP) 3 exFiles).toOption.isSome = true ∧
    (run (serial exP) 3 [⟨32, [1, 2, 3]⟩]).toOption = none := by
  decide +kernel

/-- the hypotheses of `run_eq_specPack_partial` on a compressible block of the instance -/
example : (∀ x z, exP.codec.cmp x = some z → 0 < z.length) ∧
    (processBlock exP { flags := 0, data := [7, 7, 7, 7] }).data = [7, 4] ∧
    Sqfs.Pack.workData (toPackParams exP) (Sqfs.Pack.Flags.ofNat 0) [7, 7, 7, 7] =
      .stored ⟨false, exP.h [7, 7, 7, 7], [7, 4]⟩ := by
  refine ⟨?_, by decide +kernel, by decide +kernel⟩
  intro x z h
  simp only [exP, exCodec] at h
  split at h
  · simp only [Option.some.injEq] at h; subst h; decide
  · cases h

/-- `RealisedBy` is inhabited: the serial pool itself … -/
example (n : Nat) : RealisedBy n serialAnsHist := fun _ => Or.inr rfl

/-- … and real executions of the threaded pool's model: two workers, items 0 and 1, worker 1 overtakes worker 0,
both items dequeued — the state is reachable, the main thread is idle, and the last value returned is item 1 -/
example :
    let cfg : Pool.Cfg := ⟨true, fun _ => 0⟩
    let s := Pool.run cfg (Pool.init 2)
      [.main (.call (.submit 0)), .main (.cont false), .main (.call (.submit 1)), .main (.cont false),
       .worker 0 false, .worker 1 false, .worker 1 false, .worker 1 false, .worker 0 false, .worker 0 false,
       .main (.call .dequeue), .main (.cont false), .main (.call .dequeue), .main (.cont false)]
    Pool.Reachable cfg 2 s ∧ s.main = .idle ∧ s.calls = [.submit 0, .submit 1, .dequeue, .dequeue] ∧
      s.rets.getLast? = some (.deq (some 1)) ∧ s.started.map (·.1) = [1, 0] :=
  ⟨Sqfs.C09.run_reachable _ _ _, by decide⟩

/-- two process environments that differ in everything but `SOURCE_DATE_EPOCH` -/
example : imageTimes ⟨some [49, 50], 1700000000, [85, 84, 67], [67], 18, [47]⟩ {} [5, -1] =
          imageTimes ⟨some [49, 50], 42, [], [], 63, []⟩ {} [5, -1] ∧
          imageTimes ⟨some [49, 50], 42, [], [], 63, []⟩ {} [5, -1] = (12, [12, 12]) := by decide

end Sqfs.C02
