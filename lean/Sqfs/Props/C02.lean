/-
C02 — determinism.  (under construction: the block-processor theorems are added below as they are proved)
-/
import Sqfs.Model.BlockProc
import Sqfs.Model.BuildEnv
namespace Sqfs.C02
open Sqfs.BuildEnv

/-- **Environment clause (model level).**  The time stamps of an image — the super block's `modification_time` and
every inode's `mod_time` — are the same in two process environments that agree on `SOURCE_DATE_EPOCH`, whatever the
wall clock, time zone, locale, umask and working directory are. -/
theorem times_depend_only_on_source_date_epoch (e1 e2 : ProcessEnv) (o : Options) (inputs : List Int)
    (h : e1.sourceDateEpoch = e2.sourceDateEpoch) : imageTimes e1 o inputs = imageTimes e2 o inputs := by
  simp [imageTimes, superMtime, inodeMtime, defaultMtime, h]

end Sqfs.C02
