/-
C17 — Packing directives are honoured exactly in the on-disk layout.

Property theorems only.  Part 1 is about the model of `sort_by_file.c` (`Sqfs/Model/Sort.lean`, and
`Sqfs/Model/C17SortTree.lean` for the whole `fstree_t`), parts 2 and 3 about the functional specification `specPack`
(`Sqfs/Spec/PackSpec.lean`, DESIGN.md Appendix B) — that the queue/thread implementation model computes `specPack` is
proved in C02 (`Sqfs.C02.run_eq_specPack`, `threaded_eq_specPack`; `Sqfs.C02.threaded_directives` carries Part 2 over), here
`specPack` is tied to the real tools by the byte-level image comparison of `tools/checks/c17.py` —
part 4 about the export table as `dir_writer.c` builds it (`Sqfs/Model/C17Export.lean`).  Every theorem quantifies
over all file lists / sort lines / contents / block sizes / codecs / checksum functions; `fnmatch` is the parameter `mt`.
-/
import Sqfs.Proofs.Sort
import Sqfs.Proofs.PackPos
import Sqfs.Proofs.Export
import Sqfs.Proofs.C17Export
import Sqfs.Proofs.C17SortTree
import Sqfs.Proofs.C17Mkfs
namespace Sqfs.C17
open Sqfs.Sort Sqfs.Pack

/-! ## Part 1 — the sort file -/

/-- the packing order is a permutation of the file list: no file is lost or duplicated -/
theorem sort_perm (fs : List FileEnt) : (sortFileList fs).Perm fs := by
  have := sortLoop_perm (·.priority) fs.length fs [] (Nat.le_refl _)
  simpa [sortFileList, sortBy] using this

/-- the file list of the instances: three files, a tie in priority -/
def exList : List FileEnt := [{ path := [97], priority := 7 }, { path := [98], priority := -5 }, { path := [99], priority := 7, flags := 1 }]
example := sort_perm exList

/-- ascending priority -/
theorem sort_sorted (fs : List FileEnt) : (sortFileList fs).Pairwise (fun a b => a.priority ≤ b.priority) := by
  exact sortLoop_sorted (·.priority) fs.length fs [] (Nat.le_refl _) List.Pairwise.nil (by simp)

example := sort_sorted exList

/-- stable: for every priority `p`, the files of priority `p` appear in their default (input) order -/
theorem sort_stable (fs : List FileEnt) (p : Int) :
    (sortFileList fs).filter (fun f => f.priority == p) = fs.filter (fun f => f.priority == p) := by
  have := sortLoop_stable (·.priority) p fs.length fs [] (Nat.le_refl _)
  simpa [sortFileList, sortBy] using this

example := sort_stable exList 7

/-- **First match wins.**  With distinct paths (a tree has no two files of the same path), every file ends up with
priority and flags of the *first* line of the sort file that matches its path, and with the defaults `(0, 0)` if no
line matches — whatever later lines say, however patterns overlap. -/
theorem first_match_wins (mt : Matcher) (ls : List SortLine) (paths : List (List UInt8)) (hnd : paths.Nodup) :
    applyLines mt ls (resetFiles (paths.map (fun p => ({ path := p } : FileEnt))))
      = paths.map (fun p => match ls.find? (fun l => lineMatches mt l p) with
          | some l => ({ path := p, priority := l.priority, flags := l.dir.flags, matched := true } : FileEnt)
          | none => { path := p }) := by
  have hreset : resetFiles (paths.map (fun p => ({ path := p } : FileEnt))) = paths.map (fun p => { path := p }) := by
    simp [resetFiles, List.map_map, Function.comp_def]
  rw [hreset, applyLines_eq_map mt ls _ (by simpa [List.map_map, Function.comp_def] using hnd)]
  simp only [List.map_map, Function.comp_def]
  apply List.map_congr_left
  intro p _
  exact foldl_stepFile_fresh mt ls p

/-- instance: "*" matches everything; overlapping glob and exact lines over three distinct paths -/
def exMatcher : Matcher := fun _ pat path => pat == [42] || pat == path
example := first_match_wins exMatcher [⟨-5, {}, [98]⟩, ⟨7, { doGlob := true, flags := 1 }, [42]⟩, ⟨-9, {}, [97]⟩] [[97], [98], [99]]
  (by decide)

/-- **An exact-path line matches one file.**  A line without `glob`/`glob_no_path` changes at most one entry of the
file list: the first not yet matched file whose path equals the name (also when paths repeat). -/
theorem exact_line_matches_one (mt : Matcher) (l : SortLine) (h : l.dir.doGlob = false) (fs : List FileEnt) :
    applyLine mt l fs = fs ∨
    ∃ pre f post, fs = pre ++ f :: post ∧ f.matched = false ∧ f.path = l.pattern
      ∧ (∀ g ∈ pre, g.matched = true ∨ g.path ≠ l.pattern)
      ∧ applyLine mt l fs = pre ++ mark l f :: post := by
  induction fs with
  | nil => left; rfl
  | cons f fs ih =>
    simp only [applyLine]
    by_cases hm : f.matched = true
    · simp only [hm, if_true]
      rcases ih with ih | ⟨pre, g, post, h1, h2, h3, h4, h5⟩
      · left; rw [ih]
      · right
        refine ⟨f :: pre, g, post, by simp [h1], h2, h3, ?_, by simp [h5]⟩
        intro x hx
        rcases List.mem_cons.1 hx with hx | hx
        · subst hx; exact Or.inl hm
        · exact h4 x hx
    · simp only [hm, Bool.false_eq_true, if_false]
      by_cases hl : lineMatches mt l f.path = true
      · right
        simp only [hl, if_true, h, Bool.false_eq_true, if_false]
        refine ⟨[], f, fs, rfl, by simpa using hm, ?_, by simp, rfl⟩
        simpa [lineMatches, h] using hl
      · simp only [hl, Bool.false_eq_true, if_false]
        have hne : f.path ≠ l.pattern := by
          intro e; apply hl; simp [lineMatches, h, e]
        rcases ih with ih | ⟨pre, g, post, h1, h2, h3, h4, h5⟩
        · left; rw [ih]
        · right
          refine ⟨f :: pre, g, post, by simp [h1], h2, h3, ?_, by simp [h5]⟩
          intro x hx
          rcases List.mem_cons.1 hx with hx | hx
          · subst hx; exact Or.inr hne
          · exact h4 x hx

/-- instance: the path of the line occurs three times in the list, once already matched by an earlier line; the line marks
one entry (the second disjunct holds: the list changes) -/
example := exact_line_matches_one exMatcher ⟨-5, {}, [98]⟩ rfl
  [{ path := [97] }, { path := [98], matched := true }, { path := [98] }, { path := [98] }]
example : applyLine exMatcher ⟨-5, {}, [98]⟩ [{ path := [97] }, { path := [98], matched := true }, { path := [98] }, { path := [98] }]
    ≠ [{ path := [97] }, { path := [98], matched := true }, { path := [98] }, { path := [98] }] := by decide

/-- **Quoted names.**  Every name — whatever bytes it contains — can be written in a sort file between quotes
(`\"` for `"`, `\\` for `\`) and is then decoded to exactly that name (and canonicalised like an unquoted one).
This is the current decoder (/repo 3c63401); the one before it appended the stale tail of the buffer (`Witness.d26_current`). -/
theorem quoted_name_decodes (n : List UInt8) :
    decodeFilename true (QUOTE :: (escapeName n ++ [QUOTE]))
      = match Sqfs.Path.canonicalize n with
        | none => .error .canon
        | some r => .ok r := by
  unfold decodeFilename
  simp only [if_true, unquote_escape n [], ne_eq, not_true_eq_false, if_false]
  cases Sqfs.Path.canonicalize n <;> rfl

/-- instance: a name with a quote, a backslash, a blank and a slash -/
example := quoted_name_decodes [97, 34, 92, 32, 47, 98]

-- non-vacuity: a concrete run with negative priorities, a tie, overlapping glob and exact lines
example :
    let mt : Matcher := fun _ pat path => pat == [42] || pat == path      -- "*" matches everything
    let ls : List SortLine := [⟨-5, {}, [98]⟩, ⟨7, { doGlob := true, flags := 1 }, [42]⟩, ⟨-9, {}, [97]⟩]
    (sortFileList (applyLines mt ls (resetFiles [{ path := [97] }, { path := [98] }, { path := [99] }]))).map
        (fun f => (f.path, f.priority, f.flags))
      = [([98], -5, 0), ([97], 7, 1), ([99], 7, 1)] := by decide

open Sqfs.C17SortTree in
open Sqfs.FsTree hiding FileEnt sortFileList sortFiles in
/-- **The sort file does not change the tree.**  `fstree_sort_files` on a whole `fstree_t` (`FsTree.Result`): the
node tree (names, modes, owners, targets, link counts) and the `fs->inodes` array (hence every inode number) are the
ones it was given, `fs->files` is a permutation of the old list, and the per-file attributes it leaves behind are
exactly what the list-level model `sortFiles` (the function compared with the real code on every run, and the subject
of the theorems above) computes for the files' paths.  The first two conjuncts hold by construction of the model —
the model writes no other field; that the *real* function writes no other field of any node is observed on every run
(harness op `sortx`, dump of the complete tree before and after), not proved. -/
theorem directives_preserve_tree (terminate : Bool) (mt : Matcher) (rawLines : List (List UInt8)) (R : Result) (s : Sorted)
    (h : fstreeSortFiles terminate mt rawLines R = .ok s) :
    s.fs.tree = R.tree ∧ s.fs.inodes = R.inodes ∧ s.fs.files.Perm R.files
      ∧ s.attrs.map (·.path) = s.fs.files.map joinPath
      ∧ sortFiles terminate mt rawLines (R.files.map joinPath) = .ok s.attrs := by
  unfold fstreeSortFiles at h
  cases hd : decodeLines terminate 0 rawLines with
  | error e => rw [hd] at h; cases h
  | ok ls =>
    rw [hd] at h
    simp only [Except.ok.injEq] at h
    subst h
    -- the marked list, one entry per file of `R.files`
    generalize hm : applyLines mt ls (resetFiles (R.files.map (fun p => ({ path := joinPath p } : FileEnt)))) = marked
    have hpaths : marked.map (·.path) = R.files.map joinPath := by
      rw [← hm, applyLines_paths]; simp [resetFiles, List.map_map, Function.comp_def]
    have hlen : marked.length = R.files.length := by simpa using congrArg List.length hpaths
    have hperm := sortBy_perm (fun x : Path × FileEnt => x.2.priority) (R.files.zip marked)
    refine ⟨rfl, rfl, ?_, ?_, ?_⟩
    · have := hperm.map (·.1)
      rwa [List.map_fst_zip (by omega)] at this
    · simp only [List.map_map]
      apply List.map_congr_left
      intro x hx
      exact zip_rel joinPath (·.path) R.files marked hpaths x (hperm.mem_iff.mp hx)
    · simp only [sortFiles, hd, sortFileList]
      have e : (R.files.map joinPath).map (fun p => ({ path := p } : FileEnt))
          = R.files.map (fun p => ({ path := joinPath p } : FileEnt)) := by simp [List.map_map, Function.comp_def]
      rw [e, hm]
      have := sortBy_map (fun x : Path × FileEnt => x.2) (fun f : FileEnt => f.priority) (R.files.zip marked)
      rw [List.map_snd_zip (by omega)] at this
      exact congrArg Except.ok this.symm


open Sqfs.C17SortTree in
open Sqfs.FsTree hiding FileEnt sortFileList sortFiles in
/-- instance with the hypothesis met: two files, the second is moved to the front by the line `-5 b` -/
example : ∃ s, fstreeSortFiles true (fun _ _ _ => false) [[45, 53, 32, 98]]
      { tree := default, inodes := [[[98]], [[97]], []], files := [[[97]], [[98]]] } = .ok s ∧
    s.fs.inodes = [[[98]], [[97]], []] ∧ s.fs.files.Perm [[[97]], [[98]]] := by
  have hk : (fstreeSortFiles true (fun _ _ _ => false) [[45, 53, 32, 98]]
      { tree := default, inodes := [[[98]], [[97]], []], files := [[[97]], [[98]]] }).toBool = true := by decide
  cases h : fstreeSortFiles true (fun _ _ _ => false) [[45, 53, 32, 98]]
      { tree := default, inodes := [[[98]], [[97]], []], files := [[[97]], [[98]]] } with
  | error e => rw [h] at hk; cases hk
  | ok s =>
    have := directives_preserve_tree true (fun _ _ _ => false) [[45, 53, 32, 98]] _ s h
    exact ⟨s, rfl, this.2.1, this.2.2.1⟩

-- non-vacuity: two files, the second is moved to the front; tree and inode array are carried along
open Sqfs.C17SortTree in
open Sqfs.FsTree hiding FileEnt sortFileList sortFiles in
example :
    let R : Result := { tree := default, inodes := [[[98]], [[97]], []], files := [[[97]], [[98]]] }
    (fstreeSortFiles true (fun _ _ _ => false) [[45, 53, 32, 98]] R).toOption.map
        (fun s => (s.fs.inodes, s.fs.files, s.attrs.map (fun f => (f.path, f.priority))))
      = some ([[[98]], [[97]], []], [[[98]], [[97]]], [([98], -5), ([97], 0)]) := by decide

/-! ### from the sort file's text to the flags `specPack` is given -/

open Sqfs.C17Mkfs in
/-- **`sort_then_pack_flags`.**  The whole way of a directive, for every sort file (as text), every file list with distinct
paths, every `-T` setting, block size and file contents: if `fstree_sort_files` accepts the sort file, then
`decodeLines` turned its text into lines `ls` (priority, flag word, glob kind, name — `decode_priority` / `decode_flags` /
`decode_filename`), `fs->files` afterwards is the first-match marking of the default list sorted stably by priority
(so `sort_perm` / `sort_sorted` / `sort_stable` speak about it), and `pack_files` (`Sqfs/Model/C17Mkfs.lean`) hands the
files to the block processor **in exactly that order**, file `f` with its contents and with the flags
`effectiveFlags (-T) B size (flags of the first line of the sort file that matches f's path)` — `Flags.ofNat 0`, i.e. no
flag, when no line matches; never a later line's flags, never another file's.  The list on the right is what the
`specPack` theorems of Part 2 (and, through `Sqfs.C02.run_eq_specPack` / `threaded_directives`, the block processor
model) take as `files`. -/
theorem sort_then_pack_flags (mt : Matcher) (rawLines : List (List UInt8)) (paths : List (List UInt8)) (hnd : paths.Nodup)
    (noTail : Bool) (B : Nat) (content : List UInt8 → List UInt8) (inputs : List InFile)
    (h : sortThenPack mt (some rawLines) paths noTail B content = .ok inputs) :
    ∃ ls sorted, decodeLines true 0 rawLines = .ok ls ∧
      sorted = sortFileList (paths.map (fun p => match ls.find? (fun l => lineMatches mt l p) with
          | some l => ({ path := p, priority := l.priority, flags := l.dir.flags, matched := true } : FileEnt)
          | none => { path := p })) ∧
      (sorted.map (·.path)).Perm paths ∧
      inputs = sorted.map (fun f => (⟨effectiveFlags noTail B (content f.path).length
          (Flags.ofNat (match ls.find? (fun l => lineMatches mt l f.path) with | some l => l.dir.flags | none => 0)),
          content f.path⟩ : InFile)) := by
  unfold sortThenPack sortFiles at h
  cases hd : decodeLines true 0 rawLines with
  | error e => simp [hd] at h
  | ok ls =>
    simp only [hd, Except.ok.injEq] at h
    rw [first_match_wins mt ls paths hnd] at h
    refine ⟨ls, _, rfl, rfl, ?_, ?_⟩
    · have hp := (sort_perm (paths.map (fun p => match ls.find? (fun l => lineMatches mt l p) with
          | some l => ({ path := p, priority := l.priority, flags := l.dir.flags, matched := true } : FileEnt)
          | none => { path := p }))).map (·.path)
      refine hp.trans (List.Perm.of_eq ?_)
      rw [List.map_map]
      conv => rhs; rw [← List.map_id paths]
      apply List.map_congr_left
      intro p _
      simp only [Function.comp]
      split <;> rfl
    · rw [← h, packFiles_eq_map]
      apply List.map_congr_left
      intro f hf
      have hf' := (sort_perm _).mem_iff.mp hf
      obtain ⟨p, _, rfl⟩ := List.mem_map.mp hf'
      simp only [C17Mkfs.packFile, ofNat_packFileFlags]
      cases hfd : ls.find? (fun l => lineMatches mt l p) with
      | none => simp only [hfd]
      | some l => simp only [hfd]

open Sqfs.C17Mkfs in
/-- no sort file: default order, no flag but what `-T` adds -/
theorem no_sort_file_pack_flags (mt : Matcher) (paths : List (List UInt8)) (noTail : Bool) (B : Nat)
    (content : List UInt8 → List UInt8) :
    sortThenPack mt none paths noTail B content
      = .ok (paths.map (fun p => (⟨effectiveFlags noTail B (content p).length {}, content p⟩ : InFile))) := by
  simp only [sortThenPack, packFiles_eq_map, List.map_map]
  congr 1
  apply List.map_congr_left
  intro p _
  simp only [Function.comp, C17Mkfs.packFile, ofNat_packFileFlags, ofNat_zero]

open Sqfs.C17Mkfs in
/-- **text → flag word.**  An accepted flag list sets exactly the bits of the names it contains (each argument trimmed;
`glob` / `glob_no_path` set none): `dont_compress`, `dont_fragment`, `dont_deduplicate`, `nosparse` reach `specPack`'s
`Flags` as the fields of the same name, `DONT_HASH` is never set. -/
theorem flag_list_decodes (args : List (List UInt8)) (d : Directives) (h : applyFlagNames {} args = .ok d) :
    Flags.ofNat d.flags =
      { dontCompress := (args.map trim).any (· == nmDontCompress)
        dontHash := false
        dontFragment := (args.map trim).any (· == nmDontFragment)
        dontDedup := (args.map trim).any (· == nmDontDeduplicate)
        ignoreSparse := (args.map trim).any (· == nmNosparse) } := by
  rw [applyFlagNames_flags args {} d h]
  simp only [Flags.ofNat, testBit_foldl, nameBit_compress, nameBit_hash, nameBit_fragment, nameBit_dedup, nameBit_sparse]
  simp [testBit]

/-- instance: the sort file `-5 [dont_compress] b⏎ 7 [glob,nosparse] *⏎` over `a`, `b`, `c` with `-T`, block size 4:
`b` is packed first with `dont_compress` (its own line, not the later `*`), then `a` and `c` with `nosparse`; `c` is larger
than a block and gets `dont_fragment` from `-T` -/
example :
    (Sqfs.C17Mkfs.sortThenPack exMatcher
      (some [[45, 53, 32, 91, 100, 111, 110, 116, 95, 99, 111, 109, 112, 114, 101, 115, 115, 93, 32, 98],
             [55, 32, 91, 103, 108, 111, 98, 44, 110, 111, 115, 112, 97, 114, 115, 101, 93, 32, 42]])
      [[97], [98], [99]] true 4 (fun p => if p = [99] then [1, 2, 3, 4, 5] else p)).toOption.map
        (fun l => l.map (fun f => (f.flags, f.data)))
    = some [({ dontCompress := true }, [98]), ({ ignoreSparse := true }, [97]),
            ({ ignoreSparse := true, dontFragment := true }, [1, 2, 3, 4, 5])] := by decide
example := fun inputs h => sort_then_pack_flags exMatcher
      [[45, 53, 32, 91, 100, 111, 110, 116, 95, 99, 111, 109, 112, 114, 101, 115, 115, 93, 32, 98],
       [55, 32, 91, 103, 108, 111, 98, 44, 110, 111, 115, 112, 97, 114, 115, 101, 93, 32, 42]]
      [[97], [98], [99]] (by decide) true 4 (fun p => if p = [99] then [1, 2, 3, 4, 5] else p) inputs h
example := no_sort_file_pack_flags exMatcher [[97], [98], [99]] true 4 (fun p => if p = [99] then [1, 2, 3, 4, 5] else p)
/-- instance: the flag list ` nosparse,glob` (blank before the name) -/
example := flag_list_decodes [[32, 110, 111, 115, 112, 97, 114, 115, 101], [103, 108, 111, 98]]
  { doGlob := true, pathGlob := true, flags := 16 } (by rfl)

/-! ## Part 2 — `specPack`: each directive has exactly its layout effect -/

/-! the instances of Parts 2 and 3: block size 4, a codec that really compresses (`7 7 7 7 ↦ 9`) **and meets the contract
`Codec.Ok`** (`exCodec_ok`), six files — a dedup hit (files 0, 1), `dont_deduplicate` (2), `nosparse` with an all-zero tail (3),
all three layout flags on a file ending in zero blocks (4), `dont_compress` on compressible data with a tail (5) -/

def exCodec : Codec := ⟨fun x => if x = [7, 7, 7, 7] then some [9] else none, fun z => if z = [9] then [7, 7, 7, 7] else z⟩
theorem exCodec_ok : exCodec.Ok := by
  constructor
  · intro x z h; simp only [exCodec] at h; split at h
    · cases h; subst x; decide
    · cases h
  · intro x z h; simp only [exCodec] at h; split at h
    · cases h; subst x; decide
    · cases h
def exParams : Params := { B := 4, base := 96, h := fun _ => 0, codec := exCodec }
def exFlags3 : Flags := { dontCompress := true, dontFragment := true, ignoreSparse := true }
def exFiles : List InFile :=
  [⟨{}, [7, 7, 7, 7, 1, 2]⟩, ⟨{}, [7, 7, 7, 7, 1, 2]⟩, ⟨{ dontDedup := true }, [7, 7, 7, 7, 1, 2]⟩,
   ⟨{ ignoreSparse := true }, [0, 0, 0, 0, 0]⟩, ⟨exFlags3, [7, 7, 7, 7, 0, 0, 0, 0, 0, 0]⟩,
   ⟨{ dontCompress := true }, [7, 7, 7, 7, 7, 7, 7, 7, 1, 2]⟩]
/-- the codec does compress on these inputs: file 0's first block is stored as one byte -/
example : ((specPack exParams exFiles).files[0]?).map (fun r => r.words.map Word.toNat) = some [1] := by decide

/-- **`dont_compress`, block words.**  Every block word of a `dont_compress` file is a hole or carries the
"stored uncompressed" bit. -/
theorem dont_compress_words (P : Params) (files : List InFile) (i : Nat) (h : i < files.length)
    (hf : files[i].flags.dontCompress = true) :
    ∃ r, (specPack P files).files[i]? = some r ∧
      ∀ w ∈ r.words, w = .sparse ∨ ∃ n, w = .stored n true := by
  apply specPack_lift P files (fun f r => f.flags.dontCompress = true → ∀ w ∈ r.words, w = .sparse ∨ ∃ n, w = .stored n true) _ i h |>.imp
  · intro r hr; exact ⟨hr.1, hr.2 hf⟩
  · intro σ f hdc w hw
    by_cases hne : f.data = []
    · rw [packFile_empty P σ f hne] at hw; simp at hw
    · have hs := (packFile_shape P σ f hne _ rfl).2
      have hdw : ∀ w ∈ dataWords P f, w = .sparse ∨ ∃ n, w = .stored n true := by
        intro w hw
        obtain ⟨d, _, rfl⟩ := List.mem_map.1 hw
        exact workData_word_dontCompress P f.flags d hdc
      rcases hs with ⟨_, hw', _⟩ | ⟨_, _, _, hw', _⟩ | ⟨_, hw', _⟩
      · rw [hw'] at hw; exact hdw w hw
      · rw [hw'] at hw
        rcases List.mem_append.1 hw with hw | hw
        · exact hdw w hw
        · left; simpa using hw
      · rw [hw'] at hw; exact hdw w hw

example := dont_compress_words exParams exFiles 4 (by decide) rfl
example := dont_compress_words exParams exFiles 5 (by decide) rfl

/-- **`dont_fragment`.**  No fragment reference; the tail end is stored as block `k`: the inode has
`⌈size / B⌉` block words. -/
theorem dont_fragment_effect (P : Params) (files : List InFile) (i : Nat) (h : i < files.length)
    (hf : files[i].flags.dontFragment = true) :
    ∃ r, (specPack P files).files[i]? = some r ∧ r.frag = none ∧
      r.words.length = files[i].data.length / P.B + (if files[i].data.length % P.B > 0 then 1 else 0) := by
  apply specPack_lift P files (fun f r => f.flags.dontFragment = true → r.frag = none ∧
      r.words.length = f.data.length / P.B + (if f.data.length % P.B > 0 then 1 else 0)) _ i h |>.imp
  · intro r hr; exact ⟨hr.1, hr.2 hf⟩
  · intro σ f hdf
    by_cases hne : f.data = []
    · rw [packFile_empty P σ f hne]; simp [hne]
    · have hs := (packFile_shape P σ f hne _ rfl).2
      have hnt : hasTailFrag P.B f = false := by simp [hasTailFrag, hdf]
      rcases hs with ⟨_, hw', hfr, _⟩ | ⟨ht, _⟩ | ⟨ht, _⟩
      · refine ⟨hfr, ?_⟩
        rw [hw']
        simp only [dataWords, List.length_map, dataBlocksOf_length, hdf, Bool.and_true, decide_eq_true_eq]
      · rw [hnt] at ht; cases ht
      · rw [hnt] at ht; cases ht

example := dont_fragment_effect exParams exFiles 4 (by decide) rfl

/-- **`nosparse`.**  No block word of the file is a hole, the sparse counter is 0 (so the inode is not made
extended on account of holes) and a tail end that is packed as a fragment does get a fragment reference —
all-zero blocks and all-zero tails included. -/
theorem nosparse_effect (P : Params) (files : List InFile) (i : Nat) (h : i < files.length)
    (hf : files[i].flags.ignoreSparse = true) :
    ∃ r, (specPack P files).files[i]? = some r ∧ (∀ w ∈ r.words, w ≠ .sparse) ∧ r.sparse = 0 ∧ r.extended = false
      ∧ (hasTailFrag P.B files[i] = true → ∃ idx off, r.frag = some (idx, off)) := by
  apply specPack_lift P files (fun f r => f.flags.ignoreSparse = true → (∀ w ∈ r.words, w ≠ .sparse) ∧ r.sparse = 0
      ∧ r.extended = false ∧ (hasTailFrag P.B f = true → ∃ idx off, r.frag = some (idx, off))) _ i h |>.imp
  · intro r hr; exact ⟨hr.1, hr.2 hf⟩
  · intro σ f hns
    by_cases hne : f.data = []
    · rw [packFile_empty P σ f hne]; simp [FileResult.extended, hasTailFrag, hne]
    · have hs := (packFile_shape P σ f hne _ rfl).2
      have hdw : ∀ w ∈ dataWords P f, w ≠ .sparse := by
        intro w hw
        obtain ⟨d, _, rfl⟩ := List.mem_map.1 hw
        obtain ⟨s, hs⟩ := workData_nosparse P f.flags d hns
        simp [hs, Worked.word, Stored.word]
      have hsp : ((dataBlocksOf P.B f).map (fun d => (workData P f.flags d).sparseBytes)).sum = 0 := by
        apply sum_eq_zero_of_all
        intro x hx
        obtain ⟨d, _, rfl⟩ := List.mem_map.1 hx
        obtain ⟨s, hs⟩ := workData_nosparse P f.flags d hns
        simp [hs, Worked.sparseBytes]
      rcases hs with ⟨ht, hw', _, hsp'⟩ | ⟨_, hi, _⟩ | ⟨_, hw', hfr, hsp'⟩
      · refine ⟨by rw [hw']; exact hdw, by rw [hsp', hsp], by simp [FileResult.extended, hsp', hsp], ?_⟩
        intro h'; rw [ht] at h'; cases h'
      · rw [hns] at hi; cases hi
      · exact ⟨by rw [hw']; exact hdw, by rw [hsp', hsp], by simp [FileResult.extended, hsp', hsp], fun _ => hfr⟩

example := nosparse_effect exParams exFiles 3 (by decide) rfl
example := nosparse_effect exParams exFiles 4 (by decide) rfl
example : hasTailFrag exParams.B exFiles[3] = true := by decide

-- non-vacuity of the three: a `nosparse, dont_fragment, dont_compress` file of zero bytes (B = 4, no compression)
example :
    let P : Params := { B := 4, base := 96, codec := ⟨fun _ => none, id⟩, h := fun _ => 0 }
    let F : Flags := { dontCompress := true, dontFragment := true, ignoreSparse := true }
    (specPack P [⟨F, [0, 0, 0, 0, 0, 0]⟩]).files
      = [⟨6, [.stored 4 true, .stored 2 true], 96, none, 0, false⟩] := by decide

/-- **`--no-tail-packing` affects only files larger than one block** — **definition-level**: this restates the one-line model
`effectiveFlags` of the option handling (`if (opt->no_tail_packing && filesize > block_size) flags |= DONT_FRAGMENT`; proof:
`simp [effectiveFlags]`) and carries no weight of its own.  The flag word that `pack_file` (`mkfs.c`) / `write_file`
(`tar2sqfs`) hands to the block processor is the sort-file flag word for every file of at most one block, and differs from it
exactly in `DONT_FRAGMENT` for larger files; without `-T` it is always the sort-file flag word.  The statement with content is
the layout consequence `no_tail_packing_layout` below; that the real option handling is this line is compared on real images. -/
theorem no_tail_packing_only_large (B size : Nat) (F : Flags) :
    (size ≤ B → effectiveFlags true B size F = F)
    ∧ (size > B → effectiveFlags true B size F = { F with dontFragment := true })
    ∧ effectiveFlags false B size F = F := by
  refine ⟨?_, ?_, ?_⟩
  · intro h; simp [effectiveFlags, Nat.not_lt.2 h]
  · intro h; simp [effectiveFlags, h]
  · simp [effectiveFlags]

example := no_tail_packing_only_large 4 6 exFlags3

/-- … and the layout consequence: with `-T`, a file of at most one block is packed exactly as without `-T`
(in every state), a larger file never gets a fragment reference. -/
theorem no_tail_packing_layout (P : Params) (σ : State) (F : Flags) (d : List UInt8) :
    (d.length ≤ P.B → packFile P σ ⟨effectiveFlags true P.B d.length F, d⟩ = packFile P σ ⟨F, d⟩)
    ∧ (d.length > P.B → (packFile P σ ⟨effectiveFlags true P.B d.length F, d⟩).2.frag = none) := by
  refine ⟨?_, ?_⟩
  · intro h; rw [(no_tail_packing_only_large P.B d.length F).1 h]
  · intro h
    rw [(no_tail_packing_only_large P.B d.length F).2.1 h]
    have hne : d ≠ [] := by intro e; subst e; simp at h
    have hs := (packFile_shape P σ ⟨{ F with dontFragment := true }, d⟩ hne _ rfl).2
    have hnt : hasTailFrag P.B ⟨{ F with dontFragment := true }, d⟩ = false := by simp [hasTailFrag]
    rcases hs with ⟨_, _, hfr, _⟩ | ⟨ht, _⟩ | ⟨ht, _⟩
    · exact hfr
    · rw [hnt] at ht; cases ht
    · rw [hnt] at ht; cases ht

example := no_tail_packing_layout exParams {} {} [7, 7, 7, 7, 1, 2]
example := (no_tail_packing_layout exParams {} {} [7, 7, 7, 7, 1, 2]).2 (by decide)
example := (no_tail_packing_layout exParams {} {} [7, 7, 1]).1 (by decide)

/-! ## Part 3 — `specPack`: effects that involve other files, and the contents -/

/-- **`dont_compress`** (full statement).  Every block word of such a file is a hole or has the "stored
uncompressed" bit, **and** the fragment block that holds its tail end is stored uncompressed — also when the tail is
deduplicated (a `dont_compress` tail is only ever shared with `dont_compress` tails; D27 was the code before /repo fcd11e4
breaking this). -/
theorem dont_compress_effect (P : Params) (files : List InFile) (i : Nat) (h : i < files.length)
    (hf : files[i].flags.dontCompress = true) :
    ∃ r, (specPack P files).files[i]? = some r
      ∧ (∀ w ∈ r.words, w = .sparse ∨ ∃ n, w = .stored n true)
      ∧ (∀ k o, r.frag = some (k, o) → ∃ e, (specPack P files).frags[k]? = some e ∧ e.raw = true) := by
  obtain ⟨r, hr, hw⟩ := dont_compress_words P files i h hf
  obtain ⟨r', hr', hfr⟩ := dont_compress_frag_raw P files i h hf
  rw [hr] at hr'; cases hr'
  exact ⟨r, hr, hw, hfr⟩

example := dont_compress_effect exParams exFiles 5 (by decide) rfl

/-- **`dont_deduplicate`.**  The file's blocks are its own (`shared = false`): they start where the data area
ended when the file was packed, i.e. behind the blocks of every earlier file; and its fragment does not overlap the
fragment of any earlier file (own fragment slot). -/
theorem dont_dedup_effect (P : Params) (files : List InFile) (i j : Nat) (hij : i < j) (hj : j < files.length)
    (hf : files[j].flags.dontDedup = true) :
    ∃ ri rj, (specPack P files).files[i]? = some ri ∧ (specPack P files).files[j]? = some rj
      ∧ rj.shared = false
      ∧ (diskBytes rj.words > 0 → ri.start + diskBytes ri.words ≤ rj.start)
      ∧ (∀ a o b o', ri.frag = some (a, o) → rj.frag = some (b, o') →
            a ≠ b ∨ o + (files[i]'(by omega)).data.length % P.B ≤ o') := by
  obtain ⟨ri, rj, h1, h2, hb, hs⟩ := blocks_before P files i j hij hj
  obtain ⟨ri', rj', h1', h2', hfr⟩ := frag_slot_disjoint P files i j hij hj
  rw [h1] at h1'; cases h1'
  rw [h2] at h2'; cases h2'
  exact ⟨ri, rj, h1, h2, hs hf, hb (hs hf), hfr hf⟩

example := dont_dedup_effect exParams exFiles 0 2 (by decide) (by decide) rfl

/-- **The layout follows the order.**  For files `i < j` of the (sorted) list that both own stored blocks, `j` not
sharing: `i`'s blocks lie entirely before `j`'s first block; in particular the start offsets ascend strictly. -/
theorem layout_follows_order (P : Params) (hB : 0 < P.B) (hc : P.codec.Ok) (files : List InFile) (i j : Nat)
    (hij : i < j) (hj : j < files.length) :
    ∃ ri rj, (specPack P files).files[i]? = some ri ∧ (specPack P files).files[j]? = some rj
      ∧ (rj.shared = false → (∃ n raw, Word.stored n raw ∈ rj.words) →
          ri.start + diskBytes ri.words ≤ rj.start
          ∧ ((∃ n raw, Word.stored n raw ∈ ri.words) → ri.start < rj.start)) := by
  obtain ⟨ri, rj, h1, h2, hb, _⟩ := blocks_before P files i j hij hj
  refine ⟨ri, rj, h1, h2, ?_⟩
  intro hns ⟨n, raw, hm⟩
  obtain ⟨σj, hσj⟩ := packFiles_getElem P files {} j hj
  rw [specPack_files] at h2
  rw [h2] at hσj; cases hσj
  have hposj := diskBytes_pos _ (words_pos P hB hc σj files[j]) n raw hm
  have hle := hb hns hposj
  refine ⟨hle, ?_⟩
  intro ⟨n', raw', hm'⟩
  obtain ⟨σi, hσi⟩ := packFiles_getElem P files {} i (by omega)
  rw [specPack_files] at h1
  have hri : ri = (packFile P σi (files[i]'(by omega))).2 := Option.some.inj (h1.symm.trans hσi)
  rw [hri] at hm'
  have hposi := diskBytes_pos _ (words_pos P hB hc σi (files[i]'(by omega))) n' raw' hm'
  rw [← hri] at hposi
  omega

/-- instance with a codec that compresses and is proved to meet `Codec.Ok` -/
example := layout_follows_order exParams (by decide) exCodec_ok exFiles 0 2 (by decide) (by decide)

/-- **The directives do not change the contents.**  Whatever the flags, the order and the other files: reading
file `i` back from the `specPack` layout — block words in order, a hole as zeros, a stored block via `unc` unless
raw, the tail end from its fragment block — yields exactly the file's input bytes. -/
theorem directives_preserve_content (P : Params) (hB : 0 < P.B) (hc : P.codec.Ok) (files : List InFile) (i : Nat)
    (h : i < files.length) :
    ∃ r, (specPack P files).files[i]? = some r ∧ readFile P (specPack P files) r = files[i].data :=
  readFile_specPack P hB hc files i h

example : ∃ r, (specPack exParams exFiles).files[1]? = some r ∧ readFile exParams (specPack exParams exFiles) r = [7, 7, 7, 7, 1, 2] :=
  directives_preserve_content exParams (by decide) exCodec_ok exFiles 1 (by decide)
example := directives_preserve_content exParams (by decide) exCodec_ok exFiles 5 (by decide)

-- non-vacuity: dedup hit + dont_deduplicate + nosparse + a compressing codec that satisfies the contract on the inputs
example :
    let P : Params := { B := 4, base := 96, h := fun _ => 0,
                        codec := ⟨fun x => if x = [7, 7, 7, 7] then some [9] else none, fun z => if z = [9] then [7, 7, 7, 7] else z⟩ }
    let fs : List InFile := [⟨{}, [7, 7, 7, 7, 1, 2]⟩, ⟨{}, [7, 7, 7, 7, 1, 2]⟩, ⟨{ dontDedup := true }, [7, 7, 7, 7, 1, 2]⟩,
                             ⟨{ ignoreSparse := true }, [0, 0, 0, 0, 0]⟩]
    (specPack P fs).files.map (fun r => (r.start, r.frag, r.shared)) = [(96, some (0, 0), false), (96, some (0, 0), true),
        (97, some (0, 2), false), (98, some (1, 0), false)]
    ∧ (specPack P fs).files.map (readFile P (specPack P fs)) = fs.map (·.data) := by decide

/-- **The directives do not change what the inode says about the file's length.**  One result per input file, in
input order, and its size field is the input length — whatever the flags. -/
theorem directives_preserve_size (P : Params) (files : List InFile) :
    (specPack P files).files.length = files.length
    ∧ ∀ i (h : i < files.length), ∃ r, (specPack P files).files[i]? = some r ∧ r.size = files[i].data.length := by
  refine ⟨by rw [specPack_files]; exact packFiles_length P files {}, ?_⟩
  intro i h
  apply specPack_lift P files (fun f r => r.size = f.data.length) _ i h
  intro σ f
  by_cases hne : f.data = []
  · rw [packFile_empty P σ f hne]; simp [hne]
  · exact (packFile_shape P σ f hne _ rfl).1


example := directives_preserve_size exParams exFiles

/-! ## Part 4 — the export table

`export_table_ok` is about the ideal table (a list that grows on demand).  `export_array_refines` and
`export_table_written` carry it to what `dir_writer.c` does: a `realloc`ed array with a capacity that doubles from 512,
a 0xFF fill of the gap, and `sqfs_write_table` cutting the `8 * N` bytes into 8 KiB metadata blocks.
`export_table_of_tree` discharges the hypothesis "every inode number occurs" from the inode numbering model. -/

/-- **Export table** (`--exportable`).  `ref m` = inode reference of inode number `m` (hard links repeat a
number with the same reference).  After `add_export_table_entry` for every directory entry (inode numbers `nums`,
in any order, with repetitions) and finally the root, where every inode number `1..N` occurs: the table has exactly
`N` entries and entry `m - 1` is the reference of inode `m`. -/
theorem export_table_ok (ref : Nat → UInt64) (nums : List Nat) (root N : Nat)
    (hrange : ∀ m ∈ nums ++ [root], 1 ≤ m ∧ m ≤ N) (hall : ∀ m, 1 ≤ m → m ≤ N → m ∈ nums ++ [root]) :
    (exportTable (nums.map (fun m => (m, ref m))) (root, ref root)).length = N
    ∧ ∀ m, 1 ≤ m → m ≤ N → (exportTable (nums.map (fun m => (m, ref m))) (root, ref root))[m - 1]? = some (ref m) := by
  rw [exportTable_eq_fold]
  obtain ⟨h1, _, h3⟩ := export_fold ref N (nums ++ [root]) [] hrange (by simp)
  have hN : 1 ≤ N := by
    have := hrange root (by simp); omega
  have hNin := h3 N (hall N hN (Nat.le_refl _))
  refine ⟨?_, fun m hm hmN => h3 m (hall m hm hmN)⟩
  unfold Has at hNin
  have : N - 1 < ((nums ++ [root]).foldl (fun t m => addExport t m (ref m)) []).length := by
    rcases Nat.lt_or_ge (N - 1) ((nums ++ [root]).foldl (fun t m => addExport t m (ref m)) []).length with h | h
    · exact h
    · rw [List.getElem?_eq_none_iff.2 h] at hNin; cases hNin
  omega

example : exportTable [(2, 100), (3, 7), (2, 100)] (1, 50) = [50, 100, 7] := by decide


/-- instance: numbers 2, 3, 2, 4 and root 1 cover 1…4 (`hall`), every number is in range (`hin`) -/
example := export_table_ok (fun m => UInt64.ofNat (m * 10)) [2, 3, 2, 4] 1 4 (by decide) (by
  intro m h1 h2
  have : m = 1 ∨ m = 2 ∨ m = 3 ∨ m = 4 := by omega
  rcases this with h | h | h | h <;> subst h <;> decide)

open Sqfs.C17Export in
/-- **The array of `dir_writer.c` holds the ideal table** — for every sequence of `add_export_table_entry` calls with
inode numbers ≥ 1 (any order, any gaps, beyond the initial 512 cells and beyond any later capacity): no call stores or
fills outside the allocation (`addAll` never yields `.outOfBounds`), `used` is the length of the ideal table, and the
`size * used` bytes handed to `sqfs_write_table` contain no indeterminate cell and are the little endian ideal table. -/
theorem export_array_refines (entries : List (Nat × UInt64)) (root : Nat × UInt64)
    (h : ∀ e ∈ entries ++ [root], 1 ≤ e.1) :
    ∃ a, addAll init (entries ++ [root]) = .ok a
      ∧ a.used = (exportTable entries root).length
      ∧ a.used ≤ a.cells.length
      ∧ tableBytes a = .ok ((exportTable entries root).flatMap le64) := by
  obtain ⟨a, h1, h2⟩ := addAll_inv (entries ++ [root]) init [] init_inv h
  exact ⟨a, h1, h2.1, h2.2.1, tableBytes_inv a _ h2⟩


open Sqfs.C17Export in
example := export_array_refines [(600, 7), (2, 9)] (1, 5) (by decide)

-- non-vacuity: entry 600 first (capacity 512 → 1024, gap filled), then two small ones
set_option maxRecDepth 16384 in
open Sqfs.C17Export in
example : (match addAll init [(600, 7), (2, 9), (1, 5)] with
    | .ok a => a.cells.length == 1024 && a.used == 600 && a.cells.take 3 == [some 5, some 9, some noRef]
    | .error _ => false) = true := by decide

open Sqfs.C17Export in
/-- **… and is written completely.**  The whole run (`add_entry` calls, root entry, `sqfs_write_table`) succeeds;
unpacking the metadata blocks in order gives back exactly the ideal table (8 bytes per inode); there are
`⌈8 N / 8192⌉` blocks — one per 1024 inodes — and as many location entries. -/
theorem export_table_written (cmp : MetaWriter.Codec) (entries : List (Nat × UInt64)) (root : Nat × UInt64)
    (h : ∀ e ∈ entries ++ [root], 1 ≤ e.1) :
    ∃ w, exportRun cmp entries root.1 root.2 = .ok w
      ∧ (w.1.map (·.raw)).flatten = (exportTable entries root).flatMap le64
      ∧ w.1.length = (8 * (exportTable entries root).length + (Consts.metaBlockSize - 1)) / Consts.metaBlockSize
      ∧ w.2.length = w.1.length := by
  have he : ∀ e ∈ entries, 1 ≤ e.1 := fun e hm => h e (List.mem_append_left _ hm)
  obtain ⟨a, h1, h2⟩ := addAll_inv entries init [] init_inv he
  obtain ⟨a', h3, h4⟩ := addEntry_inv a _ root.1 root.2 h2 (h root (by simp))
  have htb := tableBytes_inv a' _ h4
  have hfold : addExport (entries.foldl (fun t e => addExport t e.1 e.2) []) root.1 root.2 = exportTable entries root := by
    simp [exportTable, List.foldl_append]
  rw [hfold] at htb
  obtain ⟨w1, w2, w3, _⟩ := writeTable_spec cmp ((exportTable entries root).flatMap le64)
  refine ⟨_, by simp only [exportRun, h1, writeExport, h3, htb], w1, ?_, w3⟩
  rw [w2]
  have : ((exportTable entries root).flatMap le64).length = 8 * (exportTable entries root).length := by
    generalize exportTable entries root = t
    induction t with
    | nil => rfl
    | cons v t ih => simp only [List.flatMap_cons, List.length_append, ih, List.length_cons]; simp [le64]; omega
  rw [this]


open Sqfs.C17Export in
example := export_table_written (fun _ => none) [(600, 7), (2, 9)] (1, 5) (by decide)

open Sqfs.Numbering Sqfs.C17Export in
/-- **Every inode of a numbered tree gets its entry.**  `cs` = the root's children (any tree shape, hard-link entries
included), numbered as `alloc_inode_num_dfs` does (`Sqfs/Model/Numbering.lean`): `N` inodes, the root is number `N`.
For every list `nums` of `add_entry` calls that covers the children of all directories (`entriesT`; extra calls — the
hard-link entries — may repeat numbers of the tree), followed by the root's entry, the table is exactly
`[ref 1, …, ref N]`. -/
theorem export_table_of_tree (cs : List Tree) (ref : Nat → UInt64) (nums : List Nat)
    (hcov : ∀ m ∈ entriesT (numberRoot cs).1, m ∈ nums)
    (hin : ∀ m ∈ nums, 1 ≤ m ∧ m ≤ (numberRoot cs).2) :
    exportTable (nums.map (fun m => (m, ref m))) ((numberRoot cs).2, ref (numberRoot cs).2)
      = (List.range' 1 (numberRoot cs).2).map ref := by
  have hroot : (numberRoot cs).1 = .dir (numberRoot cs).2 (step2 (allocL cs 0).1 (allocL cs 0).2).1 := rfl
  have hN : 1 ≤ (numberRoot cs).2 := by simp [numberRoot]
  have hall : ∀ m, 1 ≤ m → m ≤ (numberRoot cs).2 → m ∈ nums ++ [(numberRoot cs).2] := by
    intro m h1 h2
    have hm : m ∈ numsT (numberRoot cs).1 := (numberRoot_perm cs).mem_iff.mpr (by simp [List.mem_range'_1]; omega)
    rw [hroot] at hm hcov
    simp only [numsT, List.mem_append, List.mem_singleton] at hm
    rcases hm with hm | hm
    · exact List.mem_append_left _ (hcov m (by simpa [entriesT] using nums_covered.2 _ m hm))
    · simp [hm]
  have hrange : ∀ m ∈ nums ++ [(numberRoot cs).2], 1 ≤ m ∧ m ≤ (numberRoot cs).2 := by
    intro m hm
    rcases List.mem_append.1 hm with hm | hm
    · exact hin m hm
    · simp at hm; omega
  obtain ⟨hl, hg⟩ := export_table_ok ref nums (numberRoot cs).2 (numberRoot cs).2 hrange hall
  apply List.ext_getElem?
  intro i
  by_cases hi : i < (numberRoot cs).2
  · have := hg (i + 1) (by omega) (by omega)
    simp only [Nat.add_sub_cancel] at this
    rw [this]
    grind
  · rw [List.getElem?_eq_none_iff.2 (by omega), List.getElem?_eq_none_iff.2 (by simp; omega)]


open Sqfs.Numbering Sqfs.C17Export in
/-- instance: five inodes, one hard link, one repeated call -/
example := export_table_of_tree [.file, .dir [.file, .hlink 0], .file] (fun m => UInt64.ofNat (m * 10)) [2, 3, 1, 4, 3] (by decide) (by decide)

-- non-vacuity: root = { file, dir { file, hard link }, file }: 5 inodes, the calls cover 1..4, the root is 5
open Sqfs.Numbering Sqfs.C17Export in
example :
    let cs : List Tree := [.file, .dir [.file, .hlink 0], .file]
    (numberRoot cs).2 = 5 ∧ entriesT (numberRoot cs).1 = [2, 3, 1, 4]
      ∧ (∀ m ∈ entriesT (numberRoot cs).1, 1 ≤ m ∧ m ≤ (numberRoot cs).2) := by decide

end Sqfs.C17
