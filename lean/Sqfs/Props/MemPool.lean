import Sqfs.Proofs.MemPool
/-!
Property theorems about `lib/util/src/mempool.c` (model `Sqfs/Model/MemPool.lean`; tied to the working tree by
`tools/checks/mempool_units.py` inside the C19 check).  `Inv p e live` (Sqfs/Proofs/MemPool.lean) is the consistency of a
pool with the list of objects handed out and not yet returned.
-/
namespace Sqfs.MemPool

theorem BlockWf.congr {p p' : Pool} {x : Block} (w : BlockWf p x) (h1 : p'.objSize = p.objSize) (h2 : p'.bitmapCount = p.bitmapCount) :
    BlockWf p' x :=
  ⟨by rw [h2]; exact w.len, w.free, by rw [h1, h2]; exact w.lim, by rw [h2]; exact w.hdr, by rw [h1]; exact w.align, by rw [h1, h2]; exact w.doff⟩

/-- setting the (clear) bit `k` of block `b`: the invariant holds with the slot's address added, and that address was not live -/
theorem inv_set {p : Pool} {e : Env} {live : List (Nat × Nat)} {pre post : List Block} {b b' : Block} {k : Nat}
    (h : Inv p e live) (hb : p.blocks = pre ++ b :: post) (hid : b'.id = b.id) (hd : b'.dataOff = b.dataOff)
    (hk : k < 32 * p.bitmapCount) (hwf : BlockWf p b')
    (hbits : ∀ k', bitAt b'.bitmap k' = if k' = k then true else bitAt b.bitmap k') (hold : bitAt b.bitmap k = false) :
    Inv { p with blocks := pre ++ b' :: post } e (slotAddr p.objSize b k :: live) ∧ slotAddr p.objSize b k ∉ live := by
  have hlu := liveIn_update (v := true) h.osz h.ids hb hid hd hk hbits (by simpa using hold)
  have hbm : b ∈ p.blocks := by rw [hb]; simp
  have hnot : slotAddr p.objSize b k ∉ live := by
    intro hin
    obtain ⟨b0, hb0, k0, hk0, hbit, heq⟩ := (h.live_iff _).mp hin
    simp only [slotAddr, Prod.mk.injEq] at heq
    have := eq_of_id_eq h.ids hbm hb0 heq.1
    subst this
    have := slot_inj h.osz heq.2
    subst this
    rw [hold] at hbit; cases hbit
  refine ⟨⟨h.osz, h.cnt, ?_, ?_, ?_, ?_, ?_⟩, hnot⟩
  · intro x hx
    simp only [List.mem_append, List.mem_cons] at hx
    rcases hx with hx | rfl | hx
    · exact (h.wf x (by rw [hb]; simp [hx])).congr rfl rfl
    · exact hwf.congr rfl rfl
    · exact (h.wf x (by rw [hb]; simp [hx])).congr rfl rfl
  · have : (pre ++ b' :: post).map (·.id) = p.blocks.map (·.id) := by rw [hb]; simp [hid]
    show ((pre ++ b' :: post).map (·.id)).Pairwise (· ≠ ·)
    rw [this]; exact h.ids
  · intro x hx
    simp only [List.mem_append, List.mem_cons] at hx
    rcases hx with hx | rfl | hx
    · exact h.fresh x (by rw [hb]; simp [hx])
    · rw [hid]; exact h.fresh b hbm
    · exact h.fresh x (by rw [hb]; simp [hx])
  · intro a
    rw [hlu a]
    simp only [if_true, List.mem_cons, h.live_iff a]
  · exact List.nodup_cons.mpr ⟨hnot, h.nodup⟩

/-- clearing the (set) bit `k` of block `b` -/
theorem inv_clear {p : Pool} {e : Env} {live : List (Nat × Nat)} {pre post : List Block} {b b' : Block} {k : Nat}
    (h : Inv p e live) (hb : p.blocks = pre ++ b :: post) (hid : b'.id = b.id) (hd : b'.dataOff = b.dataOff)
    (hk : k < 32 * p.bitmapCount) (hwf : BlockWf p b')
    (hbits : ∀ k', bitAt b'.bitmap k' = if k' = k then false else bitAt b.bitmap k') (hold : bitAt b.bitmap k = true) :
    Inv { p with blocks := pre ++ b' :: post } e (live.erase (slotAddr p.objSize b k)) := by
  have hlu := liveIn_update (v := false) h.osz h.ids hb hid hd hk hbits (by simpa using hold)
  have hbm : b ∈ p.blocks := by rw [hb]; simp
  refine ⟨h.osz, h.cnt, ?_, ?_, ?_, ?_, h.nodup.erase _⟩
  · intro x hx
    simp only [List.mem_append, List.mem_cons] at hx
    rcases hx with hx | rfl | hx
    · exact (h.wf x (by rw [hb]; simp [hx])).congr rfl rfl
    · exact hwf.congr rfl rfl
    · exact (h.wf x (by rw [hb]; simp [hx])).congr rfl rfl
  · have : (pre ++ b' :: post).map (·.id) = p.blocks.map (·.id) := by rw [hb]; simp [hid]
    show ((pre ++ b' :: post).map (·.id)).Pairwise (· ≠ ·)
    rw [this]; exact h.ids
  · intro x hx
    simp only [List.mem_append, List.mem_cons] at hx
    rcases hx with hx | rfl | hx
    · exact h.fresh x (by rw [hb]; simp [hx])
    · rw [hid]; exact h.fresh b hbm
    · exact h.fresh x (by rw [hb]; simp [hx])
  · intro a
    rw [hlu a, h.nodup.mem_erase_iff, h.live_iff a]
    simp

/-- the block `create_pool` makes is well formed and has no set bit -/
theorem createPool_wf {p : Pool} (ho : 0 < p.objSize) (hc : p.bitmapCount ≤ 16384) (id base : Nat) :
    BlockWf p (createPool p id base) ∧ (∀ k, bitAt (createPool p id base).bitmap k = false) ∧
    (createPool p id base).objFree = 32 * p.bitmapCount ∧ (createPool p id base).id = id := by
  have hw : w64 (w64 (p.bitmapCount * 4) * 8) = 32 * p.bitmapCount := by unfold w64; omega
  have hbits : ∀ k, bitAt (List.replicate p.bitmapCount (0 : Word)) k = false := by
    intro k
    simp only [bitAt, List.getD_eq_getElem?_getD]
    cases hh : (List.replicate p.bitmapCount (0 : Word))[k / 32]? with
    | none => simp
    | some w => have := List.mem_replicate.mp (List.mem_of_getElem? hh); simp [this.2]
  have hH : HDR = 40 := rfl
  have hlt := Nat.mod_lt (HDR + 4 * p.bitmapCount) ho
  have hle := Nat.mod_le (HDR + 4 * p.bitmapCount) p.objSize
  refine ⟨⟨by simp [createPool], ?_, ?_, ?_, ?_, ?_⟩, ?_, ?_, rfl⟩
  · simp only [createPool, hw, clearBits_replicate]
  · simp only [createPool, hw]
    generalize (HDR + 4 * p.bitmapCount) % p.objSize = m at hlt hle ⊢
    split <;> omega
  · simp only [createPool]
    generalize (HDR + 4 * p.bitmapCount) % p.objSize = m at hlt hle ⊢
    split <;> omega
  · simp only [createPool]
    split
    · have h1 := Nat.mod_add_div (HDR + 4 * p.bitmapCount) p.objSize
      have : HDR + 4 * p.bitmapCount + p.objSize - (HDR + 4 * p.bitmapCount) % p.objSize
          = p.objSize * ((HDR + 4 * p.bitmapCount) / p.objSize + 1) := by rw [Nat.mul_add]; omega
      rw [this]; exact Nat.mul_mod_right _ _
    · rename_i heq
      simpa using heq
  · simp only [createPool, padTo]
    split <;> omega
  · exact hbits
  · simp only [createPool, hw]

/-- linking a fresh block (no bit set) into the pool keeps the invariant -/
theorem inv_link {p : Pool} {e : Env} {live : List (Nat × Nat)} (h : Inv p e live) (base : Nat) (q : List (Option Nat)) :
    Inv { p with blocks := createPool p e.nextId base :: p.blocks } ⟨q, e.nextId + 1⟩ live := by
  obtain ⟨hwf, hclr, _, hid⟩ := createPool_wf h.osz h.cnt e.nextId base
  refine ⟨h.osz, h.cnt, ?_, ?_, ?_, ?_, h.nodup⟩
  · intro x hx
    rcases List.mem_cons.mp hx with rfl | hx
    · exact hwf.congr rfl rfl
    · exact (h.wf x hx).congr rfl rfl
  · show ((createPool p e.nextId base :: p.blocks).map (·.id)).Pairwise (· ≠ ·)
    simp only [List.map_cons, List.pairwise_cons, List.mem_map, forall_exists_index, and_imp, forall_apply_eq_imp_iff₂]
    refine ⟨fun x hx => ?_, h.ids⟩
    have := h.fresh x hx
    rw [hid]; omega
  · intro x hx
    rcases List.mem_cons.mp hx with rfl | hx
    · rw [hid]; simp
    · have := h.fresh x hx; simp; omega
  · intro a
    rw [h.live_iff a]
    constructor
    · rintro ⟨b, hb, rest⟩; exact ⟨b, List.mem_cons_of_mem _ hb, rest⟩
    · rintro ⟨b, hb, k, hk, hbit, ha⟩
      rcases List.mem_cons.mp hb with rfl | hb
      · rw [hclr] at hbit; cases hbit
      · exact ⟨b, hb, k, hk, hbit, ha⟩

/-- One call of `mem_pool_allocate` from a consistent state, whatever the fuel: an object is handed out that was not live, lies
in the data area of a block of the pool, aligned; or NULL with the invariant intact; or the fuel ran out, which needs a fuel not above the number of pending mmap answers. -/
theorem alloc_step : ∀ (fuel : Nat) {p : Pool} {e : Env} {live : List (Nat × Nat)}, Inv p e live →
    match allocate fuel p e with
    | (.ptr bid off, p', e') => Inv p' e' ((bid, off) :: live) ∧ (bid, off) ∉ live ∧
        ∃ b ∈ p'.blocks, b.id = bid ∧ b.dataOff ≤ off ∧ off + p.objSize ≤ b.limitOff + 1 ∧ (off - b.dataOff) % p.objSize = 0 ∧
          HDR + 4 * p.bitmapCount ≤ off ∧ off % p.objSize = 0
    | (.null, p', e') => Inv p' e' live ∧ (0 < p.bitmapCount → p' = p)
    | (.fuel, _, _) => fuel ≤ e.q.length
  | 0, p, e, live, h => by simp [allocate]
  | fuel + 1, p, e, live, h => by
    unfold allocate
    have hw := walk_spec h.cnt p.blocks h.wf
    -- facts about an object taken from block `b'` (after) / `b` (before) at slot `k`
    have bounds : ∀ (b b' : Block) (k : Nat), BlockWf p b' → b'.dataOff = b.dataOff → b'.base = b.base → k < 32 * p.bitmapCount →
        b'.dataOff ≤ b.dataOff + k * p.objSize ∧ b.dataOff + k * p.objSize + p.objSize ≤ b'.limitOff + 1 ∧
        (b.dataOff + k * p.objSize - b'.dataOff) % p.objSize = 0 ∧ HDR + 4 * p.bitmapCount ≤ b.dataOff + k * p.objSize ∧
        (b.dataOff + k * p.objSize) % p.objSize = 0 := by
      intro b b' k hwf hd hbase hk
      have hlim := hwf.lim
      have hhdr := hwf.hdr
      have hal := hwf.align
      have hmul : (k + 1) * p.objSize ≤ 32 * p.bitmapCount * p.objSize := Nat.mul_le_mul_right _ (by omega)
      have hexp : (k + 1) * p.objSize = k * p.objSize + p.objSize := by rw [Nat.add_mul]; simp
      refine ⟨by omega, by omega, ?_, by omega, ?_⟩
      · have : b.dataOff + k * p.objSize - b'.dataOff = k * p.objSize := by omega
        rw [this]; exact Nat.mul_mod_left _ _
      · rw [Nat.add_mul_mod_self_right, ← hd]; exact hal
    cases hwk : walk p.objSize p.blocks with
    | got bid off bs =>
      rw [hwk] at hw
      obtain ⟨pre, b, post, b', k, e1, e2, rfl, rfl, hk, hclr, hid, hbase, hd, hl, hwf', hbits⟩ := hw
      have := inv_set h e1 hid hd hk hwf' hbits hclr
      subst e2
      refine ⟨this.1, this.2, b', by simp, hid, ?_⟩
      exact bounds b b' k hwf' hd hbase hk
    | stale bs => rw [hwk] at hw; exact hw.elim
    | none =>
      simp only []
      cases hq : e.q with
      | nil => exact ⟨h, by simp⟩
      | cons x q =>
        cases x with
        | none =>
          simp only []
          exact ⟨⟨h.osz, h.cnt, h.wf, h.ids, h.fresh, h.live_iff, h.nodup⟩, by simp⟩
        | some base =>
          simp only []
          have hlink := inv_link h base q
          obtain ⟨hwf, hclr, hfree, hid⟩ := createPool_wf h.osz h.cnt e.nextId base
          by_cases hc0 : 0 < p.bitmapCount
          · obtain ⟨k, b', ht, hk, hclr', hid', hbase', hd', hl', hwf', _, hbits⟩ :=
              takeSlot_spec hwf (by rw [hfree]; omega) h.cnt
            rw [ht]
            simp only []
            have := inv_set (pre := []) (post := p.blocks) hlink rfl hid' hd' hk (hwf'.congr rfl rfl) hbits hclr'
            refine ⟨this.1, this.2, b', by simp, hid', ?_⟩
            exact bounds _ b' k hwf' hd' hbase' hk
          · have hz : p.bitmapCount = 0 := by omega
            have hts : takeSlot p.objSize (createPool p e.nextId base) = none := by
              simp [takeSlot, createPool, hz, scanWords]
            rw [hts]
            simp only []
            have hsame : ({ createPool p e.nextId base with objFree := 0 } : Block) = createPool p e.nextId base := by
              have : (createPool p e.nextId base).objFree = 0 := by rw [hfree, hz]
              cases hcp : createPool p e.nextId base
              rw [hcp] at this
              simp at this
              simp [this]
            rw [hsame]
            have ih := alloc_step fuel hlink
            revert ih
            generalize allocate fuel _ _ = r
            obtain ⟨r1, p', e'⟩ := r
            cases r1 with
            | ptr bid off => exact fun ih => ih
            | null => exact fun ih => ⟨ih.1, fun h0 => absurd h0 hc0⟩
            | fuel => exact fun ih => by simp at ih ⊢; omega

/-- (a) every object handed out lies in the data area `[data, limit]` of a block of the pool (behind header and bitmap),
at a multiple of `obj_size` from `data` and from the start of the block -/
theorem alloc_in_bounds {fuel : Nat} {p p' : Pool} {e e' : Env} {live : List (Nat × Nat)} {bid off : Nat} (h : Inv p e live)
    (ha : allocate fuel p e = (.ptr bid off, p', e')) :
    ∃ b ∈ p'.blocks, b.id = bid ∧ b.dataOff ≤ off ∧ off + p.objSize ≤ b.limitOff + 1 ∧ (off - b.dataOff) % p.objSize = 0 ∧
      HDR + 4 * p.bitmapCount ≤ off ∧ off % p.objSize = 0 := by
  have := alloc_step fuel h
  rw [ha] at this
  exact this.2.2

/-- (d) `mem_pool_allocate` never hands out a live object, and the state stays consistent with the object added -/
theorem alloc_fresh {fuel : Nat} {p p' : Pool} {e e' : Env} {live : List (Nat × Nat)} {bid off : Nat} (h : Inv p e live)
    (ha : allocate fuel p e = (.ptr bid off, p', e')) : (bid, off) ∉ live ∧ Inv p' e' ((bid, off) :: live) := by
  have := alloc_step fuel h
  rw [ha] at this
  exact ⟨this.2.1, this.1⟩

/-- a failed `mem_pool_allocate` (mmap failed) leaves a pool with `bitmap_count > 0` exactly as it was -/
theorem null_unchanged {fuel : Nat} {p p' : Pool} {e e' : Env} {live : List (Nat × Nat)} (h : Inv p e live)
    (hc : 0 < p.bitmapCount) (ha : allocate fuel p e = (.null, p', e')) : p' = p ∧ Inv p' e' live := by
  have := alloc_step fuel h
  rw [ha] at this
  exact ⟨this.2 hc, this.1⟩

/-- (b) two live objects never overlap -/
theorem live_disjoint {p : Pool} {e : Env} {live : List (Nat × Nat)} (h : Inv p e live) {a₁ a₂ : Nat × Nat}
    (h1 : a₁ ∈ live) (h2 : a₂ ∈ live) (hne : a₁ ≠ a₂) :
    a₁.1 ≠ a₂.1 ∨ a₁.2 + p.objSize ≤ a₂.2 ∨ a₂.2 + p.objSize ≤ a₁.2 := by
  obtain ⟨b1, hb1, k1, _, _, rfl⟩ := (h.live_iff _).mp h1
  obtain ⟨b2, hb2, k2, _, _, rfl⟩ := (h.live_iff _).mp h2
  by_cases hid : b1.id = b2.id
  · right
    have := eq_of_id_eq h.ids hb1 hb2 hid
    subst this
    simp only [slotAddr]
    have hk : k1 ≠ k2 := fun hk => hne (by rw [hk])
    rcases Nat.lt_or_gt_of_ne hk with hlt | hgt
    · left
      have : (k1 + 1) * p.objSize ≤ k2 * p.objSize := Nat.mul_le_mul_right _ hlt
      rw [Nat.add_mul] at this; omega
    · right
      have : (k2 + 1) * p.objSize ≤ k1 * p.objSize := Nat.mul_le_mul_right _ hgt
      rw [Nat.add_mul] at this; omega
  · left; exact hid

/-- (c) the bitmap bit of a live object is set, that of every other slot is clear, and `obj_free` is the number of clear bits -/
theorem bitmap_exact {p : Pool} {e : Env} {live : List (Nat × Nat)} (h : Inv p e live) {b : Block} (hb : b ∈ p.blocks) :
    (∀ k, k < 32 * p.bitmapCount → (slotAddr p.objSize b k ∈ live ↔ bitAt b.bitmap k = true)) ∧
    b.objFree = clearBits b.bitmap ∧ b.bitmap.length = p.bitmapCount := by
  refine ⟨fun k hk => ?_, (h.wf b hb).free, (h.wf b hb).len⟩
  rw [h.live_iff]
  constructor
  · rintro ⟨b0, hb0, k0, _, hbit, heq⟩
    simp only [slotAddr, Prod.mk.injEq] at heq
    have := eq_of_id_eq h.ids hb hb0 heq.1
    subst this
    have := slot_inj h.osz heq.2
    subst this
    exact hbit
  · intro hbit; exact ⟨b, hb, k, hk, hbit, rfl⟩

/-- (f) `mem_pool_free` of a pointer that lies in no block's `[data, limit)` is detected (`assert(it != NULL)`) -/
theorem free_outside_detected {p : Pool} {bid off : Nat}
    (h : ∀ b ∈ p.blocks, ¬ (b.id = bid ∧ b.dataOff ≤ off ∧ off < b.limitOff)) : free p bid off = .error .noBlock := by
  unfold free
  rw [locate_none h]

/-- a pool without blocks (what `mem_pool_create` returns) is consistent with "nothing handed out" -/
theorem inv_empty {p : Pool} (e : Env) (ho : 0 < p.objSize) (hc : p.bitmapCount ≤ 16384) (hb : p.blocks = []) : Inv p e [] := by
  refine ⟨ho, hc, by simp [hb], by simp [hb], by simp [hb], ?_, List.nodup_nil⟩
  intro a
  simp only [List.not_mem_nil, false_iff]
  rintro ⟨b, hb', _⟩
  simp [hb] at hb'

/-- `mem_pool_free` of a live object succeeds (no assertion) and keeps the invariant with the object removed -/
theorem free_step {p : Pool} {e : Env} {live : List (Nat × Nat)} (h : Inv p e live) (h2 : 2 ≤ p.objSize) {a : Nat × Nat}
    (ha : a ∈ live) : ∃ p', free p a.1 a.2 = .ok p' ∧ Inv p' e (live.erase a) := by
  obtain ⟨b0, hb0, k0, hk0, hbit, rfl⟩ := (h.live_iff _).mp ha
  have hwf := h.wf b0 hb0
  have hmul : (k0 + 1) * p.objSize ≤ 32 * p.bitmapCount * p.objSize := Nat.mul_le_mul_right _ (by omega)
  rw [Nat.add_mul] at hmul
  have hlim := hwf.lim
  have hrange : b0.dataOff ≤ b0.dataOff + k0 * p.objSize ∧ b0.dataOff + k0 * p.objSize < b0.limitOff := by omega
  obtain ⟨⟨pre, b, post⟩, hloc⟩ := locate_of_mem (bid := b0.id) (off := b0.dataOff + k0 * p.objSize) ⟨b0, hb0, rfl, hrange⟩
  obtain ⟨hdec, hid, _, _⟩ := locate_some hloc
  have hbm : b ∈ p.blocks := by rw [hdec]; simp
  have := eq_of_id_eq h.ids hbm hb0 hid
  subst this
  have hidx : b.dataOff + k0 * p.objSize - b.dataOff = k0 * p.objSize := by omega
  have hlen := hwf.len
  have hi : k0 / 32 < b.bitmap.length := by omega
  have hj : k0 % 32 < 32 := Nat.mod_lt _ (by decide)
  have hk' : 32 * (k0 / 32) + k0 % 32 = k0 := by omega
  have hle := clearBits_le b.bitmap
  have hfree := hwf.free
  have hcnt := clearBits_clearBit hi hj (by rw [hk']; exact hbit)
  refine ⟨{ p with blocks := pre ++ { b with bitmap := clearBit b.bitmap (k0 / 32) (k0 % 32), objFree := w64 (b.objFree + 1) } :: post }, ?_, ?_⟩
  · simp only [free, slotAddr, hloc, hidx, Nat.mul_mod_left, ne_eq, not_true_eq_false, if_false,
      Nat.mul_div_cancel _ h.osz]
    have : (b.bitmap.getD (k0 / 32) 0).getLsbD (k0 % 32) = true := hbit
    simp only [this, Bool.true_eq_false, if_false]
  · have hcnt' := h.cnt
    have := inv_clear (b' := { b with bitmap := clearBit b.bitmap (k0 / 32) (k0 % 32), objFree := w64 (b.objFree + 1) })
      h hdec rfl rfl hk0
      ⟨by simp [clearBit_length, hlen], by simp only [w64_small (show b.objFree + 1 < 18446744073709551616 by omega)]; omega,
        hwf.lim, hwf.hdr, hwf.align, hwf.doff⟩
      (by intro k'; simp only [bitAt_clearBit hi hj, hk']; by_cases hkk : k' = k0 <;> simp [hkk]) hbit
    exact this

theorem allocate_objSize : ∀ (fuel : Nat) (p : Pool) (e : Env), (allocate fuel p e).2.1.objSize = p.objSize
  | 0, p, e => rfl
  | fuel + 1, p, e => by
    unfold allocate
    split
    · rfl
    · rw [allocate_objSize fuel]
    · split
      · rfl
      · rfl
      · simp only []
        split
        · rfl
        · rw [allocate_objSize fuel]

theorem allocate_bitmapCount : ∀ (fuel : Nat) (p : Pool) (e : Env), (allocate fuel p e).2.1.bitmapCount = p.bitmapCount
  | 0, p, e => rfl
  | fuel + 1, p, e => by
    unfold allocate
    split
    · rfl
    · rw [allocate_bitmapCount fuel]
    · split
      · rfl
      · rfl
      · simp only []
        split
        · rfl
        · rw [allocate_bitmapCount fuel]

theorem free_objSize {p p' : Pool} {bid off : Nat} (h : free p bid off = .ok p') : p'.objSize = p.objSize := by
  unfold free at h
  split at h
  · cases h
  · simp only [] at h
    split at h
    · cases h
    · split at h
      · cases h
      · cases h; rfl

/-- Every history of `mem_pool_allocate` / `mem_pool_free` calls that respects the API (free only what was handed out and not yet
freed), from any consistent state - in particular from a fresh pool (`inv_empty`) -, keeps the pool consistent with the list of
live objects: (a)-(d) (`alloc_in_bounds`, `live_disjoint`, `bitmap_exact`, `alloc_fresh`) hold at every point of it, and no
`mem_pool_free` of a live object runs into an assertion. -/
theorem history_inv : ∀ (ops : List Op) {p p' : Pool} {e e' : Env} {live live' : List (Nat × Nat)}, Inv p e live → 2 ≤ p.objSize →
    runOps p e live ops = some (p', e', live') → Inv p' e' live'
  | [], p, p', e, e', live, live', h, _, hr => by
    simp only [runOps, Option.some.injEq, Prod.mk.injEq] at hr
    obtain ⟨rfl, rfl, rfl⟩ := hr; exact h
  | .alloc :: ops, p, p', e, e', live, live', h, h2, hr => by
    unfold runOps at hr
    have hs := alloc_step (allocFuel p e) h
    have ho := allocate_objSize (allocFuel p e) p e
    revert hs ho hr
    generalize allocate (allocFuel p e) p e = r
    obtain ⟨r1, p1, e1⟩ := r
    cases r1 with
    | ptr bid off => exact fun hr hs ho => history_inv ops hs.1 (by simp at ho; omega) hr
    | null => exact fun hr hs ho => history_inv ops hs.1 (by simp at ho; omega) hr
    | fuel => exact fun hr _ _ => by simp at hr
  | .free a :: ops, p, p', e, e', live, live', h, h2, hr => by
    unfold runOps at hr
    by_cases ha : a ∈ live
    · obtain ⟨p1, hf, hinv⟩ := free_step h h2 ha
      simp only [ha, if_true, hf] at hr
      exact history_inv ops hinv (by rw [free_objSize hf]; exact h2) hr
    · simp [ha] at hr

/-- the fuel `allocFuel` the histories (and the driver) use always suffices -/
theorem allocate_fuel_enough {p : Pool} {e : Env} {live : List (Nat × Nat)} (h : Inv p e live) :
    (allocate (allocFuel p e) p e).1 ≠ .fuel := by
  have hs := alloc_step (allocFuel p e) h
  revert hs
  generalize allocate (allocFuel p e) p e = r
  obtain ⟨r1, p1, e1⟩ := r
  cases r1 with
  | ptr bid off => exact fun _ => by simp
  | null => exact fun _ => by simp
  | fuel => exact fun hs => by simp only [allocFuel] at hs; omega

theorem padTo_spec (x : Nat) {o : Nat} (ho : 0 < o) : padTo x o < o ∧ (x + padTo x o) % o = 0 := by
  unfold padTo
  have hlt := Nat.mod_lt x ho
  split
  · refine ⟨by omega, ?_⟩
    have h1 := Nat.mod_add_div x o
    have : x + (o - x % o) = o * (x / o + 1) := by rw [Nat.mul_add]; omega
    rw [this]; exact Nat.mul_mod_right _ _
  · rename_i h; exact ⟨ho, by simpa using h⟩

/-- (e) the size arithmetic of `pool_size_from_bitmap_count` in closed form (no `size_t` wrap-around for obj_size < 2^32 and the
counts `mem_pool_create` can reach): header | `count` bitmap words | padding `< obj_size` up to a multiple of `obj_size` |
`32 * count` objects - bitmap and data do not overlap and the objects fit exactly -/
theorem size_layout {c o : Nat} (ho : 0 < o) (ho2 : o < 4294967296) (hc : c ≤ 16400) :
    poolSizeFromBitmapCount c o = some (HDR + 4 * c + padTo (HDR + 4 * c) o + 32 * c * o) := by
  have hH : HDR = 40 := rfl
  have hb : c * 4 * 8 * o ≤ 16400 * 4 * 8 * o := Nat.mul_le_mul_right o (by omega)
  have e1 : w64 (c * 4) = c * 4 := w64_small (by omega)
  have e2 : w64 (c * 4 * 8) = c * 4 * 8 := w64_small (by omega)
  have e3 : w64 (c * 4 * 8 * o) = c * 4 * 8 * o := w64_small (by omega)
  have e4 : w64 (HDR + c * 4) = HDR + c * 4 := w64_small (by omega)
  have e5 : (32 * c) * o = c * 4 * 8 * o := by rw [show 32 * c = c * 4 * 8 by omega]
  have hlt := Nat.mod_lt (HDR + c * 4) ho
  have e0 : HDR + 4 * c = HDR + c * 4 := by omega
  unfold poolSizeFromBitmapCount padTo
  rw [e0, e5]
  simp only [Nat.ne_of_gt ho, if_false, e1, e2, e3, e4, show HDR % 4 = 0 from rfl, ne_eq, not_true_eq_false]
  split
  · have e6 : w64 (HDR + c * 4 + (o - (HDR + c * 4) % o)) = HDR + c * 4 + (o - (HDR + c * 4) % o) := w64_small (by omega)
    rw [e6, w64_small (by omega)]
  · rw [w64_small (by omega)]; simp

/-- `create_pool` puts the data area exactly where `pool_size_from_bitmap_count` budgets it, whatever address mmap returned -/
theorem createPool_dataOff (p : Pool) (ho : 0 < p.objSize) (id base : Nat) :
    (createPool p id base).dataOff = HDR + 4 * p.bitmapCount + padTo (HDR + 4 * p.bitmapCount) p.objSize := by
  simp only [createPool, padTo]
  have := Nat.mod_lt (HDR + 4 * p.bitmapCount) ho
  split <;> omega

/-- the `for (;;)` of `mem_pool_create`: the count it stops at is the first whose total exceeds `DEF_POOL_SIZE` -/
theorem searchCount_spec {o : Nat} : ∀ (fuel c0 c : Nat), searchCount o fuel c0 = some c → c0 + fuel < 18446744073709551616 →
    c0 ≤ c ∧ c < c0 + fuel ∧ (∃ t, poolSizeFromBitmapCount c o = some t ∧ t > DEF_POOL_SIZE) ∧
    (∀ c', c0 ≤ c' → c' < c → ∃ t, poolSizeFromBitmapCount c' o = some t ∧ t ≤ DEF_POOL_SIZE)
  | 0, c0, c, h, _ => by simp [searchCount] at h
  | fuel + 1, c0, c, h, hb => by
    unfold searchCount at h
    cases ht : poolSizeFromBitmapCount c0 o with
    | none => simp [ht] at h
    | some total =>
      simp only [ht] at h
      split at h
      · rename_i hgt
        cases h
        exact ⟨Nat.le_refl _, by omega, ⟨total, ht, hgt⟩, fun c' h1 h2 => by omega⟩
      · rename_i hle
        rw [w64_small (by omega)] at h
        obtain ⟨h1, h2, h3, h4⟩ := searchCount_spec fuel (c0 + 1) c h (by omega)
        refine ⟨by omega, by omega, h3, fun c' hc1 hc2 => ?_⟩
        by_cases hc : c' = c0
        · subst hc; exact ⟨total, ht, by omega⟩
        · exact h4 c' (by omega) hc2

/-- What `mem_pool_create(n)` returns, for every `n` it accepts (`n ≥ 1`; sizes below 2^32 - 8, where no `size_t` arithmetic
wraps): obj_size is `n` rounded up to `MEM_ALIGN`; there is AT LEAST ONE bitmap word (before the repair: 0 for obj_size > 1984);
header, bitmap, padding and the `32 * bitmap_count` objects fit into `pool_size` -/
theorem create_spec {n : Nat} {p : Pool} (hn : n + 8 ≤ 4294967296) (h : create n = .ok p) :
    8 ≤ p.objSize ∧ p.objSize % 8 = 0 ∧ n ≤ p.objSize ∧ p.objSize < n + 8 ∧ 1 ≤ p.bitmapCount ∧ p.bitmapCount ≤ 16384 ∧ p.blocks = [] ∧
    HDR + 4 * p.bitmapCount + padTo (HDR + 4 * p.bitmapCount) p.objSize + 32 * p.bitmapCount * p.objSize ≤ p.poolSize := by
  unfold create at h
  simp only [Bool.not_true, Bool.false_eq_true, if_false] at h
  have hobd : n ≤ alignUp n ∧ alignUp n < n + 8 ∧ alignUp n % 8 = 0 := by
    unfold alignUp; simp only [MEM_ALIGN]
    by_cases hm : n % 8 = 0
    · simp [hm]
    · simp only [ne_eq, hm, not_false_eq_true, if_true]; rw [w64_small (by omega)]; omega
  generalize alignUp n = o at h hobd
  unfold createSized at h
  split at h
  · cases h
  · rename_i hne
    have hpos : 0 < o := Nat.pos_of_ne_zero hne
    have hH : HDR = 40 := rfl
    cases hs : searchCount o SEARCH_FUEL 1 with
    | none => simp [hs] at h
    | some count =>
      simp only [hs] at h
      obtain ⟨h1, h2, _, h4⟩ := searchCount_spec SEARCH_FUEL 1 count hs (by decide)
      have hF : SEARCH_FUEL = 16400 := rfl
      have hcm : w64 (count + 18446744073709551615) = count - 1 := by unfold w64; omega
      rw [hcm] at h
      split at h
      · have hl := size_layout (c := 1) hpos (by omega) (by omega)
        rw [hl] at h
        simp only [CreateRes.ok.injEq] at h
        subst h
        dsimp only
        exact ⟨by omega, hobd.2.2, hobd.1, hobd.2.1, Nat.le_refl _, by omega, rfl, Nat.le_refl _⟩
      · rename_i hc0
        simp only [CreateRes.ok.injEq] at h
        subst h
        dsimp only
        obtain ⟨t, ht, hle⟩ := h4 (count - 1) (by omega) (by omega)
        rw [size_layout hpos (by omega) (by omega)] at ht
        simp only [Option.some.injEq] at ht
        have hD : DEF_POOL_SIZE = 65536 := rfl
        refine ⟨by omega, hobd.2.2, hobd.1, hobd.2.1, by omega, ?_, rfl, ?_⟩
        · omega
        · omega

/-- positive counterpart of `witness_bitmap_count_zero`: every pool `mem_pool_create` returns has at least one bitmap word -/
theorem create_count_pos {n : Nat} {p : Pool} (hn : n + 8 ≤ 4294967296) (h : create n = .ok p) : 1 ≤ p.bitmapCount :=
  (create_spec hn h).2.2.2.2.1

/-- the pool `mem_pool_create` returns is consistent with "nothing handed out" -/
theorem create_inv {n : Nat} {p : Pool} (hn : n + 8 ≤ 4294967296) (h : create n = .ok p) (e : Env) : Inv p e [] ∧ 2 ≤ p.objSize := by
  obtain ⟨h1, _, _, _, _, h6, h7, _⟩ := create_spec hn h
  exact ⟨inv_empty e (by omega) h6 h7, by omega⟩

/-- positive counterpart of `witness_data_area_overrun`: for EVERY address mmap returns, the block `create_pool` lays out has its
data area behind header and bitmap and ending inside the `pool_size` bytes that were mapped -/
theorem data_inside_mapping {n : Nat} {p : Pool} (hn : n + 8 ≤ 4294967296) (h : create n = .ok p) (id base : Nat) :
    HDR + 4 * p.bitmapCount ≤ (createPool p id base).dataOff ∧
    (createPool p id base).dataOff + 32 * p.bitmapCount * p.objSize ≤ p.poolSize := by
  obtain ⟨h1, _, _, _, _, _, _, h8⟩ := create_spec hn h
  rw [createPool_dataOff p (by omega)]
  exact ⟨by omega, h8⟩

/-- every object handed out in a consistent pool whose layout fits `pool_size` (as `create_spec` establishes; the three
parameters never change) ends inside the mapped block -/
theorem alloc_inside_mapping {fuel : Nat} {p p' : Pool} {e e' : Env} {live : List (Nat × Nat)} {bid off : Nat} (h : Inv p e live)
    (hfit : HDR + 4 * p.bitmapCount + padTo (HDR + 4 * p.bitmapCount) p.objSize + 32 * p.bitmapCount * p.objSize ≤ p.poolSize)
    (ha : allocate fuel p e = (.ptr bid off, p', e')) : off + p.objSize ≤ p.poolSize := by
  have hs := alloc_step fuel h
  rw [ha] at hs
  obtain ⟨hinv, _, b, hb, _, _, hlim, _⟩ := hs
  have hwf := hinv.wf b hb
  have h1 := hwf.lim
  have h2 := hwf.doff
  have e1 : p'.objSize = p.objSize := by have := allocate_objSize fuel p e; rw [ha] at this; exact this
  have e2 : p'.bitmapCount = p.bitmapCount := by have := allocate_bitmapCount fuel p e; rw [ha] at this; exact this
  rw [e1, e2] at h1 h2
  omega

/-- positive counterpart of `witness_bitmap_count_zero`, second half: with at least one bitmap word an allocation succeeds
whenever mmap has an address to give (NULL only when mmap fails) -/
theorem alloc_succeeds {fuel : Nat} {p : Pool} {e : Env} {live : List (Nat × Nat)} {base : Nat} {q : List (Option Nat)}
    (h : Inv p e live) (hc : 1 ≤ p.bitmapCount) (hq : e.q = some base :: q) :
    ∃ bid off, (allocate (fuel + 1) p e).1 = .ptr bid off := by
  unfold allocate
  have hw := walk_spec h.cnt p.blocks h.wf
  cases hwk : walk p.objSize p.blocks with
  | got bid off bs => exact ⟨bid, off, rfl⟩
  | stale bs => rw [hwk] at hw; exact hw.elim
  | none =>
    simp only [hq]
    obtain ⟨hwf, _, hfree, _⟩ := createPool_wf h.osz h.cnt e.nextId base
    obtain ⟨k, b', ht, _⟩ := takeSlot_spec hwf (by rw [hfree]; omega) h.cnt
    rw [ht]
    exact ⟨_, _, rfl⟩

/-! ### instances (the hypotheses are satisfiable, the functions compute) -/

/-- `mem_pool_create(33)` as the real code answers it: obj_size 40, 50 bitmap words -/
def exPool : Pool := ⟨40, 65536, 50, []⟩
def exEnv : Env := ⟨[some 35184372092928, none], 0⟩

example : create 33 = .ok exPool := by decide
example : Inv exPool exEnv [] := inv_empty _ (by decide) (by decide) rfl
/-- first allocation: block 0 is mapped, the object is slot 0 at offset 240 (= data: header 40 + bitmap 200, a multiple of 40) -/
example : (allocate 3 exPool exEnv).1 = .ptr 0 240 := by decide
/-- alloc, alloc, free of the first, alloc: the freed slot is handed out again (d: "may reuse") -/
example : (match allocate 3 exPool exEnv with
    | (_, p1, e1) => match allocate 3 p1 e1 with
      | (_, p2, e2) => match free p2 0 240 with
        | .ok p3 => (allocate 3 p3 e2).1
        | .error _ => .null) = .ptr 0 240 := by decide
/-- double free and a pointer outside every block are detected -/
example : (match allocate 3 exPool exEnv with
    | (_, p1, _) => match free p1 0 240 with
      | .ok p2 => (match free p2 0 240 with | .error x => some x | .ok _ => none, match free p2 1 240 with | .error x => some x | .ok _ => none,
                   match free p2 0 241 with | .error x => some x | .ok _ => none)
      | .error _ => (none, none, none)) = (some .notAllocated, some .noBlock, some .misaligned) := by decide
/-- a history that respects the API runs to its end (so `history_inv` is not vacuous): two objects, the first freed, handed out again -/
example : (runOps exPool exEnv [] [.alloc, .alloc, .free (0, 240), .alloc, .free (0, 280)]).map (fun r => r.2.2) = some [(0, 240)] := by decide
/-- an mmap failure: NULL, pool unchanged -/
example : allocate 3 exPool ⟨[none], 0⟩ = (.null, exPool, ⟨[], 0⟩) := by decide

/-! ### the code BEFORE the repair `fixes/C19-mempool-latent.patch` violated three intended properties (former known findings of C19) -/

/-- before: obj_size 2048 gave `bitmap_count` 0, and on such a pool `mem_pool_allocate` (unchanged by the repair) maps every block
mmap will give and returns NULL -/
theorem witness_bitmap_count_zero :
    createOld 2048 = .ok ⟨2048, 65536, 0, []⟩ ∧
    (match allocate 9 ⟨2048, 65536, 0, []⟩ ⟨[some 4096, some 135168, some 266240], 0⟩ with
     | (r, p', e') => (r, p'.blocks.map (·.id), e')) = (.null, [2, 1, 0], ⟨[], 3⟩) := by decide

/-- before: obj_size 1008 (bitmap_count 2, 64 objects) at a page-aligned mmap address = 976 mod 1008: the data area ended 16 bytes
behind the 65536-byte mapping (`create_pool` padded by the absolute address, `pool_size_from_bitmap_count` by the offset) -/
theorem witness_data_area_overrun :
    createOld 1008 = .ok ⟨1008, 65536, 2, []⟩ ∧ 35184372183040 % 4096 = 0 ∧
    (createPoolOld ⟨1008, 65536, 2, []⟩ 0 35184372183040).dataOff + 64 * 1008 = 65552 := by decide

/-- before: `1 << 31` in type `int` is undefined; repaired: `1U << j` is defined for every bit of a word -/
theorem witness_free_shift_31 : shiftIntOld 31 = none ∧ ∀ j, j < 32 → shiftUnsigned j = some (BitVec.twoPow 32 j) := by
  refine ⟨by decide, fun j hj => by simp [shiftUnsigned, hj]⟩

end Sqfs.MemPool
