/-
C07 — Untrusted tar streams / description files never crash or hang the packers.

Property theorems only; helpers are in `Sqfs/Proofs/HardLink.lean` (hard links) and
`Sqfs/Proofs/ParseTotal*.lean` (parsers).  Models: `Sqfs/Model/HardLink.lean` (repaired
`resolve_link`, see fixes/C07-hardlink-cycle.patch; the shipped loop is `loopCur`, refuted in
`Sqfs/Witness/C07.lean`).
-/
import Sqfs.Proofs.HardLink
namespace Sqfs.C07
open Sqfs.HardLink

/-! ## Hard-link resolution -/

/--
**`fstree_resolve_hard_links` terminates on every graph.**  For an arbitrary node list `g`
(any mixture of files, directories and hard links whose targets resolve to arbitrary nodes —
self links, cycles of any shape, chains, links to directories, dangling or out-of-range
targets), an arbitrary unresolved list `links` (any order, repetitions allowed) and arbitrary
link counts, `links.length + 2` iterations of the `for (;;)` loop are enough for every call
of the repaired `resolve_link`: the run never "is still running".
-/
theorem resolve_links_terminates (g : Graph) (links : List Nat) (counts : Nat → Nat) :
    (match resolveAllFix g (links.length + 2) (St.init counts) links with
     | .outOfFuel => False | _ => True) :=
  resolveAllWith_fix_terminates g links.length (links.length + 2) (Nat.le_refl _) links (St.init counts)
    (resOK_init g)

/--
**Success means every link is resolved to a real object.**  If the run succeeds, every link
on the list carries `FLAG_LINK_RESOVED` with a `target_node` that exists and is neither a
hard link nor a directory (so `serialize_fstree`/`reorder_hard_links` never dereference a
link or a dangling pointer).
-/
theorem resolve_ok_targets (g : Graph) (fuel : Nat) (links : List Nat) (counts : Nat → Nat) (st : St)
    (h : resolveAllFix g fuel (St.init counts) links = .ok st) :
    ∀ n ∈ links, ∃ t, st.resolved n = some t ∧ g[t]? = some .other := by
  have := resolveAllWith_ok g (fun res n => loopFix g res n links.length fuel n 0)
    (fun res n r hr => loopFix_brk_nonLink g res n links.length fuel n 0 r hr) links (St.init counts) st
    (by intro k t hk; cases hk) h
  obtain ⟨hres, _, hall⟩ := this
  intro n hn
  have hs := hall n hn
  cases hr : st.resolved n with
  | none => rw [hr] at hs; cases hs
  | some t => exact ⟨t, rfl, hres n t hr⟩

/-! ### non-vacuity -/

-- root, file `b`, `c -> b`, `a -> c`, dir `d`, `d/e -> a`: all three links end at `b` (link_count 4)
example : (resolveAllFix [.dir, .other, .hlink (.found 1), .hlink (.found 2), .dir, .hlink (.found 3)] 5
      (St.init (fun _ => 1)) [5, 3, 2]).view [5, 3, 2, 1] = .ok [some 1, some 1, some 1, none] [1, 1, 1, 4] := by decide
-- self link, link to a directory, dangling link, cycle away from the start (D12's graph)
example : (resolveAllFix [.dir, .hlink (.found 1)] 3 (St.init (fun _ => 1)) [1]).view [] = .err 1 .EMLINK := by decide
example : (resolveAllFix [.dir, .hlink (.found 0)] 3 (St.init (fun _ => 1)) [1]).view [] = .err 1 .EPERM := by decide
example : (resolveAllFix [.dir, .hlink (.fail .ENOENT)] 3 (St.init (fun _ => 1)) [1]).view [] = .err 1 .ENOENT := by decide
example : (resolveAllFix [.dir, .hlink (.found 2), .hlink (.found 1), .hlink (.found 1)] 5 (St.init (fun _ => 1))
      [3, 2, 1]).view [] = .err 3 .EMLINK := by decide

end Sqfs.C07
