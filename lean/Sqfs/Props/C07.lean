/-
C07 — Untrusted tar streams / description files never crash or hang the packers.

Property theorems only; helpers are in `Sqfs/Proofs/HardLink.lean` (hard links) and
`Sqfs/Proofs/ParseTotal*.lean` (parsers).  Models: `Sqfs/Model/HardLink.lean` (repaired
`resolve_link`, see fixes/C07-hardlink-cycle.patch; the shipped loop is `loopCur`, refuted in
`Sqfs/Witness/C07.lean`).
-/
import Sqfs.Proofs.HardLinkTree
namespace Sqfs.C07
open Sqfs.HardLink

/-! ## Hard-link resolution -/

/--
**`fstree_resolve_hard_links` terminates on every graph.**  For an arbitrary node list `g`
(any mixture of files, directories and hard links whose targets resolve to arbitrary nodes —
self links, cycles of any shape, chains, links to directories, dangling or out-of-range
targets), an arbitrary unresolved list `links` (any order, repetitions allowed) and arbitrary
link counts, `links.length + 2` iterations of the `for (;;)` loop are enough for every call
of the repaired `resolve_link`: the run never "is still running".
-/
theorem resolve_links_terminates (g : Graph) (links : List Nat) (counts : Nat → Nat) :
    (match resolveAllFix g (links.length + 2) (St.init counts) links with
     | .outOfFuel => False | _ => True) :=
  resolveAllWith_fix_terminates g links.length (links.length + 2) (Nat.le_refl _) links (St.init counts)
    (resOK_init g)

/--
**Success means every link is resolved to a real object.**  If the run succeeds, every link
on the list carries `FLAG_LINK_RESOVED` with a `target_node` that exists and is neither a
hard link nor a directory (so `serialize_fstree`/`reorder_hard_links` never dereference a
link or a dangling pointer).
-/
theorem resolve_ok_targets (g : Graph) (fuel : Nat) (links : List Nat) (counts : Nat → Nat) (st : St)
    (h : resolveAllFix g fuel (St.init counts) links = .ok st) :
    ∀ n ∈ links, ∃ t, st.resolved n = some t ∧ g[t]? = some .other := by
  have := resolveAllWith_ok g (fun res n => loopFix g res n links.length fuel n 0)
    (fun res n r hr => loopFix_brk_nonLink g res n links.length fuel n 0 r hr) links (St.init counts) st
    (by intro k t hk; cases hk) h
  obtain ⟨hres, _, hall⟩ := this
  intro n hn
  have hs := hall n hn
  cases hr : st.resolved n with
  | none => rw [hr] at hs; cases hs
  | some t => exact ⟨t, rfl, hres n t hr⟩

/--
**Exactness.**  `g` is any well-formed graph (link targets that resolve, resolve inside the graph),
`links` any list of node indices that contains every hard link of `g` (`fs->links_unresolved`, in any
order).  Then the repaired `fstree_resolve_hard_links`, run with `links.length + 2` loop iterations per
link, always finishes, and

* if it succeeds, every listed link is resolved to the node at which its chain of links *ends*
  (`EndsAt`), and that node is neither a link nor a directory;
* if it fails on link `n` with `errno = e`, every link before `n` on the list has a proper end, and
  `e` is the answer the specification `Expected` prescribes for `n`: `EPERM` iff the chain ends at a
  directory, `ENOENT`/`ENOTDIR` iff it reaches a name that does not resolve (with that errno),
  `EMLINK` iff it runs into a cycle (through the start or not) or the target's `link_count` is saturated.

Together with `expected_unique` ("at most one answer meets the specification") this is "reports
`EMLINK`/`EPERM`/`ENOENT` *exactly* on cyclic/directory/dangling targets, otherwise resolves every
link to a non-link target".
-/
theorem resolve_links_exact (g : Graph) (hwf : WF g) (links : List Nat)
    (hall : ∀ k tg, g[k]? = some (.hlink tg) → k ∈ links) (hin : ∀ n ∈ links, n < g.length) (counts : Nat → Nat) :
    match resolveAllFix g (links.length + 2) (St.init counts) links with
    | .ok st => ∀ n ∈ links, ∃ t, st.resolved n = some t ∧ EndsAt g n t ∧ g[t]? = some .other
    | .err n e => ∃ pre post cnt, links = pre ++ n :: post ∧
        (∀ m ∈ pre, ∃ t, EndsAt g m t ∧ g[t]? = some .other) ∧ Expected g cnt n (none, some e)
    | .outOfFuel => False
    | .badIndex => False := by
  have hc0 : Cons g links (St.init counts).resolved :=
    ⟨(fun k t h => by cases h), fun k tg hk _ => hall k tg hk⟩
  have h := resolveAll_sound g hwf links (links.length + 2) (Nat.le_refl _) links (St.init counts) hc0 hin
  unfold resolveAllFix
  cases hr : resolveAllWith g (fun res n => loopFix g res n links.length (links.length + 2) n 0) (St.init counts) links with
  | outOfFuel => rw [hr] at h; exact h
  | badIndex => rw [hr] at h; exact h
  | err n e => rw [hr] at h; exact h
  | ok st =>
    rw [hr] at h
    obtain ⟨hc, _, hsome⟩ := h
    have ht := resolve_ok_targets g (links.length + 2) links counts st hr
    intro n hn
    obtain ⟨t, h1, h2⟩ := ht n hn
    exact ⟨t, h1, hc.ends n t h1, h2⟩

/--
The same, for exactly what the driver/harness run: any tree state of the model of
`fstree_add_generic` (`t ≠ []`: there is a root), its graph `Tree.toGraph t` and its
`links_unresolved` list `Tree.links t`.  No further hypothesis.
-/
theorem resolve_tree_exact (t : Tree.T) (hne : t ≠ []) (counts : Nat → Nat) :
    match resolveAllFix (Tree.toGraph t) ((Tree.links t).length + 2) (St.init counts) (Tree.links t) with
    | .ok st => ∀ n ∈ Tree.links t, ∃ tg, st.resolved n = some tg ∧ EndsAt (Tree.toGraph t) n tg ∧
        (Tree.toGraph t)[tg]? = some .other
    | .err n e => ∃ pre post cnt, Tree.links t = pre ++ n :: post ∧
        (∀ m ∈ pre, ∃ tg, EndsAt (Tree.toGraph t) m tg ∧ (Tree.toGraph t)[tg]? = some .other) ∧
        Expected (Tree.toGraph t) cnt n (none, some e)
    | .outOfFuel => False
    | .badIndex => False :=
  resolve_links_exact (Tree.toGraph t) (Tree.toGraph_wf t hne) (Tree.links t) (Tree.links_complete t)
    (Tree.links_lt t) counts

/-- the specification admits at most one answer per link (so `resolve_links_exact` pins the answer down) -/
theorem expected_unique (g : Graph) (cnt : Nat → Nat) (n : Nat) (o o' : Option Nat × Option Errno)
    (h : Expected g cnt n o) (h' : Expected g cnt n o') : o = o' := h.unique h'

/-- the three fates of a chain of links exclude one another -/
theorem chain_fates_exclusive (g : Graph) (i : Nat) :
    (∀ t, EndsAt g i t → ¬ Cyclic g i) ∧ (∀ t e, EndsAt g i t → ¬ Dangling g i e) ∧
    (∀ e, Dangling g i e → ¬ Cyclic g i) :=
  ⟨fun _ h => h.not_cyclic, fun _ _ h => h.not_dangling, fun _ h => h.not_cyclic⟩

/--
The executable classifier `specClass` (used by the check to judge the answers of the *real* code)
decides the relational specification: following at most `|g| + 1` links from any node of a
well-formed graph tells which of the three fates holds.
-/
theorem specClass_sound (g : Graph) (hwf : WF g) (i : Nat) (hi : i < g.length) :
    match specClass g i with
    | .endsAt t => EndsAt g i t
    | .dangling e => Dangling g i e
    | .cyclic => Cyclic g i
    | .escapes => False :=
  classify_sound g hwf i (g.length + 1) i [] (.refl i) (Or.inr List.nodup_nil) (by simp) (by simp) (by simp) hi

/-! ### non-vacuity -/

-- a well-formed graph with all three fates: 1 = file, 2 -> 1, 3 -> 4, 4 -> 3 (cycle), 5 -> 3 (runs into it), 6 dangling
example : WF [.dir, .other, .hlink (.found 1), .hlink (.found 4), .hlink (.found 3), .hlink (.found 3),
    .hlink (.fail .ENOENT)] := by
  intro i j h
  unfold Step at h
  match i, h with
  | 0, h => cases h
  | 1, h => cases h
  | 2, h => cases h; decide
  | 3, h => cases h; decide
  | 4, h => cases h; decide
  | 5, h => cases h; decide
  | 6, h => cases h
  | n + 7, h => simp at h
example : (specClass [.dir, .other, .hlink (.found 1), .hlink (.found 4), .hlink (.found 3), .hlink (.found 3),
    .hlink (.fail .ENOENT)]) 2 = .endsAt 1 := by decide
example : (specClass [.dir, .other, .hlink (.found 1), .hlink (.found 4), .hlink (.found 3), .hlink (.found 3),
    .hlink (.fail .ENOENT)]) 5 = .cyclic := by decide


-- root, file `b`, `c -> b`, `a -> c`, dir `d`, `d/e -> a`: all three links end at `b` (link_count 4)
example : (resolveAllFix [.dir, .other, .hlink (.found 1), .hlink (.found 2), .dir, .hlink (.found 3)] 5
      (St.init (fun _ => 1)) [5, 3, 2]).view [5, 3, 2, 1] = .ok [some 1, some 1, some 1, none] [1, 1, 1, 4] := by decide
-- self link, link to a directory, dangling link, cycle away from the start (D12's graph)
example : (resolveAllFix [.dir, .hlink (.found 1)] 3 (St.init (fun _ => 1)) [1]).view [] = .err 1 .EMLINK := by decide
example : (resolveAllFix [.dir, .hlink (.found 0)] 3 (St.init (fun _ => 1)) [1]).view [] = .err 1 .EPERM := by decide
example : (resolveAllFix [.dir, .hlink (.fail .ENOENT)] 3 (St.init (fun _ => 1)) [1]).view [] = .err 1 .ENOENT := by decide
example : (resolveAllFix [.dir, .hlink (.found 2), .hlink (.found 1), .hlink (.found 1)] 5 (St.init (fun _ => 1))
      [3, 2, 1]).view [] = .err 3 .EMLINK := by decide

end Sqfs.C07
