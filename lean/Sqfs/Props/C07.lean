/-
C07 — Untrusted tar streams / description files never crash or hang the packers.

Property theorems only; helpers are in `Sqfs/Proofs/HardLink.lean` (hard links) and
`Sqfs/Proofs/ParseTotal*.lean` (parsers).  Models: `Sqfs/Model/HardLink.lean` (repaired
`resolve_link`, see fixes/C07-hardlink-cycle.patch; the shipped loop is `loopCur`, refuted in
`Sqfs/Witness/C07.lean`).
-/
import Sqfs.Proofs.HardLinkTree
import Sqfs.Proofs.TextParse
import Sqfs.Proofs.C07Lines
import Sqfs.Proofs.C07ReadHeader
import Sqfs.Model.C12TarStream
namespace Sqfs.C07
open Sqfs.HardLink

/-! ## Hard-link resolution -/

/--
**`fstree_resolve_hard_links` terminates on every graph.**  For an arbitrary node list `g`
(any mixture of files, directories and hard links whose targets resolve to arbitrary nodes —
self links, cycles of any shape, chains, links to directories, dangling or out-of-range
targets), an arbitrary unresolved list `links` (any order, repetitions allowed) and arbitrary
link counts, `links.length + 2` iterations of the `for (;;)` loop are enough for every call
of the repaired `resolve_link`: the run never "is still running".
-/
theorem resolve_links_terminates (g : Graph) (links : List Nat) (counts : Nat → Nat) :
    (match resolveAllFix g (links.length + 2) (St.init counts) links with
     | .outOfFuel => False | _ => True) :=
  resolveAllWith_fix_terminates g links.length (links.length + 2) (Nat.le_refl _) links (St.init counts)
    (resOK_init g)
example := resolve_links_terminates [.dir, .hlink (.found 2), .hlink (.found 1), .hlink (.found 1)] [3, 2, 1] (fun _ => 1)

/--
**Success means every link is resolved to a real object.**  If the run succeeds, every link
on the list carries `FLAG_LINK_RESOVED` with a `target_node` that exists and is neither a
hard link nor a directory (so `serialize_fstree`/`reorder_hard_links` never dereference a
link or a dangling pointer).
-/
theorem resolve_ok_targets (g : Graph) (fuel : Nat) (links : List Nat) (counts : Nat → Nat) (st : St)
    (h : resolveAllFix g fuel (St.init counts) links = .ok st) :
    ∀ n ∈ links, ∃ t, st.resolved n = some t ∧ g[t]? = some .other := by
  have := resolveAllWith_ok g (fun res n => loopFix g res n links.length fuel n 0)
    (fun res n r hr => loopFix_brk_nonLink g res n links.length fuel n 0 r hr) links (St.init counts) st
    (by intro k t hk; cases hk) h
  obtain ⟨hres, _, hall⟩ := this
  intro n hn
  have hs := hall n hn
  cases hr : st.resolved n with
  | none => rw [hr] at hs; cases hs
  | some t => exact ⟨t, rfl, hres n t hr⟩

/-- instance: `2 -> 1`, `3 -> 2`, resolved in the order `3, 2` — the run succeeds (`decide` on its view), so the
hypothesis holds -/
example : ∃ st, resolveAllFix [.dir, .other, .hlink (.found 1), .hlink (.found 2)] 4 (St.init fun _ => 1) [3, 2] = .ok st ∧
    ∀ n ∈ [3, 2], ∃ t, st.resolved n = some t ∧
      ([.dir, .other, .hlink (.found 1), .hlink (.found 2)] : Graph)[t]? = some .other := by
  have hv : (resolveAllFix [.dir, .other, .hlink (.found 1), .hlink (.found 2)] 4 (St.init fun _ => 1) [3, 2]).view [] =
      .ok [] [] := by decide
  cases h : resolveAllFix [.dir, .other, .hlink (.found 1), .hlink (.found 2)] 4 (St.init fun _ => 1) [3, 2] with
  | ok st => exact ⟨st, rfl, resolve_ok_targets _ 4 [3, 2] (fun _ => 1) st h⟩
  | err n e => rw [h] at hv; cases hv
  | outOfFuel => rw [h] at hv; cases hv
  | badIndex => rw [h] at hv; cases hv

/--
**Exactness.**  `g` is any well-formed graph (link targets that resolve, resolve inside the graph),
`links` any list of node indices that contains every hard link of `g` (`fs->links_unresolved`, in any
order).  Then the repaired `fstree_resolve_hard_links`, run with `links.length + 2` loop iterations per
link, always finishes, and

* if it succeeds, every listed link is resolved to the node at which its chain of links *ends*
  (`EndsAt`), and that node is neither a link nor a directory;
* if it fails on link `n` with `errno = e`, every link `m` before `n` on the list has a proper end `tgt m`
  (a file), and `e` is the answer the specification `Expected` prescribes for `n` **under the link counts
  the specification itself assigns to that moment**: the initial count of a node plus the number of links in
  front of `n` (with repetitions) whose chain ends at it.  So: `EPERM` iff the chain ends at a directory,
  `ENOENT`/`ENOTDIR` iff it reaches a name that does not resolve (with that errno), `EMLINK` iff it runs into a
  cycle (through the start or not) or that count of the file it ends at is `0xFFFFFFFF`.

The counts are not existentially quantified: the only witness is `tgt`, and `EndsAt` determines it on `pre`
(`link_counts_determined`).  Together with `expected_unique` ("at most one answer meets the specification for
given counts") this is "reports `EMLINK`/`EPERM`/`ENOENT` *exactly* on cyclic or saturated/directory/dangling
targets, otherwise resolves every link to a non-link target".
-/
theorem resolve_links_exact (g : Graph) (hwf : WF g) (links : List Nat)
    (hall : ∀ k tg, g[k]? = some (.hlink tg) → k ∈ links) (hin : ∀ n ∈ links, n < g.length) (counts : Nat → Nat) :
    match resolveAllFix g (links.length + 2) (St.init counts) links with
    | .ok st => ∀ n ∈ links, ∃ t, st.resolved n = some t ∧ EndsAt g n t ∧ g[t]? = some .other
    | .err n e => ∃ (pre post : List Nat) (tgt : Nat → Nat), links = pre ++ n :: post ∧
        (∀ m ∈ pre, EndsAt g m (tgt m) ∧ g[tgt m]? = some .other) ∧
        Expected g (fun t => counts t + pre.countP (fun m => tgt m = t)) n (none, some e)
    | .outOfFuel => False
    | .badIndex => False := by
  have hc0 : Cons g links (St.init counts).resolved :=
    ⟨(fun k t h => by cases h), fun k tg hk _ => hall k tg hk⟩
  have h := resolveAll_sound g hwf links (links.length + 2) (Nat.le_refl _) links (St.init counts) hc0 hin
  unfold resolveAllFix
  cases hr : resolveAllWith g (fun res n => loopFix g res n links.length (links.length + 2) n 0) (St.init counts) links with
  | outOfFuel => rw [hr] at h; exact h
  | badIndex => rw [hr] at h; exact h
  | err n e => rw [hr] at h; exact h
  | ok st =>
    rw [hr] at h
    obtain ⟨hc, _, hsome⟩ := h
    have ht := resolve_ok_targets g (links.length + 2) links counts st hr
    intro n hn
    obtain ⟨t, h1, h2⟩ := ht n hn
    exact ⟨t, h1, hc.ends n t h1, h2⟩

/-- instance (all hypotheses discharged): the graph `1 = file, 2 -> 1, 3 -> 4, 4 -> 3 (cycle), 5 -> 3 (runs into
the cycle), 6 dangling` with the list of all its links -/
example :=
  resolve_links_exact
    [.dir, .other, .hlink (.found 1), .hlink (.found 4), .hlink (.found 3), .hlink (.found 3), .hlink (.fail .ENOENT)]
    (by
      intro i j h
      unfold Step at h
      match i, h with
      | 0, h => cases h
      | 1, h => cases h
      | 2, h => cases h; decide
      | 3, h => cases h; decide
      | 4, h => cases h; decide
      | 5, h => cases h; decide
      | 6, h => cases h
      | n + 7, h => simp at h)
    [2, 3, 4, 5, 6]
    (by
      intro k tg h
      match k, h with
      | 0, h => cases h
      | 1, h => cases h
      | 2, _ => simp
      | 3, _ => simp
      | 4, _ => simp
      | 5, _ => simp
      | 6, _ => simp
      | n + 7, h => simp at h)
    (by decide) (fun _ => 1)

/-- the `EMLINK` clause bites on link counts: two links to one file whose `link_count` is one below the limit — the
first is resolved, the second is refused with `EMLINK`, and `resolve_links_exact` says that is the *only* admissible
answer (`counts 1 + 1 = 0xFFFFFFFF`, no cycle) -/
example : (resolveAllFix [.dir, .other, .hlink (.found 1), .hlink (.found 1)] 4
      (St.init (fun _ => linkCountMax - 1)) [3, 2]).view [] = .err 2 .EMLINK := by decide

/-- the link counts named in the failure clause of `resolve_links_exact` are determined by the graph and the list: any
two functions `tgt`, `tgt'` that send every link of `pre` to the end of its chain count the same number of links
ending at each node (the end of a chain is unique) -/
theorem link_counts_determined (g : Graph) (pre : List Nat) (tgt tgt' : Nat → Nat)
    (h : ∀ m ∈ pre, EndsAt g m (tgt m)) (h' : ∀ m ∈ pre, EndsAt g m (tgt' m)) (t : Nat) :
    pre.countP (fun m => tgt m = t) = pre.countP (fun m => tgt' m = t) :=
  countP_ends_unique h h' t

/-- instance: `2 -> 1`, `3 -> 2` both end at the file 1; the two descriptions of that agree off the list only -/
example :=
  link_counts_determined [.dir, .other, .hlink (.found 1), .hlink (.found 2)] [3, 2] (fun _ => 1)
    (fun m => if m = 0 then 7 else 1)
    (by
      intro m hm
      simp only [List.mem_cons, List.not_mem_nil, or_false] at hm
      rcases hm with rfl | rfl
      · exact ⟨.step (j := 2) rfl (.step (j := 1) rfl (.refl 1)), Or.inl rfl⟩
      · exact ⟨.step (j := 1) rfl (.refl 1), Or.inl rfl⟩)
    (by
      intro m hm
      simp only [List.mem_cons, List.not_mem_nil, or_false] at hm
      rcases hm with rfl | rfl
      · exact ⟨.step (j := 2) rfl (.step (j := 1) rfl (.refl 1)), Or.inl rfl⟩
      · exact ⟨.step (j := 1) rfl (.refl 1), Or.inl rfl⟩)
    1

/--
The same, for exactly what the driver/harness run: any tree state of the model of
`fstree_add_generic` (`t ≠ []`: there is a root), its graph `Tree.toGraph t` and its
`links_unresolved` list `Tree.links t`, the counts being the nodes' `link_count`s or anything else.  No further
hypothesis.
-/
theorem resolve_tree_exact (t : Tree.T) (hne : t ≠ []) (counts : Nat → Nat) :
    match resolveAllFix (Tree.toGraph t) ((Tree.links t).length + 2) (St.init counts) (Tree.links t) with
    | .ok st => ∀ n ∈ Tree.links t, ∃ tg, st.resolved n = some tg ∧ EndsAt (Tree.toGraph t) n tg ∧
        (Tree.toGraph t)[tg]? = some .other
    | .err n e => ∃ (pre post : List Nat) (tgt : Nat → Nat), Tree.links t = pre ++ n :: post ∧
        (∀ m ∈ pre, EndsAt (Tree.toGraph t) m (tgt m) ∧ (Tree.toGraph t)[tgt m]? = some .other) ∧
        Expected (Tree.toGraph t) (fun k => counts k + pre.countP (fun m => tgt m = k)) n (none, some e)
    | .outOfFuel => False
    | .badIndex => False :=
  resolve_links_exact (Tree.toGraph t) (Tree.toGraph_wf t hne) (Tree.links t) (Tree.links_complete t)
    (Tree.links_lt t) counts

/-- instance: the tree `/`, file `b`, `c -> b`, `a -> c`, `d -> d` (a self link), with the tree's own link counts
(`links_unresolved` is newest first, so the self link `d` comes first and is refused: second example) -/
example :=
  resolve_tree_exact
    [⟨0, [], .dir, true, [], 2⟩, ⟨0, [98], .other, false, [], 1⟩, ⟨0, [99], .hlink, false, [98], 1⟩,
     ⟨0, [97], .hlink, false, [99], 1⟩, ⟨0, [100], .hlink, false, [100], 1⟩]
    (by decide)
    (Tree.counts [⟨0, [], .dir, true, [], 2⟩, ⟨0, [98], .other, false, [], 1⟩, ⟨0, [99], .hlink, false, [98], 1⟩,
     ⟨0, [97], .hlink, false, [99], 1⟩, ⟨0, [100], .hlink, false, [100], 1⟩])
example :
    let t : Tree.T := [⟨0, [], .dir, true, [], 2⟩, ⟨0, [98], .other, false, [], 1⟩, ⟨0, [99], .hlink, false, [98], 1⟩,
      ⟨0, [97], .hlink, false, [99], 1⟩, ⟨0, [100], .hlink, false, [100], 1⟩]
    Tree.toGraph t = [.dir, .other, .hlink (.found 1), .hlink (.found 2), .hlink (.found 4)] ∧ Tree.links t = [4, 3, 2] ∧
    (resolveAllFix (Tree.toGraph t) 5 (St.init (Tree.counts t)) (Tree.links t)).view [] = .err 4 .EMLINK := by decide
/-- … and without the self link the two remaining links are resolved to `b`, whose count goes from 1 to 3 -/
example :
    let t : Tree.T := [⟨0, [], .dir, true, [], 2⟩, ⟨0, [98], .other, false, [], 1⟩, ⟨0, [99], .hlink, false, [98], 1⟩,
      ⟨0, [97], .hlink, false, [99], 1⟩]
    (resolveAllFix (Tree.toGraph t) 4 (St.init (Tree.counts t)) (Tree.links t)).view [3, 2, 1] =
      .ok [some 1, some 1, none] [1, 1, 3] := by decide

/-- the specification admits at most one answer per link (so `resolve_links_exact` pins the answer down) -/
theorem expected_unique (g : Graph) (cnt : Nat → Nat) (n : Nat) (o o' : Option Nat × Option Errno)
    (h : Expected g cnt n o) (h' : Expected g cnt n o') : o = o' := h.unique h'

/-- instance: `2 -> 1` with file 1 at the limit — success and `EMLINK` cannot both be expected -/
example :=
  expected_unique [.dir, .other, .hlink (.found 1)] (fun _ => linkCountMax) 2 (none, some .EMLINK) (none, some .EMLINK)
    (Or.inr ⟨1, ⟨.step (j := 1) rfl (.refl 1), Or.inl rfl⟩, rfl, rfl⟩)
    (Or.inr ⟨1, ⟨.step (j := 1) rfl (.refl 1), Or.inl rfl⟩, rfl, rfl⟩)

/-- the three fates of a chain of links exclude one another -/
theorem chain_fates_exclusive (g : Graph) (i : Nat) :
    (∀ t, EndsAt g i t → ¬ Cyclic g i) ∧ (∀ t e, EndsAt g i t → ¬ Dangling g i e) ∧
    (∀ e, Dangling g i e → ¬ Cyclic g i) :=
  ⟨fun _ h => h.not_cyclic, fun _ _ h => h.not_dangling, fun _ h => h.not_cyclic⟩

/--
The executable classifier `specClass` (used by the check to judge the answers of the *real* code)
decides the relational specification: following at most `|g| + 1` links from any node of a
well-formed graph tells which of the three fates holds.
-/
theorem specClass_sound (g : Graph) (hwf : WF g) (i : Nat) (hi : i < g.length) :
    match specClass g i with
    | .endsAt t => EndsAt g i t
    | .dangling e => Dangling g i e
    | .cyclic => Cyclic g i
    | .escapes => False :=
  classify_sound g hwf i (g.length + 1) i [] (.refl i) (Or.inr List.nodup_nil) (by simp) (by simp) (by simp) hi

/-- instance: node 3 of `1 = file, 2 -> 3, 3 -> 2` lies on a cycle -/
example := specClass_sound [.dir, .other, .hlink (.found 3), .hlink (.found 2)]
  (by
    intro i j h
    unfold Step at h
    match i, h with
    | 0, h => cases h
    | 1, h => cases h
    | 2, h => cases h; decide
    | 3, h => cases h; decide
    | n + 4, h => simp at h)
  3 (by decide)

/-! ### non-vacuity -/

-- a well-formed graph with all three fates: 1 = file, 2 -> 1, 3 -> 4, 4 -> 3 (cycle), 5 -> 3 (runs into it), 6 dangling
example : WF [.dir, .other, .hlink (.found 1), .hlink (.found 4), .hlink (.found 3), .hlink (.found 3),
    .hlink (.fail .ENOENT)] := by
  intro i j h
  unfold Step at h
  match i, h with
  | 0, h => cases h
  | 1, h => cases h
  | 2, h => cases h; decide
  | 3, h => cases h; decide
  | 4, h => cases h; decide
  | 5, h => cases h; decide
  | 6, h => cases h
  | n + 7, h => simp at h
example : (specClass [.dir, .other, .hlink (.found 1), .hlink (.found 4), .hlink (.found 3), .hlink (.found 3),
    .hlink (.fail .ENOENT)]) 2 = .endsAt 1 := by decide
example : (specClass [.dir, .other, .hlink (.found 1), .hlink (.found 4), .hlink (.found 3), .hlink (.found 3),
    .hlink (.fail .ENOENT)]) 5 = .cyclic := by decide


-- root, file `b`, `c -> b`, `a -> c`, dir `d`, `d/e -> a`: all three links end at `b` (link_count 4)
example : (resolveAllFix [.dir, .other, .hlink (.found 1), .hlink (.found 2), .dir, .hlink (.found 3)] 5
      (St.init (fun _ => 1)) [5, 3, 2]).view [5, 3, 2, 1] = .ok [some 1, some 1, some 1, none] [1, 1, 1, 4] := by decide
-- self link, link to a directory, dangling link, cycle away from the start (D12's graph)
example : (resolveAllFix [.dir, .hlink (.found 1)] 3 (St.init (fun _ => 1)) [1]).view [] = .err 1 .EMLINK := by decide
example : (resolveAllFix [.dir, .hlink (.found 0)] 3 (St.init (fun _ => 1)) [1]).view [] = .err 1 .EPERM := by decide
example : (resolveAllFix [.dir, .hlink (.fail .ENOENT)] 3 (St.init (fun _ => 1)) [1]).view [] = .err 1 .ENOENT := by decide
example : (resolveAllFix [.dir, .hlink (.found 2), .hlink (.found 1), .hlink (.found 1)] 5 (St.init (fun _ => 1))
      [3, 2, 1]).view [] = .err 3 .EMLINK := by decide


/-! ## Parser totality and bounds

Every model function below performs each `*p` of the C code as a checked access of the buffer it
is given and each loop with explicit fuel; `.safe` = "no access outside the buffer, and the loop
has ended".  All theorems quantify over **every** buffer content.
-/
section Parsers
open Sqfs.ParseTotal

/-- `read_number` reads only the `digits` bytes of its field, whatever they contain (octal, blanks,
base-256 with either sign, garbage).  (Model of the current `read_binary`; the 1.2.0 guard is in `Witness/C07.lean`.) -/
theorem read_number_in_bounds (buf : Bytes) (i digits : Nat) (hd : 0 < digits)
    (h : i + digits ≤ buf.length) : (readNumber buf i digits).safe :=
  readNumber_safe buf i digits hd h
example := read_number_in_bounds [0x80, 0, 0, 0, 0, 0, 1, 0] 0 8 (by decide) (by decide)

/-- the overflow guard of `read_octal` is sound: an accepted value fits `sqfs_u64` (no bit was shifted out) -/
theorem read_octal_no_wrap (buf : Bytes) (i digits v : Nat) (h : readOctal buf i digits = .ok v) : v < U64 := by
  unfold readOctal at h
  cases hs : skipSpaces buf i digits with
  | ok r => obtain ⟨j, d⟩ := r; rw [hs] at h; exact octLoop_fits buf d j 0 v (by simp [U64]) h
  | fail c => rw [hs] at h; cases h
  | oob => rw [hs] at h; cases h
  | spin => rw [hs] at h; cases h
example := read_octal_no_wrap [48, 48, 48, 49, 50, 51, 52, 0] 0 8 668 (by decide)

/-- `parse_uint`/`parse_uint_oct` with an explicit length stay inside `len` bytes; the value fits 64 bits
and `*diff ≤ len` -/
theorem parse_uint_in_bounds_len (base : Nat) (buf : Bytes) (i n : Nat) (wantDiff : Bool) (vmin vmax : Nat)
    (h : i + n ≤ buf.length) :
    (parseU base buf i (some n) wantDiff vmin vmax).safe ∧
    ∀ v d, parseU base buf i (some n) wantDiff vmin vmax = .ok (v, d) → v < U64 ∧ d ≤ n :=
  parseU_safe_len base buf i n wantDiff vmin vmax h
example := parse_uint_in_bounds_len 10 [49, 50, 51, 44, 0] 0 4 true 0 0 (by decide)

/-- … and with `len = (size_t)-1` they never pass the string's terminator -/
theorem parse_uint_in_bounds_nul (base : Nat) (buf : Bytes) (i k : Nat) (wantDiff : Bool) (vmin vmax : Nat)
    (hik : i ≤ k) (hk : buf[k]? = some 0) :
    (parseU base buf i none wantDiff vmin vmax).safe ∧
    ∀ v d, parseU base buf i none wantDiff vmin vmax = .ok (v, d) → v < U64 ∧ i + d ≤ k :=
  parseU_safe_nul base buf i k wantDiff vmin vmax hik hk
example := parse_uint_in_bounds_nul 10 [49, 50, 51, 44, 0] 0 4 true 0 0 (by decide) (by decide)

/-- `parse_int`, both calling conventions -/
theorem parse_int_in_bounds (buf : Bytes) (i : Nat) (wantDiff : Bool) :
    (∀ n, i + n ≤ buf.length → (parseI buf i (some n) wantDiff).safe) ∧
    (∀ k, i ≤ k → buf[k]? = some 0 → (parseI buf i none wantDiff).safe) :=
  ⟨fun n h => parseI_safe_len buf i n wantDiff h, fun k hik hk => parseI_safe_nul buf i k wantDiff hik hk⟩
-- "-23," with an explicit length and NUL-terminated
example := (parse_int_in_bounds [45, 50, 51, 44, 0] 0 true).1 4 (by decide)
example := (parse_int_in_bounds [45, 50, 51, 44, 0] 0 true).2 4 (by decide) (by decide)
example : parseI [45, 50, 51, 44, 0] 0 none true = .ok (-23, 3) := by decide

/-- `hex_decode` reads only `in_sz` input bytes and writes at most `out_sz` output bytes -/
theorem hex_decode_bounds (buf : Bytes) (i inSz outSz : Nat) (h : i + inSz ≤ buf.length) :
    (hexDecode buf i inSz outSz []).safe ∧ ∀ out, hexDecode buf i inSz outSz [] = .ok out → out.length ≤ outSz :=
  ⟨hexDecode_safe buf outSz i inSz [] h, fun out ho => by simpa using hexDecode_len buf outSz i inSz [] out ho⟩
-- "AB01" into a 2-byte buffer
example := hex_decode_bounds [65, 66, 48, 49] 0 4 2 (by decide)
example : hexDecode [65, 66, 48, 49] 0 4 2 [] = .ok [0xAB, 0x01] := by decide

/-- `base64_decode` reads only `in_len` input bytes and never writes more than `*out_len` output bytes -/
theorem base64_decode_bounds (buf : Bytes) (i inLen cap : Nat) (h : i + inLen ≤ buf.length) :
    (base64Decode buf i inLen cap).safe ∧ ∀ out, base64Decode buf i inLen cap = .ok out → out.length ≤ cap :=
  ⟨base64Decode_safe buf i inLen cap h, fun out ho => base64Decode_len buf i inLen cap out ho⟩
example := base64_decode_bounds [81, 85, 74, 68] 0 4 3 (by decide)

/--
`split_line` on **any** line content and separator set: all accesses stay inside the `len + 1` byte object
(the last terminator may land on index `len`), the write cursor never passes the read cursor (`SLInv`,
used inside the proof), the loops end, and there are at most `len` tokens.
-/
theorem split_line_total (buf : Bytes) (len : Nat) (sep : Bytes) (h : len + 1 ≤ buf.length) :
    (splitLine buf len sep).safe ∧
    ∀ s, splitLine buf len sep = .ok s → s.args.length ≤ len ∧ s.buf.length = buf.length :=
  splitLine_spec buf len sep h
example := split_line_total [97, 32, 34, 98, 32, 99, 34, 0] 7 [32, 9] (by decide)

/--
`read_pax_header` (current code, i.e. with /repo 56b164f) on **any** record of any length: every access —
`strtol`, the length/terminator stores, key scan, every handler (`parse_uint`, `parse_int`, the in-place
base-64 decoder, `GNU.sparse.map`) — stays inside the `entsize + 1` bytes that `record_to_memory`
allocated, and the record loop ends.  For the 1.2.0 code this is false: `Witness.pax_use_after_free`.
-/
theorem read_pax_header_total (record : Bytes) : (readPaxHeader record).safe :=
  readPaxHeader_safe record
example := read_pax_header_total [49, 50, 32, 97, 61, 98, 10]     -- "12 a=b\n": a length field that overshoots the record

/--
`read_gnu_new_sparse` on **any** stream and record size: `decode` never reads outside the 1024-byte window
(the refill always leaves `1 ≤ diff ≤ 512`, `refill_progress`), and an accepted map has between 1 and
`TAR_MAX_SPARSE_ENT` entries.
-/
theorem sparse_map_new_bounds (stream : Bytes) (recordSize : Nat) :
    (readGnuNewSparse stream recordSize).safe ∧
    ∀ m rs rest, readGnuNewSparse stream recordSize = .ok (m, rs, rest) →
      1 ≤ m.length ∧ m.length ≤ Sqfs.Consts.tarMaxSparseEnt :=
  readGnuNewSparse_spec stream recordSize
example := sparse_map_new_bounds ([49, 10, 48, 10, 53, 10] ++ List.replicate 600 0) 512    -- "1\n0\n5\n": one entry

/-- `read_gnu_old_sparse`: the 4 + 21·n entries are read inside the 512-byte header / extension records, and the
extension loop ends (one record is consumed per round) -/
theorem sparse_map_old_bounds (hdr stream : Bytes) (h : hdr.length = Sqfs.Consts.sizeofTarHeader) :
    (readGnuOldSparse hdr stream).safe :=
  readGnuOldSparse_safe hdr stream (by simpa [Sqfs.Consts.sizeofTarHeader] using h)
-- a 512-byte header full of '0' digits, three bytes of stream
-- (the elaborator evaluates `.safe` on the literal header while checking the application: deeper recursion than the default)
set_option maxRecDepth 100000 in
example := sparse_map_old_bounds (List.replicate 512 48) [1, 2, 3] (List.length_replicate ..)

/-- `decode_filename` (sort file) on any NUL-terminated line: every read stops at the terminator and every store
lands strictly behind the read cursor -/
theorem decode_filename_bounds (buf : Bytes) (k : Nat) (hk : buf[k]? = some 0) : (decodeFilename buf).safe :=
  decodeFilename_safe buf k hk
-- `a\n` NUL-terminated
example := decode_filename_bounds [97, 92, 110, 0] 3 (by decide)

/-- `decode` (xattr map file: `0x…`, `0s…`, quoted text with `\\`, `\"`, octal escapes) on any NUL-terminated value:
reads stay inside `value[0 .. strlen(value)]`, and at most `strlen(value)` bytes go into the `strlen(value)+1` byte output -/
theorem xattr_decode_bounds (buf : Bytes) (hne : buf ≠ []) (hlast : buf[buf.length - 1]? = some 0) : (xattrDecode buf).safe :=
  xattrDecode_safe buf hne hlast
example := xattr_decode_bounds [34, 97, 92, 49, 48, 49, 92, 92, 34, 0] (by decide) (by decide)

/--
**`read_header` on any byte stream.**  The `for (;;)` loop over 512-byte records (zero records, magic and checksum
test, `L` / `K` / `x` / `g` extension records, old and new GNU sparse maps, `decode_header`) has ended after
`stream.length / 512 + 2` rounds — every round consumes a record, so no sequence of extension records keeps it busy —,
no header field is read outside the 512-byte header, no record outside its `size + 1` byte buffer, and every size it
hands to `record_to_memory` (`malloc(size + 1)`) lies between 1 and the largest of `TAR_MAX_SYMLINK_LEN`,
`TAR_MAX_PATH_LEN`, `TAR_MAX_PAX_LEN`, whatever the size fields claim (octal, base-256, 2^64 − 1, …).
-/
theorem read_header_total (stream : Bytes) :
    (match (readHeader stream).res with | .oob => False | .spin => False | _ => True) ∧
    ∀ n ∈ (readHeader stream).allocs, 1 ≤ n ∧
      n ≤ max Sqfs.Consts.tarMaxSymlinkLen (max Sqfs.Consts.tarMaxPathLen Sqfs.Consts.tarMaxPaxLen) :=
  rhLoop_good _ (by omega) (by omega) (by omega) _ stream {} false [] (by omega) (by intro n h; cases h)

/-! ### non-vacuity -/
/-- a GNU long-name record (14 bytes, one allocation) in front of a ustar member `short` with 3 bytes of data, end marker -/
def rhExample : Bytes := [46] ++ [47] ++ [46] ++ [47] ++ [64] ++ [76] ++ [111] ++ [110] ++ [103] ++ [76] ++ [105] ++ [110] ++ [107] ++ List.replicate 87 0 ++ [48, 48, 48, 48] ++ [54] ++ [52, 52] ++ [0] ++ List.replicate 7 48 ++ [0] ++ List.replicate 7 48 ++ [0] ++ List.replicate 9 48 ++ [49] ++ [54] ++ [0] ++ List.replicate 11 48 ++ [0] ++ [48] ++ [49] ++ [48, 48] ++ [51] ++ [48] ++ [0] ++ [32] ++ [76] ++ List.replicate 100 0 ++ [117] ++ [115] ++ [116] ++ [97] ++ [114] ++ [0] ++ [48, 48] ++ List.replicate 247 0 ++ [100] ++ [105] ++ [114] ++ [47] ++ [108] ++ [111] ++ [110] ++ [103] ++ [45] ++ [110] ++ [97] ++ [109] ++ [101] ++ List.replicate 499 0 ++ [115] ++ [104] ++ [111] ++ [114] ++ [116] ++ List.replicate 95 0 ++ [48, 48, 48, 48] ++ [54] ++ [52, 52] ++ [0] ++ List.replicate 7 48 ++ [0] ++ List.replicate 7 48 ++ [0] ++ List.replicate 10 48 ++ [51] ++ [0] ++ List.replicate 11 48 ++ [0] ++ [48, 48] ++ [55] ++ [48] ++ [50] ++ [48] ++ [0] ++ [32] ++ [48] ++ List.replicate 100 0 ++ [117] ++ [115] ++ [116] ++ [97] ++ [114] ++ [0] ++ [48, 48] ++ List.replicate 247 0 ++ [97] ++ [98] ++ [99] ++ List.replicate 1533 0
example : (match (readHeader rhExample).res with
    | .ok t rest => decide (t.name = [100, 105, 114, 47, 108, 111, 110, 103, 45, 110, 97, 109, 101] ∧ t.recordSize = 3 ∧ rest.length = 1536)
    | _ => false) = true ∧ (readHeader rhExample).allocs = [14] := by decide +kernel
example : xattrDecode [34, 97, 92, 49, 48, 49, 92, 92, 34, 0] = .ok [97, 65, 92] := by decide
example : readNumber [48, 48, 48, 49, 50, 51, 52, 0] 0 8 = .ok 668 := by decide
example : readNumber [0x80, 0, 0, 0, 0, 0, 1, 0] 0 8 = .ok 256 := by decide
example : readNumber [0xff, 0xff, 0xff, 0xff, 0xff, 0xff, 0xff, 0xfe] 0 8 = .ok (U64 - 2) := by decide          -- −2
example : readNumber [0xff, 0x00, 0xff, 0x80, 0x00, 0x7f, 0x64, 0xe0, 0xff] 0 9 = .fail 1 := by decide    -- 1.2.0 let this one wrap
example : (parseU 10 [49, 50, 51, 44, 0] 0 none true 0 0) = .ok (123, 3) := by decide
example : base64Decode [81, 85, 74, 68] 0 4 3 = .ok [65, 66, 67] := by decide
example : base64Decode [81, 85, 74, 68] 0 4 2 = .fail 1 := by decide
example : (match splitLine [97, 32, 34, 98, 32, 99, 34, 0] 7 [32, 9] with | .ok s => s.args.length | _ => 99) = 2 := by decide

end Parsers

/-! ## Reading a text input line by line (`istream_get_line` and its callers' loop) -/
section Lines
open Sqfs.IoLoops Sqfs.C07Lines

/--
**Pack, sort and xattr map files of any size and shape are read to the end, the same way for every buffering.**
`readFileOS B flags data os` is the loop `for (;;) { istream_get_line(…); … ++line_num; }` of
`fstree_from_file_stream` / `xattr_open_map_file` / the sort file reader over the real buffered file stream
(`istream.c`, buffer size `B`) and the real `istream_get_line` (`get_line.c`: a line is collected from as many buffer
windows as it takes).  For **every** file content, every buffer size `B > 0`, every flag set and every script of short
reads / `EINTR`s: the loop is not still running after `data.length + 2` calls (no endless loop, whatever the
lines look like: longer than the buffer, straddling a buffer boundary, CR/LF split across two windows, no final
newline, NUL bytes), it does not fail, and the caller sees exactly the lines — with the line numbers — of the
byte-at-a-time specification `specFile`, in which neither `B` nor the script occurs.
-/
theorem read_lines_chunking_independent (B : Nat) (hB : 0 < B) (flags : Nat) (data : Bytes) (os : OS)
    (h : noHard os.sc = true) :
    readFileOS B flags data os = specFile flags data ∧ (specFile flags data).err = none := by
  refine ⟨?_, specLines_no_fuel flags _ data 1 [] (by omega)⟩
  have := readLines_file B hB data flags (data.length + 2) (IStream.init data) ⟨0, 0⟩ 1 os [] (rel_init B data)
    (by simp [Iv]) h
  simpa [readFileOS, specFile] using this
example := read_lines_chunking_independent 4 (by decide) 5 [32, 97, 98, 99, 100, 101, 13, 10, 10, 120]
  ⟨[.part 0, .eintr, .part 2], []⟩ (by decide)

/-! ### non-vacuity -/
-- buffer of 4 bytes, a line longer than the buffer, CR LF split across two windows, an empty line that is skipped and counted
example : readFile 4 5 [32, 97, 98, 99, 100, 101, 13, 10, 10, 120] =
    ⟨none, [([97, 98, 99, 100, 101], 1), ([120], 3)], 4⟩ := by decide
example : specFile 5 [32, 97, 98, 99, 100, 101, 13, 10, 10, 120] =
    ⟨none, [([97, 98, 99, 100, 101], 1), ([120], 3)], 4⟩ := by decide
-- a script with a short read and an EINTR satisfies the hypothesis
example : noHard (⟨[.part 0, .eintr, .part 2], []⟩ : OS).sc = true := by decide

end Lines

/-! ## What the tar member stream hands out (`strm_get_buffered_data`, lib/tar/src/iterator.c) -/
section MemberStream
open Sqfs.IoLoops Sqfs.IoLoops.Spec

/--
**Whatever size a caller asks for, the tar member stream never hands out more than its buffer holds.**
`tarGet I x want os` is `strm_get_buffered_data` of the member stream `tar2sqfs` reads the content of an archive
member through (model: `Sqfs/Model/C12TarStream.lean`, tied to the code by C12's `tarstrm` scenarios and by C07's
`ms` lines with request sizes up to 1 MiB).  For **every** archive stream `I`, every state of the iterator (any
sparse map, any offset), **every** request size `want` — `tar2sqfs -b` makes `write_file` ask for a whole data
block, up to 1 MiB — and every OS script: the window has at most `want` bytes; and when the position lies in a
hole of a sparse member (`last_sparse`), the window is at most 4096 bytes (`sizeof(tar->buffer)`, the zero-filled
array inside the stream object it is served from) and consists of zero bytes only.  Outside a hole the window is a
prefix (`take diff`) of the window of the wrapped archive stream, so it lies inside that stream's buffer if the
archive stream's own window does (file istream: C12 `istream` scenarios; `want` is clamped to `BUFSZ` there).
-/
theorem tar_member_window_bounded {σ : Type} (I : StreamI σ) (x : TarStrm σ) (want : Nat) (os : OS) :
    (tarGet I x want os).2.1.length ≤ want ∧
    ((tarGet I x want os).2.2.1.it.lastSparse = true →
      (tarGet I x want os).2.1.length ≤ 4096 ∧
      (tarGet I x want os).2.1 = List.replicate (tarGet I x want os).2.1.length 0) := by
  unfold tarGet
  dsimp only
  split
  · simp
  split
  · simp
  split
  · simp
  split
  · simp
  split
  · simp only [List.length_replicate]
    refine ⟨?_, fun _ => ⟨?_, trivial⟩⟩ <;> (repeat' split) <;> omega
  · split
    · simp
    · simp
    · rename_i hh _ _ _ _ _
      simp only [List.length_take]
      refine ⟨?_, fun h => absurd h (by simpa using hh)⟩
      split <;> omega

/-! ### non-vacuity: a member of 2 MiB that is one hole, a request of 1 MiB (`tar2sqfs -b 1M`): 4096 zero bytes -/
example : (tarGet (idealStream 4096 []) (tarOpen ((TarIt.init (⟨0, 0⟩ : Ideal)).setMember ⟨0, 2097152, [⟨2097152, 0⟩]⟩))
    1048576 OS.full).2.1 = List.replicate 4096 0 := by rfl
example : (tarGet (idealStream 4096 []) (tarOpen ((TarIt.init (⟨0, 0⟩ : Ideal)).setMember ⟨0, 2097152, [⟨2097152, 0⟩]⟩))
    1048576 OS.full).2.2.1.it.lastSparse = true := by rfl
example := tar_member_window_bounded (idealStream 4096 [])
  (tarOpen ((TarIt.init (⟨0, 0⟩ : Ideal)).setMember ⟨0, 2097152, [⟨2097152, 0⟩]⟩)) 1048576 OS.full

end MemberStream

end Sqfs.C07
