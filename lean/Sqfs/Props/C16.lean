/-
C16 — `rdsquashfs --describe` output is valid `gensquashfs --pack-file` input rebuilding the tree.

Property theorems only (helpers: `Sqfs/Proofs/Quote*.lean`).

* `Sqfs.QuoteLF.describe…` is `bin/rdsquashfs/src/describe.c` **as it is in /repo** (after 96e45c1 "quote and escape"
  and 4b35342 "refuse a line feed").  Every theorem below that mentions a printer is about it.
* `Sqfs.Quote.describe…` is the same printer without the line-feed test (the code between the two fixes).  The proofs
  factor through it (`describe_newline_same`: the two agree wherever nothing contains LF), and it is what the
  witnesses of the repaired defect in `Sqfs/Witness/C16.lean` are about.  `Sqfs.QuoteOld` is the pinned snapshot.
* The parser side (`split_line.c`, `parse_int.c`, `get_line.c`, `fstree_from_file.c` incl. the `flags` column of the
  keyword table since 99d70b1) and `lib/fstree/src/fstree.c` (`Sqfs.QuoteFs`) are the code in /repo.

The round-trip theorems end at the arguments of `fstree_add_generic` (see `Sqfs/Spec/Quote.lean`: `specEntry`);
`rebuild_fstree_partial` goes one step further, through the real `fstree_add_generic` into the tree gensquashfs
holds in memory (`Sqfs/Model/QuoteFs.lean`, `Sqfs/Spec/QuoteFs.lean`).  From that tree to the image and back
(`fstree_post_process`, the writer, the reader, `rdsquashfs -u`, file contents) nothing is modelled here.

Hard links: `rdsquashfs --describe` has no notion of them — the tree it walks has one independent node per name, and
`describe_tree` never prints the `link` keyword (`describe_prints_no_link`).  The names of a hard-link group are
described as `file` lines of their own and come back as independent regular files with equal contents; the group
(same inode, link count) is **not** rebuilt.  The property does not list link identity, so this is recorded, not a
defect; the repaired `link` keyword (99d70b1) is modelled on the parser and fstree side, where pack files use it.
-/
import Sqfs.Proofs.QuoteTree
import Sqfs.Proofs.QuoteCursor
import Sqfs.Proofs.QuoteLF
import Sqfs.Proofs.QuoteFs
namespace Sqfs.C16
open Sqfs.Path (Bytes joinSlash)
open Sqfs.Quote
open Sqfs.Consts
set_option linter.unusedSimpArgs false

/-! ### data of the instantiating examples (every theorem below is followed by an `example` applying it to these with all
hypotheses discharged)

* `exComps`/`exNode`: a symlink `d q/x\ "y` → ` t\t#\r` (name with space, backslash, quote; target with leading space, tab,
  '#', trailing CR); `exUr`: the `--unpack-root` `R s`.
* `exFs`: a root 0700 7:8 with `b` (a link with mode 0755 → `x y`), `a` (a directory with a device node) and a socket of a type
  that is not described.
* `exLF`: a root with a symlink `l` → `a<LF>b` and a file (`RootOkN` admits LF; the printer refuses it).
* `exTab`: a root with a file `a<TAB>` and a symlink `b` → `c ` (`RootOkN`, and the printer prints it). -/

def exComps : List Bytes := [[100, 32, 113], [120, 92, 32, 34, 121]]
def exNode : Node := { kind := .slink, perm := 0o777, uid := 4294967295, gid := 0, target := [32, 116, 9, 35, 13] }
def exUr : Option Bytes := some [82, 32, 115]
def exFs : Tree := .mk [] { kind := .dir, perm := 0o700, uid := 7, gid := 8 }
    [.mk [98] { kind := .slink, perm := 0o755, uid := 1, gid := 2, target := [120, 32, 121] } [],
     .mk [97] { kind := .dir, perm := 0o755, uid := 0, gid := 0 }
       [.mk [110] { kind := .chr, perm := 0o600, uid := 0, gid := 0, devno := 0x0501 } []],
     .mk [111] { kind := .other, perm := 0, uid := 0, gid := 0 } []]
def exLF : Tree := .mk [] { kind := .dir, perm := 0o755, uid := 0, gid := 0 }
    [.mk [108] { kind := .slink, perm := 0o777, uid := 0, gid := 0, target := [97, 10, 98] } [],
     .mk [102, 32] { kind := .file, perm := 0o644, uid := 0, gid := 0 } []]
def exTab : Tree := .mk [] { kind := .dir, perm := 0o700, uid := 7, gid := 8 }
    [.mk [97, 9] { kind := .file, perm := 0o644, uid := 0, gid := 0 } [],
     .mk [98] { kind := .slink, perm := 0o777, uid := 0, gid := 0, target := [99, 32] } []]

theorem exComps_good : ∀ c ∈ exComps, GoodName c := by unfold exComps GoodName; decide
theorem exNode_wf : exNode.Wf := by unfold Node.Wf LineSafe exNode; decide
theorem exUr_lineSafe : ∀ r, exUr = some r → LineSafe r := by
  intro r h; cases h; unfold LineSafe; decide
theorem exFs_rootOk : RootOk exFs := by
  unfold exFs
  simp only [RootOk, ForestOk, TreeOk, GoodName, Node.Wf, LineSafe]
  and_intros
  all_goals decide
theorem exLF_rootOkN : RootOkN exLF := by
  simp only [exLF, RootOkN, ForestOkN, TreeOkN, ImgName, Node.WfN]
  decide
theorem exTab_rootOkN : RootOkN exTab := by
  simp only [exTab, RootOkN, ForestOkN, TreeOkN, ImgName, Node.WfN]
  decide


/--
**Tokeniser round trip.**  For every list of fields that contain no NUL (any other byte is allowed: spaces, tabs,
quotes, backslashes, `#`, CR, LF, high bytes; empty fields too), printing each field with `print_escaped` and
joining with single spaces gives a line that `split_line` splits back into exactly those fields.
-/
theorem split_print_roundtrip (fields : List Bytes) (h : ∀ f ∈ fields, NUL ∉ f) :
    splitLine packSep (joinSp (fields.map printEscaped)) = .ok fields := by
  apply splitLine_join
  induction fields with
  | nil => exact Encs.nil
  | cons f r ih =>
    exact Encs.cons (enc_printEscaped f (h f (by simp))) (ih (fun g hg => h g (by simp [hg])))


/-- instance: fields `a b`, empty, `\"`, `x`, tab, `#c<CR><LF>` -/
example := split_print_roundtrip [[97, 32, 98], [], [92, 34], [120], [9], [35, 99, 13, 10]] (by decide)

/--
**Printer ∘ parser = identity, node by node.**  For every node of an image — any kind that can be described, at
any path whose names are non-empty, not "."/"..", and free of '/', NUL and LF (every other byte allowed: space,
tab, `"`, `\`, `#`, CR, high bytes, leading/trailing blanks), any 12-bit mode, 32-bit uid/gid/device number, any
symlink target and any `--unpack-root` free of NUL and LF — `describe_tree` prints one line, and
`fstree_from_file_stream` with default options decodes that line — through `istream_get_line`, `split_line`,
`canonicalize_name`, `parse_uint(_oct)` and the keyword's callback — to exactly the entry the specification
demands (`specEntry`: same path, type bits | permission bits, uid, gid, device number, symlink target, and for
files the input location `path` or `<unpack-root>/<path>`), then goes on with whatever follows the line.
-/
theorem handle_print_roundtrip (ur : Option Bytes) (comps : List Bytes) (n : Node)
    (hc : ∀ c ∈ comps, GoodName c) (hn : n.Wf) (hur : ∀ r, ur = some r → LineSafe r)
    (hroot : comps = [] → n.kind = .dir) (e : Entry) (he : specEntry ur comps n = some e) :
    ∃ line, Sqfs.QuoteLF.describeNode ur comps n = .ok line ∧
      ∀ rest, fstreeFromFile {} (line ++ rest) = (e :: (fstreeFromFile {} rest).1, (fstreeFromFile {} rest).2) := by
  rw [lf_node_same ur comps n hc (fun hk => (hn.2.2.2.2 hk).2) (fun _ r hr => (hur r hr).2)]
  exact handle_print_roundtrip_proof ur comps n hc hn hur hroot e he

/-- instances: the symlink below `--unpack-root R s`; a regular file (its input location is `R s/<path>`); the root -/
example := handle_print_roundtrip exUr exComps exNode exComps_good exNode_wf exUr_lineSafe (by decide) _ rfl
example := handle_print_roundtrip exUr exComps { kind := .file, perm := 0o644, uid := 1, gid := 2 } exComps_good
  (by unfold Node.Wf LineSafe; decide) exUr_lineSafe (by decide) _ rfl
example := handle_print_roundtrip exUr [] { kind := .dir, perm := 0o700, uid := 7, gid := 8 } (by simp)
  (by unfold Node.Wf LineSafe; decide) exUr_lineSafe (by simp) _ rfl

/-- the same, for the line on its own: it decodes to exactly the one entry, without error -/
theorem handle_print_roundtrip_line (ur : Option Bytes) (comps : List Bytes) (n : Node)
    (hc : ∀ c ∈ comps, GoodName c) (hn : n.Wf) (hur : ∀ r, ur = some r → LineSafe r)
    (hroot : comps = [] → n.kind = .dir) (e : Entry) (he : specEntry ur comps n = some e) :
    ∃ line, Sqfs.QuoteLF.describeNode ur comps n = .ok line ∧ fstreeFromFile {} line = ([e], none) := by
  obtain ⟨line, h1, h2⟩ := handle_print_roundtrip_proof ur comps n hc hn hur hroot e he
  rw [← lf_node_same ur comps n hc (fun hk => (hn.2.2.2.2 hk).2) (fun _ r hr => (hur r hr).2)] at h1
  refine ⟨line, h1, ?_⟩
  have := h2 []
  rw [List.append_nil, ffe_nil] at this
  exact this

example := handle_print_roundtrip_line exUr exComps exNode exComps_good exNode_wf exUr_lineSafe (by decide) _ rfl

/--
**Whole listing.**  For the tree of any image (a nameless root directory; below it only good names, fields in
range; any shape, any mix of node kinds), `rdsquashfs --describe [--unpack-root R]` succeeds and
`gensquashfs --pack-file` decodes its output, without error, to exactly the specified entries of all nodes in
pre-order — the root directory's own mode and owner included.
-/
theorem describe_roundtrip (ur : Option Bytes) (hur : ∀ r, ur = some r → LineSafe r) (t : Tree) (ht : RootOk t) :
    ∃ out, Sqfs.QuoteLF.describe ur t = .ok out ∧ fstreeFromFile {} out = (specTree ur [] t, none) := by
  obtain ⟨out, h1, h2⟩ := describe_roundtrip_proof ur hur t ht
  refine ⟨out, ?_, h2⟩
  cases t with
  | mk name node ch =>
    obtain ⟨hname, _, hn, hf⟩ := ht
    subst hname
    simp only [describe, Tree.name, if_true] at h1
    simp only [Sqfs.QuoteLF.describe, Tree.name, if_true]
    rw [lf_tree_same ur hur [] (by simp) (.mk [] node ch) ⟨hn, hf⟩]
    exact h1

example := describe_roundtrip exUr exUr_lineSafe exFs exFs_rootOk

/-!
### no assumption about LF (the line-feed test of 4b35342)

Full-strength form of the property for a printer that may refuse: over **every** tree an image can hold (`RootOkN`:
names non-empty, not "."/"..", no '/', no NUL; C-string targets; 12/32-bit fields — LF allowed everywhere) and every
NUL-free `--unpack-root`.  (`describe` without prefix is the printer without the line-feed test.)
-/

/--
**A printed listing always rebuilds the tree.**  Whenever `rdsquashfs --describe [--unpack-root R]` succeeds, its
output is byte for byte what the printer without the line-feed test prints, and `gensquashfs --pack-file` decodes
it, without error, to exactly the specified entries of all nodes in pre-order.
-/
theorem describe_newline_sound (ur : Option Bytes) (hur : ∀ r, ur = some r → NUL ∉ r) (t : Tree) (ht : RootOkN t)
    (out : Bytes) (h : Sqfs.QuoteLF.describe ur t = .ok out) :
    describe ur t = .ok out ∧ fstreeFromFile {} out = (specTree ur [] t, none) := by
  cases t with
  | mk name node ch =>
    obtain ⟨hname, hk, hn, hf⟩ := ht
    subst hname
    simp only [Sqfs.QuoteLF.describe, Tree.name, if_true] at h
    obtain ⟨h1, h2⟩ := (lf_tree_rt ur hur [] (by simp) (.mk [] node ch) ⟨hn, hf, fun _ => hk⟩).1 out h
    refine ⟨by simp [describe, Tree.name, h1], ?_⟩
    have := h2 []
    rw [List.append_nil, ffe_nil] at this
    simpa using this

/-- instance, `RootOkN` and a successful print jointly: `exTab` below `--unpack-root R s` is printed, and the listing decodes
to the specified entries -/
example : ∃ out, Sqfs.QuoteLF.describe exUr exTab = .ok out ∧ describe exUr exTab = .ok out ∧
    fstreeFromFile {} out = (specTree exUr [] exTab, none) := by
  have hk : (Sqfs.QuoteLF.describe exUr exTab).toBool = true := by decide
  cases h : Sqfs.QuoteLF.describe exUr exTab with
  | error e => rw [h] at hk; cases hk
  | ok out => exact ⟨out, rfl, describe_newline_sound exUr (fun r hr => (exUr_lineSafe r hr).1) exTab exTab_rootOkN out h⟩
/-- … and with a LF in an `--unpack-root` that is never printed (no regular file in the tree) -/
example : ∃ out, Sqfs.QuoteLF.describe (some [10]) (.mk [] { kind := .dir, perm := 0o700, uid := 7, gid := 8 }
      [.mk [98] { kind := .slink, perm := 0o777, uid := 0, gid := 0, target := [99, 32] } []]) = .ok out ∧
    fstreeFromFile {} out = (specTree (some [10]) [] (.mk [] { kind := .dir, perm := 0o700, uid := 7, gid := 8 }
      [.mk [98] { kind := .slink, perm := 0o777, uid := 0, gid := 0, target := [99, 32] } []]), none) := by
  have hk : (Sqfs.QuoteLF.describe (some [10]) (.mk [] { kind := .dir, perm := 0o700, uid := 7, gid := 8 }
      [.mk [98] { kind := .slink, perm := 0o777, uid := 0, gid := 0, target := [99, 32] } []])).toBool = true := by decide
  cases h : Sqfs.QuoteLF.describe (some [10]) (.mk [] { kind := .dir, perm := 0o700, uid := 7, gid := 8 }
      [.mk [98] { kind := .slink, perm := 0o777, uid := 0, gid := 0, target := [99, 32] } []]) with
  | error e => rw [h] at hk; cases hk
  | ok out =>
    exact ⟨out, rfl, (describe_newline_sound (some [10]) (by intro r h; cases h; decide) _
      (by simp only [RootOkN, ForestOkN, TreeOkN, ImgName, Node.WfN]; decide) out h).2⟩

/--
**It refuses only what cannot be written down.**  When `describe` fails on such a tree, it fails with
the line-feed diagnostic (never with one of the path errors), and the tree or the `--unpack-root` does contain a LF
(in a name, a symlink target or the root) — on LF-free input it never fails.
-/
theorem describe_newline_refusal (ur : Option Bytes) (hur : ∀ r, ur = some r → NUL ∉ r) (t : Tree) (ht : RootOkN t)
    (e : DErr) (h : Sqfs.QuoteLF.describe ur t = .error e) :
    e = .newline ∧ ¬ (RootOk t ∧ ∀ r, ur = some r → LineSafe r) := by
  cases t with
  | mk name node ch =>
    obtain ⟨hname, hk, hn, hf⟩ := ht
    subst hname
    refine ⟨?_, ?_⟩
    · simp only [Sqfs.QuoteLF.describe, Tree.name, if_true] at h
      exact (lf_tree_rt ur hur [] (by simp) (.mk [] node ch) ⟨hn, hf, fun _ => hk⟩).2 e h
    · rintro ⟨⟨_, _, hn', hf'⟩, hur'⟩
      have hs := lf_tree_same ur hur' [] (by simp) (.mk [] node ch) ⟨hn', hf'⟩
      obtain ⟨out, h1, _⟩ := tree_rt ur hur' [] (by simp) (.mk [] node ch) ⟨hn', hf', fun _ => hk⟩
      simp only [Sqfs.QuoteLF.describe, Tree.name, if_true] at h
      rw [hs, h1] at h
      cases h

example := describe_newline_refusal none (by simp) exLF exLF_rootOkN .newline (by decide)

/--
**The line-feed test changes nothing else.**  On every tree and `--unpack-root` without LF (the hypotheses of
`describe_roundtrip`) the printer equals the printer without the test — so it succeeds there, with the same bytes.
-/
theorem describe_newline_same (ur : Option Bytes) (hur : ∀ r, ur = some r → LineSafe r) (t : Tree) (ht : RootOk t) :
    Sqfs.QuoteLF.describe ur t = describe ur t := by
  cases t with
  | mk name node ch =>
    obtain ⟨hname, _, hn, hf⟩ := ht
    subst hname
    simp only [Sqfs.QuoteLF.describe, describe, Tree.name, if_true]
    exact lf_tree_same ur hur [] (by simp) (.mk [] node ch) ⟨hn, hf⟩

example := describe_newline_same exUr exUr_lineSafe exFs exFs_rootOk

/-- node level: a line the printer prints for a node (image names on the path, no assumption about LF) is the line
the printer without the line-feed test prints and decodes to exactly the node's entry, then goes on with what follows -/
theorem handle_print_newline_sound (ur : Option Bytes) (hur : ∀ r, ur = some r → NUL ∉ r) (comps : List Bytes) (n : Node)
    (hc : ∀ c ∈ comps, ImgName c) (hn : n.WfN) (hroot : comps = [] → n.kind = .dir) (line : Bytes)
    (h : Sqfs.QuoteLF.describeNode ur comps n = .ok line) :
    describeNode ur comps n = .ok line ∧
      ∀ rest, fstreeFromFile {} (line ++ rest) =
        ((specEntry ur comps n).toList ++ (fstreeFromFile {} rest).1, (fstreeFromFile {} rest).2) :=
  lf_node_decodes ur hur comps n hc hn hroot line h

/-- instance with `ImgName` / `WfN` (the weaker, LF-admitting hypotheses) and a line that is printed -/
example : ∃ line, Sqfs.QuoteLF.describeNode exUr exComps exNode = .ok line ∧ describeNode exUr exComps exNode = .ok line := by
  have hk : (Sqfs.QuoteLF.describeNode exUr exComps exNode).toBool = true := by decide
  cases h : Sqfs.QuoteLF.describeNode exUr exComps exNode with
  | error e => rw [h] at hk; cases hk
  | ok line =>
    exact ⟨line, rfl, (handle_print_newline_sound exUr (fun r hr => (exUr_lineSafe r hr).1) exComps exNode
      (fun c hc => (exComps_good c hc).img) (by unfold Node.WfN exNode; decide) (by decide) line h).1⟩

/-!
### one step further: the tree gensquashfs builds from the listing

Full statement of the property's clause "yields an image with the same paths, types, permission bits, owners, symlink
targets, device numbers and file contents":  `read (write (build (describe t))) ≈ t` and the contents of the files
named by the locations equal the contents in the original image.  What is proved is the part up to `build`: the
in-memory tree.  Missing: the image writer and reader (property C01 owns that model), `rdsquashfs -u` producing the
files the locations name (C06), file contents.
-/

/--
**The listing rebuilds the tree in gensquashfs' memory.**  For the tree `t` of any image (`RootOk`) whose directories
hold pairwise different names (and fewer than 2³² − 3 entries each) and are nested at most SQFS_MAX_DIR_NESTING deep
(`Shallow`: the readers hand out nothing deeper): `rdsquashfs --describe [--unpack-root R]` succeeds and
`gensquashfs --pack-file`, reading its output with the real `fstree_add_generic` into a fresh `fstree_t`, ends
without error with exactly `normTree`: every described node at its path below its rebuilt parent, with the same type,
permission bits (a symbolic link: always 0777 — `mknode` ignores a link's mode), owner, link target, device number,
for a regular file the input location `<path>` / `R/<path>`, link count 1 or 2 + number of described children, no
directory left "created implicitly", no hard-link node, the children linked with `insert_sorted`.
-/
theorem rebuild_fstree_partial (d : Sqfs.QuoteFs.Defaults) (hd : d.mtime < 2 ^ 32) (ur : Option Bytes)
    (hur : ∀ r, ur = some r → LineSafe r) (t : Tree) (ht : RootOk t) (hdist : Sqfs.QuoteFs.Distinct t)
    (hsh : Sqfs.QuoteFs.Shallow 0 t) :
    ∃ out, Sqfs.QuoteLF.describe ur t = .ok out ∧
      Sqfs.QuoteFs.buildFromFile {} d out = (Sqfs.QuoteFs.normTree d ur [] t, none) := by
  obtain ⟨out, h1, h2⟩ := describe_roundtrip ur hur t ht
  refine ⟨out, h1, ?_⟩
  simp only [Sqfs.QuoteFs.buildFromFile, h2, Sqfs.QuoteFs.build_root d hd ur t ht hdist hsh, Option.map_none]

example := rebuild_fstree_partial { mtime := 9 } (by decide) exUr exUr_lineSafe exFs exFs_rootOk
  (by simp only [exFs, Sqfs.QuoteFs.Distinct, Sqfs.QuoteFs.DistinctF, List.map, Tree.name, List.length]; decide)
  (by simp only [exFs, Sqfs.QuoteFs.Shallow, Sqfs.QuoteFs.ShallowF]; decide)

/--
**`describe` never prints a hard link.**  Every entry `gensquashfs` decodes from a listing has `flags = 0`: none is
the `link` keyword's SQFS_DIR_ENTRY_FLAG_HARD_LINK.  (The names of a hard-link group of the image are independent
nodes of the tree `describe_tree` walks and are printed as `file` lines; what is rebuilt are independent regular
files with the same contents, not the group.)
-/
theorem describe_prints_no_link (ur : Option Bytes) (hur : ∀ r, ur = some r → LineSafe r) (t : Tree) (ht : RootOk t) :
    ∃ out, Sqfs.QuoteLF.describe ur t = .ok out ∧ ∀ e ∈ (fstreeFromFile {} out).1, e.flags = 0 := by
  obtain ⟨out, h1, h2⟩ := describe_roundtrip ur hur t ht
  refine ⟨out, h1, ?_⟩
  rw [h2]
  exact Sqfs.QuoteFs.specTree_flags ur [] t

example := describe_prints_no_link exUr exUr_lineSafe exFs exFs_rootOk

/-- `split_line` never runs out of the model's fuel: every iteration of its outer loop consumes input (so the
model's `splitLine` is the C function, not a truncation of it) — for every separator set and every buffer -/
theorem split_never_fuel (sep line : Bytes) : splitLine sep line ≠ .error .fuel := by
  unfold splitLine
  exact splitLoop_fuel sep _ _ (skipSep_length sep line)

example := split_never_fuel packSep [97, 32, 34, 98, 34, 32, 99]

/-- **In-place faithfulness of `split_line`.**  At the start of every token the write cursor `dst` is not ahead
of the read cursor `src` (so modelling the in-place rewrite as read-original/emit-tokens loses nothing) — for
every separator set and every buffer, well-formed or not. -/
theorem split_dst_le_src (sep line : Bytes) (l : List (Nat × Nat))
    (h : splitPos sep line.length (skipSep sep line) 0 (line.length - (skipSep sep line).length) = .ok l) :
    ∀ p ∈ l, p.1 ≤ p.2 :=
  splitPos_le sep _ _ _ _ l h (Or.inl (Nat.zero_le _))

example := split_dst_le_src packSep [97, 32, 34, 98, 34, 32, 99] [(0, 0), (2, 2), (4, 6)] (by decide)

/-- `parse_uint` reads back what `printf("%u")` printed, for every 32-bit value (uid, gid, major, minor) -/
theorem parse_print_dec (n : Nat) (h : n < 2 ^ 32) : parseNum 10 0 0x0FFFFFFFF (printNat 10 n) = .ok n :=
  parseNum_printNat 10 (Or.inr rfl) _ n (by omega) (by omega) (by omega)

example := parse_print_dec 4294967295 (by decide)

/-- `parse_uint_oct` reads back what `printf("0%o")` printed, for every 12-bit mode -/
theorem parse_print_mode (n : Nat) (h : n < 0o10000) : parseNum 8 0 0o7777 (48 :: printNat 8 n) = .ok n :=
  parseNum_zero_printNat n (by omega)

example := parse_print_mode 0o7777 (by decide)

/-- glibc's `makedev(major(d), minor(d)) = d` for every 32-bit device number -/
theorem device_number_roundtrip (d : Nat) (h : d < 2 ^ 32) :
    makedev (devMajor d) (devMinor d) = d ∧ devMajor d < 2 ^ 32 ∧ devMinor d < 2 ^ 32 :=
  ⟨makedev_major_minor d h, devMajor_lt d h, devMinor_lt d h⟩

example := device_number_roundtrip 0x12345678 (by decide)

/-! ### non-vacuity -/

-- fields: `a b`, ``, `\"`, `x`, tab, `#c<CR>`
example : splitLine packSep (joinSp ([[97,32,98], [], [92,34], [120], [9], [35,99,13]].map printEscaped))
    = .ok [[97,32,98], [], [92,34], [120], [9], [35,99,13]] := by decide
example : joinSp ([[97,32,98], [], [92,34], [120]].map printEscaped)
    = [34,97,32,98,34, 32, 34,34, 32, 34,92,92,92,34,34, 32, 120] := by decide

-- the hypotheses of `handle_print_roundtrip` hold for a symlink `d q/x\ "y` → ` t\t#\r` (name with space, backslash,
-- quote; target with leading space, tab, '#', trailing CR), and the line is what the repaired printer prints
example : (∀ c ∈ exComps, GoodName c) ∧ exNode.Wf := by
  refine ⟨?_, ?_⟩
  · unfold exComps GoodName; decide
  · unfold Node.Wf LineSafe exNode; decide
example : describeNode none exComps exNode
    = .ok [115,108,105,110,107,32, 34,100,32,113,47,120,92,92,32,92,34,121,34, 32,48,55,55,55, 32,52,50,57,52,57,54,55,50,57,53, 32,48,
           32, 34,32,116,9,35,13,34, 10] := by decide
example : fstreeFromFile {} [115,108,105,110,107,32, 34,100,32,113,47,120,92,92,32,92,34,121,34, 32,48,55,55,55, 32,52,50,57,52,57,54,55,50,57,53, 32,48,
           32, 34,32,116,9,35,13,34, 10]
    = ([{ name := [100,32,113,47,120,92,32,34,121], mode := 0o120777, uid := 4294967295, gid := 0, rdev := 0,
          extra := some [32,116,9,35,13] }], none) := by decide
-- a device node and a file with --unpack-root `R s`
example : describeNode none [[99]] { kind := .chr, perm := 0o600, uid := 0, gid := 0, devno := 0x12345678 }
    = .ok [110,111,100,32,99,32,48,54,48,48,32,48,32,48,32,99,32,49,49,49,48,32,55,52,54,49,54,10] := by decide
example : describeNode (some [82, 32, 115]) [[102]] { kind := .file, perm := 0o644, uid := 1, gid := 2 }
    = .ok [102,105,108,101,32,102,32,48,54,52,52,32,49,32,50,32,34,82,32,115,47,102,34,10] := by decide
-- `RootOk` is satisfiable: a root directory 0700 7:8 with one child
example : RootOk (.mk [] { kind := .dir, perm := 0o700, uid := 7, gid := 8 }
    [.mk [97, 9] { kind := .fifo, perm := 0o644, uid := 0, gid := 0 } []]) := by
  simp only [RootOk, ForestOk, TreeOk, GoodName, Node.Wf, LineSafe]
  decide
example : describe none (.mk [] { kind := .dir, perm := 0o700, uid := 7, gid := 8 }
    [.mk [97, 9] { kind := .fifo, perm := 0o644, uid := 0, gid := 0 } []])
    = .ok [100,105,114,32,47,32,48,55,48,48,32,55,32,56,10, 112,105,112,101,32,34,97,9,34,32,48,54,52,52,32,48,32,48,10] := by decide
-- `RootOkN` admits LF: a root with a symlink `l` → `a<LF>b` and a file; the printer refuses it with the line-feed
-- diagnostic, the printer without the test prints it (and the listing does not decode to the tree: `Sqfs/Witness/C16.lean`)
example : RootOkN exLF := by
  simp only [exLF, RootOkN, ForestOkN, TreeOkN, ImgName, Node.WfN]
  decide
example : Sqfs.QuoteLF.describe none exLF = .error .newline := by decide
example : (match describe none exLF with | .ok _ => true | .error _ => false) = true := by decide
-- … and trees the printer does print (`describe_newline_sound` is not vacuous): no LF, with `--unpack-root`
example : Sqfs.QuoteLF.describe (some [82, 32, 115]) (.mk [] { kind := .dir, perm := 0o700, uid := 7, gid := 8 }
    [.mk [97, 9] { kind := .file, perm := 0o644, uid := 0, gid := 0 } []])
    = .ok [100,105,114,32,47,32,48,55,48,48,32,55,32,56,10,
           102,105,108,101,32,34,97,9,34,32,48,54,52,52,32,48,32,48,32,34,82,32,115,47,97,9,34,10] := by decide
-- a LF in an `--unpack-root` that is never printed (no regular file) does not make it refuse
example : Sqfs.QuoteLF.describe (some [10]) (.mk [] { kind := .dir, perm := 0o700, uid := 7, gid := 8 } [])
    = .ok [100,105,114,32,47,32,48,55,48,48,32,55,32,56,10] := by decide
-- `rebuild_fstree_partial`: hypotheses hold for a root 0700 7:8 with `b` (a link with mode 0755 → `x y`), `a` (a directory with a
-- device node) and a socket of a type that is not described; the rebuilt tree has the children sorted, the link 0777
example : RootOk exFs := by
  unfold exFs
  simp only [RootOk, ForestOk, TreeOk, GoodName, Node.Wf, LineSafe]
  and_intros
  all_goals decide
example : Sqfs.QuoteFs.Shallow 0 exFs := by
  simp only [exFs, Sqfs.QuoteFs.Shallow, Sqfs.QuoteFs.ShallowF]
  decide
example : Sqfs.QuoteFs.Distinct exFs := by
  simp only [exFs, Sqfs.QuoteFs.Distinct, Sqfs.QuoteFs.DistinctF, List.map, Tree.name, List.length]
  decide
example : (Sqfs.QuoteLF.describe none exFs).toOption.map (fun out =>
      let r := Sqfs.QuoteFs.buildFromFile {} { mtime := 9 } out
      (r.1.flat 0, r.2))
    = some ([(0, [], { mode := 0o40700, uid := 7, gid := 8, mtime := 9, linkCount := 4, implicit := false, rdev := 0, extra := none }),
             (1, [97], { mode := 0o40755, uid := 0, gid := 0, mtime := 9, linkCount := 3, implicit := false, rdev := 0, extra := none }),
             (2, [110], { mode := 0o20600, uid := 0, gid := 0, mtime := 9, linkCount := 1, implicit := false, rdev := 0x0501, extra := none }),
             (1, [98], { mode := 0o120777, uid := 1, gid := 2, mtime := 9, linkCount := 1, implicit := false, rdev := 0, extra := some [120, 32, 121] })],
            none) := by decide
-- the cursor theorem's hypothesis is satisfiable (and tight: dst = src on the last token of `a "b" c`)
example : splitPos packSep 7 [97,32,34,98,34,32,99] 0 0 = .ok [(0, 0), (2, 2), (4, 6)] := by decide

end Sqfs.C16
