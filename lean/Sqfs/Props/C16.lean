/-
C16 — `rdsquashfs --describe` output is valid `gensquashfs --pack-file` input rebuilding the tree.

Property theorems only (helpers: `Sqfs/Proofs/Quote.lean`).  The printer is the **repaired** `describe.c`
(`fixes/C16-describe-quoting.patch`); the printer of the pinned snapshot violates the property, see
`Sqfs/Witness/C16.lean`.  The parser side (`split_line.c`, `parse_int.c`, `get_line.c`, `fstree_from_file.c`) is
the unchanged code.
-/
import Sqfs.Proofs.Quote
namespace Sqfs.C16
open Sqfs.Path (Bytes)
open Sqfs.Quote

/--
**Tokeniser round trip.**  For every list of fields that contain no NUL (any other byte is allowed: spaces, tabs,
quotes, backslashes, `#`, CR, LF, high bytes; empty fields too), printing each field with `print_escaped` and
joining with single spaces gives a line that `split_line` splits back into exactly those fields.
-/
theorem split_print_roundtrip (fields : List Bytes) (h : ∀ f ∈ fields, NUL ∉ f) :
    splitLine packSep (joinSp (fields.map printEscaped)) = .ok fields := by
  apply splitLine_join
  induction fields with
  | nil => exact Encs.nil
  | cons f r ih =>
    exact Encs.cons (enc_printEscaped f (h f (by simp))) (ih (fun g hg => h g (by simp [hg])))

/-! ### non-vacuity -/

-- fields: `a b`, ``, `\"`, `x`, tab, `#c<CR>`
example : splitLine packSep (joinSp ([[97,32,98], [], [92,34], [120], [9], [35,99,13]].map printEscaped))
    = .ok [[97,32,98], [], [92,34], [120], [9], [35,99,13]] := by decide
example : joinSp ([[97,32,98], [], [92,34], [120]].map printEscaped)
    = [34,97,32,98,34, 32, 34,34, 32, 34,92,92,92,34,34, 32, 120] := by decide

end Sqfs.C16
