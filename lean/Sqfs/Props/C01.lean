/-
C01 — packing fidelity: what the writer half of libsquashfs stores, the reader half reads back.

Property theorems (all ∀, no bound on sizes) about the models `Sqfs/Model/Enc*.lean` (+ the C03 writer-piece models
they build on) and non-vacuity examples.  The models are tied to `/repo` by the unit correspondence
(`harness/h_c01u.c` vs `sqfsmodel c01`, `tools/checks/c01_units.py`) and, for whole images, by `tools/checks/c01.py`.
Defects of the current code: `Sqfs/Witness/C01.lean`.
-/
import Sqfs.Proofs.EncInodeRT
import Sqfs.Proofs.EncWf
import Sqfs.Proofs.EncInodeSet
import Sqfs.Proofs.EncDirIndex
import Sqfs.Proofs.EncTables
import Sqfs.Proofs.EncMetaPos
import Sqfs.Proofs.EncXattr
import Sqfs.Proofs.EncXattrRec
import Sqfs.Proofs.EncXattrRef
import Sqfs.Proofs.EncXattrLoc
import Sqfs.Proofs.EncXattrE2E
import Sqfs.Proofs.EncTree
import Sqfs.Proofs.EncTreeAll4
import Sqfs.Proofs.PackContent2
import Sqfs.Proofs.FsTreeOrder
namespace Sqfs.C01
open Sqfs.Enc Sqfs.Consts
open Sqfs.MetaWriter (Codec)

/-! ## inodes -/

/-- **Inode round trip**, all 14 kinds: whatever `sqfs_meta_writer_write_inode` appends for a well-formed inode,
`sqfs_meta_reader_read_inode` standing at its first byte returns the same inode and leaves the stream at the byte
behind it (so inodes compose inside a stream). -/
theorem inode_roundtrip (bs : Nat) (i : Inode) (rest : Bytes) (h : WfInode bs i) :
    decInode bs (encInode i ++ rest) = .ok (i, rest) :=
  decInode_encInode bs i rest h

theorem exWfFile : WfInode 1048576 (.fileExt ⟨0o100644, 3, 65535, 0xFFFFFFFF, 7⟩ (2 ^ 32) (2 ^ 32 + 5) 4096 2 0xFFFFFFFF 0xFFFFFFFF 5
    (List.replicate 4097 0)) := by
  refine ⟨by decide, by decide, by decide, by decide, by decide, by decide, by decide, by decide, ?_, ?_⟩
  · rw [List.length_replicate]; decide
  · intro w hw; rw [List.eq_of_mem_replicate hw]; decide
theorem exWfDir : WfInode 4096 (.dirExt ⟨0o40755, 0, 0, 1, 9⟩ 3 70000 8194 1 2 100 NONE32 [⟨0, 0, [0x61]⟩, ⟨8000, 8194, [0xff, 0x62]⟩]) := by decide
theorem exWfSlink : WfInode 131072 (.slink ⟨0o120777, 1, 2, 3, 4⟩ 1 5 [0x2f, 0x80, 0xff, 0x20, 0x22]) := by decide
-- the theorem applied: a 4 GiB+ file inode with 4097 block words, an extended directory with an index, a symlink
example := inode_roundtrip _ _ [0xAA] exWfFile
example := inode_roundtrip _ _ [] exWfDir
example := inode_roundtrip _ _ [1, 2] exWfSlink

/-- `serialize_tree_node` **establishes** the well-formedness the round trip needs: from an inode that is well
formed (as produced by the directory writer / block processor / `tree_node_to_inode`), node attributes within their
C types and 16-bit id-table indices.  Only the per-kind part (`WfBody`) is asked of the incoming inode: its base is
calloc'ed zeros in C and is overwritten here. -/
theorem serialize_establishes_wf (bs : Nat) (isDir isReg : Bool) (a : NodeAttr) (uid gid : Nat) (i0 : Inode) (h0 : WfBody bs i0)
    (hm : a.mode < 65536 ∧ a.mode / 4096 * 4096 = i0.typeBits) (ht : a.mtime < 2 ^ 32) (hn : a.inum < 2 ^ 32)
    (hl : a.linkCount < 2 ^ 32) (hx : a.xattrIdx < 2 ^ 32) (hu : uid < 65536) (hg : gid < 65536) :
    WfInode bs (setIds uid gid (serializeInode isDir isReg a i0)) :=
  serialize_wf' bs isDir isReg a uid gid i0 h0 hm ht hn hl hx hu hg

-- the theorem applied: a two-block file with three links and xattr index 0 (so it is promoted), ids 65535 and 0
example := serialize_establishes_wf 4096 false true ⟨0o100600, 17, 12, 3, 0⟩ 65535 0
  (.file ⟨0, 0, 0, 0, 0⟩ 96 NONE32 NONE32 5000 [4096, 904]) (by decide) ⟨by decide, by decide⟩ (by decide) (by decide)
  (by decide) (by decide) (by decide) (by decide)

/-- **basic ↔ extended are inverse where both apply** (`sqfs_inode_make_extended` repaired, see `Witness`):
(1) basic → extended → basic is the identity on every well-formed basic inode; (2) extended → basic → extended is the
identity on every extended inode whose fields fit the basic layout and that carries nothing beyond it (no directory
index, one link); (3) neither conversion changes what a reader sees. -/
theorem make_extended_basic_inverse :
    (∀ bs (i : Inode), i.isExt = false → WfInode bs i → makeBasic (makeExtended i) = i)
    ∧ (∀ i : Inode, i.isExt = true → i.fitsBasic = true →
        (∀ b nl sz sb par ic off x idx, i = .dirExt b nl sz sb par ic off x idx → ic = 0 ∧ idx = []) →
        (∀ b st sz sp nl fi fo x blks, i = .fileExt b st sz sp nl fi fo x blks → nl = 1) →
        makeExtended (makeBasic i) = i)
    ∧ (∀ i : Inode, (makeExtended i).view = i.view) ∧ (∀ i : Inode, 1 ≤ i.nlink → (makeBasic i).view = i.view) :=
  ⟨makeBasic_makeExtended, makeExtended_makeBasic, makeExtended_view, makeBasic_view⟩

-- (1) applied to a basic fifo, (2) applied to an extended one-link file without xattrs
example := make_extended_basic_inverse.1 4096 (Inode.ipc ⟨0o10644, 0, 0, 0, 1⟩ false 1) (by decide) (by decide)
example := make_extended_basic_inverse.2.1 (.fileExt ⟨0o100644, 1, 2, 3, 4⟩ 96 100 0 1 NONE32 NONE32 NONE32 [100])
  (by decide) (by decide) (fun _ _ _ _ _ _ _ _ _ h => by cases h) (fun _ _ _ _ _ _ _ _ _ h => by cases h; rfl)

-- clauses 3 and 4, and clause 2 on a directory (where its first side condition is a real obligation)
example := make_extended_basic_inverse.2.2.1 (Inode.ipc ⟨0o10644, 0, 0, 0, 1⟩ false 1)
example := make_extended_basic_inverse.2.2.2 (.fileExt ⟨0o100644, 1, 2, 3, 4⟩ 96 100 0 1 NONE32 NONE32 NONE32 [100]) (by decide)
example := make_extended_basic_inverse.2.1 (.dirExt ⟨0o40755, 0, 0, 1, 9⟩ 3 100 0 1 0 100 NONE32 [])
  (by decide) (by decide) (fun _ _ _ _ _ _ _ _ _ h => by cases h; exact ⟨rfl, rfl⟩) (fun _ _ _ _ _ _ _ _ _ h => by cases h)

/-- **The basic/extended selection is safe and minimal.**
* regular files: the inode written carries exactly the wanted link count, xattr index, mode, time stamp, inode number
  on top of the block processor's payload (size, start, sparse, fragment, block words) — choosing the basic layout
  truncates nothing — and it is basic exactly when everything fits (no xattr index, start and size below 2³², not
  sparse, one link);
* symlinks, devices, fifos, sockets: same, basic exactly when there is no xattr index;
* directories: the layout chosen by `sqfs_dir_writer_create_inode` is kept, link count and xattr index stored. -/
theorem selection_minimal_and_safe (a : NodeAttr) :
    (∀ i0 : Inode, 1 ≤ a.linkCount → i0.view.typeBits = sIFREG →
      (∀ b st fi fo sz blks, i0 = .file b st fi fo sz blks → st ≤ 0xFFFFFFFF ∧ sz ≤ 0xFFFFFFFF) →
      (serializeInode false true a i0).view = wanted a i0.view
      ∧ (serializeInode false true a i0).isExt = !fitsWanted a i0.view)
    ∧ (∀ devno target i0, treeNodeToInode a.mode a.linkCount devno target = some i0 →
      (serializeInode false false a i0).view = wanted a i0.view
      ∧ (serializeInode false false a i0).isExt = !(a.xattrIdx == NONE32))
    ∧ (∀ i0 : Inode, i0.view.typeBits = sIFDIR → (i0.isExt = false → a.xattrIdx = NONE32) →
      (serializeInode true false a (setDirNlink a.linkCount i0)).view = wanted a i0.view
      ∧ (serializeInode true false a (setDirNlink a.linkCount i0)).isExt = i0.isExt) :=
  ⟨fun i0 hl hf hu => ⟨serialize_file_view a i0 hl hf, serialize_file_isExt a i0 hf hu⟩,
   fun devno target i0 h0 => serialize_other a devno target i0 h0,
   fun i0 hd hx => serialize_dir_view a i0 hd hx⟩

-- a 5 GiB sparse file with two links and no xattrs must stay extended and keep every field
example : (serializeInode false true ⟨0o100644, 9, 4, 2, NONE32⟩
      (.fileExt ⟨0, 0, 0, 0, 0⟩ 96 (5 * 2 ^ 30) 4096 1 NONE32 NONE32 NONE32 [])).view
    = ⟨sIFREG, ⟨0o100644, 0, 0, 9, 4⟩, 2, NONE32, [96, 5 * 2 ^ 30, 4096, NONE32, NONE32], [], []⟩ := by decide
-- clause 1 applied to that file, and to a basic one (where the 32-bit premise is a real obligation)
example := (selection_minimal_and_safe ⟨0o100644, 9, 4, 2, NONE32⟩).1
  (.fileExt ⟨0, 0, 0, 0, 0⟩ 96 (5 * 2 ^ 30) 4096 1 NONE32 NONE32 NONE32 []) (by decide) (by decide) (fun _ _ _ _ _ _ h => by cases h)
example := (selection_minimal_and_safe ⟨0o100644, 9, 4, 1, NONE32⟩).1
  (.file ⟨0, 0, 0, 0, 0⟩ 96 NONE32 NONE32 5000 [4096, 904]) (by decide) (by decide)
  (fun _ _ _ _ _ _ h => by cases h; exact ⟨by decide, by decide⟩)
-- clause 2 applied: a symlink with an xattr index (extended), a character device without (basic)
example := (selection_minimal_and_safe ⟨0o120777, 9, 4, 2, 3⟩).2.1 0 [0x2f, 0x61] _ rfl
example := (selection_minimal_and_safe ⟨0o20600, 9, 4, 1, NONE32⟩).2.1 0x501 [] _ rfl
-- clause 3 applied: an extended directory that gets an xattr index, a basic directory without one
example := (selection_minimal_and_safe ⟨0o40755, 9, 4, 3, 5⟩).2.2 (.dirExt ⟨0, 0, 0, 0, 0⟩ 1 100 0 1 0 100 NONE32 []) (by decide) (by decide)
example := (selection_minimal_and_safe ⟨0o40755, 9, 4, 3, NONE32⟩).2.2 (.dir ⟨0, 0, 0, 0, 0⟩ 0 1 100 100 1) (by decide) (fun _ => rfl)

/-- **`sqfs_inode_set_file_size` / `sqfs_inode_set_file_block_start` never truncate** (inode.c:241-298, the two stores
the block processor makes into a file inode).  Whatever the inode was — basic or extended — and whatever 64-bit value
is stored: the reader-visible size (resp. block start) afterwards is exactly that value and nothing else a reader sees
changes (for an inode with at least one link); a value of 2³² or more **makes the inode extended**; and a basic file
inode has both fields within 32 bits afterwards if it had before (`FileFits`) — which is the premise
`selection_minimal_and_safe` takes for basic file inodes, here established from the code that produces them. -/
theorem file_size_start_no_truncation (v : Nat) (i i' : Inode) :
    (setFileSize v i = some i' →
      i'.view.nums = i.view.nums.set 1 v
      ∧ i'.view.typeBits = i.view.typeBits ∧ i'.view.base = i.view.base ∧ i'.view.xattr = i.view.xattr
      ∧ i'.view.words = i.view.words ∧ i'.view.bytes = i.view.bytes
      ∧ (1 ≤ i.view.nlink → i'.view.nlink = i.view.nlink)
      ∧ (v > 0xFFFFFFFF → i'.isExt = true) ∧ (FileFits i → FileFits i'))
    ∧ (setFileBlockStart v i = some i' →
      i'.view.nums = i.view.nums.set 0 v
      ∧ i'.view.typeBits = i.view.typeBits ∧ i'.view.base = i.view.base ∧ i'.view.xattr = i.view.xattr
      ∧ i'.view.words = i.view.words ∧ i'.view.bytes = i.view.bytes
      ∧ (1 ≤ i.view.nlink → i'.view.nlink = i.view.nlink)
      ∧ (v > 0xFFFFFFFF → i'.isExt = true) ∧ (FileFits i → FileFits i')) :=
  ⟨setFileSize_spec v i i', setFileBlockStart_spec v i i'⟩

-- applied: a basic file inode given a 5 GiB size is promoted; an extended one given a data start beyond 4 GiB stays
-- extended; an extended one whose size drops to 10 bytes (and that has nothing else to keep it extended) is demoted
example := (file_size_start_no_truncation (5 * 2 ^ 30) (.file ⟨0o100644, 1, 2, 3, 4⟩ 96 NONE32 NONE32 100 [100]) _).1 rfl
example := (file_size_start_no_truncation (2 ^ 32 + 96) (.fileExt ⟨0o100644, 1, 2, 3, 4⟩ 96 100 0 1 NONE32 NONE32 NONE32 [100]) _).2 rfl
example : setFileSize 10 (.fileExt ⟨0o100644, 1, 2, 3, 4⟩ 96 (5 * 2 ^ 30) 0 1 NONE32 NONE32 NONE32 [])
    = some (.file ⟨0o100644, 1, 2, 3, 4⟩ 96 NONE32 NONE32 10 []) := by decide
example : setFileSize (5 * 2 ^ 30) (.file ⟨0o100644, 1, 2, 3, 4⟩ 96 NONE32 NONE32 100 [100])
    = some (.fileExt ⟨0o100644, 1, 2, 3, 4⟩ 96 (5 * 2 ^ 30) 0 1 NONE32 NONE32 NONE32 [100]) := by decide

/-! ## directory listings -/

open Sqfs.DirWriter (DEnt Run dirEnd encodeRun runBytes advance) in
/-- **Directory listing round trip**, any number of entries: for entries within their C types (names of 1..65536
bytes — the repaired `add_entry` admits 1..256 —, 32-bit inode numbers, 48-bit inode references) the reader's
`readdir` state machine, started with the size stored in the inode (`dir_size + 3`), returns name, inode number, type
and inode reference of every entry in order — across the 256-entries-per-header rule, the ±32767 inode-number-delta
rule, the same-inode-block rule and the 8 KiB rule (all in `get_conseq_entry_count`, C03), wherever in the directory
table the listing starts.  (Sortedness is not needed for reading back; it is C03's `listing-sorted`.) -/
theorem dir_listing_roundtrip (c blk off : Nat) (ents : List DEnt) (rest : Bytes) (hwf : ∀ e ∈ ents, WfDEnt e) :
    readListing ⟨encListing c blk off ents ++ rest, listingSize c blk off ents + 3, 0, 0, 0⟩
      = .ok (ents.map DEnt.toEntry) :=
  readListing_encListing c blk off ents rest hwf

-- the theorem applied: three entries that need three headers (other inode block; inode-number delta > 32767)
example := dir_listing_roundtrip 8194 0 8000
  [(⟨(8194 <<< 16) ||| 40, 70000, 2, [0x61, 0xff]⟩ : Sqfs.DirWriter.DEnt), ⟨32, 5, 1, [0x62]⟩, ⟨64, 40000, 7, [0x63]⟩] [0xEE] (by decide)

open Sqfs.DirWriter (DEnt Run dirEnd encodeRun runBytes advance) in
/-- **The directory index points at headers**: every index entry built by `sqfs_dir_writer_create_inode` (one per
run of `sqfs_dir_writer_end`) names the byte offset of a header inside the listing (`index`), the metadata block that
header starts in (`start_block`, relative to the directory table, for a block cost `c`) and the first name under it. -/
theorem dir_index_points_at_headers (c blk off : Nat) (ents : List DEnt) (k : Nat) (r : Run) (hoff : off < metaBlockSize)
    (h : (dirEnd c blk off ents)[k]? = some r) :
    ((encListing c blk off ents).drop r.index).take (runBytes r.ents) = encodeRun r
    ∧ r.block = (advance c blk off r.index).1
    ∧ ∃ first rest, r.ents = first :: rest :=
  index_points_at_headers c blk off ents k r hoff h

example : (Sqfs.DirWriter.dirEnd 8194 0 8000 [⟨0, 1, 2, [0x61]⟩, ⟨8194 <<< 16, 2, 2, [0x62]⟩]).map
      (fun r => (r.ents.length, r.startBlock, r.inodeNumber, r.index, r.block)) = [(1, 0, 1, 0, 0), (1, 8194, 2, 21, 0)] := by decide
-- the theorem applied to the second run of that listing (the hypothesis `h` is met: there is a run 1)
example (r : Sqfs.DirWriter.Run) (h : (Sqfs.DirWriter.dirEnd 8194 0 8000 [⟨0, 1, 2, [0x61]⟩, ⟨8194 <<< 16, 2, 2, [0x62]⟩])[1]? = some r) :=
  dir_index_points_at_headers 8194 0 8000 _ 1 r (by decide) h
example : ((Sqfs.DirWriter.dirEnd 8194 0 8000 [⟨0, 1, 2, [0x61]⟩, ⟨8194 <<< 16, 2, 2, [0x62]⟩])[1]?).isSome = true := by decide

/-! ## metadata streams -/

/-- **Metadata stream round trip** for an arbitrary codec pair with `unc (cmp x) = x` (and answers that fit the
buffer): the blocks written for any sequence of appends read back, front to back, as the bytes appended. -/
theorem meta_stream_roundtrip {cmp : Codec} {unc : Unc} (hc : CodecOk cmp unc) (chunks : List Bytes) :
    metaReadAll unc (encBlocks (Sqfs.MetaWriter.run cmp chunks).out) = .ok chunks.flatten :=
  metaReadAll_run hc chunks

theorem exCodecOk : CodecOk (fun x => if x = [1, 1, 1, 1] then some [9] else none) (fun y => if y = [9] then some [1, 1, 1, 1] else none) := by
  constructor
  · intro x c h
    by_cases hx : x = [1, 1, 1, 1]
    · simp only [hx, if_true, Option.some.injEq] at h; subst h; decide
    · simp [hx] at h
  · intro x c h _
    by_cases hx : x = [1, 1, 1, 1]
    · simp only [hx, if_true, Option.some.injEq] at h; subst h; simp [hx]
    · simp [hx] at h

theorem codecOk_none : CodecOk (fun _ => none) (fun _ => none) := ⟨fun _ _ h => (by cases h), fun _ _ h _ => (by cases h)⟩

-- the theorem applied: a compressing codec meeting the contract, and the never-shrinking one
example := meta_stream_roundtrip exCodecOk [[1, 1, 1, 1], [2, 3]]
example := meta_stream_roundtrip codecOk_none [List.replicate 8000 7, List.replicate 400 8]

/-- **A reference produced by the writer reads back the bytes written there.**  For any run of appends and any codec
pair meeting the contract: (1) the position `sqfs_meta_writer_get_position` reports after the first `k` appends is the
reference `refOfPos` computes from the finished run's blocks and the number `p` of bytes appended so far (every flushed
block holds 8 KiB: `(Σ on-disk sizes of the first p / 8192 blocks, p % 8192)`); (2) `sqfs_meta_reader_seek` to the
reference of **any** stream position `p` followed by a read of `n` bytes yields bytes `[p, p + n)` of the stream, across
block boundaries, whatever the compressed sizes.  Together: what is appended right after the writer reported a reference
is what a reader finds at that reference. -/
theorem meta_ref_roundtrip {cmp : Codec} {unc : Unc} (hc : CodecOk cmp unc) (chunks : List Bytes) :
    let blocks := (Sqfs.MetaWriter.run cmp chunks).out
    (∀ k, Sqfs.MetaWriter.position ((chunks.take k).foldl (Sqfs.MetaWriter.append cmp) {})
        = refOfPos blocks ((chunks.take k).flatten.length))
    ∧ (∀ p n, p < chunks.flatten.length → p + n ≤ chunks.flatten.length →
        metaReadAt unc (encBlocks blocks) (refOfPos blocks p).1 (refOfPos blocks p).2 n = .ok ((chunks.flatten.drop p).take n)) := by
  refine ⟨fun k => writer_position cmp chunks k, ?_⟩
  intro p n hp hn
  obtain ⟨hok, hraw⟩ := run_blocksOk cmp chunks
  have := metaReadAt_refOfPos hc _ hok (run_full cmp chunks) p n (by rw [hraw]; exact hp) (by rw [hraw]; exact hn)
  rw [hraw] at this
  exact this

example := meta_ref_roundtrip exCodecOk [[1, 1, 1, 1], [2, 3]]

/-! ## tables and super block -/

/-- **Table round trip** (`sqfs_read_table ∘ sqfs_write_table`), any size, any codec meeting the contract. -/
theorem table_roundtrip {cmp : Codec} {unc : Unc} (hc : CodecOk cmp unc) (file data : Bytes)
    (hsz : (writeTableAt cmp file data).1.length < 2 ^ 64) :
    readTableAt unc (writeTableAt cmp file data).1 data.length (writeTableAt cmp file data).2 file.length
      (writeTableAt cmp file data).2 = .ok data :=
  readTableAt_writeTableAt hc file data hsz

/-- **Id table round trip**: 1..65535 ids of 32 bits read back in table order, so every 16-bit index stored in an
inode still names its id. -/
theorem id_table_roundtrip {cmp : Codec} {unc : Unc} (hc : CodecOk cmp unc) (file : Bytes) (ids : List Nat)
    (hne : ids ≠ []) (h32 : ∀ v ∈ ids, v < 2 ^ 32) (hsz : (idTableWrite cmp file ids).1.length < 2 ^ 64) :
    idTableRead unc (idTableWrite cmp file ids).1 ids.length (idTableWrite cmp file ids).2 file.length
      (idTableWrite cmp file ids).2 (idTableWrite cmp file ids).1.length = .ok ids :=
  idTable_roundtrip hc file ids hne h32 hsz

/-- **Fragment table round trip**. -/
theorem frag_table_roundtrip {cmp : Codec} {unc : Unc} (hc : CodecOk cmp unc) (file : Bytes) (frags : List (Nat × Nat))
    (h : ∀ f ∈ frags, f.1 < 2 ^ 64 ∧ f.2 < 2 ^ 32) (hsz : (fragTableWrite cmp file frags).1.length < 2 ^ 64) :
    fragTableRead unc (fragTableWrite cmp file frags).1 frags.length (fragTableWrite cmp file frags).2 file.length
      (fragTableWrite cmp file frags).2 = .ok frags :=
  fragTable_roundtrip hc file frags h hsz

/-- **Export table round trip** (which references it must hold is C17's `export_table_ok`). -/
theorem export_table_roundtrip {cmp : Codec} {unc : Unc} (hc : CodecOk cmp unc) (file : Bytes) (refs : List Nat)
    (h : ∀ v ∈ refs, v < 2 ^ 64) (hsz : (exportTableWrite cmp file refs).1.length < 2 ^ 64) :
    exportTableRead unc (exportTableWrite cmp file refs).1 refs.length (exportTableWrite cmp file refs).2 file.length
      (exportTableWrite cmp file refs).2 = .ok refs :=
  exportTable_roundtrip hc file refs h hsz

example : (writeTableAt (fun _ => none) [0xEE, 0xEE] [1, 2, 3]).1 = [0xEE, 0xEE, 3, 0x80, 1, 2, 3, 2, 0, 0, 0, 0, 0, 0, 0]
    ∧ (writeTableAt (fun _ => none) [0xEE, 0xEE] [1, 2, 3]).2 = 7 := by decide
-- the four table theorems applied (every hypothesis discharged)
example := table_roundtrip codecOk_none [0xEE, 0xEE] [1, 2, 3] (by decide)
example := table_roundtrip exCodecOk [0xEE, 0xEE] [1, 1, 1, 1] (by decide)   -- a block that is stored compressed
example := id_table_roundtrip codecOk_none [0xEE] [0, 1000, 4294967295] (by decide) (by decide) (by decide)
example := frag_table_roundtrip codecOk_none [] [(96, 0x1000123), (5000, 77)] (by decide) (by decide)
example := export_table_roundtrip codecOk_none [0xEE] [0x20, (8194 <<< 16) ||| 40] (by decide) (by decide)

open Sqfs.Writer in
/-- **Super block round trip**: `sqfs_super_read` returns the super block `sqfs_super_write` stored, for every super
block that passes the reader's own checks (magic, version, block size = 2^log in range, compressor id, id count ≠ 0)
and whose fields fit their widths. -/
theorem super_roundtrip (s : Super) (rest : List UInt8) (h : SuperValid s) : superRead (s.encode ++ rest) = .ok s :=
  super_roundtrip' s rest h

/-- a super block as `sqfs_writer_finish` leaves it for a small gzip image with fragments and an export table -/
def exampleSuper : Sqfs.Writer.Super where
  magic := Consts.magic
  inodeCount := 3
  mtime := 5
  blockSize := 131072
  fragCount := 1
  compId := 1
  blockLog := 17
  flags := 0x1c0
  idCount := 2
  vMajor := 4
  vMinor := 0
  rootRef := 64
  bytesUsed := 4000
  idStart := 3000
  xattrStart := Sqfs.Writer.unset
  inodeStart := 96
  dirStart := 200
  fragStart := 2000
  exportStart := 2500

theorem exSuperValid : SuperValid exampleSuper := ⟨by decide, by decide, by decide, by decide, by decide, by decide, by decide, by decide⟩
example := super_roundtrip exampleSuper [0xEE] exSuperValid

/-! ## extended attributes -/

/-- **xattr round trip (flush → read, through the id table's location array).**  `w` is any state of the xattr writer
in which every recorded pair is representable (known prefix, key remainder < 64 KiB, value < 4 GiB) — every state
`recordAll` reaches (`xattr_input_roundtrip` derives `hp`, `hcount` instead of assuming them); `(refOf, posOf)` any
reference encoding in which the reader's seek undoes the writer's `get_position` **on the positions below the finished
stream's length** (`xattr_refs_ok`: the real arithmetic satisfies this).  `xattrFlush` writes the key/value stream, the
descriptors into metadata blocks (any codec meeting the contract) and the array of block start offsets; the reader
(`XFlush.reader`, the algorithm of `sqfs_xattr_reader_get_desc`/`read_key`/`read_value`) finds descriptor `j` through
`locations[j * 16 / 8192]`, seeks, and reads exactly the pairs of set `j` as the writer stores them: keys with their
prefix, values byte for byte, in line or **out of line**, for **any number of sets** (multiples of 512 included). -/
theorem xattr_roundtrip {cmp : Codec} {unc : Unc} (hc : CodecOk cmp unc) (refOf : Nat → Nat) (posOf : Nat → Option Nat)
    (bound : Nat) (hr : RefOk refOf posOf bound) (w : XWriter)
    (hbound : (flushKv refOf w).1.length ≤ bound) (hkv32 : (flushKv refOf w).1.length < 2 ^ 32)
    (hpairs32 : w.pairs.length < 2 ^ 32)
    (hp : ∀ b ∈ w.blocks, ∀ p ∈ blockPairs w.pairs b, PairOk w p)
    (hcount : ∀ b ∈ w.blocks, (blockPairs w.pairs b).length = b.2)
    (j : Nat) (hj : j < w.blocks.length) (hj32 : j ≠ NONE32) :
    readSet ((xattrFlush cmp refOf w).reader unc posOf) j = .ok (w.setOf j) :=
  readSet_xattrFlush hc refOf posOf bound hr w hbound hkv32 hpairs32 hp hcount j hj hj32

/-- **The reference contract of `xattr_roundtrip` holds for the real arithmetic**: (1) uncompressed metadata
(`rawRef`/`rawPos`, what the unit correspondence runs), any stream below 2⁴⁷ bytes; (2) the blocks of **any** meta
writer run, whatever the compressed sizes: `refOfPos` packed into a 64-bit reference, undone by searching the position
(`posOfBlocks`), for every position up to the stream's length. -/
theorem xattr_refs_ok :
    (∀ bound, bound < 2 ^ 47 → RefOk rawRef rawPos bound)
    ∧ (∀ (cmp : Codec) (blocks : List Sqfs.MetaWriter.Block), BlocksOk cmp blocks → startOf blocks blocks.length < 2 ^ 48 →
        RefOk (refOfBlocks blocks) (posOfBlocks blocks (rawOf blocks).length) (rawOf blocks).length) :=
  ⟨refOk_raw, refOk_blocks⟩

-- clause 1 applied (bound 44), and clause 2 applied to the blocks of a run whose first chunk is stored compressed
example := xattr_refs_ok.1 44 (by decide)
example := xattr_refs_ok.2 _ _ (Sqfs.Enc.run_blocksOk (fun x => if x = [1, 1, 1, 1] then some [9] else none) [[1, 1, 1, 1], [2, 3]]).1
  (by decide)

/-- **The xattr clause from the input to the read-back.**  `sets` are the key/value strings handed to
`begin`/`add_kv`…/`end`, one list per inode.  If every key has a known prefix and a remainder < 64 KiB and every value
is < 4 GiB, the writer accepts them all (interning keys and values, replacing the value of a key added twice, sorting
each set, storing equal sets once); and if the finished key/value stream, the pair array and the number of distinct
sets fit their 32-bit fields, then reading the index handed out for the k-th inode — descriptor through the location
array, key/value pairs, out-of-line values — returns the k-th input set with later values of a key replacing earlier
ones (`canonSet`) in the writer's order, a permutation of it; an inode whose set is empty gets `0xFFFFFFFF`. -/
theorem xattr_input_roundtrip {cmp : Codec} {unc : Unc} (hc : CodecOk cmp unc) (refOf : Nat → Nat) (posOf : Nat → Option Nat)
    (bound : Nat) (hr : RefOk refOf posOf bound) (sets : List (List (Bytes × Bytes)))
    (hs : ∀ s ∈ sets, ∀ kv ∈ s, KvOk kv) :
    ∃ wF idxs, recordAll {} sets = .ok (wF, idxs) ∧ idxs.length = sets.length ∧
      ((flushKv refOf wF).1.length ≤ bound → (flushKv refOf wF).1.length < 2 ^ 32 → wF.pairs.length < 2 ^ 32 →
        wF.blocks.length ≤ NONE32 →
        ∀ k, k < sets.length →
          (canonSet (sets.getD k []) = [] ∧ idxs.getD k 0 = NONE32) ∨
          (canonSet (sets.getD k []) ≠ [] ∧ idxs.getD k 0 ≠ NONE32 ∧
            ∃ out, readSet ((xattrFlush cmp refOf wF).reader unc posOf) (idxs.getD k 0) = .ok out
              ∧ out = (sortPairs ((canonSet (sets.getD k [])).map (idxPair wF))).map (strPair wF)
              ∧ out.Perm (canonSet (sets.getD k [])))) :=
  recordAll_flush_read hc refOf posOf bound hr sets hs

/-- four inodes: one value shared by three sets (stored out of line from its second use on), an empty set, a key set
twice, and a last set equal to the first after replacement -/
def exampleSets : List (List (Bytes × Bytes)) :=
  let k1 : List UInt8 := prefixUser ++ [0x61]; let k2 : List UInt8 := prefixTrusted ++ [0x62]
  let v : List UInt8 := [1, 2, 3, 4, 5, 6, 7, 8, 9]
  [[(k1, v)], [], [(k2, v), (k1, []), (k2, v)], [(k1, [5]), (k1, v)]]

-- `xattr_input_roundtrip` instantiated: every hypothesis discharged for `exampleSets`, uncompressed metadata and
-- the real reference arithmetic; the conclusion, evaluated, is the four sets read back (the third one with its
-- shared value stored **out of line**: the stream holds a reference to position 5 at offset 27)
example :
    ∃ wF, recordAll {} exampleSets = .ok (wF, [0, NONE32, 1, 0])
      ∧ (flushKv rawRef wF).1.drop 27 = encKey (prefixTrusted ++ [0x62]) true ++ encValueOol (rawRef 5)
      ∧ [0, 1].map (readSet ((xattrFlush (fun _ => none) rawRef wF).reader (fun _ => none) rawPos))
          = [.ok [(prefixUser ++ [0x61], [1, 2, 3, 4, 5, 6, 7, 8, 9])],
             .ok [(prefixUser ++ [0x61], []), (prefixTrusted ++ [0x62], [1, 2, 3, 4, 5, 6, 7, 8, 9])]] := by
  obtain ⟨wF, idxs, hrec, _, hread⟩ := xattr_input_roundtrip codecOk_none rawRef rawPos 44 (refOk_raw 44 (by decide))
    exampleSets (by decide)
  have hval : recordAll {} exampleSets = .ok (⟨[prefixUser ++ [0x61], prefixTrusted ++ [0x62]],
      [([1, 2, 3, 4, 5, 6, 7, 8, 9], 4), ([], 1), ([5], 0)], [(0, 0), (0, 1), (1, 0)], 3, [(0, 1), (1, 2)]⟩, [0, NONE32, 1, 0]) := by
    decide
  rw [hval] at hrec
  injection hrec with hrec
  injection hrec with hw hi
  subst hw; subst hi
  have h := hread (by decide) (by decide) (by decide) (by decide)
  refine ⟨_, hval, by decide, ?_⟩
  have h0 := h 0 (by decide)
  have h2 := h 2 (by decide)
  rcases h0 with ⟨_, h0⟩ | ⟨_, _, out0, r0, e0, _⟩
  · exact absurd h0 (by decide)
  rcases h2 with ⟨_, h2⟩ | ⟨_, _, out2, r2, e2, _⟩
  · exact absurd h2 (by decide)
  simp only [List.map_cons, List.map_nil]
  have i0 : [0, NONE32, 1, 0].getD 0 0 = 0 := rfl
  have i2 : [0, NONE32, 1, 0].getD 2 0 = 1 := rfl
  rw [i0] at r0; rw [i2] at r2
  rw [r0, r2, e0, e2]
  decide

-- and `xattr_roundtrip` itself for that writer state, with the invariant's facts (`hp`, `hcount`) supplied by
-- `recordAll_spec` rather than assumed
example (wF : XWriter) (idxs : List Nat) (h : recordAll {} exampleSets = .ok (wF, idxs)) :
    readSet ((xattrFlush (fun _ => none) rawRef wF).reader (fun _ => none) rawPos) 1 = .ok (wF.setOf 1) := by
  obtain ⟨wF', idxs', hrec, hinv, _⟩ := recordAll_spec exampleSets {} xinv_empty (by decide)
  rw [h] at hrec
  injection hrec with hrec
  injection hrec with hw _
  subst hw
  have hval : recordAll {} exampleSets = .ok (⟨[prefixUser ++ [0x61], prefixTrusted ++ [0x62]],
      [([1, 2, 3, 4, 5, 6, 7, 8, 9], 4), ([], 1), ([5], 0)], [(0, 0), (0, 1), (1, 0)], 3, [(0, 1), (1, 2)]⟩, [0, NONE32, 1, 0]) := by
    decide
  rw [hval] at h
  injection h with h
  injection h with hw _
  subst hw
  exact xattr_roundtrip codecOk_none rawRef rawPos 44 (refOk_raw 44 (by decide)) _ (by decide) (by decide) (by decide)
    hinv.pairOk hinv.count 1 (by decide) (by decide)

/-- **Which index `sqfs_xattr_writer_end` hands out** (set dedup, sorting).  With the blocks recorded so far lying in
front of `kv_start` (true from the empty writer on, and re-established here): an empty set gets `0xFFFFFFFF`; a
non-empty set gets the index of a block whose pairs are exactly the set's (key index, value index) pairs, sorted — a new
block or an existing equal one (equal sets are stored once) —, no earlier block changes, keys and values are untouched.
Together with `xattr_roundtrip` (`setOf j` = those pairs with the interned strings put back): the index stored in an
inode reads back as the set recorded for it. -/
theorem xattr_record_index (w : XWriter) (hk : w.kvStart ≤ w.pairs.length) (hb : ∀ b ∈ w.blocks, b.1 + b.2 ≤ w.kvStart) :
    (w.pairs.length = w.kvStart → endSet w = (w, NONE32))
    ∧ (w.kvStart < w.pairs.length →
        (endSet w).2 < (endSet w).1.blocks.length
        ∧ blockPairs (endSet w).1.pairs ((endSet w).1.blocks.getD (endSet w).2 (0, 0)) = sortPairs (w.pairs.drop w.kvStart)
        ∧ (∀ i, i < w.blocks.length → (endSet w).1.blocks.getD i (0, 0) = w.blocks.getD i (0, 0)
              ∧ blockPairs (endSet w).1.pairs (w.blocks.getD i (0, 0)) = blockPairs w.pairs (w.blocks.getD i (0, 0)))
        ∧ (∀ b ∈ (endSet w).1.blocks, b.1 + b.2 ≤ (endSet w).1.pairs.length)
        ∧ (endSet w).1.keys = w.keys ∧ (endSet w).1.values = w.values) :=
  endSet_spec w hk hb

/-- a writer in the middle of its second set: the same two pairs as block 0, added in the other order -/
def exampleXWriter : XWriter where
  keys := [[1], [2]]
  values := [([7], 2), ([8], 2)]
  pairs := [(0, 0), (1, 1), (1, 1), (0, 0)]
  kvStart := 2
  blocks := [(0, 2)]

-- sorted, found equal to block 0, stored once: index 0, the pair array shrinks back
example : (endSet exampleXWriter).2 = 0 ∧ (endSet exampleXWriter).1.pairs = [(0, 0), (1, 1)]
    ∧ (endSet exampleXWriter).1.blocks = [(0, 2)] := by decide
example := xattr_record_index exampleXWriter (by decide) (by decide)

/-- **`locations[]` of the xattr id table: every store in range, and the table complete.**  (1) In the (repaired)
`write_id_table` every store has an index below the number of slots `alloc_location_table` provided — for every number
of sets, multiples of 512 included, and every block layout (`blockAfter`); the code before the repair violated this:
`Witness.xattr_locations_overflow`.  (2) For every writer state with at least one set and every codec, the array
written has exactly one entry per descriptor metadata block — `locCount n` of them — and entry `k` is the start offset
of block `k`: nothing the reader's `locations[idx * 16 / 8192]` can ask for is missing or stale. -/
theorem xattr_loc_index_lt_count :
    (∀ (blockAfter : Nat → Nat) (n : Nat), 0 < n → ∀ s ∈ locStores (some (locCount n)) blockAfter n, s.1 < locCount n)
    ∧ (∀ (cmp : Codec) (refOf : Nat → Nat) (w : XWriter), 0 < (flushKv refOf w).2.length →
        (xattrFlush cmp refOf w).locs
            = (List.range (xattrFlush cmp refOf w).idBlocks.length).map (startOf (xattrFlush cmp refOf w).idBlocks)
        ∧ (xattrFlush cmp refOf w).idBlocks.length = locCount (xattrFlush cmp refOf w).descs.length) :=
  ⟨locStores_lt, fun cmp refOf w hn => xattrFlush_locs cmp refOf w hn⟩

-- 1025 sets need three slots; the stores of the repaired code are exactly slots 0, 1, 2 (instantiates (1) with n = 1025)
example : (locStores (some (locCount 1025)) (fun k => k / 512 * 8194) 1025).map (·.1) = [0, 1, 2] ∧ locCount 1025 = 3
    ∧ 0 < 1025 := by set_option maxRecDepth 100000 in decide

-- (1) applied to 1025 sets; (2) applied to a writer state with two distinct sets
example := xattr_loc_index_lt_count.1 (fun k => k / 512 * 8194) 1025 (by decide)
example := xattr_loc_index_lt_count.2 (fun _ => none) rawRef
  ⟨[prefixUser ++ [0x61], prefixTrusted ++ [0x62]], [([1, 2, 3, 4, 5, 6, 7, 8, 9], 4), ([], 1), ([5], 0)], [(0, 0), (0, 1), (1, 0)], 3,
    [(0, 1), (1, 2)]⟩ (by decide)

/-! ## file contents -/

open Sqfs.Pack in
/-- **File contents read back — at specification level** (re-export of C17/C08's theorem under the C01 name): for every
block size, flag set, order and codec meeting the contract, reading file `i` from the `specPack` layout — block list,
holes, tail in a fragment block, deduplicated or not — with the *specification* reader `readFile` yields exactly the
file's bytes.  What this is **not**: a statement about the models of the code.  Those are, on the writer's side, C02/C08's
block processor (`Sqfs.C02.run_eq_spec`: for every backlog the real processor computes `packRef`; `Sqfs.C08.stream_readback`,
`stream_frag_link`: the output file holds every file's stored blocks and every fragment block at the recorded places) and,
on the reader's side, C10's `DataReader.readSpec` = `sqfs_data_reader_read` (`Sqfs.C10.written_file_content`: for an inode
and data satisfying `DataReader.Written` it returns the blocks' bytes followed by the tail;
`read_eq_blocks_plus_fragment`, `stream_eq_read`: the other two reading APIs agree).  **Missing links**, neither proved
here nor elsewhere: `packRef = specPack` (C02 `run_eq_specPack_partial` states what is missing) and `DataReader.Written`
for the inodes/file/fragment table of `specPack` (or of `packRef`).  They are exercised on every run: C02/C17's ties
compare the real processor with `packRef` and `specPack`; C01's tool paths (a), (d), (e) read every file's bytes back. -/
theorem file_content_roundtrip (P : Params) (hB : 0 < P.B) (hc : P.codec.Ok) (files : List InFile) (i : Nat)
    (h : i < files.length) :
    ∃ r, (specPack P files).files[i]? = some r ∧ readFile P (specPack P files) r = files[i].data :=
  readFile_specPack P hB hc files i h

-- the theorem applied: block size 4, a file with a hole block and a tail, a duplicate of it, a never-shrinking codec
example := file_content_roundtrip ⟨4, 96, ⟨fun _ => none, id⟩, fun _ => 0⟩ (by decide)
  ⟨fun _ _ h => (by cases h), fun _ _ h => (by cases h)⟩
  [⟨{}, [1, 2, 3, 4, 0, 0, 0, 0, 5]⟩, ⟨{}, [1, 2, 3, 4, 0, 0, 0, 0, 5]⟩] 1 (by decide)

open Sqfs.Pack in
/-- a codec that really compresses (`7 7 7 7 ↦ 9`) meets the contract `Pack.Codec.Ok` (for the never-shrinking codec above both
clauses hold for lack of a compressed block) -/
theorem exPackCodec_ok : (⟨fun x => if x = [7, 7, 7, 7] then some [9] else none, fun z => if z = [9] then [7, 7, 7, 7] else z⟩ :
    Sqfs.Pack.Codec).Ok := by
  constructor
  · intro x z h; simp only at h; split at h
    · cases h; subst x; decide
    · cases h
  · intro x z h; simp only at h; split at h
    · cases h; subst x; decide
    · cases h
open Sqfs.Pack in
-- … and the theorem applied to it: a compressed block, a hole block, a tail; a duplicate; a `dont_deduplicate` file
example := file_content_roundtrip ⟨4, 96, _, fun _ => 0⟩ (by decide) exPackCodec_ok
  [⟨{}, [7, 7, 7, 7, 0, 0, 0, 0, 5]⟩, ⟨{}, [7, 7, 7, 7, 0, 0, 0, 0, 5]⟩, ⟨{ dontDedup := true }, [7, 7, 7, 7, 1]⟩] 2 (by decide)

/-! ## refusing what the format cannot represent -/

open Sqfs.IdTable Sqfs.DirWriter in
/-- **Unrepresentable input is refused, not stored altered**: more than 65535 distinct ids (`SQFS_ERROR_OVERFLOW`
from `sqfs_id_table_id_to_index`, so that the 16-bit id count cannot wrap — C03 `id_count_fits`), directory entry
names of 0 or more than 256 bytes and inode number 0 (`SQFS_ERROR_ARG_INVALID` from `add_entry` — C03
`add_entry_name_fits`), xattr keys without a known prefix (`SQFS_ERROR_UNSUPPORTED` from `add_kv`). -/
theorem refuse_unrepresentable :
    (∀ ids : List Nat, ¬ IdsRepresentable ids → addAll limit [] ids = none)
    ∧ (∀ (name : List UInt8) (num ref mode : Nat), name.length = 0 ∨ name.length > 256 ∨ num = 0 →
        ∀ e, addEntry name num ref mode ≠ .ok e)
    ∧ (∀ (w : XWriter) (key value : List UInt8), prefixId key = none → addKv w key value = .error errUnsupported) := by
  refine ⟨ids_refused, ?_, ?_⟩
  · intro name num ref mode h e he
    obtain ⟨h1, h2, h3, _, h5, _⟩ := Sqfs.C03.add_entry_name_fits name num ref mode e he
    have hn : e.inodeNum = num := by
      unfold addEntry at he
      split at he
      · cases he
      · split at he
        · cases he
        · split at he
          · cases he
          · cases he; rfl
    rw [h1] at h2 h3
    omega
  · intro w key value h
    simp [addKv, h]

open Sqfs.IdTable Sqfs.DirWriter in
/-- **Representable input is accepted**: at most 65535 distinct ids never overflow the id table; a name of 1..256
bytes with a non-zero inode number and a file-type mode is accepted by `add_entry`; a key with a known prefix and a
non-empty remainder is accepted by `add_kv`. -/
theorem representable_accepted :
    (∀ ids : List Nat, IdsRepresentable ids → ∃ r, addAll limit [] ids = some r)
    ∧ (∀ (name : List UInt8) (num ref mode : Nat) (t : Nat), 1 ≤ name.length → name.length ≤ 256 → 1 ≤ num → getType mode = some t →
        addEntry name num ref mode = .ok ⟨ref, num, t, name⟩)
    ∧ (∀ (w : XWriter) (key value : List UInt8) (t : Nat), prefixId key = some t → ∃ w', addKv w key value = .ok w') := by
  refine ⟨fun ids h => addAll_accepts ids h ids [] (by simp) (by simp) (fun x hx => hx), ?_, ?_⟩
  · intro name num ref mode t h1 h2 h3 ht
    have hne : name ≠ [] := by intro h; rw [h] at h1; simp at h1
    have c2 : ¬ (name.length > maxNameLen) := by simp only [maxNameLen]; omega
    have c3 : ¬ (maxNameLen < name.length) := by omega
    have c4 : num ≠ 0 := by omega
    simp [addEntry, ht, hne, c3, c4]
  · intro w key value t h
    simp only [addKv, h]
    split <;> exact ⟨_, rfl⟩

example : ¬ IdsRepresentable (List.range 65536) := by
  intro h
  have := h (List.range 65536) List.nodup_range (fun x hx => hx)
  simp at this
example : IdsRepresentable [0, 1000, 0, 1000, 4294967295] := by
  intro d hd hs
  have : d.Subperm [0, 1000, 4294967295] := List.Nodup.subperm hd (by
    intro x hx; have := hs x hx; simp at this ⊢; omega)
  have := this.length_le
  simp at this; omega

open Sqfs.IdTable Sqfs.DirWriter in
-- `refuse_unrepresentable` applied: 65536 distinct ids; a 257-byte name; the key `foo`
example : addAll limit [] (List.range 65536) = none :=
  refuse_unrepresentable.1 _ (by
    intro h
    have := h (List.range 65536) List.nodup_range (fun x hx => hx)
    simp at this)
open Sqfs.IdTable Sqfs.DirWriter in
example := refuse_unrepresentable.2.1 (List.replicate 257 0x61) 5 0 0o100644
  (Or.inr (Or.inl (by simp only [List.length_replicate]; omega)))
open Sqfs.IdTable Sqfs.DirWriter in
example := refuse_unrepresentable.2.2 {} [0x66, 0x6f, 0x6f] [1] (by decide)
open Sqfs.IdTable Sqfs.DirWriter in
-- `representable_accepted` applied: five ids, three distinct; a 256-byte name; the key `user.a`
example : ∃ r, addAll limit [] [0, 1000, 0, 1000, 4294967295] = some r :=
  representable_accepted.1 _ (by
    intro d hd hs
    have : d.Subperm [0, 1000, 4294967295] := List.Nodup.subperm hd (by
      intro x hx; have := hs x hx; simp at this ⊢; omega)
    have := this.length_le
    simp at this; omega)
open Sqfs.IdTable Sqfs.DirWriter in
example := representable_accepted.2.1 (List.replicate 256 0x61) 5 0 0o100644 2 (by simp only [List.length_replicate]; omega)
  (by simp only [List.length_replicate]; omega) (by decide) (by decide)
open Sqfs.IdTable Sqfs.DirWriter in
example := representable_accepted.2.2 {} (prefixUser ++ [0x61]) [1] 0 (by decide)

/-! ## the tree -/

/-- **One step of `sqfs_serialize_fstree` reads back.**  For any writer state `st` (streams and id table so far) and
any node `n` within its C types (`NodeInOk`) that the serializer accepts: the inode stream grows by exactly `encInode`
of a well-formed inode; that inode is read back by `decInode` from the reference the node was given (`rawRef` of the
position it was written at), from the finished stream or any extension of it; its reader-visible attributes are the
node's (mode, time stamp, inode number, link count, xattr index); **owner ids through the id table**: the inode's
whole view is the node's attributes on top of the payload of `preInode` with two indices `ui`, `gi`, and the id table
afterwards holds the node's uid at `ui` and its gid at `gi` (and is an extension of the table before, so this stays
true to the end); and for a directory the listing appended to the directory stream reads back, from the position
stored in the inode and with the size stored in the inode, as the entries `(name, inode number, type, reference)` of
its children in order.  The composition over the whole inode list is `parse_serialize`. -/
theorem parse_serialize_partial (bs : Nat) (st st' : TreeSt) (n : NodeIn) (later : Bytes)
    (hn : NodeInOk bs st n) (h : serializeNode st n = .ok st') :
    ∃ i, WfInode bs i ∧ st'.inodes = st.inodes ++ encInode i
      ∧ decInode bs ((st'.inodes ++ later).drop st.inodes.length) = .ok (i, later)
      ∧ rawPos (rawRef st.inodes.length) = some st.inodes.length
      ∧ i.view.base.mode = n.attr.mode ∧ i.view.base.mtime = n.attr.mtime ∧ i.view.base.inum = n.attr.inum
      ∧ (1 ≤ n.attr.linkCount → i.view.nlink = n.attr.linkCount ∧ i.view.xattr = n.attr.xattrIdx)
      ∧ (∀ ents, n.kind = .dir ents → ∃ des, addAllEntries ents = .ok des ∧
          st'.dirs = st.dirs ++ encListing rawCost (st.dirs.length / metaBlockSize * rawCost) (st.dirs.length % metaBlockSize) des
          ∧ ∀ s, openDir i ((st'.dirs ++ later).drop st.dirs.length) = some s → readListing s = .ok (des.map DEnt.toEntry))
      ∧ (1 ≤ n.attr.linkCount → ∃ i0 ui gi, preInode st n = some i0 ∧ i.view = withIds ui gi (wanted n.attr i0.view)
          ∧ st'.ids[ui]? = some n.uid ∧ st'.ids[gi]? = some n.gid ∧ ∃ e, st'.ids = st.ids ++ e) := by
  obtain ⟨i, a1, a2, a3, a4, a5, a6, a7, a8, a9⟩ := serializeNode_readback bs st st' n later hn h
  refine ⟨i, a1, a2, a3, a4, a5, a6, a7, a8, a9, ?_⟩
  intro hl
  obtain ⟨i', i0, ui, gi, f1, _, _, f4, f5, _, f7, f8, f9, _⟩ := serializeNode_full bs st st' n later hn hl h
  have : i' = i := by
    have := f4.symm.trans a3
    simp only [Except.ok.injEq, Prod.mk.injEq] at this
    exact this.1
  subst this
  exact ⟨i0, ui, gi, f1, f5, f8, f9, f7⟩

/-- the node of the example below: a directory with a file entry and a hard-link entry to the same inode, written
behind 100 bytes of directory stream, owner 1000:0 with only id 0 in the table so far -/
def exampleNodeSt : TreeSt := { inodes := List.replicate 40 0, dirs := List.replicate 100 0, ids := [0] }
def exampleNode : NodeIn :=
  ⟨⟨0o40755, 7, 3, 3, NONE32⟩, 1000, 0, 0, .dir [([0x61], 1, 0, 0o100644), ([0x62, 0xff], 1, 0, 0o100644)]⟩

theorem exampleNode_ok : NodeInOk 4096 exampleNodeSt exampleNode := by
  refine ⟨by decide, by decide, by decide, by decide, by decide, by decide, ?_⟩
  refine ⟨by decide, by decide, by decide, ?_⟩
  intro des h
  have h' : addAllEntries [([0x61], 1, 0, 0o100644), ([0x62, 0xff], 1, 0, 0o100644)]
      = .ok [⟨0, 1, 2, [0x61]⟩, ⟨0, 1, 2, [0x62, 0xff]⟩] := by decide
  rw [h'] at h
  cases h
  set_option maxRecDepth 20000 in decide

-- the theorem applied: the node is accepted (new id 1000 appended), and everything above holds for the result
example (st' : TreeSt) (h : serializeNode exampleNodeSt exampleNode = .ok st') :=
  parse_serialize_partial 4096 exampleNodeSt st' exampleNode [] exampleNode_ok h
example : (serializeNode exampleNodeSt exampleNode).toOption.map (fun s => (s.ids, s.dirs.length, s.inodes.length))
    = some ([0, 1000], 100 + 12 + 9 + 10, 40 + 32) := by set_option maxRecDepth 20000 in decide

open Sqfs.FsTree (Result lookup) in
/-- **The whole tree reads back** (`sqfs_serialize_fstree` after `fstree_post_process`, metadata uncompressed,
then `sqfs_dir_reader_get_root_inode` and recursively `open_dir`/`read`/`get_inode`).  `r` is the post-processed tree
(`fs->inodes` in write order, link counts and inode numbers assigned, hard links resolved), `x` the xattr indices and
the file inodes of the block processor.  If the input is `Representable` — `fs->inodes` lists every node once, the
root included, children and hard-link targets before the directory naming them; every attribute within its C type;
link counts ≥ 1; the two tables within the reach of a 32-bit `start_block` — and the serializer succeeds, then the walk
from the root reference, with any amount of fuel that suffices to expand the input tree, succeeds and returns, entry by
entry, exactly `normalise r x`: the same names in the same order under every directory; behind each name the inode with
the node's type, permissions, modification time, inode number, link count, xattr index, device number / symlink target /
file payload; **uid and gid resolved through the id table** (`Inode.resolve`: `ids[uid_idx]?` is `some` of the node's
uid); a hard link as a further name of its target's inode (the same inode number; its subtree if a directory).
By induction over `fs->inodes`: the reference stored in each directory entry is the position the child's inode was
written at — `lookupRef`'s calloc default is never used —, the inode decodes from there (`inode_roundtrip`), the
listing decodes from the position and with the size in the directory inode (`dir_listing_roundtrip`).

**Not covered by this statement** (see `docs/design/C01-units.md`): that `fstree_post_process` establishes
`orderOkB` (C03 `children_before_parent`/`link_targets_before_linking_dirs` prove it for C03's own numbering model;
the unit correspondence evaluates `Representable` for every tree it generates); compressed metadata (the flat streams
cut into blocks are `meta_stream_roundtrip`/`meta_ref_roundtrip`; their composition with this walk is exercised, not
proved); super block and tables around the streams (`super_roundtrip`, `id_table_roundtrip`, …); the front ends. -/
theorem parse_serialize (bs : Nat) (r : Result) (x : TreeExtra) (out : TreeOut)
    (hrep : Representable bs r x out) (hser : serializeTree r x = .ok out) :
    ∀ fuel v, normalise r x fuel = some v →
      ∃ rn, readTree bs out fuel = .ok rn ∧ rn.resolve out.st.ids = v :=
  serializeTree_readTree bs r x out hser hrep.order (fun p hp n hn => hrep.attrs p hp n hn) hrep.count hrep.inodes
    hrep.dirs hrep.dirs2

open Sqfs.FsTree in
/-- `/a` (file, two links, xattr set 0), `/d/s` (symlink), `/d` (directory), `/h` (hard link to `/a`), owners 1000:100
and 0:0, as `fstree_post_process` leaves them -/
def exampleTree : Result where
  tree := .mk [] ⟨0o40755, 0, 0, 5, 3, 0, false, false, .none⟩
    [.mk [0x61] ⟨0o100644, 1000, 100, 7, 2, 0, false, false, .str [0x2f, 0x78]⟩ [],
     .mk [0x64] ⟨0o40750, 1000, 0, 8, 2, 0, false, false, .none⟩
       [.mk [0x73] ⟨0o120777, 0, 0, 9, 1, 0, false, false, .str [0x2e, 0x2e, 0x2f, 0x61]⟩ []],
     .mk [0x68] ⟨0o120777, 0, 0, 0, 1, 0, false, true, .link [[0x61]] (some [[0x61]])⟩ []]
  inodes := [[[0x61]], [[0x64], [0x73]], [[0x64]], []]
  files := [[[0x61]]]

def exampleExtra : TreeExtra where
  xattrOf := fun p => if p = [[0x61]] then 0 else NONE32
  fileInode := fun _ => .file ⟨0, 0, 0, 0, 0⟩ 96 NONE32 NONE32 5000 [4096, 904]

-- `parse_serialize` applied: the serializer accepts the tree, the result is `Representable` (decided), `normalise`
-- is defined with fuel 6, and the walk returns it
theorem exampleTree_reads_back :
    ∃ out v rn, serializeTree exampleTree exampleExtra = .ok out ∧ normalise exampleTree exampleExtra 6 = some v
      ∧ readTree 4096 out 6 = .ok rn ∧ rn.resolve out.st.ids = v := by
  have hrep : (match serializeTree exampleTree exampleExtra with
      | .ok o => decide (Representable 4096 exampleTree exampleExtra o) | .error _ => false) = true := by
    set_option maxRecDepth 100000 in decide
  have hnorm : (normalise exampleTree exampleExtra 6).isSome = true := by set_option maxRecDepth 100000 in decide
  cases hs : serializeTree exampleTree exampleExtra with
  | error e => rw [hs] at hrep; cases hrep
  | ok out =>
    rw [hs] at hrep
    obtain ⟨v, hv⟩ := Option.isSome_iff_exists.mp hnorm
    obtain ⟨rn, h1, h2⟩ := parse_serialize 4096 exampleTree exampleExtra out (of_decide_eq_true hrep) hs 6 v hv
    exact ⟨out, v, rn, rfl, hv, h1, h2⟩


/-! ## what `fstree_post_process` hands the serialiser -/

open Sqfs.FsTree in
/-- **`fstree_post_process` establishes the first two clauses of `orderOkB` and the inode count bound** — for every
tree whose directories keep their children under pairwise different names in `strcmp` order (`AllSorted`: what
`insert_sorted` maintains; C11 `scan_tree_sorted`/`glob_tree_sorted` prove it of everything `--pack-dir` and glob lines
build) and every list of unresolved hard links: when it succeeds, `fs->inodes` is a permutation of the DFS numbering
order of the resolved tree (`reorder_hard_links` only moves slots), holds no node twice, contains the root, and has at
most 2³² − 1 entries.

*Partial*: the third clause of `orderOkB` — every child and every hard-link target stands before the directory naming
it — is proved for C03's numbering model (`children_before_parent`, `link_targets_before_linking_dirs`) and evaluated
per generated tree by the unit correspondence, not proved about this model of `reorder_hard_links`; the full statement
would be `postProcess tree links = some r → orderOkB r = true`. -/
theorem post_process_order_partial (tree : TNode) (links : List Path) (r : Result) (ht : tree.AllSorted)
    (h : postProcess tree links = some r) :
    r.tree.AllSorted ∧ r.inodes.Perm (allocOrder r.tree) ∧ r.inodes.Nodup ∧ r.inodes.contains [] = true ∧
      r.inodes.length ≤ 0xFFFFFFFF := by
  unfold postProcess at h
  split at h
  · cases h
  · rename_i t hres
    have hts : t.AllSorted := resolveHardLinks_allSorted _ _ _ _ ht hres
    simp only at h
    split at h
    · cases h
    · rename_i hlen
      cases h
      have hp := reorderHardLinks_perm t (allocOrder t)
      refine ⟨hts, hp, hp.nodup_iff.2 (allocOrder_nodup t hts), ?_, ?_⟩
      · rw [List.contains_iff_mem]
        exact hp.mem_iff.2 (by simp [allocOrder])
      · rw [hp.length_eq]; omega

/-- non-vacuous: `/a`, `/d/s`, `/h` → `/a` (unresolved) post-processes, and the example tree is sorted -/
example : ∃ r, Sqfs.FsTree.postProcess exampleTree.tree [] = some r ∧ r.inodes.length = 4 := by decide
theorem exampleTree_allSorted : exampleTree.tree.AllSorted := by
  simp only [exampleTree, Sqfs.FsTree.TNode.AllSorted, Sqfs.FsTree.AllSortedList, List.map_cons, List.map_nil, and_true,
    Sqfs.FsTree.TNode.name]
  decide
example : ∀ r, Sqfs.FsTree.postProcess exampleTree.tree [] = some r → r.inodes.Nodup ∧ r.inodes.contains [] = true :=
  fun r h => ⟨(post_process_order_partial _ _ r exampleTree_allSorted h).2.2.1,
    (post_process_order_partial _ _ r exampleTree_allSorted h).2.2.2.1⟩

end Sqfs.C01
