import Sqfs.Proofs.ObjConstruct
import Sqfs.Proofs.ObjView
import Sqfs.Proofs.ObjRestore
import Sqfs.Proofs.ObjKinds
import Sqfs.Proofs.C19Ops
import Sqfs.Proofs.C19Frame
import Sqfs.Proofs.C19Readers
import Sqfs.Proofs.RbTree
import Sqfs.Proofs.C19Units
import Sqfs.Proofs.C19Pool
import Sqfs.Proofs.C19Deep
import Sqfs.Proofs.C19Proj
/-!
C19 — copies of library objects are well-formed, equivalent, independent and safely destroyable.

Model: `Sqfs.Model.Obj` (object heap, `sqfs_grab/drop/copy`, per-kind copy-hook descriptions `desc`, which are
the hooks with `fixes/C19-*.patch` applied; the hooks of the pinned tree are `descCurrent`, see
`Sqfs.Witness.C19`) and `Sqfs.Model.ObjKinds` (state machines of the kinds with mutable state).
Every `theorem` below is an obligation.
-/
namespace Sqfs.C19
open Sqfs.Obj Sqfs.Obj.Kinds

/-- every kind's (repaired) hook description is well-formed -/
theorem desc_wellformed : ∀ k : Kind, WfDesc (desc k) := by
  intro k; cases k <;> decide

/-! ### the invariant, and the heaps of the instantiating examples

`Balanced h U` (`Sqfs.Proofs.ObjBal`): every live object has both hooks and a reference count equal to the number of
references that exist to it (`U x` held by the user + slots of live objects), nothing refers to a freed object, every live
buffer has exactly one owner, internal pointers point into the owner's buffers. -/

/-- the empty heap is balanced, and every constructor (`sqfs_*_create`, modelled by `construct`) keeps the heap
balanced with the caller holding one reference to the new object: the theorems above apply to every heap the
library builds from constructors, grabs, copies and drops -/
theorem constructed_balanced (k : Kind) (h : Heap) (U : Nat → Nat) (file cmp : Nat)
    (hb : Balanced h U) (hf : (h.objs file).isSome) (hc : (h.objs cmp).isSome) :
    Balanced (construct h k file cmp).1
      (fun y => if y = (construct h k file cmp).2 then U (construct h k file cmp).2 + 1 else U y) :=
  (construct_bal k hb hf hc).pendingToUser

/-- the user's file and compressor (objects 0 and 1), each held once -/
def envHeap : Heap := (newObj (newObj Heap.empty .file [] [] []).1 .gzip [] [] []).1

theorem envHeap_balanced : ∃ U, Balanced envHeap U ∧ U 0 = 1 ∧ U 1 = 1 := by
  have b1 := (Bal.newObj (P := []) (PB := []) .file [] [] [] (by simpa using Balanced.empty) (by simp) (by simp)).pendingToUser
  have b2 := (Bal.newObj (P := []) (PB := []) .gzip [] [] [] (by simpa using b1) (by simp) (by simp)).pendingToUser
  exact ⟨_, b2, by decide, by decide⟩

/-! #### the heaps of the instantiating examples

`exH`: the user's file (object 0) and compressor (1) and a directory reader over them (object 4, owning the meta readers 2
and 3).  `exHX`: in addition a data reader (object 6, owning the fragment table 5) and an xattr writer (object 7, the only
kind with internal pointers) over the same file and compressor.  Both are built by constructors from the empty heap, hence
balanced (`constructed_balanced`), with the user holding one reference to each of the objects it created. -/

def exH : Heap := (construct envHeap .dirReader 0 1).1
def exHD : Heap := (construct exH .dataReader 0 1).1
def exHX : Heap := (construct exHD .xattrWriter 0 1).1

theorem exH_balanced : ∃ U, Balanced exH U ∧ U 0 = 1 ∧ U 1 = 1 ∧ U 4 = 1 ∧ (∀ x, x ≠ 0 → x ≠ 1 → x ≠ 4 → U x = 0) := by
  obtain ⟨U, hb, h0, h1⟩ := envHeap_balanced
  have e4 : (construct envHeap .dirReader 0 1).2 = 4 := by decide
  have hU4 : U 4 = 0 := (hb.dead 4 (Or.inl (by decide))).1
  have b3 := constructed_balanced .dirReader envHeap U 0 1 hb (by decide) (by decide)
  simp only [e4] at b3
  refine ⟨_, b3, by simp [h0], by simp [h1], by simp [hU4], ?_⟩
  intro x x0 x1 x4
  simp only [x4, if_false]
  by_cases hx : x < envHeap.nobj
  · have : envHeap.nobj = 2 := by decide
    omega
  · cases hv : envHeap.objs x with
    | none => exact (hb.dead x (Or.inl hv)).1
    | some _ => exact absurd (hb.bound x (by simp [hv])) hx

theorem exHX_balanced : ∃ U, Balanced exHX U ∧ U 0 = 1 ∧ U 1 = 1 ∧ U 4 = 1 ∧ U 6 = 1 ∧ U 7 = 1 := by
  obtain ⟨U, hb, h0, h1⟩ := envHeap_balanced
  have e4 : (construct envHeap .dirReader 0 1).2 = 4 := by decide
  have b3 := constructed_balanced .dirReader envHeap U 0 1 hb (by decide) (by decide)
  have b4 := constructed_balanced .dataReader exH _ 0 1 b3 (by decide) (by decide)
  have b5 := constructed_balanced .xattrWriter exHD _ 0 1 b4 (by decide) (by decide)
  have e6 : (construct exH .dataReader 0 1).2 = 6 := by decide
  have e7 : (construct exHD .xattrWriter 0 1).2 = 7 := by decide
  have hU4 : U 4 = 0 := (hb.dead 4 (Or.inl (by decide))).1
  have hU6 : U 6 = 0 := (hb.dead 6 (Or.inl (by decide))).1
  have hU7 : U 7 = 0 := (hb.dead 7 (Or.inl (by decide))).1
  simp only [e4, e6, e7] at b5
  refine ⟨_, b5, ?_, ?_, ?_, ?_, ?_⟩ <;> simp [h0, h1, hU4, hU6, hU7]

/-- what the example heap looks like: kinds, reference counts, reference slots -/
example : (exHX.objs 4).map (fun o => (o.rc, o.refs)) = some (1, [some 2, some 3]) ∧
    (exHX.objs 0).map (·.rc) = some 4 ∧ exHX.nobj = 8 ∧ exHX.budget = none := by decide

/-- `sqfs_grab` by the user keeps the heap balanced -/
theorem grab_balanced (h : Heap) (U : Nat → Nat) (x : Nat) (hb : Balanced h U) (hx : (h.objs x).isSome) :
    Balanced (grab h x) (fun y => if y = x then U x + 1 else U y) := by
  obtain ⟨ox, hox⟩ := Option.isSome_iff_exists.mp hx
  exact (hb.grabbed hox (by simp)).pendingToUser

example : ∃ U : Nat → Nat, Balanced (grab exH 4) (fun y => if y = 4 then U 4 + 1 else U y) := by
  obtain ⟨U, hb, _⟩ := exH_balanced
  exact ⟨U, grab_balanced exH U 4 hb (by decide)⟩

/-- `copy_wellformed`: a successful `sqfs_copy` through a hook that writes the header yields an object with
reference count 1 and both hooks set (so it can itself be dropped and copied), of the same kind. -/
theorem copy_wellformed (D : Kind → CopyDesc) (n : Nat) (h h' : Heap) (id c : Nat) (o : Obj)
    (ho : h.objs id = some o) (hd : o.destroy = true)
    (hw : (D o.kind).header ≠ .zeroed)
    (hc : sqfsCopy D n h id = (h', some c)) :
    ∃ co, h'.objs c = some co ∧ co.rc = 1 ∧ co.destroy = true ∧ co.copy = true ∧ co.kind = o.kind := by
  obtain ⟨o', hm, nb, nr, ho', hcp, hf⟩ := sqfsCopy_some D n h h' id c hc
  rw [ho] at ho'; cases ho'
  obtain ⟨_, _, _, _, co, hco, hrc, hk, _, _, hinit, hmem, _, _⟩ := finishCopy_spec _ _ _ _ _ _ _ hf
  refine ⟨co, hco, hrc, ?_, ?_, hk⟩
  · cases hh : (D o.kind).header with
    | init => exact (hinit hh).1
    | memcpy => rw [(hmem hh).1]; exact hd
    | zeroed => exact absurd hh hw
  · cases hh : (D o.kind).header with
    | init => exact (hinit hh).2
    | memcpy => rw [(hmem hh).2]; exact hcp
    | zeroed => exact absurd hh hw

/-- instance: the directory reader of `exH`, copied with fuel 5 (the copy is object 7) -/
example : ∃ co, (sqfsCopy desc 5 exH 4).1.objs 7 = some co ∧ co.rc = 1 ∧ co.destroy = true ∧ co.copy = true ∧ co.kind = .dirReader := by
  cases ho : exH.objs 4 with
  | none => exact absurd ho (by decide)
  | some o =>
    have e : o = (exH.objs 4).get (by decide) := by simp [ho]
    have hc : sqfsCopy desc 5 exH 4 = ((sqfsCopy desc 5 exH 4).1, some 7) := by
      have : (sqfsCopy desc 5 exH 4).2 = some 7 := by decide
      exact Prod.ext rfl this
    have hk : o.kind = .dirReader := by subst e; decide
    have := copy_wellformed desc 5 exH _ 4 7 o ho (by subst e; decide) (by subst e; decide) hc
    rwa [hk] at this

/-- instantiation for every copyable kind (`copy_wellformed_K`): whatever the history, a copy made by the
(repaired) hook of kind `k` has refcount 1, a destroy hook and a copy hook -/
theorem copy_wellformed_all (k : Kind) (n : Nat) (h h' : Heap) (id c : Nat) (o : Obj)
    (ho : h.objs id = some o) (hk : o.kind = k) (hd : o.destroy = true)
    (hc : sqfsCopy desc n h id = (h', some c)) :
    ∃ co, h'.objs c = some co ∧ co.rc = 1 ∧ co.destroy = true ∧ co.copy = true ∧ co.kind = k := by
  have hw : (desc o.kind).header ≠ .zeroed := (desc_wellformed o.kind).1
  obtain ⟨co, h1, h2, h3, h4, h5⟩ := copy_wellformed desc n h h' id c o ho hd hw hc
  exact ⟨co, h1, h2, h3, h4, hk ▸ h5⟩

example : ∃ co, (sqfsCopy desc 5 exH 4).1.objs 7 = some co ∧ co.rc = 1 ∧ co.destroy = true ∧ co.copy = true ∧ co.kind = .dirReader := by
  cases ho : exH.objs 4 with
  | none => exact absurd ho (by decide)
  | some o =>
    have e : o = (exH.objs 4).get (by decide) := by simp [ho]
    have hc : sqfsCopy desc 5 exH 4 = ((sqfsCopy desc 5 exH 4).1, some 7) := by
      have : (sqfsCopy desc 5 exH 4).2 = some 7 := by decide
      exact Prod.ext rfl this
    exact copy_wellformed_all .dirReader 5 exH _ 4 7 o ho (by subst e; decide) (by subst e; decide) hc

/-- `copy_equiv_idTable`: a copied id table answers every later operation sequence as the original would
(the copy's capacity differs — `array_init_copy` allocates the used part only). -/
theorem copy_equiv_idTable (t : IdTable) (ops : List IdOp) : idRun (idCopy t) ops = idRun t ops :=
  idRun_data ops _ _ rfl

example := copy_equiv_idTable ⟨128, [5, 7]⟩ [.add 7, .add 9, .get 2, .get 9]

/-- `copy_equiv_fragTable` -/
theorem copy_equiv_fragTable (t : FragTable) (ops : List FragOp) : fragRun (fragCopy t) ops = fragRun t ops :=
  fragRun_data ops _ _ rfl

example := copy_equiv_fragTable ⟨128, [(96, 10), (106, 20)]⟩ [.append 1 2, .lookup 2, .set 0 5 6, .size, .lookup 0]

/-! ### safely destroyable, no leak: reference-count soundness

`Balanced h U` (`Sqfs.Proofs.ObjBal`): every live object has both hooks and a reference count equal to the number
of references that exist to it (`U x` held by the user + slots of live objects), nothing refers to a freed object,
every live buffer has exactly one owner, internal pointers point into the owner's buffers. -/

/-- `copy_balanced`: `sqfs_copy` of any live object of a balanced heap through the (repaired) hooks succeeds (no
allocation failure injected), yields a fresh object, and the heap is balanced again with the user holding exactly
one reference to the copy — for every kind, every object graph, every history that led to `h`. -/
theorem copy_balanced (h : Heap) (U : Nat → Nat) (o : Nat)
    (hb : Balanced h U) (hbud : h.budget = none) (hl : (h.objs o).isSome) :
    ∃ h' c, sqfsCopyTop desc h o = (h', some c) ∧ h.objs c = none ∧ U c = 0 ∧
      Balanced h' (fun y => if y = c then 1 else U y) := by
  rcases hr : sqfsCopyTop desc h o with ⟨h', r⟩
  obtain ⟨hsome, hres⟩ := sqfsCopy_bal desc desc_wellformed h.nobj h U [] [] o hb hl (hb.bound o hl) h' r hr
  obtain ⟨c, rfl⟩ := Option.isSome_iff_exists.mp (hsome hbud)
  obtain ⟨hb', hfresh, _⟩ := hres
  have hnone : h.objs c = none := by
    cases hv : h.objs c with
    | none => rfl
    | some _ => have := hb.bound c (by simp [hv]); omega
  have hU : U c = 0 := (hb.dead c (Or.inl hnone)).1
  refine ⟨h', c, rfl, hnone, hU, ?_⟩
  have := hb'.pendingToUser
  rw [hU] at this
  exact this

example : ∃ (U : Nat → Nat) (h' : Heap) (c : Nat), sqfsCopyTop desc exHX 4 = (h', some c) ∧ Balanced h' (fun y => if y = c then 1 else U y) := by
  obtain ⟨U, hb, _⟩ := exHX_balanced
  obtain ⟨h', c, he, _, _, hb'⟩ := copy_balanced exHX U 4 hb rfl (by decide)
  exact ⟨U, h', c, he, hb'⟩

/-- `copy_fail_safe`: whichever allocation inside `sqfs_copy` fails (`k` allocations succeed, the next one does
not) — in the hook itself or in a nested `sqfs_copy` — a well-formed hook returns NULL or a good copy, never
crashes, and after a NULL the heap is balanced for exactly the references the user held before: the original and
everything it references are untouched, nothing is leaked. -/
theorem copy_fail_safe (h : Heap) (U : Nat → Nat) (o k : Nat) (hb : Balanced h U) (hl : (h.objs o).isSome) :
    (sqfsCopyTop desc { h with budget := some k } o).1.crash = none ∧
    match (sqfsCopyTop desc { h with budget := some k } o).2 with
    | none => Balanced (sqfsCopyTop desc { h with budget := some k } o).1 U
    | some c => Balanced (sqfsCopyTop desc { h with budget := some k } o).1 (fun y => if y = c then U c + 1 else U y) := by
  rcases hr : sqfsCopyTop desc { h with budget := some k } o with ⟨h', r⟩
  obtain ⟨_, hres⟩ := sqfsCopy_bal desc desc_wellformed h.nobj { h with budget := some k } U [] [] o
    (hb.setBudget _) hl (hb.bound o hl) h' r hr
  cases r with
  | none => exact ⟨hres.ok, hres⟩
  | some c => exact ⟨hres.1.ok, hres.1.pendingToUser⟩

/-- instance: the third allocation inside the copy of the directory reader fails: NULL, heap balanced as before -/
example : ∃ U : Nat → Nat, (sqfsCopyTop desc { exHX with budget := some 2 } 4).1.crash = none ∧
    Balanced (sqfsCopyTop desc { exHX with budget := some 2 } 4).1 U := by
  obtain ⟨U, hb, _⟩ := exHX_balanced
  have h := copy_fail_safe exHX U 4 2 hb (by decide)
  have hn : (sqfsCopyTop desc { exHX with budget := some 2 } 4).2 = none := by decide
  rw [hn] at h
  exact ⟨U, h.1, h.2⟩

/-- `release_safe`: the user releases references in **any order and interleaving** (`ds` lists the objects
dropped, each at most as often as it is held): `sqfs_drop` never calls a NULL hook, never touches or destroys a
freed object, never frees a buffer twice (the heap does not crash), and the heap stays balanced for what is
still held. With `copy_balanced` this covers original and copy in either order. -/
theorem release_safe (h : Heap) (U : Nat → Nat) (ds : List Nat)
    (hb : Balanced h U) (hc : ∀ x, ds.count x ≤ U x) :
    (ds.foldl sqfsDrop h).crash = none ∧ Balanced (ds.foldl sqfsDrop h) (fun x => U x - ds.count x) :=
  have := Bal.dropAllTop ds hb hc
  ⟨this.ok, this⟩

/-- instance: the user releases the directory reader, the file and the xattr writer of `exHX`, in that order -/
example : ∃ U : Nat → Nat, ([4, 0, 7].foldl sqfsDrop exHX).crash = none ∧
    Balanced ([4, 0, 7].foldl sqfsDrop exHX) (fun x => U x - [4, 0, 7].count x) := by
  obtain ⟨U, hb, h0, _, h4, _, h7⟩ := exHX_balanced
  refine ⟨U, release_safe exHX U [4, 0, 7] hb ?_⟩
  intro x
  by_cases a : x = 4
  · subst a; simp [h4]
  · by_cases b : x = 0
    · subst b; simp [h0]
    · by_cases c : x = 7
      · subst c; simp [h7]
      · have : ¬ 4 = x := fun e => a e.symm
        have : ¬ 0 = x := fun e => b e.symm
        have : ¬ 7 = x := fun e => c e.symm
        simp [List.count_cons, *]

/-- both release orders of original and copy, spelled out -/
theorem release_safe_either_order (h : Heap) (U : Nat → Nat) (o c : Nat)
    (hb : Balanced h U) (ho : 1 ≤ U o) (hc : 1 ≤ U c) (hne : o ≠ c) :
    (sqfsDrop (sqfsDrop h o) c).crash = none ∧ (sqfsDrop (sqfsDrop h c) o).crash = none ∧
    Balanced (sqfsDrop (sqfsDrop h o) c) (fun x => U x - [o, c].count x) ∧
    Balanced (sqfsDrop (sqfsDrop h c) o) (fun x => U x - [c, o].count x) := by
  have cnt : ∀ x, [o, c].count x ≤ U x ∧ [c, o].count x ≤ U x := by
    intro x
    by_cases h1 : x = o
    · subst h1
      have : ¬ c = x := fun e => hne e.symm
      simp [List.count_cons, this, ho]
    · by_cases h2 : x = c
      · subst h2; simp [List.count_cons, hne, hc]
      · have e1 : ¬ o = x := fun e => h1 e.symm
        have e2 : ¬ c = x := fun e => h2 e.symm
        simp [List.count_cons, e1, e2]
  have h1 := release_safe h U [o, c] hb (fun x => (cnt x).1)
  have h2 := release_safe h U [c, o] hb (fun x => (cnt x).2)
  exact ⟨h1.1, h2.1, h1.2, h2.2⟩

example : (sqfsDrop (sqfsDrop exHX 4) 6).crash = none ∧ (sqfsDrop (sqfsDrop exHX 6) 4).crash = none := by
  obtain ⟨U, hb, _, _, h4, h6, _⟩ := exHX_balanced
  have h := release_safe_either_order exHX U 4 6 hb (by omega) (by omega) (by decide)
  exact ⟨h.1, h.2.1⟩

/-- `copy_then_release_restores`: copying an object and releasing the copy gives back **exactly** the heap there
was: every object with the reference count it had (in particular the shared file and compressor), every buffer
with its contents, nothing added — the copy holds nothing of the original's and leaks nothing of its own. -/
theorem copy_then_release_restores (h : Heap) (U : Nat → Nat) (o : Nat)
    (hb : Balanced h U) (hbud : h.budget = none) (hl : (h.objs o).isSome) :
    ∃ h' c, sqfsCopyTop desc h o = (h', some c) ∧ (sqfsDrop h' c).crash = none ∧
      (sqfsDrop h' c).objs = h.objs ∧ (sqfsDrop h' c).bufs = h.bufs := by
  rcases hr : sqfsCopyTop desc h o with ⟨h', r⟩
  obtain ⟨hsome, hres⟩ := sqfsCopy_bal desc desc_wellformed h.nobj h U [] [] o hb hl (hb.bound o hl) h' r hr
  obtain ⟨c, rfl⟩ := Option.isSome_iff_exists.mp (hsome hbud)
  obtain ⟨hb', hfresh, hsl⟩ := hres
  have hnone : h.objs c = none := by
    cases hv : h.objs c with
    | none => rfl
    | some _ => have := hb.bound c (by simp [hv]); omega
  have hU : U c = 0 := (hb.dead c (Or.inl hnone)).1
  have hbu := hb'.pendingToUser
  have hrel := release_safe h' _ [c] hbu (by
    intro x
    by_cases hx : x = c
    · subst hx; simp
    · have : ¬ c = x := fun e => hx e.symm
      simp [List.count_cons, this])
  have hUeq : (fun x => (if x = c then U c + 1 else U x) - [c].count x) = U := by
    funext x
    by_cases hx : x = c
    · subst hx; simp [hU]
    · have : ¬ c = x := fun e => hx e.symm
      simp [hx, List.count_cons, this]
  rw [hUeq] at hrel
  have hk : Shrinks h' (sqfsDrop h' c) := Shrinks.drop _ _ _
  obtain ⟨e1, e2⟩ := restore_of_frames hb hrel.2 hsl hk
  exact ⟨h', c, rfl, hrel.1, e1, e2⟩

example : ∃ h' c, sqfsCopyTop desc exHX 4 = (h', some c) ∧ (sqfsDrop h' c).crash = none ∧
    (sqfsDrop h' c).objs = exHX.objs ∧ (sqfsDrop h' c).bufs = exHX.bufs := by
  obtain ⟨U, hb, _⟩ := exHX_balanced
  exact copy_then_release_restores exHX U 4 hb rfl (by decide)

/-- `no_leak`: once every reference the user held has been released, no object and no buffer is left -/
theorem no_leak (h : Heap) (U : Nat → Nat) (ds : List Nat)
    (hb : Balanced h U) (hc : ∀ x, ds.count x = U x) :
    (∀ x, (ds.foldl sqfsDrop h).objs x = none) ∧ (∀ b, (ds.foldl sqfsDrop h).bufs b = none) :=
  (release_safe h U ds hb (fun x => Nat.le_of_eq (hc x))).2.empty_of_no_refs (fun x => by simp [hc x])

/-- instance: in `exH` the user holds the file, the compressor and the directory reader; released (file first), nothing is left -/
example : (∀ x, ([0, 4, 1].foldl sqfsDrop exH).objs x = none) ∧ (∀ b, ([0, 4, 1].foldl sqfsDrop exH).bufs b = none) := by
  obtain ⟨U, hb, h0, h1, h4, hz⟩ := exH_balanced
  refine no_leak exH U [0, 4, 1] hb ?_
  intro x
  by_cases a : x = 0
  · subst a; simp [h0]
  · by_cases b : x = 1
    · subst b; simp [h1]
    · by_cases c : x = 4
      · subst c; simp [h4]
      · have := hz x a b c
        have : ¬ 0 = x := fun e => a e.symm
        have : ¬ 1 = x := fun e => b e.symm
        have : ¬ 4 = x := fun e => c e.symm
        simp [*]

/-- how the invariant reads (**definition-level**: this is the field `live` of the invariant `Balanced h U` projected out,
not a consequence of it): in a balanced heap an object's count is the number of references the user holds plus the number of
slots of live objects that point to it, and both hooks are set.  What is *proved* about counts is that every operation of the
library re-establishes the invariant (`copy_balanced`, `constructed_balanced`, `grab_balanced`, `release_safe`,
`ops_release_safe`) and `refcount_exact` below. -/
theorem refcount_invariant_reading (h : Heap) (U : Nat → Nat) (x : Nat) (ox : Obj) (hb : Balanced h U) (hx : h.objs x = some ox) :
    ox.rc = U x + refCount h [] x ∧ ox.destroy = true ∧ ox.copy = true := by
  obtain ⟨h1, h2, h3, _, _, _⟩ := hb.live x ox hx (by simp)
  exact ⟨by simpa using h3, h1, h2⟩

example : ∃ (U : Nat → Nat) (ox : Obj), exHX.objs 0 = some ox ∧ ox.rc = U 0 + refCount exHX [] 0 := by
  obtain ⟨U, hb, _⟩ := exHX_balanced
  cases hx : exHX.objs 0 with
  | none => exact absurd hx (by decide)
  | some o0 => exact ⟨U, o0, rfl, (refcount_invariant_reading exHX U 0 o0 hb hx).1⟩

/-- an event of the user that only moves reference counts: `sqfs_grab` or `sqfs_drop` -/
def isRefEv : Ev → Bool
  | .op _ _ => false
  | _ => true

/-- `refcount_exact`: **the grabs a copy took are gone exactly when the copy is.**  Copy any live object of a balanced heap
and let the user then grab and release references in any order and interleaving — to the copy, the original, the shared file
and compressor, anything it holds (`es`, admissible: only objects held at that moment are touched).  If at the end the user
holds exactly the references it held before the copy (so every reference to the copy has been released), the heap is
**exactly** the heap there was before the copy: every object — in particular the shared file and compressor, which the copy and
the objects it owns had grabbed — is there with the reference count it had (`Obj.rc` is a field of the object), every buffer
with its contents, nothing is added, and nothing crashed on the way.  (`copy_then_release_restores` is the case `es = [drop c]`;
the statement needs no hypothesis on the kind or the shape of the object graph.) -/
theorem refcount_exact (h : Heap) (U : Nat → Nat) (o : Nat)
    (hb : Balanced h U) (hbud : h.budget = none) (hl : (h.objs o).isSome) :
    ∃ h' c, sqfsCopyTop desc h o = (h', some c) ∧ h.objs c = none ∧ U c = 0 ∧
      ∀ es : List Ev, (∀ e ∈ es, isRefEv e = true) → Admissible (fun y => if y = c then 1 else U y) es →
        userAfter (fun y => if y = c then 1 else U y) es = U →
        (runEvs h' es).crash = none ∧ (runEvs h' es).objs = h.objs ∧ (runEvs h' es).bufs = h.bufs := by
  obtain ⟨h', c, he, hnone, hU, hb'⟩ := copy_balanced h U o hb hbud hl
  refine ⟨h', c, he, hnone, hU, ?_⟩
  intro es hr ha hu
  have hb'' := runEvs_bal es hb' ha
  rw [hu] at hb''
  have f1 : Frame h h' := by
    have := Frame.sqfsCopy desc h.nobj h o
    have e : (sqfsCopy desc h.nobj h o).1 = h' := congrArg Prod.fst he
    rwa [e] at this
  have f2 : ∀ (es : List Ev) (g : Heap), (∀ e ∈ es, isRefEv e = true) → Frame g (runEvs g es) := by
    intro es
    induction es with
    | nil => intro g _; exact Frame.refl g
    | cons e es ih =>
      intro g hr
      have h1 : Frame g (e.apply g) := by
        cases e with
        | op x w => have := hr (.op x w) List.mem_cons_self; simp [isRefEv] at this
        | grab x => exact Frame.grab g x
        | drop x => exact Frame.drop g.nobj g x
      exact h1.trans (ih (e.apply g) (fun e' he' => hr e' (List.mem_cons_of_mem _ he')))
  obtain ⟨e1, e2⟩ := restore_of_frame hb hb'' (f1.trans (f2 es h' hr))
  exact ⟨hb''.ok, e1, e2⟩

/-- instance: the directory reader of `exHX` is copied (the copy is object 10; it and its two meta readers grab the file, whose
count goes from 4 to 6); the user grabs the file and the copy once more, then releases in a mixed order; at the end the heap is
the one before the copy, the file's count is 4 again -/
example : ∃ h', (sqfsCopyTop desc exHX 4) = (h', some 10) ∧ (h'.objs 0).map (·.rc) = some 6 ∧
    (runEvs h' [.grab 0, .grab 10, .drop 10, .drop 0, .drop 10]).objs = exHX.objs ∧
    (runEvs h' [.grab 0, .grab 10, .drop 10, .drop 0, .drop 10]).bufs = exHX.bufs ∧
    ((runEvs h' [.grab 0, .grab 10, .drop 10, .drop 0, .drop 10]).objs 0).map (·.rc) = some 4 := by
  obtain ⟨U, hb, h0, _, _, _, _⟩ := exHX_balanced
  obtain ⟨h', c, he, _, hUc, hall⟩ := refcount_exact exHX U 4 hb rfl (by decide)
  have hc : c = 10 := by
    have e1 : (sqfsCopyTop desc exHX 4).2 = some 10 := by decide
    rw [he] at e1; exact Option.some.inj e1
  subst hc
  have hr := hall [.grab 0, .grab 10, .drop 10, .drop 0, .drop 10] (by decide)
    (by simp [Admissible, Ev.user, Ev.target, h0])
    (by funext y
        by_cases hy : y = 10
        · subst hy; simp [userAfter, Ev.user, hUc]
        · by_cases hy0 : y = 0
          · subst hy0; simp [userAfter, Ev.user]
          · simp [userAfter, Ev.user, hy, hy0])
  refine ⟨h', he, ?_, hr.2.1, hr.2.2, ?_⟩
  · have e2 : ((sqfsCopyTop desc exHX 4).1.objs 0).map (·.rc) = some 6 := by decide
    rw [he] at e2; exact e2
  · rw [hr.2.1]; decide

/-- `copy_equiv` (object level): right after `sqfs_copy` the copy observes through every buffer slot and every
internal pointer exactly what the original observes, and the original observes what it observed before. Every
operation of the kinds is a function of these observations (and of the immutable shared file / the stateless
compressor), so equal observations give equal answers to every later operation sequence; by `copy_independent`
operations on one side never change the other side's observations. -/
theorem copy_equiv (h : Heap) (U : Nat → Nat) (o : Nat) (ob : Obj)
    (hb : Balanced h U) (hbud : h.budget = none) (hox : h.objs o = some ob) (hsh : ShapeOk (desc ob.kind) ob) :
    ∃ h' c, sqfsCopyTop desc h o = (h', some c) ∧ view h' c = view h o ∧ view h' o = view h o := by
  obtain ⟨h', c, he, _, _, _⟩ := copy_balanced h U o hb hbud (by simp [hox])
  have hlt : o < h.nobj := hb.bound o (by simp [hox])
  obtain ⟨k, hk⟩ : ∃ k, h.nobj = k + 1 := ⟨h.nobj - 1, by omega⟩
  have he' : sqfsCopy desc (k + 1) h o = (h', some c) := by rw [← hk]; exact he
  obtain ⟨v1, v2⟩ := sqfsCopy_view desc desc_wellformed k hb hbud hox (by omega) hsh.1 hsh.2.1 hsh.2.2 he'
  exact ⟨h', c, he, v1, v2⟩

/-- instances in one balanced heap (`ShapeOk` and `Balanced` jointly): the xattr writer (object 7: two internal pointers into
its own buffers) and the directory reader (object 4) of `exHX` -/
example : (∃ h' c, sqfsCopyTop desc exHX 7 = (h', some c) ∧ view h' c = view exHX 7 ∧ view h' 7 = view exHX 7) ∧
    (∃ h' c, sqfsCopyTop desc exHX 4 = (h', some c) ∧ view h' c = view exHX 4 ∧ view h' 4 = view exHX 4) := by
  obtain ⟨U, hb, _⟩ := exHX_balanced
  constructor
  · cases ho : exHX.objs 7 with
    | none => exact absurd ho (by decide)
    | some o7 =>
      have e : o7 = (exHX.objs 7).get (by decide) := by simp [ho]
      exact copy_equiv exHX U 7 o7 hb rfl ho (by subst e; exact ⟨by decide, by decide, by decide⟩)
  · cases ho : exHX.objs 4 with
    | none => exact absurd ho (by decide)
    | some o4 =>
      have e : o4 = (exHX.objs 4).get (by decide) := by simp [ho]
      exact copy_equiv exHX U 4 o4 hb rfl ho (by subst e; exact ⟨by decide, by decide, by decide⟩)

/-- `copy_equiv_deep` — `copy_equiv` over the **reachable owned sub-object graph**: besides the copy's own slots, every object
the copy owns through a deep reference (`sqfs_copy` inside the hook: the two meta readers of a directory reader / xattr reader,
the fragment table of a data reader) is a **fresh** object (`y ≥ h.nobj`: it did not exist before the call, so it is neither the
original's sub-object nor anything else the user holds) that observes through every field, buffer and internal pointer exactly
what the original's sub-object `r` observes; and `r` observes what it observed.  No kind of the library owns objects that own
objects (meta readers and tables reference only the shared file / compressor, which are grabbed, not copied), so one level is the
whole owned graph; the shared file and compressor are the same objects on both sides (`copy_balanced`: grabbed). -/
theorem copy_equiv_deep (h : Heap) (U : Nat → Nat) (o : Nat) (ob : Obj)
    (hb : Balanced h U) (hbud : h.budget = none) (hox : h.objs o = some ob) (hsh : ShapeOk (desc ob.kind) ob)
    (hsub : ∀ r, some r ∈ ob.refs → ∃ or, h.objs r = some or ∧ ShapeOk (desc or.kind) or) :
    ∃ h' c oc, sqfsCopyTop desc h o = (h', some c) ∧ h'.objs c = some oc ∧ view h' c = view h o ∧ view h' o = view h o ∧
      ∀ (i r : Nat), ob.refs[i]? = some (some r) → (desc ob.kind).refs[i]? = some RefAct.deep →
        ∃ y, oc.refs[i]? = some (some y) ∧ h.nobj ≤ y ∧ view h' y = view h r ∧ view h' r = view h r := by
  obtain ⟨h', c, he, _, _, hb'⟩ := copy_balanced h U o hb hbud (by simp [hox])
  have hlt : o < h.nobj := hb.bound o (by simp [hox])
  obtain ⟨k, hk⟩ : ∃ k, h.nobj = k + 1 := ⟨h.nobj - 1, by omega⟩
  have he' : sqfsCopy desc (k + 1) h o = (h', some c) := by rw [← hk]; exact he
  obtain ⟨v1, v2⟩ := sqfsCopy_view desc desc_wellformed k hb hbud hox (by omega) hsh.1 hsh.2.1 hsh.2.2 he'
  obtain ⟨hcl, _⟩ := hb'.user_live (x := c) (by simp)
  obtain ⟨oc, hoc⟩ := Option.isSome_iff_exists.mp hcl
  refine ⟨h', c, oc, he, hoc, v1, v2, ?_⟩
  intro i r hi ha
  obtain ⟨oc', y, h1, h2, h3, h4, h5⟩ := sqfsCopy_deep desc desc_wellformed k hb hbud hox (by omega) hsub he' i r hi ha
  rw [hoc] at h1
  cases h1
  exact ⟨y, h2, h3, h4, h5⟩

/-- instance: the directory reader (object 4) of `exHX`: both meta readers of the copy are fresh objects observing what the
original's meta readers observe; the data reader (object 6): its fragment table -/
example : (∃ h' c oc, sqfsCopyTop desc exHX 4 = (h', some c) ∧ h'.objs c = some oc ∧
      ∃ y0 y1, oc.refs = [some y0, some y1] ∧ exHX.nobj ≤ y0 ∧ exHX.nobj ≤ y1 ∧ view h' y0 = view exHX 2 ∧ view h' y1 = view exHX 3) := by
  obtain ⟨U, hb, _⟩ := exHX_balanced
  have ho : exHX.objs 4 = some ((exHX.objs 4).get (by decide)) := (Option.some_get _).symm
  obtain ⟨h', c, oc, he, hoc, _, _, hd⟩ := copy_equiv_deep exHX U 4 _ hb rfl ho (by refine ⟨by decide, by decide, by decide⟩) (by
    intro r hr
    have : r = 2 ∨ r = 3 := by
      have e : ((exHX.objs 4).get (by decide)).refs = [some 2, some 3] := by decide
      rw [e] at hr; simpa using hr
    rcases this with rfl | rfl
    · exact ⟨_, (Option.some_get (by decide)).symm, by decide, by decide, by decide⟩
    · exact ⟨_, (Option.some_get (by decide)).symm, by decide, by decide, by decide⟩)
  obtain ⟨y0, a1, a2, a3, _⟩ := hd 0 2 (by decide) (by decide)
  obtain ⟨y1, b1, b2, b3, _⟩ := hd 1 3 (by decide) (by decide)
  have hlen : oc.refs.length = 2 := by
    have e1 : ((sqfsCopyTop desc exHX 4).2.bind (sqfsCopyTop desc exHX 4).1.objs).map (·.refs.length) = some 2 := by decide
    rw [he] at e1
    simpa [hoc] using e1
  refine ⟨h', c, oc, he, hoc, y0, y1, ?_, a2, b2, a3, b3⟩
  match hr : oc.refs, hlen with
  | [p, q], _ =>
    rw [hr] at a1 b1
    simp at a1 b1
    rw [a1, b1]

/-- `copy_same_buffer_sizes`: for the kinds whose hooks duplicate every buffer at its allocated size — required
of kinds that, like the data reader, index their cached blocks up to `block_size` without recording the allocated
size — every buffer slot of the copy is allocated exactly as large as the original's: an index that is in bounds
for the original is in bounds for the copy (the current `data_reader_copy` violates this:
`Sqfs.Witness.C19.dataReader_copy_overflows`). -/
theorem copy_same_buffer_sizes (h : Heap) (U : Nat → Nat) (o : Nat) (ob : Obj)
    (hb : Balanced h U) (hbud : h.budget = none) (hox : h.objs o = some ob)
    (hdup : ∀ a ∈ (desc ob.kind).bufs, a = .dup) (hlen : ob.bufs.length ≤ (desc ob.kind).bufs.length) :
    ∃ h' c oc, sqfsCopyTop desc h o = (h', some c) ∧ h'.objs c = some oc ∧
      oc.bufs.map (slotCap h') = ob.bufs.map (slotCap h) := by
  obtain ⟨h', c, he, _, _, _⟩ := copy_balanced h U o hb hbud (by simp [hox])
  have hlt : o < h.nobj := hb.bound o (by simp [hox])
  obtain ⟨k, hk⟩ : ∃ k, h.nobj = k + 1 := ⟨h.nobj - 1, by omega⟩
  have he' : sqfsCopy desc (k + 1) h o = (h', some c) := by rw [← hk]; exact he
  obtain ⟨oc, h1, h2⟩ := sqfsCopy_caps desc desc_wellformed k hb hbud hox (by omega) hdup hlen he'
  exact ⟨h', c, oc, he, h1, h2⟩

/-- instance: the data reader (object 6) of the balanced heap `exHX`: `hdup`, `hlen` and `Balanced` jointly -/
example : ∃ h' c oc, sqfsCopyTop desc exHX 6 = (h', some c) ∧ h'.objs c = some oc ∧
    oc.bufs.map (slotCap h') = ((exHX.objs 6).get (by decide)).bufs.map (slotCap exHX) := by
  obtain ⟨U, hb, _⟩ := exHX_balanced
  exact copy_same_buffer_sizes exHX U 6 _ hb rfl (Option.some_get _).symm (by decide) (by decide)

/-- the data reader (and the dir reader, xattr reader, file) are such kinds in the repaired descriptions -/
example : ∀ k ∈ [Kind.dataReader, .dirReader, .xattrReader, .file], ∀ a ∈ (desc k).bufs, a = .dup := by decide

/-- `copy_independent`: in a balanced heap — in particular after `copy_balanced` — the owned buffers of two
different objects are disjoint, so any sequence of stores through the slots and internal pointers of one object
leaves what the other can observe of its buffers unchanged (and the heap balanced). -/
theorem copy_independent (h : Heap) (U : Nat → Nat) (x y : Nat) (ox oy : Obj) (ws : List (Nat × Nat))
    (hb : Balanced h U) (hx : h.objs x = some ox) (hy : h.objs y = some oy) (hne : x ≠ y) :
    view (writes h x ws) y = view h y ∧ Balanced (writes h x ws) U ∧ (writes h x ws).crash = none := by
  obtain ⟨h1, h2, _⟩ := writes_independent ws hb hx hy hne
  exact ⟨h2, h1, h1.ok⟩

/-- instances: stores through the directory reader's slots do not change what the data reader observes; stores through the xattr
writer's slot 0 and internal pointer 2 do not change what the directory reader observes -/
example : view (writes exHX 4 [(0, 5), (0, 6)]) 6 = view exHX 6 ∧ view (writes exHX 7 [(0, 5), (2, 6)]) 4 = view exHX 4 := by
  obtain ⟨U, hb, _⟩ := exHX_balanced
  exact ⟨(copy_independent exHX U 4 6 _ _ [(0, 5), (0, 6)] hb (Option.some_get (by decide)).symm (Option.some_get (by decide)).symm (by decide)).1,
    (copy_independent exHX U 7 4 _ _ [(0, 5), (2, 6)] hb (Option.some_get (by decide)).symm (Option.some_get (by decide)).symm (by decide)).1⟩

/-- owned buffers of distinct live objects are disjoint -/
theorem copy_buffers_disjoint (h : Heap) (U : Nat → Nat) (x y b : Nat) (ox oy : Obj)
    (hb : Balanced h U) (hx : h.objs x = some ox) (hy : h.objs y = some oy) (hne : x ≠ y)
    (hbx : some b ∈ ox.bufs) : some b ∉ oy.bufs :=
  hb.bufs_disjoint hx hy (by simp) (by simp) hne hbx

/-- instance: buffer 2 belongs to the directory reader of `exH`, hence not to its first meta reader (object 2) -/
example : some 2 ∉ ((exH.objs 2).get (by decide)).bufs := by
  obtain ⟨U, hb, _⟩ := exH_balanced
  exact copy_buffers_disjoint exH U 4 2 2 _ _ hb (Option.some_get (by decide)).symm (Option.some_get _).symm (by decide) (by decide)

/-! non-vacuity -/
example : ∃ h h' c, sqfsCopy desc 3 h 0 = (h', some c) ∧ (h.objs 0).isSome :=
  ⟨(construct Heap.empty .idTable 0 0).1, _, _, rfl, rfl⟩
/-- the hypotheses of `copy_balanced` / `release_safe` / `copy_independent` are satisfiable: a directory reader over
the user's file and compressor (the reader is object 4 and owns the meta readers 2 and 3) -/
example : ∃ h U, Balanced h U ∧ h.budget = none ∧ (h.objs 4).map (·.refs) = some [some 2, some 3] ∧ U 4 = 1 ∧ U 0 = 1 := by
  obtain ⟨U, hb, h0, h1⟩ := envHeap_balanced
  have b3 := constructed_balanced .dirReader envHeap U 0 1 hb (by decide) (by decide)
  refine ⟨_, _, b3, rfl, by decide, ?_, ?_⟩
  · have e : (construct envHeap .dirReader 0 1).2 = 4 := by decide
    have hU4 : U 4 = 0 := (hb.dead 4 (Or.inl (by decide))).1
    simp [e, hU4]
  · have e : (construct envHeap .dirReader 0 1).2 = 4 := by decide
    simp [e, h0]

/-- the only kind with internal pointers, the xattr writer, is built in the shape its description expects -/
example : ∀ ob, (construct Heap.empty .xattrWriter 0 0).1.objs 0 = some ob → ShapeOk (desc ob.kind) ob := by
  intro ob hob
  have : ob = ⟨.xattrWriter, 1, true, true, [none, none, some 0, none, some 1], [none, none, some 1], []⟩ := by
    have e : (construct Heap.empty .xattrWriter 0 0).1.objs 0 = some ⟨.xattrWriter, 1, true, true, [none, none, some 0, none, some 1], [none, none, some 1], []⟩ := by decide
    rw [e] at hob; exact (Option.some.inj hob).symm
  subst this
  refine ⟨by decide, by decide, ?_⟩
  decide

/-- … and copying that reader, then releasing original and copy in either order, is covered -/
example : ∃ h' c, sqfsCopyTop desc (construct envHeap .dirReader 0 1).1 4 = (h', some c) ∧ c = 7 := by
  exact ⟨_, _, rfl, by decide⟩

example : idRun (idCopy ⟨128, [5, 7]⟩) [.add 7, .add 9, .get 2] = [(0, 1), (0, 2), (0, 9)] := by decide

/-! ### strengthened clauses (follow-up to the independent review) -/

/-- `copy_fail_restores`: when `sqfs_copy` returns NULL — whichever allocation failed, in the hook or in a nested
`sqfs_copy` — the heap is **exactly** the heap there was before the call: every object with its reference count and its
slots (the original, everything it references, the shared file and compressor), every buffer with its contents; nothing
of the half-built copy is left. -/
theorem copy_fail_restores (h : Heap) (U : Nat → Nat) (o k : Nat) (hb : Balanced h U) (hl : (h.objs o).isSome)
    (hn : (sqfsCopyTop desc { h with budget := some k } o).2 = none) :
    (sqfsCopyTop desc { h with budget := some k } o).1.crash = none ∧
    (sqfsCopyTop desc { h with budget := some k } o).1.objs = h.objs ∧
    (sqfsCopyTop desc { h with budget := some k } o).1.bufs = h.bufs := by
  obtain ⟨hc, hm⟩ := copy_fail_safe h U o k hb hl
  rw [hn] at hm
  have hf : Frame h (sqfsCopyTop desc { h with budget := some k } o).1 :=
    (Frame.sqfsCopy desc h.nobj { h with budget := some k } o).ofBudget
  obtain ⟨e1, e2⟩ := restore_of_frame hb hm hf
  exact ⟨hc, e1, e2⟩

example : (sqfsCopyTop desc { exH with budget := some 2 } 4).1.objs = exH.objs ∧
    (sqfsCopyTop desc { exH with budget := some 2 } 4).1.bufs = exH.bufs := by
  obtain ⟨U, hb, _⟩ := exH_balanced
  exact (copy_fail_restores exH U 4 2 hb (by decide) (by decide)).2

/-- `ops_release_safe`: **any history that mixes operations, grabs and releases** — operations that store through own
pointers, replace own buffers by fresh ones (realloc, cache replacement, first fill) or give them back, on any objects
the user holds at that moment (original and copy among them), interleaved in any order with `sqfs_grab` and `sqfs_drop`
— never calls a NULL hook, never touches freed memory, never frees twice, and leaves the heap balanced for exactly the
references the user still holds. -/
theorem ops_release_safe (h : Heap) (U : Nat → Nat) (es : List Ev) (hb : Balanced h U) (ha : Admissible U es) :
    (runEvs h es).crash = none ∧ Balanced (runEvs h es) (userAfter U es) :=
  have := runEvs_bal es hb ha
  ⟨this.ok, this⟩

/-- instance: the reader's cache buffer is filled, replaced and given back, the reader grabbed and released twice (the second
release destroys it and its two meta readers) -/
def exEvs : List Ev :=
  [.op 4 (.realloc 0 ⟨8, 8, 1⟩), .grab 4, .op 4 (.realloc 0 ⟨16, 9, 2⟩), .drop 4, .op 4 (.store 0 5), .op 4 (.release 0), .drop 4]
example : (runEvs exH exEvs).crash = none := by
  obtain ⟨U, hb, _, _, h4, _⟩ := exH_balanced
  exact (ops_release_safe exH U exEvs hb (by simp [exEvs, Admissible, Ev.user, Ev.target, h4])).1

/-- `copy_independent_mixed`: whatever the user does with *other* objects — operations that store, reallocate or free
their buffers, grabs, releases down to their destruction — an object `y` it keeps holding is still there with the same
slots and observes through every slot and internal pointer exactly what it observed before.  With `copy_balanced` (x =
the copy, y = the original, or the other way round) this is "operations on one never affect the other", including the
other's release. -/
theorem copy_independent_mixed (h : Heap) (U : Nat → Nat) (es : List Ev) (y : Nat) (oy : Obj)
    (hb : Balanced h U) (ha : Admissible U es) (hne : ∀ e ∈ es, e.target ≠ y) (hu : 1 ≤ U y) (hy : h.objs y = some oy) :
    view (runEvs h es) y = view h y ∧
    ∃ oy', (runEvs h es).objs y = some oy' ∧ oy'.bufs = oy.bufs ∧ oy'.views = oy.views ∧ oy'.refs = oy.refs := by
  obtain ⟨hk, _⟩ := runEvs_keeps es hb ha hne hu hy
  refine ⟨view_of_keeps hb hy hk, ?_⟩
  obtain ⟨oy', h1, h2, _⟩ := hk
  exact ⟨oy', h1, (congrArg Obj.bufs h2 : oy'.erase.bufs = oy.erase.bufs), (congrArg Obj.views h2 : oy'.erase.views = oy.erase.views),
    (congrArg Obj.refs h2 : oy'.erase.refs = oy.erase.refs)⟩

/-- `copy_independent_interleaved` — **arbitrary interleavings of operations, grabs and releases on both objects** (neither side
passive), stepwise: in any admissible history, at every position, an event that is not aimed at `y` — while the user holds `y` —
leaves `y` with the slots it has *at that moment* and observing what it observes *at that moment*, whatever was done to `y` itself
before and whatever is done to it afterwards.  So what `y` observes changes only at `y`'s own events.  (`copy_independent_projection`
below is the end-to-end form.) -/
theorem copy_independent_interleaved (h : Heap) (U : Nat → Nat) (pre post : List Ev) (e : Ev) (y : Nat)
    (hb : Balanced h U) (ha : Admissible U (pre ++ e :: post)) (hne : e.target ≠ y) (hu : 1 ≤ userAfter U pre y) :
    view (runEvs h (pre ++ [e])) y = view (runEvs h pre) y ∧
    ∃ oy oy', (runEvs h pre).objs y = some oy ∧ (runEvs h (pre ++ [e])).objs y = some oy' ∧
      oy'.bufs = oy.bufs ∧ oy'.views = oy.views ∧ oy'.refs = oy.refs := by
  have hsplit : ∀ (l : List Ev) (V : Nat → Nat) (r : List Ev), Admissible V (l ++ r) → Admissible V l ∧ Admissible (userAfter V l) r := by
    intro l
    induction l with
    | nil => intro V r h; exact ⟨trivial, h⟩
    | cons a l ih =>
      intro V r h
      obtain ⟨h1, h2⟩ := h
      obtain ⟨h3, h4⟩ := ih (a.user V) r h2
      exact ⟨⟨h1, h3⟩, h4⟩
  obtain ⟨hpre, hrest⟩ := hsplit pre U (e :: post) ha
  have hbp := runEvs_bal pre hb hpre
  obtain ⟨hl, _⟩ := hbp.user_live hu
  obtain ⟨oy, hoy⟩ := Option.isSome_iff_exists.mp hl
  have hk := Ev.apply_keeps hbp e hrest.1 hoy hne hu
  have hrun : runEvs h (pre ++ [e]) = e.apply (runEvs h pre) := by simp [runEvs, List.foldl_append]
  rw [hrun]
  refine ⟨view_of_keeps hbp hoy hk, ?_⟩
  obtain ⟨oy', h1, h2, _⟩ := hk
  exact ⟨oy, oy', hoy, h1, (congrArg Obj.bufs h2 : oy'.erase.bufs = oy.erase.bufs), (congrArg Obj.views h2 : oy'.erase.views = oy.erase.views),
    (congrArg Obj.refs h2 : oy'.erase.refs = oy.erase.refs)⟩

/-- instance: in `exEvs` the file (object 0) is grabbed in the middle of the reader's history; the reader's next reallocation leaves
what the file observes at that moment unchanged, and the file's own later release is part of the same history -/
example : view (runEvs exH ([.op 4 (.realloc 0 ⟨8, 8, 1⟩), .grab 0] ++ [.op 4 (.realloc 0 ⟨16, 9, 2⟩)])) 0 =
    view (runEvs exH [.op 4 (.realloc 0 ⟨8, 8, 1⟩), .grab 0]) 0 := by
  obtain ⟨U, hb, h0, _, h4, _⟩ := exH_balanced
  exact (copy_independent_interleaved exH U [.op 4 (.realloc 0 ⟨8, 8, 1⟩), .grab 0] [.drop 0, .drop 4] (.op 4 (.realloc 0 ⟨16, 9, 2⟩)) 0 hb
    (by simp [Admissible, Ev.user, Ev.target, h4, h0]) (by decide) (by simp [userAfter, Ev.user, h0])).1

/-- `copy_independent_projection` — **"operations on one never affect the other", for every interleaving, end to end**: in any
admissible history of operations (stores through own pointers, reallocations and releases of own buffers), grabs and releases on any
objects — original and copy among them, in any order, both being operated on — an object `y` that the user holds throughout observes
at the end **exactly what it observes after its own events alone**: the events aimed at other objects (including their destruction)
can be deleted from the history without changing anything `y` can see.  With `copy_balanced` (`y` = the copy, the rest of the history
on the original, or the other way round) this is the independence clause of the property at full strength.
Proof (`Sqfs.Proofs.C19Proj`): the two runs take buffer ids from different counters, so `y`'s part of the two heaps agrees up to a
renaming of buffer ids (`Iso`); `writeSlot` / `reallocSlot` / `releaseSlot` on `y`, `sqfs_grab` and non-final `sqfs_drop` commute with
such renamings, foreign events preserve `y`'s part (`Ev.apply_keeps`), renamed objects observe the same (`view_iso`).
`Holds y U es`: the user holds a reference to `y` before and after every event (otherwise a foreign release could decide whether
`y`'s own last release destroys it). -/
theorem copy_independent_projection (h : Heap) (U : Nat → Nat) (es : List Ev) (y : Nat)
    (hb : Balanced h U) (ha : Admissible U es) (hh : Holds y U es) :
    view (runEvs h es) y = view (runEvs h (es.filter (fun e => e.target = y))) y := by
  obtain ⟨hl, _⟩ := hb.user_live hh.head
  obtain ⟨oy, hoy⟩ := Option.isSome_iff_exists.mp hl
  obtain ⟨hi, hbf⟩ := runEvs_iso y es hb hb rfl (Iso.refl hoy) ha hh
  exact (view_iso hbf hi).symm

/-- instance: on `exH` the reader (object 4) and the file (object 0) are both operated on, grabbed and released in turn; what the
reader observes at the end is what it observes after its own four events; and the two runs really differ (the full run has allocated
and written more) -/
example : view (runEvs exH [.op 4 (.realloc 0 ⟨8, 8, 1⟩), .grab 0, .op 0 (.store 0 7), .op 4 (.realloc 0 ⟨16, 9, 2⟩), .drop 0, .grab 4, .op 4 (.store 0 5)]) 4 =
    view (runEvs exH [.op 4 (.realloc 0 ⟨8, 8, 1⟩), .op 4 (.realloc 0 ⟨16, 9, 2⟩), .grab 4, .op 4 (.store 0 5)]) 4 := by
  obtain ⟨U, hb, h0, _, h4, _⟩ := exH_balanced
  exact copy_independent_projection exH U [.op 4 (.realloc 0 ⟨8, 8, 1⟩), .grab 0, .op 0 (.store 0 7), .op 4 (.realloc 0 ⟨16, 9, 2⟩), .drop 0, .grab 4, .op 4 (.store 0 5)] 4 hb
    (by simp [Admissible, Ev.user, Ev.target, h4, h0]) (by simp [Holds, Ev.user, h4])

/-- instance: through all of `exEvs` (which ends with the destruction of the reader) the user's file keeps its slots and is
observed as before -/
example : view (runEvs exH exEvs) 0 = view exH 0 := by
  obtain ⟨U, hb, h0, _, h4, _⟩ := exH_balanced
  exact (copy_independent_mixed exH U exEvs 0 _ hb (by simp [exEvs, Admissible, Ev.user, Ev.target, h4]) (by decide) (by omega)
    (Option.some_get (by decide)).symm).1

open Sqfs.C19R in
/-- `copy_equiv_dataReader`: a data reader in any state the library can reach (created over any image `f` with any
bounded decompressor, fragment table `tbl`, any history of reads, failed ones included), copied by `data_reader_copy`
(`drCopy`: the tags and sizes, the fragment table, and of each cached block only the first `*_blk_size` bytes, into a
zero-filled `block_size` buffer), answers **every** later sequence of reads exactly as the original: same status, same
bytes.  The proof is `drCopy d = d`, which holds because every reachable state keeps `get_block`'s padding invariant. -/
theorem copy_equiv_dataReader (kw : Bool) (f : MetaReader.File) (unc : MetaReader.Codec) (hc : CodecBounded unc)
    (bs : Nat) (tbl : List (Nat × Nat)) (hist ops : List DataReader.Op) :
    drAnswers kw f unc (drCopy (DataReader.run kw f unc (DataReader.fresh bs tbl) hist)) ops =
      drAnswers kw f unc (DataReader.run kw f unc (DataReader.fresh bs tbl) hist) ops := by
  rw [drCopy_eq (cacheInv_run hc hist _ (cacheInv_fresh bs tbl))]

open Sqfs.C19R in
/-- instance: a reader whose history cached a 6-byte block in a buffer of 8; two later reads -/
example := copy_equiv_dataReader true ⟨10, fun i => UInt8.ofNat (i + 1), fun _ => false⟩ Sqfs.MetaReader.toyUnc toyUnc_bounded 8 []
  [.read ⟨6, 2, 0, 0, [16777222]⟩ 0 6] [.read ⟨6, 2, 0, 0, [16777222]⟩ 2 3, .read ⟨6, 2, 0, 0, [16777222]⟩ 0 6]

open Sqfs.C19R in
/-- `copy_equiv_dataReaderX`: the same for histories and later calls over **every entry point of `data_reader.c` that touches the
caches** (C10's `OpX`): `sqfs_data_reader_read`, `sqfs_data_reader_get_fragment`, `get_buffered_data` / `advance_buffer` of
streams created over the reader, and `sqfs_data_reader_load_fragment_table` (which drops the cached fragment block) — the copy
hands back to every later call of any of them exactly what the original would: status, bytes, stream contents. -/
theorem copy_equiv_dataReaderX (kw sfix : Bool) (f : MetaReader.File) (unc : MetaReader.Codec) (hc : CodecBounded unc)
    (bs : Nat) (tbl : List (Nat × Nat)) (hist ops : List DataReader.OpX) :
    drAnswersX kw sfix f unc (drCopy (DataReader.runX kw sfix f unc (DataReader.fresh bs tbl) hist)) ops =
      drAnswersX kw sfix f unc (DataReader.runX kw sfix f unc (DataReader.fresh bs tbl) hist) ops := by
  rw [drCopy_eq (cacheInv_runX hc hist _ (cacheInv_fresh bs tbl))]

open Sqfs.C19R in
/-- instance: a history with a read, a fragment access and a reload of the fragment table; then a fragment access and a read -/
example := copy_equiv_dataReaderX true true ⟨10, fun i => UInt8.ofNat (i + 1), fun _ => false⟩ Sqfs.MetaReader.toyUnc toyUnc_bounded 8 [(0, 16777220)]
  [.read ⟨6, 2, 0, 0, [16777222]⟩ 0 6, .frag ⟨3, 0, 0, 0, []⟩, .reload (.ok [(0, 16777220)])] [.frag ⟨3, 0, 0, 1, []⟩, .read ⟨6, 2, 0, 0, [16777222]⟩ 2 3]

open Sqfs.C19R in
/-- `copy_equiv_metaReader` — **definition-level** (`rfl`): the model `mrCopy` of `meta_reader_copy` copies every field (cursor,
cache tag, the whole inline block), i.e. it is the identity on the model's state, so "the copy answers every later sequence of
seeks, reads and position queries as the original" holds by construction and proves nothing about the C hook.  The content is
in the tie: `mrCopy` applied to the real original's dumped state is compared with the real copy's dumped state on every run.
Kept as the named place of the clause; not to be counted as a proof of equivalence. -/
theorem copy_equiv_metaReader (fix : Bool) (f : MetaReader.File) (unc : MetaReader.Codec) (m : MetaReader.MR)
    (ops : List MetaReader.Op) : mrAnswers fix f unc (mrCopy m) ops = mrAnswers fix f unc m ops := rfl

/-- `table_fill_is_adds`: the one-step set-up `fill n` of the table scenarios leaves the table that `n` calls of
`sqfs_id_table_id_to_index` leave (so the boundary `used >= 0xFFFF` is reached by a real history) -/
theorem table_fill_is_adds (n : Nat) (hn : n ≤ idLimit) : idAdds Arr.empty (List.range n) = idFill n := idFill_eq_adds n hn

example := table_fill_is_adds 300 (by decide)

/-! ### the generic containers under the hooks: `rbtree_copy`, `array_init_copy`, `str_table_copy` -/

open Sqfs.Rb in
/-- `rbtree_copy_equiv`: `rbtree_copy` (`copy_node`: fresh `calloc`ed node, `memcpy` of `sizeof(*n) + key_size_padded +
value_size` bytes, children copied recursively) of any tree whose nodes have the layout `mknode` gives them
(`value_offset = key_size_padded`, `key_size_padded + value_size` bytes of `data[]`), for every key and value size, every
tree shape and colouring, wherever the nodes live:
* succeeds and builds, in **fresh** node memory only (`[st.next, st'.next)`), a tree that is node for node, colour for
  colour, byte for byte the original (`Shape … root' t` — the same tree value `t`: key bytes, padding, every value byte);
* leaves every node of the original as it was;
* so `rbtree_lookup` of **every** key under every comparison function finds in the copy a node with the same
  `value_offset` and the same `data[]` as in the original — in particular the same `value_size` value bytes;
* afterwards the two are independent: whatever is later written to any node that existed before the copy (inserts into the
  original, rotations, recolouring, its destruction) and whatever is allocated later, the copy still represents `t` and
  answers every lookup as before; and whatever is written to the copy's nodes, the original still represents `t`. -/
theorem rbtree_copy_equiv (c : Cfg) (st : Store) (root : Option Nat) (t : Tree) (fuel : Nat)
    (hwf : WfTree c t) (hs : Shape st.cells 0 st.next root t) (hf : t.depth ≤ fuel) :
    ∃ st' root', rbCopy c fuel st root = some (st', root') ∧ st.next ≤ st'.next ∧
      Shape st'.cells st.next st'.next root' t ∧
      (∀ i, i < st.next → st'.cells i = st.cells i) ∧
      (∀ cmp key, lookupSt cmp st'.cells fuel root' key = lookupSt cmp st.cells fuel root key ∧
        (lookupSt cmp st'.cells fuel root' key).map (valueOf c) = (lookupSt cmp st.cells fuel root key).map (valueOf c)) ∧
      (∀ cells'' : Nat → Option Cell, (∀ i, st.next ≤ i → i < st'.next → cells'' i = st'.cells i) →
        Shape cells'' st.next st'.next root' t ∧ ∀ cmp key, lookupSt cmp cells'' fuel root' key = t.lookup cmp key) ∧
      (∀ cells'' : Nat → Option Cell, (∀ i, i < st.next → cells'' i = st.cells i) →
        Shape cells'' 0 st.next root t ∧ ∀ cmp key, lookupSt cmp cells'' fuel root key = t.lookup cmp key) := by
  have hmap := mapData_wf c t hwf
  have core : ∃ st' root', rbCopy c fuel st root = some (st', root') ∧ st.next ≤ st'.next ∧
      Shape st'.cells st.next st'.next root' t ∧ (∀ i, i < st.next → st'.cells i = st.cells i) := by
    cases root with
    | none =>
      rw [Shape.none_inv hs]
      exact ⟨st, none, rfl, Nat.le_refl _, .nil, fun _ _ => rfl⟩
    | some a =>
      obtain ⟨st', out, he, _, hlt, hfr, hsh⟩ := copyNode_spec c fuel st a t hs hf
      rw [hmap] at hsh
      exact ⟨st', some out, by simp [rbCopy, copyChild, he], Nat.le_of_lt hlt, hsh, hfr⟩
  obtain ⟨st', root', he, hle, hsh, hfr⟩ := core
  refine ⟨st', root', he, hle, hsh, hfr, ?_, ?_, ?_⟩
  · intro cmp key
    have h1 := lookupSt_shape cmp key fuel hsh hf
    have h2 := lookupSt_shape cmp key fuel hs hf
    exact ⟨by rw [h1, h2], by rw [h1, h2]⟩
  · intro cells'' hag
    have hsh' := hsh.congr hag
    exact ⟨hsh', fun cmp key => lookupSt_shape cmp key fuel hsh' hf⟩
  · intro cells'' hag
    have hs' := hs.congr (fun i _ hi => hag i hi)
    exact ⟨hs', fun cmp key => lookupSt_shape cmp key fuel hs' hf⟩

open Sqfs.Rb in
/-- `rbtree_built_wellformed`: the hypothesis of `rbtree_copy_equiv` holds of every tree the library can build — any
sequence of `rbtree_insert`s into a tree made by `rbtree_init` (any key size, value size, comparison function), and such a
tree has a representation in node memory (so the theorem is about all of them) -/
theorem rbtree_built_wellformed (ks vs : Nat) (c : Cfg) (_hc : init ks vs = some c) (lt : List UInt8 → List UInt8 → Bool)
    (kvs : List (List UInt8 × List UInt8)) (st : Store) :
    WfTree c (build c lt kvs) ∧ c.keySize ≤ c.keyPad ∧ c.keyPad % ptrSize = 0 ∧
    Shape (writeTree st (build c lt kvs)).1.cells 0 (writeTree st (build c lt kvs)).1.next (writeTree st (build c lt kvs)).2 (build c lt kvs) := by
  obtain ⟨h1, _, h3⟩ := init_some ks vs c _hc
  refine ⟨build_wf c lt kvs, by rw [h1, h3]; exact padOf_ge ks, by rw [h3]; exact padOf_aligned ks, ?_⟩
  exact ((writeTree_spec (build c lt kvs) st).2.2).mono (Nat.zero_le _) (Nat.le_refl _)

open Sqfs.Rb in
/-- instance: the directory cache layout with three cached inodes; the built tree is well-formed and laid out in node memory,
and both copy theorems apply to it with their hypotheses discharged by `rbtree_built_wellformed` -/
example : ∃ st' root', rbCopy ⟨4, 8, 8⟩ 5 (writeTree Store.empty (build ⟨4, 8, 8⟩ (fun a b => dcCmp a b == .lt)
      [(leBytes 4 5, leBytes 8 0x571f80d44), (leBytes 4 7, leBytes 8 0x123456789abc), (leBytes 4 2, leBytes 8 0x60)])).1
      (writeTree Store.empty (build ⟨4, 8, 8⟩ (fun a b => dcCmp a b == .lt)
      [(leBytes 4 5, leBytes 8 0x571f80d44), (leBytes 4 7, leBytes 8 0x123456789abc), (leBytes 4 2, leBytes 8 0x60)])).2 = some (st', root') := by
  obtain ⟨hwf, _, _, hs⟩ := rbtree_built_wellformed 4 8 ⟨4, 8, 8⟩ (by decide) (fun a b => dcCmp a b == .lt)
    [(leBytes 4 5, leBytes 8 0x571f80d44), (leBytes 4 7, leBytes 8 0x123456789abc), (leBytes 4 2, leBytes 8 0x60)] Store.empty
  obtain ⟨st', root', he, _⟩ := rbtree_copy_equiv ⟨4, 8, 8⟩ _ _ _ 5 hwf hs (by decide)
  exact ⟨st', root', he⟩

open Sqfs.Rb in
/-- `copy_equiv_dirCache`: the directory reader's inode-number → reference cache (`rbtree_init(4, 8, dcache_key_compare)`)
copied by `dir_reader_copy` → `rbtree_copy`: `sqfs_dir_reader_resolve_inum` answers for **every** inode number on the copy
what it answers on the original — the full 64 bit reference or `SQFS_ERROR_NO_ENTRY` — whatever directory inodes the
history loaded before the copy. -/
theorem copy_equiv_dirCache (c : Cfg) (hc : init 4 8 = some c) (st : Store) (root : Option Nat) (t : Tree) (fuel : Nat)
    (hwf : WfTree c t) (hs : Shape st.cells 0 st.next root t) (hf : t.depth ≤ fuel) :
    ∃ st' root', rbCopy c fuel st root = some (st', root') ∧
      ∀ inum, dcResolve c st'.cells fuel root' inum = dcResolve c st.cells fuel root inum := by
  have _ := hc
  obtain ⟨st', root', he, _, _, _, hl, _, _⟩ := rbtree_copy_equiv c st root t fuel hwf hs hf
  exact ⟨st', root', he, fun inum => by unfold dcResolve; rw [(hl dcCmp (leBytes 4 inum)).1]⟩

open Sqfs.Rb in
example : ∃ st' root', rbCopy ⟨4, 8, 8⟩ 5 (writeTree Store.empty (build ⟨4, 8, 8⟩ (fun a b => dcCmp a b == .lt)
      [(leBytes 4 5, leBytes 8 0x571f80d44), (leBytes 4 7, leBytes 8 0x123456789abc)])).1
      (writeTree Store.empty (build ⟨4, 8, 8⟩ (fun a b => dcCmp a b == .lt)
      [(leBytes 4 5, leBytes 8 0x571f80d44), (leBytes 4 7, leBytes 8 0x123456789abc)])).2 = some (st', root') ∧
    ∀ inum, dcResolve ⟨4, 8, 8⟩ st'.cells 5 root' inum = dcResolve ⟨4, 8, 8⟩ (writeTree Store.empty (build ⟨4, 8, 8⟩ (fun a b => dcCmp a b == .lt)
      [(leBytes 4 5, leBytes 8 0x571f80d44), (leBytes 4 7, leBytes 8 0x123456789abc)])).1.cells 5
      (writeTree Store.empty (build ⟨4, 8, 8⟩ (fun a b => dcCmp a b == .lt)
      [(leBytes 4 5, leBytes 8 0x571f80d44), (leBytes 4 7, leBytes 8 0x123456789abc)])).2 inum := by
  obtain ⟨hwf, _, _, hs⟩ := rbtree_built_wellformed 4 8 ⟨4, 8, 8⟩ (by decide) (fun a b => dcCmp a b == .lt)
    [(leBytes 4 5, leBytes 8 0x571f80d44), (leBytes 4 7, leBytes 8 0x123456789abc)] Store.empty
  exact copy_equiv_dirCache ⟨4, 8, 8⟩ (by decide) _ _ _ 5 hwf hs (by decide)

open Sqfs.Rb in
/-- `rbtree_pool_copy_independent` — **/repo's default configuration** (`NO_CUSTOM_ALLOC` not defined: nodes come from a pool
allocator, one `mem_pool_t` per tree, `rbtree_cleanup` = `mem_pool_destroy` = `munmap` of the pool's blocks; model
`Sqfs.Model.C19Pool`).  For every tree with `mknode`'s layout, wherever its nodes live and whatever pools exist:
`rbtree_copy` creates a **fresh pool** (`pool' = nextPool`, different from every existing one), on node memory does exactly
what it does in the `calloc` configuration (so everything `rbtree_copy_equiv` says holds: the copy is byte for byte the same
tree value in fresh nodes), **every node of the copy is owned by the copy's pool**, no existing node changes owner or content;
hence
* releasing **any other tree** — the original among them — (`rbtree_cleanup` of a pool `p ≠ pool'`) leaves the copy fully
  usable: it still represents `t` and answers every lookup under every comparison function as `t` does;
* releasing the copy leaves the original usable in the same sense, unmaps every node of the copy and removes exactly the
  copy's pool from the set of live pools (nothing of the copy leaks).
The seeded change "allocate the copy's nodes from the original's pool" (`rbtree.c:128 nt->pool → t->pool`) falsifies the
ownership conjunct; it is what makes the first bullet true. -/
theorem rbtree_pool_copy_independent (c : Cfg) (ps : PStore) (root : Option Nat) (t : Tree) (fuel : Nat)
    (hwf : WfTree c t) (hs : Shape ps.st.cells 0 ps.st.next root t) (hf : t.depth ≤ fuel)
    (hpools : ∀ i, i < ps.st.next → ps.owner i < ps.nextPool) (hlive : ∀ p ∈ ps.live, p < ps.nextPool) :
    ∃ ps' root' pool', rbCopyP c fuel ps root = some (ps', root', pool') ∧ pool' = ps.nextPool ∧
      ps'.live = pool' :: ps.live ∧
      rbCopy c fuel ps.st root = some (ps'.st, root') ∧
      Shape ps'.st.cells ps.st.next ps'.st.next root' t ∧
      (∀ i, ps.st.next ≤ i → i < ps'.st.next → ps'.owner i = pool') ∧
      (∀ i, i < ps.st.next → ps'.owner i = ps.owner i ∧ ps'.st.cells i = ps.st.cells i) ∧
      (∀ p, p ≠ pool' → Shape (rbCleanupP ps' p).st.cells ps.st.next ps'.st.next root' t ∧
        ∀ cmp key, lookupSt cmp (rbCleanupP ps' p).st.cells fuel root' key = t.lookup cmp key) ∧
      (Shape (rbCleanupP ps' pool').st.cells 0 ps.st.next root t ∧
        (∀ cmp key, lookupSt cmp (rbCleanupP ps' pool').st.cells fuel root key = t.lookup cmp key) ∧
        (rbCleanupP ps' pool').live = ps.live ∧
        ∀ i, ps.st.next ≤ i → i < ps'.st.next → (rbCleanupP ps' pool').st.cells i = none) := by
  obtain ⟨st', root', he, _, hsh, hfr, _, hcopy, horig⟩ := rbtree_copy_equiv c ps.st root t fuel hwf hs hf
  have he' : copyChild (copyNode c fuel) ps.createPool.1.st root = some (st', root') := he
  have hst := copyChildP_st (copyNodeP c ps.createPool.2 fuel) (copyNode c fuel) (copyNodeP_st c ps.createPool.2 fuel) ps.createPool.1 root
  rw [he'] at hst
  cases hP : copyChildP (copyNodeP c ps.createPool.2 fuel) ps.createPool.1 root with
  | none => rw [hP] at hst; simp only [Option.map_none] at hst; cases hst
  | some r =>
    obtain ⟨ps', rootP⟩ := r
    rw [hP] at hst
    simp only [Option.map_some, Option.some.injEq, Prod.mk.injEq] at hst
    obtain ⟨e1, e2⟩ := hst
    subst e1 e2
    have ow := copyChildP_owner ps.createPool.2 _ (copyNodeP_owner c ps.createPool.2 fuel) ps.createPool.1 root ps' rootP hP
    have hnew : ∀ i, ps.st.next ≤ i → i < ps'.st.next → ps'.owner i = ps.nextPool := ow.new
    have hold : ∀ i, i < ps.st.next → ps'.owner i = ps.owner i := ow.old
    have hlv : ps'.live = ps.nextPool :: ps.live := ow.lv
    refine ⟨ps', rootP, ps.nextPool, ?_, rfl, hlv, he, hsh, hnew, fun i hi => ⟨hold i hi, hfr i hi⟩, ?_, ?_⟩
    · simp only [rbCopyP, hP]; rfl
    · intro p hp
      have hag : ∀ i, ps.st.next ≤ i → i < ps'.st.next → (rbCleanupP ps' p).st.cells i = ps'.st.cells i := by
        intro i h1 h2
        show (if ps'.owner i = p then none else ps'.st.cells i) = ps'.st.cells i
        rw [if_neg (by rw [hnew i h1 h2]; exact fun h => hp h.symm)]
      exact hcopy _ hag
    · have hag : ∀ i, i < ps.st.next → (rbCleanupP ps' ps.nextPool).st.cells i = ps.st.cells i := by
        intro i hi
        show (if ps'.owner i = ps.nextPool then none else ps'.st.cells i) = ps.st.cells i
        rw [if_neg (by rw [hold i hi]; exact Nat.ne_of_lt (hpools i hi)), hfr i hi]
      obtain ⟨a, b⟩ := horig _ hag
      refine ⟨a, b, ?_, ?_⟩
      · show (ps'.live.filter (· ≠ ps.nextPool)) = ps.live
        rw [hlv]
        have h1 : (ps.nextPool :: ps.live).filter (· ≠ ps.nextPool) = ps.live.filter (· ≠ ps.nextPool) := by simp
        rw [h1]
        exact List.filter_eq_self.mpr (fun p hp => by simpa using Nat.ne_of_lt (hlive p hp))
      · intro i h1 h2
        show (if ps'.owner i = ps.nextPool then none else ps'.st.cells i) = none
        rw [if_pos (hnew i h1 h2)]

open Sqfs.Rb in
/-- instance: the directory cache with three cached inodes, all nodes in pool 0 (the reader's own); the hypotheses are discharged
by `rbtree_built_wellformed`; after the copy the original is released (`rbtree_cleanup` of pool 0) and the copy still resolves
inode 7 to the full reference -/
example : ∃ ps' root' pool', rbCopyP ⟨4, 8, 8⟩ 5 ⟨(writeTree Store.empty (build ⟨4, 8, 8⟩ (fun a b => dcCmp a b == .lt)
      [(leBytes 4 5, leBytes 8 0x571f80d44), (leBytes 4 7, leBytes 8 0x123456789abc), (leBytes 4 2, leBytes 8 0x60)])).1, fun _ => 0, 1, [0]⟩
      (writeTree Store.empty (build ⟨4, 8, 8⟩ (fun a b => dcCmp a b == .lt)
      [(leBytes 4 5, leBytes 8 0x571f80d44), (leBytes 4 7, leBytes 8 0x123456789abc), (leBytes 4 2, leBytes 8 0x60)])).2 = some (ps', root', pool') ∧
    pool' = 1 ∧ dcResolve ⟨4, 8, 8⟩ (rbCleanupP ps' 0).st.cells 5 root' 7 = some 0x123456789abc := by
  obtain ⟨hwf, _, _, hs⟩ := rbtree_built_wellformed 4 8 ⟨4, 8, 8⟩ (by decide) (fun a b => dcCmp a b == .lt)
    [(leBytes 4 5, leBytes 8 0x571f80d44), (leBytes 4 7, leBytes 8 0x123456789abc), (leBytes 4 2, leBytes 8 0x60)] Store.empty
  obtain ⟨ps', root', pool', he, hp, _, _, _, _, _, hrel, _⟩ := rbtree_pool_copy_independent ⟨4, 8, 8⟩
    ⟨(writeTree Store.empty (build ⟨4, 8, 8⟩ (fun a b => dcCmp a b == .lt)
      [(leBytes 4 5, leBytes 8 0x571f80d44), (leBytes 4 7, leBytes 8 0x123456789abc), (leBytes 4 2, leBytes 8 0x60)])).1, fun _ => 0, 1, [0]⟩
    _ _ 5 hwf hs (by decide) (fun _ _ => Nat.zero_lt_one) (by decide)
  refine ⟨ps', root', pool', he, hp, ?_⟩
  have h0 : (0 : Nat) ≠ pool' := by rw [hp]; decide
  unfold dcResolve
  rw [(hrel 0 h0).2 dcCmp (leBytes 4 7)]
  decide

open Sqfs.C19U in
/-- `array_copy_equiv`: `array_init_copy` (allocates the used part only) of an `array_t` of any element size: every later
sequence of `array_append` / `array_get` / `array_set` / size queries is answered as on the original -/
theorem array_copy_equiv (sz : Nat) (a : ByteArr) (ops : List ArrOp) : arrRun sz a.initCopy ops = arrRun sz a ops :=
  arrRun_data sz ops _ _ rfl

open Sqfs.C19U in
example := array_copy_equiv 2 ⟨128, [[1, 2], [3, 4]]⟩ [.app [5, 6], .get 2, .set 0 [9, 9], .used, .get 0]

open Sqfs.C19U in
/-- `strtable_copy_equiv` — **definition-level**: the model keeps index, bytes and use count of every bucket, which is what
`str_table_copy` duplicates, so `strCopy t = t` (a map of a field-wise identity) and "a copied string table answers every later
sequence of index / string / use-count operations as the original" holds by construction.  The content is in the tie — every
bucket of the real copy is compared with the model's on every run.  Not to be counted as a proof of equivalence. -/
theorem strtable_copy_equiv (t : StrTable) (ops : List StrOp) : strRun (strCopy t) ops = strRun t ops := by
  rw [strCopy_eq]

open Sqfs.C19U in
example := strtable_copy_equiv [⟨[97], 1⟩, ⟨[98, 99], 2⟩] [.index [97], .str 1, .ref 0, .unref 1, .count 1]

/-! non-vacuity of the strengthened clauses -/

/-- a failing allocation exists: the third allocation inside the copy of the directory reader of the example above -/
example : (sqfsCopyTop desc { (construct envHeap .dirReader 0 1).1 with budget := some 2 } 4).2 = none := by decide

/-- an admissible mixed history on that heap: the reader's cache buffer is filled, replaced and given back, the reader
grabbed and released twice (the second release destroys it and its two meta readers) -/
example : ∃ h U, Balanced h U ∧ U 4 = 1 ∧ U 0 = 1 ∧
    Admissible U [.op 4 (.realloc 0 ⟨8, 8, 1⟩), .grab 4, .op 4 (.realloc 0 ⟨16, 9, 2⟩), .drop 4, .op 4 (.store 0 5),
      .op 4 (.release 0), .drop 4] ∧
    (∀ e ∈ [Ev.op 4 (.realloc 0 ⟨8, 8, 1⟩), .grab 4, .op 4 (.realloc 0 ⟨16, 9, 2⟩), .drop 4, .op 4 (.store 0 5),
      .op 4 (.release 0), .drop 4], e.target ≠ 0) := by
  obtain ⟨U, hb, h0, h1⟩ := envHeap_balanced
  have b3 := constructed_balanced .dirReader envHeap U 0 1 hb (by decide) (by decide)
  have e : (construct envHeap .dirReader 0 1).2 = 4 := by decide
  have hU4 : U 4 = 0 := (hb.dead 4 (Or.inl (by decide))).1
  refine ⟨_, _, b3, by simp [e, hU4], by simp [e, h0], ?_, by decide⟩
  simp [Admissible, Ev.user, Ev.target, e, hU4]

/-- … and it really reshapes the heap: after the first three events the reader owns a 16-byte buffer, at the end nothing
of the reader is left while the user's file is untouched -/
example : ((runEvs (construct envHeap .dirReader 0 1).1 [.op 4 (.realloc 0 ⟨8, 8, 1⟩), .grab 4, .op 4 (.realloc 0 ⟨16, 9, 2⟩)]).objs 4).map
    (fun o => (o.rc, o.bufs)) = some (2, [some 4, some 2]) := by decide

open Sqfs.C19R in
/-- the data-reader theorem is about non-trivial states: a reader over a 10-byte file whose history cached a 6-byte
block in a buffer of 8 — the copy hook carries over 6 bytes and pads with zeros -/
example : ∃ d : DataReader.DR, d = DataReader.run true ⟨10, fun i => UInt8.ofNat (i + 1), fun _ => false⟩ MetaReader.toyUnc
      (DataReader.fresh 8 []) [.read ⟨6, 2, 0, 0, [16777222]⟩ 0 6] ∧
    d.dataBlock = some ([3, 4, 5, 6, 7, 8, 0, 0], 6) ∧ drCopy d = d := by
  refine ⟨_, rfl, by decide, by decide⟩

example : Sqfs.C19R.CodecBounded MetaReader.toyUnc := Sqfs.C19R.toyUnc_bounded

/-- the boundary of the id table: with 0xFFFF ids a new id is refused, with 0xFFFE it gets index 0xFFFE -/
example : (idStep (idFill 0xFFFF) (.add 70000)).2 = (Sqfs.Consts.c19ErrOverflow, 0) ∧ (idStep (idFill 0xFFFE) (.add 70000)).2 = (0, 0xFFFE) := by
  have h1 : (idFill 0xFFFF).data.idxOf? 70000 = none := by rw [idFill_data]; simp
  have h2 : (idFill 0xFFFE).data.idxOf? 70000 = none := by rw [idFill_data]; simp
  have l1 : (idFill 0xFFFF).data.length = 0xFFFF := by rw [idFill_data]; simp
  have l2 : (idFill 0xFFFE).data.length = 0xFFFE := by rw [idFill_data]; simp
  constructor
  · simp only [idStep, h1, l1, idLimit]; rfl
  · simp only [idStep, h2, l2, idLimit]; rfl


open Sqfs.Rb in
/-- `rbtree_copy_equiv` is about non-trivial trees: the directory cache layout (4 byte key padded to 8, 8 byte value) with
three cached directory inodes whose references need more than 32 bits; the copy resolves inode 7 to the full reference -/
example : ∃ c t st root, init 4 8 = some c ∧ t = build c (fun a b => dcCmp a b == .lt)
      [(leBytes 4 5, leBytes 8 0x571f80d44), (leBytes 4 7, leBytes 8 0x123456789abc), (leBytes 4 2, leBytes 8 0x60)] ∧
    (st, root) = writeTree Store.empty t ∧ t.depth = 2 ∧ c.keyPad = 8 ∧
    (rbCopy c 5 st root).map (fun r => dcResolve c r.1.cells 5 r.2 7) = some (some 0x123456789abc) := by
  refine ⟨⟨4, 8, 8⟩, _, _, _, by decide, rfl, rfl, by decide, rfl, by decide⟩

end Sqfs.C19
