import Sqfs.Proofs.Obj
import Sqfs.Proofs.ObjKinds
/-!
C19 — copies of library objects are well-formed, equivalent, independent and safely destroyable.

Model: `Sqfs.Model.Obj` (object heap, `sqfs_grab/drop/copy`, per-kind copy-hook descriptions `desc`, which are
the hooks with `fixes/C19-*.patch` applied; the hooks of the pinned tree are `descCurrent`, see
`Sqfs.Witness.C19`) and `Sqfs.Model.ObjKinds` (state machines of the kinds with mutable state).
Every `theorem` below is an obligation.
-/
namespace Sqfs.C19
open Sqfs.Obj Sqfs.Obj.Kinds

/-- A hook description is well-formed when the hook writes the object header, gives the copy its own buffers,
re-derives every internal pointer, holds every reference either by a grab or through a deep copy, and — when it
sizes a fresh buffer by the used part only — belongs to a kind that records that size. -/
def WfDesc (d : CopyDesc) : Prop :=
  d.header ≠ .zeroed ∧ (∀ a ∈ d.bufs, a ≠ .alias) ∧ (∀ v ∈ d.views, v.1 = .repoint) ∧ (∀ r ∈ d.refs, r ≠ .alias) ∧
  (.trim ∈ d.bufs → d.capAware = true) ∧ d.onFail = .unwind

instance (d : CopyDesc) : Decidable (WfDesc d) := by unfold WfDesc; infer_instance

/-- every kind's (repaired) hook description is well-formed -/
theorem desc_wellformed : ∀ k : Kind, WfDesc (desc k) := by
  intro k; cases k <;> decide

/-- `copy_wellformed`: a successful `sqfs_copy` through a hook that writes the header yields an object with
reference count 1 and both hooks set (so it can itself be dropped and copied), of the same kind. -/
theorem copy_wellformed (D : Kind → CopyDesc) (n : Nat) (h h' : Heap) (id c : Nat) (o : Obj)
    (ho : h.objs id = some o) (hd : o.destroy = true)
    (hw : (D o.kind).header ≠ .zeroed)
    (hc : sqfsCopy D n h id = (h', some c)) :
    ∃ co, h'.objs c = some co ∧ co.rc = 1 ∧ co.destroy = true ∧ co.copy = true ∧ co.kind = o.kind := by
  obtain ⟨o', hm, nb, nr, ho', hcp, hf⟩ := sqfsCopy_some D n h h' id c hc
  rw [ho] at ho'; cases ho'
  obtain ⟨_, _, _, _, co, hco, hrc, hk, _, _, hinit, hmem, _, _⟩ := finishCopy_spec _ _ _ _ _ _ _ hf
  refine ⟨co, hco, hrc, ?_, ?_, hk⟩
  · cases hh : (D o.kind).header with
    | init => exact (hinit hh).1
    | memcpy => rw [(hmem hh).1]; exact hd
    | zeroed => exact absurd hh hw
  · cases hh : (D o.kind).header with
    | init => exact (hinit hh).2
    | memcpy => rw [(hmem hh).2]; exact hcp
    | zeroed => exact absurd hh hw

/-- instantiation for every copyable kind (`copy_wellformed_K`): whatever the history, a copy made by the
(repaired) hook of kind `k` has refcount 1, a destroy hook and a copy hook -/
theorem copy_wellformed_all (k : Kind) (n : Nat) (h h' : Heap) (id c : Nat) (o : Obj)
    (ho : h.objs id = some o) (hk : o.kind = k) (hd : o.destroy = true)
    (hc : sqfsCopy desc n h id = (h', some c)) :
    ∃ co, h'.objs c = some co ∧ co.rc = 1 ∧ co.destroy = true ∧ co.copy = true ∧ co.kind = k := by
  have hw : (desc o.kind).header ≠ .zeroed := (desc_wellformed o.kind).1
  obtain ⟨co, h1, h2, h3, h4, h5⟩ := copy_wellformed desc n h h' id c o ho hd hw hc
  exact ⟨co, h1, h2, h3, h4, hk ▸ h5⟩

/-- `copy_equiv_idTable`: a copied id table answers every later operation sequence as the original would
(the copy's capacity differs — `array_init_copy` allocates the used part only). -/
theorem copy_equiv_idTable (t : IdTable) (ops : List IdOp) : idRun (idCopy t) ops = idRun t ops :=
  idRun_data ops _ _ rfl

/-- `copy_equiv_fragTable` -/
theorem copy_equiv_fragTable (t : FragTable) (ops : List FragOp) : fragRun (fragCopy t) ops = fragRun t ops :=
  fragRun_data ops _ _ rfl

/-! non-vacuity -/
example : ∃ h h' c, sqfsCopy desc 3 h 0 = (h', some c) ∧ (h.objs 0).isSome :=
  ⟨(construct Heap.empty .idTable 0 0).1, _, _, rfl, rfl⟩
example : idRun (idCopy ⟨128, [5, 7]⟩) [.add 7, .add 9, .get 2] = [(0, 1), (0, 2), (0, 9)] := by decide

end Sqfs.C19
