/-
C08 — Deduplication never changes data, even when checksums collide.

Property theorems only (helpers: `Sqfs/Proofs/BlockWriter.lean`, `Sqfs/Proofs/FragDedup.lean`).

Block writer.  The checksum is an *argument* of every `write_data_block` call (`Call.chk`), so each theorem
below holds for all checksum values whatsoever — in particular for every checksum *function* `h` applied to
the data, however weak (constant, 2-bit, …).  `cs` ranges over all call sequences that follow the block
processor's protocol (`wf`: each `LAST` is preceded by a `FIRST` since the previous `LAST`) with blocks
shorter than 2^24 bytes (the width of the size field); `pre` is whatever the file held before (the tools:
the provisional super block).  Files may contain sparse and empty blocks, may carry `DONT_DEDUPLICATE`, and
flag-less blocks (fragment blocks) may be written between files.
-/
import Sqfs.Proofs.BlockWriter
import Sqfs.Proofs.BlockWriterSpec
import Sqfs.Proofs.FragDedup
import Sqfs.Proofs.ToyCodec
import Sqfs.Proofs.C08Stream
import Sqfs.Proofs.C08Shift
namespace Sqfs.C08

section BlockWriterPart
open Sqfs.BlockWriter

/-! ### fixture for the instantiating examples

`AB`, `AB'`: two different two-byte blocks that get the *same* size word and the same checksum `7`.
File 1 = `[AB']`, file 2 = `[AB]` (collides with file 1, must not share), file 3 = `[AB]` (must share
with file 2, truncating its own copy), then a file `[AB, AB, AB]` right after an `AB` (overlapping match). -/

def exFirst : Nat := Sqfs.Consts.blkFirstBlock
def exLast : Nat := Sqfs.Consts.blkLastBlock

def exCalls : List Call :=
  [ ⟨7, exFirst ||| exLast, [0x41, 0x43]⟩,
    ⟨7, exFirst ||| exLast, [0x41, 0x42]⟩,
    ⟨7, exFirst ||| exLast, [0x41, 0x42]⟩,
    ⟨7, exFirst, [0x41, 0x42]⟩, ⟨7, 0, [0x41, 0x42]⟩, ⟨7, exLast, [0x41, 0x42]⟩ ]


/-- The block writer never fails and never indexes outside its history (the `Err.internal` exits of the
model — C undefined behaviour — and the out-of-bounds read of `check_file_range_equal` are unreachable):
every range it compares lies inside the file. -/
theorem bw_no_error (pre : Bytes) (cs : List Call) (hsz : sizesOk cs) (hwf : wf false cs = true) :
    ∃ s locs, run (init pre) cs = .ok (s, locs) ∧ locs.length = cs.length := by
  obtain ⟨s, locs, _, _, _, hr, _, hl, _⟩ := run_spec cs (Inv_init pre) hsz hwf
  exact ⟨s, locs, hr, hl⟩

/-- **Read-back.** After any sequence of calls, for every file written so far (every `LAST` call), the bytes
of the current output at `[location, location + Σ sizes)` are the concatenation of the file's stored blocks —
whether the location is the file's own or an older one handed out by `deduplicate_blocks`, and no matter how
many truncations happened since.  Also, the bytes in front of the data area are never touched. -/
theorem bw_readback (pre : Bytes) (cs : List Call) (hsz : sizesOk cs) (hwf : wf false cs = true)
    (s : State) (locs : List Nat) (hrun : run (init pre) cs = .ok (s, locs)) :
    readbackOk s.file (files [] cs) locs = true ∧ s.file.take pre.length = pre := by
  obtain ⟨s', locs', ps, _, _, hr, hinv, hl, _⟩ := run_spec cs (Inv_init pre) hsz hwf
  rw [hrun] at hr
  cases hr
  refine ⟨readback_of_recs _ cs [] locs hl ?_, ?_⟩
  · intro rc hrc
    have := hinv.recs rc (by simpa using hrc)
    have h2 := HoldsIn_slice hinv.abs this
    exact h2
  · rw [hinv.abs.file]; simp

/-- **Read-back of every kept location.** `process_completed_block` keeps the location of every `LAST` call (inode
block start) *and* of every fragment block (fragment table).  For every call sequence obeying `wf`: each `LAST`
location holds the file's stored bytes, and the location returned for each stored call made outside every file
(no `FIRST` since the last `LAST`, itself neither `FIRST` nor `LAST` — where the block processor writes its
fragment blocks) holds that block's bytes, after all later appends and truncations (`claimsOf`, `holdsAll`).
Locations of non-final calls *inside* a file are kept by nobody and may be cut. -/
theorem bw_readback_all (pre : Bytes) (cs : List Call) (hsz : sizesOk cs) (hwf : wf false cs = true)
    (s : State) (locs : List Nat) (hrun : run (init pre) cs = .ok (s, locs)) :
    holdsAll s.file (claimsOf false [] cs) locs = true := by
  obtain ⟨s', locs', ps, _, _, hr, hinv, hl, _⟩ := run_spec cs (Inv_init pre) hsz hwf
  rw [hrun] at hr
  cases hr
  refine holdsAll_of _ cs false [] locs hl ?_ ?_
  · intro rc hrc
    exact HoldsIn_slice hinv.abs (hinv.recs rc (by simpa using hrc))
  · intro r hr
    exact HoldsIn_slice hinv.abs (hinv.loose r (by simpa using hr))

/-- **Fragment blocks are never truncated away.** Under the protocol the block processor follows (`wfS`: `wf`, and a
call flagged `SQFS_BLK_FRAGMENT_BLOCK` never falls between a `FIRST` and its `LAST` and carries neither — proved of
the processor's call stream in `stream_wfS` below), the location returned for every stored fragment block — the
one `sqfs_frag_table_set` records — holds the block's bytes at every later time. -/
theorem bw_fragblocks_kept (pre : Bytes) (cs : List Call) (hsz : sizesOk cs) (hwf : wfS false cs = true)
    (s : State) (locs : List Nat) (hrun : run (init pre) cs = .ok (s, locs)) :
    fragBlocksOk s.file cs locs = true := by
  obtain ⟨s', locs', ps, _, _, hr, hinv, hl, _⟩ := run_spec cs (Inv_init pre) hsz (wfS_wf cs false hwf)
  rw [hrun] at hr
  cases hr
  refine fragBlocksOk_of _ cs false locs hl hwf ?_
  intro r hr
  exact HoldsIn_slice hinv.abs (hinv.loose r (by simpa using hr))

/-- **Sharing is sound.** If two files were given the same location, the shorter one's bytes are a prefix of
the longer one's; in particular two files of equal stored length that share a location are byte-identical.
Equality of sizes and checksums alone never makes one file stand in for another. -/
theorem bw_share_sound (pre : Bytes) (cs : List Call) (hsz : sizesOk cs) (hwf : wf false cs = true)
    (s : State) (locs : List Nat) (hrun : run (init pre) cs = .ok (s, locs))
    (r1 r2 : Rec) (h1 : r1 ∈ recsOf [] cs locs) (h2 : r2 ∈ recsOf [] cs locs) (hloc : r1.loc = r2.loc)
    (hlen : (blkBytes r1.blks).length ≤ (blkBytes r2.blks).length) :
    blkBytes r1.blks = (blkBytes r2.blks).take (blkBytes r1.blks).length := by
  obtain ⟨s', locs', ps, _, _, hr, hinv, _, _⟩ := run_spec cs (Inv_init pre) hsz hwf
  rw [hrun] at hr
  cases hr
  have e1 := HoldsIn_slice hinv.abs (hinv.recs r1 (by simpa using h1))
  have e2 := HoldsIn_slice hinv.abs (hinv.recs r2 (by simpa using h2))
  calc blkBytes r1.blks = slice s.file r1.loc (blkBytes r1.blks).length := e1.symm
    _ = (slice s.file r2.loc (blkBytes r2.blks).length).take (blkBytes r1.blks).length := by
      rw [hloc]; exact slice_prefix _ _ _ _ hlen
    _ = (blkBytes r2.blks).take (blkBytes r1.blks).length := by rw [e2]

/-- instance: in the run of `exCalls`, file 3 (`[AB]`) and the three-block file `[AB, AB, AB]` were both given
location 2; the theorem says the shorter is a prefix of the longer -/
example : ∃ s locs, run (init []) exCalls = .ok (s, locs) ∧
    ([0x41, 0x42] : Bytes) = ([0x41, 0x42, 0x41, 0x42, 0x41, 0x42] : Bytes).take 2 := by
  have hsz : sizesOk exCalls := by unfold sizesOk; decide
  obtain ⟨s, locs, hr, _⟩ := bw_no_error [] exCalls hsz (by decide)
  have hl : (run (init []) exCalls).toOption.map (·.2) = some [0, 2, 2, 4, 6, 2] := by decide
  rw [hr] at hl
  simp only [Except.toOption, Option.map_some, Option.some.injEq] at hl
  subst hl
  exact ⟨s, _, hr, bw_share_sound [] exCalls hsz (by decide) s _ hr
    ⟨2, [⟨mkWord 2 (exFirst ||| exLast), 7, [0x41, 0x42]⟩]⟩
    ⟨2, [⟨mkWord 2 exFirst, 7, [0x41, 0x42]⟩, ⟨mkWord 2 0, 7, [0x41, 0x42]⟩, ⟨mkWord 2 exLast, 7, [0x41, 0x42]⟩]⟩
    (by decide) (by decide) rfl (by decide)⟩

/-- **Sharing is complete.** Unless `DONT_DEDUPLICATE` is given, a non-empty file whose stored blocks have the
same size words, checksums and bytes as an earlier file's is given a location at or before that earlier
file's location (`deduplicate_blocks` returns the *first* run whose words and bytes match, and every earlier
file's run is still in the history): identical files share storage whatever the checksum function is. -/
theorem bw_share_complete (pre : Bytes) (cs : List Call) (hsz : sizesOk cs) (hwf : wf false cs = true)
    (s : State) (locs : List Nat) (hrun : run (init pre) cs = .ok (s, locs)) :
    shareCompleteOk [] [] cs locs = true := by
  obtain ⟨s', locs', _, _, _, hr, _, _, hc⟩ := run_spec cs (Inv_init pre) hsz hwf
  rw [hrun] at hr
  cases hr
  exact hc

/-- **Refinement.** For every checksum function `h` (the checksum of a stored block is `h` of its bytes, as
`process_block` computes it) and *every* call sequence — no protocol assumption — the block writer returns
exactly the locations of the checksum-free specification `specRun` (smallest earlier run with equal size words
and equal bytes; history cut to `max (r + count) file_start`) and produces exactly its file. -/
theorem bw_refines_spec (h : Bytes → UInt32) (pre : Bytes) (cs : List (Nat × Bytes))
    (hsz : ∀ c ∈ cs, c.2.length < 2 ^ 24) :
    ∃ s, run (init pre) (withChk h cs) = .ok (s, (specRun ⟨pre, [], 0⟩ cs).2) ∧
      s.file = (specRun ⟨pre, [], 0⟩ cs).1.file := by
  obtain ⟨s, ps, hr, href⟩ := run_refines h cs (init pre) ⟨pre, [], 0⟩ [] (Ref_init h pre) hsz
  exact ⟨s, hr, href.file⟩

/-- **The checksum is only an accelerator.** Two writers that differ in nothing but the checksum function — the
real `xxh32`, a 2-bit truncation of it, a constant — hand out the same locations and produce the same bytes. -/
theorem bw_checksum_irrelevant (h1 h2 : Bytes → UInt32) (pre : Bytes) (cs : List (Nat × Bytes))
    (hsz : ∀ c ∈ cs, c.2.length < 2 ^ 24) :
    ∃ s1 s2 locs, run (init pre) (withChk h1 cs) = .ok (s1, locs) ∧ run (init pre) (withChk h2 cs) = .ok (s2, locs) ∧
      s1.file = s2.file := by
  obtain ⟨s1, hr1, hf1⟩ := bw_refines_spec h1 pre cs hsz
  obtain ⟨s2, hr2, hf2⟩ := bw_refines_spec h2 pre cs hsz
  exact ⟨s1, s2, _, hr1, hr2, by rw [hf1, hf2]⟩

/-- **Translation invariance.** Putting `pad` in front of what the file holds moves the whole run `|pad|` bytes up and
changes nothing else: same success or error, every returned location is the old one plus `|pad|` — except the literal `0`
a `LAST` call returns for a file that stored nothing (`*out = 0` in C) —, the file is `pad` followed by the old file,
the history is the old one with shifted offsets.  For **every** call sequence and checksum (no protocol assumption).
This is what lets the correspondence check drive the real writer at file offsets around 4 GiB (a harness file that
pretends to have 2^32 − k zero bytes in front) and compare with the model run at offset 0. -/
theorem bw_translate (pad pre : Bytes) (cs : List Call) :
    run (init (pad ++ pre)) cs =
      (match run (init pre) cs with
       | .error e => .error e
       | .ok (s0, locs0) => .ok (shiftState pad s0, shiftLocs pad.length (emptiesOf (init pre) cs) locs0)) := by
  rw [init_shift]; exact run_shift pad cs (init pre)

/-! ### the hypotheses are satisfiable, the conclusions are not trivial

(`exCalls`, defined at the head of this section.) -/

example : wf false exCalls = true := by decide
example : sizesOk exCalls := by unfold sizesOk; decide

/-- colliding file 2 keeps its own location 2; identical file 3 is given location 2 and its copy is cut; the
three-block file after it matches at file 2's block and overlaps its own first two blocks (location 2, two
more blocks kept, the third cut). -/
example : (run (init []) exCalls).toOption.map (fun r => (r.2, r.1.file)) =
    some ([0, 2, 2, 4, 6, 2], [0x41, 0x43, 0x41, 0x42, 0x41, 0x42, 0x41, 0x42]) := by decide

/-- the same run through the specification (no checksums) -/
example : (specRun ⟨[], [], 0⟩ (exCalls.map (fun c => (c.flags, c.data)))).2 = [0, 2, 2, 4, 6, 2] := by decide

/-- `bw_translate` on the example: three bytes in front move every location by 3 -/
example : (run (init [9, 9, 9]) exCalls).toOption.map (fun r => (r.2, r.1.file)) =
    some ([3, 5, 5, 7, 9, 5], [9, 9, 9, 0x41, 0x43, 0x41, 0x42, 0x41, 0x42, 0x41, 0x42]) := by decide

/-- `wf` is needed: a `LAST` without a `FIRST` directly after a `DONT_DEDUPLICATE` file cuts that file's own
copy away (API misuse the block processor never commits). -/
example :
    let cs : List Call := [ ⟨1, exFirst, [1]⟩, ⟨1, exLast, [2]⟩,
                            ⟨1, exFirst ||| exLast ||| Sqfs.Consts.blkDontDeduplicate, [1]⟩, ⟨1, exLast, [2]⟩ ]
    wf false cs = false ∧
    (run (init []) cs).toOption.map (fun r => (r.2, r.1.file)) = some ([0, 0, 2, 0], [1, 2]) := by decide


/-- `wfS` is needed for the fragment blocks (`wf` alone is not enough): a fragment block written *inside* a file
(second file below: `FIRST [1,1]`, fragment block `[2,2]`, `LAST [3,3]`) is part of that file's run; when the
file is found to equal the first one its three blocks are cut, the fragment block handed location 8 is gone
and the next file is written over its slot.  `wf` holds, `wfS` does not, `fragBlocksOk` fails. -/
example :
    let cs : List Call := [ ⟨0, exFirst, [1, 1]⟩, ⟨0, 0, [2, 2]⟩, ⟨0, exLast, [3, 3]⟩,
                            ⟨0, exFirst, [1, 1]⟩, ⟨0, Sqfs.Consts.blkFragmentBlock, [2, 2]⟩, ⟨0, exLast, [3, 3]⟩,
                            ⟨0, exFirst ||| exLast, [9, 9]⟩ ]
    wf false cs = true ∧ wfS false cs = false ∧
    (run (init []) cs).toOption.map (fun r => (r.2, r.1.file, fragBlocksOk r.1.file cs r.2)) =
      some ([0, 2, 0, 6, 8, 0, 6], [1, 1, 2, 2, 3, 3, 9, 9], false) := by decide

/-- non-vacuity of `bw_fragblocks_kept` / `bw_readback_all`: fragment blocks between files (the second one equal
to a block of the first file, same checksum), a file equal to the first one is shared and cut — the fragment
blocks stay where they were put. -/
def exCallsF : List Call :=
  [ ⟨7, exFirst, [1, 1]⟩, ⟨7, exLast, [2, 2]⟩,
    ⟨7, Sqfs.Consts.blkFragmentBlock, [2, 2]⟩,
    ⟨7, exFirst, [1, 1]⟩, ⟨7, exLast, [2, 2]⟩,
    ⟨7, Sqfs.Consts.blkFragmentBlock ||| Sqfs.Consts.blkIsCompressed, [5]⟩,
    ⟨7, exFirst ||| exLast, [2, 2]⟩ ]

example : wfS false exCallsF = true := by decide
example : sizesOk exCallsF := by unfold sizesOk; decide
example : (run (init [0xAA]) exCallsF).toOption.map (fun r => (r.2, r.1.file, fragBlocksOk r.1.file exCallsF r.2,
      holdsAll r.1.file (claimsOf false [] exCallsF) r.2)) =
    some ([1, 1, 5, 7, 1, 7, 3], [0xAA, 1, 1, 2, 2, 2, 2, 5], true, true) := by decide

/-- The byte comparison is what carries the property: with `SQFS_BLOCK_WRITER_HASH_COMPARE_ONLY` (documented
opt-out, never used by the tools) two different one-byte files with the same checksum are given the same location,
and the second one's byte is gone. -/
example :
    let cs : List Call := [ ⟨7, exFirst ||| exLast, [1]⟩, ⟨7, exFirst ||| exLast, [2]⟩ ]
    (run (init [] Sqfs.Consts.blockWriterHashCompareOnly) cs).toOption.map (fun r => (r.2, r.1.file)) = some ([0, 0], [1]) ∧
    (run (init []) cs).toOption.map (fun r => (r.2, r.1.file)) = some ([0, 1], [1, 2]) := by decide

end BlockWriterPart

section FragmentPart
open Sqfs.FragDedup

/-- fixture for the instantiating examples: different 3-byte fragments, block size 8 (see the non-vacuity section) -/
def exEvs : List Ev :=
  [ .frag [1, 1, 1] 0, .frag [1, 1, 2] 0, .frag [1, 1, 1] 0, .frag [9, 9, 9] 0,   -- 4th overflows block 0
    .frag [1, 1, 2] 0,                                                           -- compared with the in-flight copy
    .written 0,                                                                  -- stored compressed: 1,5,2,1
    .frag [1, 1, 1] 0,                                                           -- compared with the block re-read and expanded
    .frag [0, 0, 0] 0, .finish, .written 1 ]


/-! ## Fragments

`h` is the checksum function, `codec` any codec with the round-trip contract, `maxBlock` the block size; `evs`
ranges over all scripts: fragments (any non-empty bytes, any user flags — all-zero tail ends marked `nosparse`
included, since /repo 47f7b3d a fragment block is never taken for a hole) interleaved arbitrarily with "fragment block `k` has reached the disk" and `finish`.  Scripts the pool
cannot produce (writing a block that is not in flight) make the model answer `badEvent`; nothing else can go
wrong (`frag_no_error`).  `byteCompare = true` is how `lib/common/src/writer/init.c` configures the
processor (`file` and `uncmp` given). -/

/-- The fragment path never fails: no `SQFS_ERROR_CORRUPTED` from `chunk_info_equals`, no failed re-read or
uncompress of a written fragment block, no lookup of an unknown block — for every checksum function, every
codec with the round-trip contract, and every timing of the block writes. -/
theorem frag_no_error (codec : Codec) (hrt : codec.RoundTrip) (h : Bytes → UInt32) (maxBlock : Nat)
    (evs : List Ev) (hok : evsOk evs) (e : Err)
    (hrun : run codec h true maxBlock {} evs = .error e) : e = .badEvent := by
  rcases run_spec codec hrt h maxBlock evs {} [] (Inv_init codec) (fun p hp => by cases hp) hok with
    ⟨rs, st', hr, _⟩ | herr
  · rw [hr] at hrun; cases hrun
  · rw [herr] at hrun; cases hrun; rfl

/-- instance: a script the pool cannot produce (block 3 "written" while only block 0 exists) — the run fails, `evsOk` holds,
and the theorem says the failure is `badEvent` -/
example : ∃ e, run (Sqfs.ToyCodec.codec 8) (fun _ => 0) true 8 {} [.frag [1, 1, 1] 0, .written 3] = .error e ∧ e = .badEvent := by
  cases hr : run (Sqfs.ToyCodec.codec 8) (fun _ => 0) true 8 {} [.frag [1, 1, 1] 0, .written 3] with
  | ok r =>
    have : (run (Sqfs.ToyCodec.codec 8) (fun _ => 0) true 8 {} [.frag [1, 1, 1] 0, .written 3]).toOption.isNone = true := by
      decide
    rw [hr] at this; cases this
  | error e =>
    exact ⟨e, rfl, frag_no_error (Sqfs.ToyCodec.codec 8) (Sqfs.ToyCodec.codec_roundTrip 8) (fun _ => 0) 8 _
      (by intro e he; simp at he; rcases he with rfl | rfl <;> simp [Ev.ok, fragOk]) e hr⟩

/-- **Fragment sharing is sound.** Every `(index, offset)` handed to an inode addresses — in what a reader
obtains for fragment block `index` at the end — exactly that fragment's bytes, whichever of the three places
(`fblk_in_flight` copy, open block, block re-read from disk and uncompressed, through the cache) the
comparisons read from and however the checksums collide. -/
theorem frag_sound (codec : Codec) (hrt : codec.RoundTrip) (h : Bytes → UInt32) (maxBlock : Nat)
    (evs : List Ev) (hok : evsOk evs) (rs : List (Option Res)) (st : State)
    (hrun : run codec h true maxBlock {} evs = .ok (rs, st)) : fragSoundOk codec st evs rs = true := by
  rcases run_spec codec hrt h maxBlock evs {} [] (Inv_init codec) (fun p hp => by cases hp) hok with
    ⟨rs', st', hr, hinv, _, _, hres⟩ | herr
  · rw [hr] at hrun; cases hrun
    exact fragSound_of_ResAll codec st hinv evs rs hres
  · rw [herr] at hrun; cases hrun

/-- **Equal fragments share.** After any history, a fragment whose bytes were stored before under the same key —
same checksum (i.e. same `DONT_HASH` setting) and same `DONT_COMPRESS` flag, which is part of the lookup key
since /repo fcd11e4 so that a `dont_compress` tail end never lands in a block that gets compressed — and that
does not carry `DONT_DEDUPLICATE` is answered with a location and stores nothing: the fragment blocks are
unchanged. -/
theorem frag_share (codec : Codec) (hrt : codec.RoundTrip) (h : Bytes → UInt32) (maxBlock : Nat)
    (evs : List Ev) (hok : evsOk evs) (rs : List (Option Res)) (st : State)
    (hrun : run codec h true maxBlock {} evs = .ok (rs, st))
    (d : Bytes) (flags : Nat) (hd : fragOk d flags) (hns : isSparse d flags = false)
    (hdd : hasFlag flags Sqfs.Consts.blkDontDeduplicate = false)
    (hseen : (d, fragHash h d flags, flags &&& Sqfs.Consts.blkDontCompress) ∈ seenOf h evs) :
    ∃ i o st', processFragment codec h true maxBlock st d flags = .ok (.loc i o, st') ∧
      st'.blocks = st.blocks := by
  rcases run_spec codec hrt h maxBlock evs {} [] (Inv_init codec) (fun p hp => by cases hp) hok with
    ⟨rs', st', hr, hinv, _, hsi, _⟩ | herr
  · rw [hr] at hrun; cases hrun
    obtain ⟨r, st2, hpf, _, _, _, hsp, _, hsame⟩ :=
      processFragment_spec codec h maxBlock st d flags (seenOf h evs ++ []) hinv hd hsi
    have hb := hsame hns hdd (by simpa using hseen)
    cases r with
    | sparse => have := hsp.1 rfl; rw [hns] at this; cases this
    | loc i o => exact ⟨i, o, st2, hpf, hb⟩
  · rw [herr] at hrun; cases hrun

/-- instance: after `exEvs` (constant checksum, toy RLE codec) the fragment `[1,1,2]` — seen before — is answered with a
location and stores nothing -/
example : ∃ rs st, run (Sqfs.ToyCodec.codec 8) (fun _ => 0) true 8 {} exEvs = .ok (rs, st) ∧
    ∃ i o st', processFragment (Sqfs.ToyCodec.codec 8) (fun _ => 0) true 8 st [1, 1, 2] 0 = .ok (.loc i o, st') ∧
      st'.blocks = st.blocks := by
  have hok : evsOk exEvs := by
    intro e he
    simp [exEvs] at he
    rcases he with rfl | rfl | rfl | rfl | rfl | rfl | rfl | rfl | rfl | rfl <;> simp [Ev.ok, fragOk]
  cases hr : run (Sqfs.ToyCodec.codec 8) (fun _ => 0) true 8 {} exEvs with
  | error e =>
    have : (run (Sqfs.ToyCodec.codec 8) (fun _ => 0) true 8 {} exEvs).toOption.isSome = true := by decide
    rw [hr] at this; cases this
  | ok r =>
    obtain ⟨rs, st⟩ := r
    exact ⟨rs, st, rfl, frag_share (Sqfs.ToyCodec.codec 8) (Sqfs.ToyCodec.codec_roundTrip 8) (fun _ => 0) 8 exEvs hok rs st hr
      [1, 1, 2] 0 (by simp [fragOk]) (by decide) (by decide) (by decide)⟩

/-- **The hash table's probe order does not matter.** `lib/util/src/hash_table.c` probes entries of equal hash in
an order that depends on the table size and on past rehashes; the model searches a list front to back.  At any
point of any run no two table entries hold the same bytes under the same key (checksum and `DONT_COMPRESS`
flag; inserting replaces an equal entry), so at most one entry can match a fragment, and searching any
permutation of the table gives the same answer. -/
theorem frag_lookup_unique (codec : Codec) (hrt : codec.RoundTrip) (h : Bytes → UInt32) (maxBlock : Nat)
    (evs : List Ev) (hok : evsOk evs) (rs : List (Option Res)) (st : State)
    (hrun : run codec h true maxBlock {} evs = .ok (rs, st)) (d : Bytes) (hd : UInt32) (kf : Nat) (l : List Chunk)
    (hp : l.Perm st.table) :
    ∃ r s1 s2, search codec true st d hd kf st.table = .ok (r, s1) ∧ search codec true st d hd kf l = .ok (r, s2) := by
  have hu := run_uniq codec hrt h maxBlock evs {} (Inv_init codec) Uniq_init hok rs st hrun
  rcases run_spec codec hrt h maxBlock evs {} [] (Inv_init codec) (fun p hp => by cases hp) hok with
    ⟨rs', st', hr, hinv, _⟩ | herr
  · rw [hr] at hrun; cases hrun
    exact search_perm codec st hinv hu d hd kf l hp
  · rw [herr] at hrun; cases hrun

/-- instance: the table after `exEvs`, searched front to back and back to front -/
example : ∃ rs st, run (Sqfs.ToyCodec.codec 8) (fun _ => 0) true 8 {} exEvs = .ok (rs, st) ∧ 1 < st.table.length ∧
    ∃ r s1 s2, search (Sqfs.ToyCodec.codec 8) true st [1, 1, 2] 0 0 st.table = .ok (r, s1) ∧
      search (Sqfs.ToyCodec.codec 8) true st [1, 1, 2] 0 0 st.table.reverse = .ok (r, s2) := by
  have hok : evsOk exEvs := by
    intro e he
    simp [exEvs] at he
    rcases he with rfl | rfl | rfl | rfl | rfl | rfl | rfl | rfl | rfl | rfl <;> simp [Ev.ok, fragOk]
  have hlen : ((run (Sqfs.ToyCodec.codec 8) (fun _ => 0) true 8 {} exEvs).toOption.map
      (fun r => decide (1 < r.2.table.length))) = some true := by decide
  cases hr : run (Sqfs.ToyCodec.codec 8) (fun _ => 0) true 8 {} exEvs with
  | error e => rw [hr] at hlen; cases hlen
  | ok r =>
    obtain ⟨rs, st⟩ := r
    rw [hr] at hlen
    simp only [Except.toOption, Option.map_some, Option.some.injEq, decide_eq_true_eq] at hlen
    exact ⟨rs, st, rfl, hlen, frag_lookup_unique (Sqfs.ToyCodec.codec 8) (Sqfs.ToyCodec.codec_roundTrip 8) (fun _ => 0) 8 exEvs hok
      rs st hr [1, 1, 2] 0 0 st.table.reverse (List.reverse_perm _)⟩

/-! ### non-vacuity: different 3-byte fragments under a *constant* checksum, block size 8, and a codec that really
compresses and provably meets the contract (the toy RLE codec of the harness) -/

example : (Sqfs.ToyCodec.codec 8).RoundTrip := Sqfs.ToyCodec.codec_roundTrip 8
example : Sqfs.ToyCodec.ident.RoundTrip := Sqfs.ToyCodec.ident_roundTrip

example : evsOk exEvs := by
  intro e he
  simp [exEvs] at he
  rcases he with rfl | rfl | rfl | rfl | rfl | rfl | rfl | rfl | rfl | rfl <;> simp [Ev.ok, fragOk, hasFlag]

/-- constant checksum: everything collides, yet each fragment gets its own bytes -/
example : ((run (Sqfs.ToyCodec.codec 8) (fun _ => 0) true 8 {} exEvs).toOption.map (·.1)) =
    some [some (.loc 0 0), some (.loc 0 3), some (.loc 0 0), some (.loc 1 0), some (.loc 0 3), none,
          some (.loc 0 0), some .sparse, none, none] := by decide

/-- all-zero tail ends marked `nosparse` are ordinary fragments now: stored, shared, written and read back -/
example :
    let evs : List Ev := [.frag [0, 0, 0] Sqfs.Consts.blkIgnoreSparse, .frag [0, 0, 0] Sqfs.Consts.blkIgnoreSparse,
                          .finish, .written 0]
    evsOk evs ∧
    ((run (Sqfs.ToyCodec.codec 8) (fun _ => 0) true 8 {} evs).toOption.map
        (fun r => (r.1, readBlock (Sqfs.ToyCodec.codec 8) r.2 0))) =
      some ([some (.loc 0 0), some (.loc 0 0), none, none], some [0, 0, 0]) := by
  refine ⟨?_, by decide⟩
  intro e he
  simp at he
  rcases he with rfl | rfl | rfl | rfl <;> simp [Ev.ok, fragOk]

/-- a `dont_compress` tail end does not share the slot of its compressible twin (the flag is part of the key) -/
example :
    ((run Sqfs.ToyCodec.ident (fun _ => 0) true 8 {} [.frag [1, 2, 3] 0, .frag [1, 2, 3] Sqfs.Consts.blkDontCompress,
        .frag [1, 2, 3] Sqfs.Consts.blkDontCompress]).toOption.map (·.1)) =
      some [some (.loc 0 0), some (.loc 0 3), some (.loc 0 3)] := by decide

/-- Likewise for fragments: in the documented "size and hash alone" configuration (`file`/`uncmp` = NULL,
`byteCompare = false`) the second, different fragment is answered with the first one's location. -/
example :
    ((run Sqfs.ToyCodec.ident (fun _ => 0) false 8 {} [.frag [1, 2, 3] 0, .frag [1, 2, 4] 0]).toOption.map (·.1)) =
      some [some (.loc 0 0), some (.loc 0 0)] ∧
    ((run Sqfs.ToyCodec.ident (fun _ => 0) true 8 {} [.frag [1, 2, 3] 0, .frag [1, 2, 4] 0]).toOption.map (·.1)) =
      some [some (.loc 0 0), some (.loc 0 3)] := by decide

end FragmentPart

section StreamPart
open Sqfs.BlockWriter Sqfs.C08Stream

/-! ## The block processor's call stream: composition of the two halves

`Sqfs.C08Stream` (`Model/C08Stream.lean`) wires the front end (`begin_file` / `append` / `end_file`), the worker
(`process_block`), the FIFO pool, the I/O sequence numbers and the release loop of `dequeue_block`, the fragment
path (`FragDedup`) and the block writer (`BlockWriter`) together as backend.c / frontend.c / block_processor.c do.
`evs` ranges over **all** schedules: any list of `file` (any user flags the code accepts, any bytes), `submit`,
`dequeue`, `complete` (one `process_completed_block`), `finish` events — i.e. every way the backlog accounting
could interleave the main thread's actions; events the C control flow cannot produce are refused (`badEvent`).
`h` is any checksum function, `codec` any codec. -/

/-- **The call stream obeys the strengthened protocol.** Whatever the schedule, the `write_data_block` calls made so
far satisfy `wfS`: every `LAST` has its `FIRST`, and no fragment block is written between a `FIRST` and its
`LAST` (a fragment block gets its I/O sequence number when it is closed, i.e. while a tail end is being dequeued
— after the sentinel of that file and before the first block of the next — or at `finish` with everything
drained).  And the writer state is the result of `BlockWriter.run` on exactly those calls. -/
theorem stream_wfS (codec : Codec) (h : List UInt8 → UInt32) (B : Nat) (pre : List UInt8) (evs : List C08Stream.Ev)
    (s : C08Stream.State) (outs : List Out) (hrun : C08Stream.run codec h (C08Stream.init B pre) evs = .ok (s, outs)) :
    wfS false s.calls = true ∧ BlockWriter.run (BlockWriter.init pre) s.calls = .ok (s.bw, s.locs) := by
  obtain ⟨n, o, hs⟩ := run_SInv codec h evs outs (SInv_init B pre) hrun
  exact ⟨SInv_wfS hs, (run_LInv codec h evs outs (LInv_init B pre) hrun).bwrun⟩

/-- **Read-back of everything the processor keeps.** For a block size below 2^24, a codec that fits its output into
the block-size buffer and has the round-trip contract: after any schedule, the location of every `LAST` call holds
the file's stored bytes and the location of every fragment block holds that block, in the writer's current
file (`bw_readback_all` and `bw_fragblocks_kept` applied to the processor's own call stream — their hypotheses
`wf` / `wfS` / `sizesOk` are *proved* of it here, not assumed). -/
theorem stream_readback (codec : Codec) (hrt : codec.RoundTrip) (h : List UInt8 → UInt32) (B : Nat) (hB0 : 0 < B)
    (hB : B < 2 ^ 24) (hfit : Fits codec B) (pre : List UInt8) (evs : List C08Stream.Ev) (s : C08Stream.State) (outs : List Out)
    (hrun : C08Stream.run codec h (C08Stream.init B pre) evs = .ok (s, outs)) :
    holdsAll s.bw.file (claimsOf false [] s.calls) s.locs = true ∧ fragBlocksOk s.bw.file s.calls s.locs = true := by
  obtain ⟨hwf, hbw⟩ := stream_wfS codec h B pre evs s outs hrun
  obtain ⟨hz, hBs⟩ := run_ZInv codec hrt h evs outs (s := C08Stream.init B pre) hfit hB0 (ZInv_init codec h B pre) hrun
  have hsz : sizesOk s.calls := by
    intro c hc
    have := hz.calls c hc
    rw [hBs] at this
    exact Nat.lt_of_le_of_lt this hB
  exact ⟨bw_readback_all pre s.calls hsz (wfS_wf _ _ hwf) s.bw s.locs hbw,
    bw_fragblocks_kept pre s.calls hsz hwf s.bw s.locs hbw⟩

/-- **The fragment model's ghost store is the block writer's file.** `frag_sound` speaks about what "a reader obtains
for fragment block `index`" as recorded in the ghost field `Place.written stored`.  In the composed run, for every
fragment block that is on disk (`stored` non-empty): the fragment table holds a location and a size word with
`size = |stored|` and the raw bit = "not compressed", the writer's file holds exactly `stored` there — at every later
time, through all truncations — and reading the block back from the *file* (`fileReadBlock` = `load_frag_block` /
the data reader) gives what the fragment model says a reader gets (`readBlock`). -/
theorem stream_frag_link (codec : Codec) (hrt : codec.RoundTrip) (h : List UInt8 → UInt32) (B : Nat) (hB0 : 0 < B)
    (hB : B < 2 ^ 24) (hfit : Fits codec B) (pre : List UInt8) (evs : List C08Stream.Ev) (s : C08Stream.State) (outs : List Out)
    (hrun : C08Stream.run codec h (C08Stream.init B pre) evs = .ok (s, outs))
    (i : Nat) (d stored : List UInt8) (cmp : Bool) (fl : Nat)
    (hb : s.fd.blocks[i]? = some ⟨d, .written stored cmp, fl⟩) (hne : stored ≠ []) :
    fileReadBlock codec s i = FragDedup.readBlock codec s.fd i ∧
      ∃ loc word, s.fragTbl[i]? = some (loc, word) ∧ word % 2 ^ 24 = stored.length ∧
        (word &&& (1 <<< 24) != 0) = !cmp ∧ readAt s.bw.file loc stored.length = some stored := by
  have hl := run_LInv codec h evs outs (LInv_init B pre) hrun
  obtain ⟨hz, hBs⟩ := run_ZInv codec hrt h evs outs (s := C08Stream.init B pre) hfit hB0 (ZInv_init codec h B pre) hrun
  obtain ⟨k, c, loc, a1, a2, a3, a4⟩ := hl.link i d stored cmp fl hb hne
  have hsz : stored.length < 2 ^ 24 := by
    have := hz.calls c (List.mem_of_getElem? a1)
    rw [a3, hBs] at this
    exact Nat.lt_of_le_of_lt this hB
  exact fileRead_of_linked codec s i d stored cmp fl hb hne hsz ⟨k, c, loc, a1, a2, a3, a4⟩
    (stream_readback codec hrt h B hB0 hB hfit pre evs s outs hrun).2

/-- **Fragment references are sound in the composed run.** The fragment events the processor generated (`s.fevs`: one
`frag` per dequeued tail end, `written` per completed fragment block, `finish`) are a run of the fragment model from
the empty state ending in `s.fd`, all tail ends are non-empty, hence `frag_sound` applies: every `(index, offset)`
handed out addresses the tail end's bytes in what a reader obtains — which by `stream_frag_link` is what the file
holds. -/
theorem stream_frag_sound (codec : Codec) (hrt : codec.RoundTrip) (h : List UInt8 → UInt32) (B : Nat) (hB0 : 0 < B)
    (hfit : Fits codec B) (pre : List UInt8) (evs : List C08Stream.Ev) (s : C08Stream.State) (outs : List Out)
    (hrun : C08Stream.run codec h (C08Stream.init B pre) evs = .ok (s, outs)) :
    FragDedup.run codec h true B {} s.fevs = .ok (s.fres, s.fd) ∧ FragDedup.evsOk s.fevs ∧
      FragDedup.fragSoundOk codec s.fd s.fevs s.fres = true := by
  obtain ⟨hz, hBs⟩ := run_ZInv codec hrt h evs outs (s := C08Stream.init B pre) hfit hB0 (ZInv_init codec h B pre) hrun
  have hr := hz.frun
  rw [hBs] at hr
  exact ⟨hr, hz.fok, frag_sound codec hrt h B s.fevs hz.fok s.fres s.fd hr⟩

/-- **The composed model only ever refuses schedules.** Whatever the schedule, the only way a run ends in an error is an
event the local C control flow cannot produce (`badEvent`: nothing to submit / dequeue, `complete` with the wrong head
of the I/O queue, `finish` before `sync` has drained everything) or `begin_file` flags the code rejects
(`unsupported`).  In particular `write_data_block` never fails on the processor's call stream, the fragment path never
reports `SQFS_ERROR_CORRUPTED` or a failed re-read, a fragment block coming back from the pool is always in flight in the
fragment model, and the model's consistency exit `Err.internal` is unreachable: the worked fragment block that reaches
`process_completed_block` is exactly what the fragment model says is stored (invariant `PInv`: every fragment block in
the pool or the I/O queue is `process_block` applied to an in-flight block of the fragment model, at most one per
index).  So the `stream_*` theorems above are about *every* run that the schedule admits. -/
theorem stream_no_error (codec : Codec) (hrt : codec.RoundTrip) (h : List UInt8 → UInt32) (B : Nat) (hB0 : 0 < B)
    (hB : B < 2 ^ 24) (hfit : Fits codec B) (pre : List UInt8) (evs : List C08Stream.Ev) (x : C08Stream.Err)
    (hrun : C08Stream.run codec h (C08Stream.init B pre) evs = .error x) : x = .badEvent ∨ x = .unsupported :=
  run_total codec hrt h evs (AllInv_init codec h B pre hfit hB0 hB) x hrun

/-! ### non-vacuity: block size 4, constant checksum, toy RLE codec.  Three files: `1111 78`, `1111 79` (full block equal to
the first file's → shared, its copy cut), `555` (does not fit into fragment block 0 → block 0 is closed while the tail end
is dequeued, gets sequence number 4 and is written between the files; block 1 is closed by `finish`). -/

def exStream : List C08Stream.Ev :=
  [ .file 0 [1, 1, 1, 1, 7, 8], .file 0 [1, 1, 1, 1, 7, 9], .file 0 [5, 5, 5],
    .submit, .submit, .submit, .submit, .submit, .submit, .submit,
    .dequeue, .dequeue, .dequeue, .complete, .complete,
    .dequeue, .dequeue, .complete, .complete,
    .dequeue, .dequeue, .dequeue, .complete,
    .finish, .dequeue, .complete ]

example : (Sqfs.ToyCodec.codec 4).RoundTrip ∧ Fits (Sqfs.ToyCodec.codec 4) 4 :=
  ⟨Sqfs.ToyCodec.codec_roundTrip 4, Sqfs.ToyCodec.codec_fits 4⟩

/-- the run succeeds; six calls (block, sentinel, block, sentinel, fragment block 0, fragment block 1); the second file
shares location 0; the fragment blocks sit at 2 and 6 and the table says so; block 1 is stored compressed (`5 ×3`) and
reads back from the file as `555` -/
example :
    (C08Stream.run (Sqfs.ToyCodec.codec 4) (fun _ => 0) (C08Stream.init 4 []) exStream).toOption.map
      (fun r => (r.1.calls.map (fun c => (c.flags, c.data)), r.1.locs, r.1.bw.file)) =
    some ([(0x8800, [1, 4]), (0x1000, []), (0x8800, [1, 4]), (0x1000, []), (0x4000, [7, 8, 7, 9]), (0xC000, [5, 3])],
          [0, 0, 2, 0, 2, 6], [1, 4, 7, 8, 7, 9, 5, 3]) := by decide

example :
    (C08Stream.run (Sqfs.ToyCodec.codec 4) (fun _ => 0) (C08Stream.init 4 []) exStream).toOption.map
      (fun r => (r.1.fragTbl, fileReadBlock (Sqfs.ToyCodec.codec 4) r.1 0, fileReadBlock (Sqfs.ToyCodec.codec 4) r.1 1,
                 r.1.fres.filterMap id)) =
    some ([(2, 0x1000004), (6, 2)], some [7, 8, 7, 9], some [5, 5, 5], [.loc 0 0, .loc 0 2, .loc 1 0]) := by decide

/-- a schedule the C control flow cannot produce is refused: `finish` with blocks still in the pool -/
example : (C08Stream.run (Sqfs.ToyCodec.codec 4) (fun _ => 0) (C08Stream.init 4 [])
      [.file 0 [1, 1, 1, 1, 7, 8], .submit, .finish]).toOption.isNone = true := by decide

end StreamPart

end Sqfs.C08
