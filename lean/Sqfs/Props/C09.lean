/-
C09 — Worker pool: FIFO, exactly-once, deadlock-free under every interleaving.

Property theorems only (helpers: `Sqfs/Proofs/Pool.lean`; model: `Sqfs/Model/Pool.lean`, the small-step
machine of `lib/util/src/threadpool.c`).  Every theorem quantifies over

* any number `n` of workers, any number of submitted items, any callback-result function `cfg.rcOf`
  (so: any set of failing items), both variants of `dequeue` (`cfg.repaired`) unless stated otherwise;
* every execution: `Reachable cfg n s` is "some finite list of scheduler choices leads from
  `init n` to `s`", where a choice names the thread that runs to its next blocking point, the API call
  the main thread makes next, or a *spurious* wake-up of an unsignalled waiter (`run_reachable` ties the
  inductive formulation to literal lists of choices).

There is no bound anywhere: the obligations are inductions over the length of the execution.
-/
import Sqfs.Proofs.Pool
import Sqfs.Proofs.C09PoolX
import Sqfs.Proofs.C09PoolFine
namespace Sqfs.C09
open Sqfs.Pool List

/-! ### fixtures for the instantiating examples that follow the theorems -/

/-- no callback fails / the callback of item `0` returns −5; both with the repaired `dequeue` -/
private abbrev cfgOk : Cfg := ⟨true, fun _ => 0⟩
private abbrev cfgF : Cfg := ⟨true, fun d => if d = 0 then -5 else 0⟩
/-- 2 workers, items 7 and 9 submitted, both workers have taken one: `workers = [working ⟨0,7⟩, working ⟨1,9⟩]` -/
private abbrev schB : List Choice :=
  [.main (.call (.submit 7)), .main (.cont false), .main (.call (.submit 9)), .main (.cont false),
   .worker 0 false, .worker 1 false]
/-- 1 worker, item 0 fails (status −5), then the main thread enters `submit 1` / `get_status`: it stands at the lock -/
private abbrev schFS : List Choice :=
  [.main (.call (.submit 0)), .main (.cont false), .worker 0 false, .worker 0 false, .worker 0 false,
   .main (.call (.submit 1))]
private abbrev schFG : List Choice :=
  [.main (.call (.submit 0)), .main (.cont false), .worker 0 false, .worker 0 false, .worker 0 false,
   .main (.call .getStatus)]
/-- main waits unsignalled in `dequeue` while worker 1 holds the awaited ticket -/
private abbrev schW : List Choice :=
  [.main (.call (.submit 3)), .main (.cont false), .worker 1 false, .main (.call .dequeue), .main (.cont false)]
/-- extended model: pointers 11 / 22 set, two items submitted (nothing taken yet) -/
private abbrev xschP : List XChoice :=
  [.setPtr 0 11, .base (.main (.cont false)), .setPtr 1 22, .base (.main (.cont false)),
   .base (.main (.call (.submit 5))), .base (.main (.cont false)),
   .base (.main (.call (.submit 6))), .base (.main (.cont false))]

/-! ### the invariant -/

/-- the initial state satisfies the ticket-accounting invariant -/
theorem inv_init (n : Nat) : InvA (init n) := invA_init n

/-- every step — of any thread, including spurious wake-ups — preserves it -/
theorem inv_step (cfg : Cfg) {s s' : State} (c : Choice) (h : InvA s) (hs : step cfg s c = some s') :
    InvA s' := invA_step cfg c h hs

/-- hence it holds in every reachable state -/
theorem inv_reachable {cfg : Cfg} {n : Nat} {s : State} (hr : Reachable cfg n s) : InvA s :=
  invA_reachable hr

/-- executions as literal lists of scheduler choices: whatever the list, the state it leads to is reachable -/
theorem run_reachable (cfg : Cfg) (n : Nat) (cs : List Choice) : Reachable cfg n (run cfg (init n) cs) := by
  suffices h : ∀ s, Reachable cfg n s → Reachable cfg n (run cfg s cs) from h _ .init
  induction cs with
  | nil => intro s hs; exact hs
  | cons c cs ih =>
    intro s hs
    unfold run
    split
    · rename_i s' hstep
      exact ih s' (.step c hs hstep)
    · exact ih s hs

/-- instance of `inv_step` (placed here because it uses `inv_reachable` and `run_reachable`): worker 0 finishes its
callback in the state where both workers hold an item -/
example : ∃ s', step cfgOk (run cfgOk (init 2) schB) (.worker 0 false) = some s' ∧ InvA s' := by
  obtain ⟨s', h⟩ := Option.isSome_iff_exists.1
    (show (step cfgOk (run cfgOk (init 2) schB) (.worker 0 false)).isSome = true by decide)
  exact ⟨s', h, inv_step cfgOk (.worker 0 false) (inv_reachable (run_reachable cfgOk 2 schB)) h⟩

/-- … and the strict relation (no spurious wake-ups) only reaches states the general one reaches -/
theorem strict_reachable {cfg : Cfg} {n : Nat} {s : State} (hr : ReachableStrict cfg n s) : Reachable cfg n s := by
  induction hr with
  | init => exact .init
  | step c _ hs ih =>
    unfold stepStrict at hs
    split at hs
    · exact .step c ih hs
    · simp at hs

/-- instance: one strict step (a `submit` call) from the initial state -/
example : Reachable cfgOk 2 (run cfgOk (init 2) [.main (.call (.submit 3))]) :=
  strict_reachable (ReachableStrict.step (.main (.call (.submit 3))) .init (by decide))

/-! ### safety -/

/-- **FIFO.** What `dequeue` has handed back so far is a prefix of what was submitted, in submission order. -/
theorem fifo {cfg : Cfg} {n : Nat} {s : State} (hr : Reachable cfg n s) : s.returned <+: s.submitted := by
  have h := (inv_reachable hr).ret
  rw [h]; exact take_prefix _ _

/-- the same for a literal schedule -/
theorem fifo_run (cfg : Cfg) (n : Nat) (cs : List Choice) :
    (run cfg (init n) cs).returned <+: (run cfg (init n) cs).submitted :=
  fifo (run_reachable cfg n cs)

/-- **At most once.** No ticket's callback runs twice; every callback invocation was on an item that was
submitted (ticket ↦ the data submitted under it); and no ticket is in two places at once (queue, a worker's
hands, `done`, `safe_done`, handed back), in particular never held by two workers. -/
theorem at_most_once {cfg : Cfg} {n : Nat} {s : State} (hr : Reachable cfg n s) :
    (s.started.map (·.2.ticket)).Nodup ∧
    (∀ p ∈ s.started, s.submitted[p.2.ticket]? = some p.2.data) ∧
    (range s.returned.length ++ tks s.safeDone ++ tks s.done ++ tkF s ++ tkW s ++ tks s.queue).Nodup := by
  have h := inv_reachable hr
  have hall : (range s.returned.length ++ tks s.safeDone ++ tks s.done ++ tkF s ++ tkW s ++ tks s.queue).Nodup :=
    (h.perm.nodup_iff).2 nodup_range
  refine ⟨?_, h.startedData, hall⟩
  rw [h.startedPerm.nodup_iff]
  have : (range s.returned.length ++ tks s.safeDone ++ tks s.done ++ tkF s ++ (tkW s ++ tks s.queue)).Nodup := by
    simpa [append_assoc] using hall
  exact (nodup_append.1 this).1

/-- … and handed back at most once: the `k`-th value returned by `dequeue` is the `k`-th submitted item, so a
ticket is handed back exactly when its turn comes and never again. -/
theorem returned_at_most_once {cfg : Cfg} {n : Nat} {s : State} (hr : Reachable cfg n s) (k : Nat)
    (hk : k < s.returned.length) : s.returned[k]? = s.submitted[k]? := by
  have h := (inv_reachable hr).ret
  rw [h, getElem?_take]; simp [hk]

/-- nothing is lost either: every ticket issued is somewhere -/
theorem no_item_lost {cfg : Cfg} {n : Nat} {s : State} (hr : Reachable cfg n s) (t : Nat)
    (ht : t < s.submitted.length) :
    t < s.returned.length ∨ t ∈ tks s.safeDone ∨ t ∈ tks s.done ∨ t ∈ tkF s ∨ t ∈ tkW s ∨ t ∈ tks s.queue := by
  have h := inv_reachable hr
  have : t ∈ range s.nextTicket := by rw [h.nt]; exact mem_range.2 ht
  have := (h.perm.mem_iff).2 this
  simpa [mem_append, mem_range, or_assoc] using this

/-- instance: ticket 1 in the state where both workers hold an item (it is in `tkW`) -/
example := no_item_lost (run_reachable cfgOk 2 schB) 1 (by decide)

/-- **Exactly once.** Once everything submitted has been handed back, `returned = submitted`, every ticket's
callback has run exactly once (the started tickets are a permutation of `0 … #submitted-1`) on the data
submitted under that ticket, and the pool is empty. -/
theorem exactly_once {cfg : Cfg} {n : Nat} {s : State} (hr : Reachable cfg n s)
    (hall : s.returned.length = s.submitted.length) :
    s.returned = s.submitted ∧
    (s.started.map (·.2.ticket)).Perm (range s.submitted.length) ∧
    (∀ p ∈ s.started, s.submitted[p.2.ticket]? = some p.2.data) ∧
    s.queue = [] ∧ s.done = [] ∧ s.safeDone = [] ∧ heldItems s = [] := by
  have h := inv_reachable hr
  have hret : s.returned = s.submitted := by
    have := h.ret; rw [hall, take_length] at this; exact this
  have hlen := h.perm.length_eq
  simp only [length_append, length_range, h.nt, hall, tks, length_map] at hlen
  have hq : s.queue = [] := length_eq_zero_iff.1 (by omega)
  have hd : s.done = [] := length_eq_zero_iff.1 (by omega)
  have hsd : s.safeDone = [] := length_eq_zero_iff.1 (by omega)
  have hf : tkF s = [] := length_eq_zero_iff.1 (by omega)
  have hw : tkW s = [] := length_eq_zero_iff.1 (by omega)
  refine ⟨hret, ?_, h.startedData, hq, hd, hsd, ?_⟩
  · have := h.startedPerm
    rw [hsd, hd, hf, hall] at this
    simpa [tks] using this
  · -- no worker holds anything
    unfold heldItems
    rw [flatMap_eq_nil_iff]
    intro pc hpc
    cases pc with
    | working it =>
      have : it.ticket ∈ tkW s := mem_flatMap.2 ⟨_, hpc, by simp [WPc.tkW]⟩
      rw [hw] at this; simp at this
    | finishing it rc =>
      have : it.ticket ∈ tkF s := mem_flatMap.2 ⟨_, hpc, by simp [WPc.tkF]⟩
      rw [hf] at this; simp at this
    | _ => rfl

/-- **Context exclusivity / one worker per item.** The per-worker context of worker `i` is used only by `i`'s
own callback invocations (in the model the context *is* the index `i`: `worker_proc` passes `worker->user` of
its own `worker_t`; that the real code hands each thread its own `worker_t` is asserted by the harness on every
callback).  What the pool has to guarantee on top of that is that two distinct workers never hold the same
work item — neither while running the callback nor while carrying the result to `store_completed`. -/
theorem ctx_exclusive {cfg : Cfg} {n : Nat} {s : State} (hr : Reachable cfg n s) (i j : Nat) (pi pj : WPc)
    (hi : s.workers[i]? = some pi) (hj : s.workers[j]? = some pj) (hij : i ≠ j) :
    ∀ a ∈ pi.held, ∀ b ∈ pj.held, a.ticket ≠ b.ticket := by
  intro a ha b hb heq
  have hnd := (at_most_once hr).2.2
  -- the ticket would occur twice among the tickets held by workers
  have hcount : count a.ticket (tkF s ++ tkW s) ≤ 1 := by
    have h1 : (tkF s ++ tkW s).Nodup := by
      have : (range s.returned.length ++ tks s.safeDone ++ tks s.done ++ (tkF s ++ tkW s) ++ tks s.queue).Nodup := by
        simpa [append_assoc] using hnd
      exact (nodup_append.1 (nodup_append.1 this).1).2.1
    exact count_le_one_of_nodup _ _ h1
  have hsum : count a.ticket (tkF s ++ tkW s) = count a.ticket (s.workers.flatMap fun pc => pc.tkF ++ pc.tkW) := by
    rw [count_flatMap_append, count_append]; rfl
  have h2 := count_two_le_flatMap (fun pc : WPc => pc.tkF ++ pc.tkW) s.workers i j pi pj a.ticket hi hj hij
    .start rfl
  have hpi : 1 ≤ count a.ticket (pi.tkF ++ pi.tkW) := by
    cases pi <;> simp_all [WPc.held, WPc.tkF, WPc.tkW]
  have hpj : 1 ≤ count a.ticket (pj.tkF ++ pj.tkW) := by
    rw [heq]
    cases pj <;> simp_all [WPc.held, WPc.tkF, WPc.tkW]
  omega

/-- instance: two workers, each inside the callback of a different item -/
example : (run cfgOk (init 2) schB).workers = [.working ⟨0, 7⟩, .working ⟨1, 9⟩] := by decide
example := ctx_exclusive (run_reachable cfgOk 2 schB) 0 1 (.working ⟨0, 7⟩) (.working ⟨1, 9⟩) (by decide) (by decide)
  (by decide)

/-- every callback invocation was made by the worker that had taken that item from the queue, on that worker's
own context: a `started` entry `(w, it)` is only ever appended by worker `w`'s own step from `working it` -/
theorem ctx_owner {cfg : Cfg} {s s' : State} (c : Choice) (hs : step cfg s c = some s') :
    s'.started = s.started ∨
    ∃ w it, c = .worker w false ∧ s.workers[w]? = some (.working it) ∧ s'.started = s.started ++ [(w, it)] := by
  cases c with
  | worker i spur =>
    simp only [step] at hs
    unfold stepWorker at hs
    split at hs
    · simp at hs
    · split at hs
      · simp at hs
      · simp only [Option.some.injEq] at hs; subst hs; left
        exact getNextWork_started _ _
    · split at hs
      · simp only [Option.some.injEq] at hs; subst hs; left
        exact getNextWork_started _ _
      · simp at hs
    · rename_i it hi
      split at hs
      · simp at hs
      · rename_i hsp
        simp only [Option.some.injEq] at hs; subst hs; right
        have : spur = false := by cases spur <;> simp_all
        subst this
        exact ⟨i, it, rfl, hi, rfl⟩
    · split at hs
      · simp at hs
      · simp only [Option.some.injEq] at hs; subst hs; left
        exact getNextWork_started _ _
    · simp at hs
  | main mc =>
    left
    simp only [step] at hs
    unfold stepMain at hs
    split at hs
    · simp only [Option.some.injEq] at hs; subst hs; rfl
    · split at hs
      · simp only [Option.some.injEq] at hs; subst hs; rfl
      · split at hs
        · simp only [Option.some.injEq] at hs; subst hs; rfl
        · simp only [Option.some.injEq] at hs; subst hs; rfl
    · simp only [Option.some.injEq] at hs; subst hs; rfl
    · simp only [Option.some.injEq] at hs; subst hs; rfl
    · simp only [Option.some.injEq] at hs; subst hs
      unfold submitBody; by_cases h0 : s.status = 0 <;> simp [h0]
    · simp only [Option.some.injEq] at hs; subst hs
      unfold deqTry deqWaitOrNull deqReturn; split <;> (try split) <;> (try split) <;> rfl
    · split at hs
      · simp only [Option.some.injEq] at hs; subst hs
        unfold deqTry deqWaitOrNull deqReturn; split <;> (try split) <;> (try split) <;> rfl
      · simp at hs
    · simp only [Option.some.injEq] at hs; subst hs; rfl
    · simp only [Option.some.injEq] at hs; subst hs; rfl
    · split at hs
      · split at hs
        · simp only [Option.some.injEq] at hs; subst hs; rfl
        · simp only [Option.some.injEq] at hs; subst hs; rfl
      · simp at hs
    · simp at hs

/-! ### liveness: no lost wake-up, no dead-lock -/

/-- instance of `ctx_owner`: worker 0's callback step appends `(0, ⟨0, 7⟩)` to `started` -/
example : ∃ s', step cfgOk (run cfgOk (init 2) schB) (.worker 0 false) = some s' ∧
    s'.started = (run cfgOk (init 2) schB).started ++ [(0, ⟨0, 7⟩)] := by
  obtain ⟨s', h⟩ := Option.isSome_iff_exists.1
    (show (step cfgOk (run cfgOk (init 2) schB) (.worker 0 false)).isSome = true by decide)
  refine ⟨s', h, ?_⟩
  rcases ctx_owner (.worker 0 false) h with h1 | ⟨w, it, hc, hw, hst⟩
  · have : ((step cfgOk (run cfgOk (init 2) schB) (.worker 0 false)).map
        (fun t => decide (t.started = (run cfgOk (init 2) schB).started))) = some false := by decide
    rw [h] at this; simp [h1] at this
  · cases hc
    have hw0 : (run cfgOk (init 2) schB).workers[0]? = some (.working ⟨0, 7⟩) := by decide
    rw [hw0] at hw; cases hw; exact hst

/-- **No lost wake-up** (holds with and without spurious wake-ups, for both variants of `dequeue`).
* A worker that waits on `queue_cond` *unsignalled* has nothing to do: the queue is empty and `destroy` has not
  taken the lock yet.  (The status may already be non-zero — the worker is then woken by the next `submit` or
  by `destroy`; DESIGN.md §4 claimed `status = 0` here, which the code does not guarantee and does not need.)
* When the main thread waits on `done_cond` *unsignalled*, nothing is dequeuable, and the ticket it waits for
  is still queued or in the hands of a worker (which will broadcast when it stores it); with the repaired
  `dequeue` moreover `status = 0`. -/
theorem no_lost_wakeup {cfg : Cfg} {n : Nat} {s : State} (hr : Reachable cfg n s) :
    (∀ i : Nat, s.workers[i]? = some (WPc.waitQ false) → s.queue = [] ∧ ¬ s.main.inJoin) ∧
    (s.main = .deqWait false →
      (∀ it r, s.done = it :: r → it.ticket ≠ s.nextDeq) ∧
      (cfg.repaired = true → s.status = 0) ∧
      (s.nextDeq ∈ tks s.queue ∨ s.nextDeq ∈ tkW s ∨ s.nextDeq ∈ tkF s)) := by
  have hA := inv_reachable hr
  have hB := invB_reachable hr
  refine ⟨hB.waitQ, fun hm => ?_⟩
  obtain ⟨hnd, hst⟩ := hB.deqWait hm
  refine ⟨hnd, hst, ?_⟩
  obtain ⟨hsd, hic⟩ := hA.mainDeq (by rw [hm]; trivial)
  have hnd' := hA.nd
  rw [hsd] at hnd'
  simp only [length_nil, Nat.add_zero] at hnd'
  have hlt : s.nextDeq < s.submitted.length := by have := hA.ic; omega
  rcases no_item_lost hr s.nextDeq hlt with h1 | h1 | h1 | h1 | h1 | h1
  · omega
  · rw [hsd] at h1; simp [tks] at h1
  · obtain ⟨it, r, hd, ht⟩ := done_head_of_mem hA h1
    exact absurd ht (hnd it r hd)
  · exact Or.inr (Or.inr h1)
  · exact Or.inr (Or.inl h1)
  · exact Or.inl h1

example := (no_lost_wakeup (run_reachable cfgOk 2 schW)).2 (by decide)

/-- **No dead-lock** (repaired `dequeue`, at least one worker, strict relation — a waiter runs only after a
broadcast).  In every reachable state in which the main thread is inside an API call, some thread can take a
strict step: `submit`, `dequeue`, `get_status` and `destroy` never hang with nothing left to run. -/
theorem no_deadlock {cfg : Cfg} {n : Nat} {s : State} (hrep : cfg.repaired = true) (hn : 0 < n)
    (hr : Reachable cfg n s) (hcall : mainInCall s = true) :
    ∃ c s', (∀ op, c ≠ .main (.call op)) ∧ stepStrict cfg s c = some s' := by
  have hA := inv_reachable hr
  have hB := invB_reachable hr
  have hlen := workers_length_reachable hr
  have mainStep : (stepMain cfg s (.cont false)).isSome = true →
      ∃ c s', (∀ op, c ≠ .main (.call op)) ∧ stepStrict cfg s c = some s' := by
    intro h
    obtain ⟨s', h⟩ := Option.isSome_iff_exists.1 h
    exact ⟨.main (.cont false), s', by intro op; simp, by simp [stepStrict, Choice.strict, step, h]⟩
  have workerStep : ∀ (i : Nat) (pc : WPc), s.workers[i]? = some pc → pc ≠ WPc.waitQ false → pc ≠ WPc.exited →
      ∃ c s', (∀ op, c ≠ .main (.call op)) ∧ stepStrict cfg s c = some s' := by
    intro i pc hi h1 h2
    obtain ⟨s', hs'⟩ := worker_can_step cfg s i pc hi h1 h2
    exact ⟨.worker i false, s', by intro op; simp, hs'⟩
  cases hm : s.main with
  | idle => simp [mainInCall, hm] at hcall
  | finished => simp [mainInCall, hm] at hcall
  | submitLock d => exact mainStep (by simp [stepMain, hm])
  | deqLock => exact mainStep (by simp [stepMain, hm])
  | statusLock => exact mainStep (by simp [stepMain, hm])
  | destroyLock => exact mainStep (by simp [stepMain, hm])
  | deqWait sig =>
    cases sig with
    | true => exact mainStep (by simp [stepMain, hm])
    | false =>
      obtain ⟨_, hst, hwhere⟩ := (no_lost_wakeup hr).2 hm
      have hst0 := hst hrep
      rcases hwhere with hq | hw | hf
      · -- the awaited ticket is still queued: worker 0 cannot be asleep
        have h0 : 0 < s.workers.length := by omega
        obtain ⟨pc, hpc⟩ : ∃ pc, s.workers[0]? = some pc := ⟨s.workers[0], getElem?_eq_getElem h0⟩
        refine workerStep 0 pc hpc ?_ ?_
        · intro hx; subst hx
          have := (hB.waitQ 0 hpc).1
          rw [this] at hq; simp [tks] at hq
        · intro hx; subst hx
          exact hB.exited 0 hpc hst0
      · obtain ⟨pc, hpc, hin⟩ := mem_flatMap.1 hw
        obtain ⟨i, hi⟩ := getElem?_of_mem hpc
        refine workerStep i pc hi ?_ ?_ <;> (intro hx; subst hx; simp [WPc.tkW] at hin)
      · obtain ⟨pc, hpc, hin⟩ := mem_flatMap.1 hf
        obtain ⟨i, hi⟩ := getElem?_of_mem hpc
        refine workerStep i pc hi ?_ ?_ <;> (intro hx; subst hx; simp [WPc.tkF] at hin)
  | join i =>
    have hlt := hB.joinLt i hm
    obtain ⟨pc, hpc⟩ : ∃ pc, s.workers[i]? = some pc := ⟨s.workers[i], getElem?_eq_getElem hlt⟩
    by_cases hex : pc = .exited
    · subst hex
      by_cases hl : i + 1 < s.workers.length
      · exact mainStep (by simp [stepMain, hm, hpc, hl])
      · exact mainStep (by simp [stepMain, hm, hpc, hl])
    · refine workerStep i pc hpc ?_ hex
      intro hx; subst hx
      exact (hB.waitQ i hpc).2 (by rw [hm]; trivial)

/-- the same as a statement about the flag both the model driver and the harness print after every step
(`dl=`): it is never set in a reachable state of the repaired pool -/
theorem no_deadlock_flag {cfg : Cfg} {n : Nat} {s : State} (hrep : cfg.repaired = true) (hn : 0 < n)
    (hr : Reachable cfg n s) : isDeadlock s = false := by
  cases hcall : mainInCall s with
  | false => simp [isDeadlock, hcall]
  | true =>
    obtain ⟨c, s', hc, hs⟩ := no_deadlock hrep hn hr hcall
    have hlen := workers_length_reachable hr
    cases c with
    | main mc =>
      cases mc with
      | call op => exact absurd rfl (hc op)
      | cont spur =>
        cases spur with
        | true => simp [stepStrict, Choice.strict] at hs
        | false =>
          have : mainContEnabled s = true := by
            simp only [stepStrict, Choice.strict, Bool.not_false, if_true, step] at hs
            unfold stepMain at hs
            unfold mainContEnabled
            split at hs <;> simp_all
          simp [isDeadlock, this]
    | worker i spur =>
      cases spur with
      | true => simp [stepStrict, Choice.strict] at hs
      | false =>
        simp only [stepStrict, Choice.strict, Bool.not_false, if_true, step] at hs
        have hen : workerEnabled s i = true := by
          unfold stepWorker at hs
          unfold workerEnabled
          split at hs <;> simp_all
        have hi : i < s.workers.length := by
          unfold workerEnabled at hen
          cases hx : s.workers[i]? with
          | none => simp [hx] at hen
          | some pc => exact (List.getElem?_eq_some_iff.1 hx).1
        simp only [isDeadlock, Bool.and_eq_false_iff, all_eq_false, mem_range]
        right
        exact ⟨i, hi, by simp [hen]⟩

/-- **Every API call returns** (repaired `dequeue`, at least one worker, strict relation).  Let the main thread be
inside `submit`, `dequeue`, `get_status` or `destroy` in a reachable state `s`.  Then *every* strict execution
from `s` during which the call does not return (i) is at most `mu s` steps long (`mu`: 6 per queued item + 2 per
step a worker can still take + the main thread's remaining steps — it strictly decreases with every step of
any thread), and (ii) can be extended by a further step: so the only way it can end is by the call returning.
No fairness assumption is needed: while the call has not returned there is simply no infinite schedule. -/
theorem api_returns {cfg : Cfg} {n : Nat} {s s' : State} {cs : List Choice} (hrep : cfg.repaired = true)
    (hn : 0 < n) (hr : Reachable cfg n s) (hcall : mainInCall s = true) (hx : StaysInCall cfg s cs s') :
    cs.length + mu s' ≤ mu s ∧
    ∃ c s'', (∀ op, c ≠ .main (.call op)) ∧ stepStrict cfg s' c = some s'' := by
  have key : ∀ {s : State} {cs : List Choice} {s' : State}, StaysInCall cfg s cs s' → Reachable cfg n s →
      mainInCall s = true → cs.length + mu s' ≤ mu s ∧ Reachable cfg n s' ∧ mainInCall s' = true := by
    intro s cs s' hx
    induction hx with
    | nil s => intro hr hcall; exact ⟨by simp, hr, hcall⟩
    | @cons s0 s1 s2 c cs' hs hin _ ih =>
      intro hr hcall
      have hr1 : Reachable cfg n s1 := by
        unfold stepStrict at hs
        split at hs
        · exact .step c hr hs
        · simp at hs
      obtain ⟨h1, h2, h3⟩ := ih hr1 hin
      have := mu_decreases cfg c hs hcall hin
      exact ⟨by simp only [length_cons]; omega, h2, h3⟩
  have key := key hx hr hcall
  exact ⟨key.1, no_deadlock hrep hn key.2.1 key.2.2⟩

/-! ### failure -/

/-- **Failure recorded.** In every reachable state: a non-zero status is the value some callback that ran
returned (or the −1 `destroy` sets once it holds the lock); and a failure is never lost — once a callback has
returned non-zero, either its worker is still on its way to `store_completed` or the status is non-zero. -/
theorem failure_recorded {cfg : Cfg} {n : Nat} {s : State} (hr : Reachable cfg n s) :
    (s.status ≠ 0 → s.main.inJoin ∨ ∃ p ∈ s.started, cfg.rcOf p.2.data = s.status) ∧
    (∀ p ∈ s.started, cfg.rcOf p.2.data ≠ 0 → s.status ≠ 0 ∨ p.2.ticket ∈ tkF s) :=
  ⟨(invC_reachable hr).statusFrom, (invC_reachable hr).failSeen⟩

/-- **Failure is sticky and stops the pool.** Once the status is non-zero, every further step (of any thread)
leaves it non-zero — and unchanged, except for `destroy` overwriting it with −1 —, takes nothing out of the
work queue and accepts no new submission. -/
theorem failure_sticky {cfg : Cfg} {s s' : State} (c : Choice) (hs : step cfg s c = some s') (h0 : s.status ≠ 0) :
    s'.status ≠ 0 ∧ (s'.status = s.status ∨ s.main = .destroyLock) ∧ s'.queue = s.queue ∧
    s'.submitted = s.submitted := by
  cases c with
  | worker i spur =>
    simp only [step] at hs
    unfold stepWorker at hs
    split at hs
    · simp at hs
    · split at hs
      · simp at hs
      · simp only [Option.some.injEq] at hs; subst hs; simp [getNextWork, h0]
    · split at hs
      · simp only [Option.some.injEq] at hs; subst hs; simp [getNextWork, h0]
      · simp at hs
    · split at hs
      · simp at hs
      · simp only [Option.some.injEq] at hs; subst hs; simp [h0]
    · split at hs
      · simp at hs
      · simp only [Option.some.injEq] at hs; subst hs; simp [getNextWork, h0]
    · simp at hs
  | main mc =>
    simp only [step] at hs
    unfold stepMain at hs
    split at hs
    · simp only [Option.some.injEq] at hs; subst hs; simp [h0]
    · split at hs
      · simp only [Option.some.injEq] at hs; subst hs; simp [h0]
      · split at hs
        · simp only [Option.some.injEq] at hs; subst hs; simp [deqReturn, h0]
        · simp only [Option.some.injEq] at hs; subst hs; simp [h0]
    · simp only [Option.some.injEq] at hs; subst hs; simp [h0]
    · simp only [Option.some.injEq] at hs; subst hs; simp [h0]
    · simp only [Option.some.injEq] at hs; subst hs; simp [submitBody, h0]
    · simp only [Option.some.injEq] at hs; subst hs
      unfold deqTry deqWaitOrNull deqReturn
      split <;> (try split) <;> (try split) <;> simp [h0]
    · split at hs
      · simp only [Option.some.injEq] at hs; subst hs
        unfold deqTry deqWaitOrNull deqReturn
        split <;> (try split) <;> (try split) <;> simp [h0]
      · simp at hs
    · simp only [Option.some.injEq] at hs; subst hs; simp [h0]
    · rename_i hmain
      simp only [Option.some.injEq] at hs; subst hs; simp [hmain]
    · split at hs
      · split at hs
        · simp only [Option.some.injEq] at hs; subst hs; simp [h0]
        · simp only [Option.some.injEq] at hs; subst hs; simp [h0]
      · simp at hs
    · simp at hs

/-- **`submit` reports the failure**: it returns the current status; if that is non-zero nothing is enqueued. -/
theorem failure_reported_submit {cfg : Cfg} {s s' : State} {d : Nat} (hm : s.main = .submitLock d)
    (hs : step cfg s (.main (.cont false)) = some s') :
    s'.rets = s.rets ++ [.submit s.status] ∧ s'.main = .idle ∧
    (s.status ≠ 0 → s'.queue = s.queue ∧ s'.submitted = s.submitted ∧ s'.itemCount = s.itemCount) := by
  simp only [step, stepMain, hm, Option.some.injEq] at hs
  subst hs
  refine ⟨?_, ?_, ?_⟩
  · unfold submitBody; by_cases h0 : s.status = 0 <;> simp [h0]
  · unfold submitBody; by_cases h0 : s.status = 0 <;> simp [h0]
  · intro h0; simp [submitBody, h0]

/-- instance: at the lock of `submit 1` with status −5 — the call returns −5 and enqueues nothing -/
example : (run cfgF (init 1) schFS).main = .submitLock 1 ∧ (run cfgF (init 1) schFS).status = -5 := by decide
example : ∃ s', step cfgF (run cfgF (init 1) schFS) (.main (.cont false)) = some s' ∧
    s'.rets = (run cfgF (init 1) schFS).rets ++ [.submit (-5)] ∧ s'.queue = (run cfgF (init 1) schFS).queue := by
  obtain ⟨s', h⟩ := Option.isSome_iff_exists.1
    (show (step cfgF (run cfgF (init 1) schFS) (.main (.cont false))).isSome = true by decide)
  have h1 := failure_reported_submit (d := 1) (by decide) h
  have hst : (run cfgF (init 1) schFS).status = -5 := by decide
  rw [hst] at h1
  exact ⟨s', h, h1.1, (h1.2.2 (by decide)).1⟩

/-- **`get_status` reports it.** -/
theorem failure_reported_get_status {cfg : Cfg} {s s' : State} (hm : s.main = .statusLock)
    (hs : step cfg s (.main (.cont false)) = some s') :
    s'.rets = s.rets ++ [.status s.status] ∧ s'.main = .idle := by
  simp only [step, stepMain, hm, Option.some.injEq] at hs
  subst hs
  exact ⟨rfl, rfl⟩

/-- instance: `get_status` after the failure returns −5 -/
example : ∃ s', step cfgF (run cfgF (init 1) schFG) (.main (.cont false)) = some s' ∧
    s'.rets = (run cfgF (init 1) schFG).rets ++ [.status (-5)] := by
  obtain ⟨s', h⟩ := Option.isSome_iff_exists.1
    (show (step cfgF (run cfgF (init 1) schFG) (.main (.cont false))).isSome = true by decide)
  have h1 := failure_reported_get_status (by decide) h
  have hst : (run cfgF (init 1) schFG).status = -5 := by decide
  rw [hst] at h1
  exact ⟨s', h, h1.1⟩

/-- **`dequeue` after a failure does not wait** (repaired code): holding the lock with a non-zero status it
returns at once — the next item in submission order if that one is already done, otherwise NULL (after which
the caller finds the failure with `get_status`, as `dequeue_block` in the block processor does). -/
theorem failure_reported_dequeue {cfg : Cfg} {n : Nat} {s s' : State} (hrep : cfg.repaired = true)
    (hr : Reachable cfg n s) (h0 : s.status ≠ 0) (spur : Bool)
    (hm : s.main = .deqLock ∨ ∃ sig, s.main = .deqWait sig)
    (hs : step cfg s (.main (.cont spur)) = some s') :
    s'.main = .idle ∧
    (s'.rets = s.rets ++ [.deq none] ∨
     ∃ d, s'.rets = s.rets ++ [.deq (some d)] ∧ s.submitted[s.returned.length]? = some d ∧
          s'.returned = s.returned ++ [d]) := by
  have hA := inv_reachable hr
  have key : s' = deqTry cfg s := by
    rcases hm with hm | ⟨sig, hm⟩
    · simp only [step, stepMain, hm] at hs
      cases spur <;> simp at hs
      exact hs.symm
    · simp only [step, stepMain, hm] at hs
      split at hs
      · simp only [Option.some.injEq] at hs; exact hs.symm
      · simp at hs
  subst key
  have hin : s.main.inDeq := by
    rcases hm with hm | ⟨sig, hm⟩ <;> (rw [hm]; trivial)
  obtain ⟨hsd, _⟩ := hA.mainDeq hin
  have hnd := hA.nd
  rw [hsd] at hnd
  simp only [length_nil, Nat.add_zero] at hnd
  have hnull : (deqWaitOrNull cfg s).main = .idle ∧ (deqWaitOrNull cfg s).rets = s.rets ++ [.deq none] := by
    unfold deqWaitOrNull; simp [hrep, h0]
  unfold deqTry
  split
  · exact ⟨hnull.1, Or.inl hnull.2⟩
  · rename_i it r hd
    split
    · rename_i ht
      refine ⟨rfl, Or.inr ⟨it.data, rfl, ?_, rfl⟩⟩
      have := hA.data it (Or.inr (Or.inl (by rw [hd]; exact mem_cons_self)))
      rw [ht, hnd] at this
      exact this
    · exact ⟨hnull.1, Or.inl hnull.2⟩

/-! ### a pool without failures behaves like the serial pool -/

/-- **Healthy pool = serial pool, return value by return value.**  If no callback ever fails, then as long as
`destroy` has not taken the lock the status is 0 in every reachable state: `submit` returns 0 and enqueues,
`get_status` returns 0 (`failure_reported_submit`, `failure_reported_get_status` give the values), exactly as
`threadpool_serial.c` does. -/
theorem healthy_status_zero {cfg : Cfg} {n : Nat} {s : State} (hok : ∀ d, cfg.rcOf d = 0)
    (hr : Reachable cfg n s) (hj : ¬ s.main.inJoin) : s.status = 0 := by
  rcases Decidable.em (s.status = 0) with h | h
  · exact h
  · rcases (failure_recorded hr).1 h with h1 | ⟨p, _, hp⟩
    · exact absurd h1 hj
    · rw [hok] at hp; exact absurd hp.symm h

/-- … and `dequeue` answers NULL only when the pool is empty (every submitted item has been handed back) or —
repaired code — after a failure.  Together with `fifo` (the `k`-th non-NULL answer is the `k`-th submitted item)
this is the serial pool's `dequeue`. -/
theorem dequeue_null_only_if {cfg : Cfg} {s s' : State} (c : Choice) (hs : step cfg s c = some s')
    (hret : s'.rets = s.rets ++ [.deq none]) :
    s.itemCount = 0 ∨ (cfg.repaired = true ∧ s.status ≠ 0) := by
  cases c with
  | worker i spur =>
    exfalso
    simp only [step] at hs
    unfold stepWorker at hs
    have hg : ∀ (t : State) (j : Nat), (getNextWork t j).rets = t.rets := by
      intro t j; unfold getNextWork; split
      · rfl
      · split <;> rfl
    split at hs
    · simp at hs
    · split at hs
      · simp at hs
      · simp only [Option.some.injEq] at hs; subst hs; rw [hg] at hret; exact rets_ne_self _ _ hret
    · split at hs
      · simp only [Option.some.injEq] at hs; subst hs; rw [hg] at hret; exact rets_ne_self _ _ hret
      · simp at hs
    · split at hs
      · simp at hs
      · simp only [Option.some.injEq] at hs; subst hs; exact rets_ne_self _ _ hret
    · split at hs
      · simp at hs
      · simp only [Option.some.injEq] at hs; subst hs; rw [hg] at hret; exact rets_ne_self _ _ hret
    · simp at hs
  | main mc =>
    simp only [step] at hs
    have hwait : ∀ t : State, (deqWaitOrNull cfg t).rets = t.rets ++ [.deq none] →
        cfg.repaired = true ∧ t.status ≠ 0 := by
      intro t ht
      unfold deqWaitOrNull at ht
      split at ht
      · rename_i hc
        simp only [Bool.and_eq_true, decide_eq_true_eq] at hc
        exact hc
      · exact absurd ht (rets_ne_self _ _)
    have htry : (deqTry cfg s).rets = s.rets ++ [.deq none] → cfg.repaired = true ∧ s.status ≠ 0 := by
      intro ht
      unfold deqTry at ht
      split at ht
      · exact hwait s ht
      · split at ht
        · simp [deqReturn] at ht
        · exact hwait s ht
    unfold stepMain at hs
    split at hs
    · simp only [Option.some.injEq] at hs; subst hs; exact absurd hret (rets_ne_self _ _)
    · split at hs
      · rename_i h0; exact Or.inl h0
      · split at hs
        · simp only [Option.some.injEq] at hs; subst hs; simp [deqReturn] at hret
        · simp only [Option.some.injEq] at hs; subst hs; exact absurd hret (rets_ne_self _ _)
    · simp only [Option.some.injEq] at hs; subst hs; exact absurd hret (rets_ne_self _ _)
    · simp only [Option.some.injEq] at hs; subst hs; exact absurd hret (rets_ne_self _ _)
    · simp only [Option.some.injEq] at hs; subst hs
      exfalso; revert hret
      unfold submitBody; by_cases h0 : s.status = 0 <;> simp [h0]
    · simp only [Option.some.injEq] at hs; subst hs; exact Or.inr (htry hret)
    · split at hs
      · simp only [Option.some.injEq] at hs; subst hs; exact Or.inr (htry hret)
      · simp at hs
    · simp only [Option.some.injEq] at hs; subst hs; simp at hret
    · simp only [Option.some.injEq] at hs; subst hs
      exfalso; revert hret
      show (if s.workers.length = 0 then s.rets ++ [Ret.destroyed] else s.rets) ≠ s.rets ++ [.deq none]
      split
      · simp
      · exact rets_ne_self _ _
    · split at hs
      · split at hs
        · simp only [Option.some.injEq] at hs; subst hs; exact absurd hret (rets_ne_self _ _)
        · simp only [Option.some.injEq] at hs; subst hs; simp at hret
      · simp at hs
    · simp at hs

/-- **A failure-free threaded pool refines the serial pool.**  If no callback fails then, under every schedule
(any number of workers, spurious wake-ups included), whenever the main thread is between two API calls — or has
returned from `destroy` — the values its calls have returned so far are exactly the values
`threadpool_serial.c` returns for the same sequence of calls. -/
theorem refines_serial {cfg : Cfg} {n : Nat} {s : State} (hok : ∀ d, cfg.rcOf d = 0) (hr : Reachable cfg n s)
    (hidle : s.main = .idle ∨ s.main = .finished) :
    s.rets = (Serial.run cfg.rcOf Serial.init s.calls).rets := by
  obtain ⟨cdone, h1, h2, _⟩ := invR_reachable hok hr
  have : (mainPending s.main).toList = [] := by
    rcases hidle with h | h <;> (rw [h]; rfl)
  rw [this, append_nil] at h1
  rw [h1, h2]

/-- … and while a call is in progress, for the calls that have returned -/
theorem refines_serial_prefix {cfg : Cfg} {n : Nat} {s : State} (hok : ∀ d, cfg.rcOf d = 0)
    (hr : Reachable cfg n s) :
    ∃ cdone, s.calls = cdone ++ (mainPending s.main).toList ∧
      s.rets = (Serial.run cfg.rcOf Serial.init cdone).rets := by
  obtain ⟨cdone, h1, h2, _⟩ := invR_reachable hok hr
  exact ⟨cdone, h1, h2.symm⟩

/-- instance: a `dequeue` call is pending (main waits on `done_cond`) -/
example := refines_serial_prefix (cfg := cfgOk) (fun _ => rfl) (run_reachable cfgOk 2 schW)

/-! ### beyond the base model: the per-worker user pointer, `set_worker_ptr`, `calloc` failure in `submit`

`Model/C09PoolX.lean` adds `pool->workers[i].user`, `set_worker_ptr`, the pointer `worker_proc` hands to the
callback and the allocation-failure return of `submit` on top of the base model.  `XReachable cfg n xs` = some
finite list of extended scheduler choices leads from `xinit n` to `xs`. -/

/-- **Extended executions are base executions.**  The base component of every state an extended execution
reaches is reachable in the base model — so every theorem above (`fifo`, `at_most_once`, `no_deadlock`, …) holds
of it, whatever `set_worker_ptr` calls and failed allocations are interleaved. -/
theorem x_projects {cfg : Cfg} {n : Nat} {xs : XState} (hr : XReachable cfg n xs) : Reachable cfg n xs.base :=
  xreachable_base hr

/-- executions of the extended model as literal lists of choices -/
theorem xrun_reachable (cfg : Cfg) (n : Nat) (cs : List XChoice) : XReachable cfg n (xrun cfg (xinit n) cs) := by
  suffices h : ∀ xs, XReachable cfg n xs → XReachable cfg n (xrun cfg xs cs) from h _ .init
  induction cs with
  | nil => intro xs hxs; exact hxs
  | cons c cs ih =>
    intro xs hxs
    unfold xrun
    split
    · rename_i xs' hstep
      exact ih xs' (.step c hxs hstep)
    · exact ih xs hxs

/-- **No two workers use the same per-worker context at the same time.**  Usage discipline (what the block
processor does, block_processor.c `set_worker_ptr(i, worker_i)` with one `worker_data_t` per worker): every
non-NULL pointer ever passed to `set_worker_ptr` belongs to one worker (`own p`).  Then in every state of every
execution — `set_worker_ptr` may be called at any time, also while callbacks run, any number of times — the
contexts two distinct workers' running callbacks are using are different.  (`ctxInUse xs i` is the pointer
worker `i` read from its own `user` field when it entered the callback it is in.) -/
theorem ctx_exclusive_users {cfg : Cfg} {n : Nat} {xs : XState} (own : Nat → Nat) (hr : XReachable cfg n xs)
    (hd : ∀ i p, XEvent.setPtr i p ∈ xs.log → p ≠ 0 → own p = i) (i j p q : Nat) (hij : i ≠ j)
    (hi : ctxInUse xs i = some p) (hj : ctxInUse xs j = some q) (hp : p ≠ 0) : p ≠ q := by
  have hX := invX_reachable own hr hd
  intro hpq
  have h1 : xs.ctxAt[i]? = some p := by
    unfold ctxInUse at hi; split at hi
    · exact hi
    · simp at hi
  have h2 : xs.ctxAt[j]? = some q := by
    unfold ctxInUse at hj; split at hj
    · exact hj
    · simp at hj
  have e1 := hX.ctxAt i p h1 hp
  have e2 := hX.ctxAt j q h2 (by rw [← hpq]; exact hp)
  rw [← hpq] at e2
  exact hij (e1.symm.trans e2)

/-- instance with the usage discipline `hd` discharged from the literal log: pointers 11 and 33 belong to worker 0, 22 to
worker 1; worker 0 is re-pointed to 33 while its callback runs on 11 -/
example : (11 : Nat) ≠ 22 :=
  ctx_exclusive_users (cfg := cfgOk) (n := 2)
    (xs := xrun cfgOk (xinit 2) (xschP ++ [.base (.worker 0 false), .setPtr 0 33, .base (.worker 1 false),
      .base (.main (.cont false))]))
    (fun p => if p = 22 then 1 else 0) (xrun_reachable cfgOk 2 _)
    (by
      have hlog : (xrun cfgOk (xinit 2) (xschP ++ [.base (.worker 0 false), .setPtr 0 33, .base (.worker 1 false),
          .base (.main (.cont false))])).log = [.setPtr 0 11, .setPtr 1 22, .enter 0 11 5, .setPtr 0 33, .enter 1 22 6] := by
        decide
      intro i p h hp
      rw [hlog] at h
      simp at h
      rcases h with ⟨rfl, rfl⟩ | ⟨rfl, rfl⟩ | ⟨rfl, rfl⟩ <;> simp)
    0 1 11 22 (by decide) (by decide) (by decide) (by decide)

/-- a context is in use exactly while its worker is inside the callback, and it is the value the worker's
`user` field had when the callback was entered: entering the callback (the step in which worker `i` takes an
item from the queue) reads `users[i]`, logs the `enter` event with it, and leaves every other worker's context
alone -/
theorem ctx_read_at_entry {cfg : Cfg} {n : Nat} {xs xs' : XState} (hr : XReachable cfg n xs) (i : Nat) (spur : Bool)
    (it : Item) (hs : xstep cfg xs (.base (.worker i spur)) = some xs')
    (hold : ∀ it', xs.base.workers[i]? ≠ some (.working it'))
    (hnew : xs'.base.workers[i]? = some (.working it)) :
    ctxInUse xs' i = some (xs.users.getD i 0) ∧
    xs'.log = xs.log ++ [.enter i (xs.users.getD i 0) it.data] ∧
    xs'.users = xs.users ∧ ∀ j, j ≠ i → xs'.ctxAt[j]? = xs.ctxAt[j]? := by
  obtain ⟨_, hlc, hlw⟩ := xlens_reachable hr
  have hi : i < xs.ctxAt.length := by
    have := (List.getElem?_eq_some_iff.1 hnew).1
    have hl := step_length cfg (.worker i spur) (s := xs.base) (s' := xs'.base)
    simp only [xstep] at hs
    unfold xstepWorker at hs
    split at hs
    · simp at hs
    · rename_i b' hb
      have hb' : xs'.base = b' := by
        split at hs
        · simp only [Option.some.injEq] at hs; subst hs; rfl
        · split at hs <;> (simp only [Option.some.injEq] at hs; subst hs; rfl)
      rw [hb'] at hl this
      have := hl (by simp only [step]; exact hb)
      omega
  simp only [xstep] at hs
  unfold xstepWorker at hs
  split at hs
  · simp at hs
  · split at hs
    · rename_i it' hw
      exact absurd hw (hold it')
    · split at hs
      · rename_i it2 hw2
        simp only [Option.some.injEq] at hs; subst hs
        simp only at hnew
        rw [hw2] at hnew
        simp only [Option.some.injEq, WPc.working.injEq] at hnew
        subst hnew
        refine ⟨?_, rfl, rfl, ?_⟩
        · unfold ctxInUse
          simp only [hw2]
          rw [List.getElem?_set]
          simp [hi]
        · intro j hj
          rw [List.getElem?_set]
          simp [Ne.symm hj]
      · rename_i hnw
        simp only [Option.some.injEq] at hs; subst hs
        exact absurd hnew (hnw it)

/-- instance: worker 0 (pointer 11 set before) takes item 5 from the queue and enters the callback with context 11 -/
example : ∃ xs', xstep cfgOk (xrun cfgOk (xinit 2) xschP) (.base (.worker 0 false)) = some xs' ∧
    ctxInUse xs' 0 = some 11 := by
  obtain ⟨xs', h⟩ := Option.isSome_iff_exists.1
    (show (xstep cfgOk (xrun cfgOk (xinit 2) xschP) (.base (.worker 0 false))).isSome = true by decide)
  have hw : ((xstep cfgOk (xrun cfgOk (xinit 2) xschP) (.base (.worker 0 false))).map
      (fun t => decide (t.base.workers[0]? = some (.working ⟨0, 5⟩)))) = some true := by decide
  rw [h] at hw
  simp only [Option.map_some, Option.some.injEq, decide_eq_true_eq] at hw
  have hw0 : (xrun cfgOk (xinit 2) xschP).base.workers[0]? = some .start := by decide
  have hu : (xrun cfgOk (xinit 2) xschP).users.getD 0 0 = 11 := by decide
  have := ctx_read_at_entry (xrun_reachable cfgOk 2 xschP) 0 false ⟨0, 5⟩ h (by intro it'; rw [hw0]; simp) hw
  rw [hu] at this
  exact ⟨xs', h, this.1⟩

/-- **`set_worker_ptr` returns at once and does not disturb a running callback**: at its lock the main thread is
always enabled; the step stores the pointer and changes nothing else — in particular not the context any running
callback is using. -/
theorem set_worker_ptr_returns (cfg : Cfg) (xs : XState) (i p : Nat) (h : xs.setPtr = some (i, p)) :
    ∃ xs', xstep cfg xs (.base (.main (.cont false))) = some xs' ∧ xs'.setPtr = none ∧
      xs'.users = xs.users.set i p ∧ xs'.base = xs.base ∧ xs'.log = xs.log ∧ ∀ w, ctxInUse xs' w = ctxInUse xs w := by
  refine ⟨{ xs with users := xs.users.set i p, setPtr := none }, ?_, rfl, rfl, rfl, rfl, fun w => rfl⟩
  simp [xstep, h]

/-- **`submit` with a failing `calloc`**: if the `recycle` list is empty the call returns −1 (the `oom` event) and
nothing else changes — no ticket is consumed, nothing is enqueued, no thread is woken; if `recycle` is not empty
`calloc` is not called and the call is an ordinary `submit`. -/
theorem submit_oom (cfg : Cfg) (xs : XState) (d : Nat) (hm : xs.base.main = .idle) (hp : xs.setPtr = none) :
    (xs.base.recycle = 0 → xstep cfg xs (.submitOom d) = some { xs with log := xs.log ++ [.oom d] }) ∧
    (xs.base.recycle ≠ 0 → xstep cfg xs (.submitOom d) = xstep cfg xs (.base (.main (.call (.submit d))))) := by
  constructor
  · intro h0; simp [xstep, hm, hp, h0]
  · intro h0; simp [xstep, hm, hp, h0]

/-- **No dead-lock in the extended model** (repaired `dequeue`, at least one worker): whenever the main thread is
inside a call — `set_worker_ptr` included — some thread can take a strict step that is not a new API call. -/
theorem x_no_deadlock {cfg : Cfg} {n : Nat} {xs : XState} (hrep : cfg.repaired = true) (hn : 0 < n)
    (hr : XReachable cfg n xs) (hcall : xmainInCall xs = true) :
    ∃ bc xs', bc.strict = true ∧ (∀ op, bc ≠ .main (.call op)) ∧ xstep cfg xs (.base bc) = some xs' := by
  cases hsp : xs.setPtr with
  | some ip =>
    obtain ⟨i, p⟩ := ip
    obtain ⟨xs', h, _⟩ := set_worker_ptr_returns cfg xs i p hsp
    exact ⟨.main (.cont false), xs', rfl, by intro op; simp, h⟩
  | none =>
    have hb : mainInCall xs.base = true := by
      simpa [xmainInCall, hsp] using hcall
    obtain ⟨c, s', hc, hs⟩ := no_deadlock hrep hn (x_projects hr) hb
    unfold stepStrict at hs
    split at hs
    · rename_i hstrict
      cases c with
      | main mc =>
        simp only [step] at hs
        exact ⟨.main mc, { xs with base := s' }, hstrict, hc, by simp [xstep, hsp, hs]⟩
      | worker i spur =>
        simp only [step] at hs
        obtain ⟨xs', hx, _⟩ := xstepWorker_isSome cfg xs i spur hs
        exact ⟨.worker i spur, xs', hstrict, hc, by simp only [xstep]; exact hx⟩
    · simp at hs

/-- instances: the main thread inside `set_worker_ptr`; and inside `dequeue` while both workers hold an item -/
example := x_no_deadlock (cfg := cfgOk) rfl (by decide) (xrun_reachable cfgOk 2 [.setPtr 0 11]) (by decide)
example := x_no_deadlock (cfg := cfgOk) rfl (by decide)
  (xrun_reachable cfgOk 2 (xschP ++ [.base (.worker 0 false), .base (.worker 1 false), .base (.main (.call .dequeue)),
    .base (.main (.cont false))])) (by decide)

/-- … as a statement about the `dl=` flag the driver and the harness print -/
theorem x_no_deadlock_flag {cfg : Cfg} {n : Nat} {xs : XState} (hrep : cfg.repaired = true) (hn : 0 < n)
    (hr : XReachable cfg n xs) : xisDeadlock xs = false := by
  cases hsp : xs.setPtr with
  | some ip => simp [xisDeadlock, xmainContEnabled, hsp]
  | none =>
    have := no_deadlock_flag hrep hn (x_projects hr)
    simpa [xisDeadlock, xmainInCall, xmainContEnabled, hsp, isDeadlock] using this

example := x_no_deadlock_flag (cfg := cfgOk) rfl (by decide) (xrun_reachable cfgOk 2 xschP)

/-! ### the granularity of the base model is sound: lock/unlock granularity refines it -/

/-- **Refinement.**  Every execution of the model at lock/unlock granularity (`Model/C09PoolFine.lean`: every step that
passes through the mutex split into lock granted / critical section / lock-free tail, with lock-free segments of other
threads interleaved anywhere, the tails' effects happening late) reaches only states whose abstraction `fabs` —
complete the main thread's pending tail, read a worker that has unlocked as being where its tail takes it — is reachable
in the base model.  So each base-model step is atomic *in effect*: nothing a thread does between its unlock and its next
blocking point can be observed by, or depends on, what other threads do meanwhile. -/
theorem fine_refines_coarse {cfg : Cfg} {n : Nat} {fs : FState} (hr : FReachable cfg n fs) :
    Reachable cfg n (fabs fs) := freachable_abs hr

/-- literal schedules at fine granularity -/
theorem frun_reachable (cfg : Cfg) (n : Nat) (cs : List Choice) : FReachable cfg n (frun cfg (finit n) cs) := by
  suffices h : ∀ fs, FReachable cfg n fs → FReachable cfg n (frun cfg fs cs) from h _ .init
  induction cs with
  | nil => intro fs hfs; exact hfs
  | cons c cs ih =>
    intro fs hfs
    unfold frun
    split
    · rename_i fs' hstep
      exact ih fs' (.step c hfs hstep)
    · exact ih fs hfs

/-- **Mutual exclusion** at fine granularity, for every pair of threads: while the main thread holds the mutex no
worker does, and two workers never hold it together (two worker slots in phase `locked` are the same slot). -/
theorem fine_mutex {cfg : Cfg} {n : Nat} {fs : FState} (hr : FReachable cfg n fs) :
    (fs.fm.isLocked = true → ∀ (j : Nat) (w : FW), fs.fw[j]? = some w → w.isLocked = false) ∧
    (∀ (j k : Nat) (w w' : FW), fs.fw[j]? = some w → fs.fw[k]? = some w' → w.isLocked = true → w'.isLocked = true →
      j = k) :=
  ⟨mx_reachable hr, mxw_reachable hr⟩

/-- instances: (1) the main thread holds the mutex inside `destroy` while worker 0 sleeps in `pthread_cond_wait`;
(2) worker 1 holds the mutex, worker 0 and the main thread (inside `submit`) are queued behind it — the lock is not
granted to either (their steps are disabled) -/
example :
    let fs := frun ⟨true, fun _ => 0⟩ (finit 1)
      [.worker 0 false, .worker 0 false, .main (.call .destroy), .main (.cont false)]
    fs.fm = .locked .destroy ∧ fs.fw = [.at (.waitQ false)] := by decide
example := (fine_mutex (frun_reachable ⟨true, fun _ => 0⟩ 1
    [.worker 0 false, .worker 0 false, .main (.call .destroy), .main (.cont false)])).1 (by decide) 0 _ rfl
example :
    let fs := frun ⟨true, fun _ => 0⟩ (finit 2) [.main (.call (.submit 3)), .worker 1 false, .worker 0 false, .main (.cont false)]
    fs.fm = .at (.submitLock 3) ∧ fs.fw = [.at .start, .locked .start] ∧
    fstep ⟨true, fun _ => 0⟩ fs (.worker 0 false) = none ∧ fstep ⟨true, fun _ => 0⟩ fs (.main (.cont false)) = none := by
  decide
example := (fine_mutex (frun_reachable ⟨true, fun _ => 0⟩ 2
    [.main (.call (.submit 3)), .worker 1 false, .worker 0 false, .main (.cont false)])).2 1 1 _ _ rfl rfl rfl rfl

/-- **Safety at fine granularity**, on the fine state's own history: FIFO, and no ticket's callback runs twice. -/
theorem fine_safety {cfg : Cfg} {n : Nat} {fs : FState} (hr : FReachable cfg n fs) :
    fs.returned <+: fs.submitted ∧ (fs.started.map (·.2.ticket)).Nodup := by
  have hR := fine_refines_coarse hr
  have h1 := fifo hR
  have h2 := (at_most_once hR).1
  have hsub : (fabs fs).submitted = fs.submitted := by
    unfold fabs applyTail; split <;> rfl
  have hst : (fabs fs).started = fs.started := by
    unfold fabs applyTail; split <;> rfl
  have hret : fs.returned <+: (fabs fs).returned := by
    unfold fabs applyTail
    split <;> first | exact prefix_append _ _ | exact prefix_rfl
  rw [hsub] at h1
  rw [hst] at h2
  exact ⟨hret.trans h1, h2⟩

example := fine_safety (frun_reachable cfgOk 1
  [.worker 0 false, .worker 0 false, .main (.call .destroy), .main (.cont false), .main (.cont false),
   .worker 0 false, .worker 0 false])

/-- **No dead-lock at fine granularity** (repaired `dequeue`, at least one worker, no spurious wake-ups needed): whenever the
main thread is inside an API call — at a blocking point, holding the mutex, or in a lock-free tail — some thread can take a
step that is not a new API call. -/
theorem fine_no_deadlock {cfg : Cfg} {n : Nat} {fs : FState} (hrep : cfg.repaired = true) (hn : 0 < n)
    (hr : FReachable cfg n fs) (hcall : fmainInCall fs = true) :
    ∃ c fs', c.strict = true ∧ (∀ op, c ≠ .main (.call op)) ∧ fstep cfg fs c = some fs' := by
  have mk : ∀ c : Choice, c.strict = true → (∀ op, c ≠ .main (.call op)) → (fstep cfg fs c).isSome = true →
      ∃ c fs', c.strict = true ∧ (∀ op, c ≠ .main (.call op)) ∧ fstep cfg fs c = some fs' := by
    intro c h1 h2 h3
    obtain ⟨fs', h⟩ := Option.isSome_iff_exists.1 h3
    exact ⟨c, fs', h1, h2, h⟩
  have mainC : ∀ op, Choice.main (.cont false) ≠ .main (.call op) := by intro op; simp
  cases hfm : fs.fm with
  | locked l =>
    cases l <;> exact mk (.main (.cont false)) rfl mainC (by simp [fstep, fstepMain, hfm])
  | unlocked t =>
    exact mk (.main (.cont false)) rfl mainC (by simp [fstep, fstepMain, hfm])
  | «at» pc =>
    by_cases hall : ∀ (j : Nat) (w : FW), fs.fw[j]? = some w → ∃ pc', w = .at pc'
    · -- every thread is at a blocking point of the base model: the mutex is free, use the base model's theorem
      have hfree : mutexFree fs = true := by
        simp only [mutexFree, hfm, FM.isLocked, Bool.not_false, Bool.true_and, List.all_eq_true]
        intro w hw
        obtain ⟨j, hj⟩ := List.getElem?_of_mem hw
        obtain ⟨pc', hpc⟩ := hall j w hj
        subst hpc; rfl
      have hab : fabs fs = fbase fs := fabs_of_at fs pc hfm
      have hR : Reachable cfg n (fbase fs) := by rw [← hab]; exact freachable_abs hr
      have hmain : (fbase fs).main = pc := by simp [fbase, hfm, absM]
      have hic : mainInCall (fbase fs) = true := by
        unfold fmainInCall at hcall
        rw [hfm] at hcall
        unfold mainInCall
        rw [hmain]
        cases pc <;> simp_all
      obtain ⟨c, s', hc, hs⟩ := no_deadlock hrep hn hR hic
      unfold stepStrict at hs
      split at hs
      · rename_i hstrict
        cases c with
        | main mc =>
          cases mc with
          | call op => exact absurd rfl (hc op)
          | cont spur =>
            have hsp : spur = false := by cases spur <;> simp_all [Choice.strict]
            subst hsp
            simp only [step] at hs
            unfold stepMain at hs
            rw [hmain] at hs
            cases pc with
            | idle => simp at hs
            | finished => simp at hs
            | submitLock d => exact mk (.main (.cont false)) rfl mainC (by simp [fstep, fstepMain, hfm, hfree])
            | deqLock => exact mk (.main (.cont false)) rfl mainC (by simp [fstep, fstepMain, hfm, hfree])
            | statusLock => exact mk (.main (.cont false)) rfl mainC (by simp [fstep, fstepMain, hfm, hfree])
            | destroyLock => exact mk (.main (.cont false)) rfl mainC (by simp [fstep, fstepMain, hfm, hfree])
            | deqWait sig =>
              cases sig with
              | true => exact mk (.main (.cont false)) rfl mainC (by simp [fstep, fstepMain, hfm, hfree])
              | false => simp at hs
            | join i =>
              simp only at hs
              split at hs
              · rename_i hex
                have hfi : fs.fw[i]? = some (.at .exited) := by
                  rw [fbase_workers_get] at hex
                  cases hw : fs.fw[i]? with
                  | none => rw [hw] at hex; simp at hex
                  | some w =>
                    obtain ⟨pc', hpc⟩ := hall i w hw
                    subst hpc
                    rw [hw] at hex
                    simp only [Option.map_some, absW, Option.some.injEq] at hex
                    rw [hex]
                by_cases hlt : i + 1 < fs.fw.length
                · exact mk (.main (.cont false)) rfl mainC (by simp [fstep, fstepMain, hfm, hfi, hlt])
                · exact mk (.main (.cont false)) rfl mainC (by simp [fstep, fstepMain, hfm, hfi, hlt])
              · simp at hs
        | worker i spur =>
          have hsp : spur = false := by cases spur <;> simp_all [Choice.strict]
          subst hsp
          simp only [step] at hs
          unfold stepWorker at hs
          rw [fbase_workers_get] at hs
          cases hw : fs.fw[i]? with
          | none => rw [hw] at hs; simp at hs
          | some w =>
            obtain ⟨pc', hpc⟩ := hall i w hw
            subst hpc
            rw [hw] at hs
            simp only [Option.map_some, absW] at hs
            cases pc' with
            | start => exact mk (.worker i false) rfl (by intro op; simp) (by simp [fstep, fstepWorker, hw, hfree])
            | waitQ sig =>
              cases sig with
              | true => exact mk (.worker i false) rfl (by intro op; simp) (by simp [fstep, fstepWorker, hw, hfree])
              | false => simp at hs
            | working it => exact mk (.worker i false) rfl (by intro op; simp) (by simp [fstep, fstepWorker, hw])
            | finishing it rc => exact mk (.worker i false) rfl (by intro op; simp) (by simp [fstep, fstepWorker, hw, hfree])
            | exited => simp at hs
      · simp at hs
    · -- some worker is past a lock acquisition or an unlock: it can go on
      have : ∃ (j : Nat) (w : FW), fs.fw[j]? = some w ∧ ∀ pc', w ≠ .at pc' := by
        apply Classical.byContradiction
        intro hne
        apply hall
        intro j w hj
        apply Classical.byContradiction
        intro hnp
        exact hne ⟨j, w, hj, fun pc' he => hnp ⟨pc', he⟩⟩
      obtain ⟨j, w, hj, hw⟩ := this
      obtain ⟨fs', h⟩ := fw_phase_steps cfg fs j w hj hw
      exact ⟨.worker j false, fs', rfl, by intro op; simp, by simp only [fstep]; exact h⟩

/-- instance: the main thread holds the mutex inside `destroy` (worker 0 sleeps on `queue_cond`) -/
example := fine_no_deadlock (cfg := cfgOk) rfl (by decide)
  (frun_reachable cfgOk 1 [.worker 0 false, .worker 0 false, .main (.call .destroy), .main (.cont false)]) (by decide)


/-! ### non-vacuity -/

/-- a concrete execution (2 workers, items 7 and 9, worker 1 overtakes worker 0) that reaches a state where
everything submitted has been handed back — the hypothesis of `exactly_once` is satisfiable -/
example :
    let s := run ⟨true, fun _ => 0⟩ (init 2)
      [.main (.call (.submit 7)), .main (.cont false), .main (.call (.submit 9)), .main (.cont false),
       .worker 0 false, .worker 1 false, .worker 1 false, .worker 1 false, .worker 0 false, .worker 0 false,
       .main (.call .dequeue), .main (.cont false), .main (.call .dequeue), .main (.cont false)]
    s.returned = [7, 9] ∧ s.submitted = [7, 9] ∧ s.started.map (·.1) = [1, 0] := by decide

/-- the hypotheses of `failure_reported_dequeue` and `no_deadlock` are satisfiable: the D1 schedule on the
repaired pool reaches `deqLock` with status −5 and a ticket still queued; the next step returns NULL -/
example :
    let cfg : Cfg := ⟨true, fun d => if d = 0 then -5 else 0⟩
    let s := run cfg (init 1)
      [.main (.call (.submit 0)), .main (.cont false), .main (.call (.submit 1)), .main (.cont false),
       .worker 0 false, .worker 0 false, .worker 0 false,
       .main (.call .dequeue), .main (.cont false), .main (.call .dequeue)]
    s.main = .deqLock ∧ s.status = -5 ∧ s.queue = [⟨1, 1⟩] ∧ mainInCall s = true ∧
    ((step cfg s (.main (.cont false))).map (·.rets.getLast?)) = some (some (.deq none)) := by decide

/-- a state in which the main thread really waits unsignalled while a worker holds the awaited ticket
(the hypothesis `s.main = .deqWait false` of `no_lost_wakeup` is satisfiable) -/
example :
    let s := run ⟨true, fun _ => 0⟩ (init 2)
      [.main (.call (.submit 3)), .main (.cont false), .worker 1 false, .main (.call .dequeue), .main (.cont false)]
    s.main = .deqWait false ∧ s.nextDeq ∈ tkW s ∧ s.workers = [.start, .working ⟨0, 3⟩] := by decide

/-- `StaysInCall` is inhabited non-trivially: main waits in `dequeue` while worker 1 takes the item and runs the
callback (two steps inside the call) -/
example :
    let cfg : Cfg := ⟨true, fun _ => 0⟩
    let pre : List Choice := [.main (.call (.submit 3)), .main (.cont false), .main (.call .dequeue), .main (.cont false)]
    mainInCall (run cfg (init 2) pre) = true ∧
    StaysInCall cfg (run cfg (init 2) pre) [.worker 1 false, .worker 1 false]
      (run cfg (init 2) (pre ++ [.worker 1 false, .worker 1 false])) :=
  ⟨by decide,
   .cons (s1 := run ⟨true, fun _ => 0⟩ (init 2)
            [.main (.call (.submit 3)), .main (.cont false), .main (.call .dequeue), .main (.cont false), .worker 1 false])
     (by decide) (by decide) (.cons (by decide) (by decide) (.nil _))⟩

/-- `refines_serial` on a concrete out-of-order execution -/
example :
    let cfg : Cfg := ⟨true, fun _ => 0⟩
    let s := run cfg (init 2)
      [.main (.call (.submit 7)), .main (.cont false), .main (.call (.submit 9)), .main (.cont false),
       .worker 0 false, .worker 1 false, .worker 1 false, .worker 1 false, .worker 0 false, .worker 0 false,
       .main (.call .dequeue), .main (.cont false), .main (.call .getStatus), .main (.cont false)]
    s.main = .idle ∧ s.calls = [.submit 7, .submit 9, .dequeue, .getStatus] ∧
    s.rets = [.submit 0, .submit 0, .deq (some 7), .status 0] := by decide

/-- the hypotheses of `ctx_exclusive_users` are satisfiable non-trivially: two workers, pointers 11 and 22,
worker 0 is re-pointed to 33 *while its callback runs* — it keeps using 11, worker 1 uses 22 -/
example :
    let cfg : Cfg := ⟨true, fun _ => 0⟩
    let xs := xrun cfg (xinit 2)
      [.setPtr 0 11, .base (.main (.cont false)), .setPtr 1 22, .base (.main (.cont false)),
       .base (.main (.call (.submit 5))), .base (.main (.cont false)),
       .base (.main (.call (.submit 6))), .base (.main (.cont false)),
       .base (.worker 0 false), .setPtr 0 33, .base (.worker 1 false), .base (.main (.cont false))]
    ctxInUse xs 0 = some 11 ∧ ctxInUse xs 1 = some 22 ∧ xs.users = [33, 22] ∧
    xs.log = [.setPtr 0 11, .setPtr 1 22, .enter 0 11 5, .setPtr 0 33, .enter 1 22 6] := by decide

/-- `submit_oom`: first call on a fresh pool (empty `recycle`) fails and leaves the pool untouched -/
example :
    let cfg : Cfg := ⟨true, fun _ => 0⟩
    let xs := xrun cfg (xinit 1) [.submitOom 4]
    xs.base = init 1 ∧ xs.log = [.oom 4] := by decide

/-- a fine execution in which main's `destroy` tail is still pending while a worker, woken by the broadcast, already
re-checks the status: 1 worker; `destroy` call, lock granted, critical section (status −1, broadcast, unlock); then the
worker wakes, takes the lock and leaves its loop *before* the main thread has run the tail that brings it to
`pthread_join` — the hypotheses of `fine_refines_coarse` cover schedules the base model's granularity cannot express -/
example :
    let cfg : Cfg := ⟨true, fun _ => 0⟩
    let fs := frun cfg (finit 1)
      [.worker 0 false, .worker 0 false,                                  -- lock granted, queue empty: cond_wait
       .main (.call .destroy), .main (.cont false), .main (.cont false),  -- call, lock granted, critical section
       .worker 0 false, .worker 0 false]                                  -- woken: lock granted, critical section
    fs.fm = .unlocked .destroy ∧ fs.fw = [.unlocked none] ∧ fs.status = -1 ∧
    (fabs fs).main = .join 0 ∧ (fabs fs).workers = [.exited] := by decide


end Sqfs.C09
