/-
C09 — Worker pool: FIFO, exactly-once, deadlock-free under every interleaving.

Property theorems only (helpers: `Sqfs/Proofs/Pool.lean`; model: `Sqfs/Model/Pool.lean`, the small-step
machine of `lib/util/src/threadpool.c`).  Every theorem quantifies over

* any number `n` of workers, any number of submitted items, any callback-result function `cfg.rcOf`
  (so: any set of failing items), both variants of `dequeue` (`cfg.repaired`) unless stated otherwise;
* every execution: `Reachable cfg n s` is "some finite list of scheduler choices leads from
  `init n` to `s`", where a choice names the thread that runs to its next blocking point, the API call
  the main thread makes next, or a *spurious* wake-up of an unsignalled waiter (`run_reachable` ties the
  inductive formulation to literal lists of choices).

There is no bound anywhere: the obligations are inductions over the length of the execution.
-/
import Sqfs.Proofs.Pool
namespace Sqfs.C09
open Sqfs.Pool List

/-! ### the invariant -/

/-- the initial state satisfies the ticket-accounting invariant -/
theorem inv_init (n : Nat) : InvA (init n) := invA_init n

/-- every step — of any thread, including spurious wake-ups — preserves it -/
theorem inv_step (cfg : Cfg) {s s' : State} (c : Choice) (h : InvA s) (hs : step cfg s c = some s') :
    InvA s' := invA_step cfg c h hs

/-- hence it holds in every reachable state -/
theorem inv_reachable {cfg : Cfg} {n : Nat} {s : State} (hr : Reachable cfg n s) : InvA s :=
  invA_reachable hr

/-- executions as literal lists of scheduler choices: whatever the list, the state it leads to is reachable -/
theorem run_reachable (cfg : Cfg) (n : Nat) (cs : List Choice) : Reachable cfg n (run cfg (init n) cs) := by
  suffices h : ∀ s, Reachable cfg n s → Reachable cfg n (run cfg s cs) from h _ .init
  induction cs with
  | nil => intro s hs; exact hs
  | cons c cs ih =>
    intro s hs
    unfold run
    split
    · rename_i s' hstep
      exact ih s' (.step c hs hstep)
    · exact ih s hs

/-- … and the strict relation (no spurious wake-ups) only reaches states the general one reaches -/
theorem strict_reachable {cfg : Cfg} {n : Nat} {s : State} (hr : ReachableStrict cfg n s) : Reachable cfg n s := by
  induction hr with
  | init => exact .init
  | step c _ hs ih =>
    unfold stepStrict at hs
    split at hs
    · exact .step c ih hs
    · simp at hs

/-! ### safety -/

/-- **FIFO.** What `dequeue` has handed back so far is a prefix of what was submitted, in submission order. -/
theorem fifo {cfg : Cfg} {n : Nat} {s : State} (hr : Reachable cfg n s) : s.returned <+: s.submitted := by
  have h := (inv_reachable hr).ret
  rw [h]; exact take_prefix _ _

/-- the same for a literal schedule -/
theorem fifo_run (cfg : Cfg) (n : Nat) (cs : List Choice) :
    (run cfg (init n) cs).returned <+: (run cfg (init n) cs).submitted :=
  fifo (run_reachable cfg n cs)

/-- **At most once.** No ticket's callback runs twice; every callback invocation was on an item that was
submitted (ticket ↦ the data submitted under it); and no ticket is in two places at once (queue, a worker's
hands, `done`, `safe_done`, handed back), in particular never held by two workers. -/
theorem at_most_once {cfg : Cfg} {n : Nat} {s : State} (hr : Reachable cfg n s) :
    (s.started.map (·.2.ticket)).Nodup ∧
    (∀ p ∈ s.started, s.submitted[p.2.ticket]? = some p.2.data) ∧
    (range s.returned.length ++ tks s.safeDone ++ tks s.done ++ tkF s ++ tkW s ++ tks s.queue).Nodup := by
  have h := inv_reachable hr
  have hall : (range s.returned.length ++ tks s.safeDone ++ tks s.done ++ tkF s ++ tkW s ++ tks s.queue).Nodup :=
    (h.perm.nodup_iff).2 nodup_range
  refine ⟨?_, h.startedData, hall⟩
  rw [h.startedPerm.nodup_iff]
  have : (range s.returned.length ++ tks s.safeDone ++ tks s.done ++ tkF s ++ (tkW s ++ tks s.queue)).Nodup := by
    simpa [append_assoc] using hall
  exact (nodup_append.1 this).1

/-- … and handed back at most once: the `k`-th value returned by `dequeue` is the `k`-th submitted item, so a
ticket is handed back exactly when its turn comes and never again. -/
theorem returned_at_most_once {cfg : Cfg} {n : Nat} {s : State} (hr : Reachable cfg n s) (k : Nat)
    (hk : k < s.returned.length) : s.returned[k]? = s.submitted[k]? := by
  have h := (inv_reachable hr).ret
  rw [h, getElem?_take]; simp [hk]

/-- nothing is lost either: every ticket issued is somewhere -/
theorem no_item_lost {cfg : Cfg} {n : Nat} {s : State} (hr : Reachable cfg n s) (t : Nat)
    (ht : t < s.submitted.length) :
    t < s.returned.length ∨ t ∈ tks s.safeDone ∨ t ∈ tks s.done ∨ t ∈ tkF s ∨ t ∈ tkW s ∨ t ∈ tks s.queue := by
  have h := inv_reachable hr
  have : t ∈ range s.nextTicket := by rw [h.nt]; exact mem_range.2 ht
  have := (h.perm.mem_iff).2 this
  simpa [mem_append, mem_range, or_assoc] using this

/-- **Exactly once.** Once everything submitted has been handed back, `returned = submitted`, every ticket's
callback has run exactly once (the started tickets are a permutation of `0 … #submitted-1`) on the data
submitted under that ticket, and the pool is empty. -/
theorem exactly_once {cfg : Cfg} {n : Nat} {s : State} (hr : Reachable cfg n s)
    (hall : s.returned.length = s.submitted.length) :
    s.returned = s.submitted ∧
    (s.started.map (·.2.ticket)).Perm (range s.submitted.length) ∧
    (∀ p ∈ s.started, s.submitted[p.2.ticket]? = some p.2.data) ∧
    s.queue = [] ∧ s.done = [] ∧ s.safeDone = [] ∧ heldItems s = [] := by
  have h := inv_reachable hr
  have hret : s.returned = s.submitted := by
    have := h.ret; rw [hall, take_length] at this; exact this
  have hlen := h.perm.length_eq
  simp only [length_append, length_range, h.nt, hall, tks, length_map] at hlen
  have hq : s.queue = [] := length_eq_zero_iff.1 (by omega)
  have hd : s.done = [] := length_eq_zero_iff.1 (by omega)
  have hsd : s.safeDone = [] := length_eq_zero_iff.1 (by omega)
  have hf : tkF s = [] := length_eq_zero_iff.1 (by omega)
  have hw : tkW s = [] := length_eq_zero_iff.1 (by omega)
  refine ⟨hret, ?_, h.startedData, hq, hd, hsd, ?_⟩
  · have := h.startedPerm
    rw [hsd, hd, hf, hall] at this
    simpa [tks] using this
  · -- no worker holds anything
    unfold heldItems
    rw [flatMap_eq_nil_iff]
    intro pc hpc
    cases pc with
    | working it =>
      have : it.ticket ∈ tkW s := mem_flatMap.2 ⟨_, hpc, by simp [WPc.tkW]⟩
      rw [hw] at this; simp at this
    | finishing it rc =>
      have : it.ticket ∈ tkF s := mem_flatMap.2 ⟨_, hpc, by simp [WPc.tkF]⟩
      rw [hf] at this; simp at this
    | _ => rfl

/-! ### liveness: no lost wake-up, no dead-lock -/

/-- **No lost wake-up** (holds with and without spurious wake-ups, for both variants of `dequeue`).
* A worker that waits on `queue_cond` *unsignalled* has nothing to do: the queue is empty and `destroy` has not
  taken the lock yet.  (The status may already be non-zero — the worker is then woken by the next `submit` or
  by `destroy`; DESIGN.md §4 claimed `status = 0` here, which the code does not guarantee and does not need.)
* When the main thread waits on `done_cond` *unsignalled*, nothing is dequeuable, and the ticket it waits for
  is still queued or in the hands of a worker (which will broadcast when it stores it); with the repaired
  `dequeue` moreover `status = 0`. -/
theorem no_lost_wakeup {cfg : Cfg} {n : Nat} {s : State} (hr : Reachable cfg n s) :
    (∀ i : Nat, s.workers[i]? = some (WPc.waitQ false) → s.queue = [] ∧ ¬ s.main.inJoin) ∧
    (s.main = .deqWait false →
      (∀ it r, s.done = it :: r → it.ticket ≠ s.nextDeq) ∧
      (cfg.repaired = true → s.status = 0) ∧
      (s.nextDeq ∈ tks s.queue ∨ s.nextDeq ∈ tkW s ∨ s.nextDeq ∈ tkF s)) := by
  have hA := inv_reachable hr
  have hB := invB_reachable hr
  refine ⟨hB.waitQ, fun hm => ?_⟩
  obtain ⟨hnd, hst⟩ := hB.deqWait hm
  refine ⟨hnd, hst, ?_⟩
  obtain ⟨hsd, hic⟩ := hA.mainDeq (by rw [hm]; trivial)
  have hnd' := hA.nd
  rw [hsd] at hnd'
  simp only [length_nil, Nat.add_zero] at hnd'
  have hlt : s.nextDeq < s.submitted.length := by have := hA.ic; omega
  rcases no_item_lost hr s.nextDeq hlt with h1 | h1 | h1 | h1 | h1 | h1
  · omega
  · rw [hsd] at h1; simp [tks] at h1
  · obtain ⟨it, r, hd, ht⟩ := done_head_of_mem hA h1
    exact absurd ht (hnd it r hd)
  · exact Or.inr (Or.inr h1)
  · exact Or.inr (Or.inl h1)
  · exact Or.inl h1

/-- **No dead-lock** (repaired `dequeue`, at least one worker, strict relation — a waiter runs only after a
broadcast).  In every reachable state in which the main thread is inside an API call, some thread can take a
strict step: `submit`, `dequeue`, `get_status` and `destroy` never hang with nothing left to run. -/
theorem no_deadlock {cfg : Cfg} {n : Nat} {s : State} (hrep : cfg.repaired = true) (hn : 0 < n)
    (hr : Reachable cfg n s) (hcall : mainInCall s = true) :
    ∃ c s', (∀ op, c ≠ .main (.call op)) ∧ stepStrict cfg s c = some s' := by
  have hA := inv_reachable hr
  have hB := invB_reachable hr
  have hlen := workers_length_reachable hr
  have mainStep : (stepMain cfg s (.cont false)).isSome = true →
      ∃ c s', (∀ op, c ≠ .main (.call op)) ∧ stepStrict cfg s c = some s' := by
    intro h
    obtain ⟨s', h⟩ := Option.isSome_iff_exists.1 h
    exact ⟨.main (.cont false), s', by intro op; simp, by simp [stepStrict, Choice.strict, step, h]⟩
  have workerStep : ∀ (i : Nat) (pc : WPc), s.workers[i]? = some pc → pc ≠ WPc.waitQ false → pc ≠ WPc.exited →
      ∃ c s', (∀ op, c ≠ .main (.call op)) ∧ stepStrict cfg s c = some s' := by
    intro i pc hi h1 h2
    obtain ⟨s', hs'⟩ := worker_can_step cfg s i pc hi h1 h2
    exact ⟨.worker i false, s', by intro op; simp, hs'⟩
  cases hm : s.main with
  | idle => simp [mainInCall, hm] at hcall
  | finished => simp [mainInCall, hm] at hcall
  | submitLock d => exact mainStep (by simp [stepMain, hm])
  | deqLock => exact mainStep (by simp [stepMain, hm])
  | statusLock => exact mainStep (by simp [stepMain, hm])
  | destroyLock => exact mainStep (by simp [stepMain, hm])
  | deqWait sig =>
    cases sig with
    | true => exact mainStep (by simp [stepMain, hm])
    | false =>
      obtain ⟨_, hst, hwhere⟩ := (no_lost_wakeup hr).2 hm
      have hst0 := hst hrep
      rcases hwhere with hq | hw | hf
      · -- the awaited ticket is still queued: worker 0 cannot be asleep
        have h0 : 0 < s.workers.length := by omega
        obtain ⟨pc, hpc⟩ : ∃ pc, s.workers[0]? = some pc := ⟨s.workers[0], getElem?_eq_getElem h0⟩
        refine workerStep 0 pc hpc ?_ ?_
        · intro hx; subst hx
          have := (hB.waitQ 0 hpc).1
          rw [this] at hq; simp [tks] at hq
        · intro hx; subst hx
          exact hB.exited 0 hpc hst0
      · obtain ⟨pc, hpc, hin⟩ := mem_flatMap.1 hw
        obtain ⟨i, hi⟩ := getElem?_of_mem hpc
        refine workerStep i pc hi ?_ ?_ <;> (intro hx; subst hx; simp [WPc.tkW] at hin)
      · obtain ⟨pc, hpc, hin⟩ := mem_flatMap.1 hf
        obtain ⟨i, hi⟩ := getElem?_of_mem hpc
        refine workerStep i pc hi ?_ ?_ <;> (intro hx; subst hx; simp [WPc.tkF] at hin)
  | join i =>
    have hlt := hB.joinLt i hm
    obtain ⟨pc, hpc⟩ : ∃ pc, s.workers[i]? = some pc := ⟨s.workers[i], getElem?_eq_getElem hlt⟩
    by_cases hex : pc = .exited
    · subst hex
      by_cases hl : i + 1 < s.workers.length
      · exact mainStep (by simp [stepMain, hm, hpc, hl])
      · exact mainStep (by simp [stepMain, hm, hpc, hl])
    · refine workerStep i pc hpc ?_ hex
      intro hx; subst hx
      exact (hB.waitQ i hpc).2 (by rw [hm]; trivial)

/-- the same as a statement about the flag both the model driver and the harness print after every step
(`dl=`): it is never set in a reachable state of the repaired pool -/
theorem no_deadlock_flag {cfg : Cfg} {n : Nat} {s : State} (hrep : cfg.repaired = true) (hn : 0 < n)
    (hr : Reachable cfg n s) : isDeadlock s = false := by
  cases hcall : mainInCall s with
  | false => simp [isDeadlock, hcall]
  | true =>
    obtain ⟨c, s', hc, hs⟩ := no_deadlock hrep hn hr hcall
    have hlen := workers_length_reachable hr
    cases c with
    | main mc =>
      cases mc with
      | call op => exact absurd rfl (hc op)
      | cont spur =>
        cases spur with
        | true => simp [stepStrict, Choice.strict] at hs
        | false =>
          have : mainContEnabled s = true := by
            simp only [stepStrict, Choice.strict, Bool.not_false, if_true, step] at hs
            unfold stepMain at hs
            unfold mainContEnabled
            split at hs <;> simp_all
          simp [isDeadlock, this]
    | worker i spur =>
      cases spur with
      | true => simp [stepStrict, Choice.strict] at hs
      | false =>
        simp only [stepStrict, Choice.strict, Bool.not_false, if_true, step] at hs
        have hen : workerEnabled s i = true := by
          unfold stepWorker at hs
          unfold workerEnabled
          split at hs <;> simp_all
        have hi : i < s.workers.length := by
          unfold workerEnabled at hen
          cases hx : s.workers[i]? with
          | none => simp [hx] at hen
          | some pc => exact (List.getElem?_eq_some_iff.1 hx).1
        simp only [isDeadlock, Bool.and_eq_false_iff, all_eq_false, mem_range]
        right
        exact ⟨i, hi, by simp [hen]⟩

/-! ### non-vacuity -/

/-- a concrete execution (2 workers, items 7 and 9, worker 1 overtakes worker 0) that reaches a state where
everything submitted has been handed back — the hypothesis of `exactly_once` is satisfiable -/
example :
    let s := run ⟨true, fun _ => 0⟩ (init 2)
      [.main (.call (.submit 7)), .main (.cont false), .main (.call (.submit 9)), .main (.cont false),
       .worker 0 false, .worker 1 false, .worker 1 false, .worker 1 false, .worker 0 false, .worker 0 false,
       .main (.call .dequeue), .main (.cont false), .main (.call .dequeue), .main (.cont false)]
    s.returned = [7, 9] ∧ s.submitted = [7, 9] ∧ s.started.map (·.1) = [1, 0] := by decide

end Sqfs.C09
