/-
C04 — tar ↔ SquashFS conversion preserves the archive; byte-exact fix-point.

Property theorems only (helpers: `Sqfs/Proofs/Tar*.lean`).  Models: `Sqfs/Model/Tar*.lean`, one Lean
function per C function / loop of `lib/tar` and of the conversion code of `tar2sqfs`/`sqfs2tar`.
-/
import Sqfs.Proofs.TarNumber
import Sqfs.Proofs.TarHeader
import Sqfs.Proofs.TarHeaderRT
import Sqfs.Proofs.TarPaxRT
import Sqfs.Proofs.TarSparse
import Sqfs.Proofs.TarSparseChunk
import Sqfs.Proofs.TarConv
import Sqfs.Proofs.TarHeaderFull
import Sqfs.Proofs.TarFixIter
import Sqfs.Proofs.TarFixConv
import Sqfs.Proofs.TarSqfs2tar
import Sqfs.Proofs.TarPaxNum
import Sqfs.Proofs.TarPaxUrl
import Sqfs.Proofs.TarPaxB64
namespace Sqfs.C04
open Sqfs.Tar

/-! ## numeric fields (`number.c`, `write_number*` of `write_header.c`) -/

/--
**Exact or error.**  For *every* field (any length, any bytes) `read_number` returns exactly what the
field means — the value of the octal digit run, or of the base-256 number as a 64-bit two's-complement
pattern — or fails; it never returns a wrapped value.  (`specNumber` is `none` exactly when the value does
not fit: octal/positive ≥ 2^64, negative < −2^63.)  Holds for the repaired guard; the unrepaired one is
refuted in `Sqfs/Witness/C04.lean`.
-/
theorem readNumber_exact_or_error (f : Bytes) : readNumber f = specNumber f :=
  readNumber_spec f

/-- … in particular a successful read of an octal field is the unbounded value of its digits, -/
theorem readNumber_octal_exact (b0 : UInt8) (t : Bytes) (r : Nat) (h7 : b0.toNat < 128)
    (h : readNumber (b0 :: t) = some r) : r = specOctal (b0 :: t) := by
  rw [readNumber_exact_or_error] at h
  unfold specNumber at h
  have : ¬ b0.toNat ≥ 128 := by omega
  simp only [this, if_false] at h
  split at h
  · exact (Option.some.inj h).symm
  · cases h

/-- … and a successful read of a base-256 field is its signed value modulo 2^64 with the value in
    `[-2^63, 2^64)`. -/
theorem readNumber_binary_exact (b0 : UInt8) (t : Bytes) (r : Nat) (h7 : b0.toNat ≥ 128)
    (h : readNumber (b0 :: t) = some r) :
    -9223372036854775808 ≤ specBinary (b0 :: t) ∧ specBinary (b0 :: t) < (U64 : Int) ∧
    (r : Int) = specBinary (b0 :: t) % (U64 : Int) := by
  rw [readNumber_exact_or_error] at h
  unfold specNumber at h
  simp only [h7, if_true] at h
  unfold fits64 at h
  simp only [U64] at h ⊢
  split at h
  · have := Option.some.inj h; omega
  · split at h
    · have := Option.some.inj h; omega
    · cases h

/--
**Number round trip**, every field width `2 ≤ w ≤ 21` (the code uses 8 and 12) and every 64-bit value
the encoding can hold: octal with terminator (`v < 8^(w-1)`), octal without terminator (`v < 8^w`),
base-256 (any `v < 2^64` for `w ≥ 9`; for `w = 8` values below `0x7F·2^56`, since the first payload
byte shares its top bit with the marker and `0xFF` means "negative").
-/
theorem number_roundtrip (v w : Nat) (hw : 2 ≤ w ∧ w ≤ 21) (hv : v < U64)
    (hfit : v < 8 ^ w ∨ 9 ≤ w ∨ (w = 8 ∧ v < 127 * 2 ^ 56)) :
    readNumber (writeNumber v w) = some v :=
  readNumber_writeNumber v w hw hv hfit

/--
**Signed round trip** (the mtime field: `write_number_signed`, then `read_number` and `decode_header`'s
conversion): every `sqfs_s64` value, negative ones included, in every field of at least 9 bytes.
-/
theorem number_roundtrip_signed (m : Int) (w : Nat) (hw : 9 ≤ w ∧ w ≤ 21)
    (hm : -9223372036854775808 ≤ m ∧ m < 9223372036854775808) :
    (readNumber (writeNumberSigned m w)).map toSigned = some m :=
  readNumber_writeNumberSigned m w hw hm

/-! ## checksum (`checksum.c`, `update_checksum`, `is_checksum_valid`) -/

/--
**Checksum round trip.**  For every 512-byte header, `update_checksum` touches only the 8 checksum
bytes, the checksum does not depend on them, and `is_checksum_valid` accepts the result.
-/
theorem checksum_roundtrip (h : Bytes) (hl : h.length = 512) :
    isChecksumValid (updateChecksum h) = true ∧
    computeChecksum (updateChecksum h) = computeChecksum h ∧
    (updateChecksum h).take 148 = h.take 148 ∧ (updateChecksum h).drop 156 = h.drop 156 ∧
    (updateChecksum h).length = 512 := by
  have hA : (h.take 148).length = 148 := by simp [hl]
  have hF : ∀ c, (chksumField c).length = 8 := by intro c; simp [chksumField, octDigits_length]
  have hAF : ∀ c, (h.take 148 ++ chksumField c).length = 156 := by intro c; simp [hA, hF]
  have e1 : (updateChecksum h).take 148 = h.take 148 := by
    unfold updateChecksum
    rw [List.append_assoc]; exact List.take_left' hA
  have e2 : (updateChecksum h).drop 156 = h.drop 156 := by
    unfold updateChecksum
    exact List.drop_left' (hAF _)
  have e3 : ((updateChecksum h).drop 148).take 8 = chksumField (computeChecksum h) := by
    unfold updateChecksum
    rw [List.append_assoc, List.drop_left' hA]; exact List.take_left' (hF _)
  have e4 : computeChecksum (updateChecksum h) = computeChecksum h := by
    unfold computeChecksum; rw [e1, e2]
  have hc := computeChecksum_lt h hl
  have e5 : readNumber (chksumField (computeChecksum h)) = some (computeChecksum h) := by
    unfold chksumField
    exact readNumber_octDigits 5 _ [0, 32] (Or.inr ⟨0, [32], rfl, by decide⟩) hc
      (by simp only [U64]; norm_num at hc; omega)
  refine ⟨?_, e4, e1, e2, ?_⟩
  · unfold isChecksumValid
    rw [e3, e5, e4]; simp
  · unfold updateChecksum
    simp [hF, hl]

/-! ## PAX records written by `write_schily_xattr` -/

/--
**`prefix_digit_len` is correct** for every `len` (no bound): the number of digits it returns is the
number of digits of `len` *plus that number* — the self-referential length of a PAX record.  (The
`do … while` loop reaches its fixed point within three iterations, so the fuel of the model is exact.)
-/
theorem prefix_digit_len_correct (len : Nat) : numDigits (len + prefixDigitLen len) = prefixDigitLen len :=
  prefixDigitLen_fix len

/-- hence the length field of every emitted `SCHILY.xattr` record equals the record's actual length,
    for all keys and all (binary) values (`k` = the key as emitted, '%' and '=' escaped) -/
theorem schily_record_length (key value : Bytes) :
    let k := xattrEncodeKey key
    let len := 13 + k.length + value.length + 3
    schilyRecord key value = decStr (len + prefixDigitLen len) ++ ([32] ++ schilyPrefix ++ k ++ [61] ++ value ++ [10]) ∧
    (schilyRecord key value).length = len + prefixDigitLen len := by
  have hp : schilyPrefix.length = 13 := by decide
  refine ⟨?_, ?_⟩
  · unfold schilyRecord schilyRecordRaw
    simp only [hp, List.append_assoc]
  · unfold schilyRecord schilyRecordRaw
    simp only [hp, List.length_append, decStr_length, prefix_digit_len_correct, List.length_cons, List.length_nil]
    omega

/--
**xattr key escaping** (`xattr_encode_keyword` / `xattr_decode_keyword` of GNU tar, adopted by the repair
`fixes/C04-xattr-key-escape.patch`): decoding inverts encoding for every key, and an encoded key never contains the
PAX keyword terminator '=' (nor a NUL when the key has none).
-/
theorem xattr_key_escape (key : Bytes) :
    xattrDecodeKey (xattrEncodeKey key) = key ∧ ((∀ x ∈ key, x ≠ 0) → ∀ x ∈ xattrEncodeKey key, x ≠ 0 ∧ x ≠ 61) :=
  ⟨xattrDecode_encode key, xattrEncode_clean key⟩

/--
**PAX record round trip.**  For every NUL-free key ('=' and '%' included) and every value (arbitrary bytes: NUL, '=',
newline included), the record parser of `read_pax_header` applied to the record `write_schily_xattr` emits — followed by
anything — consumes exactly the record and delivers exactly that key/value pair (prepended to the list, as the C code does).
-/
theorem pax_record_roundtrip (st : PaxState) (key value rest : Bytes) (hk : ∀ x ∈ key, x ≠ 0) :
    paxLine {} st (schilyRecord key value ++ rest) =
      some ({ st with out := { st.out with xattr := (key, value) :: st.out.xattr } }, (schilyRecord key value).length) :=
  paxLine_schily st key value rest hk

/-- … and the whole payload of a `pax/xattrN` member, any number of xattrs, is read back completely: the header gets
    exactly the written pairs (in reverse order — the reader prepends), `set_by_pax` stays untouched. -/
theorem pax_payload_roundtrip (xs : List (Bytes × Bytes)) (out : Decoded) (mask : Nat)
    (hk : ∀ kv ∈ xs, ∀ x ∈ kv.1, x ≠ 0) :
    readPaxHeader {} ((xs.map fun kv => schilyRecord kv.1 kv.2).flatten) out mask =
      some ({ out with xattr := xs.reverse ++ out.xattr }, mask) := by
  unfold readPaxHeader
  rw [paxLoop_schily xs _ _ hk]
  · rfl
  · have : xs.length ≤ ((xs.map fun kv => schilyRecord kv.1 kv.2).flatten).length := by
      induction xs with
      | nil => simp
      | cons kv t ih =>
        have h1 := ih (fun kv' h' => hk kv' (List.mem_cons_of_mem _ h'))
        have h2 : 1 ≤ (schilyRecord kv.1 kv.2).length := by
          cases h : schilyRecord kv.1 kv.2 with
          | nil => exact absurd h (schilyRecord_ne_nil _ _)
          | cons _ _ => simp
        simp only [List.map_cons, List.flatten_cons, List.length_append, List.length_cons]
        omega
    omega

/-! ## header round trip -/

/--
**Header round trip** (full strength).  For *every* entry `write_tar_header` accepts — every entry kind (regular file,
directory, symbolic link, character / block device, FIFO, hard link), names and link targets of any length (below 100 bytes
in the header field, from 100 bytes on through GNU 'L' / 'K' records), every numeric encoding (octal, unterminated octal,
base-256, negative mtime), any number of extended attributes with arbitrary binary values and arbitrary keys ('=' and '%'
included) through the `SCHILY.xattr` PAX record — and whatever follows in the stream, `read_header` consumes exactly the
bytes the writer emitted and returns exactly the entry (`decodedOf`, `Sqfs/Spec/TarHeader.lean`: name, link target, ids,
signed time stamp, size, device number, hard-link flag byte for byte; xattrs in reverse order since the reader prepends;
symbolic links always with mode 0777).

`Encodable` holds the calling convention (NUL-terminated strings, `ent->size` = length of the link target, integer types)
and the documented limits (ids below `0x7F·2^56` in an 8-byte base-256 field, device numbers below 2^31, GNU/PAX records
of at most 65536 bytes, beyond which `read_header` refuses); it excludes no entry kind, length class or encoding.
The writer's dialect is "ustar " + " \0" (pre-POSIX/GNU): the ustar `prefix` field is never used (`header_prefix_unused`).
-/
theorem header_roundtrip (e : WEntry) (tgt : Option Bytes) (xs : List (Bytes × Bytes)) (n : Nat) (rest w : Bytes)
    (hE : Encodable e tgt xs) (hw : writeTarHeader e tgt xs n = some w) :
    readHeader (w ++ rest) = .ok (decodedOf e tgt xs.reverse) rest := by
  cases hh : e.hardLink with
  | true => exact readHeader_written_hard e tgt xs n rest hE hh w hw
  | false =>
    cases ht : entryType e.mode with
    | none =>
      unfold writeTarHeader writeTarHeaderK at hw
      simp [hh, ht] at hw
    | some t => exact readHeader_written e tgt xs n rest t hE hh ht w hw

/--
**What the writer refuses** (and only that): an entry that is not a hard link and whose type is none of the six that tar
can express — sockets in particular.  The refusal happens before anything is appended to the stream (repaired order, D27),
so the archive stays well-formed; `sqfs2tar` skips the entry with a warning.
-/
theorem header_refusal (e : WEntry) (tgt : Option Bytes) (xs : List (Bytes × Bytes)) (n : Nat) :
    (writeTarHeader e tgt xs n = none ↔
      e.hardLink = false ∧ fmt e.mode ≠ S_IFREG ∧ fmt e.mode ≠ S_IFDIR ∧ fmt e.mode ≠ S_IFLNK ∧ fmt e.mode ≠ S_IFCHR ∧
        fmt e.mode ≠ S_IFBLK ∧ fmt e.mode ≠ S_IFIFO) ∧
    (e.hardLink = false → fmt e.mode = S_IFSOCK → writeTarHeader e tgt xs n = none) := by
  have key : writeTarHeader e tgt xs n = none ↔ e.hardLink = false ∧ entryType e.mode = none := by
    unfold writeTarHeader writeTarHeaderK
    cases hh : e.hardLink with
    | true => simp
    | false =>
      cases ht : entryType e.mode with
      | none => simp
      | some t => simp
  have hty : entryType e.mode = none ↔ fmt e.mode ≠ S_IFREG ∧ fmt e.mode ≠ S_IFDIR ∧ fmt e.mode ≠ S_IFLNK ∧
      fmt e.mode ≠ S_IFCHR ∧ fmt e.mode ≠ S_IFBLK ∧ fmt e.mode ≠ S_IFIFO := by
    unfold entryType
    constructor
    · intro h
      split_ifs at h with h1 h2 h3 h4 h5 h6
      exact ⟨h4, h5, h3, h1, h2, h6⟩
    · rintro ⟨h4, h5, h3, h1, h2, h6⟩
      simp only [h1, h2, h3, h4, h5, h6, if_false]
  refine ⟨by rw [key, hty], ?_⟩
  intro hh hs
  rw [key, hty, hs]
  exact ⟨hh, by decide, by decide, by decide, by decide, by decide, by decide⟩

/-- the writer never uses the ustar `prefix` field: it stays zero in every header block, and the block is recognised as
    pre-POSIX ("ustar " + " \0"), for which `decode_header` does not look at the prefix at all -/
theorem header_prefix_unused (name : Bytes) (mode uid gid size : Nat) (mtime : Int) (tf : UInt8) (linkname : Bytes) (maj min : Nat)
    (hn : name.length = 100) (hl : linkname.length = 100) :
    slice (hdrBlock name mode uid gid size mtime tf linkname maj min) 345 155 = zeros 155 ∧
    checkVersion (hdrBlock name mode uid gid size mtime tf linkname maj min) = some .prePosix := by
  refine ⟨?_, hdrBlock_version name mode uid gid size mtime tf linkname maj min hn hl⟩
  unfold hdrBlock
  rw [slice_updateChecksum_hi _ _ _ (rawHeader_length name mode uid gid size mtime tf linkname maj min hn hl) (by decide)]
  exact raw_prefix name mode uid gid size mtime tf linkname maj min hn hl

/-! ## foreign dialects: what `read_header` makes of headers it did not write -/

/--
**`decode_header`, field by field, every dialect.**  For every 512-byte block (v7, pre-POSIX/GNU, POSIX ustar — with or
without a ustar `prefix`), whatever `set_by_pax` mask and partial header the extension records before it left behind,
`decode_header` delivers exactly the specification `specDecode` (`Sqfs/Spec/TarHeader.lean`): every numeric field is the exact
value its bytes encode (octal digit run or base-256 two's complement, `readNumber_exact_or_error`) or the header is refused;
values supplied by PAX records win; the name is `prefix/name` exactly for a POSIX block with a non-empty prefix; the type flag
selects the file type; unknown type flags are marked for skipping.
-/
theorem decode_header_spec (h : Bytes) (mask : Nat) (out : Decoded) (v : Version) :
    decodeHeader h mask out v = specDecode h mask out v :=
  decodeHeader_eq_spec h mask out v

/--
**A plain member header of any dialect through `read_header`.**  A block with one of the three recognised magic/version pairs,
a valid checksum and a type flag other than the extension records ('K', 'L', 'g', 'x') and the old GNU sparse header ('S'),
standing first in the stream: `read_header` consumes exactly the block and returns `specDecode` of it (`actual_size =
record_size`), or fails when a numeric field does not hold a number.  (`read_header_after_records` is the same statement with
the state that GNU 'L'/'K' and PAX records leave behind.)
-/
theorem read_header_plain_block (h rest : Bytes) (v : Version)
    (hl : h.length = 512) (hnz : isZeroBlock h = false) (hv : checkVersion h = some v) (hck : isChecksumValid h = true)
    (htf : (slice h 156 1).headD 0 ≠ 75 ∧ (slice h 156 1).headD 0 ≠ 76 ∧ (slice h 156 1).headD 0 ≠ 103 ∧
           (slice h 156 1).headD 0 ≠ 120 ∧ (slice h 156 1).headD 0 ≠ 83) :
    readHeader (h ++ rest) =
      match specDecode h 0 {} v with
      | none => .err
      | some d => .ok { d with actualSize := d.recordSize } rest := by
  unfold readHeader readHeaderWith
  exact loop_plain {} _ h rest false v 0 {} hl hnz hv hck htf rfl (by decide)

theorem read_header_after_records (cfg : ReadCfg) (f : Nat) (h rest : Bytes) (pz : Bool) (v : Version) (mask : Nat) (out : Decoded)
    (hl : h.length = 512) (hnz : isZeroBlock h = false) (hv : checkVersion h = some v) (hck : isChecksumValid h = true)
    (htf : (slice h 156 1).headD 0 ≠ 75 ∧ (slice h 156 1).headD 0 ≠ 76 ∧ (slice h 156 1).headD 0 ≠ 103 ∧
           (slice h 156 1).headD 0 ≠ 120 ∧ (slice h 156 1).headD 0 ≠ 83)
    (hsp : out.sparse = []) (hgnu : hasFlag mask PAX_SPARSE_GNU_1_X = false) :
    readHeaderLoop cfg (f + 1) (h ++ rest) out mask pz =
      match specDecode h mask out v with
      | none => .err
      | some d => .ok { d with actualSize := d.recordSize } rest :=
  loop_plain cfg f h rest pz v mask out hl hnz hv hck htf hsp hgnu

/--
**GNU long name / long link records and the PAX extended header, from any writer.**  A record whose header block the reader
recognises (any dialect, valid checksum) with type flag 'L' / 'K' / 'x' and a size field between 1 and 65536, followed by that
many payload bytes and the padding to the next 512-byte boundary: the loop of `read_header` takes the payload's C string as the
member's name resp. link target and sets `PAX_NAME` / `PAX_SLINK_TARGET` so that the following header's own fields lose; for
'x' it restarts from an empty header with what `read_pax_header` makes of the payload.
-/
theorem gnu_long_records (cfg : ReadCfg) (f : Nat) (H p rest : Bytes) (out : Decoded) (mask : Nat) (pz : Bool)
    (h1 : 1 ≤ p.length) (h2 : p.length ≤ 65536) :
    (IsHdr H 76 p.length →
      readHeaderLoop cfg (f + 1) (H ++ (p ++ (zeros (padding p.length) ++ rest))) out mask pz =
        readHeaderLoop cfg f rest { out with name := some (cstr p) } (setFlag mask PAX_NAME) false) ∧
    (IsHdr H 75 p.length →
      readHeaderLoop cfg (f + 1) (H ++ (p ++ (zeros (padding p.length) ++ rest))) out mask pz =
        readHeaderLoop cfg f rest { out with link := some (cstr p) } (setFlag mask PAX_SLINK_TARGET) false) ∧
    (IsHdr H 120 p.length → ∀ out' mask',
      readPaxHeader ⟨cfg.xattrKeepOrder, cfg.schilyKeyDecode⟩ p {} 0 = some (out', mask') →
      readHeaderLoop cfg (f + 1) (H ++ (p ++ (zeros (padding p.length) ++ rest))) out mask pz =
        readHeaderLoop cfg f rest out' mask' false) :=
  ⟨fun h => loop_L cfg f H p rest out mask pz h h1 h2, fun h => loop_K cfg f H p rest out mask pz h h1 h2,
   fun h out' mask' hp => loop_x cfg f H p rest out mask pz h h1 h2 out' mask' hp⟩

/-- … for instance a GNU long-name member from a foreign writer (any dialect for either block): the name is the record's
    payload, everything else is the following block's own fields -/
theorem gnu_long_name_member (HL p h rest : Bytes) (v : Version)
    (hL : IsHdr HL 76 p.length) (h1 : 1 ≤ p.length) (h2 : p.length ≤ 65536)
    (hl : h.length = 512) (hnz : isZeroBlock h = false) (hv : checkVersion h = some v) (hck : isChecksumValid h = true)
    (htf : (slice h 156 1).headD 0 ≠ 75 ∧ (slice h 156 1).headD 0 ≠ 76 ∧ (slice h 156 1).headD 0 ≠ 103 ∧
           (slice h 156 1).headD 0 ≠ 120 ∧ (slice h 156 1).headD 0 ≠ 83) :
    readHeader (HL ++ (p ++ (zeros (padding p.length) ++ (h ++ rest)))) =
      match specDecode h PAX_NAME { name := some (cstr p) } v with
      | none => .err
      | some d => .ok { d with actualSize := d.recordSize } rest := by
  unfold readHeader readHeaderWith
  have hlen : (HL ++ (p ++ (zeros (padding p.length) ++ (h ++ rest)))).length / 512 + 2 =
      ((HL ++ (p ++ (zeros (padding p.length) ++ (h ++ rest)))).length / 512) + 1 + 1 := rfl
  rw [hlen, loop_L {} _ HL p (h ++ rest) {} 0 false hL h1 h2]
  have hm : setFlag 0 PAX_NAME = PAX_NAME := by decide
  rw [hm]
  exact loop_plain {} _ h rest false v PAX_NAME { name := some (cstr p) } hl hnz hv hck htf rfl (by decide)

/--
**The PAX record parser, any keyword.**  On a well-formed record `"%d %s=%s\n"` (keyword without NUL/'=' and not starting with
white space, arbitrary value bytes, the decimal length in front counting itself) the parser of `read_pax_header` — `strtol`, the
in-place NUL edits, the blank skip, the key scan — hands exactly the keyword and the value to the handler table (`paxApply`:
`find_handler`/`apply_handler` and the GNU.sparse.offset/numbytes pair) and consumes exactly the record.
In particular `path` / `linkpath` records set the member's name / link target to the value's C string and mark it as set by PAX.
-/
theorem pax_record_spec (pc : PaxCfg) (st : PaxState) (kw value rest : Bytes) (hne : kw ≠ [])
    (hk : ∀ x ∈ kw, x ≠ 0 ∧ x ≠ 61) (hsp : isSpace (kw.headD 0) = false) :
    paxLine pc st (paxRecord kw value ++ rest) = paxApply pc st kw value (paxRecord kw value).length ∧
    paxApply pc st (ascii "path") value (paxRecord (ascii "path") value).length =
      some ({ st with out := { st.out with name := some (cstr value) }, mask := setFlag st.mask PAX_NAME },
            (paxRecord (ascii "path") value).length) ∧
    paxApply pc st (ascii "linkpath") value (paxRecord (ascii "linkpath") value).length =
      some ({ st with out := { st.out with link := some (cstr value) }, mask := setFlag st.mask PAX_SLINK_TARGET },
            (paxRecord (ascii "linkpath") value).length) := by
  refine ⟨paxLine_record pc st kw value rest hne hk hsp, ?_, ?_⟩
  · have : findHandler (ascii "path") = some .path := by decide
    have hne : ¬ (PaxKind.path = PaxKind.sparseMap) := by decide
    simp only [paxApply, this, applyHandler, kindFlag, hne, if_false]
  · have : findHandler (ascii "linkpath") = some .linkpath := by decide
    have hne : ¬ (PaxKind.linkpath = PaxKind.sparseMap) := by decide
    simp only [paxApply, this, applyHandler, kindFlag, hne, if_false]

/--
**`GNU.sparse.map` replaces the list** (pax_header.c:350-353, /repo 56b164f).  A `GNU.sparse.map` record (PAX sparse format 0.1) sets
the member's sparse map to the parsed list and makes the parser forget the tail of the list that earlier `GNU.sparse.numbytes`
records (format 0.0) were appended to; the next `GNU.sparse.numbytes` record therefore starts a new one-element list instead of
appending to the replaced (freed) one.  Whatever kind of record comes last determines the map.
-/
theorem pax_sparse_map_replaces (pc : PaxCfg) (st : PaxState) (value : Bytes) (len : Nat) (m : List (Nat × Nat))
    (hm : paxSparseMap (cstr value) = some m) :
    ∃ st1, paxApply pc st (ascii "GNU.sparse.map") value len = some (st1, len) ∧ st1.out.sparse = m ∧ st1.sparseStarted = false ∧
      ∀ (v2 : Bytes) (len2 v n : Nat), parseUint (cstr v2) = some (v, n) →
        ∃ st2, paxApply pc st1 (ascii "GNU.sparse.numbytes") v2 len2 = some (st2, len2) ∧ st2.out.sparse = [(st1.offset, v)] := by
  have h1 : findHandler (ascii "GNU.sparse.map") = some .sparseMap := by decide
  have h2 : findHandler (ascii "GNU.sparse.numbytes") = none := by decide
  have h3 : ¬ (ascii "GNU.sparse.numbytes" = ascii "GNU.sparse.offset") := by decide
  refine ⟨_, by simp only [paxApply, h1, applyHandler, hm, Option.map_some, if_true]; rfl, rfl, rfl, ?_⟩
  intro v2 len2 v n hv
  refine ⟨_, by simp only [paxApply, h2, h3, if_false, if_true, hv, Bool.false_eq_true]; rfl, rfl⟩

/--
**PAX numeric values are exact or refused** (`parse_uint` / `parse_int` of lib/util/src/parse_int.c as `pax_header.c` calls them
for `uid`, `gid`, `size`, `mtime`, `GNU.sparse.*`).  On a non-empty string of decimal digits `ds` followed by the end of the value
or by any non-digit (the '.' of a fractional `mtime`, the ',' of a sparse map): `parse_uint` returns exactly the number the digits
denote and the number of digits consumed whenever that number is below `(2^64 − 1) / 10 · 10`, and an error otherwise — the
overflow test is conservative (the six largest 64-bit values are refused too), but no value is ever wrapped or truncated, however
many leading zeros or digits there are.  `parse_int` does the same for an optional '-' and the bound `2^63 − 1`.
-/
theorem pax_number_exact_or_error (ds rest : Bytes) (hne : ds ≠ []) (hd : ∀ c ∈ ds, isDigit c = true)
    (hr : ∀ c, rest.head? = some c → isDigit c = false) :
    parseUint (ds ++ rest) = (if decVal ds < PARSE_UINT_BOUND then some (decVal ds, ds.length) else none) ∧
    parseInt (ds ++ rest) = (if decVal ds < 0x7FFFFFFFFFFFFFFF then some (decVal ds : Int) else none) ∧
    parseInt (45 :: (ds ++ rest)) = (if decVal ds < 0x7FFFFFFFFFFFFFFF then some (-(decVal ds : Int)) else none) := by
  have hu := parseUint_spec ds rest hne hd hr
  have hB : PARSE_UINT_BOUND = 18446744073709551610 := rfl
  have key : ∀ (f : Nat → Int),
      (match (if decVal ds < PARSE_UINT_BOUND then some (decVal ds, ds.length) else none : Option (Nat × Nat)) with
        | none => none
        | some (v, _) => if v ≥ 0x7FFFFFFFFFFFFFFF then none else some (f v)) =
      (if decVal ds < 0x7FFFFFFFFFFFFFFF then some (f (decVal ds)) else none) := by
    intro f
    by_cases h1 : decVal ds < PARSE_UINT_BOUND
    · by_cases h2 : decVal ds < 0x7FFFFFFFFFFFFFFF
      · have h3 : ¬ decVal ds ≥ 0x7FFFFFFFFFFFFFFF := by omega
        simp only [h1, h2, h3, if_true, if_false]
      · have h3 : decVal ds ≥ 0x7FFFFFFFFFFFFFFF := by omega
        simp only [h1, h2, h3, if_true, if_false]
    · have h2 : ¬ decVal ds < 0x7FFFFFFFFFFFFFFF := by omega
      simp only [h1, h2, if_false]
  refine ⟨hu, ?_, ?_⟩
  · cases ds with
    | nil => exact absurd rfl hne
    | cons c t =>
      have hc : isDigit c = true := hd c (by simp)
      have h45 : c ≠ 45 := by intro h; subst h; revert hc; decide
      rw [List.cons_append] at hu ⊢
      rw [parseInt_pos c _ h45, hu]
      exact key (fun v => (v : Int))
  · rw [parseInt_neg, hu]
    exact key (fun v => -(v : Int))

/--
**LIBARCHIVE xattr names** (`urldecode`, `pax_xattr_libarchive`).  libarchive percent-encodes the bytes of an attribute name it
must escape (`esc`; at least the '%' itself) as `%XX` and writes the others literally.  For every NUL-free name and every such
choice of escaped bytes the reader's `urldecode` returns exactly the name — '=' (`%3D`), blanks, non-ASCII bytes, '%' included.
-/
theorem libarchive_key_roundtrip (esc : UInt8 → Bool) (h37 : esc 37 = true) (k : Bytes) (hk : ∀ x ∈ k, x ≠ 0) :
    cstr (urlDecode (urlEncode esc k)) = k := by
  rw [urlDecode_encode esc h37 k, cstr_clean k hk]

/--
**LIBARCHIVE xattr records** (`pax_xattr_libarchive`: `base64_decode` + `urldecode`).  `base64_decode` inverts RFC 4648 base64 — with
the '=' padding and without it (libarchive omits it) — for every byte string, of any length; hence the handler of a
`LIBARCHIVE.xattr.<percent-encoded name>=<base64 value>` record adds exactly the pair (name, value) to the member's attributes,
for every NUL-free name and every binary value.  (The record parser in front of the handler is `pax_record_spec`; the alternative
alphabet characters '-' / '_' and malformed input are exercised, not proved.)
-/
theorem libarchive_xattr_roundtrip (pc : PaxCfg) (out : Decoded) (esc : UInt8 → Bool) (h37 : esc 37 = true) (k v : Bytes)
    (hk : ∀ x ∈ k, x ≠ 0) :
    base64Decode (b64Encode v) = some v ∧ base64Decode (b64EncodeNoPad v) = some v ∧
    applyHandler pc out .libarchive (ascii "LIBARCHIVE.xattr." ++ urlEncode esc k) (b64Encode v) =
      some { out with xattr := if pc.keepOrder then out.xattr ++ [(k, v)] else (k, v) :: out.xattr } ∧
    applyHandler pc out .libarchive (ascii "LIBARCHIVE.xattr." ++ urlEncode esc k) (b64EncodeNoPad v) =
      some { out with xattr := if pc.keepOrder then out.xattr ++ [(k, v)] else (k, v) :: out.xattr } := by
  have hd : (ascii "LIBARCHIVE.xattr." ++ urlEncode esc k).drop 17 = urlEncode esc k := List.drop_left' (by decide)
  have hkey := libarchive_key_roundtrip esc h37 k hk
  refine ⟨base64Decode_encode v, base64Decode_encodeNoPad v, ?_, ?_⟩
  · simp only [applyHandler, base64Decode_encode, hd, hkey]
  · simp only [applyHandler, base64Decode_encodeNoPad, hd, hkey]

/--
**The PAX 0.1 sparse map parser** (`pax_sparse_map`, the `GNU.sparse.map` record).  For every non-empty list of pairs of decimal
numbers (each a non-empty digit string below the bound of `parse_uint`, leading zeros allowed) the value
`off,num,off,num,…` is parsed into exactly those pairs, in order — no pair lost, merged or reordered, for maps of any length.
(Malformed values — a missing number, a trailing comma, other characters — are refused; that part is exercised, not proved.)
-/
theorem pax_sparse_map_spec (l : List (Bytes × Bytes)) (hne : l ≠ []) (hd : ∀ p ∈ l, IsDec p.1 ∧ IsDec p.2) :
    paxSparseMap (renderMap l) = some (l.map fun p => (decVal p.1, decVal p.2)) :=
  paxSparseMap_spec l hne hd

/-! ## sparse files (`iterator.c`) -/

/--
**Sparse expansion.**  For every non-empty well-formed map (ascending, non-overlapping, within the file size;
zero-length entries and adjacent regions allowed — every dialect delivers the map as such a list), every file
size and every archive stream holding at least the map's data bytes, reading the file stream to its end
* ends with EOF (not with "corrupted"),
* yields exactly the specified expansion: `file_size` bytes, zeros in the holes, the data regions' bytes in
  archive order at their offsets,
* consumes exactly `record_size` = Σ count bytes of the archive and leaves `record_size = 0`, so that `it_next`
  then skips exactly the padding to the next 512-byte boundary.
-/
theorem sparse_expand_spec (m : List (Nat × Nat)) (fileSize : Nat) (s : Bytes)
    (hne : m ≠ []) (hwf : WellFormedMap 0 m fileSize) (hs : dataBytes m ≤ s.length) (h64 : dataBytes m < U64) :
    expand m fileSize (dataBytes m) s =
      ⟨specExpand 0 m fileSize s, s.drop (dataBytes m), 0, .eof⟩ := by
  unfold expand
  have := expandLoop_wf m [] 0 fileSize (2 * m.length + fileSize + 4) (dataBytes m) s []
    (by simpa using hne) (by intro e he; cases he) hwf hs (Nat.le_refl _) h64 (by omega)
  simpa using this

/--
… and the same holds for the walk exactly as the C stream performs it for a caller that reads in calls of `want`
bytes (`sqfs_istream_read(…, want)` in the harness, `sqfs_istream_splice(…, block_size)` in tar2sqfs), for **every**
request size `want ≥ 1`: on a well-formed map the result does not depend on how the reads are split.
-/
theorem sparse_expand_spec_any_request_size (want : Nat) (hw : 1 ≤ want) (m : List (Nat × Nat)) (fileSize : Nat) (s : Bytes)
    (hne : m ≠ []) (hwf : WellFormedMap 0 m fileSize) (hs : dataBytes m ≤ s.length) (h64 : dataBytes m < U64) :
    expandC want m fileSize (dataBytes m) s =
      ⟨specExpand 0 m fileSize s, s.drop (dataBytes m), 0, .eof⟩ := by
  unfold expandC
  obtain ⟨e1, e2⟩ := specFromI_wf 0 m fileSize s hwf
  have := expandLoopC_wf want hw m [] 0 fileSize (fileSize + 4) (dataBytes m) s []
    (by simpa using hne) (by intro e he; cases he) (wf_to_wfi _ _ _ hwf) (by rw [e2]; exact hs) (by rw [e2]) h64 (by omega)
  rw [e1, e2] at this
  simpa using this

/-- the specified expansion has exactly `file_size` bytes -/
theorem specExpand_length (m : List (Nat × Nat)) :
    ∀ (pos fileSize : Nat) (data : Bytes), WellFormedMap pos m fileSize → dataBytes m ≤ data.length →
      (specExpand pos m fileSize data).length = fileSize - pos := by
  induction m with
  | nil => intro pos F data h _; simp [specExpand, zeros]
  | cons e t ih =>
    obtain ⟨o, c⟩ := e
    intro pos F data h hd
    obtain ⟨h1, h2⟩ := h
    have hb := (wf_bounds (o + c) t F h2).1
    simp only [dataBytes] at hd
    simp only [specExpand, List.length_append, zeros, List.length_replicate, List.length_take]
    rw [ih (o + c) F (data.drop c) h2 (by simp; omega)]
    omega

/-! ## conversion steps of tar2sqfs (`process_tarball.c`, `fstree.c`) -/

/-- **mtime clamp**: every time stamp is brought into `[0, 2^32 − 1]`, values inside are unchanged. -/
theorem mtime_clamp (m : Int) :
    0 ≤ clampMtime m ∧ clampMtime m ≤ 4294967295 ∧ (0 ≤ m → m ≤ 4294967295 → clampMtime m = m) ∧
    (m < 0 → clampMtime m = 0) ∧ (m > 4294967295 → clampMtime m = 4294967295) := by
  unfold clampMtime
  simp only []
  refine ⟨?_, ?_, ?_, ?_, ?_⟩ <;> (intros; split_ifs <;> omega)

/-- what `process_tarball` hands to the tree is already clamped, so `mknode`'s `clamp_timestamp` and the unclamped
    copy in `fstree_add_generic`'s overwrite path (suspected defect D20) store the same value: D20 is
    unreachable from tar2sqfs -/
theorem mtime_overwrite_path_safe (m : Int) :
    ((clampMtime m % 4294967296).toNat = clampTimestamp (clampMtime m)) ∧
    (clampTimestamp (clampMtime m) : Int) = clampMtime m := by
  obtain ⟨h0, h1, _⟩ := mtime_clamp m
  unfold clampTimestamp
  have h2 : ¬ clampMtime m < 0 := by omega
  have h3 : ¬ clampMtime m > 0xFFFFFFFF := by omega
  simp only [h2, h3, if_false]
  constructor <;> omega

/-- **`--root-becomes` prefix strip**: an entry is kept exactly when its name is the root directory itself or lies
    below it; below it, the name loses exactly the prefix `root/`. -/
theorem prefix_strip (o : ConvOpts) (e : CEntry) (r : Bytes) (h : o.rootBecomes = some r) :
    (processEntry o e = .skip ↔ ¬ (e.name = r ∨ ∃ rest, e.name = r ++ Sqfs.Path.SL :: rest)) ∧
    (∀ e', processEntry o e = .node e' → r ++ Sqfs.Path.SL :: e'.name = e.name) ∧
    (∀ e', processEntry o e = .root e' → e.name = r) := by
  unfold processEntry processEntryWith
  simp only [h]
  by_cases ht : e.name.take r.length = r
  · have hsplit := take_eq_split e.name r ht
    simp only [ht, if_true]
    cases hd : e.name.drop r.length with
    | nil =>
      rw [hd] at hsplit
      simp only [List.append_nil] at hsplit
      simp only
      refine ⟨?_, ?_, ?_⟩
      · constructor
        · intro h'; split at h' <;> cases h'
        · intro h'; exact absurd (Or.inl hsplit) h'
      · intro e' h'; split at h' <;> cases h'
      · intro e' _; exact hsplit
    | cons c rest =>
      rw [hd] at hsplit
      simp only
      by_cases hc : c = Sqfs.Path.SL
      · subst hc
        simp only [if_true]
        refine ⟨?_, ?_, ?_⟩
        · constructor
          · intro h'; split at h' <;> cases h'
          · intro h'; exact absurd (Or.inr ⟨rest, hsplit⟩) h'
        · intro e' h'
          have : e'.name = rest := by
            split at h' <;> (cases h'; rfl)
          rw [this, ← hsplit]
        · intro e' h'; split at h' <;> cases h'
      · simp only [hc, if_false]
        refine ⟨?_, ?_, ?_⟩
        rotate_left
        · intro e' h'; cases h'
        · intro e' h'; cases h'
        constructor
        · intro _ hor
          rcases hor with h1 | ⟨rest', h1⟩
          · rw [h1] at hsplit
            have := congrArg List.length hsplit
            simp at this
          · rw [h1] at hsplit
            have := List.append_cancel_left hsplit
            simp only [List.cons.injEq] at this
            exact hc this.1.symm
        · intro _; trivial
  · simp only [ht, if_false]
    refine ⟨?_, ?_, ?_⟩
    rotate_left
    · intro e' h'; cases h'
    · intro e' h'; cases h'
    constructor
    · intro _ hor
      rcases hor with h1 | ⟨rest', h1⟩
      · apply ht; rw [h1]; simp
      · apply ht; rw [h1]; simp
    · intro _; trivial

/-- **root handling** without `--root-becomes`: exactly the entry whose canonical name is empty ("./", "/", ".")
    sets the root's attributes; everything else becomes a node under its unchanged name. -/
theorem root_handling (o : ConvOpts) (e : CEntry) (h : o.rootBecomes = none) :
    (e.name = [] → ∃ e', processEntry o e = .root e' ∧ e'.name = [] ∧ e'.uid = e.uid ∧ e'.gid = e.gid ∧ e'.mode = e.mode) ∧
    (e.name ≠ [] → ∃ e', processEntry o e = .node e' ∧ e'.name = e.name ∧ e'.link = e.link) := by
  unfold processEntry processEntryWith
  simp only [h]
  constructor
  · intro hn
    simp only [hn, if_true]
    by_cases hk : o.keepTime = true
    · exact ⟨_, rfl, by simp [hk, hn]⟩
    · exact ⟨_, rfl, by simp [hk, hn]⟩
  · intro hn
    simp only [hn, if_false]
    by_cases hk : o.keepTime = true
    · exact ⟨_, rfl, by simp [hk]⟩
    · exact ⟨_, rfl, by simp [hk]⟩

/-- **implicit parents**: after a successful `fstree_add_generic` every proper prefix of the entry's path is a
    directory of the tree (created with the defaults when it did not exist), and no node was dropped. -/
theorem implicit_parents (o : ConvOpts) (t t' : List TNode) (e : CEntry) (h : addGeneric o t e = some t') :
    ∀ k, 0 < k → k < (Sqfs.Path.splitSlash e.name).length →
      ∃ n ∈ t', n.path = (Sqfs.Path.splitSlash e.name).take k ∧ isDirMode n.mode = true := by
  intro k h0 hk
  unfold addGeneric at h
  split at h
  · cases h
  · split at h
    · cases h
    · split at h
      · cases h
      · dsimp only at h
        cases hp : ensureParents o t [] (Sqfs.Path.splitSlash e.name) with
        | none => rw [hp] at h; cases h
        | some t1 =>
          rw [hp] at h
          obtain ⟨_, hpre⟩ := ensureParents_spec o _ t [] t1 hp
          obtain ⟨n, hn, hnp, hnd⟩ := hpre k h0 hk
          simp only [List.nil_append] at hnp
          simp only at h
          have hne : n.path ≠ Sqfs.Path.splitSlash e.name := by
            rw [hnp]; intro heq
            have := congrArg List.length heq
            simp at this; omega
          split at h
          · split at h
            · simp only [Option.some.injEq] at h
              subst h
              refine ⟨n, ?_, hnp, hnd⟩
              apply List.mem_map.2
              exact ⟨n, hn, by simp [hne]⟩
            · cases h
          · split at h
            · cases h
            · simp only [Option.some.injEq] at h
              subst h
              exact ⟨n, List.mem_append_left _ hn, hnp, hnd⟩

/-- **`--root-becomes` link retarget** (repaired rule), safety and liveness: (1) a link target is either left exactly as
    it is, or — when its canonical form lies below the new root `r` — replaced by the part after `r` (which starts with
    '/'); (2) *whenever* the canonical form is `r` followed by `/rest`, the target **is** replaced by `/rest` (a function
    that never retargets does not satisfy this); (3) in every other case it is left untouched. -/
theorem retarget_spec (r l : Bytes) :
    (retarget r l = l ∨ ∃ rest, Sqfs.Path.canonicalize l = some (r ++ Sqfs.Path.SL :: rest) ∧ retarget r l = Sqfs.Path.SL :: rest) ∧
    (∀ rest, Sqfs.Path.canonicalize l = some (r ++ Sqfs.Path.SL :: rest) → retarget r l = Sqfs.Path.SL :: rest) ∧
    ((∀ rest, Sqfs.Path.canonicalize l ≠ some (r ++ Sqfs.Path.SL :: rest)) → retarget r l = l) := by
  have safety : retarget r l = l ∨
      ∃ rest, Sqfs.Path.canonicalize l = some (r ++ Sqfs.Path.SL :: rest) ∧ retarget r l = Sqfs.Path.SL :: rest := by
    unfold retarget
    cases hc : Sqfs.Path.canonicalize l with
    | none => exact Or.inl rfl
    | some c =>
      simp only
      by_cases h : c.take r.length = r ∧ (c.drop r.length).head? = some Sqfs.Path.SL
      · rw [if_pos h]
        right
        cases hd : c.drop r.length with
        | nil => rw [hd] at h; simp at h
        | cons x rest =>
          rw [hd] at h
          simp only [List.head?_cons, Option.some.injEq] at h
          obtain ⟨h1, rfl⟩ := h
          refine ⟨rest, ?_, rfl⟩
          have := take_eq_split c r h1
          rw [hd] at this
          rw [this]
      · rw [if_neg h]; exact Or.inl rfl
  refine ⟨safety, ?_, ?_⟩
  · intro rest hc
    unfold retarget
    rw [hc]
    simp only [List.take_left', List.drop_left', List.head?_cons, and_self, if_true]
  · intro hno
    rcases safety with h | ⟨rest, hc, _⟩
    · exact h
    · exact absurd hc (hno rest)

/-- instance of the liveness part: with `--root-becomes r` the hard-link target `r//y/./z` (canonical form `r/y/z`) becomes
    `/y/z`; a target outside `r` stays byte for byte what it was -/
example : retarget (ascii "r") (ascii "r//y/./z") = ascii "/y/z" ∧ retarget (ascii "r") (ascii "q//y") = ascii "q//y" :=
  ⟨(retarget_spec (ascii "r") (ascii "r//y/./z")).2.1 (ascii "y/z") (by decide),
   (retarget_spec (ascii "r") (ascii "q//y")).2.2 (by
      intro rest h
      have h2 : Sqfs.Path.canonicalize (ascii "q//y") = some (ascii "q/y") := by decide
      rw [h2] at h
      simp only [Option.some.injEq] at h
      have h3 : (ascii "r" ++ Sqfs.Path.SL :: rest).head? = some 114 := rfl
      have h4 : (ascii "q/y").head? = some 113 := by decide
      rw [← h, h4] at h3
      exact absurd h3 (by decide))⟩

/-! ## fix-point -/

/--
**Fix-point, entry level** (full strength).  Let `t` be the flat tree of an image (`FromImage`, `Sqfs/Spec/TarFix.lean`:
clean distinct paths, parents before children, 32-bit ids and times, links with targets, no sockets) and `t[i]` any of its
nodes.  Then

1. sqfs2tar writes a member for it (`write_tar_header` accepts the entry; for a regular file the data and padding follow);
2. wherever that member stands in an archive, tar2sqfs's iterator (`read_header`, `canonicalize_name`, the file stream read to
   its end) reports exactly the node: canonical name, mode, ids, time stamp, link target, the complete file content, the
   xattrs in stored order — and stands in front of whatever follows the member;
3. `process_tarball` (clamp, root handling, `fstree_add_generic`) applied to that report on the tree built from the nodes
   before it appends exactly `t[i]`: no implicit parent is created, nothing is overwritten, no attribute changes.
-/
theorem fixpoint_entry_level (img : ImgData) (t : List TNode) (h : FromImage img t) (i : Nat) (hi : i < t.length)
    (counter : Nat) (rest : Bytes) (devs : List (List Bytes × Nat × Nat)) :
    ∃ b, entryBytes img t[i] counter = some b ∧
      (∃ x s1 k1, IterEntry.view x = viewOf img t[i] ∧ istreamSkip s1 k1 = some rest ∧
        ∀ f s0 k acc, istreamSkip s0 k = some (b ++ rest) →
          iterLoop {} 512 (f + 1) s0 k acc = iterLoop {} 512 f s1 k1 (acc ++ [x])) ∧
      (∀ x, IterEntry.view x = viewOf img t[i] →
        convStep processEntry {} (some (t.take i, devs)) x =
          some (t.take (i + 1), devs ++ [(t[i].path, (viewOf img t[i]).devMajor, (viewOf img t[i]).devMinor)])) := by
  have hn := h.nodes t[i] (List.getElem_mem hi)
  obtain ⟨hd, _, _, hb⟩ := entryBytes_some img t[i] counter hn
  refine ⟨_, hb, iterLoop_node img t[i] counter 512 (by omega) hn _ rest hb, ?_⟩
  intro x hx
  rw [List.take_succ_eq_append_getElem hi]
  apply convStep_node img t[i] (t.take i) devs x hx hn
  · intro m hm
    obtain ⟨j, hj, hji, rfl⟩ := (mem_take_iff t i m).1 hm
    intro heq
    have := h.distinct j i hj hi heq
    omega
  · intro k h0 hk
    obtain ⟨j, hj, hji, hp, hd⟩ := h.parents i hi k h0 hk
    refine ⟨t[j], ?_, hd⟩
    rw [← hp]
    apply lookup_of_unique
    · exact (mem_take_iff t i _).2 ⟨j, hj, hji, rfl⟩
    · intro a ha hpa
      obtain ⟨j', hj', _, rfl⟩ := (mem_take_iff t i a).1 ha
      have := h.distinct j' j hj' hj hpa
      subst this; rfl

/--
**Fix-point, tree level**: `tar2sqfs ∘ sqfs2tar` is the identity on the trees of images.  For every `FromImage` tree the
archive sqfs2tar writes (all members, then `terminate_archive`) is read by tar2sqfs's iterator as exactly the image's nodes
with their contents and xattrs, then end of archive; and converting it rebuilds exactly the tree (same nodes, same order, same
device numbers).  Hence converting once more changes nothing (`fixpoint_idempotent`).

Byte-exactness of the *image* (`sha256(img2) = sha256(img3)`) additionally needs that the serializer is a function of this
tree and of the file contents (C01 `serialize`, C02 determinism of the block processor) and the hard-link resolution (C07);
those are separate properties and are not composed here — the byte-level statement stays decided by execution
(`c04_tools` sub-check C).
-/
theorem fixpoint_tree_level (img : ImgData) (t : List TNode) (h : FromImage img t) :
    tar2sqfsTree {} (sqfs2tar img t) = some (t, devsOf img t) ∧
    ∃ es, iterate (sqfs2tar img t) = (es, .eof) ∧ es.map IterEntry.view = t.map (viewOf img) := by
  obtain ⟨es, hit, hv⟩ := iterate_sqfs2tar img t h.nodes
  refine ⟨?_, es, hit, hv⟩
  unfold tar2sqfsTree
  rw [hit]
  simp only [ne_eq, not_true_eq_false, if_false]
  exact convert_fromImage img t h es hv

/-- … and therefore the conversion is idempotent on trees: whatever tree the first round produced, a second round
    (`img → tar → img2 → tar → img3`) reproduces it -/
theorem fixpoint_idempotent (img : ImgData) (t t2 : List TNode) (d2 : List (List Bytes × Nat × Nat)) (h : FromImage img t)
    (h2 : tar2sqfsTree {} (sqfs2tar img t) = some (t2, d2)) :
    t2 = t ∧ tar2sqfsTree {} (sqfs2tar img t2) = some (t2, d2) := by
  have h1 := (fixpoint_tree_level img t h).1
  rw [h1] at h2
  obtain ⟨rfl, rfl⟩ := Prod.mk.inj (Option.some.inj h2)
  exact ⟨rfl, h1⟩

/-! ## archives that end inside a member (`sqfs_istream_skip`, /repo 1ef571c) -/

/--
**A cut inside an extension record's padding or inside skipped data is an error, never a clean end.**  For every stream:
(1) `record_to_memory` (GNU 'L'/'K' and PAX 'x' payloads) fails unless the payload *and* its padding to the next 512-byte
boundary are there; (2) the directory iterator's `next` fails — it does not report the end of the archive — when fewer bytes are
left than the rest of the previous member's record and padding that it has to skip (a member whose data or padding is cut, an
unknown record that is cut), whatever the bytes are and however many entries were delivered before.
-/
theorem cut_record_is_error (s : Bytes) (size : Nat) (cfg : ReadCfg) (want f skip : Nat) (acc : List IterEntry) :
    (s.length < size + padding size → recordToMemory s size = none) ∧
    (s.length < skip → iterLoop cfg want (f + 1) s skip acc = (acc, .err)) := by
  constructor
  · intro h
    unfold recordToMemory istreamSkip
    by_cases h1 : s.length < size
    · rw [if_pos h1]
    · rw [if_neg h1]
      have : (s.drop size).length < padding size := by rw [List.length_drop]; omega
      rw [if_pos this]
  · intro h
    rw [iterLoop]
    unfold istreamSkip
    rw [if_pos h]

/-! ## sqfs2tar: hard links (`lib/sqfs/src/io/dir_hl.c` on top of `bin/sqfs2tar/src/iterator.c`) -/

/--
**Hard links before and after their targets.**  Let `es` be the entries sqfs2tar's iterator hands out (names as emitted: after the
`--subdir` strip and the `--root-becomes` prefix) and `hlFilter [] es` what the hard-link filter makes of them.  Entry by entry:
a directory passes unchanged; any other entry is reported as a hard link exactly when an *earlier* non-directory entry has the same
inode reference, and then it points to the emitted name of the **first** such entry (mode `S_IFLNK | 0777`, flag set, no xattrs,
no data) — otherwise it passes unchanged (and is the target of every later name of its inode).  Which name of an inode is the
"file" and which are links therefore depends only on the order of the directory listing, never on the order of the members of
the archive the image was made from.  This is the fact `FromImage.hardTarget` (`Spec/TarFix.lean`) builds on; the model function
is compared with the real filter on every run (`s2tents` / `s2t`, generated images with links before and after their targets).
-/
theorem hardlink_filter_spec (es : List RawEnt) (i : Nat) (hi : i < es.length) :
    (hlFilter [] es).length = es.length ∧
    (hlFilter [] es)[i]'(by rw [hlFilter_length]; exact hi) =
      if fmt es[i].mode = S_IFDIR then es[i]
      else hlMark es[i] ((linkable (es.take i)).find? (·.1 = es[i].inode)) := by
  refine ⟨hlFilter_length [] es, ?_⟩
  have := hlFilter_getElem es [] i hi
  simpa using this

/--
**`sqfs2tar --subdir`** (`keep_entry`, bin/sqfs2tar/src/iterator.c).  For one `--subdir` argument `p` an entry is kept exactly when
it is `p` itself, an ancestor directory of `p`, or lies below `p` — where "below" means that the name continues with a '/' after
`p`: a sibling whose name merely *starts* with `p` (`d.y`, `dx` next to `d`) is not selected.  (With several arguments an entry is
kept when one of them keeps it: `keepEntry` is the disjunction.)  The model function is compared with the real tool on every run
on images that contain such siblings.
-/
theorem subdir_selection_spec (p name : Bytes) :
    (keepFor p name = true ↔ name = p ∨ isBelow name p = true ∨ isBelow p name = true) ∧
    (isBelow p name = true ↔ p.length < name.length ∧ name[p.length]? = some Sqfs.Path.SL ∧ name.take p.length = p) := by
  refine ⟨keepFor_iff p name, ?_⟩
  simp [isBelow]

/--
**Fix-point behind sqfs2tar's options.**  Whatever `--subdir` / `--keep-as-dir` / `--root-becomes` / `--no-hard-links` options
sqfs2tar is given (without `--no-skip`): the bytes it writes — `sqfs2tarFull`, the function that is compared with the real tool's
standard output on every run — are `sqfs2tar` applied to the entries that survive the selection, under their emitted names, with
the hard links the filter finds *among them*; and whenever those entries form a tree (`FromImage`: parents emitted before their
children — i.e. the new root is a single directory or absent —, no sockets), tar2sqfs on these bytes rebuilds exactly that tree:
every emitted entry, nothing else, same order, link targets as emitted.
-/
theorem fixpoint_sqfs2tar_options (o : S2tOpts) (root : RootInfo) (raw : List RawEnt) (hs : o.dontSkip = false)
    (h : FromImage (imgOfEnts (s2tEntries o root raw)) ((s2tEntries o root raw).map nodeOfEnt)) :
    sqfs2tarFull o root raw = some (sqfs2tar (imgOfEnts (s2tEntries o root raw)) ((s2tEntries o root raw).map nodeOfEnt)) ∧
    tar2sqfsTree {} (sqfs2tar (imgOfEnts (s2tEntries o root raw)) ((s2tEntries o root raw).map nodeOfEnt)) =
      some ((s2tEntries o root raw).map nodeOfEnt,
            devsOf (imgOfEnts (s2tEntries o root raw)) ((s2tEntries o root raw).map nodeOfEnt)) := by
  refine ⟨?_, (fixpoint_tree_level _ _ h).1⟩
  simp [sqfs2tarFull, hs]

/-! ### layout facts the models rely on, re-checked against `include/tar/format.h` on every run
(`Sqfs/Generated/Consts.lean` is regenerated from the working tree; a changed offset or width breaks this build) -/
section layout
open Sqfs.Consts
example : tarSizeofHeader = 512 ∧ tarRecordSize = 512 := by decide
example : tarOffName = 0 ∧ tarSizeofName = 100 ∧ tarOffMode = 100 ∧ tarOffUid = 108 ∧ tarOffGid = 116 ∧ tarOffSize = 124 ∧
    tarOffMtime = 136 ∧ tarOffChksum = 148 ∧ tarSizeofChksum = 8 ∧ tarOffTypeflag = 156 ∧ tarOffLinkname = 157 ∧
    tarSizeofLinkname = 100 ∧ tarOffMagic = 257 ∧ tarOffVersion = 263 ∧ tarOffUname = 265 ∧ tarOffGname = 297 ∧
    tarOffDevmajor = 329 ∧ tarOffDevminor = 337 ∧ tarOffPrefix = 345 ∧ tarSizeofPrefix = 155 ∧ tarSizeofNum8 = 8 ∧
    tarSizeofNum12 = 12 := by decide
example : tarOffGnuSparse = 386 ∧ tarSizeofOldSparse = 24 ∧ tarOffGnuIsExtended = 482 ∧ tarOffGnuRealsize = 483 ∧
    tarSizeofOldSparseRecord = 512 ∧ tarOffOldSparseRecIsExtended = 504 := by decide
example : tarMaxSymlinkLen = 65536 ∧ tarMaxPathLen = 65536 ∧ tarMaxPaxLen = 65536 ∧ tarMaxSparseEnt = 65536 := by decide
set_option maxRecDepth 100000 in
/-- the model's raw header has the struct's size -/
example : (rawHeader (field 100 []) 0 0 0 0 0 48 (zeros 100) 0 0).length = tarSizeofHeader := by decide
end layout

/-! ### non-vacuity -/
example : WellFormedMap 0 [(0, 3), (3, 0), (512, 2), (1000, 0)] 1000 := by simp [WellFormedMap]
example : (expand [(2, 3), (8, 2)] 12 5 [1, 2, 3, 4, 5, 9, 9]).out = [0, 0, 1, 2, 3, 0, 0, 0, 4, 5, 0, 0] := by decide
example : prefixDigitLen 9 = 2 ∧ prefixDigitLen 98 = 3 ∧ prefixDigitLen 9996 = 5 := by decide
example : clampMtime (-5) = 0 ∧ clampMtime 8589934592 = 4294967295 := by decide
example : processEntry { rootBecomes := some (ascii "r") } ⟨ascii "r/x", 0o100644, 0, 0, 0, false, none, 0, 0⟩
    = .node ⟨ascii "x", 0o100644, 0, 0, 0, false, none, 0, 0⟩ := by decide

example : readNumber (writeNumber 420 8) = some 420 := by decide
example : writeNumber 2097152 8 = [49, 48, 48, 48, 48, 48, 48, 48] := by decide      -- 8 digits, no terminator
example : writeNumber 16777216 8 = [128, 0, 0, 0, 1, 0, 0, 0] := by decide           -- base-256
example : (readNumber (writeNumberSigned (-1) 12)).map toSigned = some (-1) := by decide
example : writeNumberSigned (-1) 12 = [128, 0, 0, 0, 255, 255, 255, 255, 255, 255, 255, 255] := by decide
/-- GNU tar's encoding of −1 is read as −1 too -/
example : (readNumber (List.replicate 12 255)).map toSigned = some (-1) := by decide
/-- the width-8 restriction of `number_roundtrip` is sharp: `0x7F·2^56` does not survive an 8-byte field -/
example : readNumber (writeNumber (127 * 2 ^ 56) 8) = some (255 * 2 ^ 56) := by decide

/-! #### header round trip: the hypotheses are satisfiable, and the statement evaluated on a concrete entry
(name of exactly 100 bytes → GNU 'L' record; uid needing base-256, gid needing 8 unterminated octal digits, negative mtime;
two xattrs, one with '=' and '%' in the key and NUL, '=', newline, 0xFF in the value) -/

abbrev exEntry : WEntry := ⟨List.replicate 100 97, 0o100644, 16777216, 2097152, 5, -1, 0, 0, false⟩
abbrev exXs : List (Bytes × Bytes) := [(ascii "user.a=b%", [0, 61, 10, 255]), (ascii "user.k", [])]

set_option maxRecDepth 100000 in
example : Encodable exEntry none exXs :=
  { nameNul := by decide, tgtNul := by decide, keyNul := by decide, size := by decide, mtime := by decide, uid := by decide,
    gid := by decide, dev := by decide, nameLen := by decide, tgtLen := by decide, paxLen := by decide, slink := by decide,
    hlink := by decide }

set_option maxRecDepth 1000000 in
set_option maxHeartbeats 2000000 in
example : (writeTarHeader exEntry none exXs 7).map (fun w => match readHeader (w ++ [1, 2, 3]) with
    | .ok d r => decide (d = decodedOf exEntry none exXs.reverse ∧ r = [1, 2, 3])
    | _ => false) = some true := by decide

/-- a socket is refused, nothing is written -/
example : writeTarHeader ⟨ascii "s", 0o140755, 0, 0, 0, 0, 0, 0, false⟩ none [(ascii "user.x", [1])] 0 = none := by decide

/-! #### fix-point: a concrete `FromImage` tree (directory, file with content and two xattrs, symlink, device, hard link),
and both conversions evaluated on it -/

abbrev exImg : ImgData :=
  { content := fun p => if p = [ascii "d", ascii "f"] then [104, 105, 0] else [],
    xattr := fun p => if p = [ascii "d", ascii "f"] then [(ascii "user.a=b", [1, 0]), (ascii "user.c", [])] else [],
    dev := fun p => if p = [ascii "null"] then (1, 3) else (0, 0) }
abbrev exTree : List TNode :=
  [ ⟨[ascii "d"], 0o040755, 0, 0, 1700000000, false, false, none⟩,
    ⟨[ascii "d", ascii "f"], 0o100644, 1000, 1000, 4294967295, false, false, none⟩,
    ⟨[ascii "d", ascii "l"], 0o120777, 0, 0, 0, false, false, some (ascii "../x y")⟩,
    ⟨[ascii "null"], 0o020666, 0, 0, 5, false, false, none⟩,
    ⟨[ascii "h"], 0o120777, 1000, 1000, 4294967295, false, true, some (ascii "d/f")⟩ ]

set_option maxRecDepth 100000 in
example : FromImage exImg exTree where
  nodes := by
    intro n hn
    simp only [exTree, List.mem_cons, List.not_mem_nil, or_false] at hn
    rcases hn with rfl | rfl | rfl | rfl | rfl
    all_goals exact
      { pathNe := by decide, comps := by decide, kind := by decide, explicit := by decide, uid := by decide, gid := by decide,
        mtime := by decide, lnkMode := by decide, hardMode := by decide,
        lnkTarget := by first | (intro h; exact absurd h (by decide)) | (intro _; exact ⟨_, rfl, by decide, by decide⟩),
        hardTarget := by first | (intro h; exact absurd h (by decide)) | (intro _; exact ⟨_, rfl, by decide⟩),
        noTarget := by decide, dev := by decide, nameLen := by decide, contentLen := by decide, keyNul := by decide,
        paxLen := by decide }
  distinct := by
    intro i j hi hj h
    have hnd : (exTree.map (·.path)).Nodup := by decide
    have := (List.getElem_inj (xs := exTree.map (·.path)) (i := i) (j := j) (h₀ := by simpa using hi) (h₁ := by simpa using hj) hnd).1
      (by rw [List.getElem_map, List.getElem_map]; exact h)
    exact this
  parents := by
    intro i hi k h0 hk
    have hi' : i < 5 := hi
    rcases i with _ | _ | _ | _ | _ | i
    · simp [exTree] at hk; omega
    · have : k = 1 := by simp [exTree] at hk; omega
      subst this
      exact ⟨0, by decide, by decide, rfl, rfl⟩
    · have : k = 1 := by simp [exTree] at hk; omega
      subst this
      exact ⟨0, by decide, by decide, rfl, rfl⟩
    · simp [exTree] at hk; omega
    · simp [exTree] at hk; omega
    · omega

set_option maxRecDepth 1000000 in
set_option maxHeartbeats 4000000 in
example : tar2sqfsTree {} (sqfs2tar exImg exTree) = some (exTree, devsOf exImg exTree) := by decide

/-! #### `fixpoint_sqfs2tar_options`: a listing with a directory that is not selected, a sibling whose name extends the selected
directory's name, and two names of one inode below the selected directory; `--subdir d --root-becomes r` -/
abbrev exRaw : List RawEnt :=
  [ ⟨ascii "d", 0o040755, 0, 0, 7, 1, none, [], [], 0, 0, false⟩,
    ⟨ascii "d/a", 0o100644, 1000, 1000, 8, 2, none, [104, 105], [(ascii "user.k", [1])], 0, 0, false⟩,
    ⟨ascii "d/b", 0o100644, 1000, 1000, 8, 2, none, [104, 105], [(ascii "user.k", [1])], 0, 0, false⟩,
    ⟨ascii "d.y", 0o100600, 0, 0, 9, 3, none, [1], [], 0, 0, false⟩,
    ⟨ascii "dx", 0o040700, 0, 0, 9, 4, none, [], [], 0, 0, false⟩,
    ⟨ascii "dx/g", 0o100600, 0, 0, 9, 5, none, [2], [], 0, 0, false⟩ ]
abbrev exOpts : S2tOpts := { subdirs := [ascii "d"], rootBecomes := some (ascii "r") }

set_option maxRecDepth 100000 in
example : (s2tEntries exOpts {} exRaw).map (fun e => (e.name, e.hardLink, e.target)) =
    [(ascii "r", false, none), (ascii "r/a", false, none), (ascii "r/b", true, some (ascii "r/a"))] := by decide

abbrev exTree2 : List TNode :=
  [⟨[ascii "r"], 0o040755, 0, 0, 0, false, false, none⟩, ⟨[ascii "r", ascii "a"], 0o100644, 1000, 1000, 8, false, false, none⟩,
   ⟨[ascii "r", ascii "b"], 0o120777, 1000, 1000, 8, false, true, some (ascii "r/a")⟩]

set_option maxRecDepth 1000000 in
example : FromImage (imgOfEnts (s2tEntries exOpts {} exRaw)) ((s2tEntries exOpts {} exRaw).map nodeOfEnt) := by
  have he : (s2tEntries exOpts {} exRaw).map nodeOfEnt = exTree2 := by decide
  rw [he]
  exact
  { nodes := by
      intro n hn
      simp only [List.mem_cons, List.not_mem_nil, or_false] at hn
      rcases hn with rfl | rfl | rfl
      all_goals exact
        { pathNe := by decide, comps := by decide, kind := by decide, explicit := by decide, uid := by decide, gid := by decide,
          mtime := by decide, lnkMode := by decide, hardMode := by decide,
          lnkTarget := by first | (intro h; exact absurd h (by decide)) | (intro _; exact ⟨_, rfl, by decide, by decide⟩),
          hardTarget := by first | (intro h; exact absurd h (by decide)) | (intro _; exact ⟨_, rfl, by decide⟩),
          noTarget := by decide, dev := by decide, nameLen := by decide, contentLen := by decide, keyNul := by decide,
          paxLen := by decide }
    distinct := by
      intro i j hi hj h
      have hnd : (exTree2.map (·.path)).Nodup := by decide
      exact (List.getElem_inj (xs := exTree2.map (·.path)) (i := i) (j := j) (h₀ := by simpa using hi) (h₁ := by simpa using hj) hnd).1
        (by rw [List.getElem_map, List.getElem_map]; exact h)
    parents := by
      intro i hi k h0 hk
      have hi' : i < 3 := hi
      rcases i with _ | _ | _ | i
      · simp [exTree2] at hk; omega
      · have : k = 1 := by simp [exTree2] at hk; omega
        subst this
        exact ⟨0, by decide, by decide, rfl, rfl⟩
      · have : k = 1 := by simp [exTree2] at hk; omega
        subst this
        exact ⟨0, by decide, by decide, rfl, rfl⟩
      · omega }

/-! #### foreign dialects: a POSIX ustar block with a `prefix` (a dialect the own writer never produces), a GNU 'L' record
header, a PAX `path` record -/
abbrev posixBlock : Bytes :=
  updateChecksum (field 100 (ascii "file") ++ writeNumber 0o644 8 ++ writeNumber 1000 8 ++ writeNumber 100 8 ++ writeNumber 5 12 ++
    writeNumber 1542905892 12 ++ zeros 8 ++ [48] ++ zeros 100 ++ [117, 115, 116, 97, 114, 0] ++ [48, 48] ++ field 32 (ascii "user") ++
    field 32 (ascii "group") ++ writeNumber 0 8 ++ writeNumber 0 8 ++ field 155 (ascii "some/dir") ++ zeros 12)

set_option maxRecDepth 1000000 in
example : posixBlock.length = 512 ∧ isZeroBlock posixBlock = false ∧ checkVersion posixBlock = some .posix ∧
    isChecksumValid posixBlock = true ∧ (slice posixBlock 156 1).headD 0 = 48 := by decide

set_option maxRecDepth 1000000 in
/-- `checksum_roundtrip` applied to the POSIX block (512 bytes) -/
example := checksum_roundtrip posixBlock (by decide)

set_option maxRecDepth 1000000 in
/-- `read_header_after_records` applied to the POSIX block with every hypothesis discharged: a preceding PAX record has set
the name (`PAX_NAME`, "n"); fuel 3 + 1, two bytes follow the block -/
example :=
  have pb : posixBlock.length = 512 ∧ isZeroBlock posixBlock = false ∧ checkVersion posixBlock = some .posix ∧
      isChecksumValid posixBlock = true ∧ (slice posixBlock 156 1).headD 0 = 48 := by decide
  read_header_after_records {} 3 posixBlock [9, 9] false .posix PAX_NAME { name := some (ascii "n") } pb.1 pb.2.1 pb.2.2.1
    pb.2.2.2.1 (by rw [pb.2.2.2.2]; decide) rfl (by decide)

set_option maxRecDepth 1000000 in
example : (specDecode posixBlock 0 {} .posix).map (fun d => (d.name, d.mode, d.uid, d.gid, d.recordSize, d.mtime)) =
    some (some (ascii "some/dir/file"), 0o100644, 1000, 100, 5, 1542905892) := by decide

example : IsHdr (hdrBlock (field 100 ((ascii "././@LongLink").take 99)) 0o644 0 0 (ascii "a/long/name").length 0 76 (zeros 100) 0 0) 76
    (ascii "a/long/name").length :=
  ext_isHdr ⟨[], 0, 0, 0, 0, 0, 0, 0, false⟩ (ascii "a/long/name") 76 (ascii "././@LongLink") (by decide)

example : (paxRecord (ascii "path") (ascii "x/y")) = ascii "12 path=x/y\n" := by decide
-- `pax_number_exact_or_error`: the largest accepted value, the smallest refused one, a fractional mtime, leading zeros
example : parseUint (ascii "18446744073709551609") = some (18446744073709551609, 20) ∧ parseUint (ascii "18446744073709551610") = none ∧
    parseInt (ascii "1542905892.5") = some 1542905892 ∧ parseInt (ascii "-000000000000000000000000017,") = some (-17) := by decide
-- `libarchive_xattr_roundtrip`: the encoders are base64 ("ABC" -> "QUJD", "AB" -> "QUI=" / "QUI")
example : b64Encode (ascii "ABC") = ascii "QUJD" ∧ b64Encode (ascii "AB") = ascii "QUI=" ∧ b64EncodeNoPad (ascii "AB") = ascii "QUI" ∧
    b64Encode [0xfb, 0xff] = ascii "+/8=" := by decide
-- `libarchive_key_roundtrip`: '=' and '%' escaped, the rest literal
example : urlEncode (fun c => c = 37 || c = 61) (ascii "user.a=b%") = ascii "user.a%3Db%25" ∧
    urlDecode (ascii "user.a%3Db%25") = ascii "user.a=b%" := by decide
-- `pax_sparse_map_spec`: the hypotheses hold for a real map, and `renderMap` is the record's syntax
example : renderMap [(ascii "10", ascii "3"), (ascii "020", ascii "2")] = ascii "10,3,020,2" ∧ IsDec (ascii "020") ∧ decVal (ascii "020") = 20 := by
  refine ⟨by decide, ⟨by decide, by decide, by decide⟩, by decide⟩
-- `subdir_selection_spec`: `d` selects itself, its ancestor-free self, `d/x`, but neither `dx` nor `d.y`
example : keepFor (ascii "a/d") (ascii "a") = true ∧ keepFor (ascii "a/d") (ascii "a/d/x") = true ∧ keepFor (ascii "a/d") (ascii "a/dx") = false ∧
    keepFor (ascii "a/d") (ascii "a/d.y") = false ∧ keepFor (ascii "a/d") (ascii "b") = false := by decide
-- `hardlink_filter_spec` on a listing with a directory, three names of inode 7 and one other file: the first name in listing
-- order stays a file, the later ones point to it
set_option maxRecDepth 100000 in
example : (hlFilter [] [⟨ascii "d", S_IFDIR + 0o755, 0, 0, 0, 7, none, [], [], 0, 0, false⟩,
      ⟨ascii "d/a", S_IFREG + 0o644, 0, 0, 0, 7, none, [1], [], 0, 0, false⟩, ⟨ascii "d/b", S_IFREG + 0o644, 0, 0, 0, 8, none, [], [], 0, 0, false⟩,
      ⟨ascii "e", S_IFREG + 0o644, 0, 0, 0, 7, none, [1], [], 0, 0, false⟩]).map (fun e => (e.name, e.hardLink, e.target)) =
    [(ascii "d", false, none), (ascii "d/a", false, none), (ascii "d/b", false, none), (ascii "e", true, some (ascii "d/a"))] := by decide
-- `pax_sparse_map_replaces`: its hypothesis holds for a real map; and the whole parser on numbytes, map, numbytes in one PAX header
-- (the input of /repo 56b164f): the record that comes last determines the map
example : paxSparseMap (cstr (ascii "10,3,20,2")) = some [(10, 3), (20, 2)] := by decide
set_option maxRecDepth 1000000 in
example : (readPaxHeader {} (paxRecord (ascii "GNU.sparse.offset") (ascii "1") ++ paxRecord (ascii "GNU.sparse.numbytes") (ascii "2") ++
      paxRecord (ascii "GNU.sparse.map") (ascii "10,3,20,2") ++ paxRecord (ascii "GNU.sparse.offset") (ascii "50") ++
      paxRecord (ascii "GNU.sparse.numbytes") (ascii "4")) {} 0).map (·.1.sparse) = some [(50, 4)] := by decide
-- the reader on streams that end inside the padding of an extension record / inside a 'g' record (since /repo 1ef571c: error)
set_option maxRecDepth 1000000 in
example : recordToMemory ([1, 2, 3] ++ zeros 508) 3 = none ∧ (recordToMemory ([1, 2, 3] ++ zeros 509 ++ [7]) 3).map (·.2) = some [7] := by
  decide

/-- `implicit_parents`: its hypothesis is satisfiable (two directories are created implicitly) -/
example : (addGeneric {} [] ⟨ascii "a/b/c", 0o100644, 0, 0, 0, false, none, 0, 0⟩).map (fun t => t.map (·.path)) =
    some [[ascii "a"], [ascii "a", ascii "b"], [ascii "a", ascii "b", ascii "c"]] := by decide

end Sqfs.C04
