/-
C04 — tar ↔ SquashFS conversion preserves the archive; byte-exact fix-point.

Property theorems only (helpers: `Sqfs/Proofs/Tar*.lean`).  Models: `Sqfs/Model/Tar*.lean`, one Lean
function per C function / loop of `lib/tar` and of the conversion code of `tar2sqfs`/`sqfs2tar`.
-/
import Sqfs.Proofs.TarNumber
import Sqfs.Proofs.TarHeader
import Sqfs.Proofs.TarHeaderRT
import Sqfs.Proofs.TarPaxRT
import Sqfs.Proofs.TarSparse
import Sqfs.Proofs.TarSparseChunk
import Sqfs.Proofs.TarConv
namespace Sqfs.C04
open Sqfs.Tar

/-! ## numeric fields (`number.c`, `write_number*` of `write_header.c`) -/

/--
**Exact or error.**  For *every* field (any length, any bytes) `read_number` returns exactly what the
field means — the value of the octal digit run, or of the base-256 number as a 64-bit two's-complement
pattern — or fails; it never returns a wrapped value.  (`specNumber` is `none` exactly when the value does
not fit: octal/positive ≥ 2^64, negative < −2^63.)  Holds for the repaired guard; the unrepaired one is
refuted in `Sqfs/Witness/C04.lean`.
-/
theorem readNumber_exact_or_error (f : Bytes) : readNumber f = specNumber f :=
  readNumber_spec f

/-- … in particular a successful read of an octal field is the unbounded value of its digits, -/
theorem readNumber_octal_exact (b0 : UInt8) (t : Bytes) (r : Nat) (h7 : b0.toNat < 128)
    (h : readNumber (b0 :: t) = some r) : r = specOctal (b0 :: t) := by
  rw [readNumber_exact_or_error] at h
  unfold specNumber at h
  have : ¬ b0.toNat ≥ 128 := by omega
  simp only [this, if_false] at h
  split at h
  · exact (Option.some.inj h).symm
  · cases h

/-- … and a successful read of a base-256 field is its signed value modulo 2^64 with the value in
    `[-2^63, 2^64)`. -/
theorem readNumber_binary_exact (b0 : UInt8) (t : Bytes) (r : Nat) (h7 : b0.toNat ≥ 128)
    (h : readNumber (b0 :: t) = some r) :
    -9223372036854775808 ≤ specBinary (b0 :: t) ∧ specBinary (b0 :: t) < (U64 : Int) ∧
    (r : Int) = specBinary (b0 :: t) % (U64 : Int) := by
  rw [readNumber_exact_or_error] at h
  unfold specNumber at h
  simp only [h7, if_true] at h
  unfold fits64 at h
  simp only [U64] at h ⊢
  split at h
  · have := Option.some.inj h; omega
  · split at h
    · have := Option.some.inj h; omega
    · cases h

/--
**Number round trip**, every field width `2 ≤ w ≤ 21` (the code uses 8 and 12) and every 64-bit value
the encoding can hold: octal with terminator (`v < 8^(w-1)`), octal without terminator (`v < 8^w`),
base-256 (any `v < 2^64` for `w ≥ 9`; for `w = 8` values below `0x7F·2^56`, since the first payload
byte shares its top bit with the marker and `0xFF` means "negative").
-/
theorem number_roundtrip (v w : Nat) (hw : 2 ≤ w ∧ w ≤ 21) (hv : v < U64)
    (hfit : v < 8 ^ w ∨ 9 ≤ w ∨ (w = 8 ∧ v < 127 * 2 ^ 56)) :
    readNumber (writeNumber v w) = some v := by
  obtain ⟨n, rfl⟩ : ∃ n, w = n + 2 := ⟨w - 2, by omega⟩
  unfold writeNumber
  have hpos1 : 1 ≤ 8 ^ (n + 1) := Nat.one_le_pow _ _ (by omega)
  have hpos2 : 1 ≤ 8 ^ (n + 2) := Nat.one_le_pow _ _ (by omega)
  simp only [show n + 2 - 1 = n + 1 by omega]
  by_cases h1 : v ≤ 8 ^ (n + 1) - 1
  · rw [if_pos h1]
    exact readNumber_octDigits n v [32] (Or.inr ⟨32, [], rfl, by decide⟩) (by omega) hv
  · rw [if_neg h1]
    by_cases h2 : v ≤ 8 ^ (n + 2) - 1
    · rw [if_pos h2]
      have := readNumber_octDigits (n + 1) v [] (Or.inl rfl) (by show v < 8 ^ (n + 2); omega) hv
      simpa using this
    · rw [if_neg h2]
      have hbig : ¬ v < 8 ^ (n + 2) := by omega
      simp only [U64] at hv
      rcases hfit with h | h | ⟨h, h56⟩
      · exact absurd h hbig
      · have hp : 256 ^ 8 ≤ 256 ^ (n + 1) := Nat.pow_le_pow_right (by omega) (by omega)
        have hp' : 256 ^ (n + 1) ≤ 256 ^ (n + 2) := Nat.pow_le_pow_right (by omega) (by omega)
        norm_num at hp
        have hlt : v < 256 ^ (n + 1) := by omega
        apply readNumber_writeBinary (n + 1) v
        · rw [Nat.div_eq_of_lt hlt]; omega
        · omega
        · simp only [U64]; omega
      · have hn : n = 6 := by omega
        subst hn
        apply readNumber_writeBinary 7 v
        · norm_num at h56 ⊢; omega
        · norm_num; omega
        · simp only [U64]; omega

/--
**Signed round trip** (the mtime field: `write_number_signed`, then `read_number` and `decode_header`'s
conversion): every `sqfs_s64` value, negative ones included, in every field of at least 9 bytes.
-/
theorem number_roundtrip_signed (m : Int) (w : Nat) (hw : 9 ≤ w ∧ w ≤ 21)
    (hm : -9223372036854775808 ≤ m ∧ m < 9223372036854775808) :
    (readNumber (writeNumberSigned m w)).map toSigned = some m := by
  unfold writeNumberSigned
  by_cases hneg : m < 0
  · rw [if_pos hneg]
    obtain ⟨n, rfl⟩ : ∃ n, w = n + 1 := ⟨w - 1, by omega⟩
    have hv : (m + (U64 : Int)).toNat % U64 = (m + (U64 : Int)).toNat := by
      apply Nat.mod_eq_of_lt; simp only [U64]; omega
    rw [hv]
    have hp : 256 ^ 8 ≤ 256 ^ n := Nat.pow_le_pow_right (by omega) (by omega)
    have hp' : 256 ^ n ≤ 256 ^ (n + 1) := Nat.pow_le_pow_right (by omega) (by omega)
    norm_num at hp
    have hlt : (m + (U64 : Int)).toNat < 256 ^ n := by simp only [U64]; omega
    rw [readNumber_writeBinary n _ (by rw [Nat.div_eq_of_lt hlt]; omega) (by omega) (by simp only [U64]; omega)]
    simp only [Option.map_some, toSigned, U64, Option.some.injEq]
    split <;> omega
  · rw [if_neg hneg]
    rw [number_roundtrip m.toNat w (by omega) (by simp only [U64]; omega) (Or.inr (Or.inl hw.1))]
    simp only [Option.map_some, toSigned, Option.some.injEq]
    split <;> omega

/-! ## checksum (`checksum.c`, `update_checksum`, `is_checksum_valid`) -/

/--
**Checksum round trip.**  For every 512-byte header, `update_checksum` touches only the 8 checksum
bytes, the checksum does not depend on them, and `is_checksum_valid` accepts the result.
-/
theorem checksum_roundtrip (h : Bytes) (hl : h.length = 512) :
    isChecksumValid (updateChecksum h) = true ∧
    computeChecksum (updateChecksum h) = computeChecksum h ∧
    (updateChecksum h).take 148 = h.take 148 ∧ (updateChecksum h).drop 156 = h.drop 156 ∧
    (updateChecksum h).length = 512 := by
  have hA : (h.take 148).length = 148 := by simp [hl]
  have hF : ∀ c, (chksumField c).length = 8 := by intro c; simp [chksumField, octDigits_length]
  have hAF : ∀ c, (h.take 148 ++ chksumField c).length = 156 := by intro c; simp [hA, hF]
  have e1 : (updateChecksum h).take 148 = h.take 148 := by
    unfold updateChecksum
    rw [List.append_assoc]; exact List.take_left' hA
  have e2 : (updateChecksum h).drop 156 = h.drop 156 := by
    unfold updateChecksum
    exact List.drop_left' (hAF _)
  have e3 : ((updateChecksum h).drop 148).take 8 = chksumField (computeChecksum h) := by
    unfold updateChecksum
    rw [List.append_assoc, List.drop_left' hA]; exact List.take_left' (hF _)
  have e4 : computeChecksum (updateChecksum h) = computeChecksum h := by
    unfold computeChecksum; rw [e1, e2]
  have hc := computeChecksum_lt h hl
  have e5 : readNumber (chksumField (computeChecksum h)) = some (computeChecksum h) := by
    unfold chksumField
    exact readNumber_octDigits 5 _ [0, 32] (Or.inr ⟨0, [32], rfl, by decide⟩) hc
      (by simp only [U64]; norm_num at hc; omega)
  refine ⟨?_, e4, e1, e2, ?_⟩
  · unfold isChecksumValid
    rw [e3, e5, e4]; simp
  · unfold updateChecksum
    simp [hF, hl]

/-! ## PAX records written by `write_schily_xattr` -/

/--
**`prefix_digit_len` is correct** for every `len` (no bound): the number of digits it returns is the
number of digits of `len` *plus that number* — the self-referential length of a PAX record.  (The
`do … while` loop reaches its fixed point within three iterations, so the fuel of the model is exact.)
-/
theorem prefix_digit_len_correct (len : Nat) : numDigits (len + prefixDigitLen len) = prefixDigitLen len :=
  prefixDigitLen_fix len

/-- hence the length field of every emitted `SCHILY.xattr` record equals the record's actual length,
    for all keys and all (binary) values -/
theorem schily_record_length (key value : Bytes) :
    let len := 13 + key.length + value.length + 3
    schilyRecord key value = decStr (len + prefixDigitLen len) ++ ([32] ++ schilyPrefix ++ key ++ [61] ++ value ++ [10]) ∧
    (schilyRecord key value).length = len + prefixDigitLen len := by
  have hp : schilyPrefix.length = 13 := by decide
  refine ⟨?_, ?_⟩
  · unfold schilyRecord
    simp only [hp, List.append_assoc]
  · unfold schilyRecord
    simp only [hp, List.length_append, decStr_length, prefix_digit_len_correct, List.length_cons, List.length_nil]
    omega

/--
**PAX record round trip.**  For every key without NUL and '=' and every value (arbitrary bytes: NUL, '=', newline
included), the record parser of `read_pax_header` applied to the record `write_schily_xattr` emits — followed by
anything — consumes exactly the record and delivers exactly that key/value pair (prepended to the list, as the C code does).
-/
theorem pax_record_roundtrip (st : PaxState) (key value rest : Bytes) (hk : ∀ x ∈ key, x ≠ 0 ∧ x ≠ 61) :
    paxLine false st (schilyRecord key value ++ rest) =
      some ({ st with out := { st.out with xattr := (key, value) :: st.out.xattr } }, (schilyRecord key value).length) :=
  paxLine_schily st key value rest hk

/-- … and the whole payload of a `pax/xattrN` member, any number of xattrs, is read back completely: the header gets
    exactly the written pairs (in reverse order — the reader prepends), `set_by_pax` stays untouched. -/
theorem pax_payload_roundtrip (xs : List (Bytes × Bytes)) (out : Decoded) (mask : Nat)
    (hk : ∀ kv ∈ xs, ∀ x ∈ kv.1, x ≠ 0 ∧ x ≠ 61) :
    readPaxHeader false ((xs.map fun kv => schilyRecord kv.1 kv.2).flatten) out mask =
      some ({ out with xattr := xs.reverse ++ out.xattr }, mask) := by
  unfold readPaxHeader
  rw [paxLoop_schily xs _ _ hk]
  · rfl
  · have : xs.length ≤ ((xs.map fun kv => schilyRecord kv.1 kv.2).flatten).length := by
      induction xs with
      | nil => simp
      | cons kv t ih =>
        have h1 := ih (fun kv' h' => hk kv' (List.mem_cons_of_mem _ h'))
        have h2 : 1 ≤ (schilyRecord kv.1 kv.2).length := by
          cases h : schilyRecord kv.1 kv.2 with
          | nil => exact absurd h (schilyRecord_ne_nil _ _)
          | cons _ _ => simp
        simp only [List.map_cons, List.flatten_cons, List.length_append, List.length_cons]
        omega
    omega

/-! ## header round trip -/

/-
Full statement (NOT proved; evaluated on the real code on every run instead — `enc` → `dec` in tools/checks/c04.py):

  header_roundtrip : ∀ e tgt xs n rest, supported e → NUL-free names/targets/keys, ids < 0x7F·2^56 →
      readHeader ((writeTarHeader e tgt xs n).get ++ rest) =
        .ok { name := e.name, link := tgt, mode := modeOf e, uid := e.uid, gid := e.gid, mtime := e.mtime,
              recordSize := sizeOf e, actualSize := sizeOf e, devMajor/devMinor, hardLink := e.hardLink,
              xattr := xs.reverse } rest
      (for every entry kind, name/link lengths on both sides of 100 — GNU 'L'/'K' records —, every numeric encoding,
       xattrs through the SCHILY.xattr PAX record)

What is missing: slicing the 17 fields back out of the 512-byte record (`slice (updateChecksum (rawHeader …)) off n`),
and the loop of `read_header` over up to three extension records.  What is proved (this theorem and the ones above):
the record has the right size and a checksum the reader accepts, and every *field codec* the decoder applies inverts
the corresponding field writer: string fields, the three number encodings at both field widths, signed mtime, and the
self-referential PAX length.
-/
theorem header_roundtrip_partial (e : WEntry) (name : Bytes) (slink : Option Bytes) (tf : UInt8) :
    (writeHeaderRec e name slink tf).length = 512 ∧ isChecksumValid (writeHeaderRec e name slink tf) = true ∧
    (∀ n : Bytes, n.length ≤ 99 → (∀ x ∈ n, x ≠ 0) → strn (field 100 (n.take 99)) = n) ∧           -- name
    (∀ t : Bytes, t.length ≤ 99 → (∀ x ∈ t, x ≠ 0) → strn (field 100 (t.take t.length)) = t) ∧     -- link target (`ent->size` bytes)
    (∀ v, v < 127 * 2 ^ 56 → readNumber (writeNumber v 8) = some v) ∧                               -- mode, uid, gid, devmajor, devminor
    (∀ v, v < U64 → readNumber (writeNumber v 12) = some v) ∧                                       -- size
    (∀ m : Int, -9223372036854775808 ≤ m → m < 9223372036854775808 →
        (readNumber (writeNumberSigned m 12)).map toSigned = some m) := by                         -- mtime
  have hlen : ∀ l : Bytes, l.length = 100 →
      (rawHeader (field 100 (name.take 99)) (perm e.mode) e.uid e.gid (if fmt e.mode = S_IFREG then e.size else 0) e.mtime tf l
        (if fmt e.mode = S_IFCHR ∨ fmt e.mode = S_IFBLK then
            (if e.devMajor ≥ 2147483648 then e.devMajor % 4294967296 + (U64 - 4294967296) else e.devMajor) else 0)
        (if fmt e.mode = S_IFCHR ∨ fmt e.mode = S_IFBLK then
            (if e.devMinor ≥ 2147483648 then e.devMinor % 4294967296 + (U64 - 4294967296) else e.devMinor) else 0)).length = 512 :=
    fun l hl => rawHeader_length _ _ _ _ _ _ _ _ _ _ (field_length _ _) hl
  have hl : (match slink with | some t => field 100 (t.take e.size) | none => zeros 100).length = 100 := by
    cases slink <;> simp [field_length, zeros_length]
  obtain ⟨c1, _, _, _, c5⟩ := checksum_roundtrip _ (hlen _ hl)
  refine ⟨c5, c1, ?_, ?_, ?_, ?_, ?_⟩
  · intro n hn hnul
    rw [List.take_of_length_le (by omega)]
    exact strn_field 100 n (by omega) hnul
  · intro t ht hnul
    rw [List.take_of_length_le (Nat.le_refl _)]
    exact strn_field 100 t (by omega) hnul
  · intro v hv
    exact number_roundtrip v 8 (by omega) (by simp only [U64]; omega) (Or.inr (Or.inr ⟨rfl, hv⟩))
  · intro v hv
    exact number_roundtrip v 12 (by omega) hv (Or.inr (Or.inl (by omega)))
  · intro m h1 h2
    exact number_roundtrip_signed m 12 (by omega) ⟨h1, h2⟩

/-! ## sparse files (`iterator.c`) -/

/--
**Sparse expansion.**  For every non-empty well-formed map (ascending, non-overlapping, within the file size;
zero-length entries and adjacent regions allowed — every dialect delivers the map as such a list), every file
size and every archive stream holding at least the map's data bytes, reading the file stream to its end
* ends with EOF (not with "corrupted"),
* yields exactly the specified expansion: `file_size` bytes, zeros in the holes, the data regions' bytes in
  archive order at their offsets,
* consumes exactly `record_size` = Σ count bytes of the archive and leaves `record_size = 0`, so that `it_next`
  then skips exactly the padding to the next 512-byte boundary.
-/
theorem sparse_expand_spec (m : List (Nat × Nat)) (fileSize : Nat) (s : Bytes)
    (hne : m ≠ []) (hwf : WellFormedMap 0 m fileSize) (hs : dataBytes m ≤ s.length) (h64 : dataBytes m < U64) :
    expand m fileSize (dataBytes m) s =
      ⟨specExpand 0 m fileSize s, s.drop (dataBytes m), 0, .eof⟩ := by
  unfold expand
  have := expandLoop_wf m [] 0 fileSize (2 * m.length + fileSize + 4) (dataBytes m) s []
    (by simpa using hne) (by intro e he; cases he) hwf hs (Nat.le_refl _) h64 (by omega)
  simpa using this

/--
… and the same holds for the walk exactly as the C stream performs it for a caller that reads in calls of `want`
bytes (`sqfs_istream_read(…, want)` in the harness, `sqfs_istream_splice(…, block_size)` in tar2sqfs), for **every**
request size `want ≥ 1`: on a well-formed map the result does not depend on how the reads are split.
-/
theorem sparse_expand_spec_any_request_size (want : Nat) (hw : 1 ≤ want) (m : List (Nat × Nat)) (fileSize : Nat) (s : Bytes)
    (hne : m ≠ []) (hwf : WellFormedMap 0 m fileSize) (hs : dataBytes m ≤ s.length) (h64 : dataBytes m < U64) :
    expandC want m fileSize (dataBytes m) s =
      ⟨specExpand 0 m fileSize s, s.drop (dataBytes m), 0, .eof⟩ := by
  unfold expandC
  obtain ⟨e1, e2⟩ := specFromI_wf 0 m fileSize s hwf
  have := expandLoopC_wf want hw m [] 0 fileSize (fileSize + 4) (dataBytes m) s []
    (by simpa using hne) (by intro e he; cases he) (wf_to_wfi _ _ _ hwf) (by rw [e2]; exact hs) (by rw [e2]) h64 (by omega)
  rw [e1, e2] at this
  simpa using this

/-- the specified expansion has exactly `file_size` bytes -/
theorem specExpand_length (m : List (Nat × Nat)) :
    ∀ (pos fileSize : Nat) (data : Bytes), WellFormedMap pos m fileSize → dataBytes m ≤ data.length →
      (specExpand pos m fileSize data).length = fileSize - pos := by
  induction m with
  | nil => intro pos F data h _; simp [specExpand, zeros]
  | cons e t ih =>
    obtain ⟨o, c⟩ := e
    intro pos F data h hd
    obtain ⟨h1, h2⟩ := h
    have hb := (wf_bounds (o + c) t F h2).1
    simp only [dataBytes] at hd
    simp only [specExpand, List.length_append, zeros, List.length_replicate, List.length_take]
    rw [ih (o + c) F (data.drop c) h2 (by simp; omega)]
    omega

/-! ## conversion steps of tar2sqfs (`process_tarball.c`, `fstree.c`) -/

/-- **mtime clamp**: every time stamp is brought into `[0, 2^32 − 1]`, values inside are unchanged. -/
theorem mtime_clamp (m : Int) :
    0 ≤ clampMtime m ∧ clampMtime m ≤ 4294967295 ∧ (0 ≤ m → m ≤ 4294967295 → clampMtime m = m) ∧
    (m < 0 → clampMtime m = 0) ∧ (m > 4294967295 → clampMtime m = 4294967295) := by
  unfold clampMtime
  simp only []
  refine ⟨?_, ?_, ?_, ?_, ?_⟩ <;> (intros; split_ifs <;> omega)

/-- what `process_tarball` hands to the tree is already clamped, so `mknode`'s `clamp_timestamp` and the unclamped
    copy in `fstree_add_generic`'s overwrite path (suspected defect D20) store the same value: D20 is
    unreachable from tar2sqfs -/
theorem mtime_overwrite_path_safe (m : Int) :
    ((clampMtime m % 4294967296).toNat = clampTimestamp (clampMtime m)) ∧
    (clampTimestamp (clampMtime m) : Int) = clampMtime m := by
  obtain ⟨h0, h1, _⟩ := mtime_clamp m
  unfold clampTimestamp
  have h2 : ¬ clampMtime m < 0 := by omega
  have h3 : ¬ clampMtime m > 0xFFFFFFFF := by omega
  simp only [h2, h3, if_false]
  constructor <;> omega

/-- **`--root-becomes` prefix strip**: an entry is kept exactly when its name is the root directory itself or lies
    below it; below it, the name loses exactly the prefix `root/`. -/
theorem prefix_strip (o : ConvOpts) (e : CEntry) (r : Bytes) (h : o.rootBecomes = some r) :
    (processEntry o e = .skip ↔ ¬ (e.name = r ∨ ∃ rest, e.name = r ++ Sqfs.Path.SL :: rest)) ∧
    (∀ e', processEntry o e = .node e' → r ++ Sqfs.Path.SL :: e'.name = e.name) ∧
    (∀ e', processEntry o e = .root e' → e.name = r) := by
  unfold processEntry processEntryWith
  simp only [h]
  by_cases ht : e.name.take r.length = r
  · have hsplit := take_eq_split e.name r ht
    simp only [ht, if_true]
    cases hd : e.name.drop r.length with
    | nil =>
      rw [hd] at hsplit
      simp only [List.append_nil] at hsplit
      simp only
      refine ⟨?_, ?_, ?_⟩
      · constructor
        · intro h'; split at h' <;> cases h'
        · intro h'; exact absurd (Or.inl hsplit) h'
      · intro e' h'; split at h' <;> cases h'
      · intro e' _; exact hsplit
    | cons c rest =>
      rw [hd] at hsplit
      simp only
      by_cases hc : c = Sqfs.Path.SL
      · subst hc
        simp only [if_true]
        refine ⟨?_, ?_, ?_⟩
        · constructor
          · intro h'; split at h' <;> cases h'
          · intro h'; exact absurd (Or.inr ⟨rest, hsplit⟩) h'
        · intro e' h'
          have : e'.name = rest := by
            split at h' <;> (cases h'; rfl)
          rw [this, ← hsplit]
        · intro e' h'; split at h' <;> cases h'
      · simp only [hc, if_false]
        refine ⟨?_, ?_, ?_⟩
        rotate_left
        · intro e' h'; cases h'
        · intro e' h'; cases h'
        constructor
        · intro _ hor
          rcases hor with h1 | ⟨rest', h1⟩
          · rw [h1] at hsplit
            have := congrArg List.length hsplit
            simp at this
          · rw [h1] at hsplit
            have := List.append_cancel_left hsplit
            simp only [List.cons.injEq] at this
            exact hc this.1.symm
        · intro _; trivial
  · simp only [ht, if_false]
    refine ⟨?_, ?_, ?_⟩
    rotate_left
    · intro e' h'; cases h'
    · intro e' h'; cases h'
    constructor
    · intro _ hor
      rcases hor with h1 | ⟨rest', h1⟩
      · apply ht; rw [h1]; simp
      · apply ht; rw [h1]; simp
    · intro _; trivial

/-- **root handling** without `--root-becomes`: exactly the entry whose canonical name is empty ("./", "/", ".")
    sets the root's attributes; everything else becomes a node under its unchanged name. -/
theorem root_handling (o : ConvOpts) (e : CEntry) (h : o.rootBecomes = none) :
    (e.name = [] → ∃ e', processEntry o e = .root e' ∧ e'.name = [] ∧ e'.uid = e.uid ∧ e'.gid = e.gid ∧ e'.mode = e.mode) ∧
    (e.name ≠ [] → ∃ e', processEntry o e = .node e' ∧ e'.name = e.name ∧ e'.link = e.link) := by
  unfold processEntry processEntryWith
  simp only [h]
  constructor
  · intro hn
    simp only [hn, if_true]
    by_cases hk : o.keepTime = true
    · exact ⟨_, rfl, by simp [hk, hn]⟩
    · exact ⟨_, rfl, by simp [hk, hn]⟩
  · intro hn
    simp only [hn, if_false]
    by_cases hk : o.keepTime = true
    · exact ⟨_, rfl, by simp [hk]⟩
    · exact ⟨_, rfl, by simp [hk]⟩

/-- **implicit parents**: after a successful `fstree_add_generic` every proper prefix of the entry's path is a
    directory of the tree (created with the defaults when it did not exist), and no node was dropped. -/
theorem implicit_parents (o : ConvOpts) (t t' : List TNode) (e : CEntry) (h : addGeneric o t e = some t') :
    ∀ k, 0 < k → k < (Sqfs.Path.splitSlash e.name).length →
      ∃ n ∈ t', n.path = (Sqfs.Path.splitSlash e.name).take k ∧ isDirMode n.mode = true := by
  intro k h0 hk
  unfold addGeneric at h
  split at h
  · cases h
  · split at h
    · cases h
    · split at h
      · cases h
      · dsimp only at h
        cases hp : ensureParents o t [] (Sqfs.Path.splitSlash e.name) with
        | none => rw [hp] at h; cases h
        | some t1 =>
          rw [hp] at h
          obtain ⟨_, hpre⟩ := ensureParents_spec o _ t [] t1 hp
          obtain ⟨n, hn, hnp, hnd⟩ := hpre k h0 hk
          simp only [List.nil_append] at hnp
          simp only at h
          have hne : n.path ≠ Sqfs.Path.splitSlash e.name := by
            rw [hnp]; intro heq
            have := congrArg List.length heq
            simp at this; omega
          split at h
          · split at h
            · simp only [Option.some.injEq] at h
              subst h
              refine ⟨n, ?_, hnp, hnd⟩
              apply List.mem_map.2
              exact ⟨n, hn, by simp [hne]⟩
            · cases h
          · split at h
            · cases h
            · simp only [Option.some.injEq] at h
              subst h
              exact ⟨n, List.mem_append_left _ hn, hnp, hnd⟩

/-! ## fix-point -/

/-
Full statement (NOT proved in Lean; decided by execution on every run — `c04_tools` sub-check C):

  fixpoint : ∀ img opts, let img2 := tar2sqfs opts (sqfs2tar opts img); let img3 := tar2sqfs opts (sqfs2tar opts img2);
      img3 = img2 (byte for byte) ∧ tree img2 = tree img (minus sockets)

It needs the image serializer and reader (C01), the determinism of packing (C02) and hard-link resolution (C07) composed
with the models of this file; that composition is not done.  Proved here is the tree-level core: an entry that comes
back out of an image (time stamp inside the 32-bit range, non-empty canonical name) passes through `process_tarball`
unchanged, so the second conversion builds its tree from exactly the entries of the first; and the clamp is idempotent.
-/
theorem fixpoint_entry_level_partial (o : ConvOpts) (e : CEntry) (h : o.rootBecomes = none) (hk : o.keepTime = true)
    (hm : 0 ≤ e.mtime ∧ e.mtime ≤ 4294967295) (hn : e.name ≠ []) :
    processEntry o e = .node e ∧ clampMtime (clampMtime e.mtime) = clampMtime e.mtime := by
  have hc : clampMtime e.mtime = e.mtime := (mtime_clamp e.mtime).2.2.1 hm.1 hm.2
  refine ⟨?_, by rw [hc, hc]⟩
  unfold processEntry processEntryWith
  simp only [h, hn, hk, hc, if_false, if_true]

/-! ### layout facts the models rely on, re-checked against `include/tar/format.h` on every run
(`Sqfs/Generated/Consts.lean` is regenerated from the working tree; a changed offset or width breaks this build) -/
section layout
open Sqfs.Consts
example : tarSizeofHeader = 512 ∧ tarRecordSize = 512 := by decide
example : tarOffName = 0 ∧ tarSizeofName = 100 ∧ tarOffMode = 100 ∧ tarOffUid = 108 ∧ tarOffGid = 116 ∧ tarOffSize = 124 ∧
    tarOffMtime = 136 ∧ tarOffChksum = 148 ∧ tarSizeofChksum = 8 ∧ tarOffTypeflag = 156 ∧ tarOffLinkname = 157 ∧
    tarSizeofLinkname = 100 ∧ tarOffMagic = 257 ∧ tarOffVersion = 263 ∧ tarOffUname = 265 ∧ tarOffGname = 297 ∧
    tarOffDevmajor = 329 ∧ tarOffDevminor = 337 ∧ tarOffPrefix = 345 ∧ tarSizeofPrefix = 155 ∧ tarSizeofNum8 = 8 ∧
    tarSizeofNum12 = 12 := by decide
example : tarOffGnuSparse = 386 ∧ tarSizeofOldSparse = 24 ∧ tarOffGnuIsExtended = 482 ∧ tarOffGnuRealsize = 483 ∧
    tarSizeofOldSparseRecord = 512 ∧ tarOffOldSparseRecIsExtended = 504 := by decide
example : tarMaxSymlinkLen = 65536 ∧ tarMaxPathLen = 65536 ∧ tarMaxPaxLen = 65536 ∧ tarMaxSparseEnt = 65536 := by decide
set_option maxRecDepth 100000 in
/-- the model's raw header has the struct's size -/
example : (rawHeader (field 100 []) 0 0 0 0 0 48 (zeros 100) 0 0).length = tarSizeofHeader := by decide
end layout

/-! ### non-vacuity -/
example : WellFormedMap 0 [(0, 3), (3, 0), (512, 2), (1000, 0)] 1000 := by simp [WellFormedMap]
example : (expand [(2, 3), (8, 2)] 12 5 [1, 2, 3, 4, 5, 9, 9]).out = [0, 0, 1, 2, 3, 0, 0, 0, 4, 5, 0, 0] := by decide
example : prefixDigitLen 9 = 2 ∧ prefixDigitLen 98 = 3 ∧ prefixDigitLen 9996 = 5 := by decide
example : clampMtime (-5) = 0 ∧ clampMtime 8589934592 = 4294967295 := by decide
example : processEntry { rootBecomes := some (ascii "r") } ⟨ascii "r/x", 0o100644, 0, 0, 0, false, none, 0, 0⟩
    = .node ⟨ascii "x", 0o100644, 0, 0, 0, false, none, 0, 0⟩ := by decide

example : readNumber (writeNumber 420 8) = some 420 := by decide
example : writeNumber 2097152 8 = [49, 48, 48, 48, 48, 48, 48, 48] := by decide      -- 8 digits, no terminator
example : writeNumber 16777216 8 = [128, 0, 0, 0, 1, 0, 0, 0] := by decide           -- base-256
example : (readNumber (writeNumberSigned (-1) 12)).map toSigned = some (-1) := by decide
example : writeNumberSigned (-1) 12 = [128, 0, 0, 0, 255, 255, 255, 255, 255, 255, 255, 255] := by decide
/-- GNU tar's encoding of −1 is read as −1 too -/
example : (readNumber (List.replicate 12 255)).map toSigned = some (-1) := by decide
/-- the width-8 restriction of `number_roundtrip` is sharp: `0x7F·2^56` does not survive an 8-byte field -/
example : readNumber (writeNumber (127 * 2 ^ 56) 8) = some (255 * 2 ^ 56) := by decide

end Sqfs.C04
