/-
C15 — Stream compression of tar input/output is transparent.

Property theorems only (helpers: `Sqfs/Proofs/Xfrm.lean`; contracts: `Sqfs/Spec/XfrmContract.lean`; model:
`Sqfs/Model/Xfrm.lean`).  Everything is stated for an **arbitrary** codec `C` that meets the written-down
contract (`EncContract` / `DecContract`), an arbitrary one-shot reference decoder `Dec` of single members,
every buffer size `bufsz > 0`, every history of operations, every chunking.  The four compression libraries
are not verified; they enter through the contracts (trusted base, exercised by the correspondence check
against reference decompressors).

"Terminates" is expressed with the models' explicit fuel: there is an amount of fuel from which on the
result no longer depends on the fuel and is not "still running".
-/
import Sqfs.Proofs.XfrmIoErr
import Sqfs.Proofs.XfrmProbe
import Sqfs.Proofs.XfrmSync
namespace Sqfs.C15
open Sqfs.Xfrm Sqfs.Xfrm.Spec

variable {σ : Type} {C : Codec σ} {Dec : Bytes → Option Bytes}

/-! ### data of the instantiating examples
One toy codec setting (takes in at most 2 bytes per call while at most 2 wait in its queue, hands out 1 byte per call), two
members, an uneven chunk script for the wrapped input, readers that take 1–4 bytes per round, a history with two closed
segments, empty appends and an open segment at the end; a tail cut off inside a member; a dead tail.  Every theorem below is
followed by an `example` that applies it to these with all hypotheses discharged. -/

def exP : Toy.Params := ⟨1, 0, 2⟩
def exA : Bytes := [65, 66, 67]
def exB : Bytes := [68, 69]
theorem exMembers : Members Toy.decode [Toy.encode exA, Toy.encode exB] [exA, exB] :=
  .cons (by decide) (.cons (by decide) .nil)
def exScript : List Nat := [1, 0, 2, 1, 3]
def exReads : List (Nat × Nat) := [(4, 3), (2, 1), (4, 3), (1, 1), (4, 4), (4, 4), (3, 2)]
theorem exReads_want : ∀ op ∈ exReads, 0 < op.1 := by decide
/-- a member cut after 3 of its 5 bytes -/
def exCut : Bytes := (Toy.encode [70, 71]).take 3
def exCutRest : Bytes := (Toy.encode [70, 71]).drop 3
theorem exCut_ne : exCut ≠ [] := by decide
theorem exCutRest_ne : exCutRest ≠ [] := by decide
theorem exCut_valid : Toy.decode (exCut ++ exCutRest) = some [70, 71] := by decide
def exOps : List OOp :=
  [.append [1, 2, 3], .append [4, 5, 6, 7, 8, 9], .flush, .flush, .append [], .append [10], .flush, .append [11, 12]]
def exChunks : List Bytes := [[1, 2, 3], [], [4, 5, 6, 7, 8, 9]]

/--
**ostream_transparent.**  After any history of `append` / `flush` calls on a fresh `ostream_xfrm`, in any
chunking (an `append(NULL, n)` is `OOp.append (appendBytes none n)`, i.e. `n` zero bytes), no call fails or
hangs, and what has reached the wrapped stream is a sequence of members `ms`, one per non-empty flushed
segment, each decoding to exactly the bytes appended between the two flushes, followed by the part already
written for the still open segment — nothing at all if the history ends with a flush.  (For a history that does
*not* end with a flush the statement does not constrain `part` itself — it only says that the closed members come
first; the flushed case, which is what the tools use, is fully specified: `ostream_transparent_single`.)
-/
theorem ostream_transparent (hC : EncContract C Dec) {bufsz : Nat} (hb : 0 < bufsz) (ops : List OOp) :
    ∃ fuel st, (∀ f, fuel ≤ f → oRun C bufsz f (oInit C) ops = some (.ok st)) ∧
      ∃ ms part, Members Dec ms (opsSegs [] [] ops).1 ∧ st.sink = ms.flatten ++ part ∧
        ((opsSegs [] [] ops).2 = [] → part = [] ∧ st.inbuf = []) := by
  obtain ⟨f0, st, hI, hrun⟩ := oRun_spec hC hb ops (oInit C) [] [] (OInv_init hC)
  refine ⟨f0, st, hrun, ?_⟩
  obtain ⟨ms, x, y, hms, _, hsink, hcur, hxy, _⟩ := hI
  refine ⟨ms, y, hms, hsink, ?_⟩
  intro h
  rw [h] at hcur
  have hx : x = [] := (List.append_eq_nil_iff.1 hcur.symm).1
  exact ⟨hxy hx, (List.append_eq_nil_iff.1 hcur.symm).2⟩

example := ostream_transparent (Toy.encContract exP) (bufsz := 4) (by decide) exOps
example : (opsSegs [] [] exOps).1 = [[1, 2, 3, 4, 5, 6, 7, 8, 9], [10]] ∧ (opsSegs [] [] exOps).2 = [11, 12] := by decide

/--
The plain reading of the property: the bytes written by `append*; flush` decode to the input, whatever the
chunking (`chunks`) — one member holding everything if anything was appended, nothing otherwise.
-/
theorem ostream_transparent_single (hC : EncContract C Dec) {bufsz : Nat} (hb : 0 < bufsz) (chunks : List Bytes) :
    ∃ fuel st, (∀ f, fuel ≤ f → oRun C bufsz f (oInit C) (chunks.map OOp.append ++ [OOp.flush]) = some (.ok st)) ∧
      st.inbuf = [] ∧
      (chunks.flatten ≠ [] → Dec st.sink = some chunks.flatten) ∧ (chunks.flatten = [] → st.sink = []) := by
  obtain ⟨fuel, st, hrun, ms, part, hms, hsink, hpart⟩ := ostream_transparent hC hb (chunks.map OOp.append ++ [OOp.flush])
  have hsegs : ∀ (cs : List Bytes) (cur : Bytes),
      opsSegs [] cur (cs.map OOp.append ++ [OOp.flush]) =
        if cur ++ cs.flatten = [] then ([], []) else ([cur ++ cs.flatten], []) := by
    intro cs
    induction cs with
    | nil => intro cur; by_cases h : cur = [] <;> simp [opsSegs, h]
    | cons c cs ih => intro cur; simp [opsSegs, ih, List.append_assoc]
  have hs := hsegs chunks []
  simp only [List.nil_append] at hs
  refine ⟨fuel, st, hrun, ?_, ?_, ?_⟩
  · by_cases h : chunks.flatten = [] <;> (rw [hs] at hpart; simp [h] at hpart; exact hpart.2)
  · intro h
    rw [hs, if_neg h] at hms hpart
    obtain ⟨hp, _⟩ := hpart rfl
    cases hms with
    | cons hm hrest =>
      cases hrest
      simpa [hsink, hp] using hm
  · intro h
    rw [hs, if_pos h] at hms hpart
    obtain ⟨hp, _⟩ := hpart rfl
    cases hms
    simp [hsink, hp]

example := ostream_transparent_single (Toy.encContract exP) (bufsz := 4) (by decide) exChunks

/--
**ostream_flush_terminates.**  After any history, `xfrm_flush` (whose `flush_inbuf(finish)` loop has no bound
in the C code) comes back, without error, and leaves nothing buffered.
-/
theorem ostream_flush_terminates (hC : EncContract C Dec) {bufsz : Nat} (hb : 0 < bufsz) (ops : List OOp) :
    ∃ fuel st st', (∀ f, fuel ≤ f → oRun C bufsz f (oInit C) ops = some (.ok st)) ∧
      (∀ f, fuel ≤ f → oFlush C bufsz f st = some (.ok st')) ∧ st'.inbuf = [] := by
  obtain ⟨f1, st, hI, hrun⟩ := oRun_spec hC hb ops (oInit C) [] [] (OInv_init hC)
  obtain ⟨f2, st', hI', hfl⟩ := oFlush_spec hC hb st _ _ hI
  refine ⟨max f1 f2, st, st', fun f hf => hrun f (by omega), fun f hf => hfl f (by omega), ?_⟩
  obtain ⟨_, x, _, _, _, _, hcur, _, _⟩ := hI'
  exact (List.append_eq_nil_iff.1 hcur.symm).2

example := ostream_flush_terminates (Toy.encContract exP) (bufsz := 4) (by decide) exOps

/--
**istream_transparent** (stream-level contract).  Let the wrapped stream hold any sequence of members `ms` with contents `xs`
(concatenated members; none at all is allowed), let it hand its bytes out in any chunking (`script`), and let the reader call
`get_buffered_data(want ≥ 1)` / `advance_buffer(min take size)` in any pattern (`ops`).  Then no call fails or
hangs; what the reader has taken is always a prefix of the concatenated contents; end-of-stream is reported only
when **everything** has been delivered; and a reader that takes at least one byte per round either sees the end or
has received one byte per round (so `|content| + 1` rounds always reach the end).  The buffer size is arbitrary,
so "input ending exactly at the buffer edge" is covered.  `S` is the stream-level decoder contract, met by every
per-member decoder (`DecContract`, below) and by the decompressing zstd object, which decodes across frame boundaries.
-/
theorem istream_transparent_stream (S : StreamDecContract C Dec) {bufsz : Nat} (hb : 0 < bufsz) {ms xs : List Bytes}
    (hms : Members Dec ms xs) (script : List Nat) (ops : List (Nat × Nat)) (hw : ∀ op ∈ ops, 0 < op.1) :
    ∃ fuel st acc eof, (∀ f, fuel ≤ f → iRead C bufsz f (iInit C ⟨ms.flatten, script⟩) ops [] = some (.ok (st, acc, eof))) ∧
      IsPre acc xs.flatten ∧ (eof = true → acc = xs.flatten) ∧
      ((∀ op ∈ ops, 0 < op.2) → eof = true ∨ ops.length ≤ acc.length) := by
  have hI : IInv S Kind.valid bufsz (iInit C ⟨ms.flatten, script⟩) xs.flatten 0 :=
    ⟨Nat.le_refl _, Nat.zero_le _, by simpa [iInit] using S.start_valid hms⟩
  obtain ⟨f0, r, hrun, hpost⟩ := iRead_spec S hb xs.flatten 0 (fun _ => rfl) ops _ _ _ [] hI
    (by simpa [iInit] using Link.refl xs.flatten 0) hw
  rcases hpost with ⟨_, hK⟩ | ⟨st, acc, eof, rfl, hp, he, hl⟩
  · exact absurd rfl hK
  · exact ⟨f0, st, acc, eof, hrun, hp.zero, fun h => (he h).2, fun h => by
      have := hl
      rw [takingRounds_all h] at this
      simpa using this⟩

example := istream_transparent_stream (streamOfDec (Toy.decContract exP)) (bufsz := 4) (by decide) exMembers exScript exReads
  exReads_want

/-- **istream_transparent** for every decoder meeting the per-member contract -/
theorem istream_transparent (hD : DecContract C Dec) {bufsz : Nat} (hb : 0 < bufsz) {ms xs : List Bytes}
    (hms : Members Dec ms xs) (script : List Nat) (ops : List (Nat × Nat)) (hw : ∀ op ∈ ops, 0 < op.1) :
    ∃ fuel st acc eof, (∀ f, fuel ≤ f → iRead C bufsz f (iInit C ⟨ms.flatten, script⟩) ops [] = some (.ok (st, acc, eof))) ∧
      IsPre acc xs.flatten ∧ (eof = true → acc = xs.flatten) ∧
      ((∀ op ∈ ops, 0 < op.2) → eof = true ∨ ops.length ≤ acc.length) :=
  istream_transparent_stream (streamOfDec hD) hb hms script ops hw

example := istream_transparent (Toy.decContract exP) (bufsz := 4) (by decide) exMembers exScript exReads exReads_want

/--
**truncated_is_error** (stream-level contract).  Let the wrapped stream hold complete members `ms` followed by a non-empty
proper prefix `t` of a valid member (`t ++ t'` valid, `t' ≠ []`): a compressed input cut off in mid-member.  Then, for every
chunking and every reader with `want ≥ 1`, the stream **never reports end-of-stream**: the run either ends in
`SQFS_ERROR_COMPRESSOR`, or the reader has not been told that the data is over; what was handed out before is a
prefix of the intended contents; and a reader that takes at least one byte per round for more rounds than there
are content bytes gets the error.
-/
theorem truncated_is_error_stream (S : StreamDecContract C Dec) {bufsz : Nat} (hb : 0 < bufsz) {ms xs : List Bytes}
    (hms : Members Dec ms xs) {t t' xT : Bytes} (ht : t ≠ []) (ht' : t' ≠ []) (hcut : Dec (t ++ t') = some xT)
    (script : List Nat) (ops : List (Nat × Nat)) (hw : ∀ op ∈ ops, 0 < op.1) :
    ∃ fuel r, (∀ f, fuel ≤ f → iRead C bufsz f (iInit C ⟨ms.flatten ++ t, script⟩) ops [] = some r) ∧
      (r = .error errCompressor ∨
       ∃ st acc, r = .ok (st, acc, false) ∧ IsPre acc (xs.flatten ++ xT)) ∧
      ((∀ op ∈ ops, 0 < op.2) → (xs.flatten ++ xT).length < ops.length → r = .error errCompressor) := by
  have hI : IInv S Kind.truncated bufsz (iInit C ⟨ms.flatten ++ t, script⟩) (xs.flatten ++ xT) 0 :=
    ⟨Nat.le_refl _, Nat.zero_le _, by simpa [iInit] using S.start_truncated hms ht ht' hcut⟩
  obtain ⟨f0, r, hrun, hpost⟩ := iRead_spec S hb (xs.flatten ++ xT) 0 (fun _ => rfl) ops _ _ _ [] hI
    (by simpa [iInit] using Link.refl (xs.flatten ++ xT) 0) hw
  refine ⟨f0, r, hrun, ?_, ?_⟩
  · rcases hpost with ⟨h, _⟩ | ⟨st, acc, eof, rfl, hp, he, _⟩
    · exact Or.inl h
    · right
      cases eof with
      | false => exact ⟨st, acc, rfl, hp.zero⟩
      | true => exact absurd (he rfl).1 (by decide)
  · intro htake hlen
    rcases hpost with ⟨h, _⟩ | ⟨st, acc, eof, rfl, hp, he, hl⟩
    · exact h
    · exfalso
      rcases hl with h | h
      · exact absurd (he h).1 (by decide)
      · have := hp.length_le
        rw [takingRounds_all htake] at h
        simp only [List.length_nil, Nat.zero_add] at h
        omega

example := truncated_is_error_stream (streamOfDec (Toy.decContract exP)) (bufsz := 4) (by decide) exMembers exCut_ne exCutRest_ne
  exCut_valid exScript exReads exReads_want

/-- **truncated_is_error** for every decoder meeting the per-member contract -/
theorem truncated_is_error (hD : DecContract C Dec) {bufsz : Nat} (hb : 0 < bufsz) {ms xs : List Bytes}
    (hms : Members Dec ms xs) {t t' xT : Bytes} (ht : t ≠ []) (ht' : t' ≠ []) (hcut : Dec (t ++ t') = some xT)
    (script : List Nat) (ops : List (Nat × Nat)) (hw : ∀ op ∈ ops, 0 < op.1) :
    ∃ fuel r, (∀ f, fuel ≤ f → iRead C bufsz f (iInit C ⟨ms.flatten ++ t, script⟩) ops [] = some r) ∧
      (r = .error errCompressor ∨
       ∃ st acc, r = .ok (st, acc, false) ∧ IsPre acc (xs.flatten ++ xT)) ∧
      ((∀ op ∈ ops, 0 < op.2) → (xs.flatten ++ xT).length < ops.length → r = .error errCompressor) :=
  truncated_is_error_stream (streamOfDec hD) hb hms ht ht' hcut script ops hw

example := truncated_is_error (Toy.decContract exP) (bufsz := 4) (by decide) exMembers exCut_ne exCutRest_ne exCut_valid
  exScript exReads exReads_want

/--
**corrupt_is_error.**  Let the wrapped stream hold complete members `ms` followed by **dead** bytes `c`: bytes that are
neither a prefix of any valid member nor start with one (bit flips, trailing garbage, a damaged header …), and let the decoder
meet the corrupted-input part of the stream-level contract (under an explicit convention for the libraries' error returns,
see `backend_corrupt_is_error`).  Then, for every chunking and every reader with `want ≥ 1`: no call hangs; the stream
**never reports end-of-stream**; the run ends in `SQFS_ERROR_COMPRESSOR` or has not finished; what was handed out is a prefix
of the intact members' contents, or all of it followed by at most `budget |c|` bytes of junk; and a reader that takes at least
one byte per round for more rounds than that gets the error — so a corrupted input is never accepted and never loops.
-/
theorem corrupt_is_error (S : StreamDecErrContract C Dec) {bufsz : Nat} (hb : 0 < bufsz) {ms xs : List Bytes}
    (hms : Members Dec ms xs) {c : Bytes} (hc : Dead Dec c)
    (script : List Nat) (ops : List (Nat × Nat)) (hw : ∀ op ∈ ops, 0 < op.1) :
    ∃ fuel r, (∀ f, fuel ≤ f → iRead C bufsz f (iInit C ⟨ms.flatten ++ c, script⟩) ops [] = some r) ∧
      (r = .error errCompressor ∨
       ∃ st acc, r = .ok (st, acc, false) ∧ Deliv xs.flatten (S.budget c.length) acc) ∧
      ((∀ op ∈ ops, 0 < op.2) → xs.flatten.length + S.budget c.length < ops.length → r = .error errCompressor) := by
  have hI : IInv S.toStreamDecContract Kind.corrupt bufsz (iInit C ⟨ms.flatten ++ c, script⟩) xs.flatten (S.budget c.length) :=
    ⟨Nat.le_refl _, Nat.zero_le _, by simpa [iInit] using S.start_corrupt hms hc⟩
  obtain ⟨f0, r, hrun, hpost⟩ := iRead_spec S.toStreamDecContract hb xs.flatten (S.budget c.length) (fun h => absurd rfl h) ops _ _ _ [] hI
    (by simpa [iInit] using Link.refl xs.flatten (S.budget c.length)) hw
  refine ⟨f0, r, hrun, ?_, ?_⟩
  · rcases hpost with ⟨h, _⟩ | ⟨st, acc, eof, rfl, hp, he, _⟩
    · exact Or.inl h
    · right
      cases eof with
      | false => exact ⟨st, acc, rfl, hp⟩
      | true => exact absurd (he rfl).1 (by decide)
  · intro htake hlen
    rcases hpost with ⟨h, _⟩ | ⟨st, acc, eof, rfl, hp, he, hl⟩
    · exact h
    · exfalso
      rcases hl with h | h
      · exact absurd (he h).1 (by decide)
      · have := hp.length_le
        rw [takingRounds_all htake] at h
        simp only [List.length_nil, Nat.zero_add] at h
        omega

/-! ### the reader: one that reads to the end of the stream sees the error, one that stops need not

`truncated_is_error*` / `corrupt_is_error` bind a reader only as far as it reads: their conclusion is "the error, **or** the run
has not been told that the data is over".  A reader that stops calling `get_buffered_data` — the tar reader stops at the
end-of-archive marker — is in the second case, and the error that the decoder would report on the rest (a check sum in the
stream's trailer, a missing trailer) is never raised: `Sqfs.C15.Witness.stopping_reader_misses_the_error` (`Sqfs/Witness/C15.lean`) is a
concrete run, and the tar2sqfs of the current tree accepts such archives (finding `unread-tail-accepted:*`).  The three theorems
below are the other half: **whatever** a reader did before (`ops`), once it goes on to read the stream to its end (`drainOps`:
`get_buffered_data(1)` / `advance_buffer(size)`, `n` rounds) it gets `SQFS_ERROR_COMPRESSOR` on a truncated or corrupted input —
after at most `|contents| (+ budget) + 1` rounds — and a regular end-of-stream with exactly the contents on a valid one.  This is
what the repair proposal `fixes/C15-drain-compressed-input.patch` makes the tar iterator do after the end-of-archive marker. -/

theorem drainOps_want (bufsz n : Nat) (ops : List (Nat × Nat)) (hw : ∀ op ∈ ops, 0 < op.1) :
    ∀ op ∈ ops ++ drainOps bufsz n, 0 < op.1 := by
  intro op hop
  rcases List.mem_append.1 hop with h | h
  · exact hw op h
  · rw [List.eq_of_mem_replicate h]; exact Nat.one_pos

/-- **truncated input, reader that reads to the end**: the error, whatever was read before. -/
theorem truncated_is_error_for_draining_reader (S : StreamDecContract C Dec) {bufsz : Nat} (hb : 0 < bufsz) {ms xs : List Bytes}
    (hms : Members Dec ms xs) {t t' xT : Bytes} (ht : t ≠ []) (ht' : t' ≠ []) (hcut : Dec (t ++ t') = some xT)
    (script : List Nat) (ops : List (Nat × Nat)) (hw : ∀ op ∈ ops, 0 < op.1) (n : Nat) (hn : (xs.flatten ++ xT).length < n) :
    ∃ fuel, ∀ f, fuel ≤ f →
      iRead C bufsz f (iInit C ⟨ms.flatten ++ t, script⟩) (ops ++ drainOps bufsz n) [] = some (.error errCompressor) := by
  have hI : IInv S Kind.truncated bufsz (iInit C ⟨ms.flatten ++ t, script⟩) (xs.flatten ++ xT) 0 :=
    ⟨Nat.le_refl _, Nat.zero_le _, by simpa [iInit] using S.start_truncated hms ht ht' hcut⟩
  obtain ⟨f0, r, hrun, hpost⟩ := iRead_spec S hb (xs.flatten ++ xT) 0 (fun _ => rfl) (ops ++ drainOps bufsz n) _ _ _ [] hI
    (by simpa [iInit] using Link.refl (xs.flatten ++ xT) 0) (drainOps_want bufsz n ops hw)
  rcases hpost with ⟨h, _⟩ | ⟨st, acc, eof, rfl, hp, he, hl⟩
  · exact ⟨f0, fun f hf => by rw [hrun f hf, h]⟩
  · exfalso
    rcases hl with h | h
    · exact absurd (he h).1 (by decide)
    · have := hp.length_le
      rw [takingRounds_append, drainOps, takingRounds_replicate n 1 bufsz hb] at h
      simp only [List.length_nil, Nat.zero_add] at h
      omega

/-- **corrupted input, reader that reads to the end**: the error, whatever was read before — in particular when everything the
reader wanted had already been delivered (damaged contents whose check sum stands in the trailer of the compressed stream). -/
theorem corrupt_is_error_for_draining_reader (S : StreamDecErrContract C Dec) {bufsz : Nat} (hb : 0 < bufsz) {ms xs : List Bytes}
    (hms : Members Dec ms xs) {c : Bytes} (hc : Dead Dec c)
    (script : List Nat) (ops : List (Nat × Nat)) (hw : ∀ op ∈ ops, 0 < op.1) (n : Nat)
    (hn : xs.flatten.length + S.budget c.length < n) :
    ∃ fuel, ∀ f, fuel ≤ f →
      iRead C bufsz f (iInit C ⟨ms.flatten ++ c, script⟩) (ops ++ drainOps bufsz n) [] = some (.error errCompressor) := by
  have hI : IInv S.toStreamDecContract Kind.corrupt bufsz (iInit C ⟨ms.flatten ++ c, script⟩) xs.flatten (S.budget c.length) :=
    ⟨Nat.le_refl _, Nat.zero_le _, by simpa [iInit] using S.start_corrupt hms hc⟩
  obtain ⟨f0, r, hrun, hpost⟩ := iRead_spec S.toStreamDecContract hb xs.flatten (S.budget c.length) (fun h => absurd rfl h)
    (ops ++ drainOps bufsz n) _ _ _ [] hI
    (by simpa [iInit] using Link.refl xs.flatten (S.budget c.length)) (drainOps_want bufsz n ops hw)
  rcases hpost with ⟨h, _⟩ | ⟨st, acc, eof, rfl, hp, he, hl⟩
  · exact ⟨f0, fun f hf => by rw [hrun f hf, h]⟩
  · exfalso
    rcases hl with h | h
    · exact absurd (he h).1 (by decide)
    · have := hp.length_le
      rw [takingRounds_append, drainOps, takingRounds_replicate n 1 bufsz hb] at h
      simp only [List.length_nil, Nat.zero_add] at h
      omega

/-- **valid input, reader that reads to the end**: no error; the regular end of the stream is reported, after exactly the
concatenated contents (so reading on after the end-of-archive marker rejects nothing that is intact). -/
theorem valid_stream_drains_to_eof (S : StreamDecContract C Dec) {bufsz : Nat} (hb : 0 < bufsz) {ms xs : List Bytes}
    (hms : Members Dec ms xs) (script : List Nat) (ops : List (Nat × Nat)) (hw : ∀ op ∈ ops, 0 < op.1) (n : Nat)
    (hn : xs.flatten.length < n) :
    ∃ fuel st, ∀ f, fuel ≤ f →
      iRead C bufsz f (iInit C ⟨ms.flatten, script⟩) (ops ++ drainOps bufsz n) [] = some (.ok (st, xs.flatten, true)) := by
  have hI : IInv S Kind.valid bufsz (iInit C ⟨ms.flatten, script⟩) xs.flatten 0 :=
    ⟨Nat.le_refl _, Nat.zero_le _, by simpa [iInit] using S.start_valid hms⟩
  obtain ⟨f0, r, hrun, hpost⟩ := iRead_spec S hb xs.flatten 0 (fun _ => rfl) (ops ++ drainOps bufsz n) _ _ _ [] hI
    (by simpa [iInit] using Link.refl xs.flatten 0) (drainOps_want bufsz n ops hw)
  rcases hpost with ⟨_, hK⟩ | ⟨st, acc, eof, rfl, hp, he, hl⟩
  · exact absurd rfl hK
  · rcases hl with h | h
    · subst h
      exact ⟨f0, st, fun f hf => by rw [hrun f hf, (he rfl).2]⟩
    · exfalso
      have := hp.length_le
      rw [takingRounds_append, drainOps, takingRounds_replicate n 1 bufsz hb] at h
      simp only [List.length_nil, Nat.zero_add] at h
      omega

/-- the three applied to the toy codec: a reader that stopped after two rounds (`exReads.take 2`), then reads to the end -/
example := truncated_is_error_for_draining_reader (streamOfDec (Toy.decContract exP)) (bufsz := 4) (by decide) exMembers exCut_ne
  exCutRest_ne exCut_valid exScript (exReads.take 2) (fun op h => exReads_want op (List.mem_of_mem_take h)) 8 (by decide)
example := valid_stream_drains_to_eof (streamOfDec (Toy.decContract exP)) (bufsz := 4) (by decide) exMembers exScript (exReads.take 2)
  (fun op h => exReads_want op (List.mem_of_mem_take h)) 6 (by decide)
/-- … and the runs themselves: the two members `ABC`, `DE` followed by a malformed marker, 5-byte buffer; the reader takes the five content
bytes in two rounds and is **not** told about the damage (no error, no end-of-stream) — the same reader going on to the end gets the error -/
example : (match iRead (Toy.decoder exP) 5 1000 (iInit (Toy.decoder exP) ⟨Toy.encode exA ++ Toy.encode exB ++ [2, 9, 9], exScript⟩)
      [(3, 3), (2, 2)] [] with
    | some (.ok (_, acc, eof)) => some (acc, eof)
    | _ => none) = some ([65, 66, 67, 68, 69], false) := by decide
example : (match iRead (Toy.decoder exP) 5 1000 (iInit (Toy.decoder exP) ⟨Toy.encode exA ++ Toy.encode exB ++ [2, 9, 9], exScript⟩)
      ([(3, 3), (2, 2)] ++ drainOps 5 9) [] with
    | some (.error e) => some e
    | _ => none) = some errCompressor := by decide

/--
**process_data_meets_contract** (all four backends, both directions).

* gzip.c, xz.c, bzip2.c (the three share one loop).  For every library stream object `L` that follows the documented zlib /
  liblzma / libbz2 calling convention (`LibEncContract` for compression: answers `OK`/`STREAM_END`/`BUF_ERROR`, `OK` means at
  least one byte consumed or produced, `STREAM_END` only to `FINISH` after all input, what was produced for a member decodes to
  what was consumed; `LibDecContract` for decompression on well-formed input: nothing beyond the member is consumed, output is
  produced as input is consumed, `STREAM_END` exactly at the end of the member, `total_in == 0` exactly when nothing of the
  member has been consumed; both for the actions the wrappers pass, `fl ≠ Flush.sync` — see `library_conventions_ignore_flush_sync`),
  the backend's `process_data` loop — `while ((in_size > 0 || flush_mode == FLUSH_FULL) && out_size > 0)`,
  the accounting, the mapping of return codes, the reset at the end of a member and the end-of-input rule
  `total_in == 0 ? END : ERROR` — always leaves within `in_size + out_size + 2` rounds and, as a codec, meets `EncContract` resp.
  `DecContract`.
* zstd.c, compressing (`zstdBody` with the `pending` flag and the decision after the loop) over any library following
  `ZSTD_compressStream2`'s convention (`ZEncContract`): leaves within the same bound and meets `EncContract`.
* zstd.c, **decompressing**, over any library following `ZSTD_decompressStream`'s convention (`ZDecContract`: the return value
  is 0 exactly when the frame is completely decoded and handed out; a call with input and room does something; output is
  produced as input is consumed).  This loop keeps decoding across frame boundaries inside one call and answers `END` only at
  the end of the input (pinned by the repo's `test_unpack_zstd`), which the per-member `DecContract` excludes; it always leaves
  within the bound and meets the **stream-level** contract `StreamDecContract`, which is all `istream_xfrm` needs
  (`istream_transparent_stream`, `truncated_is_error_stream`).
* every per-member decoder (`DecContract`) meets the stream-level contract, so the latter is the common statement.
-/
theorem process_data_meets_contract {τ : Type} {L : Lib τ} {b : Backend} :
    (∀ (hL : LibEncContract L b Dec),
      (∀ {s : τ} {x y : Bytes} {fin : Bool} (inp : Bytes) (room : Nat) (fl : Flush), hL.R s x y fin → Proto fin fl inp →
        (wrapProcess L b true s inp room fl).isSome = true) ∧
      Nonempty (EncContract (wrapCodec L b true) Dec)) ∧
    (∀ (hL : LibDecContract L b Dec),
      (∀ {s : τ} {u v : Bytes} (w x tail inp : Bytes) (room : Nat) (fl : Flush), fl ≠ Flush.sync → hL.R s u v → Dec (u ++ w) = some x →
        IsPre inp (w ++ tail) → (wrapProcess L b false s inp room fl).isSome = true) ∧
      Nonempty (DecContract (wrapCodec L b false) Dec)) ∧
    (∀ {ζ : Type} {Z : ZLib ζ} (hZ : ZEncContract Z Dec),
      (∀ {s : ZState ζ} {x y : Bytes} {fin : Bool} (inp : Bytes) (room : Nat) (fl : Flush), ZEncR hZ s x y fin → Proto fin fl inp →
        (zstdProcess Z true s inp room fl).isSome = true) ∧
      Nonempty (EncContract (zstdCodec Z true) Dec)) ∧
    (∀ {ζ : Type} {Z : ZLib ζ} (hZ : ZDecContract Z Dec),
      (∀ {K : Kind} {zs : ZState ζ} {rest rem : Bytes} {j : Nat} (n room : Nat) (fl : Flush),
        (zstdDecStream hZ).G K zs rest rem j → n ≤ rest.length → (fl = Flush.full → n = rest.length) →
        (zstdProcess Z false zs (rest.take n) room fl).isSome = true) ∧
      Nonempty (StreamDecContract (zstdCodec Z false) Dec)) ∧
    (∀ {σ : Type} {C : Codec σ}, DecContract C Dec → Nonempty (StreamDecContract C Dec)) := by
  refine ⟨fun hL => ⟨?_, ⟨wrapEncContract hL⟩⟩, fun hL => ⟨?_, ⟨wrapDecContract hL⟩⟩, fun hZ => ⟨?_, ⟨zstdEncContract hZ⟩⟩,
    fun hZ => ⟨?_, ⟨zstdDecStream hZ⟩⟩, fun hD => ⟨streamOfDec hD⟩⟩
  · intro s x y fin inp room fl hR hP
    obtain ⟨r, hr, _⟩ := wrapProcess_enc_spec hL inp room fl hR hP
    simp [hr]
  · intro s u v w x tail inp room fl hns hR hd hin
    obtain ⟨r, hr, _⟩ := wrapProcess_dec_spec hL w x tail inp room fl hns hR hd hin
    simp [hr]
  · intro s x y fin inp room fl hR hP
    obtain ⟨st', ai, ao, res, hrun, _, _⟩ := zstdProcess_enc_spec hZ inp room fl hR hP
    simp [hrun]
  · intro K zs rest rem j n room fl hG hn hfull
    exact zstdProcess_dec_total hZ (ZDoom.none hZ) (fun h => absurd h hG.1) hG.2 n room fl hn hfull

/-- each of the five parts applied to the toy library's contracts -/
example := (process_data_meets_contract (Dec := Toy.decode) (L := Toy.encLib exP .gzip) (b := .gzip)).1 (Toy.encLibContract exP .gzip)
example := (process_data_meets_contract (Dec := Toy.decode) (L := Toy.decLib exP .bzip2) (b := .bzip2)).2.1 (Toy.decLibContract exP .bzip2)
example := (process_data_meets_contract (Dec := Toy.decode) (L := Toy.decLib exP .xz) (b := .xz)).2.2.1 (Toy.encZLibContract exP)
example := (process_data_meets_contract (Dec := Toy.decode) (L := Toy.decLib exP .xz) (b := .xz)).2.2.2.1 (Toy.decZLibContract exP)
example := (process_data_meets_contract (Dec := Toy.decode) (L := Toy.decLib exP .xz) (b := .xz)).2.2.2.2 (Toy.decContract exP)

/-- hence: reading a `.tar.zst` through `istream_xfrm` is transparent for every library meeting `ZSTD_decompressStream`'s
convention — any number of frames, any chunking, any buffer size -/
theorem zstd_istream_transparent {ζ : Type} {Z : ZLib ζ} (hZ : ZDecContract Z Dec) {bufsz : Nat}
    (hb : 0 < bufsz) {ms xs : List Bytes} (hms : Members Dec ms xs) (script : List Nat) (ops : List (Nat × Nat))
    (hw : ∀ op ∈ ops, 0 < op.1) :
    ∃ fuel st acc eof, (∀ f, fuel ≤ f → iRead (zstdCodec Z false) bufsz f (iInit (zstdCodec Z false) ⟨ms.flatten, script⟩) ops [] =
        some (.ok (st, acc, eof))) ∧
      IsPre acc xs.flatten ∧ (eof = true → acc = xs.flatten) ∧ ((∀ op ∈ ops, 0 < op.2) → eof = true ∨ ops.length ≤ acc.length) :=
  istream_transparent_stream (zstdDecStream hZ) hb hms script ops hw

example := zstd_istream_transparent (Toy.decZLibContract exP) (bufsz := 3) (by decide) exMembers exScript exReads exReads_want

/-- … and a `.tar.zst` cut off inside a frame is an error, never a regular end -/
theorem zstd_truncated_is_error {ζ : Type} {Z : ZLib ζ} (hZ : ZDecContract Z Dec) {bufsz : Nat}
    (hb : 0 < bufsz) {ms xs : List Bytes} (hms : Members Dec ms xs) {t t' xT : Bytes} (ht : t ≠ []) (ht' : t' ≠ [])
    (hcut : Dec (t ++ t') = some xT) (script : List Nat) (ops : List (Nat × Nat)) (hw : ∀ op ∈ ops, 0 < op.1) :
    ∃ fuel r, (∀ f, fuel ≤ f → iRead (zstdCodec Z false) bufsz f (iInit (zstdCodec Z false) ⟨ms.flatten ++ t, script⟩) ops [] = some r) ∧
      (r = .error errCompressor ∨ ∃ st acc, r = .ok (st, acc, false) ∧ IsPre acc (xs.flatten ++ xT)) ∧
      ((∀ op ∈ ops, 0 < op.2) → (xs.flatten ++ xT).length < ops.length → r = .error errCompressor) :=
  truncated_is_error_stream (zstdDecStream hZ) hb hms ht ht' hcut script ops hw

example := zstd_truncated_is_error (Toy.decZLibContract exP) (bufsz := 3) (by decide) exMembers exCut_ne exCutRest_ne exCut_valid
  exScript exReads exReads_want

/-- hence: reading a `.tar.gz|xz|bz2` through `istream_xfrm` is transparent, and a cut-off input is an error, for every
library meeting the decompression convention -/
theorem backend_istream_transparent {τ : Type} {L : Lib τ} {b : Backend} (hL : LibDecContract L b Dec) {bufsz : Nat}
    (hb : 0 < bufsz) {ms xs : List Bytes} (hms : Members Dec ms xs) (script : List Nat) (ops : List (Nat × Nat))
    (hw : ∀ op ∈ ops, 0 < op.1) :
    ∃ fuel st acc eof, (∀ f, fuel ≤ f → iRead (wrapCodec L b false) bufsz f (iInit (wrapCodec L b false) ⟨ms.flatten, script⟩) ops [] =
        some (.ok (st, acc, eof))) ∧
      IsPre acc xs.flatten ∧ (eof = true → acc = xs.flatten) ∧ ((∀ op ∈ ops, 0 < op.2) → eof = true ∨ ops.length ≤ acc.length) :=
  istream_transparent (wrapDecContract hL) hb hms script ops hw

theorem backend_truncated_is_error {τ : Type} {L : Lib τ} {b : Backend} (hL : LibDecContract L b Dec) {bufsz : Nat}
    (hb : 0 < bufsz) {ms xs : List Bytes} (hms : Members Dec ms xs) {t t' xT : Bytes} (ht : t ≠ []) (ht' : t' ≠ [])
    (hcut : Dec (t ++ t') = some xT) (script : List Nat) (ops : List (Nat × Nat)) (hw : ∀ op ∈ ops, 0 < op.1) :
    ∃ fuel r, (∀ f, fuel ≤ f → iRead (wrapCodec L b false) bufsz f (iInit (wrapCodec L b false) ⟨ms.flatten ++ t, script⟩) ops [] = some r) ∧
      (r = .error errCompressor ∨ ∃ st acc, r = .ok (st, acc, false) ∧ IsPre acc (xs.flatten ++ xT)) ∧
      ((∀ op ∈ ops, 0 < op.2) → (xs.flatten ++ xT).length < ops.length → r = .error errCompressor) :=
  truncated_is_error (wrapDecContract hL) hb hms ht ht' hcut script ops hw

example := backend_istream_transparent (Toy.decLibContract exP .gzip) (bufsz := 3) (by decide) exMembers exScript exReads exReads_want

example := backend_truncated_is_error (Toy.decLibContract exP .xz) (bufsz := 3) (by decide) exMembers exCut_ne exCutRest_ne
  exCut_valid exScript exReads exReads_want

/--
**backend_corrupt_is_error** (gzip.c, xz.c, bzip2.c).  Under the library's error-return convention on input that has gone
wrong (`LibDecErrContract`: an error code, or progress inside the buffers under the usual rules, never `STREAM_END`; `total_in`
positive once a bad byte has been consumed), a corrupted `.tar.gz|xz|bz2` — intact members followed by dead bytes: a flipped
bit that the format's checks catch, trailing garbage, a damaged member header — is reported as `SQFS_ERROR_COMPRESSOR`: for every
chunking and buffer size, no call hangs, end-of-stream is never reported, at most `budget |c|` bytes of junk follow the intact
contents, and a reader taking a byte per round gets the error after at most `|contents| + budget |c|` rounds.
-/
theorem backend_corrupt_is_error {τ : Type} {L : Lib τ} {b : Backend} (hL : LibDecContract L b Dec) (hE : LibDecErrContract hL)
    {bufsz : Nat} (hb : 0 < bufsz) {ms xs : List Bytes} (hms : Members Dec ms xs) {c : Bytes} (hc : Dead Dec c)
    (script : List Nat) (ops : List (Nat × Nat)) (hw : ∀ op ∈ ops, 0 < op.1) :
    ∃ fuel r, (∀ f, fuel ≤ f → iRead (wrapCodec L b false) bufsz f (iInit (wrapCodec L b false) ⟨ms.flatten ++ c, script⟩) ops [] = some r) ∧
      (r = .error errCompressor ∨ ∃ st acc, r = .ok (st, acc, false) ∧ Deliv xs.flatten (hE.budget c.length) acc) ∧
      ((∀ op ∈ ops, 0 < op.2) → xs.flatten.length + hE.budget c.length < ops.length → r = .error errCompressor) :=
  corrupt_is_error (streamOfDecErr (wrapDecContract hL) (wrapDecErrContract hL hE)) hb hms hc script ops hw

/-- **zstd_corrupt_is_error**: the same for a corrupted `.tar.zst`, under `ZSTD_decompressStream`'s error convention
(`ZDecErrContract`: an error code, or progress, and never "frame complete" on input that has gone wrong) -/
theorem zstd_corrupt_is_error {ζ : Type} {Z : ZLib ζ} (hZ : ZDecContract Z Dec) (hE : ZDecErrContract hZ)
    {bufsz : Nat} (hb : 0 < bufsz) {ms xs : List Bytes} (hms : Members Dec ms xs) {c : Bytes} (hc : Dead Dec c)
    (script : List Nat) (ops : List (Nat × Nat)) (hw : ∀ op ∈ ops, 0 < op.1) :
    ∃ fuel r, (∀ f, fuel ≤ f → iRead (zstdCodec Z false) bufsz f (iInit (zstdCodec Z false) ⟨ms.flatten ++ c, script⟩) ops [] = some r) ∧
      (r = .error errCompressor ∨ ∃ st acc, r = .ok (st, acc, false) ∧ Deliv xs.flatten (hE.budget c.length) acc) ∧
      ((∀ op ∈ ops, 0 < op.2) → xs.flatten.length + hE.budget c.length < ops.length → r = .error errCompressor) :=
  corrupt_is_error (zstdDecErrStream hZ hE) hb hms hc script ops hw

/-- Non-vacuity of the conventions for input that has gone wrong: the toy engine meets them behind all three interfaces
(codec, zlib/liblzma/libbz2 style, libzstd style), with budget `n ↦ n`. -/
theorem toy_error_conventions_satisfiable (P : Toy.Params) (b : Backend) :
    Nonempty (DecErrContract (Toy.decContract P)) ∧ Nonempty (LibDecErrContract (Toy.decLibContract P b)) ∧
    Nonempty (ZDecErrContract (Toy.decZLibContract P)) :=
  ⟨⟨Toy.decErrContract P⟩, ⟨Toy.decLibErrContract P b⟩, ⟨Toy.decZLibErrContract P⟩⟩

/-- Non-vacuity of `Dead`: in the toy format every string that starts with a malformed marker is dead. -/
theorem toy_dead_example (t : Bytes) : Dead Toy.decode (2 :: t) := by
  refine ⟨by simp, ?_⟩
  intro m x hm
  constructor
  · rintro ⟨z, hz⟩
    rw [hz] at hm
    cases hzt : t ++ z with
    | nil =>
      have : (2 :: t) ++ z = [2] := by simp [hzt]
      rw [this] at hm
      simp [Toy.decode] at hm
    | cons b r =>
      have : (2 :: t) ++ z = 2 :: b :: r := by simp [hzt]
      rw [this, Toy.decode_cons_cons] at hm
      simp at hm
  · rintro ⟨z, hz⟩
    cases m with
    | nil => simp [Toy.decode] at hm
    | cons a m' =>
      have ha : a = 2 := by
        have := congrArg List.head? hz
        simpa using this.symm
      subst ha
      cases m' with
      | nil => simp [Toy.decode] at hm
      | cons b r => rw [Toy.decode_cons_cons] at hm; simp at hm

/-- the corrupted-input theorems applied: `Members`, `Dead` and the error conventions jointly, behind the codec, the
zlib/liblzma/libbz2-style and the libzstd-style interface -/
example := corrupt_is_error (streamOfDecErr (Toy.decContract exP) (Toy.decErrContract exP)) (bufsz := 4) (by decide) exMembers
  (toy_dead_example [9, 9]) exScript exReads exReads_want
example := backend_corrupt_is_error (Toy.decLibContract exP .bzip2) (Toy.decLibErrContract exP .bzip2) (bufsz := 3) (by decide)
  exMembers (toy_dead_example [9, 9]) exScript exReads exReads_want
example := zstd_corrupt_is_error (Toy.decZLibContract exP) (Toy.decZLibErrContract exP) (bufsz := 3) (by decide) exMembers
  (toy_dead_example [9, 9]) exScript exReads exReads_want

/-- the draining reader on the corrupted toy stream (5 content bytes, budget 3) -/
example := corrupt_is_error_for_draining_reader (streamOfDecErr (Toy.decContract exP) (Toy.decErrContract exP)) (bufsz := 4) (by decide)
  exMembers (toy_dead_example [9, 9]) exScript (exReads.take 2) (fun op h => exReads_want op (List.mem_of_mem_take h)) 9 (by decide)

/-- hence: `sqfs2tar -c gzip|xz|bzip2`'s output stream is transparent for every library meeting the convention -/
theorem backend_ostream_transparent {τ : Type} {L : Lib τ} {b : Backend} (hL : LibEncContract L b Dec) {bufsz : Nat}
    (hb : 0 < bufsz) (chunks : List Bytes) :
    ∃ fuel st, (∀ f, fuel ≤ f → oRun (wrapCodec L b true) bufsz f (oInit (wrapCodec L b true))
        (chunks.map OOp.append ++ [OOp.flush]) = some (.ok st)) ∧
      st.inbuf = [] ∧ (chunks.flatten ≠ [] → Dec st.sink = some chunks.flatten) ∧ (chunks.flatten = [] → st.sink = []) :=
  ostream_transparent_single (wrapEncContract hL) hb chunks

example := backend_ostream_transparent (Toy.encLibContract exP .gzip) (bufsz := 4) (by decide) exChunks

/-! ### errors of the wrapped streams -/

/--
The functions the correspondence check runs for `ostream_xfrm` carry the failure path of the wrapped stream
(`if (ioret) return ioret;`, `return wrapped->flush(wrapped)`); as long as the wrapped stream does not fail they **are** the
functions of the theorems above (projection: forget the call counter), so those theorems are statements about the tied model.
-/
theorem ostream_failure_model_agrees (bufsz fuel : Nat) (ops : List OOp) (s : OStateE σ) :
    (oRunE C bufsz fuel OEnv.good s ops).map projO = oRun C bufsz fuel s.st ops :=
  oRunE_good bufsz fuel ops s

example := ostream_failure_model_agrees (C := Toy.encoder exP) 4 1000 exOps ⟨oInit (Toy.encoder exP), 0⟩

/-- **A write error of the wrapped stream is never swallowed**: if call number `k` of `wrapped->append` fails (`e ≠ 0`), a history
of `append`/`flush` operations that comes back with 0 has not reached that call (for every codec, no contract needed). -/
theorem ostream_write_error_reported (bufsz fuel : Nat) (E : OEnv) {k : Nat} {e : Int} (hE : E.appendFail = some (k, e)) (he : e ≠ 0)
    (ops : List OOp) (s s' : OStateE σ) (h : oRunE C bufsz fuel E s ops = some (.ok s')) (hk : s.appends ≤ k) : s'.appends ≤ k :=
  oRunE_ok_no_append_failure bufsz fuel E hE he ops s s' h hk

/-- instance with the hypotheses met: the history `exOps` makes 22 `wrapped->append` calls (numbered 0…21); with a failure
scheduled for call number 22 (tight) or 50 the run comes back with 0, and the theorem bounds the calls made -/
example : ∃ s', oRunE (Toy.encoder exP) 4 1000 { appendFail := some (22, -5) } ⟨oInit (Toy.encoder exP), 0⟩ exOps = some (.ok s') ∧
    s'.appends ≤ 22 := by
  have hk : (match oRunE (Toy.encoder exP) 4 1000 { appendFail := some (22, -5) } ⟨oInit (Toy.encoder exP), 0⟩ exOps with
      | some (.ok s') => decide (s'.appends = 22) | _ => false) = true := by decide
  cases h : oRunE (Toy.encoder exP) 4 1000 { appendFail := some (22, -5) } ⟨oInit (Toy.encoder exP), 0⟩ exOps with
  | none => rw [h] at hk; cases hk
  | some r =>
    cases r with
    | error e => rw [h] at hk; cases hk
    | ok s' => exact ⟨s', rfl, ostream_write_error_reported 4 1000 _ (k := 22) (e := -5) rfl (by decide) exOps _ s' h (by decide)⟩
example : ∀ s', oRunE (Toy.encoder exP) 4 1000 { appendFail := some (50, -5) } ⟨oInit (Toy.encoder exP), 0⟩ exOps = some (.ok s') →
    s'.appends ≤ 50 :=
  fun s' h => ostream_write_error_reported 4 1000 _ (k := 50) (e := -5) rfl (by decide) exOps _ s' h (by decide)
/-- … and the bound is sharp: scheduled for call number 21, the failure is hit and returned -/
example : (match oRunE (Toy.encoder exP) 4 1000 { appendFail := some (21, -5) } ⟨oInit (Toy.encoder exP), 0⟩ exOps with
    | some (.error e) => some e.1 | _ => none) = some (-5) := by decide

/-- … and neither is a failing `wrapped->flush` -/
theorem ostream_flush_error_reported (bufsz fuel : Nat) (E : OEnv) {k : Nat} {e : Int} (hE : E.flushFail = some (k, e)) (he : e ≠ 0)
    (ops : List OOp) (s s' : OStateE σ) (h : oRunE C bufsz fuel E s ops = some (.ok s')) (hk : s.st.flushed ≤ k) : s'.st.flushed ≤ k :=
  oRunE_ok_no_flush_failure bufsz fuel E hE he ops s s' h hk

/-- instance: `exOps` makes 3 `wrapped->flush` calls (0…2); a failure scheduled for call number 3 is not reached, one for
call number 2 is returned -/
example : ∃ s', oRunE (Toy.encoder exP) 4 1000 { flushFail := some (3, -5) } ⟨oInit (Toy.encoder exP), 0⟩ exOps = some (.ok s') ∧
    s'.st.flushed ≤ 3 := by
  have hk : (match oRunE (Toy.encoder exP) 4 1000 { flushFail := some (3, -5) } ⟨oInit (Toy.encoder exP), 0⟩ exOps with
      | some (.ok s') => decide (s'.st.flushed = 3) | _ => false) = true := by decide
  cases h : oRunE (Toy.encoder exP) 4 1000 { flushFail := some (3, -5) } ⟨oInit (Toy.encoder exP), 0⟩ exOps with
  | none => rw [h] at hk; cases hk
  | some r =>
    cases r with
    | error e => rw [h] at hk; cases hk
    | ok s' => exact ⟨s', rfl, ostream_flush_error_reported 4 1000 _ (k := 3) (e := -5) rfl (by decide) exOps _ s' h (by decide)⟩
example : (match oRunE (Toy.encoder exP) 4 1000 { flushFail := some (2, -5) } ⟨oInit (Toy.encoder exP), 0⟩ exOps with
    | some (.error e) => some e.1 | _ => none) = some (-5) := by decide

/-- the same for `istream_xfrm`: without a failing `get_buffered_data` the tied function is `iRead` … -/
theorem istream_failure_model_agrees (bufsz fuel : Nat) (ops : List (Nat × Nat)) (st : IStateE σ) (acc : Bytes)
    (hf : st.inner.fail = none) :
    (iReadE C bufsz fuel st ops acc).map projRead = iRead C bufsz fuel (projI st) ops acc :=
  iReadE_good bufsz fuel ops st acc hf

/-- the reader state of the examples: the two members behind the chunk script, `get_buffered_data` failing as given by `f` -/
def exIst (f : Option (Nat × Int)) : IStateE Toy.Dec :=
  ⟨Toy.decFresh, [], 0, ⟨⟨Toy.encode exA ++ Toy.encode exB, exScript⟩, 0, f⟩⟩
example := istream_failure_model_agrees (C := Toy.decoder exP) 4 1000 exReads (exIst none) [] rfl

/-- … and a **read error of the wrapped stream is never taken for data or for the end**: a reader's run that ends without an
error has not made the failing call -/
theorem istream_read_error_reported (bufsz fuel : Nat) {k : Nat} {e : Int} (he : e < 0) (ops : List (Nat × Nat)) (st : IStateE σ)
    (acc : Bytes) (r : IStateE σ × Bytes × Bool) (hf : st.inner.fail = some (k, e))
    (h : iReadE C bufsz fuel st ops acc = some (.ok r)) (hk : st.inner.calls ≤ k) : r.1.inner.calls ≤ k :=
  iReadE_ok_no_failure bufsz fuel he ops st acc r hf h hk

/-- instance: the reads `exReads` make 10 calls of the wrapped `get_buffered_data` (0…9) and see the end; a failure scheduled
for call number 10 is not reached, one for call number 9 is returned -/
example : ∃ r, iReadE (Toy.decoder exP) 4 1000 (exIst (some (10, -3))) exReads [] = some (.ok r) ∧ r.1.inner.calls ≤ 10 := by
  have hk : (match iReadE (Toy.decoder exP) 4 1000 (exIst (some (10, -3))) exReads [] with
      | some (.ok r) => decide (r.1.inner.calls = 10) | _ => false) = true := by decide
  cases h : iReadE (Toy.decoder exP) 4 1000 (exIst (some (10, -3))) exReads [] with
  | none => rw [h] at hk; cases hk
  | some r =>
    cases r with
    | error e => rw [h] at hk; cases hk
    | ok r => exact ⟨r, rfl, istream_read_error_reported 4 1000 (k := 10) (e := -3) (by decide) exReads _ [] r rfl h (by decide)⟩
example : (match iReadE (Toy.decoder exP) 4 1000 (exIst (some (9, -3))) exReads [] with
    | some (.error e) => some e | _ => none) = some (-3) := by decide

/-- a concrete failing write: the second `wrapped->append` of the flush returns -5; `xfrm_flush` returns -5, one byte stored -/
example : (match oRunE (Toy.encoder ⟨0, 0, 0⟩) 4 1000 { appendFail := some (1, -5) } ⟨oInit (Toy.encoder ⟨0, 0, 0⟩), 0⟩
      [OOp.append [65, 66], OOp.flush] with
    | some (.error e) => some e
    | _ => none) = some (-5, [1]) := by decide

/-- a concrete failing read: the third `get_buffered_data` of the wrapped stream returns -3 -/
example : (match iReadE (Toy.decoder ⟨0, 0, 0⟩) 4 1000 ⟨Toy.decFresh, [], 0, ⟨⟨Toy.encode [65, 66, 67], [0, 0, 0, 0, 0, 0, 0, 0]⟩, 0, some (2, -3)⟩⟩
      [(4, 3), (4, 3), (4, 3), (4, 3)] [] with
    | some (.error e) => some e
    | _ => none) = some (-3) := by decide

/--
**tarProbe_iff.**  The model of `tar_probe` answers "tar" exactly for the inputs the informal description names: `ustar` at
offset 257 of the first record, or — when the first 512-byte record is there and all zero — at offset 257 of the second.
(The two cases cannot overlap: an all-zero first record has no `ustar` in it, so the order of the two tests in the C code
does not matter.)
-/
theorem tarProbe_iff (d : Bytes) : tarProbe d = true ↔ TarLike d := by
  unfold TarLike
  change (decide (257 + 5 ≤ (if (decide (512 ≤ d.length) && (d.take 512).all (· == 0)) = true then d.drop 512 else d).length) &&
    (((if (decide (512 ≤ d.length) && (d.take 512).all (· == 0)) = true then d.drop 512 else d).drop 257).take 5 ==
      [0x75, 0x73, 0x74, 0x61, 0x72])) = true ↔ _
  by_cases hz : ZeroRecord d
  · have hc : (decide (512 ≤ d.length) && (d.take 512).all (· == 0)) = true := by
      simp only [Bool.and_eq_true, decide_eq_true_eq, List.all_eq_true, beq_iff_eq]
      exact hz
    simp only [hc, if_true]
    rw [show ([0x75, 0x73, 0x74, 0x61, 0x72] : Bytes) = ustarMagic from rfl, ustarAt_iff]
    constructor
    · exact fun h => Or.inr ⟨hz, h⟩
    · rintro (h | h)
      · exact absurd h (zeroRecord_not_ustarAt d hz)
      · exact h.2
  · have hc : (decide (512 ≤ d.length) && (d.take 512).all (· == 0)) = false := by
      rw [Bool.eq_false_iff]
      intro h
      simp only [Bool.and_eq_true, decide_eq_true_eq, List.all_eq_true, beq_iff_eq] at h
      exact hz h
    simp only [hc, Bool.false_eq_true, if_false]
    rw [show ([0x75, 0x73, 0x74, 0x61, 0x72] : Bytes) = ustarMagic from rfl, ustarAt_iff]
    constructor
    · exact Or.inl
    · rintro (h | h)
      · exact h
      · exact absurd h.1 hz

/-- the magic numbers of compress.c's table are pairwise incomparable: no input starts with two of them, so the order of the
table (and `find?`'s "first match") does not influence the decision; all ids are positive -/
theorem magic_unambiguous (d : Bytes) (i j : Nat) (m m' : Bytes) (hi : (i, m) ∈ magicTable) (hj : (j, m') ∈ magicTable)
    (hm : IsPre m d) (hm' : IsPre m' d) : i = j ∧ m = m' ∧ 0 < i := by
  obtain ⟨t, rfl⟩ := hm
  obtain ⟨t', h⟩ := hm'
  simp only [magicTable, List.mem_cons, Prod.mk.injEq, List.mem_nil_iff, or_false] at hi hj
  rcases hi with ⟨rfl, rfl⟩ | ⟨rfl, rfl⟩ | ⟨rfl, rfl⟩ | ⟨rfl, rfl⟩ <;>
    rcases hj with ⟨rfl, rfl⟩ | ⟨rfl, rfl⟩ | ⟨rfl, rfl⟩ | ⟨rfl, rfl⟩ <;>
    simp [Sqfs.Consts.xfrmCompGzip, Sqfs.Consts.xfrmCompXz, Sqfs.Consts.xfrmCompZstd, Sqfs.Consts.xfrmCompBzip2] at h ⊢

/--
**probe_spec** (`tar_open_stream`).  An input in which `ustar` stands at offset 257 (of the first record, or of the second
when the first is all zero — `TarLike`, a predicate on the bytes, tied to the model of `tar_probe` by `tarProbe_iff`) is read
as it is, whatever its first bytes are; and an input is handed to the decompressor `id` **exactly** when it is not tar-like
and starts with that codec's magic number from the table of compress.c (which determines `id`: `magic_unambiguous`).
-/
theorem probe_spec (data : Bytes) :
    (TarLike data → openStreamCodec data = none) ∧
    (∀ id, openStreamCodec data = some id ↔ ¬ TarLike data ∧ ∃ m, (id, m) ∈ magicTable ∧ IsPre m data) := by
  constructor
  · intro h; simp [openStreamCodec, (tarProbe_iff data).2 h]
  · intro id
    constructor
    · intro h
      unfold openStreamCodec at h
      cases hp : tarProbe data with
      | true => simp [hp] at h
      | false =>
        refine ⟨fun ht => (by rw [(tarProbe_iff data).2 ht] at hp; cases hp), ?_⟩
        simp only [hp, Bool.false_eq_true, if_false] at h
        unfold compressorIdFromMagic at h
        cases hf : magicTable.find? (fun e => decide (e.2.length ≤ data.length) && (data.take e.2.length == e.2)) with
        | none => simp [hf] at h
        | some e =>
          simp only [hf] at h
          split at h
          · have hid : e.1 = id := by
              have := Option.some.inj h
              omega
            have hmem := List.mem_of_find?_eq_some hf
            have hpred := List.find?_some hf
            simp only [Bool.and_eq_true, decide_eq_true_eq, beq_iff_eq] at hpred
            refine ⟨e.2, by rw [← hid]; exact hmem, ⟨data.drop e.2.length, ?_⟩⟩
            conv => lhs; rw [← List.take_append_drop e.2.length data, hpred.2]
          · cases h
    · rintro ⟨hnt, m, hm, hpre⟩
      have hp : tarProbe data = false := by
        cases hp : tarProbe data with
        | false => rfl
        | true => exact absurd ((tarProbe_iff data).1 hp) hnt
      exact openStreamCodec_of_magic data hp id m hm hpre

set_option maxRecDepth 100000 in
/-- a tar archive whose first bytes happen to be the gzip magic is read as it is (`ustar` at 257 wins) -/
example : openStreamCodec ([0x1F, 0x8B, 0x08] ++ List.replicate 254 65 ++ ustarMagic ++ List.replicate 250 0) = none :=
  (probe_spec _).1 (Or.inl (by unfold UstarAt; decide))
set_option maxRecDepth 100000 in
/-- … so is an archive that starts with an all-zero record followed by a header record -/
example : openStreamCodec (List.replicate 512 0 ++ List.replicate 257 65 ++ ustarMagic ++ List.replicate 250 0) = none :=
  (probe_spec _).1 (Or.inr ⟨⟨by decide, by decide⟩, by unfold UstarAt; decide⟩)
set_option maxRecDepth 100000 in
/-- a gzip stream (no `ustar` at 257 or 769) goes to the gzip decompressor, a zstd frame to the zstd one -/
example : openStreamCodec ([0x1F, 0x8B, 0x08, 0] ++ List.replicate 600 7) = some Sqfs.Consts.xfrmCompGzip :=
  ((probe_spec _).2 _).2 ⟨fun h => absurd ((tarProbe_iff _).2 h) (by decide), [0x1F, 0x8B, 0x08], by simp [magicTable],
    ⟨0 :: List.replicate 600 7, rfl⟩⟩
example : openStreamCodec ([0x28, 0xB5, 0x2F, 0xFD, 1, 2, 3]) = some Sqfs.Consts.xfrmCompZstd :=
  ((probe_spec _).2 _).2 ⟨fun h => absurd ((tarProbe_iff _).2 h) (by decide), [0x28, 0xB5, 0x2F, 0xFD], by simp [magicTable],
    ⟨[1, 2, 3], rfl⟩⟩
/-- … and the other direction applied to a computed answer -/
example := ((probe_spec ([0x42, 0x5A, 0x68, 0x39] ++ List.replicate 20 1)).2 Sqfs.Consts.xfrmCompBzip2).1 (by decide)
example := tarProbe_iff (List.replicate 257 65 ++ ustarMagic ++ List.replicate 250 0)
example := magic_unambiguous [0x1F, 0x8B, 0x08, 0] Sqfs.Consts.xfrmCompGzip Sqfs.Consts.xfrmCompGzip [0x1F, 0x8B, 0x08] [0x1F, 0x8B, 0x08]
  (by simp [magicTable]) (by simp [magicTable]) ⟨[0], rfl⟩ ⟨[0], rfl⟩

/-- Non-vacuity of the library-level convention: the toy library meets it under each backend's return-code convention. -/
theorem toy_library_meets_convention (P : Toy.Params) (b : Backend) :
    Nonempty (LibEncContract (Toy.encLib P b) b Toy.decode) ∧ Nonempty (LibDecContract (Toy.decLib P b) b Toy.decode) ∧
    Nonempty (ZEncContract (Toy.encZLib P) Toy.decode) ∧ Nonempty (ZDecContract (Toy.decZLib P) Toy.decode) :=
  ⟨⟨Toy.encLibContract P b⟩, ⟨Toy.decLibContract P b⟩, ⟨Toy.encZLibContract P⟩, ⟨Toy.decZLibContract P⟩⟩

/--
**The library conventions do not constrain `FLUSH_SYNC`** (review E, F2).  The clauses of `LibEncContract` / `LibDecContract` (and of
the codec-level contracts) speak about the flush modes the wrappers pass — `FLUSH_NONE`, `FLUSH_FULL` — only: a library obtained from
a conforming one by replacing its behaviour on `FLUSH_SYNC` with **anything** (`Lib.withSync L f`) still conforms.  So the facts that
made the earlier formulation unsatisfiable for the real libraries (liblzma: `LZMA_FULL_FLUSH` is answered `LZMA_STREAM_END` by the
encoder and `LZMA_PROG_ERROR` by the decoder; libbz2: `BZ_SEQUENCE_ERROR` after an unfinished `BZ_FLUSH`) are consistent with the
conventions as they stand, and the `backend_*` theorems are not vacuous on their account.
-/
theorem library_conventions_ignore_flush_sync {τ : Type} {L : Lib τ} {b : Backend} (f : τ → Bytes → Nat → LibOut τ) :
    (LibEncContract L b Dec → Nonempty (LibEncContract (L.withSync f) b Dec)) ∧
    (LibDecContract L b Dec → Nonempty (LibDecContract (L.withSync f) b Dec)) :=
  ⟨fun h => ⟨h.withSync f⟩, fun h => ⟨h.withSync f⟩⟩

/-- instance: the toy libraries that answer `FLUSH_SYNC` the way liblzma does meet the conventions … -/
example := (library_conventions_ignore_flush_sync (Dec := Toy.decode) (L := Toy.encLib exP .xz) (b := .xz) Toy.lzmaSyncEnc).1
  (Toy.encLibContract exP .xz)
example := (library_conventions_ignore_flush_sync (Dec := Toy.decode) (L := Toy.decLib exP .xz) (b := .xz) Toy.lzmaSyncDec).2
  (Toy.decLibContract exP .xz)
/-- … they do behave like liblzma there (the two facts from which `False` followed under the earlier clauses) … -/
example : ((Toy.lzmaLikeEnc exP).call (Toy.lzmaLikeEnc exP).init [65] 10 Flush.sync).ret = LibRet.streamEnd := by decide
example : ((Toy.lzmaLikeDec exP).call (Toy.lzmaLikeDec exP).init (Toy.encode exA) 10 Flush.sync).ret = LibRet.dataError := by decide
/-- … and the backend theorems apply to them -/
example := backend_ostream_transparent (Toy.lzmaLikeEncContract exP) (bufsz := 4) (by decide) exChunks
example := backend_istream_transparent (Toy.lzmaLikeDecContract exP) (bufsz := 3) (by decide) exMembers exScript exReads exReads_want
example := backend_truncated_is_error (Toy.lzmaLikeDecContract exP) (bufsz := 3) (by decide) exMembers exCut_ne exCutRest_ne
  exCut_valid exScript exReads exReads_want

/-- Non-vacuity: the toy codec (internal queue, limited intake and output granularity, any knob setting) meets
the encoder contract with the toy format's one-shot decoder. -/
theorem toy_encoder_meets_contract (P : Toy.Params) : Nonempty (EncContract (Toy.encoder P) Toy.decode) :=
  ⟨Toy.encContract P⟩

/-- Non-vacuity of the decoder contract: the toy decoder (queue, limited intake, limited output granularity, the
end-of-input rule of the repaired backends) meets it for every knob setting. -/
theorem toy_decoder_meets_contract (P : Toy.Params) : Nonempty (DecContract (Toy.decoder P) Toy.decode) :=
  ⟨Toy.decContract P⟩

/-- the toy format round-trips (so `Toy.decode` is a meaningful reference decoder) -/
theorem toy_decode_encode (x : Bytes) : Toy.decode (Toy.encode x) = some x := Toy.decode_encode x

example : Toy.decode (Toy.encode exA) = some exA := toy_decode_encode exA

/-- a concrete run: 5 bytes through a 4-byte buffer with the most restrictive toy codec -/
example : (match oRun (Toy.encoder ⟨0, 0, 0⟩) 4 1000 (oInit (Toy.encoder ⟨0, 0, 0⟩))
      [OOp.append [65, 66, 67, 68, 69], OOp.flush] with
    | some (.ok st) => Toy.decode st.sink
    | _ => none) = some [65, 66, 67, 68, 69] := by decide

/-- a concrete run of the reader: two members through a 4-byte buffer, one-byte chunks of input, reader takes 3 bytes a time -/
example : (match iRead (Toy.decoder ⟨0, 0, 0⟩) 4 1000 (iInit (Toy.decoder ⟨0, 0, 0⟩) ⟨Toy.encode [65, 66, 67] ++ Toy.encode [68, 69], [0, 0, 0, 0, 0, 0, 0, 0, 0, 0, 0, 0]⟩)
      [(4, 3), (4, 3), (4, 3), (4, 3), (4, 3), (4, 3), (4, 3), (4, 3)] [] with
    | some (.ok (_, acc, eof)) => some (acc, eof)
    | _ => none) = some ([65, 66, 67, 68, 69], true) := by decide

/-- a concrete truncated stream: the last byte of the second member is missing -/
example : (match iRead (Toy.decoder ⟨1, 1, 1⟩) 4 1000 (iInit (Toy.decoder ⟨1, 1, 1⟩) ⟨Toy.encode [65, 66, 67] ++ (Toy.encode [68, 69]).take 4, []⟩)
      [(4, 3), (4, 3), (4, 3), (4, 3), (4, 3), (4, 3), (4, 3), (4, 3)] [] with
    | some (.error e) => some e
    | _ => none) = some errCompressor := by decide

/-- the decompressing zstd loop over the toy library: two frames, 3-byte buffer, chunks of one and two bytes, decoded across
the frame boundary inside one call -/
example : (match iRead (zstdCodec (Toy.decZLib ⟨5, 5, 5⟩) false) 3 1000
      (iInit (zstdCodec (Toy.decZLib ⟨5, 5, 5⟩) false) ⟨Toy.encode [65, 66, 67] ++ Toy.encode [68, 69], [0, 1, 0, 1, 0, 1, 0, 1, 0, 1, 0, 1]⟩)
      [(4, 3), (4, 3), (4, 3), (4, 3), (4, 3), (4, 3), (4, 3), (4, 3)] [] with
    | some (.ok (_, acc, eof)) => some (acc, eof)
    | _ => none) = some ([65, 66, 67, 68, 69], true) := by decide

/-- … and the same stream cut inside the second frame: the error -/
example : (match iRead (zstdCodec (Toy.decZLib ⟨1, 1, 1⟩) false) 4 1000
      (iInit (zstdCodec (Toy.decZLib ⟨1, 1, 1⟩) false) ⟨Toy.encode [65, 66, 67] ++ (Toy.encode [68, 69]).take 4, []⟩)
      [(4, 3), (4, 3), (4, 3), (4, 3), (4, 3), (4, 3), (4, 3), (4, 3)] [] with
    | some (.error e) => some e
    | _ => none) = some errCompressor := by decide

/-- a concrete corrupted stream: an intact member followed by a malformed marker, through the gzip-style backend loop over
the toy library: the intact contents, then the error -/
example : (match iRead (wrapCodec (Toy.decLib ⟨1, 1, 1⟩ Backend.gzip) Backend.gzip false) 4 1000
      (iInit (wrapCodec (Toy.decLib ⟨1, 1, 1⟩ Backend.gzip) Backend.gzip false) ⟨Toy.encode [65, 66, 67] ++ [1, 68, 2, 9], [1, 0, 1]⟩)
      [(4, 3), (4, 3), (4, 3), (4, 3), (4, 3), (4, 3), (4, 3), (4, 3)] [] with
    | some (.error e) => some e
    | _ => none) = some errCompressor := by decide

/-- … and through the zstd loop -/
example : (match iRead (zstdCodec (Toy.decZLib ⟨1, 1, 1⟩) false) 4 1000
      (iInit (zstdCodec (Toy.decZLib ⟨1, 1, 1⟩) false) ⟨Toy.encode [65, 66, 67] ++ [1, 68, 2, 9], [1, 0, 1]⟩)
      [(4, 3), (4, 3), (4, 3), (4, 3), (4, 3), (4, 3), (4, 3), (4, 3)] [] with
    | some (.error e) => some e
    | _ => none) = some errCompressor := by decide

end Sqfs.C15
