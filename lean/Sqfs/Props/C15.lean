import Sqfs.Spec.Xfrm
namespace Sqfs.C15
open Sqfs.Xfrm

theorem toy_decode_encBytes (x r : Bytes) : Toy.decode (Toy.encBytes x ++ 0 :: r) = if r = [] then some x else (Toy.decode (Toy.encBytes x ++ 0 :: r)) := by
  split <;> rename_i h
  · subst h
    induction x with
    | nil => simp [Toy.encBytes, Toy.decode]
    | cons b t ih => simp [Toy.encBytes, Toy.decode, ih]
  · rfl

end Sqfs.C15
