/-
C11 — packing a directory is independent of the host's enumeration order.

The theorems are about `Sqfs.FsTree` (Sqfs/Model/FsTree.lean), the model of
dir_unix.c → dir_rec.c → dir_hl.c → dir_tree_iterator.c → glob.c:scan_directory → fstree.c → post_process.c.
`sorted = true` is the model of the tree with fixes/C11-sorted-readdir.patch (native iterator sorts every
directory); `sorted = false` is the code as pinned, for which the full statement is false (Sqfs/Witness/C11.lean).
-/
import Sqfs.Proofs.FsTreeSorted

namespace Sqfs.C11
open Sqfs.FsTree

/-- `insert_sorted` (fstree.c): inserting nodes with pairwise different names into **any** child list gives the same
list whatever the order of insertion — for all lists, via `List.Perm`. -/
theorem insertSorted_perm {l₁ l₂ : List TNode} (hp : l₁.Perm l₂) (hnd : (l₁.map TNode.name).Nodup)
    (init : List TNode) :
    l₁.foldl (fun acc n => insertSorted n acc) init = l₂.foldl (fun acc n => insertSorted n acc) init :=
  foldl_insertBy_perm TNode.name hp hnd init

/-- `insert_sorted` keeps the children strictly sorted by `strcmp` and neither loses nor duplicates a node. -/
theorem insertSorted_sorted (n : TNode) (cs : List TNode) (hs : SortedNames (cs.map TNode.name))
    (hnew : ∀ c ∈ cs, c.name ≠ n.name) :
    SortedNames ((insertSorted n cs).map TNode.name) ∧ (insertSorted n cs).Perm (n :: cs) :=
  ⟨insertBy_sorted TNode.name n cs hs hnew, insertBy_perm TNode.name n cs⟩

/-- **Full statement.**  For two enumerations of one directory forest that differ by a permutation inside each
directory (`FPerm`, any depth), `gensquashfs --pack-dir` computes the same tree, the same inode numbering and the
same file list (hence, with C02, the same bytes) — for every forest (multiply-linked files included), every
option set (`-H`, `-o`, `-k`, forced ids, type masks, name patterns) and every `fnmatch`.
Holds for the repaired native iterator. -/
theorem scan_perm_invariant {e₁ e₂ : List HNode} (h : FPerm e₁ e₂) (hwf : WFList e₁)
    (d : Defaults) (cfg : Cfg) (fnm : Fnm) (rootDev : Nat) :
    packDir true d cfg fnm rootDev e₁ = packDir true d cfg fnm rootDev e₂ := by
  unfold packDir scanInto
  rw [nativeOrder_sorted_fperm h hwf]

/-- The same for a `glob` line of a pack file: any tree built so far, any pending hard links, any target
directory (prefix), file prefix and filter options. -/
theorem scan_perm_invariant_glob {e₁ e₂ : List HNode} (h : FPerm e₁ e₂) (hwf : WFList e₁)
    (d : Defaults) (cfg : Cfg) (fnm : Fnm) (rootDev : Nat) (target : Path) (tree : TNode) (links : List Path) :
    globInto true d cfg fnm rootDev e₁ target tree links = globInto true d cfg fnm rootDev e₂ target tree links := by
  unfold globInto scanInto
  rw [nativeOrder_sorted_fperm h hwf]

/-- **The code as pinned** (`sorted = false`: readdir order reaches the hard-link filter unchanged).
The full statement is false for it (`Sqfs.Witness.C11.scan_order_dependent`); what is missing is exactly the case
"some file has more than one name inside the scanned forest and hard-link detection is on".  Outside that case —
`-H`/`-nohardlinks`, or pairwise different `(st_dev, st_ino)` of the non-directories — tree, inode numbering and
file list do not depend on the enumeration, for every forest, every option set and every `fnmatch`. -/
theorem scan_perm_invariant_partial {e₁ e₂ : List HNode} (h : FPerm e₁ e₂) (hwf : WFList e₁)
    (d : Defaults) (cfg : Cfg) (fnm : Fnm) (rootDev : Nat)
    (hno : hasFlag cfg.flags Consts.dirScanNoHardlinks = true ∨ NoMultiLink e₁) :
    packDir false d cfg fnm rootDev e₁ = packDir false d cfg fnm rootDev e₂ := by
  unfold packDir
  rw [scanInto_false_fperm d cfg fnm rootDev h hwf hno]

/-- … and the same for a `glob` line on top of any tree built so far. -/
theorem scan_perm_invariant_glob_partial {e₁ e₂ : List HNode} (h : FPerm e₁ e₂) (hwf : WFList e₁)
    (d : Defaults) (cfg : Cfg) (fnm : Fnm) (rootDev : Nat) (target : Path) (tree : TNode) (links : List Path)
    (hno : hasFlag cfg.flags Consts.dirScanNoHardlinks = true ∨ NoMultiLink e₁) :
    globInto false d cfg fnm rootDev e₁ target tree links = globInto false d cfg fnm rootDev e₂ target tree links := by
  unfold globInto
  cases mkdirImplicit d target tree with
  | none => rfl
  | some t1 =>
    simp only
    cases lookup t1 target with
    | none => rfl
    | some r =>
      simp only
      split
      · rfl
      · exact scanInto_false_fperm d cfg fnm rootDev h hwf hno t1 links

/-- The repair does not change what the pinned code computes where that was well defined: outside the multiply-linked
case the repaired and the pinned scan agree on every enumeration (so no image that did not depend on the readdir
order changes a byte — the constraint of DESIGN.md §6 on a repair of D16). -/
theorem repair_conservative (e : List HNode) (hwf : WFList e) (d : Defaults) (cfg : Cfg) (fnm : Fnm) (rootDev : Nat)
    (hno : hasFlag cfg.flags Consts.dirScanNoHardlinks = true ∨ NoMultiLink e) :
    packDir true d cfg fnm rootDev e = packDir false d cfg fnm rootDev e := by
  have h := scan_perm_invariant_partial (fperm_nativeOrder e) hwf d cfg fnm rootDev hno
  rw [h]
  rfl

/-- Inode numbers and the file list are functions of the (sorted) tree alone: `fstree_post_process` — hard-link
resolution with its link counts, `alloc_inode_num_dfs`, `reorder_hard_links`, `file_list_dfs` — gives the same result
for every order of the `links_unresolved` list, the one piece of state next to the tree that records the order in which
entries arrived.  Hypothesis `FlatLinks`: every pending link names an existing node that is neither a directory nor a
link itself — what the hard-link filter hands out (it only ever records primary names). -/
theorem numbering_deterministic {links₁ links₂ : List Path} (hp : links₁.Perm links₂) (tree : TNode)
    (hflat : FlatLinks tree links₁) : postProcess tree links₁ = postProcess tree links₂ :=
  postProcess_perm hp tree hflat

/-- Whatever the enumeration order, the options and the iterator (pinned or repaired): the tree `--pack-dir` hands to
the serialiser has **every** directory strictly sorted by `strcmp` (so names are pairwise different and the order of
directory entries, of the DFS numbering and of the file list is fixed by the names alone). -/
theorem scan_tree_sorted (sorted : Bool) (d : Defaults) (cfg : Cfg) (fnm : Fnm) (rootDev : Nat) (e : List HNode)
    (r : Result) (h : packDir sorted d cfg fnm rootDev e = some r) : r.tree.AllSorted := by
  simp only [packDir] at h
  split at h
  · cases h
  · rename_i t links hs
    have ht := scanInto_allSorted (initRoot_allSorted d) hs
    simp only [postProcess] at h
    split at h
    · cases h
    · rename_i t2 hres
      split at h
      · cases h
      · cases h
        exact resolveHardLinks_allSorted _ _ _ _ ht hres

/-- … and a `glob` line keeps a sorted tree sorted. -/
theorem glob_tree_sorted (sorted : Bool) (d : Defaults) (cfg : Cfg) (fnm : Fnm) (rootDev : Nat) (e : List HNode)
    (target : Path) (tree : TNode) (links : List Path) (ht : tree.AllSorted) (t' : TNode) (l' : List Path)
    (h : globInto sorted d cfg fnm rootDev e target tree links = some (t', l')) : t'.AllSorted := by
  simp only [globInto] at h
  split at h
  · cases h
  · rename_i t1 hmk
    have h1 := (mkdirImplicit_allSorted d target tree t1 ht hmk).1
    split at h
    · cases h
    · split at h
      · cases h
      · exact scanInto_allSorted h1 h

/-! ### the hypotheses are satisfiable, the conclusion is not trivial -/

private def st (mode ino : Nat) : Stat := { mode := mode, uid := 0, gid := 0, mtime := 0, dev := 1, ino := ino, rdev := 0 }
private def fa : HNode := .mk [0x61] (st 0o100644 10) [] []
private def fb : HNode := .mk [0x62] (st 0o100644 11) [] []
private def fc : HNode := .mk [0x63] (st 0o100644 10) [] []           -- second name of `a`
private def fe : HNode := .mk [0x65] (st 0o100644 13) [] []
private def dd (c : List HNode) : HNode := .mk [0x64] (st 0o040755 12) [] c

/-- `{a, b, c, d/{a, b}}` enumerated in two different orders (also inside `d`) -/
example : FPerm [fa, fb, fc, dd [fa, fb]] [dd [fb, fa], fc, fb, fa] := by
  have h1 : FPerm [fa, fb, fc, dd [fa, fb]] [fa, fb, dd [fa, fb], fc] :=
    FPerm.cons FPerm.nil (FPerm.cons FPerm.nil (FPerm.swap _ _ _))
  have h2 : FPerm [fa, fb, dd [fa, fb], fc] [fa, dd [fa, fb], fb, fc] := FPerm.cons FPerm.nil (FPerm.swap _ _ _)
  have h3 : FPerm [fa, dd [fa, fb], fb, fc] [dd [fa, fb], fa, fb, fc] := FPerm.swap _ _ _
  have h4 : FPerm [dd [fa, fb], fa, fb, fc] [dd [fb, fa], fa, fb, fc] := FPerm.cons (FPerm.swap _ _ _) (fperm_refl _)
  have h5 : FPerm [dd [fb, fa], fa, fb, fc] [dd [fb, fa], fc, fb, fa] :=
    FPerm.cons (fperm_refl _)
      (FPerm.trans (FPerm.swap _ _ _) (FPerm.trans (FPerm.cons FPerm.nil (FPerm.swap _ _ _)) (FPerm.swap _ _ _)))
  exact FPerm.trans h1 (FPerm.trans h2 (FPerm.trans h3 (FPerm.trans h4 h5)))

example : WFList [fa, fb, fc, dd [fa, fb]] := by
  simp [WFList, WFNode, HNode.name, fa, fb, fc, dd]

/-- `NoMultiLink` holds of a forest without the second name `c` … -/
example : NoMultiLink [fa, fb, dd [fe]] ∧ WFList [fa, fb, dd [fe]] := by
  refine ⟨?_, ?_⟩
  · simp [NoMultiLink, keysList, keysNode, fa, fb, fe, dd, st, isDirMode, isType, Consts.sIFMT, Consts.sIFDIR]
  · simp [WFList, WFNode, HNode.name, fa, fb, fe, dd]

/-- … and fails of the witness forest (so `scan_perm_invariant_partial` does not contradict the witness) -/
example : ¬ NoMultiLink [fa, fb, fc] := by
  simp [NoMultiLink, keysList, keysNode, fa, fb, fc, st, isDirMode, isType, Consts.sIFMT, Consts.sIFDIR]

/-- `FlatLinks` holds of what the scan of `{a, b, c, e | a = c = e}` leaves behind: two pending links, both to `a` -/
private def wcfg : Cfg :=
  { flags := Consts.dirScanKeepUid ||| Consts.dirScanKeepGid ||| Consts.dirScanKeepMode, defUid := 0,
    defGid := 0, defMode := 0, defMtime := 0, pfx := [], filePrefix := none, pattern := none }
private def wd : Defaults := { uid := 0, gid := 0, mtime := 0, mode := 0o755 }
private def fe' : HNode := .mk [0x65] (st 0o100644 10) [] []
private def wscan : TNode × List Path :=
  (scanInto true wd wcfg (fun _ _ _ => true) 1 [fa, fb, fc, fe'] (initRoot wd) []).getD (initRoot wd, [])

example : wscan.2 = [[[0x65]], [[0x63]]] := by decide
example : FlatLinks wscan.1 wscan.2 := by
  intro p hp
  have h2 : wscan.2 = [[[0x65]], [[0x63]]] := by decide
  rw [h2] at hp
  simp only [List.mem_cons, List.not_mem_nil, or_false] at hp
  rcases hp with rfl | rfl
  · exact ⟨[[0x61]], flatAt_of_flatAtB (by decide)⟩
  · exact ⟨[[0x61]], flatAt_of_flatAtB (by decide)⟩

/-- the scan of the witness forest succeeds (hypothesis of `scan_tree_sorted`), with either iterator -/
example : (packDir true wd wcfg (fun _ _ _ => true) 1 [fc, fb, fa]).isSome = true := by decide
example : (packDir false wd wcfg (fun _ _ _ => true) 1 [fc, fb, fa]).isSome = true := by decide

example : (insertSorted (.mk [0x62] default []) [.mk [0x61] default [], .mk [0x63] default []]).map TNode.name
    = [[0x61], [0x62], [0x63]] := by decide

end Sqfs.C11
