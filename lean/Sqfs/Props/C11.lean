/-
C11 — packing a directory is independent of the host's enumeration order.

The theorems are about `Sqfs.FsTree` (Sqfs/Model/FsTree.lean), the model of
dir_unix.c → dir_rec.c → dir_hl.c → dir_tree_iterator.c → glob.c:scan_directory → fstree.c → post_process.c.
`sorted = true` is the code in /repo (the native iterator collects the names of a directory and `qsort`s them with
`strcmp`, /repo 7ff9210); `sorted = false` is the iterator without that `qsort` call, for which the full statement is
false (Sqfs/Witness/C11.lean) — the theorems about that older code are a frozen record in Sqfs/Proofs/C11Pinned/.
-/
import Sqfs.Proofs.FsTreeSorted
import Sqfs.Proofs.FsTreeSortFile
import Sqfs.Proofs.FsTreeScanLinks

namespace Sqfs.C11
open Sqfs.FsTree

/-! ### fixtures for the instantiating examples: files `a`, `b`, `c` (= second name of `a`), `e`, a directory `d`,
an option set that keeps owner and mode, bare names -/

private def st (mode ino : Nat) : Stat := { mode := mode, uid := 0, gid := 0, mtime := 0, dev := 1, ino := ino, rdev := 0 }
private def fa : HNode := .mk [0x61] (st 0o100644 10) [] []
private def fb : HNode := .mk [0x62] (st 0o100644 11) [] []
private def fc : HNode := .mk [0x63] (st 0o100644 10) [] []           -- second name of `a`
private def fe : HNode := .mk [0x65] (st 0o100644 13) [] []
private def dd (c : List HNode) : HNode := .mk [0x64] (st 0o040755 12) [] c
private def wcfg : Cfg :=
  { flags := Consts.dirScanKeepUid ||| Consts.dirScanKeepGid ||| Consts.dirScanKeepMode, defUid := 0,
    defGid := 0, defMode := 0, defMtime := 0, pfx := [], filePrefix := none, pattern := none }
private def wd : Defaults := { uid := 0, gid := 0, mtime := 0, mode := 0o755 }
private def fe' : HNode := .mk [0x65] (st 0o100644 10) [] []
private def nm (n : Name) : HNode := .mk n default [] []

/-- `insert_sorted` (fstree.c): inserting nodes with pairwise different names into **any** child list gives the same
list whatever the order of insertion — for all lists, via `List.Perm`. -/
theorem insertSorted_perm {l₁ l₂ : List TNode} (hp : l₁.Perm l₂) (hnd : (l₁.map TNode.name).Nodup)
    (init : List TNode) :
    l₁.foldl (fun acc n => insertSorted n acc) init = l₂.foldl (fun acc n => insertSorted n acc) init :=
  foldl_insertBy_perm TNode.name hp hnd init

/-- instance: `c, a, b` and `a, b, c` inserted into a non-empty child list give the same list -/
example := insertSorted_perm (l₁ := [.mk [0x63] default [], .mk [0x61] default [], .mk [0x62] default []])
  (l₂ := [.mk [0x61] default [], .mk [0x62] default [], .mk [0x63] default []])
  ((List.Perm.swap _ _ _).trans (List.Perm.cons _ (List.Perm.swap _ _ _))) (by decide) [.mk [0x60] default []]

/-- `insert_sorted` keeps the children strictly sorted by `strcmp` and neither loses nor duplicates a node. -/
theorem insertSorted_sorted (n : TNode) (cs : List TNode) (hs : SortedNames (cs.map TNode.name))
    (hnew : ∀ c ∈ cs, c.name ≠ n.name) :
    SortedNames ((insertSorted n cs).map TNode.name) ∧ (insertSorted n cs).Perm (n :: cs) :=
  ⟨insertBy_sorted TNode.name n cs hs hnew, insertBy_perm TNode.name n cs⟩

/-- instance: `b` into the sorted list `a, c` -/
example := insertSorted_sorted (.mk [0x62] default []) [.mk [0x61] default [], .mk [0x63] default []] (by decide) (by decide)

/-! ### the native iterator (dir_unix.c): `compare_names`, `read_names` -/

/-- `compare_names` (= `strcmp` on the unsigned bytes of the two names) is a consistent strict total order — what ISO C
requires of a `qsort` comparison function for the result to be defined: antisymmetric, zero exactly on equal names,
transitive. -/
theorem compare_names_total_order (a b c : HNode) :
    (0 < compareNames a b ↔ compareNames b a < 0) ∧ (compareNames a b = 0 ↔ a.name = b.name) ∧
    (compareNames a b < 0 → compareNames b c < 0 → compareNames a c < 0) := by
  refine ⟨strcmpC_swap _ _, strcmpC_eq_zero_iff _ _, ?_⟩
  intro h1 h2
  exact (strcmpC_neg_iff _ _).mpr (nameLt_trans ((strcmpC_neg_iff _ _).mp h1) ((strcmpC_neg_iff _ _).mp h2))
example := compare_names_total_order (nm [0x61]) (nm [0x61, 0x80]) (nm [0x62])

/-- `strcmp` as modelled is the lexicographic order of the byte lists (core Lean's `<` on `List UInt8`, bytes compared
unsigned) -/
theorem strcmpC_neg_iff_lt (a b : Name) : strcmpC a b < 0 ↔ a < b := by
  induction a generalizing b with
  | nil => cases b <;> simp [strcmpC]
  | cons x xs ih =>
    cases b with
    | nil => simp [strcmpC]
    | cons y ys =>
      rw [List.cons_lt_cons_iff]
      by_cases hxy : x = y
      · subst hxy; simp [strcmpC, ih]
      · have hs : strcmpC (x :: xs) (y :: ys) = (x.toNat : Int) - (y.toNat : Int) := by simp [strcmpC, hxy]
        rw [hs, UInt8.lt_iff_toNat_lt]
        have hne : x.toNat ≠ y.toNat := fun h => hxy (UInt8.toNat_inj.mp h)
        simp only [hxy, false_and, or_false]
        omega

/-- **`compare_names` is the lexicographic order on unsigned bytes**, stated with core Lean's order on `List UInt8`
instead of the model's own `nameLt`: negative iff the first name is smaller, zero iff equal, positive iff larger.  This
is the order every layer above relies on (and the one the check's third oracle, Python's `bytes` order, implements). -/
theorem compare_names_is_lex (a b : HNode) :
    (compareNames a b < 0 ↔ a.name < b.name) ∧ (compareNames a b = 0 ↔ a.name = b.name) ∧
    (0 < compareNames a b ↔ b.name < a.name) := by
  refine ⟨strcmpC_neg_iff_lt _ _, strcmpC_eq_zero_iff _ _, ?_⟩
  unfold compareNames
  rw [strcmpC_swap, strcmpC_neg_iff_lt]
example := compare_names_is_lex (.mk [0x61, 0x80] default [] []) (.mk [0x61, 0x7f] default [] [])
example : compareNames (.mk [0x61, 0x80] default [] []) (.mk [0x61, 0x7f] default [] []) > 0 ∧
    ([0x61, 0x7f] : List UInt8) < [0x61, 0x80] := by decide

/-- `read_names` leaves `it->names` a permutation of what `readdir` returned, strictly ascending under
`compare_names` — for a stream of any length (no bound, no batches), names of any length. -/
theorem read_names_sorted (stream : List HNode) (hnd : (stream.map HNode.name).Nodup) :
    (readNames true stream).Perm stream ∧ (readNames true stream).Pairwise (fun a b => compareNames a b < 0) := by
  rw [readNames_true]
  refine ⟨sortByName_perm_self stream, ?_⟩
  have h := sortByName_sorted stream hnd
  unfold SortedNames at h
  rw [List.pairwise_map] at h
  exact h.imp (fun hab => (strcmpC_neg_iff _ _).mpr hab)
example := read_names_sorted [nm [0x63], nm [0x2e, 0x2e], nm [0x61, 0xff], nm [0x2e], nm [0x61]] (by decide)

/-- `read_names` serves the entries in strictly ascending lexicographic order of their names (core `<` on `List UInt8`). -/
theorem read_names_sorted_lex (stream : List HNode) (hnd : (stream.map HNode.name).Nodup) :
    (readNames true stream).Pairwise (fun a b => a.name < b.name) :=
  (read_names_sorted stream hnd).2.imp (fun h => (compare_names_is_lex _ _).1.mp h)
example := read_names_sorted_lex [nm [0x63], nm [0x2e, 0x2e], nm [0x61, 0xff], nm [0x2e], nm [0x61]] (by decide)

/-- The order `read_names` serves does not depend on the order in which `readdir` returned the entries. -/
theorem read_names_perm {s₁ s₂ : List HNode} (hp : s₁.Perm s₂) (hnd : (s₁.map HNode.name).Nodup) :
    readNames true s₁ = readNames true s₂ := by
  rw [readNames_true, readNames_true]
  exact sortByName_perm hp hnd

/-- instance: two `readdir` orders of one directory -/
example := read_names_perm (s₁ := [nm [0x63], nm [0x61], nm [0x62]]) (s₂ := [nm [0x61], nm [0x63], nm [0x62]])
  (List.Perm.swap _ _ _) (by decide)

/-- The model's choice of sorting algorithm is immaterial: **every** `qsort` that conforms to ISO C (returns a
permutation that is non-descending under the comparison function) leaves exactly the list the model computes. -/
theorem qsort_any_conforming (stream r : List HNode) (hnd : (stream.map HNode.name).Nodup) (hperm : r.Perm stream)
    (hsorted : r.Pairwise (fun a b => compareNames a b ≤ 0)) : r = readNames true stream := by
  rw [readNames_true]
  have hndr : (r.map HNode.name).Nodup := (hperm.map HNode.name).nodup_iff.mpr hnd
  have hr : r.Pairwise (fun a b => nameLt a.name b.name = true) := by
    have hne : r.Pairwise (fun a b => a.name ≠ b.name) := by
      rw [List.Nodup, List.pairwise_map] at hndr; exact hndr
    refine (hsorted.and hne).imp ?_
    rintro a b ⟨hle, hne⟩
    apply (strcmpC_neg_iff _ _).mp
    have : compareNames a b ≠ 0 := fun h0 => hne ((strcmpC_eq_zero_iff _ _).mp h0)
    simp only [compareNames] at hle this
    omega
  have hs : (sortByName stream).Pairwise (fun a b => nameLt a.name b.name = true) := by
    have h := sortByName_sorted stream hnd
    unfold SortedNames at h
    rwa [List.pairwise_map] at h
  exact sorted_perm_unique (hperm.trans (sortByName_perm_self stream).symm) hr hs

/-! ### the scan as a whole -/

/-- **Full statement.**  For two enumerations of one directory forest that differ by a permutation inside each
directory (`FPerm`, any depth, any number of entries, names of any length), the model of `gensquashfs --pack-dir` —
`read_names` with `compare_names` in every directory, the recursive iterator, the hard-link filter, the
`dir_tree_iterator` filters, `scan_directory` with `fstree_add_generic`, `fstree_post_process` — computes the same tree,
the same inode numbering and the same file list, for every forest (multiply-linked files included), every option set
(`-H`, `-o`, `-k`, forced ids, type masks, name patterns) and every `fnmatch`.
How the proof goes: `read_names` makes the enumeration that reaches the layers above a function of the *set* of entries
of each directory (`read_names_perm`, lifted to forests by `nativeOrder_sorted_fperm`); everything above is a function of
that enumeration. -/
theorem scan_perm_invariant {e₁ e₂ : List HNode} (h : FPerm e₁ e₂) (hwf : WFList e₁)
    (d : Defaults) (cfg : Cfg) (fnm : Fnm) (rootDev : Nat) :
    packDir true d cfg fnm rootDev e₁ = packDir true d cfg fnm rootDev e₂ := by
  unfold packDir scanInto
  rw [nativeOrder_sorted_fperm h hwf]

/-- The same for a `glob` line of a pack file: any tree built so far, any pending hard links, any target
directory (prefix), file prefix and filter options. -/
theorem scan_perm_invariant_glob {e₁ e₂ : List HNode} (h : FPerm e₁ e₂) (hwf : WFList e₁)
    (d : Defaults) (cfg : Cfg) (fnm : Fnm) (rootDev : Nat) (target : Path) (tree : TNode) (links : List Path) :
    globInto true d cfg fnm rootDev e₁ target tree links = globInto true d cfg fnm rootDev e₂ target tree links := by
  unfold globInto scanInto
  rw [nativeOrder_sorted_fperm h hwf]

/-- Data placement: the sequence in which `pack_files` hands the regular files (with their block-processor flags) to
the block processor — the file list, after `fstree_sort_files` when a sort file (`-S`) is given — is the same for both
enumerations, for every sort file. -/
theorem pack_order_invariant {e₁ e₂ : List HNode} (h : FPerm e₁ e₂) (hwf : WFList e₁)
    (d : Defaults) (cfg : Cfg) (fnm : Fnm) (rootDev : Nat) (sortfile : Option (List SortRule)) :
    packOrder true d cfg fnm rootDev e₁ sortfile = packOrder true d cfg fnm rootDev e₂ sortfile := by
  unfold packOrder
  rw [scan_perm_invariant h hwf]

/-- `fstree_sort_files` (gensquashfs `-S`) hands `pack_files` exactly the files of the file list (none lost, none twice), in
non-descending priority, and the files of one priority in the order they have in the file list (the sort is stable) —
whatever the sort file says and whatever `fnmatch` does.  Together with `pack_order_invariant`: the order of the file
data is fixed by file list + sort file. -/
theorem sort_files_perm_sorted_stable (fnm : Fnm) (rules : List SortRule) (files : List Path) :
    ((sortFiles fnm rules files).map (·.path)).Perm files ∧
      (sortFiles fnm rules files).Pairwise (fun a b => a.prio ≤ b.prio) ∧
      ∀ q : Int, List.Sublist (((sortFiles fnm rules files).filter (fun f => f.prio = q)).map (·.path)) files :=
  sortFiles_perm_sorted fnm rules files

/-- Inode numbers and the file list are functions of the (sorted) tree alone: `fstree_post_process` — hard-link
resolution with its link counts, `alloc_inode_num_dfs`, `reorder_hard_links`, `file_list_dfs` — gives the same result
for every order of the `links_unresolved` list, the one piece of state next to the tree that records the order in which
entries arrived.  Hypothesis `FlatLinks`: every pending link names an existing node that is neither a directory nor a
link itself.  `pack_dir_links_order_free` below discharges it for what a `--pack-dir` scan produces. -/
theorem numbering_deterministic {links₁ links₂ : List Path} (hp : links₁.Perm links₂) (tree : TNode)
    (hflat : FlatLinks tree links₁) : postProcess tree links₁ = postProcess tree links₂ :=
  postProcess_perm hp tree hflat

/-- `FlatLinks` discharged for the scan: whatever `gensquashfs --pack-dir` (no prefix, fresh tree) leaves in
`links_unresolved` — for every forest, every enumeration, every option set, with or without the `qsort` in the native
iterator — post-processing gives the same tree, inode numbers and file list for **every** order of that list.  (Every
pending link points at the path the hard-link filter recorded for the first name of the file; at that path there is the
node made from that first name, or — when `scan_directory` dropped that name because its parent directory is not in the
tree — nothing, in which case `fstree_post_process` fails for every order: `Sqfs.FsTree.scanInto_links`, `postProcess_perm'`.)  So the only way the readdir order can reach
inode numbers and file list is through the *tree* (which name of a file became the real one) — the part `read_names`
fixes. -/
theorem pack_dir_links_order_free {sorted : Bool} {d : Defaults} {cfg : Cfg} {fnm : Fnm} {rootDev : Nat} {e : List HNode}
    {t : TNode} {links links' : List Path} (hpfx : cfg.pfx = []) (hwf : WFList e)
    (h : scanInto sorted d cfg fnm rootDev e (initRoot d) [] = some (t, links)) (hp : links.Perm links') :
    postProcess t links = postProcess t links' :=
  postProcess_perm' hp t (scanInto_links hpfx hwf h)

/-- Whatever the enumeration order, the options and the iterator (pinned or repaired): the tree `--pack-dir` hands to
the serialiser has **every** directory strictly sorted by `strcmp` (so names are pairwise different and the order of
directory entries, of the DFS numbering and of the file list is fixed by the names alone). -/
theorem scan_tree_sorted (sorted : Bool) (d : Defaults) (cfg : Cfg) (fnm : Fnm) (rootDev : Nat) (e : List HNode)
    (r : Result) (h : packDir sorted d cfg fnm rootDev e = some r) : r.tree.AllSorted := by
  simp only [packDir] at h
  split at h
  · cases h
  · rename_i t links hs
    have ht := scanInto_allSorted (initRoot_allSorted d) hs
    simp only [postProcess] at h
    split at h
    · cases h
    · rename_i t2 hres
      split at h
      · cases h
      · cases h
        exact resolveHardLinks_allSorted _ _ _ _ ht hres

/-- instance: the un-sorted iterator on `c, b, a` -/
example : ∃ r, packDir false wd wcfg (fun _ _ _ => true) 1 [fc, fb, fa] = some r ∧ r.tree.AllSorted := by
  obtain ⟨r, h⟩ := Option.isSome_iff_exists.1
    (show (packDir false wd wcfg (fun _ _ _ => true) 1 [fc, fb, fa]).isSome = true by decide)
  exact ⟨r, h, scan_tree_sorted false wd wcfg (fun _ _ _ => true) 1 [fc, fb, fa] r h⟩

/-- … and a `glob` line keeps a sorted tree sorted. -/
theorem glob_tree_sorted (sorted : Bool) (d : Defaults) (cfg : Cfg) (fnm : Fnm) (rootDev : Nat) (e : List HNode)
    (target : Path) (tree : TNode) (links : List Path) (ht : tree.AllSorted) (t' : TNode) (l' : List Path)
    (h : globInto sorted d cfg fnm rootDev e target tree links = some (t', l')) : t'.AllSorted := by
  simp only [globInto] at h
  split at h
  · cases h
  · rename_i t1 hmk
    have h1 := (mkdirImplicit_allSorted d target tree t1 ht hmk).1
    split at h
    · cases h
    · split at h
      · cases h
      · exact scanInto_allSorted h1 h

/-- instance: a `glob` line with target `x` on the fresh tree, entries enumerated as `c, b, a` -/
example : ∃ t l, globInto true wd wcfg (fun _ _ _ => true) 1 [fc, fb, fa] [[0x78]] (initRoot wd) [] = some (t, l) ∧
    t.AllSorted := by
  obtain ⟨⟨t, l⟩, h⟩ := Option.isSome_iff_exists.1
    (show (globInto true wd wcfg (fun _ _ _ => true) 1 [fc, fb, fa] [[0x78]] (initRoot wd) []).isSome = true by decide +kernel)
  exact ⟨t, l, h, glob_tree_sorted true wd wcfg (fun _ _ _ => true) 1 [fc, fb, fa] [[0x78]] (initRoot wd) []
    (initRoot_allSorted wd) t l h⟩

/-! ### the hypotheses are satisfiable, the conclusion is not trivial -/


/-- `{a, b, c, d/{a, b}}` enumerated in two different orders (also inside `d`) -/
example : FPerm [fa, fb, fc, dd [fa, fb]] [dd [fb, fa], fc, fb, fa] := by
  have h1 : FPerm [fa, fb, fc, dd [fa, fb]] [fa, fb, dd [fa, fb], fc] :=
    FPerm.cons FPerm.nil (FPerm.cons FPerm.nil (FPerm.swap _ _ _))
  have h2 : FPerm [fa, fb, dd [fa, fb], fc] [fa, dd [fa, fb], fb, fc] := FPerm.cons FPerm.nil (FPerm.swap _ _ _)
  have h3 : FPerm [fa, dd [fa, fb], fb, fc] [dd [fa, fb], fa, fb, fc] := FPerm.swap _ _ _
  have h4 : FPerm [dd [fa, fb], fa, fb, fc] [dd [fb, fa], fa, fb, fc] := FPerm.cons (FPerm.swap _ _ _) (fperm_refl _)
  have h5 : FPerm [dd [fb, fa], fa, fb, fc] [dd [fb, fa], fc, fb, fa] :=
    FPerm.cons (fperm_refl _)
      (FPerm.trans (FPerm.swap _ _ _) (FPerm.trans (FPerm.cons FPerm.nil (FPerm.swap _ _ _)) (FPerm.swap _ _ _)))
  exact FPerm.trans h1 (FPerm.trans h2 (FPerm.trans h3 (FPerm.trans h4 h5)))

example : WFList [fa, fb, fc, dd [fa, fb]] := by
  simp [WFList, WFNode, HNode.name, fa, fb, fc, dd]

/-- `FlatLinks` holds of what the scan of `{a, b, c, e | a = c = e}` leaves behind: two pending links, both to `a` -/
private def wscan : TNode × List Path :=
  (scanInto true wd wcfg (fun _ _ _ => true) 1 [fa, fb, fc, fe'] (initRoot wd) []).getD (initRoot wd, [])

example : wscan.2 = [[[0x65]], [[0x63]]] := by decide
example : FlatLinks wscan.1 wscan.2 := by
  intro p hp
  have h2 : wscan.2 = [[[0x65]], [[0x63]]] := by decide
  rw [h2] at hp
  simp only [List.mem_cons, List.not_mem_nil, or_false] at hp
  rcases hp with rfl | rfl
  · exact ⟨[[0x61]], flatAt_of_flatAtB (by decide)⟩
  · exact ⟨[[0x61]], flatAt_of_flatAtB (by decide)⟩

/-- the hypotheses of `pack_dir_links_order_free` are satisfiable (the scan above: two pending links) … -/
example : wcfg.pfx = [] ∧ WFList [fa, fb, fc, fe'] ∧
    (scanInto true wd wcfg (fun _ _ _ => true) 1 [fa, fb, fc, fe'] (initRoot wd) []).isSome = true := by
  refine ⟨rfl, ?_, by decide⟩
  simp [WFList, WFNode, HNode.name, fa, fb, fc, fe']
/-- … and its "dangling" branch is real: with directories filtered out (`DIR_SCAN_NO_DIR`, recursion goes on) `d/a` passes
the filters and is remembered by the hard-link filter, but `scan_directory` drops it (its parent is not in the tree); the
second name `e` then points at nothing and post-processing fails (for every order) -/
example : (scanInto true wd { wcfg with flags := wcfg.flags ||| Consts.dirScanNoDir } (fun _ _ _ => true) 1 [dd [fa], fe']
        (initRoot wd) []).isSome = true ∧
    (packDir true wd { wcfg with flags := wcfg.flags ||| Consts.dirScanNoDir } (fun _ _ _ => true) 1 [dd [fa], fe']).isNone = true := by
  decide

/-- the scan of the witness forest succeeds (hypothesis of `scan_tree_sorted`), with either iterator -/
example : (packDir true wd wcfg (fun _ _ _ => true) 1 [fc, fb, fa]).isSome = true := by decide
example : (packDir false wd wcfg (fun _ _ _ => true) 1 [fc, fb, fa]).isSome = true := by decide

example : (insertSorted (.mk [0x62] default []) [.mk [0x61] default [], .mk [0x63] default []]).map TNode.name
    = [[0x61], [0x62], [0x63]] := by decide

/-- `compare_names` compares unsigned bytes (0x80 sorts behind 0x7f) and a proper prefix sorts first -/
example : compareNames (.mk [0x61, 0x80] default [] []) (.mk [0x61, 0x7f] default [] []) > 0 ∧
    compareNames (.mk [0x61] default [] []) (.mk [0x61, 0x01] default [] []) < 0 := by decide

/-- `read_names` on a stream with ".", ".." and three names in some order; its hypotheses are satisfiable -/
example : (readNames true [nm [0x63], nm [0x2e, 0x2e], nm [0x61, 0xff], nm [0x2e], nm [0x61]]).map HNode.name
    = [[0x2e], [0x2e, 0x2e], [0x61], [0x61, 0xff], [0x63]] := by decide
example : ([nm [0x63], nm [0x2e, 0x2e], nm [0x61, 0xff], nm [0x2e], nm [0x61]].map HNode.name).Nodup := by decide
/-- a conforming `qsort` result in the sense of `qsort_any_conforming` -/
example : [nm [0x61], nm [0x62]].Perm [nm [0x62], nm [0x61]] ∧
    [nm [0x61], nm [0x62]].Pairwise (fun a b => compareNames a b ≤ 0) := by
  refine ⟨List.Perm.swap _ _ _, ?_⟩
  simp only [List.pairwise_cons, List.mem_cons, List.not_mem_nil, or_false, forall_eq, List.Pairwise.nil, and_true,
    false_imp_iff, implies_true]
  decide

/-- `fstree_sort_files`: a literal line, a glob line, files of equal priority keep their order -/
example : (sortFiles (fun p s _ => p == s || p == [0x2a]) [⟨5, 4, false, false, [0x62]⟩, ⟨-1, 0, true, true, [0x2a]⟩]
    [[[0x61]], [[0x62]], [[0x63]]]).map (fun f => (f.path, f.prio, f.flags))
    = [([[0x61]], -1, 0), ([[0x63]], -1, 0), ([[0x62]], 5, 4)] := by decide

end Sqfs.C11
