/-
C06 — unpacking any image writes only inside the chosen unpack directory.

Property theorems only (helpers: `Sqfs/Proofs/Unpack.lean`; model: `Sqfs/Model/Unpack.lean`; specification:
`Sqfs/Spec/Unpack.lean`).  Everything is quantified over *all* trees `t` (arbitrary byte strings as names and
symlink targets, arbitrary order and repetition, arbitrary nesting), all option sets `fl`, every order `ord` the
file list may be filled in, every unpack root `R` and every initial file system `fs₀` in which `R` is fresh.
-/
import Sqfs.Proofs.UnpackComplete
import Sqfs.Proofs.UnpackWeak
import Sqfs.Proofs.UnpackDup
import Sqfs.Proofs.UnpackRepaired
namespace Sqfs.C06
open Sqfs.Path Sqfs.Unpack

/-- `tree_sort` succeeds only if, below every node, the children's names — compared as the C strings the unpacker
    will use — are pairwise distinct.  (A symlink and a directory/file of one name can therefore not both be unpacked.) -/
theorem treeSort_names_distinct (t t' : TNode) (h : treeSort t = .ok t') : NodupH t' :=
  treeSort_nodup t t' h

/-- **NUL-cut names are duplicates for `tree_sort`.**  Take any raw directory of an image (any name, any attributes, any
    other entries `l₁`, `l₂`, `l₃` around them) with two entries `x`, `y` that `fill_dir` keeps (`Kept`: not dropped by
    `-D -S -F -L`, not an empty directory under `-E`) and whose raw names have the same bytes before their first NUL —
    `a\0x` and `a\0y`, or `a` and `a\0…`: `tree_sort` on the tree the unpacker works with fails with "duplicate", so
    nothing is unpacked (`unpackTree_dup`).  (`create_node` copies the name with `strcpy`, so the two entries *are* the
    same C string; `treeSort_names_distinct` is the converse direction.) -/
theorem nul_cut_names_are_duplicates (tf : TreeFlags) (n p : Bytes) (a : Attr) (l₁ l₂ l₃ : List TNode) (x y : TNode)
    (hx : Kept tf x) (hy : Kept tf y) (h : cstr x.name = cstr y.name) :
    treeSort (decode tf (.mk n .dir p a (l₁ ++ x :: (l₂ ++ y :: l₃)))) = .error .duplicate := by
  simp only [decode, if_true]
  exact treeSort_dup_level _ _ _ _ _ (decodeL_dup tf l₁ l₂ l₃ x y hx hy h)

/-- instance: a file `a\0x` and a symbolic link `a\0y` with a directory in between, nothing pruned — refused; and with
    `-L` (symbolic links dropped) the hypothesis `Kept` fails for the link and the same tree *is* sorted -/
example : treeSort (decode {} (.mk [] .dir [] {} ([] ++ .mk [97, 0, 120] .reg [1] {} [] :: ([.mk [98] .dir [] {} []] ++
      .mk [97, 0, 121] .lnk [120] {} [] :: [])))) = .error .duplicate :=
  nul_cut_names_are_duplicates {} [] [] {} [] [.mk [98] .dir [] {} []] [] (.mk [97, 0, 120] .reg [1] {} [])
    (.mk [97, 0, 121] .lnk [120] {} []) (by decide) (by decide) (by decide)
example : ¬ Kept { noSlink := true } (.mk [97, 0, 121] .lnk [120] {} []) ∧
    (treeSort (decode { noSlink := true } (.mk [] .dir [] {} [.mk [97, 0, 120] .reg [1] {} [], .mk [98] .dir [] {} [],
      .mk [97, 0, 121] .lnk [120] {} []]))).toOption.isSome = true := by decide

/-- **Clean paths.** Every path argument in the plan is the '/'-join of components each of which is non-empty,
    passes `is_filename_sane` (is not "." or "..", contains no '/').  (The list of components is empty — the path is
    "" and every call on it fails with ENOENT — only for a non-directory root inode.) -/
theorem plan_paths_clean (ord : List FileEnt → List FileEnt) (hord : OrdOK ord) (fl : Flags) (t : TNode) :
    ∀ sc ∈ (unpackTree ord fl t).syscalls,
      ∃ comps : List Bytes, sc.path = joinSlash comps ∧ ∀ c ∈ comps, c ≠ [] ∧ isFilenameSane c = true := by
  intro sc hsc
  cases hs : treeSort t with
  | error e => rw [unpackTree_dup ord fl t e hs] at hsc; simp at hsc
  | ok t' =>
    obtain ⟨comps, _, _, hg, hp, _⟩ := unpackTree_ops ord hord fl t t' hs sc hsc
    refine ⟨comps, hp, fun c hc => ?_⟩
    obtain ⟨h1, h2, h3, h4⟩ := hg c hc
    exact ⟨h1, (Sqfs.C18.sane_iff c).2 ⟨h3, h4, h2⟩⟩

/-- **Prefixes are directories made earlier by the same plan.**  Take any call of the plan, at any position
    (`l₁` = the events before it).  Its path is the join of good components `c`, and for every proper non-empty prefix
    `pre` of `c`: (1) a `mkdir` of `pre` occurs in `l₁`, i.e. *earlier*; (2) every creating call (`mkdir`, `symlink`,
    `mknod`, `open(O_CREAT|O_EXCL)`) anywhere in the plan whose path is `pre` is a `mkdir` — nothing in the plan puts a
    non-directory at a prefix.  (From sortedness + duplicate rejection in `tree_sort`, names being the NUL-cut C strings.) -/
theorem plan_prefix_dirs (ord : List FileEnt → List FileEnt) (hord : OrdOK ord) (fl : Flags) (t : TNode)
    (l₁ : List Ev) (sc : Syscall) (l₂ : List Ev) (h : (unpackTree ord fl t).evs = l₁ ++ Ev.sys sc :: l₂) :
    ∃ c, sc.path = joinSlash c ∧ ∀ pre, pre <+: c → pre ≠ [] → pre ≠ c →
      (∃ m, Ev.sys (.mkdir (joinSlash pre) m) ∈ l₁) ∧
      (∀ sc' ∈ (unpackTree ord fl t).syscalls, sc'.isCreate = true → sc'.path = joinSlash pre →
        ∃ m, sc' = .mkdir (joinSlash pre) m) := by
  cases hs : treeSort t with
  | error e =>
    have : (unpackTree ord fl t).evs = [] := by unfold unpackTree; rw [hs]
    rw [this] at h
    cases l₁ <;> simp at h
  | ok t' =>
    obtain ⟨c, hpath, hg, hord'⟩ := unpackTree_ordered ord hord fl t t' hs l₁ sc l₂ h
    refine ⟨c, hpath, fun pre hp1 hp2 hp3 => ⟨hord' pre hp1 hp2 hp3, ?_⟩⟩
    intro sc' hsc' hcr hp'
    obtain ⟨c₀, k₀, hm₀, hg₀, hpath₀, _⟩ := unpackTree_ops ord hord fl t t' hs sc (by rw [Out.mem_syscalls, h]; simp)
    have e0 : c₀ = c := joinSlash_inj hg₀ hg (hpath₀.symm.trans hpath)
    subst e0
    have hd := visitRoot_prefix t' c₀ k₀ pre hm₀ hp1 hp2 hp3
    obtain ⟨c', k', hm', hg', hpath', hc'⟩ := unpackTree_ops ord hord fl t t' hs sc' hsc'
    have e1 : c' = pre := joinSlash_inj hg' (hg.prefix hp1) (hpath'.symm.trans hp')
    subst e1
    have e2 : k' = .dir := visitRoot_fun (treeSort_nodup t t' hs) c' k' .dir hm' hd
    subst e2
    obtain ⟨m, hm⟩ := create_dir_is_mkdir hcr hc'
    exact ⟨m, by rw [hm, hp']⟩

/-- **Resolution stays under R.** In any file system, a clean relative path (non-empty, good components) whose
    proper prefixes below `R` are directories or absent, handled no-follow — or whose last component is not a symlink —
    either fails to resolve or resolves to exactly `R ++ comps`: no symlink is read on the way. -/
theorem resolve_stays_under_R (fs : Fs) (R : PathC) (comps : List Bytes) (followLast : Bool)
    (hgood : ∀ c ∈ comps, c ≠ [] ∧ SL ∉ c ∧ c ≠ [DOT] ∧ c ≠ [DOT, DOT])
    (hpre : ∀ pre, pre <+: comps → pre ≠ [] → pre ≠ comps →
      fs (R ++ pre) = none ∨ ∃ a, fs (R ++ pre) = some ⟨.dir, a⟩)
    (hlast : followLast = false ∨ ∀ tgt a, fs (R ++ comps) ≠ some ⟨.symlink tgt, a⟩) :
    (∃ e, resolve fs R (joinSlash comps) followLast = .error e) ∨
      (comps ≠ [] ∧ resolve fs R (joinSlash comps) followLast = .ok (R ++ comps, fs (R ++ comps))) :=
  resolve_good fs R comps followLast hgood hpre hlast

/-- instance (all hypotheses discharged): `/R` and `/R/b` are directories, nothing else exists; the clean path `b/a`, handled
    no-follow from `/R`, resolves to `/R/b/a` (absent) — or fails — and nowhere else -/
example :
    let fs : Fs := fun q => if q = [] ∨ q = [[82]] ∨ q = [[82], [98]] then some ⟨.dir, {}⟩ else none
    (∃ e, resolve fs [[82]] (joinSlash [[98], [97]]) false = .error e) ∨
      (([[98], [97]] : List Bytes) ≠ [] ∧
        resolve fs [[82]] (joinSlash [[98], [97]]) false = .ok ([[82]] ++ [[98], [97]], fs ([[82]] ++ [[98], [97]]))) := by
  intro fs
  refine resolve_stays_under_R fs [[82]] [[98], [97]] false (by decide) ?_ (Or.inl rfl)
  intro pre hp hne hne2
  right
  have : pre = [[98]] := by
    rcases pre with _ | ⟨a, _ | ⟨b, t⟩⟩
    · exact absurd rfl hne
    · have := hp; simp [List.cons_prefix_cons] at this; simp [this]
    · exfalso
      have h := hp
      simp only [List.cons_prefix_cons] at h
      obtain ⟨rfl, rfl, h3⟩ := h
      have : t = [] := List.eq_nil_of_prefix_nil h3
      subst this; exact hne2 rfl
  subst this
  exact ⟨{}, rfl⟩

/-- **Confinement.** For every tree, every option set and every fill order: executing the plan with working
    directory `R`, from any file system in which `R` is fresh, leaves everything that is not strictly below `R`
    exactly as it was (objects, kinds, contents, owners, modes, times, xattrs — including `R`'s own node). -/
theorem confinement (ord : List FileEnt → List FileEnt) (hord : OrdOK ord) (fl : Flags) (t : TNode) (R : PathC)
    (fs₀ : Fs) (hfresh : Fresh fs₀ R) :
    outside R (exec R fs₀ (unpackTree ord fl t).syscalls) = outside R fs₀ := by
  cases hs : treeSort t with
  | error e => rw [unpackTree_dup ord fl t e hs]; rfl
  | ok t' =>
    have hf := visitRoot_fun (treeSort_nodup t t' hs)
    have hp := visitRoot_prefix t'
    exact (Inv.exec hf hp _ fs₀ (Inv.fresh hfresh) (unpackTree_ops ord hord fl t t' hs)).outside_eq

/-- the same for the plan of a raw image tree (names cut at NUL, `-D -S -F -L -E` pruning, `--unpack-path` already applied) -/
theorem confinement_raw (raw : TNode) (fl : Flags) (tf : TreeFlags) (R : PathC) (fs₀ : Fs) (hfresh : Fresh fs₀ R) :
    Confined R fs₀ (unpackPlan raw fl tf).syscalls :=
  confinement id (fun _ _ h => h) fl (decode tf raw) R fs₀ hfresh

/-- **Inside R only tree nodes appear, as objects of their own kind**: after the run, whatever exists strictly
    below `R` sits at the path of a visited tree node and is a directory / regular file / symlink / block device /
    character device / fifo / socket exactly according to that node's inode type (`kindMatch` relates each of the seven
    kinds to its own sort of object only; so e.g. nothing is ever written *through* an unpacked symlink). -/
theorem below_R_only_tree_nodes (ord : List FileEnt → List FileEnt) (hord : OrdOK ord) (fl : Flags) (t t' : TNode)
    (hs : treeSort t = .ok t') (R : PathC) (fs₀ : Fs) (hfresh : Fresh fs₀ R) (comps : List Bytes) (hne : comps ≠ []) :
    let fs := exec R fs₀ (unpackTree ord fl t).syscalls
    fs (R ++ comps) = none ∨ ∃ n k, fs (R ++ comps) = some n ∧ (comps, k) ∈ visitRoot t' ∧ kindMatch n.kind k = true :=
  (Inv.exec (visitRoot_fun (treeSort_nodup t t' hs)) (visitRoot_prefix t') _ fs₀ (Inv.fresh hfresh)
    (unpackTree_ops ord hord fl t t' hs)).inn comps hne

/-- **Skipped entries are reported; everything else is unpacked or the tool fails.**  If the create walk
    (`restore_fstree`) does not fail, then (1) every entry it refuses — insane name, directly below the root or a
    visited directory — has its "Found an entry named '…', skipping." event, and (2) every other reachable node
    `(c, k)` has its creating call (of the sort that fits `k`) on the clean path of `c` in the plan. -/
theorem skipped_reported_rest_unpacked (fl : Flags) (t : TNode) (h : (restoreFstree fl t).err = none) :
    (∀ n ∈ skippedRoot t, Ev.skip n ∈ (restoreFstree fl t).evs) ∧
    (∀ c k, (c, k) ∈ visitRoot t → ∃ sc, Ev.sys sc ∈ (restoreFstree fl t).evs ∧ sc.path = joinSlash c ∧
        Compat sc k ∧ sc.isCreate = true) :=
  ⟨(restoreFstree_complete fl t h).2, (restoreFstree_complete fl t h).1⟩

/-- `canonicalize_name` never fails on what `sqfs_tree_node_get_path` returns (the `assert(ret == 0)` in
    restore_fstree.c cannot fire, add_file's "Invalid file path" is dead) -/
theorem get_path_then_canonicalize_never_fails (rn : Bytes) (comps : List Bytes) :
    pathOf rn comps ≠ .error .canonFail :=
  pathOf_ne_canonFail rn comps

/-- Behind an `is_filename_sane` gate, the '/', "." and ".." tests of `sqfs_tree_node_get_path` never decide
    anything: for a sane name the only live test is the one for the empty name.  (This is why removing those tests
    alone is an equivalent mutant for the unpacker; the check reports it only together with a missing gate.) -/
theorem get_path_tests_redundant_behind_gate (c : Bytes) (h : isFilenameSane c = true) :
    badComp c = true ↔ c = [] := by
  obtain ⟨h1, h2, h3⟩ := (Sqfs.C18.sane_iff c).1 h
  constructor
  · intro hb
    by_cases hc : c = []
    · exact hc
    · exact absurd ((badComp_false_iff c).2 ⟨hc, h3, h1, h2⟩) (by simp [hb])
  · intro hc; subst hc; rfl

/-! ### the whole `OP_UNPACK` branch: `mkdir_p(R)`, `chdir(R)`, calls that fail -/

/-- **Confinement whatever fails.**  Like `confinement`, with any of the calls failing for reasons of the environment
    (`flt`: EPERM/EACCES of an unprivileged user, ENOSPC, EIO, … at any position): a failing call ends the run (or is a
    tolerated `mkdir`/`EEXIST`), and everything that is not strictly below `R` is still exactly as it was. -/
theorem confinement_under_faults (ord : List FileEnt → List FileEnt) (hord : OrdOK ord) (fl : Flags) (t : TNode) (R : PathC)
    (fs₀ : Fs) (hfresh : Fresh fs₀ R) : ConfinedF R fs₀ (unpackTree ord fl t).syscalls := by
  intro flt i
  cases hs : treeSort t with
  | error e => rw [unpackTree_dup ord fl t e hs]; rfl
  | ok t' =>
    exact (Inv.run (visitRoot_fun (treeSort_nodup t t' hs)) (visitRoot_prefix t') flt _ i fs₀ (Inv.fresh hfresh)
      (unpackTree_ops ord hord fl t t' hs)).outside_eq

/-- **`main`, end to end.**  For every tree, option set, fill order, `--unpack-root` argument (or none), initial working
    directory and file system, and whatever calls fail: (1) when the walks start, the file system is the initial one plus
    new empty directories — those `mkdir_p` made; (2) if the directory the process then stands in (`chdir(R)` resolved,
    symbolic links followed) is fresh, the rest of the run leaves everything not strictly below it unchanged. -/
theorem main_confinement (ord : List FileEnt → List FileEnt) (hord : OrdOK ord) (fl : Flags) (t : TNode) (root : Option Bytes)
    (flt : Faults) (cwd₀ : PathC) (fs₀ : Fs) :
    OnlyNewDirs fs₀ (unpackMain ord fl t root flt cwd₀ fs₀).fsEst ∧
    (Fresh (unpackMain ord fl t root flt cwd₀ fs₀).fsEst (unpackMain ord fl t root flt cwd₀ fs₀).cwd →
      outside (unpackMain ord fl t root flt cwd₀ fs₀).cwd (unpackMain ord fl t root flt cwd₀ fs₀).fs =
        outside (unpackMain ord fl t root flt cwd₀ fs₀).cwd (unpackMain ord fl t root flt cwd₀ fs₀).fsEst) := by
  refine ⟨main_fsEst_onlyNewDirs ord fl t root flt cwd₀ fs₀, fun hfresh => ?_⟩
  cases he : (unpackMain ord fl t root flt cwd₀ fs₀).established with
  | false => rw [(main_not_established ord fl t root flt cwd₀ fs₀ he).2.2]
  | true =>
    obtain ⟨t', i, hs, hfs, _⟩ := main_established ord fl t root flt cwd₀ fs₀ he
    rw [hfs, ← unpackTree_eq ord fl hs]
    exact confinement_under_faults ord hord fl t _ _ hfresh flt i

/-- **If establishing R fails nothing is unpacked.**  When `tree_sort`, `mkdir_p(R)` or `chdir(R)` fails, no call of any
    walk is made, the exit status is `EXIT_FAILURE`, and the file system is the initial one plus, at most, new empty
    directories made by `mkdir_p` before it failed. -/
theorem root_not_established_nothing_unpacked (ord : List FileEnt → List FileEnt) (fl : Flags) (t : TNode) (root : Option Bytes)
    (flt : Faults) (cwd₀ : PathC) (fs₀ : Fs) (h : (unpackMain ord fl t root flt cwd₀ fs₀).established = false) :
    (unpackMain ord fl t root flt cwd₀ fs₀).trace = [] ∧ (unpackMain ord fl t root flt cwd₀ fs₀).exit = 1 ∧
    OnlyNewDirs fs₀ (unpackMain ord fl t root flt cwd₀ fs₀).fs := by
  obtain ⟨h1, h2, h3⟩ := main_not_established ord fl t root flt cwd₀ fs₀ h
  exact ⟨h1, h2, h3 ▸ main_fsEst_onlyNewDirs ord fl t root flt cwd₀ fs₀⟩

/-- … and **nothing is written anywhere** when R was there already but cannot be entered (R is a regular file, a dangling
    symbolic link, a directory the user may not enter, …): every `mkdir` of `mkdir_p` answered with an error (`EEXIST`),
    `chdir` failed — the file system is exactly the initial one, no call of a walk is made, `EXIT_FAILURE`.
    (rdsquashfs.c: the `goto out` after `perror(opt.unpack_root)`.) -/
theorem failed_chdir_writes_nothing (ord : List FileEnt → List FileEnt) (fl : Flags) (t : TNode) (R : Bytes)
    (flt : Faults) (cwd₀ : PathC) (fs₀ : Fs) (e : Errno)
    (hc : (unpackMain ord fl t (some R) flt cwd₀ fs₀).chdirRes = some (some e))
    (hpre : ∀ x ∈ (unpackMain ord fl t (some R) flt cwd₀ fs₀).pre, x.2 ≠ none) :
    (unpackMain ord fl t (some R) flt cwd₀ fs₀).fs = fs₀ ∧ (unpackMain ord fl t (some R) flt cwd₀ fs₀).trace = [] ∧
    (unpackMain ord fl t (some R) flt cwd₀ fs₀).exit = 1 := by
  cases hs : treeSort t with
  | error er => rw [unpackMain_dup hs] at hc; cases hc
  | ok t' =>
    cases hm : (mkdirP flt cwd₀ fs₀ R).failed with
    | true => rw [unpackMain_mkdir_fail hs hm] at hc; cases hc
    | false =>
      cases hcd : chdirF (flt (mkdirPCuts R).length) (mkdirP flt cwd₀ fs₀ R).fs cwd₀ R with
      | ok c => rw [unpackMain_ok hs hm hcd] at hc; cases hc
      | error e' =>
        rw [unpackMain_chdir_fail hs hm hcd] at hpre ⊢
        exact ⟨run_no_success_fs flt cwd₀ _ 0 fs₀ hpre, rfl, rfl⟩

/-- **A failing step ends the run with a non-zero exit status.**  A call of a walk that neither succeeds nor is a tolerated
    `mkdir`/`EEXIST` is the last call the tool makes, and the exit status is `EXIT_FAILURE`.  (That nothing outside R was
    touched up to there is `main_confinement`, which holds for every run.) -/
theorem failing_step_ends_run (ord : List FileEnt → List FileEnt) (fl : Flags) (t : TNode) (root : Option Bytes)
    (flt : Faults) (cwd₀ : PathC) (fs₀ : Fs) (x : Syscall × Option Errno)
    (hx : x ∈ (unpackMain ord fl t root flt cwd₀ fs₀).trace) (hbad : ¬ Fine x) :
    (unpackMain ord fl t root flt cwd₀ fs₀).exit = 1 ∧ ∃ pre, (unpackMain ord fl t root flt cwd₀ fs₀).trace = pre ++ [x] := by
  cases he : (unpackMain ord fl t root flt cwd₀ fs₀).established with
  | false => rw [(main_not_established ord fl t root flt cwd₀ fs₀ he).1] at hx; cases hx
  | true =>
    obtain ⟨t', i, _, _, htr, hex, _⟩ := main_established ord fl t root flt cwd₀ fs₀ he
    rw [htr] at hx ⊢
    obtain ⟨hf, hlast⟩ := run_bad_is_last flt _ _ i _ x hx hbad
    exact ⟨by rw [hex, hf]; rfl, hlast⟩

/-- the same for `mkdir_p`: a `mkdir` failing with anything but `EEXIST` is the last call of the whole run -/
theorem failing_mkdir_p_ends_run (ord : List FileEnt → List FileEnt) (fl : Flags) (t : TNode) (R : Bytes)
    (flt : Faults) (cwd₀ : PathC) (fs₀ : Fs) (x : Syscall × Option Errno)
    (hx : x ∈ (unpackMain ord fl t (some R) flt cwd₀ fs₀).pre) (hbad : ¬ Fine x) :
    (unpackMain ord fl t (some R) flt cwd₀ fs₀).exit = 1 ∧ (unpackMain ord fl t (some R) flt cwd₀ fs₀).chdirRes = none ∧
    (unpackMain ord fl t (some R) flt cwd₀ fs₀).trace = [] ∧ ∃ pre, (unpackMain ord fl t (some R) flt cwd₀ fs₀).pre = pre ++ [x] := by
  cases hs : treeSort t with
  | error er => rw [unpackMain_dup hs] at hx; cases hx
  | ok t' =>
    rw [(main_pre ord fl t t' R flt cwd₀ fs₀ hs).1] at hx
    obtain ⟨hf, hlast⟩ := run_bad_is_last flt _ _ 0 _ x hx hbad
    rw [unpackMain_mkdir_fail hs hf]
    exact ⟨rfl, rfl, rfl, hlast⟩

/-- instance (all hypotheses discharged): `-p R` with `/R` absent and the very first call, `mkdir("R")`, refused with `EACCES`
    (call number 0): it is in `pre`, it is not `Fine`, so it is the last call — no `chdir`, no walk, `EXIT_FAILURE` -/
example :
    let fs : Fs := fun q => if q = [] then some ⟨.dir, {}⟩ else none
    let t : TNode := .mk [] .dir [] {} [.mk [98] .dir [] {} [.mk [97] .reg [2] {} []], .mk [97] .lnk [DOT, DOT, SL, 120] {} []]
    let flt : Faults := fun i => if i = 0 then some .EACCES else none
    (unpackMain id {} t (some [82]) flt [] fs).exit = 1 ∧ (unpackMain id {} t (some [82]) flt [] fs).chdirRes = none ∧
    (unpackMain id {} t (some [82]) flt [] fs).trace = [] ∧
    ∃ pre, (unpackMain id {} t (some [82]) flt [] fs).pre = pre ++ [(.mkdir [82] 0o755, some .EACCES)] := by
  intro fs t flt
  refine failing_mkdir_p_ends_run id {} t [82] flt [] fs (.mkdir [82] 0o755, some .EACCES) (by decide) ?_
  intro h
  rcases h with h | ⟨e, h1, h2⟩
  · cases h
  · cases h1; revert h2; decide

/-- **Exit status 0 means the whole image was unpacked** (second half of "the rest of the image is still unpacked or the
    tool fails"): if `main` returns `EXIT_SUCCESS` then the walks were reached, the plan had no error of its own, *every*
    call of the plan was made and succeeded (or was a tolerated `mkdir`/`EEXIST`), and for every node the walks reach — every
    node of the sorted tree not hidden below an entry with an insane name — the creating call, for a regular file the
    `open(O_TRUNC)` that writes its *whole* content, and each of its `lsetxattr`/`utimensat`/`fchownat`/`fchmodat` calls are
    among them.  The skip reports are exactly the refused entries, once per reporting walk (create, file list), in walk order. -/
theorem success_means_everything_unpacked (ord : List FileEnt → List FileEnt) (hall : OrdAll ord) (fl : Flags) (t : TNode)
    (hsane : isFilenameSane t.name = true) (root : Option Bytes) (flt : Faults) (cwd₀ : PathC) (fs₀ : Fs)
    (h : (unpackMain ord fl t root flt cwd₀ fs₀).exit = 0) :
    ∃ t', treeSort t = .ok t' ∧ (planSorted ord fl t').err = none ∧
      (unpackMain ord fl t root flt cwd₀ fs₀).trace.map Prod.fst = (planSorted ord fl t').syscalls ∧
      (∀ x ∈ (unpackMain ord fl t root flt cwd₀ fs₀).trace, Fine x) ∧
      (∀ c n, (c, n) ∈ visitNRoot t' →
        createNode n.kind (joinSlash c) n.payload n.attr fl ∈ (unpackMain ord fl t root flt cwd₀ fs₀).trace.map Prod.fst ∧
        (n.kind = .reg → Syscall.openTrunc (joinSlash c) n.payload ∈ (unpackMain ord fl t root flt cwd₀ fs₀).trace.map Prod.fst) ∧
        (∀ sc, Ev.sys sc ∈ (attrOps fl n.kind (joinSlash c) n.attr).evs →
          sc ∈ (unpackMain ord fl t root flt cwd₀ fs₀).trace.map Prod.fst)) ∧
      (planSorted ord fl t').skips = skippedRoot t' ++ skippedRoot t' := by
  cases he : (unpackMain ord fl t root flt cwd₀ fs₀).established with
  | false => rw [(main_not_established ord fl t root flt cwd₀ fs₀ he).2.1] at h; cases h
  | true =>
    obtain ⟨t', i, hs, _, htr, hex, _⟩ := main_established ord fl t root flt cwd₀ fs₀ he
    rw [hex] at h
    have hok : (run flt (unpackMain ord fl t root flt cwd₀ fs₀).cwd i (unpackMain ord fl t root flt cwd₀ fs₀).fsEst
        (planSorted ord fl t').syscalls).failed = false ∧ (planSorted ord fl t').err = none := by
      cases hf : (run flt (unpackMain ord fl t root flt cwd₀ fs₀).cwd i (unpackMain ord fl t root flt cwd₀ fs₀).fsEst
          (planSorted ord fl t').syscalls).failed with
      | true => rw [hf] at h; simp at h
      | false =>
        cases hpe : (planSorted ord fl t').err with
        | none => exact ⟨rfl, rfl⟩
        | some er => rw [hf, hpe] at h; simp at h
    obtain ⟨hmap, hfine⟩ := (run_spec flt _ _ i _).1 hok.1
    have hn' : isFilenameSane t'.name = true := by rw [treeSort_name t t' hs]; exact hsane
    obtain ⟨hnodes, hskips⟩ := planSorted_complete ord hall fl t' hn' hok.2
    rw [htr]
    refine ⟨t', hs, hok.2, hmap, hfine, ?_, hskips⟩
    intro c n hm
    obtain ⟨_, hcr, hreg, _, hattr⟩ := hnodes c n hm
    rw [hmap]
    refine ⟨Out.mem_syscalls.2 hcr, fun hr => Out.mem_syscalls.2 (hreg hr).2, fun sc hsc => Out.mem_syscalls.2 (hattr _ hsc)⟩

/-- conversely, the plan's own errors and failing calls are the only ways to `EXIT_FAILURE` once the walks are reached:
    if no walk has an error of its own and every call made is fine, the exit status is `EXIT_SUCCESS` -/
theorem exit_zero_of_all_fine (ord : List FileEnt → List FileEnt) (fl : Flags) (t t' : TNode) (root : Option Bytes)
    (flt : Faults) (cwd₀ : PathC) (fs₀ : Fs) (hs : treeSort t = .ok t')
    (he : (unpackMain ord fl t root flt cwd₀ fs₀).established = true) (hp : (planSorted ord fl t').err = none)
    (hfine : ∀ x ∈ (unpackMain ord fl t root flt cwd₀ fs₀).trace, Fine x) :
    (unpackMain ord fl t root flt cwd₀ fs₀).exit = 0 := by
  obtain ⟨t'', i, hs', _, htr, hex, _⟩ := main_established ord fl t root flt cwd₀ fs₀ he
  have : t'' = t' := by rw [hs] at hs'; cases hs'; rfl
  subst this
  rw [hex, hp]
  rw [htr] at hfine
  cases hf : (run flt (unpackMain ord fl t root flt cwd₀ fs₀).cwd i (unpackMain ord fl t root flt cwd₀ fs₀).fsEst
      (planSorted ord fl t'').syscalls).failed with
  | false => rfl
  | true =>
    obtain ⟨pre, sc, e, post, ha, hb, _, _⟩ := (run_spec flt _ _ i _).2 hf
    have := hfine (sc, some e) (by rw [ha]; simp)
    rcases this with h0 | ⟨e', h1, h2⟩
    · cases h0
    · cases h1; rw [hb] at h2; cases h2

/-- every refused entry is reported exactly once by the create walk, in walk order (multiplicity, not only membership) -/
theorem skip_reports_exact (fl : Flags) (t : TNode) (h : (restoreFstree fl t).err = none) :
    (restoreFstree fl t).skips = skippedRoot t :=
  (restoreFstreeN_complete fl t h).2

/-! ### confinement from a weaker hypothesis on R; the modelled fill order -/

/-- **Confinement without freshness.**  The unpack root may hold anything — files, directories, devices, sockets, e.g. what
    an earlier run left — as long as no *symbolic link* sits strictly below it: then, whatever fails, the run leaves
    everything that is not strictly below `R` unchanged.  (`Fresh fs₀ R` implies `NoLinkBelow fs₀ R`;
    `Witness.C06.prepopulated_symlink_escapes` shows that this hypothesis cannot be dropped.) -/
theorem confinement_without_symlinks_below (ord : List FileEnt → List FileEnt) (hord : OrdOK ord) (fl : Flags) (t : TNode)
    (R : PathC) (fs₀ : Fs) (h : NoLinkBelow fs₀ R) : ConfinedF R fs₀ (unpackTree ord fl t).syscalls := by
  intro flt i
  cases hs : treeSort t with
  | error e => rw [unpackTree_dup ord fl t e hs]; rfl
  | ok t' =>
    exact (InvW.run (visitRoot_fun (treeSort_nodup t t' hs)) (visitRoot_prefix t') flt _ i fs₀ (InvW.start h)
      (unpackTree_ops ord hord fl t t' hs)).outside_eq

/-- `main`, end to end, from the weaker hypothesis: if the directory the process stands in after `chdir(R)` has no symbolic
    link below it, the rest of the run changes nothing that is not strictly below it -/
theorem main_confinement_weak (ord : List FileEnt → List FileEnt) (hord : OrdOK ord) (fl : Flags) (t : TNode) (root : Option Bytes)
    (flt : Faults) (cwd₀ : PathC) (fs₀ : Fs)
    (h : NoLinkBelow (unpackMain ord fl t root flt cwd₀ fs₀).fsEst (unpackMain ord fl t root flt cwd₀ fs₀).cwd) :
    outside (unpackMain ord fl t root flt cwd₀ fs₀).cwd (unpackMain ord fl t root flt cwd₀ fs₀).fs =
      outside (unpackMain ord fl t root flt cwd₀ fs₀).cwd (unpackMain ord fl t root flt cwd₀ fs₀).fsEst := by
  cases he : (unpackMain ord fl t root flt cwd₀ fs₀).established with
  | false => rw [(main_not_established ord fl t root flt cwd₀ fs₀ he).2.2]
  | true =>
    obtain ⟨t', i, hs, hfs, _⟩ := main_established ord fl t root flt cwd₀ fs₀ he
    rw [hfs, ← unpackTree_eq ord fl hs]
    exact confinement_without_symlinks_below ord hord fl t _ _ h flt i

/-- freshness is a special case -/
theorem fresh_implies_no_link_below (fs : Fs) (R : PathC) (h : Fresh fs R) : NoLinkBelow fs R := h.noLinkBelow

/-- the model of `qsort(compare_files)` (images without fragments) is a fill order in the sense of the theorems: it
    invents no entry (`OrdOK`) and loses none (`OrdAll`) -/
theorem ordByLoc_is_a_fill_order : OrdOK ordByLoc ∧ OrdAll ordByLoc := ordByLoc_ok

/-! ### the repaired `create_node` (fixes/C06-mkdir-eexist-lstat.patch): no hypothesis on what R holds

The current code accepts `EEXIST` from `mkdir` without looking at what exists (`tolerated`); every confinement theorem
above therefore needs `NoLinkBelow` and `Witness.C06.prepopulated_symlink_escapes` shows that it cannot be dropped: that
is a defect of the current code against the property as stated ("for every image … only underneath R", no hypothesis on
R).  The repaired code accepts `EEXIST` only if `lstat` says "a directory" (`toleratedR`, `runR`, `unpackMainR` in
`Sqfs/Model/UnpackRepaired.lean`).  For it: -/

/-- **Confinement for every R.**  For every tree, option set and fill order, from **any** file system `fs₀` — R may
    hold anything, symbolic links to anywhere included — with any calls failing for reasons of the environment (`flt`; `lflt`:
    the `lstat` behind a `mkdir`/`EEXIST` fails): the walks of the repaired unpacker, run with working directory `R`, leave
    everything that is not strictly below `R` exactly as it was.  No hypothesis on `fs₀` at all. -/
theorem confinement_any_R (ord : List FileEnt → List FileEnt) (hord : OrdOK ord) (fl : Flags) (t : TNode) (R : PathC)
    (fs₀ : Fs) (flt : Faults) (lflt : Nat → Bool) (i : Nat) :
    outside R (runR flt lflt R i fs₀ (unpackTree ord fl t).syscalls).fs = outside R fs₀ := by
  cases hs : treeSort t with
  | error e => rw [unpackTree_dup ord fl t e hs]; rfl
  | ok t' =>
    obtain ⟨d, _, _, _, hinv⟩ := InvR.run flt lflt _ i fs₀ [] (InvR.start R fs₀) (unpackTree_wellPlaced ord hord fl t t' hs)
    funext p
    unfold outside
    cases h : underB R p with
    | true => rfl
    | false => simpa using hinv.out p h

/-- **What remains, precisely: only what the image names is touched.**  If after the repaired run the object at an
    absolute path `p` differs in any respect from what was there before, then `p = R ++ c` where `c` is the non-empty list
    of clean components of the path of some call of the plan — a node the image itself names.  In particular a symbolic
    link (or anything else) that R held beforehand at a path the image does not name is still there, unchanged, and
    nothing was written through it; one at a path the image *does* name makes the creating call there fail (`EEXIST`, or
    for a directory node `lstat` ≠ directory) and ends the run. -/
theorem repaired_touches_only_named_paths (ord : List FileEnt → List FileEnt) (hord : OrdOK ord) (fl : Flags) (t : TNode)
    (R : PathC) (fs₀ : Fs) (flt : Faults) (lflt : Nat → Bool) (i : Nat) (p : PathC)
    (h : (runR flt lflt R i fs₀ (unpackTree ord fl t).syscalls).fs p ≠ fs₀ p) :
    ∃ sc ∈ (unpackTree ord fl t).syscalls, ∃ c : List Bytes, c ≠ [] ∧ sc.path = joinSlash c ∧ p = R ++ c ∧
      ∀ x ∈ c, x ≠ [] ∧ isFilenameSane x = true := by
  cases hs : treeSort t with
  | error e => rw [unpackTree_dup ord fl t e hs] at h; exact absurd rfl h
  | ok t' =>
    obtain ⟨d, hsub, _, _, hinv⟩ := InvR.run flt lflt _ i fs₀ [] (InvR.start R fs₀) (unpackTree_wellPlaced ord hord fl t t' hs)
    obtain ⟨sc, hm, c, k, hcf, hne, hp⟩ := hinv.chg p h
    refine ⟨sc, ?_, c, hne, hcf.2.1, hp, fun x hx => ?_⟩
    · rcases hsub sc hm with h1 | h1
      · cases h1
      · exact h1
    · obtain ⟨h1, h2, h3, h4⟩ := hcf.1 x hx
      exact ⟨h1, (Sqfs.C18.sane_iff x).2 ⟨h3, h4, h2⟩⟩

/-- **Success is a statement about the file system, not about the trace** (repaired code).  If no call of the repaired run
    failed, then for every creating call of the plan (`mkdir`, `symlink`, `mknod`, `open(O_CREAT|O_EXCL)`; by
    `skipped_reported_rest_unpacked` every reachable node has one) the object at its place `R ++ c` exists in the final file
    system and is of the sort of that node's inode type: where the image has a directory there **is a directory** — a
    `mkdir` answering `EEXIST` on a file, a device or a symbolic link no longer counts as "unpacked", as it does for the
    current code (`success_means_everything_unpacked` speaks about the trace only, `Fine` includes the tolerated `EEXIST`). -/
theorem repaired_success_objects_in_place (ord : List FileEnt → List FileEnt) (hord : OrdOK ord) (fl : Flags) (t : TNode)
    (R : PathC) (fs₀ : Fs) (flt : Faults) (lflt : Nat → Bool) (i : Nat)
    (hok : (runR flt lflt R i fs₀ (unpackTree ord fl t).syscalls).failed = false) :
    ∀ sc ∈ (unpackTree ord fl t).syscalls, sc.isCreate = true →
      ∃ (c : List Bytes) (k : Kind), sc.path = joinSlash c ∧ Compat sc k ∧
        (c ≠ [] → ∃ n, (runR flt lflt R i fs₀ (unpackTree ord fl t).syscalls).fs (R ++ c) = some n ∧ kindMatch n.kind k = true) := by
  intro sc hsc hcr
  cases hs : treeSort t with
  | error e => rw [unpackTree_dup ord fl t e hs] at hsc; simp at hsc
  | ok t' =>
    obtain ⟨d, _, _, hall, hinv⟩ := InvR.run flt lflt _ i fs₀ [] (InvR.start R fs₀) (unpackTree_wellPlaced ord hord fl t t' hs)
    obtain ⟨c, k, _, hg, hpath, hcompat⟩ := unpackTree_ops ord hord fl t t' hs sc hsc
    exact ⟨c, k, hpath, hcompat, fun hne => hinv.est sc (hall hok sc hsc) hcr c k ⟨hg, hpath, hcompat⟩ hne⟩

/-- **`main` of the repaired unpacker, end to end**: for every tree, option set, fill order, `--unpack-root` argument
    (or none), start directory, file system and failing calls, what `main` does after `mkdir_p`/`chdir` changes nothing
    that is not strictly below the directory the process then stands in — whatever that directory holds.  (Establishing
    R is unchanged code: `OnlyNewDirs`, `root_not_established_nothing_unpacked` speak about `mkdirP`/`chdir`, which
    `unpackMainR` shares with `unpackMain`.) -/
theorem main_confinement_any_R (ord : List FileEnt → List FileEnt) (hord : OrdOK ord) (fl : Flags) (t : TNode)
    (root : Option Bytes) (flt : Faults) (lflt : Nat → Bool) (cwd₀ : PathC) (fs₀ : Fs) :
    outside (unpackMainR ord fl t root flt lflt cwd₀ fs₀).cwd (unpackMainR ord fl t root flt lflt cwd₀ fs₀).fs =
      outside (unpackMainR ord fl t root flt lflt cwd₀ fs₀).cwd (unpackMainR ord fl t root flt lflt cwd₀ fs₀).fsEst := by
  unfold unpackMainR
  cases hs : treeSort t with
  | error e => rfl
  | ok t' =>
    simp only
    cases root with
    | none =>
      simp only
      rw [← unpackTree_eq ord fl hs]
      exact confinement_any_R ord hord fl t _ _ flt lflt _
    | some Rb =>
      simp only
      split
      · rfl
      · split
        · rfl
        · simp only
          rw [← unpackTree_eq ord fl hs]
          exact confinement_any_R ord hord fl t _ _ flt lflt _

/-! ### non-vacuity and sanity of the model -/

section examples
-- "a", "b", "..", "x", "R"
private abbrev A : Bytes := [97]
private abbrev B : Bytes := [98]
private abbrev DD : Bytes := [DOT, DOT]
private abbrev X : Bytes := [120]
private abbrev Rn : Bytes := [82]
/-- "../x" -/
private abbrev upX : Bytes := [DOT, DOT, SL, 120]

/-- `/` and `/R` are directories, `/x` is a file: `/R` is fresh -/
private def fs0 : Fs := fun q =>
  if q = [] ∨ q = [Rn] then some ⟨.dir, {}⟩ else if q = [X] then some ⟨.file [1], {}⟩ else none

example : Fresh fs0 [Rn] := by
  refine ⟨⟨_, rfl⟩, ?_⟩
  intro p hp
  unfold fs0
  have h1 : p ≠ [] := by intro e; subst e; simp [underB] at hp
  have h2 : p ≠ [Rn] := by intro e; subst e; simp [underB] at hp
  have h3 : p ≠ [X] := by intro e; subst e; simp [underB, List.isPrefixOf] at hp
  simp [h1, h2, h3]

/-- hostile tree: symlink a → ../x, directory b holding a file named "..", and a file "a" (duplicate of the symlink) -/
private def hostile (withDup : Bool) : TNode :=
  .mk [] .dir [] {} ([.mk B .dir [] {} [.mk DD .reg [1] {} [], .mk A .reg [2] {} []], .mk A .lnk upX {} []]
    ++ if withDup then [.mk A .reg [7] {} []] else [])

-- with the duplicate: refused before any call
example : (unpackPlan (hostile true) {}).err = some .duplicate ∧ (unpackPlan (hostile true) {}).syscalls = [] := by decide
-- without: the ".." entry is skipped (reported twice: create walk and file-list walk), the rest is unpacked
example : (unpackPlan (hostile false) { chmod := true }).evs =
    [.sys (.symlink upX A), .sys (.mkdir B 0o755), .skip DD, .sys (.openExcl [98, 47, 97] 0o200),
     .skip DD, .sys (.openTrunc [98, 47, 97] [2]),
     .sys (.chmod [98, 47, 97] 0), .sys (.chmod B 0)] := by decide
-- the file system model *can* express an escape: without O_EXCL semantics (openTrunc follows) a write through the
-- symlink "a" lands on /x, outside /R …
example : (exec [Rn] fs0 [.symlink upX A, .openTrunc A [9]]) [X] = some ⟨.file [9], {}⟩ := by decide
-- … and so can a tolerated `mkdir` on top of a symlink to a directory: the child is created outside R
example : (exec [Rn] fs0 [.symlink DD A, .mkdir A 0o755, .openExcl [97, 47, 98] 0o644]) [B] = some ⟨.file [], { perm := 0o644 }⟩ := by
  decide
-- whereas the real plan leaves /x alone
example : (exec [Rn] fs0 (unpackPlan (hostile false) { chmod := true }).syscalls) [X] = some ⟨.file [1], {}⟩ := by decide
/-! non-vacuity of the `main` theorems -/

/-- `/` a directory, `/x` a file; no `/R` yet -/
private def fs1 : Fs := fun q => if q = [] then some ⟨.dir, {}⟩ else if q = [X] then some ⟨.file [1], {}⟩ else none
/-- the same with `/R` a regular file -/
private def fs2 : Fs := fun q => if q = [] then some ⟨.dir, {}⟩ else if q = [X] ∨ q = [Rn] then some ⟨.file [1], {}⟩ else none
/-- `/R` a symbolic link to `/x`… which is a file -/
private def fs3 : Fs := fun q =>
  if q = [] then some ⟨.dir, {}⟩ else if q = [X] then some ⟨.file [1], {}⟩ else if q = [Rn] then some ⟨.symlink [SL, 120], {}⟩ else none

-- `-p R` with R absent: `mkdir_p` makes it, `chdir` enters it, the image is unpacked, exit status 0
example : (unpackMain id { chmod := true } (hostile false) (some Rn) noFaults [] fs1).established = true ∧
    (unpackMain id { chmod := true } (hostile false) (some Rn) noFaults [] fs1).exit = 0 ∧
    (unpackMain id { chmod := true } (hostile false) (some Rn) noFaults [] fs1).cwd = [Rn] ∧
    (unpackMain id { chmod := true } (hostile false) (some Rn) noFaults [] fs1).pre = [(.mkdir Rn 0o755, none)] ∧
    (unpackMain id { chmod := true } (hostile false) (some Rn) noFaults [] fs1).fs [X] = some ⟨.file [1], {}⟩ := by decide
-- `-p R` with R a regular file: `mkdir` says EEXIST (tolerated), `chdir` says ENOTDIR — the hypotheses of
-- `failed_chdir_writes_nothing` hold, no call of a walk is made
example : (unpackMain id {} (hostile false) (some Rn) noFaults [] fs2).chdirRes = some (some .ENOTDIR) ∧
    (unpackMain id {} (hostile false) (some Rn) noFaults [] fs2).pre = [(.mkdir Rn 0o755, some .EEXIST)] ∧
    (unpackMain id {} (hostile false) (some Rn) noFaults [] fs2).trace = [] ∧
    (unpackMain id {} (hostile false) (some Rn) noFaults [] fs2).exit = 1 := by decide
-- … and with R a symbolic link to a file
example : (unpackMain id {} (hostile false) (some Rn) noFaults [] fs3).chdirRes = some (some .ENOTDIR) ∧
    (unpackMain id {} (hostile false) (some Rn) noFaults [] fs3).established = false := by decide
-- an unprivileged user: the 3rd call after `mkdir`, `chdir` (call number 4) is refused with EPERM — it is the last call, exit status 1
example : (unpackMain id {} (hostile false) (some Rn) (fun i => if i = 4 then some .EPERM else none) [] fs1).exit = 1 ∧
    (unpackMain id {} (hostile false) (some Rn) (fun i => if i = 4 then some .EPERM else none) [] fs1).trace =
      [(.symlink upX A, none), (.mkdir B 0o755, none), (.openExcl [98, 47, 97] 0o644, some .EPERM)] := by decide
-- a data block that cannot be read: the file is opened, 1 byte is written, the run ends (no attribute phase)
example : (unpackPlan (.mk [] .dir [] {} [.mk A .reg [1, 2, 3] { copyFail := some 1 } [], .mk B .reg [4] {} []]) { chmod := true }).evs =
      [.sys (.openExcl A 0o200), .sys (.openExcl B 0o200), .sys (.openTrunc A [1])] ∧
    (unpackPlan (.mk [] .dir [] {} [.mk A .reg [1, 2, 3] { copyFail := some 1 } [], .mk B .reg [4] {} []]) { chmod := true }).err = some .dataRead := by
  decide
-- an xattr key that cannot be read after the first pair
example : (unpackPlan (.mk [] .dir [] {} [.mk A .reg [] { xattrs := [(X, [1]), (B, [2])], xattrFail := some 1 } []]) { setXattr := true, setTimes := true }).evs =
      [.sys (.openExcl A 0o644), .sys (.openTrunc A []), .sys (.setxattr A X [1] true)] ∧
    (unpackPlan (.mk [] .dir [] {} [.mk A .reg [] { xattrs := [(X, [1]), (B, [2])], xattrFail := some 1 } []]) { setXattr := true, setTimes := true }).err = some .xattrRead := by
  decide
-- mkdir_p.c: "//a//b/" → mkdir "/a", "/a/", "/a//b", "/a//b/";  "" and "/" → nothing
example : mkdirPCuts [SL, SL, 97, SL, SL, 98, SL] = [[SL, 97], [SL, 97, SL], [SL, 97, SL, SL, 98], [SL, 97, SL, SL, 98, SL]] ∧
    mkdirPCuts [] = [] ∧ mkdirPCuts [SL] = [] ∧ mkdirPCuts [SL, SL, SL] = [] ∧ mkdirPCuts [97, SL, 98] = [[97], [97, SL, 98]] := by decide
/-- `/R` holds a file and a directory with a file (left by an earlier run), no symbolic link: not fresh, but `NoLinkBelow` -/
private def fs4 : Fs := fun q =>
  if q = [] ∨ q = [Rn] ∨ q = [Rn, B] then some ⟨.dir, {}⟩ else if q = [X] ∨ q = [Rn, A] ∨ q = [Rn, B, A] then some ⟨.file [1], {}⟩ else none

example : NoLinkBelow fs4 [Rn] ∧ ¬ Fresh fs4 [Rn] := by
  refine ⟨⟨⟨_, rfl⟩, ?_⟩, ?_⟩
  · intro p _ t a
    unfold fs4
    split
    · intro e; cases e
    · split
      · intro e; cases e
      · intro e; cases e
  · intro h
    have := h.2 [Rn, A] (by decide)
    revert this
    decide
-- unpacking into it: `symlink a` meets the old file (EEXIST), the run ends there, exit status 1, `/x` untouched
example : (unpackMain id {} (hostile false) (some Rn) noFaults [] fs4).exit = 1 ∧
    (unpackMain id {} (hostile false) (some Rn) noFaults [] fs4).trace = [(.symlink upX A, some .EEXIST)] ∧
    (unpackMain id {} (hostile false) (some Rn) noFaults [] fs4).fs [X] = some ⟨.file [1], {}⟩ := by decide
/-! the repaired unpacker into the populated `fs4`: a directory node `a` meets the old *file* `/R/a` — `mkdir` answers
    `EEXIST`, `lstat` says "not a directory", exit status 1; a directory node `b` meets the old directory `/R/b` and is
    unpacked into it (exit status 0).  (The planted symbolic link: `Witness.C06.repaired_planted_symlink_confined`.) -/
example : (unpackMainR id {} (.mk [] .dir [] {} [.mk A .dir [] {} [.mk X .reg [7] {} []]]) none noFaults (fun _ => false) [Rn] fs4).exit = 1 ∧
    (unpackMainR id {} (.mk [] .dir [] {} [.mk B .dir [] {} [.mk X .reg [7] {} []]]) none noFaults (fun _ => false) [Rn] fs4).exit = 0 ∧
    (unpackMainR id {} (.mk [] .dir [] {} [.mk B .dir [] {} [.mk X .reg [7] {} []]]) none noFaults (fun _ => false) [Rn] fs4).fs [Rn, B, X]
      = some ⟨.file [7], { perm := 0o644 }⟩ := by decide
/-! the remaining theorems with hypotheses, applied to the hostile tree with every hypothesis discharged -/
example := skipped_reported_rest_unpacked { chmod := true } (hostile false) (by decide)
example : (restoreFstree { chmod := true } (hostile false)).skips = skippedRoot (hostile false) :=
  skip_reports_exact { chmod := true } (hostile false) (by decide)
/-- `plan_prefix_dirs` at the `open("b/a", O_EXCL)` event of the plan: its proper prefix `b` was made by an earlier `mkdir` -/
example := plan_prefix_dirs id (fun _ _ h => h) { chmod := true } (hostile false) _ _ _
  (show (unpackTree id { chmod := true } (hostile false)).evs =
    [.sys (.symlink upX A), .sys (.mkdir B 0o755), .skip DD] ++ Ev.sys (.openExcl [98, 47, 97] 0o200) ::
     [.skip DD, .sys (.openTrunc [98, 47, 97] [2]), .sys (.chmod [98, 47, 97] 0), .sys (.chmod B 0)] from by decide)
end examples

end Sqfs.C06
