/-
C06 — unpacking any image writes only inside the chosen unpack directory.

Property theorems only (helpers: `Sqfs/Proofs/Unpack.lean`; model: `Sqfs/Model/Unpack.lean`; specification:
`Sqfs/Spec/Unpack.lean`).  Everything is quantified over *all* trees `t` (arbitrary byte strings as names and
symlink targets, arbitrary order and repetition, arbitrary nesting), all option sets `fl`, every order `ord` the
file list may be filled in, every unpack root `R` and every initial file system `fs₀` in which `R` is fresh.
-/
import Sqfs.Proofs.Unpack
namespace Sqfs.C06
open Sqfs.Path Sqfs.Unpack

/-- `tree_sort` succeeds only if, below every node, the children's names — compared as the C strings the unpacker
    will use — are pairwise distinct.  (A symlink and a directory/file of one name can therefore not both be unpacked.) -/
theorem treeSort_names_distinct (t t' : TNode) (h : treeSort t = .ok t') : NodupH t' :=
  treeSort_nodup t t' h

/-- NUL-cut names: two raw names with the same bytes before their first NUL are duplicates for `tree_sort`. -/
theorem decode_name_is_cstr (tf : TreeFlags) (n : Bytes) (k : Kind) (p : Bytes) (a : Attr) (ch : List TNode) :
    (decode tf (.mk n k p a ch)).name = cstr n := by
  simp [decode, TNode.name]

/-- **Clean paths.** Every path argument in the plan is the '/'-join of components each of which is non-empty,
    passes `is_filename_sane` (is not "." or "..", contains no '/').  (The list of components is empty — the path is
    "" and every call on it fails with ENOENT — only for a non-directory root inode.) -/
theorem plan_paths_clean (ord : List FileEnt → List FileEnt) (hord : OrdOK ord) (fl : Flags) (t : TNode) :
    ∀ sc ∈ (unpackTree ord fl t).syscalls,
      ∃ comps : List Bytes, sc.path = joinSlash comps ∧ ∀ c ∈ comps, c ≠ [] ∧ isFilenameSane c = true := by
  intro sc hsc
  cases hs : treeSort t with
  | error e => rw [unpackTree_dup ord fl t e hs] at hsc; simp at hsc
  | ok t' =>
    obtain ⟨comps, _, _, hg, hp, _⟩ := unpackTree_ops ord hord fl t t' hs sc hsc
    refine ⟨comps, hp, fun c hc => ?_⟩
    obtain ⟨h1, h2, h3, h4⟩ := hg c hc
    exact ⟨h1, (Sqfs.C18.sane_iff c).2 ⟨h3, h4, h2⟩⟩

/-- **Prefixes are directories made earlier by the same plan.**  Take any call of the plan, at any position
    (`l₁` = the events before it).  Its path is the join of good components `c`, and for every proper non-empty prefix
    `pre` of `c`: (1) a `mkdir` of `pre` occurs in `l₁`, i.e. *earlier*; (2) every creating call (`mkdir`, `symlink`,
    `mknod`, `open(O_CREAT|O_EXCL)`) anywhere in the plan whose path is `pre` is a `mkdir` — nothing in the plan puts a
    non-directory at a prefix.  (From sortedness + duplicate rejection in `tree_sort`, names being the NUL-cut C strings.) -/
theorem plan_prefix_dirs (ord : List FileEnt → List FileEnt) (hord : OrdOK ord) (fl : Flags) (t : TNode)
    (l₁ : List Ev) (sc : Syscall) (l₂ : List Ev) (h : (unpackTree ord fl t).evs = l₁ ++ Ev.sys sc :: l₂) :
    ∃ c, sc.path = joinSlash c ∧ ∀ pre, pre <+: c → pre ≠ [] → pre ≠ c →
      (∃ m, Ev.sys (.mkdir (joinSlash pre) m) ∈ l₁) ∧
      (∀ sc' ∈ (unpackTree ord fl t).syscalls, sc'.isCreate = true → sc'.path = joinSlash pre →
        ∃ m, sc' = .mkdir (joinSlash pre) m) := by
  cases hs : treeSort t with
  | error e =>
    have : (unpackTree ord fl t).evs = [] := by unfold unpackTree; rw [hs]
    rw [this] at h
    cases l₁ <;> simp at h
  | ok t' =>
    obtain ⟨c, hpath, hg, hord'⟩ := unpackTree_ordered ord hord fl t t' hs l₁ sc l₂ h
    refine ⟨c, hpath, fun pre hp1 hp2 hp3 => ⟨hord' pre hp1 hp2 hp3, ?_⟩⟩
    intro sc' hsc' hcr hp'
    obtain ⟨c₀, k₀, hm₀, hg₀, hpath₀, _⟩ := unpackTree_ops ord hord fl t t' hs sc (by rw [Out.mem_syscalls, h]; simp)
    have e0 : c₀ = c := joinSlash_inj hg₀ hg (hpath₀.symm.trans hpath)
    subst e0
    have hd := visitRoot_prefix t' c₀ k₀ pre hm₀ hp1 hp2 hp3
    obtain ⟨c', k', hm', hg', hpath', hc'⟩ := unpackTree_ops ord hord fl t t' hs sc' hsc'
    have e1 : c' = pre := joinSlash_inj hg' (hg.prefix hp1) (hpath'.symm.trans hp')
    subst e1
    have e2 : k' = .dir := visitRoot_fun (treeSort_nodup t t' hs) c' k' .dir hm' hd
    subst e2
    obtain ⟨m, hm⟩ := create_dir_is_mkdir hcr hc'
    exact ⟨m, by rw [hm, hp']⟩

/-- **Resolution stays under R.** In any file system, a clean relative path (non-empty, good components) whose
    proper prefixes below `R` are directories or absent, handled no-follow — or whose last component is not a symlink —
    either fails to resolve or resolves to exactly `R ++ comps`: no symlink is read on the way. -/
theorem resolve_stays_under_R (fs : Fs) (R : PathC) (comps : List Bytes) (followLast : Bool)
    (hgood : ∀ c ∈ comps, c ≠ [] ∧ SL ∉ c ∧ c ≠ [DOT] ∧ c ≠ [DOT, DOT])
    (hpre : ∀ pre, pre <+: comps → pre ≠ [] → pre ≠ comps →
      fs (R ++ pre) = none ∨ ∃ a, fs (R ++ pre) = some ⟨.dir, a⟩)
    (hlast : followLast = false ∨ ∀ tgt a, fs (R ++ comps) ≠ some ⟨.symlink tgt, a⟩) :
    (∃ e, resolve fs R (joinSlash comps) followLast = .error e) ∨
      (comps ≠ [] ∧ resolve fs R (joinSlash comps) followLast = .ok (R ++ comps, fs (R ++ comps))) :=
  resolve_good fs R comps followLast hgood hpre hlast

/-- **Confinement.** For every tree, every option set and every fill order: executing the plan with working
    directory `R`, from any file system in which `R` is fresh, leaves everything that is not strictly below `R`
    exactly as it was (objects, kinds, contents, owners, modes, times, xattrs — including `R`'s own node). -/
theorem confinement (ord : List FileEnt → List FileEnt) (hord : OrdOK ord) (fl : Flags) (t : TNode) (R : PathC)
    (fs₀ : Fs) (hfresh : Fresh fs₀ R) :
    outside R (exec R fs₀ (unpackTree ord fl t).syscalls) = outside R fs₀ := by
  cases hs : treeSort t with
  | error e => rw [unpackTree_dup ord fl t e hs]; rfl
  | ok t' =>
    have hf := visitRoot_fun (treeSort_nodup t t' hs)
    have hp := visitRoot_prefix t'
    exact (Inv.exec hf hp _ fs₀ (Inv.fresh hfresh) (unpackTree_ops ord hord fl t t' hs)).outside_eq

/-- the same for the plan of a raw image tree (names cut at NUL, `-D -S -F -L -E` pruning, `--unpack-path` already applied) -/
theorem confinement_raw (raw : TNode) (fl : Flags) (tf : TreeFlags) (R : PathC) (fs₀ : Fs) (hfresh : Fresh fs₀ R) :
    Confined R fs₀ (unpackPlan raw fl tf).syscalls :=
  confinement id (fun _ _ h => h) fl (decode tf raw) R fs₀ hfresh

/-- **Inside R only tree nodes appear, as objects of their own kind**: after the run, whatever exists strictly
    below `R` sits at the path of a visited tree node and is a directory / regular file / symlink / special file
    according to that node's inode type (so e.g. nothing is ever written *through* an unpacked symlink). -/
theorem below_R_only_tree_nodes (ord : List FileEnt → List FileEnt) (hord : OrdOK ord) (fl : Flags) (t t' : TNode)
    (hs : treeSort t = .ok t') (R : PathC) (fs₀ : Fs) (hfresh : Fresh fs₀ R) (comps : List Bytes) (hne : comps ≠ []) :
    let fs := exec R fs₀ (unpackTree ord fl t).syscalls
    fs (R ++ comps) = none ∨ ∃ n k, fs (R ++ comps) = some n ∧ (comps, k) ∈ visitRoot t' ∧ kindMatch n.kind k = true :=
  (Inv.exec (visitRoot_fun (treeSort_nodup t t' hs)) (visitRoot_prefix t') _ fs₀ (Inv.fresh hfresh)
    (unpackTree_ops ord hord fl t t' hs)).inn comps hne

/-- **Skipped entries are reported; everything else is unpacked or the tool fails.**  If the create walk
    (`restore_fstree`) does not fail, then (1) every entry it refuses — insane name, directly below the root or a
    visited directory — has its "Found an entry named '…', skipping." event, and (2) every other reachable node
    `(c, k)` has its creating call (of the sort that fits `k`) on the clean path of `c` in the plan. -/
theorem skipped_reported_rest_unpacked (fl : Flags) (t : TNode) (h : (restoreFstree fl t).err = none) :
    (∀ n ∈ skippedRoot t, Ev.skip n ∈ (restoreFstree fl t).evs) ∧
    (∀ c k, (c, k) ∈ visitRoot t → ∃ sc, Ev.sys sc ∈ (restoreFstree fl t).evs ∧ sc.path = joinSlash c ∧
        Compat sc k ∧ sc.isCreate = true) :=
  ⟨(restoreFstree_complete fl t h).2, (restoreFstree_complete fl t h).1⟩

/-- `canonicalize_name` never fails on what `sqfs_tree_node_get_path` returns (the `assert(ret == 0)` in
    restore_fstree.c cannot fire, add_file's "Invalid file path" is dead) -/
theorem get_path_then_canonicalize_never_fails (rn : Bytes) (comps : List Bytes) :
    pathOf rn comps ≠ .error .canonFail :=
  pathOf_ne_canonFail rn comps

/-- Behind an `is_filename_sane` gate, the '/', "." and ".." tests of `sqfs_tree_node_get_path` never decide
    anything: for a sane name the only live test is the one for the empty name.  (This is why removing those tests
    alone is an equivalent mutant for the unpacker; the check reports it only together with a missing gate.) -/
theorem get_path_tests_redundant_behind_gate (c : Bytes) (h : isFilenameSane c = true) :
    badComp c = true ↔ c = [] := by
  obtain ⟨h1, h2, h3⟩ := (Sqfs.C18.sane_iff c).1 h
  constructor
  · intro hb
    by_cases hc : c = []
    · exact hc
    · exact absurd ((badComp_false_iff c).2 ⟨hc, h3, h1, h2⟩) (by simp [hb])
  · intro hc; subst hc; rfl

/-! ### non-vacuity and sanity of the model -/

section examples
-- "a", "b", "..", "x", "R"
private abbrev A : Bytes := [97]
private abbrev B : Bytes := [98]
private abbrev DD : Bytes := [DOT, DOT]
private abbrev X : Bytes := [120]
private abbrev Rn : Bytes := [82]
/-- "../x" -/
private abbrev upX : Bytes := [DOT, DOT, SL, 120]

/-- `/` and `/R` are directories, `/x` is a file: `/R` is fresh -/
private def fs0 : Fs := fun q =>
  if q = [] ∨ q = [Rn] then some ⟨.dir, {}⟩ else if q = [X] then some ⟨.file [1], {}⟩ else none

example : Fresh fs0 [Rn] := by
  refine ⟨⟨_, rfl⟩, ?_⟩
  intro p hp
  unfold fs0
  have h1 : p ≠ [] := by intro e; subst e; simp [underB] at hp
  have h2 : p ≠ [Rn] := by intro e; subst e; simp [underB] at hp
  have h3 : p ≠ [X] := by intro e; subst e; simp [underB, List.isPrefixOf] at hp
  simp [h1, h2, h3]

/-- hostile tree: symlink a → ../x, directory b holding a file named "..", and a file "a" (duplicate of the symlink) -/
private def hostile (withDup : Bool) : TNode :=
  .mk [] .dir [] {} ([.mk B .dir [] {} [.mk DD .reg [1] {} [], .mk A .reg [2] {} []], .mk A .lnk upX {} []]
    ++ if withDup then [.mk A .reg [7] {} []] else [])

-- with the duplicate: refused before any call
example : (unpackPlan (hostile true) {}).err = some .duplicate ∧ (unpackPlan (hostile true) {}).syscalls = [] := by decide
-- without: the ".." entry is skipped (reported twice: create walk and file-list walk), the rest is unpacked
example : (unpackPlan (hostile false) { chmod := true }).evs =
    [.sys (.symlink upX A), .sys (.mkdir B 0o755), .skip DD, .sys (.openExcl [98, 47, 97] 0o200),
     .skip DD, .sys (.openTrunc [98, 47, 97] [2]),
     .sys (.chmod [98, 47, 97] 0), .sys (.chmod B 0)] := by decide
-- the file system model *can* express an escape: without O_EXCL semantics (openTrunc follows) a write through the
-- symlink "a" lands on /x, outside /R …
example : (exec [Rn] fs0 [.symlink upX A, .openTrunc A [9]]) [X] = some ⟨.file [9], {}⟩ := by decide
-- … and so can a tolerated `mkdir` on top of a symlink to a directory: the child is created outside R
example : (exec [Rn] fs0 [.symlink DD A, .mkdir A 0o755, .openExcl [97, 47, 98] 0o644]) [B] = some ⟨.file [], { perm := 0o644 }⟩ := by
  decide
-- whereas the real plan leaves /x alone
example : (exec [Rn] fs0 (unpackPlan (hostile false) { chmod := true }).syscalls) [X] = some ⟨.file [1], {}⟩ := by decide
end examples

end Sqfs.C06
