/-
C18 — Path canonicalisation yields a clean relative path or refuses, for all strings.

Property theorems only (helpers are in `Sqfs/Proofs/Path.lean`).  Every theorem
quantifies over *all* byte strings `s` (a C string = its bytes before the NUL;
the statements about the functional models need no NUL-freeness hypothesis because
neither function looks at any byte value other than '/' and '.'; the three in-place
theorems — `canon_inplace_memory`, `norm_inplace_memory`, `canon_inplace_eq_model` —
are about the byte array `s ++ [0] ++ tail` and do assume `0 ∉ s`, which is what
"`s` is the C string in that array" means).
-/
import Sqfs.Proofs.Path
import Sqfs.Proofs.C18InPlace
namespace Sqfs.C18
open Sqfs.Path

/-- **Main theorem.** The model of `canonicalize_name` computes the component-level specification. -/
theorem canon_eq_spec (s : Bytes) : canonicalize s = specCanon s := by
  unfold canonicalize specCanon
  rw [normalizeSlashes_eq s, canonGo_join _ (norm_filter_split s)]
  have hmem : ([DOT, DOT] : Bytes) ∈ (splitSlash s).filter isNE ↔ [DOT, DOT] ∈ splitSlash s := by
    rw [List.mem_filter]
    constructor
    · exact fun h => h.1
    · exact fun h => ⟨h, rfl⟩
  by_cases h : ([DOT, DOT] : Bytes) ∈ splitSlash s
  · simp [hmem, h]
  · simp only [hmem, h, if_false, Option.map_some]
    rw [normalizeSlashes_eq, split_outC _ (norm_filter_split s), List.filter_filter]
    congr 2
    apply List.filter_congr
    intro c _
    simp [keep, Bool.and_comm]

/-- fails exactly when some component is ".." -/
theorem canon_fails_iff_dotdot (s : Bytes) :
    canonicalize s = none ↔ [DOT, DOT] ∈ splitSlash s := by
  rw [canon_eq_spec]; unfold specCanon; simp

/-- the kept components: neither empty, "." nor ".." -/
def CleanComp (c : Bytes) : Prop := c ≠ [] ∧ c ≠ [DOT] ∧ c ≠ [DOT, DOT] ∧ SL ∉ c

/--
On success the result is the '/'-join of the input's components other than ""
and ".", in their original order ("names the same entry"), and it is *clean*:
either empty, or every one of its own components is non-empty (so there is no
leading, trailing or doubled slash), not "." and not "..".
-/
theorem canon_same_entry_and_clean (s r : Bytes) (h : canonicalize s = some r) :
    r = joinSlash ((splitSlash s).filter keep) ∧
    (r = [] ∨ (splitSlash r = (splitSlash s).filter keep ∧ ∀ c ∈ splitSlash r, CleanComp c)) := by
  rw [canon_eq_spec] at h
  unfold specCanon at h
  by_cases hdd : ([DOT, DOT] : Bytes) ∈ splitSlash s
  · simp [hdd] at h
  · simp only [hdd, if_false, Option.some.injEq] at h
    subst h
    refine ⟨rfl, ?_⟩
    have hall : ∀ c ∈ (splitSlash s).filter keep, CleanComp c := by
      intro c hc
      obtain ⟨h1, h2⟩ := List.mem_filter.1 hc
      simp only [keep, Bool.and_eq_true] at h2
      refine ⟨isNE_iff.1 h2.1, notDot_iff.1 h2.2, ?_, (splitSlash_spec s).1 c h1⟩
      intro e; subst e; exact hdd h1
    by_cases hnil : (splitSlash s).filter keep = []
    · left; simp [hnil, joinSlash]
    · right
      have hsp := splitSlash_joinSlash _ hnil (fun c hc => (hall c hc).2.2.2)
      rw [hsp]
      exact ⟨rfl, hall⟩

/-- never grows the string -/
theorem canon_length_le (s r : Bytes) (h : canonicalize s = some r) : r.length ≤ s.length := by
  obtain ⟨hr, _⟩ := canon_same_entry_and_clean s r h
  subst hr
  calc (joinSlash ((splitSlash s).filter keep)).length
      ≤ (joinSlash (splitSlash s)).length := joinSlash_length_filter _ _
    _ = s.length := by rw [(splitSlash_spec s).2]

/-- idempotent: a result is a fixed point -/
theorem canon_idempotent (s r : Bytes) (h : canonicalize s = some r) : canonicalize r = some r := by
  obtain ⟨hr, hclean⟩ := canon_same_entry_and_clean s r h
  rw [canon_eq_spec]
  unfold specCanon
  rcases hclean with rfl | ⟨hsp, hall⟩
  · simp [splitSlash, keep, joinSlash]
  · have hno : ¬ ([DOT, DOT] : Bytes) ∈ splitSlash r := fun m => (hall _ m).2.2.1 rfl
    simp only [hno, if_false, Option.some.injEq]
    have hk : (splitSlash r).filter keep = splitSlash r := by
      apply List.filter_eq_self.2
      intro c hc
      obtain ⟨h1, h2, _, _⟩ := hall c hc
      simp [keep, isNE_iff.2 h1, notDot_iff.2 h2]
    rw [hk, hsp]; exact hr.symm

/-- the file-name sanity test accepts a name exactly when it is neither ".", ".." nor contains a slash -/
theorem sane_iff (n : Bytes) :
    isFilenameSane n = true ↔ (n ≠ [DOT] ∧ n ≠ [DOT, DOT] ∧ SL ∉ n) := by
  unfold isFilenameSane
  by_cases h1 : n = [DOT]
  · simp [h1]
  · by_cases h2 : n = [DOT, DOT]
    · simp [h2]
    · simp [h1, h2]

/-- the slash normaliser never emits more than it has consumed (in-place faithfulness, pass 1 and 3) -/
theorem norm_dst_le_src (st p : Bool) (s : Bytes) :
    (normGo st p s).length ≤ s.length + (if st && p then 1 else 0) := by
  induction s generalizing st p with
  | nil => simp [normGo]
  | cons c t ih =>
    unfold normGo
    split
    · have := ih st true; cases st <;> cases p <;> simp at this ⊢ <;> omega
    · split
      · have := ih true false; simp at this ⊢; omega
      · have := ih true false
        cases st <;> cases p <;> simp at this ⊢ <;> omega

/-- the main loop never emits more than it has consumed (in-place faithfulness, pass 2) -/
theorem canon_dst_le_src (b : Bool) (s r : Bytes) (h : canonGo b s = some r) : r.length ≤ s.length := by
  induction s using List.rec generalizing b r with
  | nil => simp [canonGo] at h; simp [h]
  | cons c t ih =>
    have key : ∀ (b' : Bool) (x : UInt8) (t' r' : Bytes), (canonGo b' t').map (x :: ·) = some r' →
        (∀ r'', canonGo b' t' = some r'' → r''.length ≤ t'.length) → r'.length ≤ t'.length + 1 := by
      intro b' x t' r' hm hi
      cases hg : canonGo b' t' with
      | none => simp [hg] at hm
      | some r'' => simp [hg] at hm; subst hm; have := hi r'' hg; simp; omega
    cases b with
    | false =>
      simp only [canonGo] at h
      split at h
      · exact key true SL t r h (fun r'' => ih true r'')
      · exact key false c t r h (fun r'' => ih false r'')
    | true =>
      match t, ih, h with
      | [], ih, h =>
        simp only [canonGo] at h
        split at h
        · simp at h; simp [h]
        · split at h <;> simp at h <;> simp [← h]
      | [d], ih, h =>
        simp only [canonGo] at h
        split at h
        · simp [canonGo] at h; simp [h]
        · split at h
          · simp at h
          · split at h
            · exact key true SL [d] r h (fun r'' => ih true r'')
            · exact key false c [d] r h (fun r'' => ih false r'')
      | d :: e :: t', ih, h =>
        simp only [canonGo] at h
        split at h
        · have h1 := ih true r
          -- `canonGo true (e :: t')` is reached from `d :: e :: t'` only through the skip; bound it directly
          have : ∀ r0, canonGo true (e :: t') = some r0 → r0.length ≤ (e :: t').length := by
            intro r0 h0
            have hstep : canonGo false (d :: e :: t') = (canonGo true (e :: t')).map (SL :: ·) := by
              rename_i hc; simp [canonGo, hc.2]
            have := ih false (SL :: r0) (by rw [hstep, h0]; rfl)
            simp at this ⊢; omega
          have := this r h; simp at this ⊢; omega
        · split at h
          · simp at h
          · split at h
            · exact key true SL _ r h (fun r'' => ih true r'')
            · exact key false c _ r h (fun r'' => ih false r'')

/-! ### in-place faithfulness

The two lemmas above bound the totals only.  The theorems below remove the modelling
assumption altogether: `Sqfs.PathIP` (Model/C18InPlace.lean) executes the C statements
of `canonicalize_name.c` on *one* byte array with a read and a write cursor, every
access bounds-checked; they show that this run never leaves the array, returns -1
exactly when the functional model `canonicalize` fails, and otherwise leaves exactly
the functional model's result (then a NUL) in the array - for every NUL-free string
and whatever follows it in memory. -/

open Sqfs.PathIP in
/--
**Memory-level statement.**  The array holds `s`, a NUL, then arbitrary bytes `tl`.
With any fuel above `s.length + 1` the in-place run terminates inside the array and
* returns -1 iff `canonicalize s = none`;
* otherwise the array afterwards is `r ++ [0] ++ junk ++ tl` with `canonicalize s = some r`:
  the result, its terminator, `junk` = what is left of the old contents, and the
  bytes behind the old terminator untouched (the function writes only into the
  string's own `s.length + 1` bytes).
-/
theorem canon_inplace_memory (s : Bytes) (hs : (0 : UInt8) ∉ s) (tl : Mem) (fuel : Nat) (hf : s.length + 1 < fuel) :
    (canonicalize s = none → canonicalizeIP fuel (s ++ 0 :: tl) = some Result.fail) ∧
    (∀ r, canonicalize s = some r → ∃ junk : Mem,
      canonicalizeIP fuel (s ++ 0 :: tl) = some (Result.ok (r ++ 0 :: (junk ++ tl))) ∧
      r.length + junk.length = s.length) := by
  have h := canonicalizeIP_spec s hs tl fuel hf
  constructor
  · intro hn; rw [hn] at h; exact h
  · intro r hr
    rw [hr] at h
    obtain ⟨m', hrun, hh, hlen, hdrop⟩ := h
    obtain ⟨junk, hm, hj⟩ := explicit_of_holds hh (by rw [hlen]; simp; omega) hdrop (canon_length_le s r hr)
    exact ⟨junk, by rw [hrun, hm], hj⟩

open Sqfs.PathIP in
/--
`normalize_slashes` on its own (passes 1 and 3), at memory level: on the array `s`, NUL, `tl` the in-place run
stays inside the array and leaves `normalizeSlashes s`, a NUL, leftovers, and `tl` untouched.
-/
theorem norm_inplace_memory (s : Bytes) (hs : (0 : UInt8) ∉ s) (tl : Mem) (fuel : Nat) (hf : s.length + 1 < fuel) :
    ∃ junk : Mem, normalizeIP fuel (s ++ 0 :: tl) = some (normalizeSlashes s ++ 0 :: (junk ++ tl)) ∧
      (normalizeSlashes s).length + junk.length = s.length := by
  obtain ⟨m', hrun, hlen, hh, hle, hdrop⟩ := normalizeIP_spec s hs tl fuel hf
  obtain ⟨junk, hm, hj⟩ := explicit_of_holds hh (by rw [hlen]; simp; omega) hdrop hle
  exact ⟨junk, by rw [hrun, hm], hj⟩

open Sqfs.PathIP in
/-- **The in-place function is the functional model** (array = the string and its terminator, as in the harness). -/
theorem canon_inplace_eq_model (s : Bytes) (hs : (0 : UInt8) ∉ s) : canonInPlace s = some (canonicalize s) := by
  have h := canon_inplace_memory s hs [] (s.length + 1 + 2) (by omega)
  have hfuel : (s ++ [0]).length + 2 = s.length + 1 + 2 := by simp
  unfold canonInPlace
  simp only [hfuel]
  cases hc : canonicalize s with
  | none => simp [h.1 hc]
  | some r =>
    obtain ⟨junk, hrun, _⟩ := h.2 r hc
    have hrn : NulFree r := by
      unfold canonicalize at hc
      cases hg : canonGo true (normalizeSlashes s) with
      | none => rw [hg] at hc; simp at hc
      | some r2 =>
        rw [hg] at hc; simp at hc; subst hc
        exact normGo_nulFree (canonGo_nulFree (normGo_nulFree hs false false) true hg) false false
    have hcs : cstr (r ++ 0 :: (junk ++ [])) = some r := cstr_holds ⟨_, rfl⟩ hrn
    simp only [hrun, hcs, Option.map_some]

/-! ### shape of the result on the bytes; agreement of the two tests; fixed points; nothing is invented -/

/-- **Relative, no stray slash**: a result of `canonicalize_name` does not begin with a slash (it is a relative path),
does not end with one and has no doubled slash — stated on the bytes, not on the component list. -/
theorem canon_no_stray_slash (s r : Bytes) (h : canonicalize s = some r) :
    (∀ t, r ≠ SL :: t) ∧ (∀ t, r ≠ t ++ [SL]) ∧ (∀ a b, r ≠ a ++ SL :: SL :: b) := by
  obtain ⟨_, hclean⟩ := canon_same_entry_and_clean s r h
  rcases hclean with rfl | ⟨_, hall⟩
  · simp
  · have hno : ([] : Bytes) ∉ splitSlash r := fun m => (hall _ m).1 rfl
    refine ⟨?_, ?_, ?_⟩
    · intro t ht; subst ht; exact hno (by simp [splitSlash])
    · intro t ht; subst ht; apply hno; rw [splitSlash_at_slash]; simp [splitSlash]
    · intro a b ht; subst ht; apply hno; rw [splitSlash_at_slash]; simp [splitSlash]

/-- **Every component of an accepted path is a name the file-name test accepts**: what `canonicalize_name` lets
through consists of names `is_filename_sane` lets through — the packers' path check and the readers' name check agree. -/
theorem canon_components_sane (s r : Bytes) (h : canonicalize s = some r) (hr : r ≠ []) :
    ∀ c ∈ splitSlash r, c ≠ [] ∧ isFilenameSane c = true := by
  obtain ⟨_, hclean⟩ := canon_same_entry_and_clean s r h
  rcases hclean with rfl | ⟨_, hall⟩
  · exact absurd rfl hr
  · intro c hc
    obtain ⟨h1, h2, h3, h4⟩ := hall c hc
    exact ⟨h1, (sane_iff c).2 ⟨h2, h3, h4⟩⟩

/-- … and conversely a non-empty sane name is a path `canonicalize_name` returns unchanged. -/
theorem sane_name_is_fixed (n : Bytes) (hne : n ≠ []) (hs : isFilenameSane n = true) : canonicalize n = some n := by
  obtain ⟨h2, h3, h4⟩ := (sane_iff n).1 hs
  rw [canon_eq_spec]; unfold specCanon
  have hsp : splitSlash n = [n] := splitSlash_slashFree h4
  simp [hsp, Ne.symm h3, keep, isNE_iff.2 hne, notDot_iff.2 h2, joinSlash]

/-- **Fixed points are exactly the clean paths**: `canonicalize_name` returns its argument unchanged iff the argument
is empty or all its components are non-empty, not "." and not "..". -/
theorem canon_fixed_iff_clean (s : Bytes) :
    canonicalize s = some s ↔ (s = [] ∨ ∀ c ∈ splitSlash s, CleanComp c) := by
  constructor
  · intro h
    obtain ⟨_, hclean⟩ := canon_same_entry_and_clean s s h
    rcases hclean with h0 | ⟨_, hall⟩
    · exact Or.inl h0
    · exact Or.inr hall
  · rintro (rfl | hall)
    · decide
    · rw [canon_eq_spec]; unfold specCanon
      have hno : ¬ ([DOT, DOT] : Bytes) ∈ splitSlash s := fun m => (hall _ m).2.2.1 rfl
      simp only [hno, if_false, Option.some.injEq]
      have hk : (splitSlash s).filter keep = splitSlash s := by
        apply List.filter_eq_self.2
        intro c hc
        obtain ⟨h1, h2, _, _⟩ := hall c hc
        simp [keep, isNE_iff.2 h1, notDot_iff.2 h2]
      rw [hk]; exact (splitSlash_spec s).2

/-- **Canonicalisation only deletes bytes**: the result is a subsequence of the input — no byte is invented,
reordered or changed (so in particular a NUL-free, or valid-UTF-8-continuation-free, … input stays so). -/
theorem canon_sublist (s r : Bytes) (h : canonicalize s = some r) : r.Sublist s := by
  obtain ⟨hr, _⟩ := canon_same_entry_and_clean s r h
  subst hr
  have := joinSlash_filter_sublist keep (splitSlash s)
  rwa [(splitSlash_spec s).2] at this

/-- the component-level counterpart: the kept components are a sub-list of the input's components, in order -/
theorem canon_components_sublist (s r : Bytes) (h : canonicalize s = some r) (hr : r ≠ []) :
    (splitSlash r).Sublist (splitSlash s) := by
  obtain ⟨_, hclean⟩ := canon_same_entry_and_clean s r h
  rcases hclean with rfl | ⟨hsp, _⟩
  · exact absurd rfl hr
  · rw [hsp]; exact List.filter_sublist

/-! ### non-vacuity: concrete inputs that exercise every branch -/

-- "//a/./b//c/." → "a/b/c"
example : canonicalize [47,47,97,47,46,47,98,47,47,99,47,46] = some [97,47,98,47,99] := by decide
-- "a/../b" refused
example : canonicalize [97,47,46,46,47,98] = none := by decide
-- "..." and "..a" are ordinary names
example : canonicalize [46,46,46,47,46,46,97] = some [46,46,46,47,46,46,97] := by decide
example : isFilenameSane [46,46,46] = true ∧ isFilenameSane [46,46] = false ∧ isFilenameSane [97,47] = false := by decide

-- in place, with bytes behind the terminator: "//a/./b" ++ NUL ++ [1,2]  ->  "a/b" NUL junk(4) 1 2
example : Sqfs.PathIP.canonicalizeIP 10 [47,47,97,47,46,47,98,0,1,2] = some (.ok [97,47,98,0,98,0,98,0,1,2]) := by decide
example : Sqfs.PathIP.canonicalizeIP 10 [97,47,46,46,0,7] = some .fail := by decide
example : Sqfs.PathIP.normalizeIP 9 [47,47,97,47,47,98,47,0,9] = some [97,47,98,0,47,98,47,0,9] := by decide
example : Sqfs.PathIP.canonInPlace [46,47,46,46,46,47,47] = some (some [46,46,46]) := by decide

/-! the theorems applied to these inputs, every hypothesis discharged -/
example := canon_eq_spec [47,47,97,47,46,47,98,47,47,99,47,46]
example := (canon_fails_iff_dotdot [97,47,46,46,47,98]).1 (by decide)
example := canon_same_entry_and_clean [47,47,97,47,46,47,98,47,47,99,47,46] [97,47,98,47,99] (by decide)
example := canon_length_le [47,47,97,47,46,47,98,47,47,99,47,46] [97,47,98,47,99] (by decide)
example := canon_idempotent [47,47,97,47,46,47,98,47,47,99,47,46] [97,47,98,47,99] (by decide)
example := (sane_iff [46,46,46]).1 (by decide)
example := norm_dst_le_src true true [47,47,97,47,46,47,98,47,47,99,47,46]
example : ∃ r, canonGo true (normalizeSlashes [47,47,97,47,46,47,98,47,47,99,47,46]) = some r ∧
    r.length ≤ (normalizeSlashes [47,47,97,47,46,47,98,47,47,99,47,46]).length := by
  have hk : (canonGo true (normalizeSlashes [47,47,97,47,46,47,98,47,47,99,47,46])).isSome = true := by decide
  cases h : canonGo true (normalizeSlashes [47,47,97,47,46,47,98,47,47,99,47,46]) with
  | none => rw [h] at hk; cases hk
  | some r => exact ⟨r, rfl, canon_dst_le_src true _ r h⟩
example := canon_inplace_memory [47,47,97,47,46,47,98,47,47,99,47,46] (by decide) [1, 2] 20 (by decide)
example := (canon_inplace_memory [97,47,46,46] (by decide) [7] 10 (by decide)).1 (by decide)
example := norm_inplace_memory [47,47,97,47,46,47,98,47,47,99,47,46] (by decide) [9] 20 (by decide)
example := canon_inplace_eq_model [47,47,97,47,46,47,98,47,47,99,47,46] (by decide)

/-! the later theorems on concrete inputs -/
example := canon_no_stray_slash [47,47,97,47,46,47,98,47,47,99,47,46] [97,47,98,47,99] (by decide)
example := canon_components_sane [47,47,97,47,46,47,98,47,47,99,47,46] [97,47,98,47,99] (by decide) (by decide)
example := sane_name_is_fixed [46,46,46] (by decide) (by decide)
example := (canon_fixed_iff_clean [97,47,98,47,99]).1 (by decide)
example : ¬ (canonicalize [97,47,47,98] = some [97,47,47,98]) := by decide
example := canon_sublist [47,47,97,47,46,47,98,47,47,99,47,46] [97,47,98,47,99] (by decide)
example := canon_components_sublist [47,47,97,47,46,47,98,47,47,99,47,46] [97,47,98,47,99] (by decide) (by decide)

end Sqfs.C18
